(* Proofs about Model/JsonEnc.v: what the encoded text of a string / value / event consists of (no newline),
   one line per event, the decoder reads back every encoded string (round trip), injectivity, independence of
   the insertion order of maps.  Statements are re-exported by Props/C10.v, C06.v, C14.v. *)
From Coq Require Import Ascii String List Bool Arith NArith ZArith Lia Permutation Sorted.
Import ListNotations.
From AM Require Import Lib.Bytes Model.JsonEnc Model.Framing Proofs.FramingLemmas.
Open Scope list_scope.
Open Scope N_scope.

(* lia over N with div / mod by constants *)
Local Ltac Zify.zify_post_hook ::= Z.to_euclidean_division_equations.

(* ================= bytes: a finite domain ================= *)

Definition all_bytes : list ascii := map ascii_of_nat (seq 0 256).

Lemma all_bytes_complete b : In b all_bytes.
Proof.
  unfold all_bytes. rewrite <- (ascii_nat_embedding b). apply in_map. apply in_seq.
  pose proof (nat_ascii_bounded b) as Hb. lia.
Qed.

(* a boolean fact checked for the 256 bytes holds for every byte *)
Lemma byte_forall (P : ascii -> bool) : forallb P all_bytes = true -> forall b, P b = true.
Proof. intros H b. rewrite forallb_forall in H. apply H. apply all_bytes_complete. Qed.

Lemma nb_lt_256 b : nb b < 256.
Proof. unfold nb. apply N_ascii_bounded. Qed.

Lemma bN_nb b : bN (nb b) = b.
Proof. unfold bN, nb. apply ascii_N_embedding. Qed.

Lemma nb_bN n : n < 256 -> nb (bN n) = n.
Proof. intros H. unfold bN, nb. apply N_ascii_embedding. exact H. Qed.

Lemma nb_inj a b : nb a = nb b -> a = b.
Proof. intros H. rewrite <- (bN_nb a), <- (bN_nb b), H. reflexivity. Qed.

Lemma ascii_eqb_nb a b : Ascii.eqb a b = (nb a =? nb b).
Proof.
  destruct (Ascii.eqb_spec a b) as [->|Hne]; symmetry.
  - apply N.eqb_refl.
  - apply N.eqb_neq. intros H. apply Hne. apply nb_inj. exact H.
Qed.

(* ================= decode_rune ================= *)

Lemma lead_info_some n0 sz lo hi : lead_info n0 = Some (sz, lo, hi) ->
  0xC2 <= n0 /\ 0x80 <= lo /\ hi <= 0xBF /\ (2 <= sz <= 4)%nat /\
  (sz = 2%nat -> n0 < 0xE0) /\ (sz = 3%nat -> 0xE0 <= n0 < 0xF0) /\ (sz = 4%nat -> 0xF0 <= n0 < 0xF8 /\ (n0 = 0xF0 -> lo = 0x90)).
Proof.
  unfold lead_info.
  repeat match goal with
         | |- context [if ?c then _ else _] => let E := fresh "E" in destruct c eqn:E
         end; intros H; inversion H; subst; clear H;
    repeat match goal with
           | H : (_ <? _) = true |- _ => apply N.ltb_lt in H
           | H : (_ <? _) = false |- _ => apply N.ltb_ge in H
           | H : (_ =? _) = true |- _ => apply N.eqb_eq in H
           | H : (_ =? _) = false |- _ => apply N.eqb_neq in H
           end; repeat split; try lia; intros; try discriminate; try lia.
Qed.

(* what one step of the decoding loop can be *)
Inductive dr_shape : str -> N -> nat -> Prop :=
| DrAscii b r : nb b < 0x80 -> dr_shape (b :: r) (nb b) 1
| DrInvalid b r : 0x80 <= nb b -> dr_shape (b :: r) rune_error 1
| Dr2 b0 b1 r : 0xC2 <= nb b0 < 0xE0 -> 0x80 <= nb b1 <= 0xBF ->
    dr_shape (b0 :: b1 :: r) ((nb b0 mod 32) * 64 + nb b1 mod 64) 2
| Dr3 b0 b1 b2 r : 0xE0 <= nb b0 < 0xF0 -> 0x80 <= nb b1 <= 0xBF -> 0x80 <= nb b2 <= 0xBF ->
    dr_shape (b0 :: b1 :: b2 :: r) ((nb b0 mod 16) * 4096 + (nb b1 mod 64) * 64 + nb b2 mod 64) 3
| Dr4 b0 b1 b2 b3 r : 0xF0 <= nb b0 < 0xF8 -> 0x80 <= nb b1 <= 0xBF -> (nb b0 = 0xF0 -> 0x90 <= nb b1) ->
    0x80 <= nb b2 <= 0xBF -> 0x80 <= nb b3 <= 0xBF ->
    dr_shape (b0 :: b1 :: b2 :: b3 :: r)
             ((nb b0 mod 8) * 262144 + (nb b1 mod 64) * 4096 + (nb b2 mod 64) * 64 + nb b3 mod 64) 4.

Lemma is_cont_true n : is_cont n = true -> 0x80 <= n <= 0xBF.
Proof. unfold is_cont. intros H. apply andb_true_iff in H. destruct H as [H1 H2]. apply N.leb_le in H1, H2. lia. Qed.

Lemma decode_rune_shape b r : dr_shape (b :: r) (fst (decode_rune (b :: r))) (snd (decode_rune (b :: r))).
Proof.
  unfold decode_rune.
  destruct (nb b <? 0x80) eqn:E0.
  { apply N.ltb_lt in E0. cbn [fst snd]. apply DrAscii. exact E0. }
  apply N.ltb_ge in E0.
  destruct (lead_info (nb b)) as [[[sz lo] hi]|] eqn:EL; [|cbn [fst snd]; apply DrInvalid; exact E0].
  apply lead_info_some in EL. destruct EL as (L0 & Llo & Lhi & Lsz & L2 & L3 & L4).
  destruct r as [|b1 r2]; [cbn [fst snd]; apply DrInvalid; exact E0|].
  destruct ((nb b1 <? lo) || (hi <? nb b1)) eqn:E1; [cbn [fst snd]; apply DrInvalid; exact E0|].
  apply orb_false_iff in E1. destruct E1 as [E1a E1b]. apply N.ltb_ge in E1a, E1b.
  destruct (sz <=? 2)%nat eqn:S2.
  { apply Nat.leb_le in S2. cbn [fst snd]. apply Dr2; [|lia]. assert (sz = 2%nat) as Hs by lia. specialize (L2 Hs). lia. }
  apply Nat.leb_gt in S2.
  destruct r2 as [|b2 r3]; [cbn [fst snd]; apply DrInvalid; exact E0|].
  destruct (is_cont (nb b2)) eqn:C2; cbn [negb]; [|cbn [fst snd]; apply DrInvalid; exact E0].
  apply is_cont_true in C2.
  destruct (sz <=? 3)%nat eqn:S3.
  { apply Nat.leb_le in S3. cbn [fst snd]. apply Dr3; [|lia|lia]. assert (sz = 3%nat) as Hs by lia. specialize (L3 Hs). lia. }
  apply Nat.leb_gt in S3.
  destruct r3 as [|b3 r4]; [cbn [fst snd]; apply DrInvalid; exact E0|].
  destruct (is_cont (nb b3)) eqn:C3; cbn [negb]; [|cbn [fst snd]; apply DrInvalid; exact E0].
  apply is_cont_true in C3.
  assert (sz = 4%nat) as Hs by lia. specialize (L4 Hs). destruct L4 as [L4 L4'].
  cbn [fst snd]. apply Dr4; lia.
Qed.

Lemma decode_rune_shape' b r c n : decode_rune (b :: r) = (c, n) -> dr_shape (b :: r) c n.
Proof. intros E. pose proof (decode_rune_shape b r) as Sh. rewrite E in Sh. exact Sh. Qed.

(* ================= the decoding loop: one rune at a time ================= *)

Definition rune_ok (r : N * nat * str) : Prop :=
  let '(c, n, bytes) := r in
  (exists b, bytes = [b] /\ n = 1%nat /\ nb b < 0x80 /\ c = nb b) \/
  (exists b, bytes = [b] /\ n = 1%nat /\ 0x80 <= nb b /\ c = rune_error) \/
  ((2 <= n)%nat /\ length bytes = n /\ Forall (fun x => 0x80 <= nb x) bytes /\
   (c = 0x2028 \/ c = 0x2029 -> bytes = utf8_encode c)).

Lemma utf8_encode_ls a b c u : 0xE0 <= nb a < 0xF0 -> 0x80 <= nb b <= 0xBF -> 0x80 <= nb c <= 0xBF ->
  u = (nb a mod 16) * 4096 + (nb b mod 64) * 64 + nb c mod 64 ->
  u = 0x2028 \/ u = 0x2029 -> [a; b; c] = utf8_encode u.
Proof.
  intros Ha Hb Hc Eu Hu.
  assert (nb a = 0xE2 /\ nb b = 0x80 /\ (u = 0x2028 /\ nb c = 0xA8 \/ u = 0x2029 /\ nb c = 0xA9)) as (Ea & Eb & Ec) by lia.
  rewrite <- (bN_nb a), <- (bN_nb b), <- (bN_nb c), Ea, Eb.
  destruct Ec as [[-> Ec] | [-> Ec]]; rewrite Ec; reflexivity.
Qed.

(* the loop's step: the first rune and the rest *)
Lemma runes_step b r c n : decode_rune (b :: r) = (c, n) ->
  runes (b :: r) = (c, n, firstn n (b :: r)) :: runes (skipn n (b :: r)).
Proof.
  intros E. pose proof (decode_rune_shape' b r c n E) as Sh.
  change (runes (b :: r)) with
    (let r1 := r in
     let r2 := match r1 with [] => r1 | _ :: t => t end in
     let r3 := match r2 with [] => r2 | _ :: t => t end in
     let r4 := match r3 with [] => r3 | _ :: t => t end in
     let cs := decode_rune (b :: r) in
     (fst cs, snd cs, firstn (snd cs) (b :: r))
       :: runes (match snd cs with 0%nat | 1%nat => r1 | 2%nat => r2 | 3%nat => r3 | _ => r4 end)).
  cbv zeta. rewrite E. cbn [fst snd]. f_equal. f_equal.
  inversion Sh; subst; reflexivity.
Qed.

Lemma runes_cons b r :
  let s := b :: r in
  runes s = (fst (decode_rune s), snd (decode_rune s), firstn (snd (decode_rune s)) s)
            :: runes (skipn (snd (decode_rune s)) s).
Proof. intros s. subst s. destruct (decode_rune (b :: r)) as [c n] eqn:E. cbn [fst snd]. apply runes_step. exact E. Qed.

Lemma runes_nil : runes [] = [].
Proof. reflexivity. Qed.

Lemma first_rune_ok' b r c n : decode_rune (b :: r) = (c, n) -> rune_ok (c, n, firstn n (b :: r)).
Proof.
  intros E. pose proof (decode_rune_shape' b r c n E) as Sh.
  inversion Sh as [b' r' Hb | b' r' Hb | b0 b1 r' H0 H1 | b0 b1 b2 r' H0 H1 H2 | b0 b1 b2 b3 r' H0 H1 H1' H2 H3]; subst; unfold rune_ok.
  - left. exists b. cbn. repeat split; assumption.
  - right; left. exists b. cbn. repeat split; assumption.
  - right; right. cbn [firstn length]. repeat split; try lia; try (repeat constructor; lia).
  - right; right. cbn [firstn length]. repeat split; try lia; try (repeat constructor; lia).
    intros Hc. apply utf8_encode_ls; try assumption. reflexivity.
  - right; right. cbn [firstn length]. repeat split; try lia; try (repeat constructor; lia).
Qed.

Lemma first_rune_ok b r :
  let s := b :: r in rune_ok (fst (decode_rune s), snd (decode_rune s), firstn (snd (decode_rune s)) s).
Proof. intros s. subst s. destruct (decode_rune (b :: r)) as [c n] eqn:E. cbn [fst snd]. apply first_rune_ok'. exact E. Qed.

Lemma first_rune_size b r : (1 <= snd (decode_rune (b :: r)) <= 4)%nat.
Proof.
  destruct (decode_rune (b :: r)) as [c n] eqn:E. cbn [snd].
  pose proof (decode_rune_shape' b r c n E) as Sh. inversion Sh; lia.
Qed.

(* induction along the decoding loop *)
Lemma rune_ind (P : str -> Prop) :
  P [] ->
  (forall b r, P (skipn (snd (decode_rune (b :: r))) (b :: r)) -> P (b :: r)) ->
  forall s, P s.
Proof.
  intros H0 Hs s.
  assert (forall n s, (length s <= n)%nat -> P s) as G.
  { induction n as [|n IH]; intros s' Hl.
    - destruct s'; [exact H0|cbn in Hl; lia].
    - destruct s' as [|b r]; [exact H0|]. apply Hs. apply IH.
      pose proof (first_rune_size b r) as Hsz. rewrite skipn_length. cbn [length] in *. lia. }
  apply (G (length s)). lia.
Qed.

Lemma runes_ok s : Forall rune_ok (runes s).
Proof.
  induction s as [|b r IH] using rune_ind; [constructor|].
  rewrite runes_cons. constructor; [apply first_rune_ok|exact IH].
Qed.

(* the runes partition the string *)
Lemma runes_concat s : flat_map snd (runes s) = s.
Proof.
  induction s as [|b r IH] using rune_ind; [reflexivity|].
  rewrite runes_cons. cbn [flat_map snd]. rewrite IH. apply firstn_skipn.
Qed.

(* ---------- appendString is a map over the runes ---------- *)

Definition enc_rune (r : N * nat * str) : str :=
  let '(c, n, bytes) := r in
  match bytes with
  | [b] => if nb b <? 0x80 then esc_ascii b else esc_replacement
  | _ => if (c =? 0x2028) || (c =? 0x2029) then s2l "\u202" ++ [hexdigit (c mod 16)] else bytes
  end.

Lemma enc_body_step b r c n : decode_rune (b :: r) = (c, n) ->
  enc_body (b :: r) = enc_rune (c, n, firstn n (b :: r)) ++ enc_body (skipn n (b :: r)).
Proof.
  intros E. pose proof (decode_rune_shape' b r c n E) as Sh.
  change (enc_body (b :: r)) with
    (if nb b <? 0x80 then esc_ascii b ++ enc_body r
     else
      let r1 := r in
      let r2 := match r1 with [] => r1 | _ :: t => t end in
      let r3 := match r2 with [] => r2 | _ :: t => t end in
      let r4 := match r3 with [] => r3 | _ :: t => t end in
      let cs := decode_rune (b :: r) in
      let c := fst cs in
      let size := snd cs in
      if (c =? rune_error) && (size =? 1)%nat then esc_replacement ++ enc_body r1
      else
        let rest := match size with 0%nat | 1%nat => r1 | 2%nat => r2 | 3%nat => r3 | _ => r4 end in
        if (c =? 0x2028) || (c =? 0x2029) then s2l "\u202" ++ [hexdigit (c mod 16)] ++ enc_body rest
        else firstn size (b :: r) ++ enc_body rest).
  cbv zeta. rewrite E. cbn [fst snd].
  inversion Sh as [b' r' Hb | b' r' Hb | b0 b1 r' H0 H1 | b0 b1 b2 r' H0 H1 H2 | b0 b1 b2 b3 r' H0 H1 H1' H2 H3]; subst.
  - (* ASCII *)
    assert (nb b <? 0x80 = true) as E' by (apply N.ltb_lt; exact Hb). rewrite E'.
    cbn [firstn skipn enc_rune]. rewrite E'. reflexivity.
  - (* invalid byte *)
    assert (nb b <? 0x80 = false) as E' by (apply N.ltb_ge; exact Hb). rewrite E'.
    rewrite N.eqb_refl. cbn [Nat.eqb andb firstn skipn enc_rune]. rewrite E'. reflexivity.
  - assert (nb b <? 0x80 = false) as E' by (apply N.ltb_ge; lia). rewrite E'.
    cbn [Nat.eqb andb]. rewrite andb_false_r.
    cbn [firstn skipn enc_rune].
    destruct ((_ =? 0x2028) || (_ =? 0x2029)); [rewrite <- !app_assoc|]; reflexivity.
  - assert (nb b <? 0x80 = false) as E' by (apply N.ltb_ge; lia). rewrite E'.
    cbn [Nat.eqb andb]. rewrite andb_false_r.
    cbn [firstn skipn enc_rune].
    destruct ((_ =? 0x2028) || (_ =? 0x2029)); [rewrite <- !app_assoc|]; reflexivity.
  - assert (nb b <? 0x80 = false) as E' by (apply N.ltb_ge; lia). rewrite E'.
    cbn [Nat.eqb andb]. rewrite andb_false_r.
    cbn [firstn skipn enc_rune].
    destruct ((_ =? 0x2028) || (_ =? 0x2029)); [rewrite <- !app_assoc|]; reflexivity.
Qed.

Lemma enc_body_cons b r :
  let s := b :: r in
  enc_body s = enc_rune (fst (decode_rune s), snd (decode_rune s), firstn (snd (decode_rune s)) s)
               ++ enc_body (skipn (snd (decode_rune s)) s).
Proof. intros s. subst s. destruct (decode_rune (b :: r)) as [c n] eqn:E. cbn [fst snd]. apply enc_body_step. exact E. Qed.

Lemma enc_body_runes s : enc_body s = flat_map enc_rune (runes s).
Proof.
  induction s as [|b r IH] using rune_ind; [reflexivity|].
  rewrite enc_body_cons, runes_cons. cbn [flat_map]. rewrite IH. reflexivity.
Qed.

(* ================= which bytes the text of a string consists of ================= *)


Lemma esc_ascii_out_all :
  forallb (fun b => if nb b <? 0x80 then forallb out_byte_ok (esc_ascii b) else true) all_bytes = true.
Proof. vm_compute. reflexivity. Qed.

Lemma high_byte_out x : 0x80 <= nb x -> out_byte_ok x = true.
Proof.
  intros H. unfold out_byte_ok.
  assert (0x20 <=? nb x = true) as -> by (apply N.leb_le; lia).
  assert (nb x =? 0x26 = false) as -> by (apply N.eqb_neq; lia).
  assert (nb x =? 0x3C = false) as -> by (apply N.eqb_neq; lia).
  assert (nb x =? 0x3E = false) as -> by (apply N.eqb_neq; lia).
  reflexivity.
Qed.

Lemma enc_rune_out r : rune_ok r -> forallb out_byte_ok (enc_rune r) = true.
Proof.
  destruct r as [[c n] bytes]. intros [(b & -> & -> & Hb & ->) | [(b & -> & -> & Hb & ->) | (Hn & Hl & Hall & Hls)]]; cbn [enc_rune].
  - assert (nb b <? 0x80 = true) as E by (apply N.ltb_lt; exact Hb). rewrite E.
    pose proof (byte_forall _ esc_ascii_out_all b) as H. cbv beta in H. rewrite E in H. exact H.
  - assert (nb b <? 0x80 = false) as E by (apply N.ltb_ge; exact Hb). rewrite E. reflexivity.
  - destruct bytes as [|x [|y l]]; [cbn in Hl; lia|cbn in Hl; lia|].
    destruct ((c =? 0x2028) || (c =? 0x2029)) eqn:E.
    + apply orb_true_iff in E. destruct E as [E | E]; apply N.eqb_eq in E; subst c; reflexivity.
    + apply forallb_forall. intros z Hz. rewrite Forall_forall in Hall. apply high_byte_out. apply Hall. exact Hz.
Qed.

Lemma forallb_flat_map {A B} (p : B -> bool) (f : A -> list B) (l : list A) :
  (forall a, In a l -> forallb p (f a) = true) -> forallb p (flat_map f l) = true.
Proof.
  induction l as [|a l IH]; intros H; [reflexivity|].
  cbn [flat_map]. rewrite forallb_app. rewrite H by (left; reflexivity). apply IH. intros a' Ha. apply H. right. exact Ha.
Qed.

Lemma enc_body_out s : forallb out_byte_ok (enc_body s) = true.
Proof.
  rewrite enc_body_runes. apply forallb_flat_map. intros r Hr. apply enc_rune_out.
  pose proof (runes_ok s) as H. rewrite Forall_forall in H. apply H. exact Hr.
Qed.

Theorem enc_string_out s : forallb out_byte_ok (enc_string s) = true.
Proof.
  unfold enc_string. cbn [forallb]. rewrite forallb_app, enc_body_out. reflexivity.
Qed.

Lemma out_ok_not_newline l : forallb out_byte_ok l = true -> ~ In newline l.
Proof.
  intros H Hin. rewrite forallb_forall in H. specialize (H _ Hin). discriminate H.
Qed.

Theorem enc_string_no_newline s : ~ In newline (enc_string s).
Proof. apply out_ok_not_newline. apply enc_string_out. Qed.

(* first and last byte are the quotes *)
Theorem enc_string_quoted s : exists body, enc_string s = dq :: body ++ [dq].
Proof. exists (enc_body s). reflexivity. Qed.

(* ================= reading a string literal back ================= *)


Lemma pre_pre a b x : pre a (pre b x) = pre (a ++ b) x.
Proof. destruct x as [[d rest]|]; cbn; [rewrite app_assoc|]; reflexivity. Qed.

Lemma pre_nil x : pre [] x = x.
Proof. destruct x as [[d rest]|]; reflexivity. Qed.

Lemma dec_plain_cons c r : plainb c = true -> dec_chars None (c :: r) = pre [c] (dec_chars None r).
Proof.
  unfold plainb. intros H. apply andb_true_iff in H. destruct H as [H H3]. apply andb_true_iff in H. destruct H as [H1 H2].
  apply negb_true_iff in H2, H3. apply N.leb_le in H1.
  cbn [dec_chars]. rewrite H2, H3.
  assert (nb c <? 0x20 = false) as -> by (apply N.ltb_ge; exact H1). reflexivity.
Qed.

Lemma dec_plain_app l t : forallb plainb l = true -> dec_chars None (l ++ t) = pre l (dec_chars None t).
Proof.
  induction l as [|c l IH]; intros H; [symmetry; apply pre_nil|].
  cbn [forallb] in H. apply andb_true_iff in H. destruct H as [Hc Hl].
  cbn [app]. rewrite dec_plain_cons by exact Hc. rewrite IH by exact Hl. rewrite pre_pre. reflexivity.
Qed.

Lemma nb_bsl : nb bsl = 0x5C. Proof. reflexivity. Qed.
Lemma nb_dq : nb dq = 0x22. Proof. reflexivity. Qed.

Lemma dec_short e b t : short_unescape e = Some b -> (nb e =? 0x75) = false ->
  dec_chars None (bsl :: e :: t) = pre [b] (dec_chars None t).
Proof.
  intros Hs He. cbn [dec_chars]. rewrite nb_bsl.
  change (0x5C =? 0x22) with false. change (0x5C <? 0x20) with false. change (0x5C =? 0x5C) with true. cbv iota.
  rewrite He, Hs. reflexivity.
Qed.

Lemma dec_u4 u0 h1 h2 h3 h4 u t : (nb u0 =? 0x75) = true -> hex4 h1 h2 h3 h4 = Some u ->
  is_hi_surrogate u = false -> is_lo_surrogate u = false ->
  dec_chars None (bsl :: u0 :: h1 :: h2 :: h3 :: h4 :: t) = pre (utf8_encode u) (dec_chars None t).
Proof.
  intros Hu Hh Hhi Hlo. cbn [dec_chars]. rewrite nb_bsl.
  change (0x5C =? 0x22) with false. change (0x5C <? 0x20) with false. change (0x5C =? 0x5C) with true. cbv iota.
  rewrite Hu, Hh, Hhi, Hlo. reflexivity.
Qed.

(* the shapes of esc_ascii, checked for all 128 ASCII bytes *)
Definition esc_class_ok (b : ascii) : bool :=
  if nb b <? 0x80 then
    match esc_ascii b with
    | [x] => Ascii.eqb x b && plainb b
    | [x; e] => Ascii.eqb x bsl && negb (nb e =? 0x75)
                && match short_unescape e with Some y => Ascii.eqb y b | None => false end
    | [x; u; h1; h2; h3; h4] =>
        Ascii.eqb x bsl && (nb u =? 0x75)
        && match hex4 h1 h2 h3 h4 with Some v => (v =? nb b) | None => false end
    | _ => false
    end
  else true.

Lemma esc_class_all : forallb esc_class_ok all_bytes = true.
Proof. vm_compute. reflexivity. Qed.

Lemma low_not_surrogate u : u < 0x80 -> is_hi_surrogate u = false /\ is_lo_surrogate u = false.
Proof.
  intros H. unfold is_hi_surrogate, is_lo_surrogate.
  assert (0xD800 <=? u = false) as -> by (apply N.leb_gt; lia).
  assert (0xDC00 <=? u = false) as -> by (apply N.leb_gt; lia). split; reflexivity.
Qed.

Lemma dec_esc_ascii b t : nb b < 0x80 -> dec_chars None (esc_ascii b ++ t) = pre [b] (dec_chars None t).
Proof.
  intros Hb. pose proof (byte_forall _ esc_class_all b) as H. unfold esc_class_ok in H.
  assert (nb b <? 0x80 = true) as E by (apply N.ltb_lt; exact Hb). rewrite E in H.
  destruct (esc_ascii b) as [|x [|e [|h1 [|h2 [|h3 [|h4 [|z zs]]]]]]]; try discriminate H.
  - apply andb_true_iff in H. destruct H as [H1 H2]. apply Ascii.eqb_eq in H1. subst x.
    cbn [app]. apply dec_plain_cons. exact H2.
  - apply andb_true_iff in H. destruct H as [H H3]. apply andb_true_iff in H. destruct H as [H1 H2].
    apply Ascii.eqb_eq in H1. subst x. apply negb_true_iff in H2.
    destruct (short_unescape e) as [y|] eqn:Es; [|discriminate H3]. apply Ascii.eqb_eq in H3. subst y.
    cbn [app]. apply dec_short; assumption.
  - apply andb_true_iff in H. destruct H as [H H3]. apply andb_true_iff in H. destruct H as [H1 H2].
    apply Ascii.eqb_eq in H1. subst x.
    destruct (hex4 h1 h2 h3 h4) as [v|] eqn:Eh; [|discriminate H3]. apply N.eqb_eq in H3. subst v.
    cbn [app]. destruct (low_not_surrogate (nb b) Hb) as [Hhi Hlo].
    rewrite (dec_u4 e h1 h2 h3 h4 (nb b) t H2 Eh Hhi Hlo).
    unfold utf8_encode. rewrite E, bN_nb. reflexivity.
Qed.

Definition san_rune (r : N * nat * str) : str := if is_invalid r then utf8_replacement else snd r.

Lemma sanitize_runes s : sanitize s = flat_map san_rune (runes s).
Proof. reflexivity. Qed.

Lemma dec_esc_replacement t : dec_chars None (esc_replacement ++ t) = pre utf8_replacement (dec_chars None t).
Proof. reflexivity. Qed.

Lemma dec_esc_ls t : dec_chars None ((s2l "\u202" ++ [hexdigit (0x2028 mod 16)]) ++ t) = pre (utf8_encode 0x2028) (dec_chars None t).
Proof. reflexivity. Qed.

Lemma dec_esc_ps t : dec_chars None ((s2l "\u202" ++ [hexdigit (0x2029 mod 16)]) ++ t) = pre (utf8_encode 0x2029) (dec_chars None t).
Proof. reflexivity. Qed.

Lemma high_byte_plain x : 0x80 <= nb x -> plainb x = true.
Proof.
  intros H. unfold plainb.
  assert (0x20 <=? nb x = true) as -> by (apply N.leb_le; lia).
  assert (nb x =? 0x22 = false) as -> by (apply N.eqb_neq; lia).
  assert (nb x =? 0x5C = false) as -> by (apply N.eqb_neq; lia).
  reflexivity.
Qed.

Lemma dec_enc_rune r t : rune_ok r -> dec_chars None (enc_rune r ++ t) = pre (san_rune r) (dec_chars None t).
Proof.
  destruct r as [[c n] bytes]. intros [(b & -> & -> & Hb & ->) | [(b & -> & -> & Hb & ->) | (Hn & Hl & Hall & Hls)]];
    unfold san_rune, is_invalid; cbn [enc_rune snd].
  - assert (nb b <? 0x80 = true) as E by (apply N.ltb_lt; exact Hb). rewrite E.
    assert (nb b =? rune_error = false) as -> by (apply N.eqb_neq; unfold rune_error; lia).
    cbn [andb]. apply dec_esc_ascii. exact Hb.
  - assert (nb b <? 0x80 = false) as E by (apply N.ltb_ge; exact Hb). rewrite E.
    rewrite N.eqb_refl. cbn [Nat.eqb andb]. apply dec_esc_replacement.
  - assert ((n =? 1)%nat = false) as -> by (apply Nat.eqb_neq; lia). rewrite andb_false_r.
    destruct bytes as [|x [|y l]]; [cbn in Hl; lia|cbn in Hl; lia|].
    destruct ((c =? 0x2028) || (c =? 0x2029)) eqn:E.
    + apply orb_true_iff in E. destruct E as [E | E]; apply N.eqb_eq in E; subst c.
      * rewrite (Hls (or_introl eq_refl)). apply dec_esc_ls.
      * rewrite (Hls (or_intror eq_refl)). apply dec_esc_ps.
    + apply dec_plain_app. apply forallb_forall. intros z Hz. rewrite Forall_forall in Hall.
      apply high_byte_plain. apply Hall. exact Hz.
Qed.

Lemma dec_enc_runes rs t : Forall rune_ok rs ->
  dec_chars None (flat_map enc_rune rs ++ t) = pre (flat_map san_rune rs) (dec_chars None t).
Proof.
  induction rs as [|r rs IH]; intros H; [symmetry; apply pre_nil|].
  inversion H as [|r' rs' Hr Hrs]; subst.
  cbn [flat_map]. rewrite <- app_assoc. rewrite dec_enc_rune by exact Hr. rewrite IH by exact Hrs.
  apply pre_pre.
Qed.

Lemma dec_enc_body s t : dec_chars None (enc_body s ++ t) = pre (sanitize s) (dec_chars None t).
Proof. rewrite enc_body_runes, sanitize_runes. apply dec_enc_runes. apply runes_ok. Qed.

(* ROUND TRIP, with anything after the literal: the decoder finds the end of the string exactly where the
   encoder put it and recovers the (sanitised) field *)
Theorem dec_enc_string_prefix s rest : dec_string_prefix (enc_string s ++ rest) = Some (sanitize s, rest).
Proof.
  unfold enc_string, dec_string_prefix. cbn [app]. rewrite nb_dq. change (0x22 =? 0x22) with true. cbv iota.
  rewrite <- app_assoc. rewrite dec_enc_body. cbn [app dec_chars]. rewrite nb_dq. change (0x22 =? 0x22) with true. cbv iota.
  cbn [pre]. rewrite app_nil_r. reflexivity.
Qed.

Theorem dec_enc_string s : dec_string (enc_string s) = Some (sanitize s).
Proof.
  unfold dec_string. rewrite <- (app_nil_r (enc_string s)). rewrite dec_enc_string_prefix. reflexivity.
Qed.

(* valid UTF-8 is left alone *)
Theorem sanitize_valid s : valid_utf8 s = true -> sanitize s = s.
Proof.
  unfold valid_utf8. intros H. rewrite sanitize_runes. rewrite <- (runes_concat s) at 2.
  induction (runes s) as [|r rs IH]; [reflexivity|].
  cbn [forallb] in H. apply andb_true_iff in H. destruct H as [Hr Hrs]. apply negb_true_iff in Hr.
  cbn [flat_map]. unfold san_rune at 1. rewrite Hr. rewrite IH by exact Hrs. reflexivity.
Qed.

Theorem dec_enc_string_valid s : valid_utf8 s = true -> dec_string (enc_string s) = Some s.
Proof. intros H. rewrite dec_enc_string, sanitize_valid by exact H. reflexivity. Qed.

(* the encoding determines the sanitised string; on valid UTF-8 it is injective *)
Theorem enc_string_sanitize_inj s1 s2 : enc_string s1 = enc_string s2 -> sanitize s1 = sanitize s2.
Proof.
  intros H. pose proof (dec_enc_string s1) as H1. rewrite H, dec_enc_string in H1. inversion H1. reflexivity.
Qed.

Theorem enc_string_inj s1 s2 : valid_utf8 s1 = true -> valid_utf8 s2 = true -> enc_string s1 = enc_string s2 -> s1 = s2.
Proof.
  intros V1 V2 H. apply enc_string_sanitize_inj in H. rewrite !sanitize_valid in H by assumption. exact H.
Qed.

(* sanitising is idempotent, its result is valid: what a reader gets is a fixed point *)
Lemma utf8_replacement_runes t : runes (utf8_replacement ++ t) = (0xFFFD, 3%nat, utf8_replacement) :: runes t.
Proof. unfold utf8_replacement. cbn [app]. rewrite (runes_step _ _ 0xFFFD 3%nat) by reflexivity. reflexivity. Qed.

(* ================= values ================= *)

Lemma jval_ind' (P : jval -> Prop) :
  (forall s, P (JStr s)) -> (forall t, P (JTxt t)) -> P JNull ->
  (forall l, Forall P l -> P (JArr l)) ->
  (forall m, Forall (fun kv => P (snd kv)) m -> P (JObj m)) ->
  forall v, P v.
Proof.
  intros Hs Ht Hn Ha Ho. fix IH 1. intros [s|t| |l|m].
  - apply Hs.
  - apply Ht.
  - apply Hn.
  - apply Ha. induction l as [|x l IHl]; constructor; [apply IH|exact IHl].
  - apply Ho. induction m as [|[k x] m IHm]; constructor; [apply IH|exact IHm].
Qed.

Lemma enc_value_arr l : enc_value (JArr l) = s2l "[" ++ join_comma (map enc_value l) ++ s2l "]".
Proof. reflexivity. Qed.

Definition enc_member (kv : str * jval) : str := enc_string (fst kv) ++ s2l ":" ++ enc_value (snd kv).

Lemma enc_value_obj m : enc_value (JObj m) = s2l "{" ++ join_comma (map enc_member m) ++ s2l "}".
Proof. reflexivity. Qed.

Lemma txt_ok_arr l : txt_ok (JArr l) = forallb txt_ok l.
Proof. reflexivity. Qed.

Lemma txt_ok_obj m : txt_ok (JObj m) = forallb (fun kv => txt_ok (snd kv)) m.
Proof. reflexivity. Qed.

Lemma join_comma_in c ls : In c (join_comma ls) -> c = ","%char \/ exists l, In l ls /\ In c l.
Proof.
  induction ls as [|x [|y r] IH]; intros H.
  - destruct H.
  - right. exists x. split; [left; reflexivity|exact H].
  - change (join_comma (x :: y :: r)) with (x ++ s2l "," ++ join_comma (y :: r)) in H.
    apply in_app_or in H. destruct H as [H | H].
    + right. exists x. split; [left; reflexivity|exact H].
    + apply in_app_or in H. destruct H as [H | H].
      * left. destruct H as [H | []]. symmetry. exact H.
      * destruct (IH H) as [E | (l & Hl & Hc)]; [left; exact E|]. right. exists l. split; [right; exact Hl|exact Hc].
Qed.

Theorem enc_value_no_newline v : txt_ok v = true -> ~ In newline (enc_value v).
Proof.
  induction v as [s|t| |l IH|m IH] using jval_ind'; intros Hok Hin.
  - exact (enc_string_no_newline s Hin).
  - cbn [txt_ok enc_value] in *. rewrite forallb_forall in Hok. specialize (Hok _ Hin).
    rewrite Ascii.eqb_refl in Hok. discriminate Hok.
  - cbn in Hin. repeat (destruct Hin as [Hin | Hin]; [discriminate Hin|]). exact Hin.
  - rewrite enc_value_arr in Hin. rewrite txt_ok_arr in Hok.
    apply in_app_or in Hin. destruct Hin as [[Hin | []] | Hin]; [discriminate Hin|].
    apply in_app_or in Hin. destruct Hin as [Hin | [Hin | []]]; [|discriminate Hin].
    apply join_comma_in in Hin. destruct Hin as [Hin | (x & Hx & Hc)]; [discriminate Hin|].
    apply in_map_iff in Hx. destruct Hx as (v & <- & Hv).
    rewrite Forall_forall in IH. rewrite forallb_forall in Hok. exact (IH v Hv (Hok v Hv) Hc).
  - rewrite enc_value_obj in Hin. rewrite txt_ok_obj in Hok.
    apply in_app_or in Hin. destruct Hin as [[Hin | []] | Hin]; [discriminate Hin|].
    apply in_app_or in Hin. destruct Hin as [Hin | [Hin | []]]; [|discriminate Hin].
    apply join_comma_in in Hin. destruct Hin as [Hin | (x & Hx & Hc)]; [discriminate Hin|].
    apply in_map_iff in Hx. destruct Hx as (kv & <- & Hkv). unfold enc_member in Hc.
    apply in_app_or in Hc. destruct Hc as [Hc | Hc]; [exact (enc_string_no_newline _ Hc)|].
    apply in_app_or in Hc. destruct Hc as [[Hc | []] | Hc]; [discriminate Hc|].
    rewrite Forall_forall in IH. rewrite forallb_forall in Hok. exact (IH kv Hkv (Hok kv Hkv) Hc).
Qed.

(* ---------- sorting ---------- *)

Lemma insert_kv_perm {V} k (v : V) m : Permutation (insert_kv k v m) ((k, v) :: m).
Proof.
  induction m as [|[k' v'] m IH]; [apply Permutation_refl|].
  cbn [insert_kv]. destruct (str_ltb k k'); [apply Permutation_refl|].
  eapply Permutation_trans; [apply perm_skip; exact IH|apply perm_swap].
Qed.

Lemma sort_kv_perm {V} (m : list (str * V)) : Permutation (sort_kv m) m.
Proof.
  induction m as [|[k v] m IH]; [apply Permutation_refl|].
  unfold sort_kv in *. cbn [fold_right fst snd].
  eapply Permutation_trans; [apply insert_kv_perm|apply perm_skip; exact IH].
Qed.

Lemma forallb_sort_kv {V} (p : str * V -> bool) m : forallb p m = true -> forallb p (sort_kv m) = true.
Proof.
  intros H. rewrite forallb_forall in *. intros x Hx. apply H.
  eapply Permutation_in; [apply sort_kv_perm|exact Hx].
Qed.

(* ---------- events ---------- *)

Lemma time_char_all : forallb (fun c => implb (time_char_ok c) (negb (Ascii.eqb c newline))) all_bytes = true.
Proof. vm_compute. reflexivity. Qed.

Lemma time_char_not_newline c : time_char_ok c = true -> negb (Ascii.eqb c newline) = true.
Proof. intros H. pose proof (byte_forall _ time_char_all c) as G. cbv beta in G. rewrite H in G. exact G. Qed.

Lemma time_json_ok t : time_text_ok t = true -> txt_ok (time_json t) = true.
Proof.
  unfold time_text_ok, time_json. intros H. cbn [txt_ok forallb]. rewrite forallb_app. cbn [forallb].
  change (negb (Ascii.eqb dq newline)) with true. cbn [andb]. rewrite andb_true_r.
  apply forallb_forall. intros c Hc. rewrite forallb_forall in H. apply time_char_not_newline. apply H. exact Hc.
Qed.

Lemma jmap_ok m : forallb (fun kv => txt_ok (snd kv)) m = true -> txt_ok (jmap m) = true.
Proof. intros H. unfold jmap. rewrite txt_ok_obj. apply forallb_sort_kv. exact H. Qed.

Lemma jstr_map_ok m : txt_ok (jstr_map m) = true.
Proof.
  unfold jstr_map. apply jmap_ok. apply forallb_forall. intros kv Hkv.
  apply in_map_iff in Hkv. destruct Hkv as (x & <- & _). reflexivity.
Qed.

Lemma omit_if_ok b name v : txt_ok v = true -> forallb (fun kv => txt_ok (snd kv)) (omit_if b name v) = true.
Proof. intros H. destruct b; cbn; [reflexivity|]. rewrite H. reflexivity. Qed.

Theorem event_json_ok e : event_ok e = true -> txt_ok (event_json e) = true.
Proof.
  unfold event_ok. intros H.
  apply andb_true_iff in H. destruct H as [H Hd]. apply andb_true_iff in H. destruct H as [H Hs].
  apply andb_true_iff in H. destruct H as [Ht Hm].
  unfold event_json. rewrite txt_ok_obj. rewrite !forallb_app.
  cbn [forallb fld snd]. rewrite !txt_ok_obj. cbn [forallb fld snd txt_ok].
  rewrite (omit_if_ok _ _ _ (jmap_ok _ Hm)), (omit_if_ok _ _ _ (jmap_ok _ Hs)), (time_json_ok _ Ht).
  rewrite (omit_if_ok _ "target" _ (jstr_map_ok _)).
  assert (txt_ok match je_subjects e with Some m => jstr_map m | None => JNull end = true) as ->
    by (destruct (je_subjects e); [apply jstr_map_ok|reflexivity]).
  destruct (je_data e) as [d|]; cbn [forallb fld snd]; [rewrite Hd|]; reflexivity.
Qed.

Theorem enc_event_no_newline e : event_ok e = true -> ~ In newline (enc_event e).
Proof. intros H. apply enc_value_no_newline. apply event_json_ok. exact H. Qed.

(* ONE LINE PER EVENT: exactly one newline, the last byte *)
Theorem enc_line_one_newline e : event_ok e = true ->
  count_occ ascii_dec (enc_line e) newline = 1%nat /\ last (enc_line e) dq = newline.
Proof.
  intros H. pose proof (enc_event_no_newline e H) as Hn. unfold enc_line. split.
  - rewrite count_occ_app. rewrite (proj1 (count_occ_not_In ascii_dec _ _) Hn). cbn [count_occ].
    destruct (ascii_dec newline newline) as [_|Hne]; [reflexivity|exfalso; apply Hne; reflexivity].
  - apply last_last.
Qed.

(* splitting the output at newlines gives back exactly the events' texts — also when a torn tail follows *)
Theorem lines_split es t : Forall (fun e => event_ok e = true) es -> ~ In newline t ->
  frames newline (concat (map enc_line es) ++ t) = (map enc_line es, t).
Proof.
  intros Hes Ht.
  assert (map enc_line es = map (terminate newline) (map enc_event es)) as E by (rewrite map_map; reflexivity).
  rewrite E. change (concat (map (terminate newline) (map enc_event es)) ++ t) with (frame newline (map enc_event es) t).
  apply frames_frame; [|exact Ht].
  intros b Hb. apply in_map_iff in Hb. destruct Hb as (e & <- & He).
  rewrite Forall_forall in Hes. apply enc_event_no_newline. apply Hes. exact He.
Qed.

Theorem lines_split_bodies es : Forall (fun e => event_ok e = true) es ->
  map (strip1 newline) (records newline (concat (map enc_line es))) = map enc_event es.
Proof.
  intros Hes. unfold records. rewrite <- (app_nil_r (concat (map enc_line es))).
  rewrite (lines_split es [] Hes (fun H => H)). cbn [fst]. rewrite map_map.
  apply map_ext. intros e. apply strip1_terminate.
Qed.

(* ---------- the views of the models' records always meet [event_ok] ---------- *)

Lemma opt_jkv_ok k o : forallb (fun kv => txt_ok (snd kv)) (opt_jkv k o) = true.
Proof. destruct o; reflexivity. Qed.

Lemma login_view_ok aid t e : time_text_ok t = true -> event_ok (login_view aid t e) = true.
Proof.
  intros Ht. unfold event_ok, login_view. cbn [je_logged_at je_meta_extra je_src_extra je_data].
  rewrite Ht, opt_jkv_ok, forallb_app, !opt_jkv_ok. cbn [andb].
  destruct (SshdProc.ev_data e); [reflexivity|apply jstr_map_ok].
Qed.

Lemma object_json_ok o : txt_ok (object_json o) = true.
Proof.
  unfold object_json. rewrite txt_ok_obj, !forallb_app.
  rewrite !omit_if_ok by reflexivity. reflexivity.
Qed.

Lemma action_view_ok t a : time_text_ok t = true -> event_ok (action_view t a) = true.
Proof.
  intros Ht. unfold event_ok, action_view. cbn [je_logged_at je_meta_extra je_src_extra je_data].
  rewrite Ht. cbn [andb]. rewrite andb_true_r. apply andb_true_iff. split.
  - rewrite forallb_app. cbn [forallb snd txt_ok]. rewrite object_json_ok. cbn [andb].
    destruct (ToEvent.ua_args a) as [args|]; [|reflexivity]. cbn [forallb snd]. rewrite txt_ok_arr.
    rewrite andb_true_r. apply forallb_forall. intros v Hv. apply in_map_iff in Hv. destruct Hv as (x & <- & _). reflexivity.
  - apply forallb_forall. intros kv Hkv. apply in_map_iff in Hkv. destruct Hkv as (x & <- & _). reflexivity.
Qed.

(* ================= maps: the order of insertion does not show ================= *)

Lemma str_ltb_irrefl a : str_ltb a a = false.
Proof. induction a as [|x a IH]; [reflexivity|]. cbn [str_ltb]. rewrite N.ltb_irrefl. exact IH. Qed.

Lemma str_ltb_trans a : forall b c, str_ltb a b = true -> str_ltb b c = true -> str_ltb a c = true.
Proof.
  induction a as [|x a IH]; intros [|y b] [|z c] H1 H2; try discriminate; try reflexivity.
  cbn [str_ltb] in *.
  destruct (nb x <? nb y) eqn:Exy.
  - apply N.ltb_lt in Exy. destruct (nb y <? nb z) eqn:Eyz.
    + apply N.ltb_lt in Eyz. assert (nb x <? nb z = true) as -> by (apply N.ltb_lt; lia). reflexivity.
    + destruct (nb z <? nb y) eqn:Ezy; [discriminate|]. apply N.ltb_ge in Eyz, Ezy.
      assert (nb x <? nb z = true) as -> by (apply N.ltb_lt; lia). reflexivity.
  - destruct (nb y <? nb x) eqn:Eyx; [discriminate|]. apply N.ltb_ge in Exy, Eyx.
    assert (nb x = nb y) as Exy' by lia. rewrite Exy'.
    destruct (nb y <? nb z); [reflexivity|]. destruct (nb z <? nb y); [discriminate|]. exact (IH _ _ H1 H2).
Qed.

Lemma str_ltb_total a : forall b, a <> b -> str_ltb a b = true \/ str_ltb b a = true.
Proof.
  induction a as [|x a IH]; intros [|y b] Hne; try (left; reflexivity); try (right; reflexivity); [exfalso; apply Hne; reflexivity|].
  cbn [str_ltb].
  destruct (nb x <? nb y) eqn:Exy; [left; reflexivity|].
  destruct (nb y <? nb x) eqn:Eyx; [right; reflexivity|].
  apply N.ltb_ge in Exy, Eyx. assert (x = y) as -> by (apply nb_inj; lia).
  apply IH. intros ->. apply Hne. reflexivity.
Qed.

Lemma str_ltb_asym a b : str_ltb a b = true -> str_ltb b a = true -> False.
Proof. intros H1 H2. pose proof (str_ltb_trans _ _ _ H1 H2) as H. rewrite str_ltb_irrefl in H. discriminate H. Qed.

Section SortedMaps.
Context {V : Type}.

Lemma insert_kv_in k (v : V) m x : In x (insert_kv k v m) <-> x = (k, v) \/ In x m.
Proof.
  split; intros H.
  - apply (Permutation_in _ (insert_kv_perm k v m)) in H. destruct H as [H | H]; [left; symmetry; exact H|right; exact H].
  - apply (Permutation_in _ (Permutation_sym (insert_kv_perm k v m))). destruct H as [-> | H]; [left; reflexivity|right; exact H].
Qed.

Lemma insert_kv_sorted k (v : V) m : StronglySorted klt m -> ~ In k (map fst m) ->
  StronglySorted klt (insert_kv k v m).
Proof.
  induction m as [|[k' v'] m IH]; intros Hs Hk.
  - cbn. constructor; constructor.
  - cbn [insert_kv]. inversion Hs as [|a l Hl Ha]; subst.
    destruct (str_ltb k k') eqn:E.
    + constructor; [exact Hs|]. constructor; [exact E|].
      rewrite Forall_forall in *. intros x Hx. unfold klt in *. cbn [fst] in *.
      eapply str_ltb_trans; [exact E|apply (Ha x Hx)].
    + constructor.
      * apply IH; [exact Hl|]. intros H. apply Hk. right. exact H.
      * rewrite Forall_forall in *. intros x Hx. apply insert_kv_in in Hx. destruct Hx as [-> | Hx]; [|apply Ha; exact Hx].
        unfold klt. cbn [fst]. destruct (str_ltb_total k' k) as [H | H]; [|exact H|rewrite H in E; discriminate E].
        intros ->. apply Hk. left. reflexivity.
Qed.

Lemma sort_kv_sorted (m : list (str * V)) : NoDup (map fst m) -> StronglySorted klt (sort_kv m).
Proof.
  induction m as [|[k v] m IH]; intros Hnd; [constructor|].
  cbn [map fst] in Hnd. inversion Hnd as [|a l Hni Hnd']; subst.
  unfold sort_kv in *. cbn [fold_right fst snd]. apply insert_kv_sorted; [apply IH; exact Hnd'|].
  intros H. apply Hni. apply in_map_iff in H. destruct H as (x & <- & Hx). apply in_map.
  eapply Permutation_in; [apply sort_kv_perm|exact Hx].
Qed.

Lemma sorted_perm_eq (l1 : list (str * V)) : forall l2,
  StronglySorted klt l1 -> StronglySorted klt l2 -> Permutation l1 l2 -> l1 = l2.
Proof.
  induction l1 as [|x l1 IH]; intros l2 H1 H2 P.
  - apply Permutation_nil in P. symmetry. exact P.
  - destruct l2 as [|y l2]; [apply Permutation_sym, Permutation_nil in P; discriminate P|].
    inversion H1 as [|a l Hl1 Hx]; subst. inversion H2 as [|a l Hl2 Hy]; subst.
    assert (x = y) as ->.
    { assert (In x (y :: l2)) as Ix by (eapply Permutation_in; [exact P|left; reflexivity]).
      assert (In y (x :: l1)) as Iy by (eapply Permutation_in; [apply Permutation_sym; exact P|left; reflexivity]).
      destruct Ix as [E | Ix]; [symmetry; exact E|]. destruct Iy as [E | Iy]; [exact E|].
      rewrite Forall_forall in Hx, Hy. exfalso. exact (str_ltb_asym _ _ (Hx y Iy) (Hy x Ix)). }
    f_equal. apply IH; [exact Hl1|exact Hl2|]. eapply Permutation_cons_inv. exact P.
Qed.

(* a Go map has distinct keys; whatever order its entries are listed in, the same members are written in the same order *)
Theorem sort_kv_order_independent (m1 m2 : list (str * V)) :
  NoDup (map fst m1) -> Permutation m1 m2 -> sort_kv m1 = sort_kv m2.
Proof.
  intros Hnd P. apply sorted_perm_eq.
  - apply sort_kv_sorted. exact Hnd.
  - apply sort_kv_sorted. eapply Permutation_NoDup; [apply Permutation_map; exact P|exact Hnd].
  - eapply Permutation_trans; [apply sort_kv_perm|]. eapply Permutation_trans; [exact P|]. apply Permutation_sym, sort_kv_perm.
Qed.

(* and the keys come out in strictly increasing byte order *)
Theorem sort_kv_keys_increasing (m : list (str * V)) : NoDup (map fst m) -> StronglySorted klt (sort_kv m).
Proof. exact (sort_kv_sorted m). Qed.
End SortedMaps.

Theorem jmap_order_independent m1 m2 : NoDup (map fst m1) -> Permutation m1 m2 -> enc_value (jmap m1) = enc_value (jmap m2).
Proof. intros Hnd P. unfold jmap. rewrite (sort_kv_order_independent m1 m2 Hnd P). reflexivity. Qed.

Theorem jstr_map_order_independent m1 m2 : NoDup (map fst m1) -> Permutation m1 m2 ->
  enc_value (jstr_map m1) = enc_value (jstr_map m2).
Proof.
  intros Hnd P. unfold jstr_map. apply jmap_order_independent.
  - rewrite map_map. cbn [fst]. exact Hnd.
  - apply Permutation_map. exact P.
Qed.

(* ---------- events: the line depends on the maps' contents only ---------- *)


Lemma is_nil_perm {A} (l1 l2 : list A) : Permutation l1 l2 -> is_nil l1 = is_nil l2.
Proof.
  intros P. destruct l1, l2; try reflexivity.
  - apply Permutation_nil in P. discriminate P.
  - apply Permutation_sym, Permutation_nil in P. discriminate P.
Qed.

Lemma jmap_eq m1 m2 : NoDup (map fst m1) -> Permutation m1 m2 -> jmap m1 = jmap m2.
Proof. intros Hnd P. unfold jmap. rewrite (sort_kv_order_independent m1 m2 Hnd P). reflexivity. Qed.

Lemma jstr_map_eq m1 m2 : NoDup (map fst m1) -> Permutation m1 m2 -> jstr_map m1 = jstr_map m2.
Proof.
  intros Hnd P. unfold jstr_map. apply jmap_eq.
  - rewrite map_map. cbn [fst]. exact Hnd.
  - apply Permutation_map. exact P.
Qed.

Theorem enc_line_same_event e1 e2 : keys_distinct e1 -> same_event e1 e2 -> enc_line e1 = enc_line e2.
Proof.
  intros (D1 & D2 & D3 & D4) (E1 & E2 & E3 & E4 & E5 & E6 & E7 & E8 & P1 & P2 & P3 & P4).
  unfold enc_line, enc_event, event_json.
  rewrite E1, E2, E3, E4, E5, E6, E7, E8.
  rewrite (is_nil_perm _ _ P1), (is_nil_perm _ _ P2), (is_nil_perm _ _ P3).
  rewrite (jmap_eq _ _ D1 P1), (jmap_eq _ _ D2 P2), (jstr_map_eq _ _ D3 P3).
  destruct (je_subjects e1) as [m1|], (je_subjects e2) as [m2|]; try contradiction; [|reflexivity].
  rewrite (jstr_map_eq _ _ D4 P4). reflexivity.
Qed.
