(* From a record of the sshd pipe to the login the correlator is handed (C01, C09).

   The correlator's theorems (Props/C01.v ...) are about logins identified by their sshd PID.  Where that PID
   comes from is the sshd pipeline: SyslogIngester.Process cuts the record into (PID token, message) and hands
   the pair to ProcessSshdLogEntry, whose handler forwards a login carrying strconv.Atoi of the token.  This
   file composes the GENERATED translations of those two steps (Gen/PureFuncs.v: gen_process_line;
   Gen/EntryMetrics.v: gen_entry) with the sshd model and states what the forwarded login's PID is in terms of
   the RECORD: the text in front of the record's first blank, whatever the rest of the record says. *)
From Coq Require Import Ascii String List Bool Arith ZArith.
Import ListNotations.
From AM Require Import Lib.Bytes Lib.GoStrings Model.Syslog Proofs.SyslogLemmas Model.SshdProc Proofs.SshdGeneral.
From AM Require Import Gen.PureFuncs Proofs.PureFuncsTie.
From AM Require Import Gen.EntryMetrics Model.EntryMetricsIR Proofs.EntryMetricsTie.
From AM Require Import Model.Tracker Model.PipelineSshd.
Close Scope string_scope.
Open Scope list_scope.

(* what the sshd pipeline does with one record of the pipe, read through the generated code:
   Process's argument preparation + ParseSyslogMessage (gen_process_line), the entry point's per-line
   configuration (gen_entry), then the handlers *)
Definition record_result (c : cfg) (line : str) (wok ready : bool) : option result :=
  obind (gen_process_line line) (fun e =>
  obind (entry_args gen_entry (entry_pair e)) (fun tm =>
  Some (process c (fst tm) (snd tm) wok ready))).

(* the record's first column: the text in front of the first blank of the record without its terminator *)
Definition first_column (line : str) : str := hd [] (split_sp (trim_nl line)).

Lemma record_result_is_model c line wok ready :
  record_result c line wok ready =
  Some (process c (fst (process_line line)) (snd (process_line line)) wok ready).
Proof.
  unfold record_result.
  pose proof (process_line_from_source line) as H.
  destruct (gen_process_line line) as [e|]; [|discriminate H].
  cbn [option_map] in H. injection H as H. cbn [obind]. rewrite H.
  destruct (process_line line) as [tok msg]. rewrite entry_from_source. reflexivity.
Qed.

Lemma atoi_nil : atoi [] = None.
Proof. reflexivity. Qed.

(* the PID token of a record that forwards a login is the record's first column *)
Lemma forwarding_token_is_first_column c line wok ready :
  r_forwards (process c (fst (process_line line)) (snd (process_line line)) wok ready) <> [] ->
  fst (process_line line) = first_column line.
Proof.
  intros Hf. unfold process_line, first_column in *. unfold parse in *.
  destruct (length (split_sp (trim_nl line)) <? 2) eqn:E; [|reflexivity].
  exfalso. apply Hf. cbn [fst snd].
  destruct (r_forwards (process c [] [] wok ready)) as [|f r] eqn:F; [reflexivity|].
  assert (Hin : In f (r_forwards (process c [] [] wok ready))) by (rewrite F; left; reflexivity).
  destruct (forward_content c [] [] wok ready f Hin) as [Ha _]. rewrite atoi_nil in Ha. discriminate Ha.
Qed.

(* EVERY record (any bytes): the generated pipeline is defined on it, and every login it forwards carries the
   PID written in the record's first column (as strconv.Atoi reads it) *)
Theorem record_login_pid : forall c line wok ready,
  exists r, record_result c line wok ready = Some r /\
    forall f, In f (r_forwards r) -> atoi (first_column line) = Some (f_pid f).
Proof.
  intros c line wok ready. eexists. split; [apply record_result_is_model|].
  intros f Hin.
  rewrite <- (forwarding_token_is_first_column c line wok ready)
    by (intros E; rewrite E in Hin; exact Hin).
  exact (proj1 (forward_content _ _ _ _ _ f Hin)).
Qed.

(* the same for the login as the correlator's model sees it (Model/PipelineSshd.v: abs_login) *)
Theorem record_login_pid_tracker : forall c line wok ready k at_,
  exists r, record_result c line wok ready = Some r /\
    (r_forwards r <> [] -> atoi (first_column line) = Some (l_pid (abs_login k at_ r))).
Proof.
  intros c line wok ready k at_.
  destruct (record_login_pid c line wok ready) as [r [Hr Hp]].
  exists r. split; [exact Hr|]. intros Hne. unfold abs_login. cbn [l_pid].
  destruct (r_forwards r) as [|f fs] eqn:F; [contradiction|].
  apply Hp. left. reflexivity.
Qed.

(* the record format of the contrib template, "<pid> <padding><message>\n": the result is the processor's result
   for (pid, message); a login is forwarded only for a message that BEGINS with one of the two accepted forms,
   and it carries the PID of the record's first column *)
Theorem framed_record_login : forall c tok n msg wok ready k at_,
  ~ In sp tok -> hd_error msg <> Some sp ->
  let r := process c tok msg wok ready in
  record_result c (tok ++ sp :: repeat sp n ++ msg ++ [nl]) wok ready = Some r /\
  (r_forwards r <> [] ->
     atoi tok = Some (l_pid (abs_login k at_ r)) /\
     (has_prefix (s2l "Accepted publickey") msg = true \/ has_prefix (s2l "Accepted password") msg = true)).
Proof.
  intros c tok n msg wok ready k at_ Ht Hm r.
  split.
  - rewrite record_result_is_model, (parse_framed tok n msg Ht Hm). reflexivity.
  - intros Hne. split.
    + unfold abs_login. cbn [l_pid]. subst r.
      destruct (r_forwards (process c tok msg wok ready)) as [|f fs] eqn:F; [contradiction|].
      apply (forward_content c tok msg wok ready f). rewrite F. left. reflexivity.
    + exact (forward_needs_accept c tok msg wok ready Hne).
Qed.
