(* Proofs about the array-level bufio.Reader model (Model/Bufio.v):
     1. the invariant of reachable states (r <= w <= len buf, no panic, fuel never exhausted);
     2. ReadString satisfies the contract [read_string] of Model/Framing.v, for every buffer size
        and every chunking of the script, records longer than the buffer included;
     3. the Ingest loop on the bufio model is [ingest] of Model/Framing.v;
     4. io.ErrNoProgress: exactly when the script serves 100 consecutive empty reads.
   Plan: abstraction [bufd b] = the bytes of b.buf[b.r:b.w]; [T b] = bufd b ++ everything the
   script still holds.  fill preserves T; ReadSlice / collectFragments take a prefix of T. *)
From Coq Require Import Ascii String List Bool Arith Lia.
Import ListNotations.
From AM Require Import Lib.Bytes Model.Framing Proofs.FramingLemmas Model.Bufio.

(* ---------- lists, sub-arrays ---------- *)

Lemma skipn_add {A} (a : list A) : forall r i, skipn i (skipn r a) = skipn (r + i) a.
Proof.
  induction a as [|x a IH]; intros r i.
  - rewrite !skipn_nil. reflexivity.
  - destruct r as [|r]; [reflexivity|]. cbn [skipn Nat.add]. apply IH.
Qed.

Lemma sub_length (a : str) i j : i <= j -> j <= length a -> length (sub a i j) = j - i.
Proof. intros Hij Hj. unfold sub. rewrite firstn_length, skipn_length. lia. Qed.

Lemma sub_to_end (a : str) i : sub a i (length a) = skipn i a.
Proof. unfold sub. apply firstn_all2. rewrite skipn_length. lia. Qed.

Lemma sub_from_0 (a : str) j : sub a 0 j = firstn j a.
Proof. unfold sub. rewrite Nat.sub_0_r. reflexivity. Qed.

Lemma sub_all (a : str) : sub a 0 (length a) = a.
Proof. rewrite sub_from_0. apply firstn_all. Qed.

(* a[r+i : r+j] = (a[r:w])[i:j] *)
Lemma sub_inner (a : str) r w i j : r <= w -> w <= length a -> i <= j -> j <= w - r ->
  sub a (r + i) (r + j) = sub (sub a r w) i j.
Proof.
  intros Hrw Hw Hij Hj. unfold sub.
  rewrite skipn_firstn_comm, skipn_add, firstn_firstn.
  replace (r + j - (r + i)) with (j - i) by lia.
  replace (Nat.min (j - i) (w - r - i)) with (j - i) by lia. reflexivity.
Qed.

(* writing x at position w of a leaves a[r:w] in place and extends it by x *)
Lemma sub_app_write (a x y : str) r w : r <= w -> w <= length a ->
  sub (firstn w a ++ x ++ y) r (w + length x) = sub a r w ++ x.
Proof.
  intros Hrw Hw. unfold sub.
  rewrite skipn_app, firstn_length_le by exact Hw.
  replace (r - w) with 0 by lia. cbn [skipn].
  rewrite firstn_app, skipn_length, firstn_length_le by exact Hw.
  rewrite (firstn_all2 (n := w + length x - r)) by (rewrite skipn_length, firstn_length_le by exact Hw; lia).
  replace (w + length x - r - (w - r)) with (length x + 0) by lia.
  rewrite firstn_app_2. cbn [firstn]. rewrite app_nil_r.
  f_equal. rewrite firstn_skipn_comm. replace (r + (w - r)) with w by lia. reflexivity.
Qed.

Lemma split_at_delim (l x y : str) (d : ascii) k : l = x ++ d :: y -> length x = k ->
  firstn (k + 1) l = x ++ [d] /\ skipn (k + 1) l = y.
Proof.
  intros -> <-. replace (x ++ d :: y) with ((x ++ [d]) ++ y) by (rewrite <- app_assoc; reflexivity).
  replace (length x + 1) with (length (x ++ [d])) by (rewrite app_length; reflexivity).
  split; [rewrite <- (Nat.add_0_r (length (x ++ [d]))), firstn_app_2; cbn [firstn]; apply app_nil_r|].
  rewrite skipn_app, skipn_all, Nat.sub_diag. reflexivity.
Qed.

Lemma slice_some (a : str) i j : i <= j -> j <= length a -> slice a i j = Some (sub a i j).
Proof.
  intros Hij Hj. unfold slice.
  rewrite (proj2 (Nat.leb_le i j) Hij), (proj2 (Nat.leb_le j (length a)) Hj). reflexivity.
Qed.

(* ---------- bytes.IndexByte and cut ---------- *)

Lemma index_byte_none s d : index_byte s d = None -> ~ In d s.
Proof.
  induction s as [|c r IH]; intros H; [intros []|].
  cbn [index_byte] in H. destruct (Ascii.eqb_spec c d) as [->|Hne]; [discriminate H|].
  destruct (index_byte r d); [discriminate H|].
  intros [Hc|Hin]; [exact (Hne Hc)|exact (IH eq_refl Hin)].
Qed.

Lemma index_byte_not_in s d : ~ In d s -> index_byte s d = None.
Proof.
  induction s as [|c r IH]; intros Hn; [reflexivity|].
  cbn [index_byte]. destruct (Ascii.eqb_spec c d) as [->|Hne]; [exfalso; apply Hn; left; reflexivity|].
  rewrite IH by (intros H; apply Hn; right; exact H). reflexivity.
Qed.

Lemma index_byte_some s d : forall i, index_byte s d = Some i ->
  exists x y, s = x ++ d :: y /\ length x = i /\ ~ In d x.
Proof.
  induction s as [|c r IH]; intros i H; [discriminate H|].
  cbn [index_byte] in H. destruct (Ascii.eqb_spec c d) as [->|Hne].
  - injection H as <-. exists [], r. split; [reflexivity|]. split; [reflexivity|intros []].
  - destruct (index_byte r d) as [j|]; [|discriminate H]. injection H as <-.
    destruct (IH j eq_refl) as (x & y & -> & Hl & Hx).
    exists (c :: x), y. split; [reflexivity|]. split; [cbn; lia|].
    intros [Hc|Hin]; [exact (Hne Hc)|exact (Hx Hin)].
Qed.

Lemma cut_not_in d s : ~ In d s -> cut d s = None.
Proof.
  induction s as [|c r IH]; intros Hn; [reflexivity|].
  cbn [cut]. destruct (Ascii.eqb_spec c d) as [->|Hne]; [exfalso; apply Hn; left; reflexivity|].
  rewrite IH by (intros H; apply Hn; right; exact H). reflexivity.
Qed.

Lemma cut_body d body q : ~ In d body -> cut d (body ++ d :: q) = Some (body ++ [d], q).
Proof.
  induction body as [|c r IH]; intros Hn.
  - cbn [app cut]. rewrite Ascii.eqb_refl. reflexivity.
  - cbn [app cut]. destruct (Ascii.eqb_spec c d) as [->|Hne]; [exfalso; apply Hn; left; reflexivity|].
    rewrite IH by (intros H; apply Hn; right; exact H). reflexivity.
Qed.

Lemma not_in_app (d : ascii) (x y : str) : ~ In d x -> ~ In d y -> ~ In d (x ++ y).
Proof. intros Hx Hy H. apply in_app_or in H. destruct H; [exact (Hx H)|exact (Hy H)]. Qed.

(* ---------- the script ---------- *)

(* number of empty chunks at the head of the script *)
Fixpoint empties (cs : list str) : nat :=
  match cs with
  | [] :: r => S (empties r)
  | _ => 0
  end.

(* the script never serves maxConsecutiveEmptyReads (0, nil) reads in a row *)
Fixpoint progress_ok (cs : list str) : Prop :=
  match cs with
  | [] => True
  | _ :: r => empties cs < max_consecutive_empty_reads /\ progress_ok r
  end.

Definition exhausted (s : source) : Prop := chunks s = [] /\ last s = [].

(* what the script still holds, as the chunks of Model/Framing.v *)
Definition pending (s : source) : list str := chunks s ++ [last s].

Lemma concat_pending s : concat (pending s) = stream s.
Proof. unfold pending, stream. rewrite concat_app. cbn [concat]. rewrite app_nil_r. reflexivity. Qed.

Lemma stream_exhausted s : exhausted s -> stream s = [].
Proof. intros [Hc Hl]. unfold stream. rewrite Hc, Hl. reflexivity. Qed.

Lemma progress_ok_tl c cs : progress_ok (c :: cs) -> progress_ok cs.
Proof. intros [_ H]. exact H. Qed.

Lemma progress_ok_head cs : progress_ok cs -> empties cs < max_consecutive_empty_reads.
Proof. destruct cs as [|c r]; [intros _; cbn; unfold max_consecutive_empty_reads; lia|intros [H _]; exact H]. Qed.

Lemma progress_ok_nonempty c cs : c <> [] -> progress_ok cs -> progress_ok (c :: cs).
Proof.
  intros Hc H. split; [|exact H]. destruct c; [contradiction|].
  cbn. unfold max_consecutive_empty_reads. lia.
Qed.

Lemma copy_to_spec (p data : str) : length data <= length p ->
  copy_n p data = length data /\ copy_to p data = data ++ skipn (length data) p.
Proof.
  intros H. unfold copy_to, copy_n. rewrite Nat.min_r by exact H.
  rewrite firstn_all. split; reflexivity.
Qed.

Lemma copy_to_trunc (p c : str) : length p < length c ->
  copy_n p c = length (firstn (length p) c) /\
  copy_to p c = firstn (length p) c ++ skipn (length (firstn (length p) c)) p.
Proof.
  intros H. unfold copy_to, copy_n. rewrite Nat.min_l by lia.
  rewrite firstn_length_le by lia. split; reflexivity.
Qed.

(* One Read(p), len p >= 1: it delivers [data] (written to the front of p), which is the front of
   the script's stream; and it is of exactly one of three kinds. *)
Lemma src_read_spec s p : 1 <= length p ->
  exists data e s',
    src_read s p = (data ++ skipn (length data) p, length data, e, s') /\
    length data <= length p /\ stream s = data ++ stream s' /\ ferr s' = ferr s /\
    ( (e = None /\ data = [] /\ exists cs, chunks s = [] :: cs /\ chunks s' = cs /\ last s' = last s)
    \/ (e = None /\ data <> [] /\ empties (chunks s) = 0 /\ (progress_ok (chunks s) -> progress_ok (chunks s')))
    \/ (e = Some (ferr s) /\ chunks s = [] /\ exhausted s') ).
Proof.
  intros Hp. unfold src_read, stream. destruct (chunks s) as [|c cs] eqn:Ec.
  - (* after the chunks *)
    destruct (Nat.leb_spec (length (last s)) (length p)) as [Hle|Hgt].
    + destruct (copy_to_spec p (last s) Hle) as [-> ->].
      exists (last s), (Some (ferr s)), (mkSource [] [] (ferr s) (S (served s))).
      split; [reflexivity|]. split; [exact Hle|]. split; [cbn; rewrite app_nil_r; reflexivity|].
      split; [reflexivity|]. right. right. split; [reflexivity|]. split; [reflexivity|split; reflexivity].
    + destruct (copy_to_trunc p (last s) Hgt) as [-> ->].
      exists (firstn (length p) (last s)), None, (mkSource [] (skipn (length p) (last s)) (ferr s) (S (served s))).
      split; [reflexivity|]. split; [rewrite firstn_length; lia|].
      split; [cbn; rewrite firstn_skipn; reflexivity|]. split; [reflexivity|].
      right. left. split; [reflexivity|]. split; [|split; [reflexivity|intros _; exact I]].
      intros H. apply (f_equal (@length ascii)) in H. rewrite firstn_length_le in H by lia. cbn in H. lia.
  - destruct (Nat.leb_spec (length c) (length p)) as [Hle|Hgt].
    + destruct (copy_to_spec p c Hle) as [-> ->].
      exists c, None, (mkSource cs (last s) (ferr s) (S (served s))).
      split; [reflexivity|]. split; [exact Hle|]. split; [cbn; rewrite app_assoc; reflexivity|].
      split; [reflexivity|]. destruct c as [|a c'].
      * left. split; [reflexivity|]. split; [reflexivity|]. exists cs. split; [reflexivity|split; reflexivity].
      * right. left. split; [reflexivity|]. split; [discriminate|]. split; [reflexivity|].
        cbn [chunks]. apply progress_ok_tl.
    + destruct (copy_to_trunc p c Hgt) as [-> ->].
      exists (firstn (length p) c), None, (mkSource (skipn (length p) c :: cs) (last s) (ferr s) (S (served s))).
      split; [reflexivity|]. split; [rewrite firstn_length; lia|].
      split; [cbn; rewrite !app_assoc, firstn_skipn; reflexivity|]. split; [reflexivity|].
      right. left. split; [reflexivity|].
      assert (Hne : firstn (length p) c <> []).
      { intros H. apply (f_equal (@length ascii)) in H. rewrite firstn_length_le in H by lia. cbn in H. lia. }
      split; [exact Hne|]. split; [destruct c; [cbn in Hgt; lia|reflexivity]|].
      cbn [chunks]. intros H. apply progress_ok_nonempty; [|exact (progress_ok_tl _ _ H)].
      intros H'. apply (f_equal (@length ascii)) in H'. rewrite skipn_length in H'. cbn in H'. lia.
Qed.

(* ---------- the reader: abstraction and invariant ---------- *)

(* the buffered bytes b.buf[b.r:b.w] *)
Definition bufd (b : reader) : str := sub (buf b) (rpos b) (wpos b).

(* everything still to be returned: the buffered bytes, then what the script holds *)
Definition T (b : reader) : str := bufd b ++ stream (rsrc b).

Definition bounds (b : reader) : Prop :=
  rpos b <= wpos b /\ wpos b <= length (buf b) /\ 1 <= length (buf b).

(* a pending b.err between two calls is the script's final error, and the script is exhausted *)
Definition err_final (b : reader) : Prop :=
  forall e, rerr b = Some e -> e = ferr (rsrc b) /\ exhausted (rsrc b).

Definition wf (b : reader) : Prop :=
  bounds b /\ err_final b /\ ferr (rsrc b) <> EBufferFull.

Lemma bufd_length b : bounds b -> length (bufd b) = buffered_n b.
Proof. intros (Hrw & Hw & _). unfold bufd, buffered_n. apply sub_length; assumption. Qed.

Lemma err_final_none b : rerr b = None -> err_final b.
Proof. intros H e He. rewrite H in He. discriminate He. Qed.

(* ---------- slide ---------- *)

Lemma slide_spec b : bounds b ->
  exists b1, slide b = Some b1 /\ bounds b1 /\ length (buf b1) = length (buf b) /\
             rpos b1 = 0 /\ wpos b1 = wpos b - rpos b /\ bufd b1 = bufd b /\
             rerr b1 = rerr b /\ rsrc b1 = rsrc b.
Proof.
  intros (Hrw & Hw & Hc). unfold slide. destruct (Nat.ltb_spec 0 (rpos b)) as [Hr|Hr].
  - rewrite slice_some by assumption.
    pose proof (sub_length (buf b) (rpos b) (wpos b) Hrw Hw) as Hl.
    assert (Hle : length (sub (buf b) (rpos b) (wpos b)) <= length (buf b)) by lia.
    destruct (copy_to_spec (buf b) _ Hle) as [_ Hcp].
    eexists. split; [reflexivity|]. cbn [buf rpos wpos rerr rsrc]. rewrite Hcp, Hl.
    assert (Hlen : length (sub (buf b) (rpos b) (wpos b) ++ skipn (wpos b - rpos b) (buf b)) = length (buf b)).
    { rewrite app_length, skipn_length, Hl. lia. }
    split; [unfold bounds; cbn [buf rpos wpos]; rewrite Hlen; lia|].
    split; [exact Hlen|]. split; [reflexivity|]. split; [reflexivity|].
    split; [|split; reflexivity].
    unfold bufd at 1. cbn [buf rpos wpos]. rewrite sub_from_0, <- Hl.
    rewrite <- (Nat.add_0_r (length _)), firstn_app_2. cbn [firstn]. apply app_nil_r.
  - exists b. split; [reflexivity|]. split; [unfold bounds; lia|].
    split; [reflexivity|]. split; [lia|]. split; [lia|]. split; [reflexivity|split; reflexivity].
Qed.

(* ---------- fill ---------- *)

(* the state after a Read that wrote [data] at b.buf[b.w:] *)
Lemma write_spec b data e rd' : bounds b -> length data <= length (buf b) - wpos b ->
  let b1 := mkReader (firstn (wpos b) (buf b) ++ data ++ skipn (length data) (skipn (wpos b) (buf b)))
                     (rpos b) (wpos b + length data) e rd' in
  bounds b1 /\ length (buf b1) = length (buf b) /\ bufd b1 = bufd b ++ data.
Proof.
  intros (Hrw & Hw & Hc) Hd b1.
  assert (Hlen : length (buf b1) = length (buf b)).
  { unfold b1. cbn [buf]. rewrite !app_length, firstn_length_le, !skipn_length by exact Hw. lia. }
  split; [unfold bounds; rewrite Hlen; unfold b1; cbn [rpos wpos]; lia|].
  split; [exact Hlen|].
  unfold bufd, b1. cbn [buf rpos wpos]. apply sub_app_write; assumption.
Qed.

Lemma fill_loop_S i b : fill_loop (S i) b =
  match slice (buf b) (wpos b) (length (buf b)) with
  | None => FillPanic PSliceBounds
  | Some p =>
      let '(p', n, e, rd') := src_read (rsrc b) p in
      let b1 := mkReader (firstn (wpos b) (buf b) ++ p') (rpos b) (wpos b + n) (rerr b) rd' in
      match e with
      | Some e => FillOk (set_err b1 (Some e))
      | None => if 0 <? n then FillOk b1 else fill_loop i b1
      end
  end.
Proof. reflexivity. Qed.

(* what one run of fill's read loop does, starting with i tries left *)
Definition fill_post (i : nat) (b b' : reader) : Prop :=
  bounds b' /\ length (buf b') = length (buf b) /\ rpos b' = rpos b /\
  ferr (rsrc b') = ferr (rsrc b) /\
  exists data, bufd b' = bufd b ++ data /\ stream (rsrc b) = data ++ stream (rsrc b') /\
    ( (rerr b' = None /\ data <> [] /\ empties (chunks (rsrc b)) < i /\
       (progress_ok (chunks (rsrc b)) -> progress_ok (chunks (rsrc b'))))
    \/ (rerr b' = Some (ferr (rsrc b)) /\ exhausted (rsrc b') /\ empties (chunks (rsrc b)) < i)
    \/ (rerr b' = Some ENoProgress /\ data = [] /\ i <= empties (chunks (rsrc b)) /\
        chunks (rsrc b') = skipn i (chunks (rsrc b)) /\ last (rsrc b') = last (rsrc b)) ).

Lemma fill_loop_spec : forall i b, bounds b -> wpos b < length (buf b) -> rerr b = None ->
  exists b', fill_loop i b = FillOk b' /\ fill_post i b b'.
Proof.
  induction i as [|i IH]; intros b Hb Hw He.
  - exists (set_err b (Some ENoProgress)). split; [reflexivity|].
    unfold fill_post, set_err, bufd, bounds in *. cbn [buf rpos wpos rerr rsrc].
    split; [exact Hb|]. split; [reflexivity|]. split; [reflexivity|]. split; [reflexivity|].
    exists []. split; [rewrite app_nil_r; reflexivity|]. split; [reflexivity|].
    right. right. split; [reflexivity|]. split; [reflexivity|]. split; [lia|split; reflexivity].
  - rewrite fill_loop_S. pose proof Hb as (Hrw & Hwc & Hc).
    rewrite slice_some, sub_to_end by lia.
    assert (Hp : 1 <= length (skipn (wpos b) (buf b))) by (rewrite skipn_length; lia).
    destruct (src_read_spec (rsrc b) _ Hp) as (data & e & s' & -> & Hd & Hst & Hfe & Hk).
    rewrite skipn_length in Hd.
    destruct (write_spec b data (rerr b) s' Hb Hd) as (Hb1 & Hl1 & Hbd1).
    set (b1 := mkReader _ _ _ (rerr b) s') in *.
    destruct Hk as [(-> & -> & cs & Hcs & Hcs' & Hla)|[(-> & Hne & Hem & Hpr)|(-> & Hcs & Hex)]].
    + (* a (0, nil) read: try again *)
      cbn [length Nat.ltb Nat.leb].
      destruct (IH b1) as (b' & Hfl & Hb' & Hl' & Hr' & Hf' & data' & Hbd' & Hst' & Hk').
      { exact Hb1. } { rewrite Hl1. change (wpos b1) with (wpos b + 0). lia. }
      { exact He. }
      exists b'. split; [exact Hfl|]. unfold fill_post.
      split; [exact Hb'|]. split; [rewrite Hl'; exact Hl1|]. split; [rewrite Hr'; reflexivity|].
      split; [rewrite Hf'; exact Hfe|].
      exists data'. rewrite app_nil_r in Hbd1. split; [rewrite Hbd', Hbd1; reflexivity|].
      split; [rewrite Hst; cbn [app]; exact Hst'|].
      change (rsrc b1) with s' in Hst', Hf', Hk'. rewrite Hcs. cbn [empties]. rewrite Hcs' in Hk'. rewrite Hfe, Hla in Hk'.
      destruct Hk' as [(H1 & H2 & H3 & H4)|[(H1 & H2 & H3)|(H1 & H2 & H3 & H4 & H5)]].
      * left. split; [exact H1|]. split; [exact H2|]. split; [lia|].
        intros Hp0. apply H4. exact (progress_ok_tl _ _ Hp0).
      * right. left. split; [exact H1|]. split; [exact H2|lia].
      * right. right. split; [exact H1|]. split; [exact H2|]. split; [lia|]. split; [exact H4|exact H5].
    + (* n > 0 *)
      assert (Hn : 0 <? length data = true).
      { apply Nat.ltb_lt. destruct data; [contradiction|cbn; lia]. }
      rewrite Hn. exists b1. split; [reflexivity|]. unfold fill_post.
      split; [exact Hb1|]. split; [exact Hl1|]. split; [reflexivity|]. split; [exact Hfe|].
      exists data. split; [exact Hbd1|]. split; [exact Hst|].
      left. split; [exact He|]. split; [exact Hne|]. split; [lia|exact Hpr].
    + (* the final error *)
      exists (set_err b1 (Some (ferr (rsrc b)))). split; [reflexivity|]. unfold fill_post.
      split; [exact Hb1|]. split; [exact Hl1|]. split; [reflexivity|]. split; [exact Hfe|].
      exists data. split; [exact Hbd1|]. split; [exact Hst|].
      right. left. split; [reflexivity|]. split; [exact Hex|]. rewrite Hcs. cbn. lia.
Qed.

Lemma fill_spec b : bounds b -> buffered_n b < length (buf b) -> rerr b = None ->
  exists b', fill b = FillOk b' /\ rpos b' = 0 /\
    bounds b' /\ length (buf b') = length (buf b) /\ ferr (rsrc b') = ferr (rsrc b) /\
    exists data, bufd b' = bufd b ++ data /\ stream (rsrc b) = data ++ stream (rsrc b') /\
    ( (rerr b' = None /\ data <> [] /\ empties (chunks (rsrc b)) < max_consecutive_empty_reads /\
       (progress_ok (chunks (rsrc b)) -> progress_ok (chunks (rsrc b'))))
    \/ (rerr b' = Some (ferr (rsrc b)) /\ exhausted (rsrc b') /\
        empties (chunks (rsrc b)) < max_consecutive_empty_reads)
    \/ (rerr b' = Some ENoProgress /\ data = [] /\
        max_consecutive_empty_reads <= empties (chunks (rsrc b)) /\
        chunks (rsrc b') = skipn max_consecutive_empty_reads (chunks (rsrc b)) /\
        last (rsrc b') = last (rsrc b)) ).
Proof.
  intros Hb Hn He. unfold fill.
  destruct (slide_spec b Hb) as (b1 & -> & Hb1 & Hl1 & Hr1 & Hw1 & Hbd1 & He1 & Hs1).
  unfold buffered_n in Hn.
  destruct (Nat.leb_spec (length (buf b1)) (wpos b1)) as [Hfull|Hroom]; [lia|].
  destruct (fill_loop_spec max_consecutive_empty_reads b1 Hb1 Hroom) as (b' & -> & Hb' & Hl' & Hr' & Hf' & data & Hbd' & Hst' & Hk).
  { rewrite He1. exact He. }
  exists b'. split; [reflexivity|]. split; [lia|]. split; [exact Hb'|]. split; [lia|].
  rewrite Hs1 in *. split; [exact Hf'|]. exists data. rewrite Hbd1 in Hbd'.
  split; [exact Hbd'|]. split; [exact Hst'|exact Hk].
Qed.

(* ---------- ReadSlice: the slice expressions in terms of the buffered bytes ---------- *)

Lemma slice_area b s : bounds b -> s <= buffered_n b ->
  slice (buf b) (rpos b + s) (wpos b) = Some (skipn s (bufd b)).
Proof.
  intros Hb Hs. pose proof Hb as (Hrw & Hw & Hc). unfold buffered_n in Hs.
  rewrite slice_some by lia. f_equal.
  replace (wpos b) with (rpos b + (wpos b - rpos b)) at 1 by lia.
  rewrite (sub_inner (buf b) (rpos b) (wpos b)) by lia. fold (bufd b).
  replace (wpos b - rpos b) with (length (bufd b)) by (apply bufd_length; exact Hb).
  apply sub_to_end.
Qed.

Lemma slice_prefix b k : bounds b -> k <= buffered_n b ->
  slice (buf b) (rpos b) (rpos b + k) = Some (firstn k (bufd b)).
Proof.
  intros Hb Hk. pose proof Hb as (Hrw & Hw & Hc). unfold buffered_n in Hk.
  rewrite slice_some by lia. f_equal.
  rewrite <- (Nat.add_0_r (rpos b)) at 1.
  rewrite (sub_inner (buf b) (rpos b) (wpos b)) by lia. fold (bufd b). apply sub_from_0.
Qed.

Lemma slice_bufd b : bounds b -> slice (buf b) (rpos b) (wpos b) = Some (bufd b).
Proof. intros (Hrw & Hw & Hc). rewrite slice_some by lia. reflexivity. Qed.

Lemma advance_spec b k : bounds b -> k <= buffered_n b ->
  bounds (set_rpos b (rpos b + k)) /\ bufd (set_rpos b (rpos b + k)) = skipn k (bufd b).
Proof.
  intros Hb Hk. pose proof Hb as (Hrw & Hw & Hc). unfold buffered_n in Hk.
  split; [unfold bounds, set_rpos; cbn [buf rpos wpos]; lia|].
  unfold bufd, set_rpos. cbn [buf rpos wpos].
  replace (wpos b) with (rpos b + (wpos b - rpos b)) at 1 by lia.
  rewrite (sub_inner (buf b) (rpos b) (wpos b)) by lia.
  replace (wpos b - rpos b) with (length (sub (buf b) (rpos b) (wpos b))) by (apply sub_length; lia).
  apply sub_to_end.
Qed.

Lemma read_slice_loop_S f d s b : read_slice_loop (S f) d s b =
  match slice (buf b) (rpos b + s) (wpos b) with
  | None => RSPanic PSliceBounds
  | Some area =>
      match index_byte area d with
      | Some i =>
          let i := i + s in
          match slice (buf b) (rpos b) (rpos b + i + 1) with
          | None => RSPanic PSliceBounds
          | Some line => RSOk line None (set_rpos b (rpos b + i + 1))
          end
      | None =>
          match rerr b with
          | Some _ =>
              match slice (buf b) (rpos b) (wpos b) with
              | None => RSPanic PSliceBounds
              | Some line => let (e, b') := read_err (set_rpos b (wpos b)) in RSOk line e b'
              end
          | None =>
              if length (buf b) <=? buffered_n b
              then RSOk (buf b) (Some EBufferFull) (set_rpos b (wpos b))
              else match fill b with
                   | FillPanic p => RSPanic p
                   | FillOk b' => read_slice_loop f d (wpos b - rpos b) b'
                   end
          end
      end
  end.
Proof. reflexivity. Qed.

(* one iteration, four ways *)
Lemma rs_found f d s b i : bounds b -> s <= buffered_n b ->
  index_byte (skipn s (bufd b)) d = Some i ->
  i + s + 1 <= buffered_n b /\
  read_slice_loop (S f) d s b =
    RSOk (firstn (i + s + 1) (bufd b)) None (set_rpos b (rpos b + (i + s + 1))).
Proof.
  intros Hb Hs Hi. rewrite read_slice_loop_S, (slice_area b s Hb Hs), Hi. cbv zeta.
  destruct (index_byte_some _ _ _ Hi) as (x & y & Hxy & Hlx & _).
  assert (Hk : i + s + 1 <= buffered_n b).
  { apply (f_equal (@length ascii)) in Hxy. rewrite skipn_length, app_length, (bufd_length b Hb) in Hxy. cbn in Hxy. lia. }
  split; [exact Hk|].
  replace (rpos b + (i + s) + 1) with (rpos b + (i + s + 1)) by lia.
  rewrite (slice_prefix b _ Hb Hk). reflexivity.
Qed.

Lemma rs_pending f d s b e : bounds b -> s <= buffered_n b ->
  index_byte (skipn s (bufd b)) d = None -> rerr b = Some e ->
  read_slice_loop (S f) d s b = RSOk (bufd b) (Some e) (set_err (set_rpos b (wpos b)) None).
Proof.
  intros Hb Hs Hi He. rewrite read_slice_loop_S, (slice_area b s Hb Hs), Hi, He, (slice_bufd b Hb).
  unfold read_err. cbn [rerr set_rpos]. rewrite He. reflexivity.
Qed.

Lemma rs_full f d s b : bounds b -> s <= buffered_n b ->
  index_byte (skipn s (bufd b)) d = None -> rerr b = None -> length (buf b) <= buffered_n b ->
  read_slice_loop (S f) d s b = RSOk (buf b) (Some EBufferFull) (set_rpos b (wpos b)) /\ buf b = bufd b.
Proof.
  intros Hb Hs Hi He Hfull. rewrite read_slice_loop_S, (slice_area b s Hb Hs), Hi, He.
  rewrite (proj2 (Nat.leb_le _ _) Hfull). split; [reflexivity|].
  destruct Hb as (Hrw & Hw & Hc). unfold buffered_n in Hfull. unfold bufd.
  replace (rpos b) with 0 by lia. replace (wpos b) with (length (buf b)) by lia.
  symmetry. apply sub_all.
Qed.

Lemma rs_fill f d s b b' : bounds b -> s <= buffered_n b ->
  index_byte (skipn s (bufd b)) d = None -> rerr b = None -> buffered_n b < length (buf b) ->
  fill b = FillOk b' ->
  read_slice_loop (S f) d s b = read_slice_loop f d (buffered_n b) b'.
Proof.
  intros Hb Hs Hi He Hroom Hf. rewrite read_slice_loop_S, (slice_area b s Hb Hs), Hi, He.
  rewrite (proj2 (Nat.leb_gt _ _) Hroom), Hf. reflexivity.
Qed.

(* ---------- ReadSlice ---------- *)

(* What one ReadSlice call does to the state, in terms of T: it takes a prefix [line] of T.
   err = nil: the line ends with the first delimiter of T; ErrBufferFull: a whole buffer without
   delimiter; otherwise everything buffered (no delimiter in it), and either the script is
   exhausted and the error is its final error, or the script has just served
   maxConsecutiveEmptyReads empty reads in a row. *)
Definition rs_post (d : ascii) (b : reader) (line : str) (e : option error) (b' : reader) : Prop :=
  bounds b' /\ length (buf b') = length (buf b) /\ ferr (rsrc b') = ferr (rsrc b) /\
  T b = line ++ T b' /\
  match e with
  | None => (exists body, line = body ++ [d] /\ ~ In d body) /\ err_final b' /\
            (progress_ok (chunks (rsrc b)) -> progress_ok (chunks (rsrc b')))
  | Some e => ~ In d line /\ rerr b' = None /\ bufd b' = [] /\
      ( (e = EBufferFull /\ length line = length (buf b) /\
         (progress_ok (chunks (rsrc b)) -> progress_ok (chunks (rsrc b'))))
      \/ (e = ferr (rsrc b) /\ exhausted (rsrc b'))
      \/ (e = ENoProgress /\ ~ progress_ok (chunks (rsrc b))) )
  end.

Lemma drain_spec b : bounds b ->
  bounds (set_rpos b (wpos b)) /\ bufd (set_rpos b (wpos b)) = [] /\
  bounds (set_err (set_rpos b (wpos b)) None) /\ bufd (set_err (set_rpos b (wpos b)) None) = [].
Proof.
  intros (Hrw & Hw & Hc). unfold bounds, bufd, set_err, set_rpos, sub. cbn [buf rpos wpos].
  rewrite Nat.sub_diag. cbn [firstn]. repeat split; lia.
Qed.

Lemma not_in_split (d : ascii) (l : str) s : ~ In d (firstn s l) -> ~ In d (skipn s l) -> ~ In d l.
Proof. intros H1 H2. rewrite <- (firstn_skipn s l). apply not_in_app; assumption. Qed.

Definition rs_measure (b : reader) : nat :=
  length (buf b) - buffered_n b + match rerr b with None => 1 | Some _ => 0 end.

Lemma rs_loop_spec d : forall fuel s b,
  bounds b -> err_final b -> s <= buffered_n b -> ~ In d (firstn s (bufd b)) ->
  rs_measure b < fuel ->
  exists line e b', read_slice_loop fuel d s b = RSOk line e b' /\ rs_post d b line e b'.
Proof.
  induction fuel as [|f IH]; intros s b Hb Hef Hs Hns Hm; [lia|].
  destruct (index_byte (skipn s (bufd b)) d) as [i|] eqn:Hi.
  - (* delimiter found *)
    destruct (rs_found f d s b i Hb Hs Hi) as [Hk ->].
    destruct (advance_spec b _ Hb Hk) as [Hb' Hbd'].
    destruct (index_byte_some _ _ _ Hi) as (x & y & Hxy & Hlx & Hnx).
    assert (Hsplit : bufd b = (firstn s (bufd b) ++ x) ++ d :: y).
    { rewrite <- app_assoc, <- Hxy. symmetry. apply firstn_skipn. }
    assert (Hlen : length (firstn s (bufd b) ++ x) = s + i).
    { rewrite app_length, firstn_length_le by (rewrite (bufd_length b Hb); exact Hs). lia. }
    destruct (split_at_delim _ _ _ _ _ Hsplit Hlen) as [Hfst Hskp].
    replace (i + s + 1) with (s + i + 1) in * by lia.
    eexists _, None, _. split; [reflexivity|]. unfold rs_post.
    split; [exact Hb'|]. split; [reflexivity|]. split; [reflexivity|].
    split; [unfold T; rewrite Hbd'; cbn [rsrc set_rpos]; rewrite app_assoc, firstn_skipn; reflexivity|].
    split; [exists (firstn s (bufd b) ++ x); split; [exact Hfst|apply not_in_app; assumption]|].
    split; [exact Hef|intros H; exact H].
  - pose proof (not_in_split d _ s Hns (index_byte_none _ _ Hi)) as Hnd.
    destruct (drain_spec b Hb) as (Hb1 & Hbd1 & Hb2 & Hbd2).
    destruct (rerr b) as [e|] eqn:He.
    + (* pending error *)
      rewrite (rs_pending f d s b e Hb Hs Hi He).
      eexists _, (Some e), _. split; [reflexivity|]. unfold rs_post.
      split; [exact Hb2|]. split; [reflexivity|]. split; [reflexivity|].
      split; [unfold T; rewrite Hbd2; reflexivity|].
      split; [exact Hnd|]. split; [reflexivity|]. split; [exact Hbd2|].
      right. left. exact (Hef e He).
    + destruct (Nat.le_gt_cases (length (buf b)) (buffered_n b)) as [Hfull|Hroom].
      * (* buffer full *)
        destruct (rs_full f d s b Hb Hs Hi He Hfull) as [-> Hbuf].
        eexists _, (Some EBufferFull), _. split; [reflexivity|]. unfold rs_post.
        split; [exact Hb1|]. split; [reflexivity|]. split; [reflexivity|].
        split; [unfold T; rewrite Hbd1, Hbuf; reflexivity|].
        split; [rewrite Hbuf; exact Hnd|]. split; [exact He|]. split; [exact Hbd1|].
        left. split; [reflexivity|]. split; [reflexivity|intros H; exact H].
      * (* fill, go round again *)
        destruct (fill_spec b Hb Hroom He) as (b1 & Hfill & _ & Hbb1 & Hl1 & Hf1 & data & Hbdd & Hst & Hk).
        rewrite (rs_fill f d s b b1 Hb Hs Hi He Hroom Hfill).
        assert (HT : T b = T b1) by (unfold T; rewrite Hbdd, Hst, app_assoc; reflexivity).
        assert (Hn1 : buffered_n b1 = buffered_n b + length data).
        { rewrite <- (bufd_length b1 Hbb1), <- (bufd_length b Hb), Hbdd. apply app_length. }
        assert (Hns1 : ~ In d (firstn (buffered_n b) (bufd b1))).
        { rewrite Hbdd, <- (bufd_length b Hb), <- (Nat.add_0_r (length (bufd b))), firstn_app_2.
          cbn [firstn]. rewrite app_nil_r. exact Hnd. }
        unfold rs_measure in Hm. rewrite He in Hm.
        assert (Hcont : err_final b1 -> rs_measure b1 < f ->
                  (progress_ok (chunks (rsrc b)) -> progress_ok (chunks (rsrc b1))) ->
                  exists line e b', read_slice_loop f d (buffered_n b) b1 = RSOk line e b' /\ rs_post d b line e b').
        { intros Hef1 Hm1 Hpr.
          destruct (IH (buffered_n b) b1 Hbb1 Hef1 ltac:(lia) Hns1 Hm1) as (line & e & b' & Hrun & Hb' & Hl' & Hf' & HT' & Hcase).
          exists line, e, b'. split; [exact Hrun|]. unfold rs_post.
          split; [exact Hb'|]. split; [lia|]. split; [congruence|]. split; [rewrite HT; exact HT'|].
          destruct e as [e|].
          - destruct Hcase as (H1 & H2 & H3 & H4). split; [exact H1|]. split; [exact H2|]. split; [exact H3|].
            destruct H4 as [(E1 & E2 & E3)|[(E1 & E2)|(E1 & E2)]].
            + left. split; [exact E1|]. split; [lia|]. intros H. exact (E3 (Hpr H)).
            + right. left. split; [congruence|exact E2].
            + right. right. split; [exact E1|]. intros H. exact (E2 (Hpr H)).
          - destruct Hcase as (H1 & H2 & H3). split; [exact H1|]. split; [exact H2|].
            intros H. exact (H3 (Hpr H)). }
        destruct Hk as [(E1 & E2 & E3 & E4)|[(E1 & E2 & E3)|(E1 & E2 & E3 & E4 & E5)]].
        -- apply Hcont; [exact (err_final_none b1 E1)| |exact E4].
           unfold rs_measure. rewrite E1. destruct data; [contradiction|]. cbn [length] in Hn1. lia.
        -- apply Hcont.
           ++ intros e He1. rewrite E1 in He1. injection He1 as <-. split; [symmetry; exact Hf1|exact E2].
           ++ unfold rs_measure. rewrite E1. lia.
           ++ intros _. destruct E2 as [-> _]. exact I.
        -- (* maxConsecutiveEmptyReads empty reads: b.err = io.ErrNoProgress, found at the next round *)
           destruct f as [|f']; [lia|].
           assert (Hi1 : index_byte (skipn (buffered_n b) (bufd b1)) d = None).
           { subst data. rewrite app_nil_r in Hbdd. rewrite Hbdd, <- (bufd_length b Hb), skipn_all. reflexivity. }
           rewrite (rs_pending f' d (buffered_n b) b1 ENoProgress Hbb1 ltac:(lia) Hi1 E1).
           destruct (drain_spec b1 Hbb1) as (_ & _ & Hb3 & Hbd3).
           subst data. rewrite app_nil_r in Hbdd.
           eexists _, (Some ENoProgress), _. split; [reflexivity|]. unfold rs_post.
           split; [exact Hb3|]. split; [exact Hl1|]. split; [exact Hf1|].
           split; [rewrite HT; unfold T; rewrite Hbd3; reflexivity|].
           split; [rewrite Hbdd; exact Hnd|]. split; [reflexivity|]. split; [exact Hbd3|].
           right. right. split; [reflexivity|].
           intros H. apply progress_ok_head in H. lia.
Qed.

Lemma read_slice_spec d b : bounds b -> err_final b ->
  exists line e b', read_slice d b = RSOk line e b' /\ rs_post d b line e b'.
Proof.
  intros Hb Hef. unfold read_slice, read_slice_fuel.
  apply rs_loop_spec; [exact Hb|exact Hef|lia|intros []|].
  unfold rs_measure. destruct (rerr b); lia.
Qed.

(* ---------- collectFragments / ReadString ---------- *)

Lemma collect_loop_S f d full b : collect_loop (S f) d full b =
  match read_slice d b with
  | RSPanic p => CFPanic p
  | RSOutOfFuel => CFOutOfFuel
  | RSOk frag None b' => CFOk full frag None b'
  | RSOk frag (Some EBufferFull) b' => collect_loop f d (full ++ [frag]) b'
  | RSOk frag (Some e) b' => CFOk full frag (Some e) b'
  end.
Proof. reflexivity. Qed.

(* What one ReadString call does, in terms of T: it returns a prefix [out] of T.
   err = nil: [out] ends with the first delimiter of T.  Otherwise [out] is everything there was
   (no delimiter in it) and either the script is exhausted and err is its final error, or the
   script served maxConsecutiveEmptyReads empty reads in a row and err = io.ErrNoProgress. *)
Definition cf_post (d : ascii) (b : reader) (out : str) (e : option error) (b' : reader) : Prop :=
  bounds b' /\ length (buf b') = length (buf b) /\ ferr (rsrc b') = ferr (rsrc b) /\
  T b = out ++ T b' /\
  match e with
  | None => (exists body, out = body ++ [d] /\ ~ In d body) /\ err_final b' /\
            (progress_ok (chunks (rsrc b)) -> progress_ok (chunks (rsrc b')))
  | Some e => ~ In d out /\ rerr b' = None /\ bufd b' = [] /\
      ( (e = ferr (rsrc b) /\ exhausted (rsrc b'))
      \/ (e = ENoProgress /\ ~ progress_ok (chunks (rsrc b))) )
  end.

Lemma collect_loop_spec d : forall fuel full b,
  bounds b -> err_final b -> ferr (rsrc b) <> EBufferFull -> length (T b) < fuel ->
  exists fullr frag e b', collect_loop fuel d full b = CFOk fullr frag e b' /\
    exists out, concat fullr ++ frag = concat full ++ out /\ cf_post d b out e b'.
Proof.
  induction fuel as [|f IH]; intros full b Hb Hef Hne Hfuel; [lia|].
  destruct (read_slice_spec d b Hb Hef) as (line & e & b1 & Hrun & Hb1 & Hl1 & Hf1 & HT & Hcase).
  rewrite collect_loop_S, Hrun. destruct e as [e|].
  - destruct Hcase as (Hnd & He1 & Hbd1 & Hk).
    assert (Hfinal : e <> EBufferFull ->
              ((e = ferr (rsrc b) /\ exhausted (rsrc b1)) \/ (e = ENoProgress /\ ~ progress_ok (chunks (rsrc b)))) ->
              exists fullr frag e' b',
                match e with
                | EBufferFull => collect_loop f d (full ++ [line]) b1
                | _ => CFOk full line (Some e) b1
                end = CFOk fullr frag e' b' /\
                exists out, concat fullr ++ frag = concat full ++ out /\ cf_post d b out e' b').
    { intros Hnbf Hk'. exists full, line, (Some e), b1.
      split; [destruct e; try reflexivity; contradiction|].
      exists line. split; [reflexivity|]. unfold cf_post.
      split; [exact Hb1|]. split; [exact Hl1|]. split; [exact Hf1|]. split; [exact HT|].
      split; [exact Hnd|]. split; [exact He1|]. split; [exact Hbd1|exact Hk']. }
    destruct Hk as [(-> & Hlen & Hpr)|[(-> & Hex)|(-> & Hnp)]].
    + (* a full buffer without delimiter: keep it, go round again *)
      destruct (IH (full ++ [line]) b1 Hb1 (err_final_none b1 He1)) as (fullr & frag & e' & b' & Hrun' & out' & Hcat & Hb' & Hl' & Hf' & HT' & Hcase').
      { rewrite Hf1. exact Hne. }
      { apply (f_equal (@length ascii)) in HT. rewrite app_length in HT. destruct Hb as (_ & _ & Hc). lia. }
      exists fullr, frag, e', b'. split; [exact Hrun'|].
      exists (line ++ out'). split; [rewrite Hcat, concat_app; cbn [concat]; rewrite app_nil_r, !app_assoc; reflexivity|].
      unfold cf_post. split; [exact Hb'|]. split; [lia|]. split; [congruence|].
      split; [rewrite HT, HT', app_assoc; reflexivity|].
      destruct e' as [e'|].
      * destruct Hcase' as (H1 & H2 & H3 & H4). split; [apply not_in_app; assumption|].
        split; [exact H2|]. split; [exact H3|].
        destruct H4 as [(E1 & E2)|(E1 & E2)].
        -- left. split; [congruence|exact E2].
        -- right. split; [exact E1|]. intros H. exact (E2 (Hpr H)).
      * destruct Hcase' as ((body & Hbody & Hnb) & H2 & H3).
        split; [exists (line ++ body); split; [rewrite Hbody, app_assoc; reflexivity|apply not_in_app; assumption]|].
        split; [exact H2|]. intros H. exact (H3 (Hpr H)).
    + apply Hfinal; [exact Hne|]. left. split; [reflexivity|exact Hex].
    + apply Hfinal; [discriminate|]. right. split; [reflexivity|exact Hnp].
  - exists full, line, None, b1. split; [reflexivity|]. exists line. split; [reflexivity|].
    unfold cf_post. split; [exact Hb1|]. split; [exact Hl1|]. split; [exact Hf1|]. split; [exact HT|exact Hcase].
Qed.

Lemma T_length b : bounds b -> length (T b) = buffered_n b + length (stream (rsrc b)).
Proof. intros Hb. unfold T. rewrite app_length, (bufd_length b Hb). reflexivity. Qed.

(* ReadString: never a panic, never out of fuel; and what it returns *)
Theorem read_string_b_spec d b : wf b ->
  exists out e b', read_string_b d b = RSOk out e b' /\ cf_post d b out e b'.
Proof.
  intros (Hb & Hef & Hne). unfold read_string_b, collect_fragments.
  destruct (collect_loop_spec d (collect_fuel b) [] b Hb Hef Hne) as (fullr & frag & e & b' & -> & out & Hcat & Hpost).
  { unfold collect_fuel. rewrite (T_length b Hb). lia. }
  exists out, e, b'. split; [rewrite Hcat; reflexivity|exact Hpost].
Qed.

Lemma cf_post_wf d b out e b' : wf b -> cf_post d b out e b' -> wf b'.
Proof.
  intros (Hb & Hef & Hne) (Hb' & _ & Hf' & _ & Hcase). split; [exact Hb'|].
  split; [|rewrite Hf'; exact Hne].
  destruct e as [e|].
  - destruct Hcase as (_ & He & _). exact (err_final_none b' He).
  - destruct Hcase as (_ & He & _). exact He.
Qed.

(* ---------- 1. reachable states ---------- *)

(* the states a reader goes through: NewReaderSize, then ReadString calls with any delimiters *)
Inductive reachable (rd : source) (size : nat) : reader -> Prop :=
| reach_new : reachable rd size (new_reader_size rd size)
| reach_call d b out e b' :
    reachable rd size b -> read_string_b d b = RSOk out e b' -> reachable rd size b'.

Lemma new_reader_facts rd size :
  bounds (new_reader_size rd size) /\ rerr (new_reader_size rd size) = None /\
  bufd (new_reader_size rd size) = [] /\ T (new_reader_size rd size) = stream rd /\
  length (buf (new_reader_size rd size)) = Nat.max size min_read_buffer_size.
Proof.
  unfold new_reader_size, bounds, T, bufd, sub, make_bytes. cbn [buf rpos wpos rerr rsrc].
  rewrite repeat_length. unfold min_read_buffer_size. cbn [Nat.sub firstn app].
  repeat split; lia.
Qed.

Lemma new_reader_wf rd size : ferr rd <> EBufferFull -> wf (new_reader_size rd size).
Proof.
  intros Hne. destruct (new_reader_facts rd size) as (Hb & He & _).
  split; [exact Hb|]. split; [exact (err_final_none _ He)|exact Hne].
Qed.

Theorem reachable_invariant rd size b : ferr rd <> EBufferFull -> reachable rd size b ->
  wf b /\ length (buf b) = Nat.max size min_read_buffer_size /\ ferr (rsrc b) = ferr rd.
Proof.
  intros Hne Hr. induction Hr as [|d b out e b' Hr IH Hcall].
  - split; [exact (new_reader_wf rd size Hne)|]. split; [|reflexivity].
    exact (proj2 (proj2 (proj2 (proj2 (new_reader_facts rd size))))).
  - destruct IH as (Hwf & Hlen & Hfe).
    destruct (read_string_b_spec d b Hwf) as (out' & e' & b'' & Hrun & Hpost).
    rewrite Hcall in Hrun. injection Hrun as -> -> ->.
    split; [exact (cf_post_wf d b _ _ _ Hwf Hpost)|].
    destruct Hpost as (_ & Hl & Hf & _). split; congruence.
Qed.

(* r <= w <= len(buf), len(buf) = max(size, 16) >= 16 *)
Theorem reachable_bounds rd size b : ferr rd <> EBufferFull -> reachable rd size b ->
  rpos b <= wpos b /\ wpos b <= length (buf b) /\ length (buf b) = Nat.max size min_read_buffer_size /\
  min_read_buffer_size <= length (buf b).
Proof.
  intros Hne Hr. destruct (reachable_invariant rd size b Hne Hr) as (((H1 & H2 & _) & _) & H3 & _).
  split; [exact H1|]. split; [exact H2|]. split; [exact H3|]. rewrite H3. apply Nat.le_max_r.
Qed.

(* every ReadString call on a reachable state returns: no panic, never out of fuel *)
Theorem reachable_read_string_returns rd size b d : ferr rd <> EBufferFull -> reachable rd size b ->
  exists out e b', read_string_b d b = RSOk out e b' /\ reachable rd size b'.
Proof.
  intros Hne Hr. destruct (reachable_invariant rd size b Hne Hr) as (Hwf & _).
  destruct (read_string_b_spec d b Hwf) as (out & e & b' & Hrun & _).
  exists out, e, b'. split; [exact Hrun|]. exact (reach_call rd size d b out e b' Hr Hrun).
Qed.

(* fill is called by ReadSlice only with room in the buffer and b.err == nil; then it does not panic *)
Theorem fill_never_panics b : wf b -> rerr b = None -> buffered_n b < length (buf b) ->
  exists b', fill b = FillOk b' /\ bounds b' /\ rpos b' = 0 /\ T b' = T b.
Proof.
  intros (Hb & _) He Hroom.
  destruct (fill_spec b Hb Hroom He) as (b' & Hf & Hr & Hb' & _ & _ & data & Hbd & Hst & _).
  exists b'. split; [exact Hf|]. split; [exact Hb'|]. split; [exact Hr|].
  unfold T. rewrite Hbd, Hst, app_assoc. reflexivity.
Qed.

Theorem read_slice_returns d b : wf b ->
  exists line e b', read_slice d b = RSOk line e b' /\ bounds b' /\ T b = line ++ T b'.
Proof.
  intros (Hb & Hef & _). destruct (read_slice_spec d b Hb Hef) as (line & e & b' & Hrun & Hb' & _ & _ & HT & _).
  exists line, e, b'. split; [exact Hrun|]. split; [exact Hb'|exact HT].
Qed.

(* ---------- 2. the contract ---------- *)

Lemma T_pending b : T b = bufd b ++ concat (pending (rsrc b)).
Proof. unfold T. rewrite concat_pending. reflexivity. Qed.

(* With no assumption on the script: what ReadString returns is what the contract says, or
   io.ErrNoProgress from a script that serves 100 empty reads in a row. *)
Theorem bufio_read_string_total d b : wf b ->
  exists out e b', read_string_b d b = RSOk out e b' /\ wf b' /\
    length (buf b') = length (buf b) /\ ferr (rsrc b') = ferr (rsrc b) /\
    ( (e = None /\ exists rest cs', read_string d (bufd b) (pending (rsrc b)) = RdLine out rest cs' /\
                    bufd b' ++ concat (pending (rsrc b')) = rest ++ concat cs')
    \/ (e = Some (ferr (rsrc b)) /\ read_string d (bufd b) (pending (rsrc b)) = RdEOF out /\
        bufd b' = [] /\ exhausted (rsrc b') /\ rerr b' = None)
    \/ (e = Some ENoProgress /\ ~ progress_ok (chunks (rsrc b)) /\ ~ In d out /\
        T b = out ++ T b' /\ bufd b' = [] /\ rerr b' = None) ).
Proof.
  intros Hwf. destruct (read_string_b_spec d b Hwf) as (out & e & b' & Hrun & Hpost).
  exists out, e, b'. split; [exact Hrun|]. split; [exact (cf_post_wf d b out e b' Hwf Hpost)|].
  destruct Hpost as (Hb' & Hl' & Hf' & HT & Hcase). split; [exact Hl'|]. split; [exact Hf'|].
  pose proof (read_string_spec d (pending (rsrc b)) (bufd b)) as R. rewrite <- T_pending in R.
  destruct e as [e|].
  - destruct Hcase as (Hnd & He' & Hbd' & [(-> & Hex)|(-> & Hnp)]).
    + right. left. split; [reflexivity|].
      assert (HTb : T b = out).
      { rewrite HT. unfold T. rewrite Hbd', (stream_exhausted _ Hex). apply app_nil_r. }
      rewrite HTb in R. destruct (read_string d (bufd b) (pending (rsrc b))) as [l rest cs'|rem].
      * rewrite (cut_not_in d out Hnd) in R. discriminate R.
      * destruct R as [_ ->]. split; [reflexivity|]. split; [exact Hbd'|]. split; [exact Hex|exact He'].
    + right. right. split; [reflexivity|]. split; [exact Hnp|]. split; [exact Hnd|].
      split; [exact HT|]. split; [exact Hbd'|exact He'].
  - destruct Hcase as ((body & -> & Hnb) & _ & _). left. split; [reflexivity|].
    rewrite HT, <- app_assoc in R. cbn [app] in R. rewrite (cut_body d body (T b') Hnb) in R.
    destruct (read_string d (bufd b) (pending (rsrc b))) as [l rest cs'|rem].
    + injection R as <- HT'. exists rest, cs'. split; [reflexivity|]. rewrite <- T_pending. exact HT'.
    + destruct R as [R _]. discriminate R.
Qed.

(* The contract of Model/Framing.v, PROVED of the library code: for every buffer size, every
   reader state and every script that never serves 100 empty reads in a row. *)
Theorem bufio_read_string_contract d b : wf b -> progress_ok (chunks (rsrc b)) ->
  match read_string d (bufd b) (pending (rsrc b)) with
  | RdLine l rest cs' =>
      exists b', read_string_b d b = RSOk l None b' /\
        wf b' /\ progress_ok (chunks (rsrc b')) /\
        length (buf b') = length (buf b) /\ ferr (rsrc b') = ferr (rsrc b) /\
        bufd b' ++ concat (pending (rsrc b')) = rest ++ concat cs'
  | RdEOF rem =>
      exists b', read_string_b d b = RSOk rem (Some (ferr (rsrc b))) b' /\
        wf b' /\ length (buf b') = length (buf b) /\ ferr (rsrc b') = ferr (rsrc b) /\
        bufd b' = [] /\ exhausted (rsrc b') /\ rerr b' = None
  end.
Proof.
  intros Hwf Hpr. destruct (read_string_b_spec d b Hwf) as (out & e & b' & Hrun & Hpost).
  pose proof (cf_post_wf d b out e b' Hwf Hpost) as Hwf'.
  destruct (bufio_read_string_total d b Hwf) as (out2 & e2 & b2 & Hrun2 & _ & Hl & Hf & Hk).
  rewrite Hrun in Hrun2. injection Hrun2 as <- <- <-.
  destruct Hk as [(-> & rest & cs' & -> & Hrest)|[(-> & -> & Hbd & Hex & He)|(-> & Hnp & _)]].
  - exists b'. split; [exact Hrun|]. split; [exact Hwf'|].
    destruct Hpost as (_ & _ & _ & _ & _ & _ & Hpr'). split; [exact (Hpr' Hpr)|].
    split; [exact Hl|]. split; [exact Hf|exact Hrest].
  - exists b'. split; [exact Hrun|]. split; [exact Hwf'|]. split; [exact Hl|]. split; [exact Hf|].
    split; [exact Hbd|]. split; [exact Hex|exact He].
  - contradiction.
Qed.

(* the first call on a fresh reader, any size *)
Corollary bufio_read_string_fresh d rd size : ferr rd <> EBufferFull -> progress_ok (chunks rd) ->
  match read_string d [] (pending rd) with
  | RdLine l rest cs' =>
      exists b', read_string_b d (new_reader_size rd size) = RSOk l None b' /\
        bufd b' ++ concat (pending (rsrc b')) = rest ++ concat cs'
  | RdEOF rem =>
      exists b', read_string_b d (new_reader_size rd size) = RSOk rem (Some (ferr rd)) b' /\
        bufd b' = [] /\ exhausted (rsrc b')
  end.
Proof.
  intros Hne Hpr. pose proof (bufio_read_string_contract d (new_reader_size rd size) (new_reader_wf rd size Hne) Hpr) as H.
  destruct (new_reader_facts rd size) as (_ & _ & Hbd & _). rewrite Hbd in H. cbn [rsrc new_reader_size] in H.
  destruct (read_string d [] (pending rd)) as [l rest cs'|rem].
  - destruct H as (b' & H1 & _ & _ & _ & _ & H2). exists b'. split; assumption.
  - destruct H as (b' & H1 & _ & _ & _ & H2 & H3 & _). exists b'. split; [exact H1|split; assumption].
Qed.

(* independence of the buffer size and of the chunking, said directly: two readers that still
   have the same bytes to return (however split between buffer and script, whatever the buffer
   sizes) and the same final error return the same string and error, and again have the same
   bytes to return *)
Theorem bufio_read_string_independent d b1 b2 : wf b1 -> wf b2 ->
  progress_ok (chunks (rsrc b1)) -> progress_ok (chunks (rsrc b2)) ->
  T b1 = T b2 -> ferr (rsrc b1) = ferr (rsrc b2) ->
  exists out e b1' b2', read_string_b d b1 = RSOk out e b1' /\ read_string_b d b2 = RSOk out e b2' /\
                        T b1' = T b2'.
Proof.
  intros Hw1 Hw2 Hp1 Hp2 HT Hfe.
  destruct (read_string_b_spec d b1 Hw1) as (o1 & e1 & b1' & Hr1 & _ & _ & _ & HT1 & Hc1).
  destruct (read_string_b_spec d b2 Hw2) as (o2 & e2 & b2' & Hr2 & _ & _ & _ & HT2 & Hc2).
  assert (Hend : forall b o e b', progress_ok (chunks (rsrc b)) -> T b = o ++ T b' ->
            ~ In d o /\ rerr b' = None /\ bufd b' = [] /\
            ((e = ferr (rsrc b) /\ exhausted (rsrc b')) \/ (e = ENoProgress /\ ~ progress_ok (chunks (rsrc b)))) ->
            e = ferr (rsrc b) /\ T b' = [] /\ T b = o /\ ~ In d o).
  { intros b o e b' Hp HTb (Hn & _ & Hbd & [(-> & Hex)|(_ & Hnp)]); [|contradiction].
    assert (HT' : T b' = []) by (unfold T; rewrite Hbd, (stream_exhausted _ Hex); reflexivity).
    split; [reflexivity|]. split; [exact HT'|]. split; [rewrite HTb, HT'; apply app_nil_r|exact Hn]. }
  destruct e1 as [e1|], e2 as [e2|].
  - destruct (Hend b1 o1 e1 b1' Hp1 HT1 Hc1) as (-> & Hn1 & Ho1 & _).
    destruct (Hend b2 o2 e2 b2' Hp2 HT2 Hc2) as (-> & Hn2 & Ho2 & _).
    exists o1, (Some (ferr (rsrc b1))), b1', b2'. split; [exact Hr1|].
    split; [rewrite Hr2, Hfe; f_equal; congruence|congruence].
  - destruct (Hend b1 o1 e1 b1' Hp1 HT1 Hc1) as (_ & _ & Ho1 & Hnd).
    destruct Hc2 as ((body & -> & Hnb) & _). exfalso. apply Hnd.
    rewrite <- Ho1, HT, HT2. apply in_or_app. left. apply in_or_app. right. left. reflexivity.
  - destruct (Hend b2 o2 e2 b2' Hp2 HT2 Hc2) as (_ & _ & Ho2 & Hnd).
    destruct Hc1 as ((body & -> & Hnb) & _). exfalso. apply Hnd.
    rewrite <- Ho2, <- HT, HT1. apply in_or_app. left. apply in_or_app. right. left. reflexivity.
  - destruct Hc1 as ((body1 & -> & Hnb1) & _). destruct Hc2 as ((body2 & -> & Hnb2) & _).
    rewrite <- app_assoc in HT1, HT2. cbn [app] in HT1, HT2.
    pose proof (cut_body d body1 (T b1') Hnb1) as C1. rewrite <- HT1, HT, HT2 in C1.
    rewrite (cut_body d body2 (T b2') Hnb2) in C1. injection C1 as Hb HT'.
    exists (body1 ++ [d]), None, b1', b2'. split; [exact Hr1|]. split; [rewrite Hr2, Hb; reflexivity|].
    symmetry. exact HT'.
Qed.

(* ---------- 3. the Ingest loop on the bufio model ---------- *)

Lemma bufio_loop_S f d cb k b : bufio_loop (S f) d cb k b =
  match read_string_b d b with
  | RSPanic p => ([], BPanic p)
  | RSOutOfFuel => ([], BOutOfFuel)
  | RSOk _ (Some e) _ => ([], BReadErr e)
  | RSOk line None b' =>
      if cb k line
      then let (ls, e) := bufio_loop f d cb (S k) b' in (line :: ls, e)
      else ([line], BCallbackErr k)
  end.
Proof. reflexivity. Qed.

(* what Ingest returns: the failing callback's error, or ReadString's error unchanged *)
Definition ret_of (fe : error) (r : ret) : bret :=
  match r with
  | RetCallbackErr k => BCallbackErr k
  | RetEOF => BReadErr fe
  | RetOutOfFuel => BOutOfFuel
  end.

Lemma records_no_delim d t : ~ In d t -> records d t = [].
Proof. intros H. unfold records. rewrite (frames_no_delim d t H). reflexivity. Qed.

Lemma records_body d body rest : ~ In d body ->
  records d ((body ++ [d]) ++ rest) = (body ++ [d]) :: records d rest.
Proof.
  intros H. unfold records. rewrite <- app_assoc. cbn [app]. rewrite (frames_body d body rest H). reflexivity.
Qed.

Lemma bufio_loop_spec d cb : forall fuel k b,
  wf b -> progress_ok (chunks (rsrc b)) -> length (T b) < fuel ->
  bufio_loop fuel d cb k b =
  (fst (deliver cb k (records d (T b))), ret_of (ferr (rsrc b)) (snd (deliver cb k (records d (T b))))).
Proof.
  induction fuel as [|f IH]; intros k b Hwf Hpr Hfuel; [lia|].
  rewrite bufio_loop_S.
  destruct (read_string_b_spec d b Hwf) as (out & e & b' & -> & Hpost).
  pose proof (cf_post_wf d b out e b' Hwf Hpost) as Hwf'.
  destruct Hpost as (Hb' & Hl' & Hf' & HT & Hcase). destruct e as [e|].
  - destruct Hcase as (Hnd & He' & Hbd' & [(-> & Hex)|(_ & Hnp)]); [|contradiction].
    assert (HTb : T b = out).
    { rewrite HT. unfold T. rewrite Hbd', (stream_exhausted _ Hex). apply app_nil_r. }
    rewrite HTb, (records_no_delim d out Hnd). reflexivity.
  - destruct Hcase as ((body & -> & Hnb) & _ & Hpr').
    rewrite HT, (records_body d body (T b') Hnb). cbn [deliver].
    destruct (cb k (body ++ [d])); [|reflexivity].
    rewrite (IH (S k) b' Hwf' (Hpr' Hpr)).
    + rewrite Hf'. destruct (deliver cb (S k) (records d (T b'))) as [l r]. reflexivity.
    + apply (f_equal (@length ascii)) in HT. rewrite !app_length in HT. cbn [length] in HT. lia.
Qed.

(* Ingest over any script (final error io.EOF or not; the last read may carry bytes): the records
   delivered are those [ingest] delivers from the script's bytes, whatever the buffer size; Ingest
   returns the failing callback's error, else the script's final error UNCHANGED -- and whatever
   followed the last delimiter is dropped, also when that error is not io.EOF. *)
Theorem bufio_ingest_src_spec size rd d cb : ferr rd <> EBufferFull -> progress_ok (chunks rd) ->
  bufio_ingest_src size rd d cb =
  (fst (ingest (pending rd) d cb), ret_of (ferr rd) (snd (ingest (pending rd) d cb))).
Proof.
  intros Hne Hpr. unfold bufio_ingest_src.
  destruct (new_reader_facts rd size) as (_ & _ & _ & HT & _).
  rewrite (bufio_loop_spec d cb _ 0 _ (new_reader_wf rd size Hne) Hpr) by (rewrite HT; lia).
  rewrite HT, ingest_records, concat_pending. reflexivity.
Qed.

Lemma deliver_not_out_of_fuel cb : forall rs k, snd (deliver cb k rs) <> RetOutOfFuel.
Proof.
  induction rs as [|r rs IH]; intros k; [discriminate|].
  cbn [deliver]. destruct (cb k r); [|discriminate].
  specialize (IH (S k)). destruct (deliver cb (S k) rs) as [l e]. exact IH.
Qed.

(* the loop theorem: for every buffer size and every chunking *)
Theorem bufio_ingest_eq size cs d cb : progress_ok cs ->
  bufio_ingest size cs d cb = (fst (ingest cs d cb), Some (snd (ingest cs d cb))).
Proof.
  intros Hpr. unfold bufio_ingest.
  rewrite (bufio_ingest_src_spec size (eof_source cs) d cb); [|discriminate|exact Hpr].
  assert (E : ingest (pending (eof_source cs)) d cb = ingest cs d cb).
  { rewrite !ingest_records, concat_pending. unfold stream, eof_source. cbn [chunks last]. rewrite app_nil_r. reflexivity. }
  rewrite E. cbn [ferr eof_source]. pose proof (ingest_never_out_of_fuel cs d cb) as Hn.
  destruct (ingest cs d cb) as [l r]. cbn [fst snd] in *. destruct r; [reflexivity|reflexivity|contradiction].
Qed.

Lemma nonempty_progress_ok cs : Forall (fun c => c <> []) cs -> progress_ok cs.
Proof.
  induction 1 as [|c cs Hc _ IH]; [exact I|]. apply progress_ok_nonempty; assumption.
Qed.

(* os.File's contract: (0, nil) only for len(p) = 0, i.e. no empty chunk at all *)
Corollary bufio_ingest_eq_file size cs d cb : Forall (fun c => c <> []) cs ->
  bufio_ingest size cs d cb = (fst (ingest cs d cb), Some (snd (ingest cs d cb))).
Proof. intros H. apply bufio_ingest_eq. exact (nonempty_progress_ok cs H). Qed.

(* ---------- 4. io.ErrNoProgress ---------- *)

Lemma empties_repeat n rest : empties (repeat [] n ++ rest) = n + empties rest.
Proof. induction n as [|n IH]; [reflexivity|]. cbn [repeat app empties]. rewrite IH. reflexivity. Qed.

Lemma skipn_repeat_app {A} (x : A) n rest : skipn n (repeat x n ++ rest) = rest.
Proof. induction n as [|n IH]; [reflexivity|exact IH]. Qed.

Lemma empties_prefix : forall n cs, n <= empties cs -> cs = repeat [] n ++ skipn n cs.
Proof.
  induction n as [|n IH]; intros cs H; [reflexivity|].
  destruct cs as [|[|a c] r]; cbn [empties] in H; try lia.
  cbn [repeat app skipn]. f_equal. apply IH. lia.
Qed.

(* what the contract theorem excludes is exactly a run of 100 empty chunks somewhere *)
Theorem not_progress_ok_iff cs :
  ~ progress_ok cs <-> exists pre rest, cs = pre ++ repeat [] max_consecutive_empty_reads ++ rest.
Proof.
  split.
  - induction cs as [|c r IH]; intros H; [exfalso; apply H; exact I|].
    destruct (Nat.lt_ge_cases (empties (c :: r)) max_consecutive_empty_reads) as [Hlt|Hge].
    + destruct IH as (pre & rest & ->).
      { intros Hr. apply H. split; assumption. }
      exists (c :: pre), rest. reflexivity.
    + exists [], (skipn max_consecutive_empty_reads (c :: r)). exact (empties_prefix _ _ Hge).
  - intros (pre & rest & ->). induction pre as [|c pre IH]; intros H.
    + apply progress_ok_head in H. cbn [app] in H. rewrite empties_repeat in H. lia.
    + exact (IH (progress_ok_tl _ _ H)).
Qed.

(* ReadSlice when the script's next 100 reads are empty and there is room in the buffer *)
Lemma read_slice_stall d b : bounds b -> rerr b = None -> ~ In d (bufd b) ->
  buffered_n b < length (buf b) -> max_consecutive_empty_reads <= empties (chunks (rsrc b)) ->
  exists b', read_slice d b = RSOk (bufd b) (Some ENoProgress) b' /\
    bounds b' /\ bufd b' = [] /\ rerr b' = None /\ length (buf b') = length (buf b) /\
    chunks (rsrc b') = skipn max_consecutive_empty_reads (chunks (rsrc b)) /\
    last (rsrc b') = last (rsrc b) /\ ferr (rsrc b') = ferr (rsrc b).
Proof.
  intros Hb He Hnd Hroom Hem. unfold read_slice, read_slice_fuel.
  replace (length (buf b) + 2) with (S (S (length (buf b)))) by lia.
  assert (Hi : index_byte (skipn 0 (bufd b)) d = None) by (apply index_byte_not_in; exact Hnd).
  destruct (fill_spec b Hb Hroom He) as (b1 & Hfill & _ & Hb1 & Hl1 & Hf1 & data & Hbd1 & _ & Hk).
  rewrite (rs_fill _ d 0 b b1 Hb ltac:(lia) Hi He Hroom Hfill).
  destruct Hk as [(_ & _ & Hlt & _)|[(_ & _ & Hlt)|(E1 & -> & _ & E4 & E5)]]; [lia|lia|].
  rewrite app_nil_r in Hbd1.
  assert (Hi1 : index_byte (skipn (buffered_n b) (bufd b1)) d = None).
  { rewrite Hbd1, <- (bufd_length b Hb), skipn_all. reflexivity. }
  assert (Hs1 : buffered_n b <= buffered_n b1).
  { rewrite <- (bufd_length b1 Hb1), Hbd1, (bufd_length b Hb). lia. }
  rewrite (rs_pending _ d (buffered_n b) b1 ENoProgress Hb1 Hs1 Hi1 E1).
  destruct (drain_spec b1 Hb1) as (_ & _ & Hb3 & Hbd3).
  eexists. split; [rewrite Hbd1; reflexivity|].
  split; [exact Hb3|]. split; [exact Hbd3|]. split; [reflexivity|]. split; [exact Hl1|].
  split; [exact E4|]. split; [exact E5|exact Hf1].
Qed.

(* The exact behaviour.  A reader with nothing pending, no delimiter among its buffered bytes,
   whose script serves 100 empty reads next: ReadString returns the buffered bytes with
   io.ErrNoProgress; exactly those 100 reads are consumed, the rest of the script is untouched,
   the buffer is empty, no error stays pending; a later call carries on from there. *)
Theorem bufio_no_progress d b rest : wf b -> rerr b = None -> ~ In d (bufd b) ->
  chunks (rsrc b) = repeat [] max_consecutive_empty_reads ++ rest ->
  exists b', read_string_b d b = RSOk (bufd b) (Some ENoProgress) b' /\
    wf b' /\ bufd b' = [] /\ rerr b' = None /\ length (buf b') = length (buf b) /\
    chunks (rsrc b') = rest /\ last (rsrc b') = last (rsrc b) /\ ferr (rsrc b') = ferr (rsrc b).
Proof.
  intros (Hb & Hef & Hne) He Hnd Hcs.
  assert (Hem : max_consecutive_empty_reads <= empties (chunks (rsrc b))) by (rewrite Hcs, empties_repeat; lia).
  assert (Hskip : skipn max_consecutive_empty_reads (chunks (rsrc b)) = rest) by (rewrite Hcs; apply skipn_repeat_app).
  assert (Hfin : forall b', bounds b' -> bufd b' = [] -> rerr b' = None -> length (buf b') = length (buf b) ->
            chunks (rsrc b') = skipn max_consecutive_empty_reads (chunks (rsrc b)) ->
            last (rsrc b') = last (rsrc b) -> ferr (rsrc b') = ferr (rsrc b) ->
            wf b' /\ bufd b' = [] /\ rerr b' = None /\ length (buf b') = length (buf b) /\
            chunks (rsrc b') = rest /\ last (rsrc b') = last (rsrc b) /\ ferr (rsrc b') = ferr (rsrc b)).
  { intros b' H1 H2 H3 H4 H5 H6 H7.
    split; [split; [exact H1|split; [exact (err_final_none b' H3)|rewrite H7; exact Hne]]|].
    split; [exact H2|]. split; [exact H3|]. split; [exact H4|]. split; [congruence|split; assumption]. }
  unfold read_string_b, collect_fragments, collect_fuel.
  destruct (Nat.le_gt_cases (length (buf b)) (buffered_n b)) as [Hfull|Hroom].
  - (* the buffer is full: it is returned as a fragment first, then the empty reads are met *)
    pose proof Hb as (_ & _ & Hc).
    replace (S (buffered_n b + length (stream (rsrc b)))) with (S (S (buffered_n b - 1 + length (stream (rsrc b))))) by lia.
    rewrite collect_loop_S. unfold read_slice at 1, read_slice_fuel.
    replace (length (buf b) + 2) with (S (length (buf b) + 1)) by lia.
    assert (Hi : index_byte (skipn 0 (bufd b)) d = None) by (apply index_byte_not_in; exact Hnd).
    destruct (rs_full (length (buf b) + 1) d 0 b Hb ltac:(lia) Hi He Hfull) as [-> Hbuf].
    destruct (drain_spec b Hb) as (Hb1 & Hbd1 & _ & _).
    set (b1 := set_rpos b (wpos b)) in *.
    destruct (read_slice_stall d b1 Hb1 He) as (b' & Hrun & H1 & H2 & H3 & H4 & H5 & H6 & H7).
    { rewrite Hbd1. intros []. } { rewrite <- (bufd_length b1 Hb1), Hbd1. cbn. exact Hc. } { exact Hem. }
    rewrite collect_loop_S, Hrun. exists b'.
    split; [rewrite Hbd1, Hbuf; cbn [app concat]; rewrite !app_nil_r; reflexivity|].
    apply Hfin; assumption.
  - destruct (read_slice_stall d b Hb He Hnd Hroom Hem) as (b' & Hrun & H1 & H2 & H3 & H4 & H5 & H6 & H7).
    rewrite collect_loop_S, Hrun. exists b'. split; [reflexivity|]. apply Hfin; assumption.
Qed.

(* conversely, with no assumption at all: io.ErrNoProgress comes back only from a script that
   serves 100 empty reads in a row (or whose own final error is io.ErrNoProgress) *)
Theorem bufio_no_progress_only d b out b' : wf b ->
  read_string_b d b = RSOk out (Some ENoProgress) b' ->
  ferr (rsrc b) = ENoProgress \/
  exists pre rest, chunks (rsrc b) = pre ++ repeat [] max_consecutive_empty_reads ++ rest.
Proof.
  intros Hwf Hrun. destruct (read_string_b_spec d b Hwf) as (o & e & b2 & Hrun2 & _ & _ & _ & _ & Hcase).
  rewrite Hrun in Hrun2. injection Hrun2 as <- <- <-.
  destruct Hcase as (_ & _ & _ & [(E & _)|(_ & Hnp)]).
  - left. symmetry. exact E.
  - right. apply not_progress_ok_iff. exact Hnp.
Qed.

(* ---------- statements over reachable states, in terms of the script given to NewReaderSize ---------- *)

Lemma cf_post_progress d b out e b' : cf_post d b out e b' ->
  progress_ok (chunks (rsrc b)) -> progress_ok (chunks (rsrc b')).
Proof.
  intros (_ & _ & _ & _ & Hcase) Hpr. destruct e as [e|].
  - destruct Hcase as (_ & _ & _ & [(_ & Hex & _)|(_ & Hnp)]); [rewrite Hex; exact I|contradiction].
  - destruct Hcase as (_ & _ & H). exact (H Hpr).
Qed.

Lemma reachable_progress rd size b : ferr rd <> EBufferFull -> progress_ok (chunks rd) ->
  reachable rd size b -> progress_ok (chunks (rsrc b)).
Proof.
  intros Hne Hpr Hr. induction Hr as [|d b out e b' Hr IH Hcall]; [exact Hpr|].
  destruct (reachable_invariant rd size b Hne Hr) as (Hwf & _).
  destruct (read_string_b_spec d b Hwf) as (out' & e' & b'' & Hrun & Hpost).
  rewrite Hcall in Hrun. injection Hrun as -> -> ->.
  exact (cf_post_progress d b _ _ _ Hpost IH).
Qed.

(* the contract, for every state a reader over the script rd reaches *)
Theorem bufio_contract_reachable rd size d b :
  ferr rd <> EBufferFull -> progress_ok (chunks rd) -> reachable rd size b ->
  match read_string d (bufd b) (pending (rsrc b)) with
  | RdLine l rest cs' =>
      exists b', read_string_b d b = RSOk l None b' /\ reachable rd size b' /\
        bufd b' ++ concat (pending (rsrc b')) = rest ++ concat cs'
  | RdEOF rem =>
      exists b', read_string_b d b = RSOk rem (Some (ferr rd)) b' /\ reachable rd size b' /\
        bufd b' = [] /\ exhausted (rsrc b') /\ rerr b' = None
  end.
Proof.
  intros Hne Hpr Hr. destruct (reachable_invariant rd size b Hne Hr) as (Hwf & _ & Hfe).
  pose proof (bufio_read_string_contract d b Hwf (reachable_progress rd size b Hne Hpr Hr)) as H.
  destruct (read_string d (bufd b) (pending (rsrc b))) as [l rest cs'|rem].
  - destruct H as (b' & H1 & _ & _ & _ & _ & H2). exists b'. split; [exact H1|].
    split; [exact (reach_call rd size d b _ _ b' Hr H1)|exact H2].
  - destruct H as (b' & H1 & _ & _ & _ & H2 & H3 & H4). rewrite Hfe in H1. exists b'. split; [exact H1|].
    split; [exact (reach_call rd size d b _ _ b' Hr H1)|]. split; [exact H2|split; assumption].
Qed.

(* C12_spec of Props/C12.v, of the loop that runs on the bufio model *)
Theorem bufio_ingest_chunks_spec : forall size cs d cb, progress_ok cs ->
  let rs := records d (concat cs) in
  (ok_all cb 0 rs /\ bufio_ingest size cs d cb = (rs, Some RetEOF)) \/
  (exists pre r post, rs = pre ++ r :: post /\ ok_all cb 0 pre /\ cb (length pre) r = false /\
                      bufio_ingest size cs d cb = (pre ++ [r], Some (RetCallbackErr (length pre)))).
Proof.
  intros size cs d cb Hpr rs. rewrite (bufio_ingest_eq size cs d cb Hpr).
  destruct (ingest_chunks_spec cs d cb) as [[Hok ->]|(pre & r & post & E & Hok & Hf & ->)].
  - left. split; [exact Hok|reflexivity].
  - right. exists pre, r, post. split; [exact E|]. split; [exact Hok|]. split; [exact Hf|reflexivity].
Qed.

(* ---------- why ferr <> ErrBufferFull is assumed ----------
   A script whose own error value is bufio.ErrBufferFull makes collectFragments take the pending
   error for a full buffer and go round for ever (the real package does: harness note in
   docs/B_NOTES.md).  In the model: whatever the fuel, it runs out. *)
Theorem bufio_buffer_full_source_diverges d : forall fuel full b,
  bounds b -> rerr b = None -> bufd b = [] -> exhausted (rsrc b) -> ferr (rsrc b) = EBufferFull ->
  collect_loop fuel d full b = CFOutOfFuel.
Proof.
  induction fuel as [|f IH]; intros full b Hb He Hbd Hex Hfe; [reflexivity|].
  destruct (read_slice_spec d b Hb (err_final_none b He)) as (line & e & b' & Hrun & Hb' & _ & Hf' & HT & Hcase).
  assert (HTb : T b = []) by (unfold T; rewrite Hbd, (stream_exhausted _ Hex); reflexivity).
  rewrite HTb in HT. symmetry in HT. apply app_eq_nil in HT. destruct HT as [-> HT'].
  rewrite collect_loop_S, Hrun. destruct e as [e|].
  - destruct Hcase as (_ & He' & Hbd' & Hk).
    assert (Hex' : exhausted (rsrc b')).
    { unfold T in HT'. apply app_eq_nil in HT'. destruct HT' as [_ Hs]. unfold stream in Hs.
      apply app_eq_nil in Hs. destruct Hs as [Hc Hl]. split; [|exact Hl].
      destruct Hk as [(_ & Hlen & _)|[(_ & Hx)|(_ & Hnp)]].
      - destruct Hb as (_ & _ & Hc1). cbn in Hlen. lia.
      - exact (proj1 Hx).
      - exfalso. apply Hnp. rewrite (proj1 Hex). exact I. }
    assert (Ee : e = EBufferFull).
    { destruct Hk as [(E & _)|[(E & _)|(_ & Hnp)]]; [exact E|congruence|].
      exfalso. apply Hnp. rewrite (proj1 Hex). exact I. }
    subst e. apply IH; [exact Hb'|exact He'|exact Hbd'|exact Hex'|congruence].
  - destruct Hcase as ((body & Hbody & _) & _). destruct body; discriminate Hbody.
Qed.
