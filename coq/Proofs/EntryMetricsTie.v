(* Ties of the sshd entry point and of the login counter to the source (Gen/EntryMetrics.v):
   - ProcessSshdLogEntry hands (sm.PID, sm.Message) to ProcessEntry UNCHANGED as (config.pid, config.logEntry)
     and returns ProcessEntry's result: the model's [process c tok line wok ready] is applied to exactly
     what the ingester handed over;
   - IncLogins(loginType, outcome) adds one to the registered counter remote_logins_total with
     method = string(loginType), outcome = string(outcome); the string values of the constants are
     pairwise distinct, so identifying a label by the NAME of the constant (mlabel) loses nothing. *)
From Coq Require Import Ascii String List Bool Arith.
Import ListNotations.
From AM Require Import Lib.Bytes Gen.SshdRegexes Gen.SshdDispatch Model.SshdProc Gen.EntryMetrics Model.EntryMetricsIR.
Open Scope string_scope.

(* ---------- 1. entry point ---------- *)
Lemma entry_sketch_exact :
  gen_entry = {| en_config := [("ctx", FromCtxParam);
                               ("logins", FromReceiver "logins");
                               ("logEntry", FromEntryMessage);
                               ("nodeName", FromReceiver "nodeName");
                               ("machineID", FromReceiver "machineID");
                               ("when", FromTimeNow);
                               ("pid", FromEntryPID);
                               ("eventW", FromReceiver "eventW");
                               ("metrics", FromReceiver "metrics")];
                 en_callee := "ProcessEntry";
                 en_result_returned := true |}.
Proof. reflexivity. Qed.

Theorem entry_from_source : forall pid msg, entry_args gen_entry (pid, msg) = Some (pid, msg).
Proof. intros. reflexivity. Qed.

(* node name, machine id (the model's cfg), writer, metrics provider and login channel are the processor's own *)
Lemma entry_inherits_processor_fields :
  en_inherited gen_entry ["logins"; "nodeName"; "machineID"; "eventW"; "metrics"] = true.
Proof. reflexivity. Qed.

(* the context the handlers select on (hand-off, cancellation) is the CALLER's context parameter itself: a derived
   context (context.WithTimeout / WithDeadline / WithCancel ...) would be a call expression (FromOtherExpr) and needs
   statements of its own in the body, which the generator does not accept; it is not the processor's context either *)
Lemma entry_context_is_callers : en_lookup "ctx" (en_config gen_entry) = Some FromCtxParam.
Proof. reflexivity. Qed.

(* the body is ONE call of ProcessEntry on a fresh per-line config whose result is returned: the sketch has no form for
   any other statement (guards / early returns, loops, defers, assignments to the processor), so nothing of the
   long-lived processor is read beyond the five inherited fields and nothing is written to it *)
Lemma entry_single_call :
  en_callee gen_entry = "ProcessEntry" /\ en_result_returned gen_entry = true /\
  map fst (en_config gen_entry) = ["ctx"; "logins"; "logEntry"; "nodeName"; "machineID"; "when"; "pid"; "eventW"; "metrics"] /\
  en_lookup "when" (en_config gen_entry) = Some FromTimeNow.
Proof. repeat split; reflexivity. Qed.

(* ---------- 1b. the long-lived processor ---------- *)
Lemma constructor_exact :
  gen_constructor = {| ct_fields := ["ctx"; "logins"; "logEntry"; "nodeName"; "machineID"; "when"; "pid"; "eventW"; "metrics"];
                       ct_inits := [("ctx", "ctx"); ("logins", "logins"); ("nodeName", "nodeName"); ("machineID", "machineID");
                                    ("eventW", "eventW"); ("metrics", "m")];
                       ct_result := "SshdProcessor";
                       ct_entry_impls := ["SshdProcessorer"] |}.
Proof. reflexivity. Qed.

(* The processor the daemon keeps for its whole life has NO field beyond those the per-line configuration literal sets
   afresh for every line: there is nothing in which state could be carried from one line to the next (a remembered
   previous record, a cache, a counter).  NewSshdProcessor is a single return of that struct built from its parameters
   (no wrapper type, no goroutine started), and SshdProcessorer is the only type of the package with a
   ProcessSshdLogEntry method. *)
Theorem processor_keeps_no_state :
  ct_fields gen_constructor = map fst (en_config gen_entry) /\
  ct_entry_impls gen_constructor = ["SshdProcessorer"] /\
  ct_result gen_constructor = "SshdProcessor" /\
  map fst (ct_inits gen_constructor) = ["ctx"; "logins"; "nodeName"; "machineID"; "eventW"; "metrics"].
Proof. repeat split; reflexivity. Qed.

(* spelled out for the model's entry point: what ProcessEntry is run on is the entry itself *)
Corollary process_applied_to_entry : forall c pid msg wok ready tok line,
  entry_args gen_entry (pid, msg) = Some (tok, line) ->
  process c tok line wok ready = process c pid msg wok ready.
Proof. intros c pid msg wok ready tok line H. rewrite entry_from_source in H. inversion H; subst. reflexivity. Qed.

(* ---------- 2. IncLogins ---------- *)
Lemma inc_logins_sketch_exact :
  gen_inc_logins = {| in_method := "IncLogins"; in_params := ["loginType"; "outcome"]; in_counter := "remoteLogins";
                      in_label_args := [ArgParam 0; ArgParam 1]; in_op := OpInc |}.
Proof. reflexivity. Qed.

Lemma remote_logins_counter :
  vd_find "remoteLogins" gen_vectors =
    Some {| vd_field := "remoteLogins"; vd_kind := "NewCounterVec"; vd_name := "remote_logins_total";
            vd_namespace := "audito_maldito"; vd_labels := ["method"; "outcome"]; vd_registered := true |}.
Proof. reflexivity. Qed.

(* one call = +1 on audito_maldito / remote_logins_total {method = loginType, outcome = outcome} *)
Theorem inc_logins_from_source : forall login_type outcome,
  inc_effect gen_inc_logins gen_vectors [login_type; outcome]
  = Some ("audito_maldito", "remote_logins_total", [("method", login_type); ("outcome", outcome)], 1).
Proof. intros. reflexivity. Qed.

(* ---------- constants ---------- *)
Lemma constant_tables :
  login_type_values = [("SSHCertLogin", "ssh-cert"); ("SSHKeyLogin", "ssh-key"); ("PasswordLogin", "password"); ("UnknownLogin", "unknown")]
  /\ outcome_type_values = [("Success", "success"); ("Failure", "failure")].
Proof. split; reflexivity. Qed.

Lemma values_distinct_inj : forall l, values_distinct l = true ->
  forall n1 n2 v, In (n1, v) l -> In (n2, v) l -> NoDup (map fst l) -> n1 = n2.
Proof.
  induction l as [|[n v0] r IH]; intros Hd n1 n2 v H1 H2 Hn; [destruct H1|].
  simpl in Hd. apply andb_true_iff in Hd. destruct Hd as [Hx Hr].
  apply negb_true_iff in Hx.
  assert (Hnot : forall n', In (n', v0) r -> False).
  { intros n' Hin. assert (existsb (fun p => String.eqb (snd p) v0) r = true) as E.
    { apply existsb_exists. exists (n', v0). split; [exact Hin| simpl; apply String.eqb_refl]. }
    rewrite E in Hx. discriminate. }
  inversion Hn; subst.
  destruct H1 as [H1|H1]; destruct H2 as [H2|H2].
  - inversion H1; inversion H2; subst. reflexivity.
  - inversion H1; subst. exfalso. eapply Hnot; eauto.
  - inversion H2; subst. exfalso. eapply Hnot; eauto.
  - eapply IH; eauto.
Qed.

(* distinct constant NAMES have distinct label VALUES (by computation on the generated tables) *)
Theorem label_values_distinct :
  values_distinct login_type_values = true /\ values_distinct outcome_type_values = true.
Proof. split; vm_compute; reflexivity. Qed.

Theorem label_names_determined_by_values :
  (forall n1 n2 v, In (n1, v) login_type_values -> In (n2, v) login_type_values -> n1 = n2) /\
  (forall n1 n2 v, In (n1, v) outcome_type_values -> In (n2, v) outcome_type_values -> n1 = n2).
Proof.
  destruct label_values_distinct as [H1 H2].
  split; intros n1 n2 v A B.
  - apply (values_distinct_inj _ H1 n1 n2 v A B). simpl. repeat constructor; simpl; intuition discriminate.
  - apply (values_distinct_inj _ H2 n1 n2 v A B). simpl. repeat constructor; simpl; intuition discriminate.
Qed.

(* every label the model uses (handlers and dispatch table) names a constant of the source *)
Definition model_labels : list mlabel :=
  [L_key_success; L_cert_success; L_cert_failure; L_unknown_failure]
  ++ flat_map (fun d => match snd d with Some l => [l] | None => [] end) dispatch.

Lemma model_labels_are_source_constants :
  forallb (fun l => has_name (fst l) login_type_values && has_name (snd l) outcome_type_values) model_labels = true.
Proof. vm_compute. reflexivity. Qed.

Print Assumptions entry_from_source.
Print Assumptions entry_context_is_callers.
Print Assumptions entry_single_call.
Print Assumptions processor_keeps_no_state.
Print Assumptions inc_logins_from_source.
Print Assumptions label_names_determined_by_values.
Print Assumptions model_labels_are_source_constants.
