(* Model/Health.v is what the source says: the programs GENERATED from internal/health/health.go
   (Gen/HealthProg.v), run by the interpreter of Model/HealthIR.v, equal the hand-written model on every
   state.  An edit of health.go changes Gen/HealthProg.v and these proofs stop compiling (or the generated
   file itself does not type-check: UNSUPPORTED_...). *)
From Coq Require Import String List Bool Arith.
Import ListNotations.
From AM Require Import Model.Health Proofs.HealthLemmas.
From AM Require Import Model.HealthIR Gen.HealthProg.
Open Scope string_scope.
Open Scope list_scope.

(* the callback of the (first) Iterate of a method *)
Fixpoint iter_body_of (p : list mstmt) : list cstmt :=
  match p with
  | [] => []
  | MIterate b :: _ => b
  | _ :: r => iter_body_of r
  end.

(* ---- AddReadiness / OnReady ---- *)

Theorem add_readiness_from_source : forall s n,
  run_method gen_IsReady gen_AddReadiness n s = Some (hstep s (HAdd n)).
Proof. reflexivity. Qed.

Theorem on_ready_from_source : forall s n,
  run_method gen_IsReady gen_OnReady n s = Some (hstep s (HReady n)).
Proof. reflexivity. Qed.

Definition gen_method (o : hop) : list mstmt :=
  match o with HAdd _ => gen_AddReadiness | HReady _ => gen_OnReady end.

Theorem ops_from_source : forall s o,
  run_method gen_IsReady (gen_method o) (op_name o) s = Some (hstep s o).
Proof. intros s [n|n]; reflexivity. Qed.

(* each of them is exactly one critical section, a Store *)
Theorem ops_sections : forall s o,
  method_sections gen_IsReady (gen_method o) (Some (op_name o)) s = Some [SecStore].
Proof. intros s [n|n]; reflexivity. Qed.

(* under interference too: the store lands on the map as it is when the lock is taken *)
Theorem ops_from_source_under : forall interf s o,
  run_top interf gen_IsReady (Some (op_name o)) (gen_method o) (frame s []) =
  Some ({| m_map := hstep (interf 0 s) o; m_bools := []; m_res := None; m_secs := [SecStore] |}, None).
Proof. intros interf s [n|n]; reflexivity. Qed.

(* ---- IsReady ---- *)

Lemma isready_iter ci s : forall mp res secs,
  iterate ci (iter_body_of gen_IsReady) s
    {| m_map := mp; m_bools := [("isReady", true)]; m_res := res; m_secs := secs |} =
  Some {| m_map := mp; m_bools := [("isReady", forallb snd s)]; m_res := res; m_secs := secs |}.
Proof.
  induction s as [|[k v] r IH]; intros mp res secs; [reflexivity|].
  destruct v.
  - cbn. cbn in IH. apply IH.
  - reflexivity.
Qed.

Theorem is_ready_under : forall interf s,
  eval_is_ready_under interf gen_IsReady s = Some (is_ready (interf 0 s)).
Proof.
  intros interf s. unfold eval_is_ready_under, run_leaf, gen_IsReady.
  cbn -[iterate forallb]. unfold enter. cbn -[iterate forallb].
  change (iterate ?ci _ ?s ?st) with (iterate ci (iter_body_of gen_IsReady) s st).
  rewrite isready_iter. reflexivity.
Qed.

Theorem is_ready_from_source : forall s, eval_is_ready gen_IsReady s = Some (is_ready s).
Proof. intros s. apply (is_ready_under sequential). Qed.

Theorem is_ready_sections : forall s, method_sections gen_IsReady gen_IsReady None s = Some [SecIter].
Proof.
  intros s. unfold method_sections, run_top, gen_IsReady.
  cbn -[iterate forallb]. unfold enter. cbn -[iterate forallb].
  change (iterate ?ci _ ?s ?st) with (iterate ci (iter_body_of gen_IsReady) s st).
  rewrite isready_iter. reflexivity.
Qed.

(* ---- GetReadyzStatusMap + readyzHandler ---- *)

Definition enc (e : name * bool) : rkey * string :=
  (RComp (fst e), if snd e then wire_ok else wire_not_ready).

Lemma status_iter ci s : forall mp b r secs,
  iterate ci (iter_body_of gen_GetReadyzStatusMap) s
    {| m_map := mp; m_bools := [("overalReady", b)]; m_res := Some r; m_secs := secs |} =
  Some {| m_map := mp; m_bools := [("overalReady", b && forallb snd s)];
          m_res := Some (r ++ map enc s); m_secs := secs |}.
Proof.
  induction s as [|[k v] r0 IH]; intros mp b r secs.
  - cbn. rewrite andb_true_r, app_nil_r. reflexivity.
  - destruct v.
    + cbn. cbn in IH. rewrite IH. rewrite <- app_assoc. reflexivity.
    + cbn. cbn in IH. rewrite IH. rewrite <- app_assoc.
      destruct b; reflexivity.
Qed.

(* GetReadyzStatusMap alone: the map it returns, as the sequence of its assignments: one per entry of
   the readiness map as it is at the Iterate section, then the overall key *)
Theorem status_map_under : forall interf s,
  let t := interf 1 (interf 0 s) in
  run_top interf gen_IsReady None gen_GetReadyzStatusMap (frame s []) =
  Some ({| m_map := t; m_bools := [("overalReady", forallb snd t)];
           m_res := Some (map enc t ++ [(RConst wire_overall, if forallb snd t then wire_ok else wire_not_ready)]);
           m_secs := [SecLen; SecIter] |},
        Some (RResult (map enc t ++ [(RConst wire_overall, if forallb snd t then wire_ok else wire_not_ready)]))).
Proof.
  intros interf s t. unfold run_top, gen_GetReadyzStatusMap.
  cbn -[iterate forallb]. unfold enter. cbn -[iterate forallb].
  change (iterate ?ci _ ?s ?st) with (iterate ci (iter_body_of gen_GetReadyzStatusMap) s st).
  rewrite status_iter. fold t.
  cbn -[forallb map]. destruct (forallb snd t); reflexivity.
Qed.

(* with distinct keys in the readiness map no key is assigned twice: the sequence is a map *)
Theorem status_map_keys_distinct : forall s v,
  NoDup (keys s) -> NoDup (map fst (map enc s ++ [(RConst wire_overall, v)])).
Proof.
  intros s v. unfold keys. induction s as [|[k w] r IH]; intros H.
  - cbn. constructor; [intros []|constructor].
  - inversion H as [|? ? Hk Hr]; subst. cbn [map app enc fst snd]. constructor; [|apply IH; exact Hr].
    rewrite map_app, in_app_iff. intros [Hin|Hin].
    + rewrite map_map in Hin. apply in_map_iff in Hin. destruct Hin as [[k' w'] [E Hin]].
      cbn in E. injection E as ->. apply Hk. change k with (fst (k, w')). apply in_map. exact Hin.
    + cbn in Hin. destruct Hin as [E|[]]. discriminate.
Qed.

Lemma rlookup_comps s : rlookup_str wire_overall (map enc s) = None.
Proof. induction s as [|[k v] r IH]; [reflexivity|exact IH]. Qed.

Lemma rlookup_app_overall s v :
  rlookup_str wire_overall (map enc s ++ [(RConst wire_overall, v)]) = Some v.
Proof. induction s as [|[k w] r IH]; [reflexivity|exact IH]. Qed.

Lemma decode_comps_enc s v : decode_comps (map enc s ++ [(RConst wire_overall, v)]) = Some s.
Proof.
  induction s as [|[k w] r IH]; [reflexivity|].
  cbn [map app decode_comps enc fst snd]. rewrite IH. destruct w; reflexivity.
Qed.

Lemma only_overall_enc s v : only_overall_key (map enc s ++ [(RConst wire_overall, v)]) = true.
Proof. induction s as [|[k w] r IH]; [reflexivity|exact IH]. Qed.

(* One request against any interference: the answer is the model's [status_of] of the map as it is at
   the request's SECOND critical section; the request consists of exactly the critical sections
   Len, Iterate, in this order; in particular the overall flag and the status code are determined
   inside the Iterate section (nothing reads the map afterwards). *)
Theorem request_under : forall interf s,
  eval_request interf gen_IsReady gen_GetReadyzStatusMap gen_readyzHandler s =
  Some (status_of (interf 1 (interf 0 s)), [SecLen; SecIter]).
Proof.
  intros interf s.
  unfold eval_request, gen_readyzHandler, gen_GetReadyzStatusMap.
  cbn -[iterate forallb rlookup_str rindex decode_resp]. unfold enter. cbn -[iterate forallb rlookup_str rindex decode_resp].
  change (iterate ?ci _ ?s ?st) with (iterate ci (iter_body_of gen_GetReadyzStatusMap) s st).
  rewrite status_iter.
  set (t := interf 1 (interf 0 s)).
  cbn -[forallb rlookup_str rindex decode_resp map].
  unfold status_of.
  destruct (forallb snd t) eqn:E;
    cbn -[forallb rlookup_str rindex decode_resp map];
    unfold rindex;
    change "overall" with wire_overall;
    rewrite rlookup_app_overall;
    cbn -[forallb rlookup_str decode_comps only_overall_key map];
    change "overall" with wire_overall;
    rewrite rlookup_app_overall, decode_comps_enc, only_overall_enc;
    reflexivity.
Qed.

Theorem status_from_source : forall s,
  eval_status gen_IsReady gen_GetReadyzStatusMap gen_readyzHandler s = Some (status_of s).
Proof. intros s. unfold eval_status. rewrite request_under. reflexivity. Qed.

(* the request's critical sections are exactly the events  [EvLen; EvIter]  of [exec_req] *)
Theorem request_sections : forall interf s,
  match eval_request interf gen_IsReady gen_GetReadyzStatusMap gen_readyzHandler s with
  | Some (_, secs) => secs_as_events secs
  | None => None
  end = Some [EvLen; EvIter].
Proof. intros interf s. rewrite request_under. reflexivity. Qed.

(* [exec_req]'s shape is justified: running the generated request with the concurrent stores of
   [pre] before its first and of [mid] before its second critical section answers what [exec_req]
   answers on  pre ; Len ; mid ; Iterate ; post. *)
Definition interf_of (pre mid : list sev) : nat -> hstate -> hstate :=
  fun i s => match i with
             | 0 => fold_left hstep (ev_ops pre) s
             | 1 => fold_left hstep (ev_ops mid) s
             | _ => s
             end.

Theorem exec_req_from_source : forall pre mid post : list sev,
  no_req pre -> no_req mid -> no_req post ->
  snd (exec_req (pre ++ EvLen :: mid ++ EvIter :: post) [] None) =
  option_map fst (eval_request (interf_of pre mid) gen_IsReady gen_GetReadyzStatusMap gen_readyzHandler []).
Proof.
  intros pre mid post Hpre Hmid Hpost.
  rewrite request_under. cbn [option_map fst interf_of].
  destruct (health_snapshot pre mid post Hpre Hmid Hpost) as [E _].
  cbn zeta in E. rewrite E. unfold hrun. rewrite fold_left_app. reflexivity.
Qed.

(* ---- WaitForReady ---- *)

Theorem wait_arms_from_source :
  w_out_cap gen_WaitForReady = 0 /\ w_spawned gen_WaitForReady = true /\
  map fst (w_arms gen_WaitForReady) = [GCtxDone; GTick] /\
  eval_wait_arm gen_IsReady gen_WaitForReady WCancel = Some (Some WErr) /\
  forall s, eval_wait_arm gen_IsReady gen_WaitForReady (WTick s) =
            Some (if is_ready s then Some WClosed else None).
Proof.
  repeat split.
  intros s. unfold eval_wait_arm, gen_WaitForReady.
  cbn -[eval_is_ready]. rewrite is_ready_from_source.
  destruct (is_ready s); reflexivity.
Qed.

Theorem wait_from_source : forall evs, eval_wait gen_IsReady gen_WaitForReady evs = Some (wait_run evs).
Proof.
  destruct wait_arms_from_source as (_ & _ & _ & Hc & Ht).
  induction evs as [|[s|] r IH]; [reflexivity| |].
  - cbn [eval_wait wait_run]. rewrite Ht. destruct (is_ready s); [reflexivity|exact IH].
  - cbn [eval_wait wait_run]. rewrite Hc. reflexivity.
Qed.

(* ---- what the interpreter assumes of GenericSyncMap.Store / Len / Iterate ---- *)
Theorem syncmap_semantics_from_source :
  gen_syncmap_sem = [("NewGenericSyncMap", SemEmpty); ("Store", SemAssign); ("Len", SemLen);
                     ("Iterate", SemRangeUntilFalse)].
Proof. reflexivity. Qed.

(* ---- the model's operations are all there is: NewHealth starts with an empty map ([hrun] starts
   from []), and no other function of the package mentions the map field ---- *)
Theorem map_users_from_source :
  gen_NewHealth = InitEmptyMap /\
  gen_map_users = ["NewHealth"; "AddReadiness"; "OnReady"; "IsReady"; "GetReadyzStatusMap"].
Proof. split; reflexivity. Qed.

(* ---- summary ---- *)
Theorem health_from_source :
  (forall s o, run_method gen_IsReady (gen_method o) (op_name o) s = Some (hstep s o)) /\
  (forall s, eval_is_ready gen_IsReady s = Some (is_ready s)) /\
  (forall s, eval_status gen_IsReady gen_GetReadyzStatusMap gen_readyzHandler s = Some (status_of s)) /\
  (forall interf s,
     eval_request interf gen_IsReady gen_GetReadyzStatusMap gen_readyzHandler s =
     Some (status_of (interf 1 (interf 0 s)), [SecLen; SecIter])) /\
  secs_as_events [SecLen; SecIter] = Some [EvLen; EvIter] /\
  (forall evs, eval_wait gen_IsReady gen_WaitForReady evs = Some (wait_run evs)).
Proof.
  repeat split.
  - exact ops_from_source.
  - exact is_ready_from_source.
  - exact status_from_source.
  - exact request_under.
  - exact wait_from_source.
Qed.

Print Assumptions ops_from_source.
Print Assumptions is_ready_from_source.
Print Assumptions status_from_source.
Print Assumptions status_map_under.
Print Assumptions status_map_keys_distinct.
Print Assumptions request_under.
Print Assumptions exec_req_from_source.
Print Assumptions wait_arms_from_source.
Print Assumptions wait_from_source.
Print Assumptions syncmap_semantics_from_source.
Print Assumptions map_users_from_source.
Print Assumptions health_from_source.
