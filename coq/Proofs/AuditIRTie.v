(* Model/AuditProc.v is what the source says: the functions GENERATED from processors/auditd/auditd.go and
   processors/auditd/reassembler_callback.go (Gen/AuditProg.v), run by the interpreter of Model/AuditIR.v,
   equal the hand-written model for all inputs and all oracles:
     complete_from_source / deliver_from_source   ReassemblyComplete            = [deliver]
     lost_from_source                             EventsLost                    = [note_lost] (it only logs)
     reass_from_source                            rstep + the generated callbacks = [reass]
     on_line_from_source, parse_cancel_from_source, parse_loop_from_source
                                                  parseAuditLogs                = [on_line], [parse_loop]
     maintain_from_source                         maintainReassemblerLoop       = Maintain per tick, return on
                                                                                  error / ctx.Done
     read_setup_from_source, read_arm_*_from_source, read_poll_from_source, read_step_from_source,
     read_from_source                             Auditd.Read                   = [step] / [poll] / [shutdown] / [read]
   An edit of the sources changes Gen/AuditProg.v and these proofs stop compiling (or the generated file
   does not type-check: UNSUPPORTED_...). *)
From Coq Require Import String List Bool Arith ZArith NArith Lia.
Import ListNotations.
From AM Require Import Model.AuditProc Proofs.AuditProcLemmas Model.AuditIR Gen.AuditProg.
From AM Require Gen.Consts.
Open Scope string_scope.
Open Scope list_scope.

Section Tie.
  Variables line msg event cerr login AS : Type.
  Variable is_empty : line -> bool.
  Variable parse : line -> option msg.
  Variable mseq : msg -> N.
  Variable mtype : msg -> nat.
  Variable coalesce : list msg -> option event.
  Variable old : event -> bool.
  Variable audit : AS -> event -> AS * option cerr.
  Variable rlogin : AS -> login -> AS * option cerr.
  Variable csess clogins : AS -> tmv -> AS.
  Variable dur : Z -> nat.

  Notation cbT := (cb msg event cerr AS).
  Notation pstT := (pst line msg event cerr AS).
  Notation resultT := (result line msg cerr).
  Notation inpT := (inp line login).
  Notation errvT := (errv line msg cerr).

  (* the model *)
  Notation deliver := (deliver msg event cerr AS coalesce old audit).
  Notation callback := (callback msg event cerr AS coalesce old audit).
  Notation parse_loop := (parse_loop line msg is_empty parse).
  Notation reass := (reass line msg event cerr AS mseq mtype coalesce old audit).
  Notation on_line := (on_line line msg event cerr AS is_empty parse mseq mtype coalesce old audit).
  Notation step := (step line msg event cerr login AS is_empty parse mseq mtype coalesce old audit rlogin).
  Notation read_from := (read_from line msg event cerr login AS is_empty parse mseq mtype coalesce old audit rlogin).
  Notation read := (read line msg event cerr login AS is_empty parse mseq mtype coalesce old audit rlogin).
  Notation shutdown := (shutdown line msg event cerr AS mseq mtype coalesce old audit).
  Notation poll := (poll line msg event cerr AS).
  Notation pinit := (pinit line msg event cerr AS).
  Notation consume := (consume line msg event cerr AS).
  Notation set_perr := (set_perr line msg event cerr AS).
  Notation take_slot := (take_slot msg event cerr AS).
  Notation p_cb := (p_cb line msg event cerr AS).
  Notation p_perr := (p_perr line msg event cerr AS).
  Notation p_ops := (p_ops line msg event cerr AS).
  Notation p_consumed := (p_consumed line msg event cerr AS).
  Notation cb_slot := (cb_slot msg event cerr AS).
  Notation ops_msgs := (ops_msgs msg).

  (* the interpreter *)
  Notation on_cb := (on_cb line msg event cerr AS).
  Notation set_as := (set_as line msg event cerr AS).
  Notation as_of := (as_of line msg event cerr AS).
  Notation complete_gen := (complete_gen line msg event cerr login AS is_empty parse coalesce old audit rlogin csess clogins dur).
  Notation lost_gen := (lost_gen line msg event cerr login AS is_empty parse coalesce old audit rlogin csess clogins dur).
  Notation reass_of := (reass_of line msg event cerr login AS is_empty parse mseq mtype coalesce old audit rlogin csess clogins dur).
  Notation run_parse_iter := (run_parse_iter line msg event cerr login AS is_empty parse coalesce old audit rlogin csess clogins dur).
  Notation parser_step := (parser_step line msg event cerr login AS is_empty parse coalesce old audit rlogin csess clogins dur).
  Notation run_maintain_iter := (run_maintain_iter line msg event cerr login AS is_empty parse coalesce old audit rlogin csess clogins dur).
  Notation read_setup := (read_setup line msg event cerr login AS is_empty parse coalesce old audit rlogin csess clogins dur).
  Notation read_arm := (read_arm line msg event cerr login AS is_empty parse coalesce old audit rlogin csess clogins dur).
  Notation read_poll := (read_poll line msg event cerr login AS is_empty parse coalesce old audit rlogin csess clogins dur).
  Notation read_step := (read_step line msg event cerr login AS is_empty parse coalesce old audit rlogin csess clogins dur).
  Notation read_loop := (read_loop line msg event cerr login AS is_empty parse coalesce old audit rlogin csess clogins dur).
  Notation parse_iter_gen := (parse_iter_gen line msg event cerr login AS is_empty parse mseq mtype coalesce old audit rlogin csess clogins dur).
  Notation parser_step_gen := (parser_step_gen line msg event cerr login AS is_empty parse mseq mtype coalesce old audit rlogin csess clogins dur).
  Notation parser_run_gen := (parser_run_gen line msg event cerr login AS is_empty parse mseq mtype coalesce old audit rlogin csess clogins dur).
  Notation maintain_iter_gen := (maintain_iter_gen line msg event cerr login AS is_empty parse mseq mtype coalesce old audit rlogin csess clogins dur).
  Notation read_setup_gen := (read_setup_gen line msg event cerr login AS is_empty parse mseq mtype coalesce old audit rlogin csess clogins dur).
  Notation read_arm_gen := (read_arm_gen line msg event cerr login AS is_empty parse mseq mtype coalesce old audit rlogin csess clogins dur).
  Notation read_poll_gen := (read_poll_gen line msg event cerr login AS is_empty parse mseq mtype coalesce old audit rlogin csess clogins dur).
  Notation read_step_gen := (read_step_gen line msg event cerr login AS is_empty parse mseq mtype coalesce old audit rlogin csess clogins dur).
  Notation run_read := (run_read line msg event cerr login AS is_empty parse mseq mtype coalesce old audit rlogin csess clogins dur).

  (* the limits Read gives the reassembler, as GENERATED (Gen/Consts.v), in the model's units *)
  Definition MX : nat := Z.to_nat Gen.Consts.maxEventsInFlight.
  Definition TMO : nat := dur Gen.Consts.eventTimeout_ns.

  (* ---- the callbacks ---------------------------------------------------------------------- *)

  Theorem complete_from_source : forall (p : pstT) (g : list msg),
    complete_gen gen_ReassemblyComplete p g = Some (on_cb (fun c => deliver c g) p).
  Proof.
    intros [r [a0 sl errs dr gr ha lo] pe co ops] g. vm_compute.
    destruct (coalesce g) as [ev|].
    - destruct (old ev); [reflexivity|].
      destruct (audit a0 ev) as [a [c|]]; destruct sl; reflexivity.
    - destruct sl; reflexivity.
  Qed.

  (* on the callback's own state *)
  Corollary deliver_from_source : forall (p : pstT) (g : list msg),
    option_map p_cb (complete_gen gen_ReassemblyComplete p g) = Some (deliver (p_cb p) g).
  Proof. intros p g. rewrite complete_from_source. destruct p. reflexivity. Qed.

  Theorem lost_from_source : forall (p : pstT) (n : N),
    lost_gen gen_EventsLost p n = Some (on_cb (note_lost msg event cerr AS n) p).
  Proof.
    intros [r [a0 sl errs dr gr ha lo] pe co ops] n. vm_compute. reflexivity.
  Qed.

  Lemma on_cb_on_cb f g (p : pstT) : on_cb f (on_cb g p) = on_cb (fun c => f (g c)) p.
  Proof. destruct p. reflexivity. Qed.

  Lemma fold_complete_from_source : forall (gs : list (list msg)) (p : pstT),
    fold_opt (complete_gen gen_ReassemblyComplete) gs p = Some (on_cb (fun c => fold_left deliver gs c) p).
  Proof.
    induction gs as [|g gs IH]; intros p.
    - destruct p as [r c pe co ops]. reflexivity.
    - cbn [fold_opt fold_left]. rewrite complete_from_source, IH, on_cb_on_cb. reflexivity.
  Qed.

  (* PushMessage / Maintain / Close: the library step followed by the GENERATED callbacks is the model's [reass] *)
  Theorem reass_from_source : forall mx tmo (p : pstT) (o : rop msg),
    reass_of gen_audit mx tmo p o = Some (reass mx tmo p o).
  Proof.
    intros mx tmo p o. unfold AuditIR.reass_of, reass_gen, AuditProc.reass.
    destruct (rstep msg mseq mtype mx tmo (AuditProc.p_r _ _ _ _ _ p) o) as [[r' ev] lost].
    cbn [pg_complete pg_lost gen_audit].
    rewrite fold_complete_from_source, lost_from_source, on_cb_on_cb.
    destruct p as [r c pe co ops]. reflexivity.
  Qed.

  (* ---- parseAuditLogs, for ANY meaning of the reassembler calls ------------------------------- *)
  Section AnyReassembler.
    Variable reassf : nat -> nat -> pstT -> rop msg -> option pstT.

    (* a line is received: consumed; skipped when empty; ParseLogLine; its error ends the loop with an error
       showing THAT line and wrapping the parser's; otherwise the message is pushed, with time.Now() = now *)
    Lemma parse_iter_line : forall mx tmo now l (p : pstT),
      run_parse_iter reassf gen_parseAuditLogs (mx, tmo) (EvLine _ _ now l) p =
      if is_empty l then Some (consume l p, None) else
      match parse l with
      | None => Some (consume l p, Some (Some (XParseError _ _ _ l (XParse _ _ _))))
      | Some m => match reassf mx tmo (consume l p) (RPush now m) with
                  | Some p' => Some (p', None)
                  | None => None
                  end
      end.
    Proof.
      intros mx tmo now l [r c pe co ops]. vm_compute.
      destruct (is_empty l); [reflexivity|].
      destruct (parse l); [|reflexivity].
      destruct (reassf _ _ _ _); reflexivity.
    Qed.

    (* cancellation, noticed by the ctx.Err() check at the top of the loop or by the select: ctx.Err() is returned,
       nothing is consumed *)
    Lemma parse_iter_cancel : forall lim b (p : pstT),
      run_parse_iter reassf gen_parseAuditLogs lim (EvCancel _ _ b) p = Some (p, Some (Some (XCtx _ _ _))).
    Proof. intros [mx tmo] b [r c pe co ops]. destruct b; vm_compute; reflexivity. Qed.

    (* the context is already done and a line is waiting: the ctx.Err() check at the top of the loop returns before
       the select can take the line; nothing is consumed after cancellation (D7) *)
    Lemma parse_iter_line_cancelled : forall lim now l (p : pstT),
      run_parse_iter reassf gen_parseAuditLogs lim (EvLineCancelled _ _ now l) p = Some (p, Some (Some (XCtx _ _ _))).
    Proof. intros [mx tmo] now l [r c pe co ops]. vm_compute. reflexivity. Qed.

    (* maintainReassemblerLoop: a tick calls Maintain (time.Now() = now) and goes on; once the reassembler is
       closed Maintain fails and the loop returns; ctx.Done returns *)
    Lemma maintain_iter_tick : forall d mx tmo now (p : pstT),
      run_maintain_iter reassf gen_maintainReassemblerLoop d (mx, tmo) false (EvTick _ _ now) p =
      match reassf mx tmo p (RMaintain now) with Some p' => Some (p', None) | None => None end.
    Proof.
      intros d mx tmo now [r c pe co ops]. vm_compute. destruct (reassf _ _ _ _); reflexivity.
    Qed.

    Lemma maintain_iter_closed : forall d lim now (p : pstT),
      run_maintain_iter reassf gen_maintainReassemblerLoop d lim true (EvTick _ _ now) p = Some (p, Some None).
    Proof. intros d [mx tmo] now [r c pe co ops]. vm_compute. reflexivity. Qed.

    Lemma maintain_iter_cancel : forall d lim closed b (p : pstT),
      run_maintain_iter reassf gen_maintainReassemblerLoop d lim closed (EvCancel _ _ b) p = Some (p, Some None).
    Proof. intros d [mx tmo] closed b [r c pe co ops]. destruct closed, b; vm_compute; reflexivity. Qed.

    (* ---- Read ----------------------------------------------------------------------------- *)

    (* the set-up part: it does not touch the processor state; the reassembler gets the generated limits; what
       is deferred, in the order it will run: ticker.Stop, then cancel + wait for the channel the parser
       goroutine closes, then reassembler.Close; the two goroutines; readiness is reported once *)
    Lemma read_setup_any : forall (p : pstT) ev, exists st body n,
      read_setup reassf gen_Read p ev = Some (st, body) /\
      i_p _ _ _ _ _ _ st = p /\
      i_lim _ _ _ _ _ _ st = Some (MX, TMO) /\
      i_defers _ _ _ _ _ _ st = [DStop; DJoin n; DClose] /\
      In (GParser n) (i_gos _ _ _ _ _ _ st) /\ length (i_gos _ _ _ _ _ _ st) = 2 /\
      has_parser _ _ _ _ _ _ st = true /\
      maintain_period _ _ _ _ _ _ st = Some Gen.Consts.reassemblerInterval_ns /\
      i_ready _ _ _ _ _ _ st = ["auditd-processor"] /\
      In (VTicker _ _ _ _ _ Gen.Consts.staleDataCleanupInterval_ns) (map snd (i_env _ _ _ _ _ _ st)).
    Proof.
      intros p ev. eexists. eexists. eexists. split; [vm_compute; reflexivity|].
      vm_compute. repeat split; tauto.
    Qed.

    Definition after_return (p : pstT) (r : resultT) : option (pstT * resultT * option pstT) :=
      match reassf MX TMO p RClose with
      | Some fin => Some (p, r, Some fin)
      | None => None
      end.

    (* ctx.Done: ctx.Err() is returned; the deferred calls run: the parser goroutine is stopped and waited for,
       then the reassembler is closed *)
    Lemma read_arm_cancel : forall b (p : pstT),
      read_arm reassf gen_Read (EvCancel _ _ b) p = after_return p (RCancel _ _ _).
    Proof.
      intros b [r c pe co ops]. unfold after_return. destruct b; vm_compute; destruct (reassf _ _ _ _); reflexivity.
    Qed.

    (* the clean-up tick: both cleanups, sessions first, with the same cut-off  now - staleDataCleanupInterval;
       the loop goes on *)
    Lemma read_arm_tick : forall now (p : pstT),
      read_arm reassf gen_Read (EvTick _ _ now) p =
      let cut := TmNowAdd now (- Gen.Consts.staleDataCleanupInterval_ns) in
      Some (set_as (clogins (csess (as_of p) cut) cut) p, RNone _ _ _, None).
    Proof. intros now [r [a0 sl errs dr gr ha lo] pe co ops]. vm_compute. reflexivity. Qed.

    (* a login: RemoteLogin on the tracker the callback uses; its error is returned wrapped *)
    Lemma read_arm_login : forall lg (p : pstT),
      read_arm reassf gen_Read (EvLogin _ _ lg) p =
      let '(a, res) := rlogin (as_of p) lg in
      match res with
      | None => Some (set_as a p, RNone _ _ _, None)
      | Some x => after_return (set_as a p) (RLogin _ _ _ x)
      end.
    Proof.
      intros lg [r [a0 sl errs dr gr ha lo] pe co ops]. unfold after_return. vm_compute.
      destruct (rlogin a0 lg) as [a [x|]]; [|reflexivity].
      destruct (reassf _ _ _ _); reflexivity.
    Qed.

    (* the parser goroutine's result: returned wrapped; it is the error showing the rejected line *)
    Lemma read_arm_parser_done : forall l (p : pstT), p_perr p = Some l ->
      read_arm reassf gen_Read (EvParserDone _ _) p = after_return p (RParse _ _ _ l).
    Proof.
      intros l [r c pe co ops] H. cbn in H. subst pe. unfold after_return. vm_compute.
      destruct (reassf _ _ _ _); reflexivity.
    Qed.

    (* the callback's pending error: taken out of the channel and returned wrapped *)
    Lemma read_arm_errors : forall e (p : pstT), cb_slot (p_cb p) = Some e ->
      read_arm reassf gen_Read (EvErrors _ _) p = after_return (on_cb take_slot p) (RSlot _ _ _ e).
    Proof.
      intros e [r [a0 sl errs dr gr ha lo] pe co ops] H. cbn in H. subst sl. unfold after_return. vm_compute.
      destruct (reassf _ _ _ _); reflexivity.
    Qed.

    (* an arm whose channel is empty cannot run *)
    Lemma read_arm_parser_done_empty : forall (p : pstT), p_perr p = None ->
      read_arm reassf gen_Read (EvParserDone _ _) p = None.
    Proof. intros [r c pe co ops] H. cbn in H. subst pe. vm_compute. reflexivity. Qed.

    Lemma read_arm_errors_empty : forall (p : pstT), cb_slot (p_cb p) = None ->
      read_arm reassf gen_Read (EvErrors _ _) p = None.
    Proof. intros [r [a0 sl errs dr gr ha lo] pe co ops] H. cbn in H. subst sl. vm_compute. reflexivity. Qed.

    Lemma read_poll_any : forall (p : pstT),
      read_poll reassf gen_Read p =
      match poll p with
      | (p', RNone _ _ _) => Some (p', RNone _ _ _, None)
      | (p', r) => after_return p' r
      end.
    Proof.
      intros p. unfold AuditIR.read_poll, AuditProc.poll.
      destruct (p_perr p) as [l|] eqn:E.
      - rewrite (read_arm_parser_done l p E). reflexivity.
      - destruct (cb_slot (p_cb p)) as [e|] eqn:E2.
        + rewrite (read_arm_errors e p E2). destruct p as [r c pe co ops]. reflexivity.
        + reflexivity.
    Qed.
  End AnyReassembler.

  (* ---- with the reassembler calls meaning what the generated callbacks make of them ------------ *)

  (* one received line: the model's [on_line] *)
  Lemma on_line_from_source' : forall mx tmo now l (p : pstT),
    parser_step (reass_of gen_audit) gen_parseAuditLogs (mx, tmo) now l p = Some (on_line mx tmo now l p).
  Proof.
    intros mx tmo now l p. unfold AuditIR.parser_step, AuditProc.on_line.
    rewrite parse_iter_line.
    destruct (is_empty l); [reflexivity|].
    destruct (parse l) as [m|]; [|reflexivity].
    rewrite reass_from_source. reflexivity.
  Qed.

  Theorem on_line_from_source : forall mx tmo now l (p : pstT),
    parser_step_gen gen_audit (mx, tmo) now l p = Some (on_line mx tmo now l p).
  Proof. exact on_line_from_source'. Qed.

  Theorem parse_cancel_from_source : forall lim b (p : pstT),
    parse_iter_gen gen_audit lim (EvCancel _ _ b) p = Some (p, Some (Some (XCtx _ _ _))).
  Proof. intros. apply parse_iter_cancel. Qed.

  Theorem parse_line_after_cancel_from_source : forall lim now l (p : pstT),
    parse_iter_gen gen_audit lim (EvLineCancelled _ _ now l) p = Some (p, Some (Some (XCtx _ _ _))).
  Proof. intros. apply parse_iter_line_cancelled. Qed.

  (* the goroutine on a finite stream = the model's steps, as long as it has not returned *)
  Fixpoint on_lines mx tmo (ls : list (nat * line)) (p : pstT) : pstT :=
    match ls with
    | [] => p
    | (now, l) :: r => match p_perr p with
                       | Some _ => p
                       | None => on_lines mx tmo r (on_line mx tmo now l p)
                       end
    end.

  Lemma parser_run_from_source : forall mx tmo ls (p : pstT),
    parser_run_gen gen_audit (mx, tmo) ls p = Some (on_lines mx tmo ls p).
  Proof.
    intros mx tmo ls. induction ls as [|[now l] r IH]; intros p; [reflexivity|].
    unfold AuditIR.parser_run_gen in *. cbn [pg_parse gen_audit] in *. cbn [parser_run on_lines].
    destruct (p_perr p); [reflexivity|].
    rewrite on_line_from_source'. apply IH.
  Qed.

  Lemma parse_loop_stopped : forall a b l, snd (parse_loop a) = Some l -> parse_loop (a ++ b) = parse_loop a.
  Proof.
    induction a as [|x a IH]; intros b l H; cbn in *; [discriminate|].
    destruct (is_empty x); [apply (IH b l H)|].
    destruct (parse x); [|reflexivity].
    cbn in H. rewrite (IH b l H). reflexivity.
  Qed.

  Lemma on_lines_parse_ok : forall mx tmo ls (p : pstT),
    parse_loop (p_consumed p) = (ops_msgs (p_ops p), p_perr p) ->
    let p' := on_lines mx tmo ls p in
    parse_loop (p_consumed p ++ map snd ls) = (ops_msgs (p_ops p'), p_perr p').
  Proof.
    intros mx tmo ls. induction ls as [|[now l] r IH]; intros p H; cbn [on_lines map snd].
    - rewrite app_nil_r. exact H.
    - destruct (p_perr p) as [b|] eqn:E.
      + rewrite (parse_loop_stopped _ _ b); [rewrite ?E; exact H|]. rewrite H. reflexivity.
      + replace (p_consumed p ++ l :: map snd r) with ((p_consumed p ++ [l]) ++ map snd r)
          by (rewrite <- app_assoc; reflexivity).
        assert (H' : parse_loop (p_consumed (on_line mx tmo now l p)) =
                     (ops_msgs (p_ops (on_line mx tmo now l p)), p_perr (on_line mx tmo now l p))).
        { unfold AuditProc.on_line.
          assert (Hs : snd (parse_loop (p_consumed p)) = None) by (rewrite H; reflexivity).
          pose proof (parse_loop_snoc line msg is_empty parse (p_consumed p) l Hs) as Sn.
          rewrite H in Sn. cbn [fst] in Sn.
          destruct (is_empty l).
          - cbn. rewrite Sn, E. reflexivity.
          - destruct (parse l) as [m|].
            + destruct (reass_fields line msg event cerr AS mseq mtype coalesce old audit mx tmo
                          (consume l p) (RPush now m)) as (F1 & F2 & F3 & _).
              rewrite F1, F2, F3. cbn. rewrite Sn, E.
              unfold AuditProc.ops_msgs. rewrite flat_map_app. cbn. reflexivity.
            + cbn. rewrite Sn. reflexivity. }
        specialize (IH _ H').
        replace (p_consumed (on_line mx tmo now l p)) with (p_consumed p ++ [l]) in IH; [exact IH|].
        unfold AuditProc.on_line. destruct (is_empty l); [reflexivity|].
        destruct (parse l) as [m|]; [|reflexivity].
        destruct (reass_fields line msg event cerr AS mseq mtype coalesce old audit mx tmo
                    (consume l p) (RPush now m)) as (_ & F2 & _).
        rewrite F2. reflexivity.
  Qed.

  (* parseAuditLogs fed a finite stream of lines (with the clock reading at each): what it pushed and the line it
     stopped at are the model's [parse_loop] of the stream *)
  Theorem parse_loop_from_source : forall mx tmo a (ls : list (nat * line)),
    exists p', parser_run_gen gen_audit (mx, tmo) ls (pinit a) = Some p' /\
               parse_loop (map snd ls) = (ops_msgs (p_ops p'), p_perr p').
  Proof.
    intros mx tmo a ls. exists (on_lines mx tmo ls (pinit a)). split; [apply parser_run_from_source|].
    apply (on_lines_parse_ok mx tmo ls (pinit a)). reflexivity.
  Qed.

  (* maintainReassemblerLoop *)
  Theorem maintain_from_source : forall d mx tmo now (p : pstT),
    maintain_iter_gen gen_audit d (mx, tmo) false (EvTick _ _ now) p = Some (reass mx tmo p (RMaintain now), None) /\
    maintain_iter_gen gen_audit d (mx, tmo) true (EvTick _ _ now) p = Some (p, Some None) /\
    (forall closed b, maintain_iter_gen gen_audit d (mx, tmo) closed (EvCancel _ _ b) p = Some (p, Some None)).
  Proof.
    intros d mx tmo now p. unfold AuditIR.maintain_iter_gen. cbn [pg_maintain gen_audit]. split; [|split].
    - rewrite maintain_iter_tick, reass_from_source. reflexivity.
    - apply maintain_iter_closed.
    - intros closed b. apply maintain_iter_cancel.
  Qed.

  (* ---- Read ------------------------------------------------------------------------------- *)

  Theorem read_setup_from_source : forall (p : pstT) ev, exists st body n,
    read_setup_gen gen_audit p ev = Some (st, body) /\
    i_p _ _ _ _ _ _ st = p /\
    i_lim _ _ _ _ _ _ st = Some (MX, TMO) /\
    i_defers _ _ _ _ _ _ st = [DStop; DJoin n; DClose] /\
    In (GParser n) (i_gos _ _ _ _ _ _ st) /\ length (i_gos _ _ _ _ _ _ st) = 2 /\
    has_parser _ _ _ _ _ _ st = true /\
    maintain_period _ _ _ _ _ _ st = Some Gen.Consts.reassemblerInterval_ns /\
    i_ready _ _ _ _ _ _ st = ["auditd-processor"] /\
    In (VTicker _ _ _ _ _ Gen.Consts.staleDataCleanupInterval_ns) (map snd (i_env _ _ _ _ _ _ st)).
  Proof. intros p ev. apply read_setup_any. Qed.

  (* every error channel Read makes has capacity 1 (the callback's slot and the parser's result) *)
  Theorem read_error_channels_capacity :
    Forall (fun s => match s with SMakeErrChan _ cap => cap = 1 | _ => True end) (af_body gen_Read).
  Proof. repeat constructor. Qed.

  (* what the model does when Read returns r from state p *)
  Definition returned (p : pstT) (r : resultT) : option (pstT * resultT * option pstT) :=
    Some (p, r, Some (shutdown MX TMO p)).

  Lemma after_return_gen : forall p r, after_return (reass_of gen_audit) p r = returned p r.
  Proof. intros p r. unfold after_return, returned. rewrite reass_from_source. reflexivity. Qed.

  Theorem read_arm_cancel_from_source : forall b (p : pstT),
    read_arm_gen gen_audit (EvCancel _ _ b) p = returned p (RCancel _ _ _).
  Proof. intros. unfold AuditIR.read_arm_gen. cbn [pg_read gen_audit]. rewrite read_arm_cancel. apply after_return_gen. Qed.

  Theorem read_arm_cleanup_from_source : forall now (p : pstT),
    read_arm_gen gen_audit (EvTick _ _ now) p =
    let cut := TmNowAdd now (- Gen.Consts.staleDataCleanupInterval_ns) in
    Some (set_as (clogins (csess (as_of p) cut) cut) p, RNone _ _ _, None).
  Proof. intros. apply read_arm_tick. Qed.

  Lemma read_arm_login_from_source' : forall lg (p : pstT),
    read_arm (reass_of gen_audit) gen_Read (EvLogin _ _ lg) p =
    let '(p', r) := step MX TMO p (ILogin _ _ lg) in
    match r with RNone _ _ _ => Some (p', r, None) | _ => returned p' r end.
  Proof.
    intros lg p. rewrite read_arm_login.
    destruct p as [r [a0 sl errs dr gr ha lo] pe co ops]. cbn.
    destruct (rlogin a0 lg) as [a [x|]]; [|reflexivity].
    rewrite after_return_gen. reflexivity.
  Qed.

  Theorem read_arm_login_from_source : forall lg (p : pstT),
    read_arm_gen gen_audit (EvLogin _ _ lg) p =
    let '(p', r) := step MX TMO p (ILogin _ _ lg) in
    match r with RNone _ _ _ => Some (p', r, None) | _ => returned p' r end.
  Proof. exact read_arm_login_from_source'. Qed.

  Notation outcome_of := (AuditIR.outcome_of line msg event cerr AS mseq mtype coalesce old audit MX TMO).

  (* the select after a step of the parser or maintain goroutine = the model's [poll] *)
  Lemma read_poll_from_source' : forall (p : pstT),
    read_poll (reass_of gen_audit) gen_Read p = Some (outcome_of (poll p)).
  Proof.
    intros p. rewrite read_poll_any.
    unfold AuditProc.poll, AuditIR.outcome_of.
    destruct (p_perr p); [apply after_return_gen|].
    destruct (cb_slot (p_cb p)); [apply after_return_gen|reflexivity].
  Qed.

  Theorem read_poll_from_source : forall (p : pstT),
    read_poll_gen gen_audit p = Some (outcome_of (poll p)).
  Proof. exact read_poll_from_source'. Qed.

  (* every input of the model *)
  Theorem read_step_from_source : forall (p : pstT) (i : inpT),
    read_step_gen gen_audit p i = Some (outcome_of (step MX TMO p i)).
  Proof.
    intros p i. unfold AuditIR.read_step_gen, AuditIR.read_step. cbn [pg_read pg_parse pg_maintain gen_audit].
    destruct i as [now l|now|lg|].
    - destruct (read_setup_any (reass_of gen_audit) p (EvNone _ _)) as (st & body & n & E & _ & Hl & _ & _ & _ & Hp & _).
      rewrite E, Hp, Hl.
      rewrite on_line_from_source'.
      apply read_poll_from_source'.
    - destruct (read_setup_any (reass_of gen_audit) p (EvNone _ _)) as (st & body & n & E & _ & Hl & _ & _ & _ & _ & Hm & _).
      rewrite E, Hm, Hl.
      rewrite maintain_iter_tick, reass_from_source.
      apply read_poll_from_source'.
    - rewrite read_arm_login_from_source'.
      destruct (step MX TMO p (ILogin _ _ lg)) as [p' r]. destruct r; reflexivity.
    - rewrite read_arm_cancel, after_return_gen. reflexivity.
  Qed.

  (* Read from its first statement, over any input history: the model's [read_from] (state and result when it
     returns, and the state once the deferred Close has flushed) *)
  Theorem read_from_source_from : forall (ins : list inpT) (p : pstT),
    read_loop (reass_of gen_audit) gen_Read gen_parseAuditLogs gen_maintainReassemblerLoop p ins =
    Some (outcome_of (read_from MX TMO p ins)).
  Proof.
    induction ins as [|i r IH]; intros p; [reflexivity|].
    cbn [AuditIR.read_loop AuditProc.read_from].
    pose proof (read_step_from_source p i) as S.
    unfold AuditIR.read_step_gen in S. cbn [pg_read pg_parse pg_maintain gen_audit] in S. rewrite S.
    destruct (step MX TMO p i) as [p' res]. destruct res; try reflexivity. apply IH.
  Qed.

  Theorem read_from_source : forall (a : AS) (ins : list inpT),
    let o := read MX TMO a ins in
    run_read gen_audit a ins =
    Some (o_ret _ _ _ _ _ o, o_res _ _ _ _ _ o,
          match o_res _ _ _ _ _ o with RNone _ _ _ => None | _ => Some (o_fin _ _ _ _ _ o) end).
  Proof.
    intros a ins. unfold AuditIR.run_read. cbn [pg_read pg_parse pg_maintain gen_audit].
    rewrite read_from_source_from. unfold AuditProc.read.
    destruct (read_from MX TMO (pinit a) ins) as [s res]. reflexivity.
  Qed.

  (* ---- two facts other properties lean on ----------------------------------------------------- *)

  (* C07: every non-empty line received is handed to auparse.ParseLogLine as it is (the oracle is asked about
     l itself: no trimming, no length filter, whatever l is), and the outcome is the parser's verdict on it *)
  Theorem parse_gets_line_unchanged : forall mx tmo now l (p : pstT), is_empty l = false ->
    parser_step_gen gen_audit (mx, tmo) now l p =
    Some (match parse l with
          | Some m => reass mx tmo (consume l p) (RPush now m)
          | None => set_perr l (consume l p)
          end).
  Proof.
    intros mx tmo now l p H. rewrite on_line_from_source. unfold AuditProc.on_line. rewrite H. reflexivity.
  Qed.

  (* C14: the group ReassemblyComplete receives is what CoalesceMessages is asked about (the oracle is asked
     about g itself: same records, same order), and the event it returns is the one handed to the correlator *)
  Theorem coalesce_gets_group_unchanged : forall (p : pstT) (g : list msg),
    complete_gen gen_ReassemblyComplete p g =
    Some (on_cb (fun c0 =>
            let c := note_group msg event cerr AS g c0 in
            match coalesce g with
            | None => send msg event cerr AS (ECoalesce msg cerr g) c
            | Some ev =>
                if old ev then c else
                let '(a, r) := audit (cb_as msg event cerr AS c0) ev in
                let c' := note_handed msg event cerr AS a ev c in
                match r with None => c' | Some x => send msg event cerr AS (EAudit msg cerr g x) c' end
            end) p).
  Proof. exact complete_from_source. Qed.
End Tie.

Print Assumptions complete_from_source.
Print Assumptions deliver_from_source.
Print Assumptions lost_from_source.
Print Assumptions reass_from_source.
Print Assumptions on_line_from_source.
Print Assumptions parse_cancel_from_source.
Print Assumptions parse_line_after_cancel_from_source.
Print Assumptions parse_loop_from_source.
Print Assumptions maintain_from_source.
Print Assumptions read_setup_from_source.
Print Assumptions read_error_channels_capacity.
Print Assumptions read_arm_cancel_from_source.
Print Assumptions read_arm_cleanup_from_source.
Print Assumptions read_arm_login_from_source.
Print Assumptions read_poll_from_source.
Print Assumptions read_step_from_source.
Print Assumptions read_from_source.
Print Assumptions parse_gets_line_unchanged.
Print Assumptions coalesce_gets_group_unchanged.
