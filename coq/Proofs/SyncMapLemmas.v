(* Facts about the GENERATED lock table of internal/common/genericsyncmap.go (Gen/SyncMapLocks.v). *)
From Coq Require Import String List Bool.
Import ListNotations.
From AM Require Import Gen.SyncMapLocks.
Open Scope string_scope.

Lemma syncmap_calls_atomic_ok : syncmap_calls_atomic = true.
Proof. vm_compute. reflexivity. Qed.

(* every method of the map is one critical section on the map's single mutex, except those named ...Unsafe *)
Lemma syncmap_methods_atomic : syncmap_single_mutex = true /\
  forall m b, In (m, b) syncmap_api -> b = true \/ ends_with_unsafe m = true.
Proof.
  pose proof syncmap_calls_atomic_ok as H. unfold syncmap_calls_atomic in H.
  apply andb_prop in H. destruct H as [H _]. apply andb_prop in H. destruct H as [Hapi Hmu].
  split; [exact Hmu|]. intros m b Hin.
  rewrite forallb_forall in Hapi. specialize (Hapi (m, b) Hin). simpl in Hapi.
  apply orb_prop in Hapi. exact Hapi.
Qed.

(* ... and every call of such a method in the module happens with that map's lock held *)
Lemma syncmap_unsafe_calls_hold_lock : forall site m b, In (site, m, b) syncmap_unsafe_calls -> b = true.
Proof.
  pose proof syncmap_calls_atomic_ok as H. unfold syncmap_calls_atomic in H.
  apply andb_prop in H. destruct H as [_ H]. rewrite forallb_forall in H.
  intros site m b Hin. exact (H (site, m, b) Hin).
Qed.
