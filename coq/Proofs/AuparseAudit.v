(* The auparse model as the parser oracle of the audit processor translated from the source
   (Model/AuditIR.v, Gen/AuditProg.v): what parseAuditLogs does with blank lines. *)
From Coq Require Import Ascii String List Bool Arith NArith ZArith.
Import ListNotations.
From AM Require Import Lib.Bytes Model.Auparse Proofs.AuparseLemmas.
From AM Require Model.AuditProc Model.AuditIR Gen.AuditProg Proofs.AuditIRTie.

Section Blank.
  Variables event cerr login AS : Type.
  Variable type_of : str -> option N.
  Variable mtype : amsg -> nat.
  Variable coalesce : list amsg -> option event.
  Variable old : event -> bool.
  Variable audit : AS -> event -> AS * option cerr.
  Variable rlogin : AS -> login -> AS * option cerr.
  Variables csess clogins : AS -> AuditIR.tmv -> AS.
  Variable dur : BinNums.Z -> nat.

  (* the generated parseAuditLogs, given a non-empty line of ASCII white space only (the blank line "\n"
     of an audit log): the line is not skipped - the emptiness test is  line == ""  -, the parser rejects it,
     the loop ends with the parse error that shows that line *)
  Theorem white_line_stops_from_source mx tmo now (ws : str) (p : AuditProc.pst str amsg event cerr AS) :
    ws <> [] -> all_space ws = true ->
    AuditIR.parser_step_gen str amsg event cerr login AS audit_is_empty (parse_opt type_of) a_seq mtype coalesce old
                            audit rlogin csess clogins dur AuditProg.gen_audit (mx, tmo) now ws p =
    Some (AuditProc.set_perr str amsg event cerr AS ws (AuditProc.consume str amsg event cerr AS ws p)).
  Proof.
    intros Hne Hws.
    rewrite (AuditIRTie.parse_gets_line_unchanged str amsg event cerr login AS audit_is_empty (parse_opt type_of) a_seq mtype
               coalesce old audit rlogin csess clogins dur mx tmo now ws p (proj2 (audit_is_empty_false ws) Hne)).
    unfold parse_opt. rewrite (white_line_rejected type_of ws Hws). reflexivity.
  Qed.
  (* ... while the empty string is consumed and skipped: nothing is asked of the parser, nothing is pushed *)
  Theorem empty_line_skipped_from_source mx tmo now (p : AuditProc.pst str amsg event cerr AS) :
    AuditIR.parser_step_gen str amsg event cerr login AS audit_is_empty (parse_opt type_of) a_seq mtype coalesce old
                            audit rlogin csess clogins dur AuditProg.gen_audit (mx, tmo) now [] p =
    Some (AuditProc.consume str amsg event cerr AS [] p).
  Proof.
    rewrite (AuditIRTie.on_line_from_source str amsg event cerr login AS audit_is_empty (parse_opt type_of) a_seq mtype
               coalesce old audit rlogin csess clogins dur mx tmo now [] p).
    reflexivity.
  Qed.
End Blank.
