(* Lemma toolbox for the flat-pattern matcher of Lib/Regex.v. *)
From Coq Require Import Ascii String List Bool Arith NArith Lia.
Import ListNotations.
From AM Require Import Lib.Bytes Lib.Utf8 Lib.Regex.

(* a continuation that cannot match a given text, wherever and with whatever captures *)
Definition fails (its : list item) (s : str) : Prop :=
  forall p ops cs, m its p s ops cs = None.

(* ---------- one-step unfoldings (used instead of cbn, which unfolds too far) ---------- *)

Lemma m_open g r pos s ops cs : m (IOpen g :: r) pos s ops cs = m r pos s ((g, s) :: ops) cs.
Proof. reflexivity. Qed.

Lemma m_close g r pos s ops cs :
  m (IClose g :: r) pos s ops cs =
  match lookup_g g ops with
  | Some so => m r pos s ops ((g, firstn (length so - length s) so) :: cs)
  | None => None
  end.
Proof. reflexivity. Qed.

Lemma m_one k r pos c s ops cs :
  m (IOne k :: r) pos (c :: s) ops cs = if in_cls k c then m r (S pos) s ops cs else None.
Proof. reflexivity. Qed.

Lemma m_star k r pos s ops cs :
  m (IStar k :: r) pos s ops cs = try_desc (fun j => m r (pos + j) (skipn j s) ops cs) (run_len k s).
Proof. reflexivity. Qed.

Lemma m_eol_nil r pos ops cs : m (IEol :: r) pos [] ops cs = m r pos [] ops cs.
Proof. reflexivity. Qed.

Lemma m_nil pos s ops cs : m [] pos s ops cs = Some (pos, cs).
Proof. reflexivity. Qed.

(* one rune: one UTF-8 decoding step *)
Lemma m_rune k r pos x s ops cs :
  m (IRune k :: r) pos (x :: s) ops cs =
  if in_cls k x then m r (pos + snd (decode_rune (x :: s))) (skipn (snd (decode_rune (x :: s))) (x :: s)) ops cs else None.
Proof. reflexivity. Qed.

Lemma decode_rune_ascii x s : (N_of_ascii x <? 128)%N = true -> decode_rune (x :: s) = (N_of_ascii x, 1).
Proof. intros H. unfold decode_rune, nb. rewrite H. reflexivity. Qed.

(* a decoding step of a non-empty text consumes 1..4 bytes, never more than there are *)
Lemma decode_rune_width x s :
  1 <= snd (decode_rune (x :: s)) /\ snd (decode_rune (x :: s)) <= 4 /\ snd (decode_rune (x :: s)) <= length (x :: s).
Proof.
  unfold decode_rune.
  repeat (match goal with
          | |- context [match ?l with [] => _ | _ :: _ => _ end] => destruct l
          | |- context [if ?b then _ else _] => destruct b
          | |- context [match ?o with Some _ => _ | None => _ end] => destruct o as [[[? ?] ?]|]
          end); cbn [snd length]; lia.
Qed.

(* on an ASCII byte it behaves as IOne *)
Lemma m_rune_ascii k r pos x s ops cs :
  (N_of_ascii x <? 128)%N = true ->
  m (IRune k :: r) pos (x :: s) ops cs = m (IOne k :: r) pos (x :: s) ops cs.
Proof.
  intros H. rewrite m_rune, m_one, (decode_rune_ascii x s H). cbn [snd skipn]. rewrite Nat.add_1_r. reflexivity.
Qed.

(* ---------- literals ---------- *)

Lemma m_lits l r pos s ops cs :
  m (map ILit l ++ r) pos (l ++ s) ops cs = m r (pos + length l) s ops cs.
Proof.
  revert pos. induction l as [|c l IH]; intros pos; cbn [map app length m].
  - rewrite Nat.add_0_r. reflexivity.
  - rewrite Ascii.eqb_refl, IH. f_equal. lia.
Qed.

Lemma m_lits_mismatch l r pos s ops cs :
  strip_prefix l s = None -> m (map ILit l ++ r) pos s ops cs = None.
Proof.
  revert pos s. induction l as [|c l IH]; intros pos s H; cbn in *; [discriminate|].
  destruct s as [|x s']; [reflexivity|].
  destruct (Ascii.eqb_spec c x) as [->|Hne].
  - rewrite Ascii.eqb_refl. apply IH. exact H.
  - destruct (Ascii.eqb_spec x c); [congruence|reflexivity].
Qed.

Lemma m_lits_inv l r pos s ops cs res :
  m (map ILit l ++ r) pos s ops cs = Some res ->
  exists s', s = l ++ s' /\ m r (pos + length l) s' ops cs = Some res.
Proof.
  intros H. destruct (strip_prefix l s) as [s'|] eqn:E.
  - apply strip_prefix_some in E. subst s. exists s'. split; [reflexivity|]. rewrite m_lits in H. exact H.
  - rewrite (m_lits_mismatch _ _ _ _ _ _ E) in H. discriminate.
Qed.

(* ---------- ^ and find ---------- *)

Lemma m_bol_pos r p s ops cs : m (IBol :: r) (S p) s ops cs = None.
Proof. reflexivity. Qed.

Lemma find_from_bol_later r p s : find_from (IBol :: r) (S p) s = None.
Proof.
  revert p. induction s as [|c s IH]; intros p; cbn [find_from]; rewrite m_bol_pos; [reflexivity|apply IH].
Qed.

Lemma find_bol r line :
  find (IBol :: r) line =
  match m r 0 line [] [] with
  | Some (e, cs) => Some {| m_start := 0; m_end := e; m_caps := cs |}
  | None => None
  end.
Proof.
  unfold find. destruct line as [|c s]; cbn [find_from m Nat.eqb].
  - destruct (m r 0 [] [] []) as [[e cs]|]; reflexivity.
  - destruct (m r 0 (c :: s) [] []) as [[e cs]|]; [reflexivity|]. apply find_from_bol_later.
Qed.

Lemma no_match_bol_lits l r line :
  strip_prefix l line = None -> matches (IBol :: (map ILit l ++ r)) line = false.
Proof.
  intros H. unfold matches. rewrite find_bol, (m_lits_mismatch _ _ _ _ _ _ H). reflexivity.
Qed.

Lemma find_at_zero its line e cs :
  m its 0 line [] [] = Some (e, cs) -> find its line = Some {| m_start := 0; m_end := e; m_caps := cs |}.
Proof. intros H. unfold find. destruct line; cbn [find_from]; rewrite H; reflexivity. Qed.

(* ---------- greedy star ---------- *)

Lemma try_desc_pick {A} (f : nat -> option A) n v x :
  v <= n -> f v = Some x -> (forall j, v < j -> j <= n -> f j = None) -> try_desc f n = Some x.
Proof.
  induction n as [|n IH]; intros Hle Hv Hno.
  - assert (v = 0) by lia. subst v. cbn. rewrite Hv. reflexivity.
  - cbn [try_desc]. destruct (Nat.eq_dec v (S n)) as [->|Hne].
    + rewrite Hv. reflexivity.
    + rewrite (Hno (S n)) by lia. apply IH; [lia|exact Hv|]. intros j H1 H2. apply Hno; lia.
Qed.

Lemma try_desc_some {A} (f : nat -> option A) n x :
  try_desc f n = Some x -> exists j, j <= n /\ f j = Some x.
Proof.
  induction n as [|n IH]; cbn [try_desc].
  - destruct (f 0) eqn:E; [|discriminate]. intros [= <-]. exists 0. split; [lia|exact E].
  - destruct (f (S n)) eqn:E.
    + intros [= <-]. exists (S n). split; [lia|exact E].
    + intros H. destruct (IH H) as (j & Hj & Hf). exists j. split; [lia|exact Hf].
Qed.

Lemma try_desc_none {A} (f : nat -> option A) n :
  (forall j, j <= n -> f j = None) -> try_desc f n = None.
Proof.
  induction n as [|n IH]; intros H; cbn [try_desc].
  - rewrite (H 0) by lia. reflexivity.
  - rewrite (H (S n)) by lia. apply IH. intros j Hj. apply H. lia.
Qed.

Lemma run_len_app k v t : forallb (in_cls k) v = true -> run_len k (v ++ t) = length v + run_len k t.
Proof.
  induction v as [|c v IH]; cbn; [reflexivity|]. intros H. apply andb_true_iff in H. destruct H as [H1 H2].
  rewrite H1, IH by exact H2. reflexivity.
Qed.

Lemma run_len_le k s : run_len k s <= length s.
Proof. induction s as [|c s IH]; cbn; [lia|]. destruct (in_cls k c); lia. Qed.

Lemma skipn_app_len {A} (v t : list A) i : skipn (length v + i) (v ++ t) = skipn i t.
Proof. induction v as [|c v IH]; cbn; [reflexivity|exact IH]. Qed.

Lemma star_field k r pos v t ops cs res :
  forallb (in_cls k) v = true ->
  m r (pos + length v) t ops cs = Some res ->
  (forall j, 0 < j -> j <= run_len k t -> fails r (skipn j t)) ->
  m (IStar k :: r) pos (v ++ t) ops cs = Some res.
Proof.
  intros Hv Hm Hno. rewrite m_star, (run_len_app k v t Hv).
  apply (try_desc_pick _ _ (length v)); [lia| |].
  - replace (length v) with (length v + 0) at 2 by lia. rewrite skipn_app_len. cbn [skipn]. exact Hm.
  - intros j H1 H2. replace j with (length v + (j - length v)) by lia. rewrite skipn_app_len.
    apply Hno; lia.
Qed.

Lemma firstn_len_diff {A} (v t : list A) : firstn (length (v ++ t) - length t) (v ++ t) = v.
Proof.
  rewrite app_length. replace (length v + length t - length t) with (length v) by lia.
  rewrite firstn_app, firstn_all, Nat.sub_diag. cbn. apply app_nil_r.
Qed.

(* a named group around a greedy star, followed by r *)
Lemma group_star g k r pos v t ops cs res :
  forallb (in_cls k) v = true ->
  m r (pos + length v) t ((g, v ++ t) :: ops) ((g, v) :: cs) = Some res ->
  (forall j, 0 < j -> j <= run_len k t -> fails r (skipn j t)) ->
  m (IOpen g :: IStar k :: IClose g :: r) pos (v ++ t) ops cs = Some res.
Proof.
  intros Hv Hm Hno. rewrite m_open.
  apply star_field; [exact Hv| |].
  - rewrite m_close. cbn [lookup_g]. rewrite Nat.eqb_refl, firstn_len_diff. exact Hm.
  - intros j H1 H2 p ops' cs'. rewrite m_close. destruct (lookup_g g ops'); [apply Hno; assumption|reflexivity].
Qed.

(* a named group around a greedy plus, followed by r *)
Lemma group_plus g k r pos v t ops cs res :
  v <> [] -> forallb (in_cls k) v = true ->
  m r (pos + length v) t ((g, v ++ t) :: ops) ((g, v) :: cs) = Some res ->
  (forall j, 0 < j -> j <= run_len k t -> fails r (skipn j t)) ->
  m (IOpen g :: IOne k :: IStar k :: IClose g :: r) pos (v ++ t) ops cs = Some res.
Proof.
  intros Hne Hv Hm Hno. destruct v as [|c v]; [congruence|].
  cbn in Hv. apply andb_true_iff in Hv. destruct Hv as [Hc Hv].
  rewrite m_open. cbn [app]. rewrite m_one, Hc.
  apply star_field; [exact Hv| |].
  - rewrite m_close. cbn [lookup_g]. rewrite Nat.eqb_refl.
    change (c :: v ++ t) with ((c :: v) ++ t). rewrite firstn_len_diff.
    replace (S pos + length v) with (pos + length (c :: v)) by (cbn; lia). exact Hm.
  - intros j H1 H2 p ops' cs'. rewrite m_close. destruct (lookup_g g ops'); [apply Hno; assumption|reflexivity].
Qed.

(* the same when the field reaches the end of the text *)
Lemma group_star_end g k r pos v ops cs res :
  forallb (in_cls k) v = true ->
  m r (pos + length v) [] ((g, v) :: ops) ((g, v) :: cs) = Some res ->
  m (IOpen g :: IStar k :: IClose g :: r) pos v ops cs = Some res.
Proof.
  intros Hv Hm. rewrite <- (app_nil_r v) at 1. apply group_star; [exact Hv| |].
  - rewrite app_nil_r. exact Hm.
  - intros j H1 H2. cbn in H2. lia.
Qed.

Lemma group_plus_end g k r pos v ops cs res :
  v <> [] -> forallb (in_cls k) v = true ->
  m r (pos + length v) [] ((g, v) :: ops) ((g, v) :: cs) = Some res ->
  m (IOpen g :: IOne k :: IStar k :: IClose g :: r) pos v ops cs = Some res.
Proof.
  intros Hne Hv Hm. rewrite <- (app_nil_r v) at 1. apply group_plus; [exact Hne|exact Hv| |].
  - rewrite app_nil_r. exact Hm.
  - intros j H1 H2. cbn in H2. lia.
Qed.

(* k+ without a group, e.g. ssh[[:alnum:]]+ *)
Lemma plus_nogroup k r pos v t ops cs res :
  v <> [] -> forallb (in_cls k) v = true ->
  m r (pos + length v) t ops cs = Some res ->
  (forall j, 0 < j -> j <= run_len k t -> fails r (skipn j t)) ->
  m (IOne k :: IStar k :: r) pos (v ++ t) ops cs = Some res.
Proof.
  intros Hne Hv Hm Hno. destruct v as [|c v]; [congruence|].
  cbn in Hv. apply andb_true_iff in Hv. destruct Hv as [Hc Hv].
  cbn [app]. rewrite m_one, Hc.
  apply star_field; [exact Hv| |exact Hno].
  replace (S pos + length v) with (pos + length (c :: v)) by (cbn; lia). exact Hm.
Qed.

(* ---------- ways to show that no later split point works ---------- *)

(* B1: the run of the class stops right after the field *)
Lemma no_later_run0 k r t : run_len k t = 0 -> forall j, 0 < j -> j <= run_len k t -> fails r (skipn j t).
Proof. intros H j H1 H2. lia. Qed.

Lemma run_len_nil k : run_len k [] = 0.
Proof. reflexivity. Qed.

Lemma run_len_out k c s : in_cls k c = false -> run_len k (c :: s) = 0.
Proof. intros H. cbn. rewrite H. reflexivity. Qed.

(* B2: counting a marker byte.  Every literal c of the pattern consumes one c of the text. *)
Fixpoint count (c : ascii) (s : str) : nat :=
  match s with [] => 0 | x :: r => (if Ascii.eqb x c then 1 else 0) + count c r end.

Fixpoint litcount (c : ascii) (its : list item) : nat :=
  match its with
  | [] => 0
  | ILit x :: r => (if Ascii.eqb x c then 1 else 0) + litcount c r
  | _ :: r => litcount c r
  end.

Lemma count_app c a b : count c (a ++ b) = count c a + count c b.
Proof. induction a as [|x a IH]; cbn; [reflexivity|]. rewrite IH. lia. Qed.

Lemma litcount_app c a b : litcount c (a ++ b) = litcount c a + litcount c b.
Proof. induction a as [|x a IH]; cbn; [reflexivity|]. destruct x; rewrite ?IH; lia. Qed.

Lemma litcount_lits c l : litcount c (map ILit l) = count c l.
Proof. induction l as [|x l IH]; cbn; [reflexivity|]. rewrite IH. reflexivity. Qed.

Lemma count_skipn c j s : count c (skipn j s) <= count c s.
Proof.
  revert s. induction j as [|j IH]; intros s; cbn; [lia|]. destruct s as [|x s]; cbn; [lia|].
  specialize (IH s). lia.
Qed.

Lemma m_cnt c its : forall p s ops cs res, m its p s ops cs = Some res -> litcount c its <= count c s.
Proof.
  induction its as [|it r IH]; intros p s ops cs res H; cbn [litcount]; [lia|].
  destruct it as [x|k|k|g|g| | |k]; cbn [m] in H.
  - destruct s as [|y s]; [discriminate|]. destruct (Ascii.eqb_spec y x) as [->|Hne]; [|discriminate].
    specialize (IH _ _ _ _ _ H). cbn. lia.
  - destruct s as [|y s]; [discriminate|]. destruct (in_cls k y); [|discriminate].
    specialize (IH _ _ _ _ _ H). cbn. lia.
  - apply try_desc_some in H. destruct H as (j & _ & Hj). specialize (IH _ _ _ _ _ Hj).
    pose proof (count_skipn c j s). lia.
  - exact (IH _ _ _ _ _ H).
  - destruct (lookup_g g ops); [|discriminate]. exact (IH _ _ _ _ _ H).
  - destruct (Nat.eqb p 0); [|discriminate]. exact (IH _ _ _ _ _ H).
  - destruct s; [|discriminate]. exact (IH _ _ _ _ _ H).
  - destruct s as [|y s]; [discriminate|]. destruct (in_cls k y); [|discriminate].
    specialize (IH _ _ _ _ _ H). pose proof (count_skipn c (snd (decode_rune (y :: s))) (y :: s)). lia.
Qed.

Lemma fails_by_count c its s : count c s < litcount c its -> fails its s.
Proof.
  intros H p ops cs. destruct (m its p s ops cs) as [res|] eqn:E; [|reflexivity].
  apply (m_cnt c) in E. lia.
Qed.

(* the tail starts with the marker and contains exactly as many markers as the rest of the
   pattern needs: any later start has lost one *)
Lemma no_later_count c k r t' :
  count c t' < litcount c r ->
  forall j, 0 < j -> j <= run_len k (c :: t') -> fails r (skipn j (c :: t')).
Proof.
  intros H j H1 _. destruct j as [|j]; [lia|]. cbn [skipn]. apply (fails_by_count c).
  pose proof (count_skipn c j t'). lia.
Qed.

Lemma count_zero c s : forallb (fun x => negb (Ascii.eqb x c)) s = true -> count c s = 0.
Proof.
  induction s as [|x s IH]; cbn; [reflexivity|]. intros H. apply andb_true_iff in H. destruct H as [H1 H2].
  apply negb_true_iff in H1. rewrite H1, IH by exact H2. reflexivity.
Qed.

(* B3: the rest of the pattern is a literal followed by $ : it matches only that literal *)
Lemma lits_eol_exact l r p s ops cs res :
  m (map ILit l ++ IEol :: r) p s ops cs = Some res -> s = l.
Proof.
  intros H. apply m_lits_inv in H. destruct H as (s' & -> & H).
  destruct s'; [apply app_nil_r|]. cbn in H. discriminate.
Qed.

Lemma no_later_exact k l r :
  forall j, 0 < j -> j <= run_len k l -> fails (map ILit l ++ IEol :: r) (skipn j l).
Proof.
  intros j H1 H2 p ops cs. destruct (m _ p (skipn j l) ops cs) as [res|] eqn:E; [|reflexivity].
  apply lits_eol_exact in E. pose proof (run_len_le k l). pose proof (skipn_length j l).
  assert (length (skipn j l) = length l) by congruence. lia.
Qed.

(* IClose in front of a failing continuation *)
Lemma fails_close g r s : fails r s -> fails (IClose g :: r) s.
Proof. intros H p ops cs. rewrite m_close. destruct (lookup_g g ops); [apply H|reflexivity]. Qed.

(* ---------- class membership from readable predicates (exhaustive over the 256 bytes) ---------- *)

Definition all_ascii : list ascii := map ascii_of_nat (seq 0 256).

Lemma all_ascii_complete c : In c all_ascii.
Proof.
  unfold all_ascii. apply in_map_iff. exists (nat_of_ascii c). split; [apply ascii_nat_embedding|].
  apply in_seq. pose proof (nat_ascii_bounded c). lia.
Qed.

Lemma for_all_ascii (P : ascii -> bool) : forallb P all_ascii = true -> forall c, P c = true.
Proof. intros H c. rewrite forallb_forall in H. apply H. apply all_ascii_complete. Qed.

Definition nl : ascii := ascii_of_nat 10.
Definition sp : ascii := " "%char.

Definition not_nl (c : ascii) : bool := negb (Ascii.eqb c nl).
Definition not_sp (c : ascii) : bool := negb (Ascii.eqb c sp).
Definition is_dig (c : ascii) : bool := let n := N_of_ascii c in (48 <=? n)%N && (n <=? 57)%N.

Lemma dot_spec c : in_cls cls_dot c = not_nl c.
Proof.
  apply eqb_prop. revert c. apply for_all_ascii. vm_compute. reflexivity.
Qed.

Lemma digit_spec c : in_cls cls_digit c = is_dig c.
Proof. apply eqb_prop. revert c. apply for_all_ascii. vm_compute. reflexivity. Qed.

Lemma implb_true a b : implb a b = true -> a = true -> b = true.
Proof. destruct a, b; cbn; congruence. Qed.

Lemma nonspace_imp_dot c : in_cls cls_nonspace c = true -> in_cls cls_dot c = true.
Proof.
  apply implb_true. revert c. apply for_all_ascii. vm_compute. reflexivity.
Qed.

Lemma nonspace_not_sp c : in_cls cls_nonspace c = true -> not_sp c = true.
Proof. apply implb_true. revert c. apply for_all_ascii. vm_compute. reflexivity. Qed.

Lemma digit_imp_dot c : in_cls cls_digit c = true -> in_cls cls_dot c = true.
Proof. apply implb_true. revert c. apply for_all_ascii. vm_compute. reflexivity. Qed.

Lemma digit_imp_alnum c : in_cls cls_digit c = true -> in_cls cls_alnum c = true.
Proof. apply implb_true. revert c. apply for_all_ascii. vm_compute. reflexivity. Qed.

Lemma digit_not_sp c : in_cls cls_digit c = true -> not_sp c = true.
Proof. apply implb_true. revert c. apply for_all_ascii. vm_compute. reflexivity. Qed.

Lemma forallb_imp {A} (P Q : A -> bool) l :
  (forall x, P x = true -> Q x = true) -> forallb P l = true -> forallb Q l = true.
Proof.
  intros H. induction l as [|x l IH]; cbn; [reflexivity|]. intros H2. apply andb_true_iff in H2.
  destruct H2 as [H3 H4]. rewrite (H x H3), IH by exact H4. reflexivity.
Qed.

Lemma forallb_ext {A} (P Q : A -> bool) l : (forall x, P x = Q x) -> forallb P l = forallb Q l.
Proof. intros H. induction l as [|x l IH]; cbn; [reflexivity|]. rewrite H, IH. reflexivity. Qed.
