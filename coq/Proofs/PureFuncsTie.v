(* The hand-written models of three pure string functions equal the definitions that go2v generates
   from the Go source on every run (Gen/PureFuncs.v).  If one of the Go functions is edited, the
   generated definition changes and the corresponding lemma below stops compiling (or the generator
   emits an ill-typed UNSUPPORTED_ marker and Gen/PureFuncs.v itself stops compiling).

   A generated definition that is in [option] returns [None] where the Go function would panic
   (index / slice out of range); "= Some .." therefore also says that the function cannot panic.

   Main statements
     parse_syslog_from_source        ParseSyslogMessage            = Model.Syslog.parse
     process_arg_from_source         Process' argument preparation = Model.Syslog.trim_nl
     process_line_from_source        what Process hands on         = Model.Syslog.process_line
     cert_invalid_reason_from_source getCertificateInvalidReason   = the expression in SshdProc.h_cert_invalid
     log_rotation_number_spec        logRotationNumber, for every byte string (complete characterisation)
     log_rotation_number_digits / _render / _render_small / _live
     log_name_less_spec              the sort.Slice comparator, for every two byte strings
     log_name_less_render            the sort.Slice comparator on rendered names = strict part of
                                     Model.DirReader.before ( = negb (before b a) )
     log_name_less_render_distinct   ... = before a b for a <> b *)
From Coq Require Import Ascii String List Bool Arith NArith ZArith Lia.
Import ListNotations.
From AM Require Import Lib.Bytes Model.Syslog Model.SshdProc Model.DirReader.
From AM Require Import Lib.GoStrings Gen.PureFuncs.
Close Scope string_scope.

(* ------------------------------------------------------------------ syslog ingester *)

Lemma s2l_sp : s2l " " = [sp].
Proof. reflexivity. Qed.

(* ParseSyslogMessage(entry) = SshdLogEntry{PID: fst (parse entry), Message: snd (parse entry)}, no panic *)
Theorem parse_syslog_from_source : forall e,
  gen_parse_syslog_message e =
  Some {| SshdLogEntry_Message := snd (Syslog.parse e); SshdLogEntry_PID := fst (Syslog.parse e) |}.
Proof.
  intros e. unfold gen_parse_syslog_message, Syslog.parse.
  rewrite s2l_sp, go_split_sp.
  destruct (split_sp e) as [|a [|b r]]; cbn [length Nat.ltb Nat.leb]; try reflexivity.
  cbn [go_nth nth_error obind]. unfold go_slice_from. cbn [length Nat.leb skipn obind hd tl fst snd].
  rewrite go_join_sp, go_trim_left_sp. reflexivity.
Qed.

(* the same with the model's pair (PID, Message) *)
Definition entry_pair (x : go_SshdLogEntry) : str * str := (SshdLogEntry_PID x, SshdLogEntry_Message x).

Corollary parse_syslog_from_source_pair : forall e,
  option_map entry_pair (gen_parse_syslog_message e) = Some (Syslog.parse e).
Proof.
  intros e. rewrite parse_syslog_from_source. cbn. unfold entry_pair. cbn.
  destruct (Syslog.parse e); reflexivity.
Qed.

(* strings.TrimSuffix(line, "\n") *)
Theorem process_arg_from_source : forall line, gen_process_arg line = trim_nl line.
Proof. intros line. unfold gen_process_arg. apply go_trim_suffix_nl. Qed.

(* Process hands SshdLogEntry{PID, Message} of process_line to ProcessSshdLogEntry *)
Theorem process_line_from_source : forall line,
  option_map entry_pair (gen_process_line line) = Some (process_line line).
Proof.
  intros line. unfold gen_process_line, process_line.
  change (go_trim_suffix line ["010"%char]) with (gen_process_arg line).
  rewrite process_arg_from_source, parse_syslog_from_source. cbn. unfold entry_pair. cbn.
  destruct (Syslog.parse (trim_nl line)); reflexivity.
Qed.

(* ------------------------------------------------------------------ sshd: getCertificateInvalidReason *)

Theorem cert_invalid_reason_from_source : forall line,
  gen_cert_invalid_reason line =
  Some (if length line <=? cert_prefix_len then s2l "unknown reason" else skipn cert_prefix_len line).
Proof.
  intros line. unfold gen_cert_invalid_reason.
  change (length (s2l "Certificate invalid: ")) with cert_prefix_len.
  destruct (length line <=? cert_prefix_len) eqn:E; [reflexivity|].
  unfold go_slice_from.
  replace (cert_prefix_len <=? length line) with true; [reflexivity|].
  symmetry. apply Nat.leb_le. apply Nat.leb_gt in E. lia.
Qed.

(* ------------------------------------------------------------------ dirreader: logRotationNumber *)

Definition rot_prefix : str := s2l "audit.log.".

Definition is_digit (c : ascii) : bool := ((48 <=? N_of_ascii c) && (N_of_ascii c <=? 57))%N.
Definition digit_val (c : ascii) : N := (N_of_ascii c - 48)%N.
Definition dec_step (a : N) (c : ascii) : N := (a * 10 + digit_val c)%N.
(* the (unbounded) number a string of decimal digits denotes *)
Definition dec_value (s : str) : N := fold_left dec_step s 0%N.

(* what logRotationNumber computes, for every byte string: the name must be "audit.log." followed by at
   least one byte, all of them decimal digits; the number is the decimal value MODULO 2^64 (uint64
   arithmetic wraps silently); leading zeros are accepted *)
Definition log_rotation_number_model (name : str) : N * bool :=
  match strip_prefix rot_prefix name with
  | Some (c :: r) => if forallb is_digit (c :: r) then (go_u64 (dec_value (c :: r)), true) else (0%N, false)
  | _ => (0%N, false)
  end.

(* the loop body of the generated definition *)
Definition rot_body (c : Z) (n : N) : loop_step N (N * bool) :=
  if orb (Z.ltb c 48) (Z.ltb 57 c) then LReturn (0%N, false)
  else LContinue (go_u64_add (go_u64_mul n 10) (go_u64_of_i32 (go_i32_sub c 48))).

(* the generated definition, with the loop body folded; by conversion only *)
Lemma gen_log_rotation_number_unfold name :
  gen_log_rotation_number name =
  if orb (negb (go_has_prefix name rot_prefix)) (Nat.eqb (length name) (length rot_prefix)) then Some (0%N, false)
  else obind (go_slice_from name (length rot_prefix)) (fun rest =>
         match go_range_bytes rot_body rest 0%N with
         | LReturn r => Some r
         | LContinue n => Some (n, true)
         end).
Proof. reflexivity. Qed.

(* per byte: the guard of the loop is "not a decimal digit"; for a digit, uint64(c - '0') is its value
   (all 256 bytes are checked by computation) *)
Lemma rot_byte b :
  orb (Z.ltb (go_rune_of_byte b) 48) (Z.ltb 57 (go_rune_of_byte b)) = negb (is_digit b) /\
  (is_digit b = true -> go_u64_of_i32 (go_i32_sub (go_rune_of_byte b) 48) = digit_val b).
Proof.
  destruct b as [[] [] [] [] [] [] [] []]; vm_compute; split; try reflexivity; intros H; try reflexivity; discriminate H.
Qed.

Lemma rot_loop s : forall a,
  go_range_bytes rot_body s (go_u64 a) =
  if forallb is_digit s then LContinue (go_u64 (fold_left dec_step s a)) else LReturn (0%N, false).
Proof.
  induction s as [|b r IH]; intros a; [reflexivity|].
  cbn [go_range_bytes forallb fold_left]. unfold rot_body at 1.
  destruct (rot_byte b) as [Hg Hv]. rewrite Hg.
  destruct (is_digit b) eqn:E; cbn [negb andb]; [|reflexivity].
  rewrite (Hv eq_refl), go_u64_step. apply IH.
Qed.

Theorem log_rotation_number_spec : forall name,
  gen_log_rotation_number name = Some (log_rotation_number_model name).
Proof.
  intros name. rewrite gen_log_rotation_number_unfold. unfold log_rotation_number_model, go_has_prefix, has_prefix.
  destruct (strip_prefix rot_prefix name) as [rest|] eqn:E; [|reflexivity].
  apply strip_prefix_some in E. subst name. cbn [negb orb].
  rewrite app_length.
  destruct rest as [|c r].
  - rewrite Nat.add_0_r, Nat.eqb_refl. reflexivity.
  - replace (length rot_prefix + length (c :: r) =? length rot_prefix)%nat with false
      by (symmetry; apply Nat.eqb_neq; cbn [length]; lia).
    rewrite go_slice_from_app. cbn [obind].
    change 0%N with (go_u64 0) at 1. rewrite rot_loop.
    unfold dec_value. destruct (forallb is_digit (c :: r)); reflexivity.
Qed.

(* in particular logRotationNumber never panics *)
Corollary log_rotation_number_no_panic : forall name, gen_log_rotation_number name <> None.
Proof. intros name. rewrite log_rotation_number_spec. discriminate. Qed.

(* ---- digit lists and canonical decimal rendering *)

Definition digit_char (d : N) : ascii := ascii_of_N (48 + d).
Definition num_step (a d : N) : N := (a * 10 + d)%N.
(* value of a list of digits, most significant first *)
Definition digits_value (ds : list N) : N := fold_left num_step ds 0%N.
Definition all_digits (ds : list N) : Prop := Forall (fun d => (d < 10)%N) ds.

Lemma digit_cases d : (d < 10)%N ->
  d = 0%N \/ d = 1%N \/ d = 2%N \/ d = 3%N \/ d = 4%N \/ d = 5%N \/ d = 6%N \/ d = 7%N \/ d = 8%N \/ d = 9%N.
Proof. lia. Qed.

Lemma digit_char_ok d : (d < 10)%N -> is_digit (digit_char d) = true /\ digit_val (digit_char d) = d.
Proof.
  intros H. destruct (digit_cases d H) as [->|[->|[->|[->|[->|[->|[->|[->|[->| ->]]]]]]]]]; split; reflexivity.
Qed.

Lemma render_digits_ok ds : all_digits ds ->
  forallb is_digit (map digit_char ds) = true /\
  forall a, fold_left dec_step (map digit_char ds) a = fold_left num_step ds a.
Proof.
  induction 1 as [|d r Hd Hr [IH1 IH2]]; [split; reflexivity|].
  destruct (digit_char_ok d Hd) as [H1 H2]. cbn [map forallb fold_left]. rewrite H1, IH1. split; [reflexivity|].
  intros a. unfold dec_step at 2. rewrite H2. apply IH2.
Qed.

(* logRotationNumber on "audit.log." followed by ANY non-empty list of decimal digits (leading zeros
   allowed): the value modulo 2^64 *)
Theorem log_rotation_number_digits : forall ds, ds <> [] -> all_digits ds ->
  gen_log_rotation_number (rot_prefix ++ map digit_char ds) = Some (go_u64 (digits_value ds), true).
Proof.
  intros ds Hne Hd. rewrite log_rotation_number_spec. unfold log_rotation_number_model.
  rewrite strip_prefix_app. destruct (render_digits_ok ds Hd) as [H1 H2].
  destruct ds as [|d r]; [congruence|]. cbn [map] in *. rewrite H1.
  unfold dec_value, digits_value. rewrite H2. reflexivity.
Qed.

(* canonical decimal digits of n (no leading zero, "0" for 0); fuel = number of binary digits *)
Fixpoint digits_fuel (fuel : nat) (n : N) (acc : list N) : list N :=
  match fuel with
  | O => acc
  | S f => let acc' := (n mod 10)%N :: acc in
           if (n <? 10)%N then acc' else digits_fuel f (n / 10)%N acc'
  end.

Definition digits (n : N) : list N := digits_fuel (S (N.to_nat (N.log2 n))) n [].
Definition render_N (n : N) : str := map digit_char (digits n).

Lemma digits_fuel_all f : forall n acc, all_digits acc -> all_digits (digits_fuel f n acc).
Proof.
  induction f as [|f IH]; intros n acc H; [exact H|]. cbn [digits_fuel].
  assert (H' : all_digits ((n mod 10)%N :: acc)).
  { constructor; [apply N.mod_lt; discriminate|exact H]. }
  destruct (n <? 10)%N; [exact H'|apply IH, H'].
Qed.

Lemma digits_fuel_nonempty f n acc : digits_fuel (S f) n acc <> [].
Proof.
  cbn [digits_fuel]. destruct (n <? 10)%N; [discriminate|].
  generalize (n / 10)%N. generalize (n mod 10)%N. revert acc.
  induction f as [|f IH]; intros acc d m; [discriminate|].
  cbn [digits_fuel]. destruct (m <? 10)%N; [discriminate|apply IH].
Qed.

Lemma digits_fuel_value f : forall n acc, (n < 2 ^ N.of_nat f)%N ->
  fold_left num_step (digits_fuel f n acc) 0%N = fold_left num_step acc n.
Proof.
  induction f as [|f IH]; intros n acc H.
  - cbn in H. assert (n = 0%N) by lia. subst. reflexivity.
  - cbn [digits_fuel]. destruct (N.ltb_spec n 10) as [Hs|Hl].
    + cbn [fold_left]. unfold num_step at 2. rewrite N.mod_small by exact Hs. reflexivity.
    + rewrite IH.
      * cbn [fold_left]. unfold num_step at 2. f_equal.
        rewrite N.mul_comm. symmetry. apply N.div_mod. discriminate.
      * rewrite Nat2N.inj_succ, N.pow_succ_r' in H.
        apply N.div_lt_upper_bound; [discriminate|]. lia.
Qed.

Lemma digits_value_digits n : digits_value (digits n) = n.
Proof.
  unfold digits_value, digits. rewrite digits_fuel_value; [reflexivity|].
  rewrite Nat2N.inj_succ, N2Nat.id.
  destruct n as [|p]; [reflexivity|]. apply N.log2_spec. reflexivity.
Qed.

(* ---- the abstract names of Model/DirReader.v as file names *)

(* Live = "audit.log"; Rot n = "audit.log." followed by the canonical decimal numeral of n.  ([Other] stands
   for the entries that sortLogNamesOldToNew filters out; it has no rendering that matters: "".) *)
Definition render_name (a : name) : str :=
  match a with
  | Live => s2l "audit.log"
  | Rot n => rot_prefix ++ render_N (N.of_nat n)
  | Other => []
  end.

(* logRotationNumber("audit.log.<n>") = (n mod 2^64, true) for every n *)
Theorem log_rotation_number_render : forall n,
  gen_log_rotation_number (render_name (Rot n)) = Some (go_u64 (N.of_nat n), true).
Proof.
  intros n. unfold render_name, render_N. rewrite log_rotation_number_digits.
  - rewrite digits_value_digits. reflexivity.
  - apply digits_fuel_nonempty.
  - apply digits_fuel_all. constructor.
Qed.

(* ... = (n, true) for n < 2^64 *)
Corollary log_rotation_number_render_small : forall n, (N.of_nat n < two64)%N ->
  gen_log_rotation_number (render_name (Rot n)) = Some (N.of_nat n, true).
Proof. intros n H. rewrite log_rotation_number_render, go_u64_small by exact H. reflexivity. Qed.

Theorem log_rotation_number_live : gen_log_rotation_number (render_name Live) = Some (0%N, false).
Proof. vm_compute. reflexivity. Qed.

(* ------------------------------------------------------------------ dirreader: the sort.Slice comparator *)

Definition small (a : name) : Prop :=
  match a with Rot n => (N.of_nat n < two64)%N | _ => True end.

(* less(i, j) on rendered names is the STRICT part of the model's (reflexive) order [before]:
   less a b = not (before b a).  Arguments: a = oldestToNew[i], b = oldestToNew[j]. *)
Theorem log_name_less_render : forall a b,
  is_log a = true -> is_log b = true -> small a -> small b ->
  gen_log_name_less (render_name a) (render_name b) = Some (negb (before b a)).
Proof.
  intros a b La Lb Sa Sb. unfold gen_log_name_less.
  destruct a as [|x|]; [| |discriminate La]; destruct b as [|y|]; try discriminate Lb.
  - (* Live, Live *) rewrite log_rotation_number_live. cbn [obind andb Bool.eqb negb].
    rewrite str_ltb_irrefl. reflexivity.
  - (* Live, Rot y *) rewrite log_rotation_number_live, (log_rotation_number_render_small y Sb). reflexivity.
  - (* Rot x, Live *) rewrite log_rotation_number_live, (log_rotation_number_render_small x Sa). reflexivity.
  - (* Rot x, Rot y *)
    rewrite (log_rotation_number_render_small x Sa), (log_rotation_number_render_small y Sb).
    cbn [obind andb Bool.eqb negb before].
    destruct (Nat.eq_dec x y) as [->|Hne].
    + rewrite N.eqb_refl. cbn [negb]. rewrite str_ltb_irrefl, Nat.leb_refl. reflexivity.
    + replace (N.of_nat x =? N.of_nat y)%N with false by (symmetry; apply N.eqb_neq; lia).
      cbn [negb]. f_equal.
      destruct (N.ltb_spec (N.of_nat y) (N.of_nat x)), (Nat.leb_spec x y); cbn; try reflexivity; lia.
Qed.

(* for two different names, less = before *)
Corollary log_name_less_render_distinct : forall a b,
  is_log a = true -> is_log b = true -> small a -> small b -> name_eqb a b = false ->
  gen_log_name_less (render_name a) (render_name b) = Some (before a b).
Proof.
  intros a b La Lb Sa Sb Hne. rewrite log_name_less_render by assumption. f_equal.
  destruct a as [|x|], b as [|y|]; try discriminate; try reflexivity.
  cbn in *. apply Nat.eqb_neq in Hne.
  destruct (Nat.leb_spec x y), (Nat.leb_spec y x); cbn; try reflexivity; lia.
Qed.

(* and on equal names less is false, as a strict order must be *)
Corollary log_name_less_render_irrefl : forall a, is_log a = true -> small a ->
  gen_log_name_less (render_name a) (render_name a) = Some false.
Proof.
  intros a La Sa. rewrite log_name_less_render by assumption. f_equal.
  destruct a; try discriminate; cbn; [reflexivity|]. rewrite Nat.leb_refl. reflexivity.
Qed.

(* the comparator for ARBITRARY byte strings (also the names the abstract model leaves out: leading zeros,
   non-decimal suffixes, numbers >= 2^64), in terms of log_rotation_number_model; never panics *)
Definition log_name_less_model (a b : str) : bool :=
  let '(ni, iok) := log_rotation_number_model a in
  let '(nj, jok) := log_rotation_number_model b in
  if iok && jok && negb (ni =? nj)%N then (nj <? ni)%N
  else if negb (Bool.eqb iok jok) then iok
  else str_gtb a b.

Theorem log_name_less_spec : forall a b, gen_log_name_less a b = Some (log_name_less_model a b).
Proof.
  intros a b. unfold gen_log_name_less, log_name_less_model. rewrite !log_rotation_number_spec. cbn [obind].
  destruct (log_rotation_number_model a) as [ni iok], (log_rotation_number_model b) as [nj jok].
  destruct (iok && jok && negb (ni =? nj)%N); [reflexivity|].
  destruct (negb (Bool.eqb iok jok)); reflexivity.
Qed.

(* ---- what the abstract model leaves out, by computation on the generated definitions *)

(* uint64 wrap-around: 2^64 is read as 0, so "audit.log.18446744073709551616" counts as rotation 0 *)
Example rot_wraps : gen_log_rotation_number (s2l "audit.log.18446744073709551616") = Some (0%N, true).
Proof. vm_compute. reflexivity. Qed.

(* leading zeros: same number, the comparator falls through to the string comparison *)
Example rot_leading_zero : gen_log_rotation_number (s2l "audit.log.007") = Some (7%N, true).
Proof. vm_compute. reflexivity. Qed.
Example less_leading_zero :
  gen_log_name_less (s2l "audit.log.1") (s2l "audit.log.01") = Some true /\
  gen_log_name_less (s2l "audit.log.01") (s2l "audit.log.1") = Some false.
Proof. vm_compute. split; reflexivity. Qed.

(* a non-decimal suffix is not a rotation number; such a name is ordered like the live log *)
Example rot_non_decimal : gen_log_rotation_number (s2l "audit.log.1.gz") = Some (0%N, false).
Proof. vm_compute. reflexivity. Qed.
Example rot_multibyte : gen_log_rotation_number (rot_prefix ++ ["1"%char; "195"%char; "169"%char]) = Some (0%N, false).
Proof. vm_compute. reflexivity. Qed.

Example render_examples :
  render_name (Rot 0) = s2l "audit.log.0" /\ render_name (Rot 10) = s2l "audit.log.10" /\
  render_N 18446744073709551615 = s2l "18446744073709551615".
Proof. vm_compute. repeat split; reflexivity. Qed.

(* ------------------------------------------------------------------ Lib/GoStrings.v against the real package strings *)

(* every model of Lib/GoStrings.v returns what the real Go function returned, on the generator's corpus *)
Lemma go_strings_vectors_ok : forallb (fun b => b) go_strings_vectors = true.
Proof. vm_compute. reflexivity. Qed.

Print Assumptions parse_syslog_from_source.
Print Assumptions process_arg_from_source.
Print Assumptions process_line_from_source.
Print Assumptions cert_invalid_reason_from_source.
Print Assumptions log_rotation_number_spec.
Print Assumptions log_rotation_number_digits.
Print Assumptions log_rotation_number_render.
Print Assumptions log_rotation_number_render_small.
Print Assumptions log_rotation_number_live.
Print Assumptions log_name_less_spec.
Print Assumptions log_name_less_render.
Print Assumptions log_name_less_render_distinct.
