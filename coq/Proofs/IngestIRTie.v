(* Model/Framing.v's [ingest] is what the source says: the loop GENERATED from
   ingesters/namedpipe/namedpipeingester.go (Gen/IngestProg.v), run by the interpreter of
   Model/IngestIR.v, equals the hand-written model for every chunking, delimiter and callback; and
   the generated facts about the set-up part, the two wrappers and the callbacks that C12/C07/C13 rely
   on.  An edit of the sources changes Gen/IngestProg.v and these proofs stop compiling (or the
   generated file does not type-check: UNSUPPORTED_...). *)
From Coq Require Import Ascii String List Bool Arith.
Import ListNotations.
From AM Require Import Lib.Bytes Model.Framing Proofs.FramingLemmas.
From AM Require Import Model.IngestIR Gen.IngestProg.
Open Scope string_scope.
Open Scope list_scope.

(* ---- the loop ---- *)

(* the interpreter's raw outcome as the model's *)
Definition raw_of (r : ret) : option errval :=
  match r with RetCallbackErr k => Some (VCb k) | RetEOF => Some VEOF | RetOutOfFuel => None end.

Lemma loop_from_source d cb : forall fuel k buf cs acc ss es,
  run_loop d cb fuel (ip_loop gen_Ingest)
    {| l_buf := buf; l_cs := cs; l_k := k; l_delivered := acc; l_strs := ss; l_errs := es |} =
  let (ls, e) := loop fuel d cb k buf cs in Some (acc ++ ls, raw_of e).
Proof.
  induction fuel as [|f IH]; intros k buf cs acc ss es.
  - cbn. rewrite app_nil_r. reflexivity.
  - cbn [loop].
    cbn -[read_string loop run_loop]. cbn [run_loop].
    cbn -[read_string loop run_loop].
    destruct (read_string d buf cs) as [l rest cs'|rem].
    + cbn -[loop run_loop].
      destruct (cb k l) eqn:E.
      * cbn -[loop run_loop].
        specialize (IH (S k) rest cs' (acc ++ [l]) [("line", l)] [("err", VNil)]).
        unfold gen_Ingest in IH. cbn [ip_loop] in IH.
        rewrite IH. destruct (loop f d cb (S k) rest cs') as [ls e].
        rewrite <- app_assoc. reflexivity.
      * cbn. reflexivity.
    + cbn. rewrite app_nil_r. reflexivity.
Qed.

(* raw form: what Ingest returns is the reader's own error or the k-th callback call's own error *)
Theorem ingest_raw_from_source : forall cs d cb,
  run_ingest_raw gen_Ingest cs d cb =
  Some (fst (ingest cs d cb), raw_of (snd (ingest cs d cb))).
Proof.
  intros cs d cb. unfold run_ingest_raw, ingest.
  rewrite loop_from_source.
  destruct (loop (S (length (concat cs))) d cb 0 [] cs) as [ls e]. reflexivity.
Qed.

Theorem ingest_from_source : forall cs d cb,
  run_ingest gen_Ingest cs d cb = Some (ingest cs d cb).
Proof.
  intros cs d cb. unfold run_ingest. rewrite ingest_raw_from_source.
  destruct (ingest cs d cb) as [ls e]. destruct e; reflexivity.
Qed.

(* errors are returned unwrapped: the returned value is never nil, never ctx.Err(), never a new error
   made from another one; it is ReadString's end-of-stream error or the error of the callback call
   that refused (and that is the last call made) *)
Theorem ingest_errors_unwrapped : forall cs d cb,
  exists dl e, run_ingest_raw gen_Ingest cs d cb = Some (dl, Some e) /\
    (e = VEOF \/
     exists k r, e = VCb k /\ length dl = S k /\ nth_error dl k = Some r /\ cb k r = false).
Proof.
  intros cs d cb. rewrite ingest_raw_from_source.
  pose proof (ingest_never_out_of_fuel cs d cb) as Hf.
  pose proof (ingest_ret cs d cb) as Hr. cbn zeta in Hr.
  destruct Hr as (_ & _ & Hk).
  destruct (ingest cs d cb) as [dl e]. cbn [fst snd] in *.
  destruct e as [k| |]; [| |congruence].
  - exists dl, (VCb k). split; [reflexivity|]. right.
    destruct (Hk k eq_refl) as (Hd & Hlt & (r & Hn & Hc) & _).
    exists k, r. split; [reflexivity|]. subst dl.
    split; [rewrite firstn_length; apply Nat.min_l; exact Hlt|].
    split; [|exact Hc].
    rewrite <- Hn. clear -Hlt. revert k Hlt.
    induction (records d (concat cs)) as [|x xs IHx]; intros k Hlt; [inversion Hlt|].
    destruct k; [reflexivity|]. cbn [length] in Hlt. apply IHx. apply Nat.succ_lt_mono. exact Hlt.
  - exists dl, VEOF. split; [reflexivity|]. left. reflexivity.
Qed.

(* the callback receives the line exactly as ReadString returned it (delimiter included), and the
   statements of the loop are these *)
Theorem loop_shape_from_source :
  ip_loop gen_Ingest = [
    IReadString "line" "err" DParam;
    IIf (CErrNotNil "err") [ILog "Errorf"; IReturn (EVar "err")] [];
    ICallback (TAssign "err") (SVar "line");
    IIf (CErrNotNil "err") [IReturn (EVar "err")] []].
Proof. reflexivity. Qed.

(* ---- the set-up part ---- *)

Theorem setup_from_source :
  (* readiness is reported before the (blocking) open *)
  (exists i j, index_of is_onready (ip_setup gen_Ingest) = Some i /\
               index_of is_open (ip_setup gen_Ingest) = Some j /\ i < j) /\
  In (SOnReady "named-pipe-processor") (ip_setup gen_Ingest) /\
  (* the open is read-only, done in a goroutine, and the wait for it has a ctx.Done arm returning ctx.Err() *)
  In (SGoOpen "file" "err" ["O_RDONLY"] "ModeNamedPipe" "ready") (ip_setup gen_Ingest) /\
  In (SSelect [SArmDone ECtxErr; SArmRecv "ready"]) (ip_setup gen_Ingest) /\
  open_is_cancellable (ip_setup gen_Ingest) = true /\
  (* an open error is returned unchanged *)
  In (SIfErrReturn "err" (EVar "err")) (ip_setup gen_Ingest) /\
  (* the close-on-cancel goroutine exists, between the error check and the reader *)
  In (SGoCloseOnCancel "file") (ip_setup gen_Ingest) /\
  read_is_cancellable (ip_setup gen_Ingest) = true /\
  (* the file is closed when Ingest returns, and the reader reads that file *)
  In (SDeferClose "file") (ip_setup gen_Ingest) /\
  In (SNewReader "r" "file") (ip_setup gen_Ingest).
Proof.
  repeat split; try (cbn; tauto).
  exists 3, 4. repeat split. constructor.
Qed.

(* ---- the wrappers and the callbacks ---- *)

Definition newline : ascii := "010"%char.

Theorem wrappers_from_source :
  ascii_of_nat (wr_delim gen_auditlog_Ingest) = newline /\
  ascii_of_nat (wr_delim gen_syslog_Ingest) = newline /\
  wr_callback gen_auditlog_Ingest = "Process" /\
  wr_callback gen_syslog_Ingest = "Process" /\
  wr_ingester gen_auditlog_Ingest = "namedPipeIngester" /\
  wr_ingester gen_syslog_Ingest = "namedPipeIngester" /\
  wr_path gen_auditlog_Ingest = "FilePath" /\ wr_path gen_syslog_Ingest = "FilePath".
Proof. repeat split. Qed.

(* the two ingesters, as the model sees them: Ingest with delimiter newline *)
Theorem wrapped_ingest_from_source : forall cs cb,
  run_ingest gen_Ingest cs (ascii_of_nat (wr_delim gen_auditlog_Ingest)) cb = Some (ingest cs newline cb) /\
  run_ingest gen_Ingest cs (ascii_of_nat (wr_delim gen_syslog_Ingest)) cb = Some (ingest cs newline cb).
Proof. intros cs cb. split; apply ingest_from_source. Qed.

(* AuditLogIngester.Process: one select with a ctx.Done arm (returns ctx.Err()) and the send of the line,
   UNCHANGED (the terminating newline is still there), on AuditLogChan (returns nil) *)
Theorem auditlog_process_from_source :
  gen_auditlog_Process =
  {| pr_line := "line";
     pr_body := PSelect [PArmDone ECtxErr; PArmSend "AuditLogChan" (SVar "line") ENil] |}.
Proof. reflexivity. Qed.

(* SyslogIngester.Process: exactly one trailing newline is removed, the rest goes to ParseSyslogMessage
   and on to SshdProcessor.ProcessSshdLogEntry, whose error is returned unchanged *)
Theorem syslog_process_from_source :
  gen_syslog_Process =
  {| pr_line := "line";
     pr_body := PParseAndProcess "ParseSyslogMessage" (STrimLit [10] (SVar "line"))
                                 "SshdProcessor" "ProcessSshdLogEntry" |}.
Proof. reflexivity. Qed.

(* what the syslog callback parses, for a record as Ingest delivers it: the body *)
Theorem syslog_process_gets_body : forall b, trim_suffix (map ascii_of_nat [10]) (b ++ [newline]) = b.
Proof.
  intros b. unfold trim_suffix. rewrite rev_app_distr. cbn [rev app map].
  change (ascii_of_nat 10) with newline. cbn [strip_prefix]. rewrite Ascii.eqb_refl. cbn.
  apply rev_involutive.
Qed.

Print Assumptions ingest_from_source.
Print Assumptions ingest_raw_from_source.
Print Assumptions ingest_errors_unwrapped.
Print Assumptions loop_shape_from_source.
Print Assumptions setup_from_source.
Print Assumptions wrappers_from_source.
Print Assumptions wrapped_ingest_from_source.
Print Assumptions auditlog_process_from_source.
Print Assumptions syslog_process_from_source.
Print Assumptions syslog_process_gets_body.
