(* The hand-written handler model (Model/SshdProc.run_handler) equals the interpretation of the sketch /
   decision tree go2v extracts from the Go source of each handler (Gen/SshdHandlers.v, Model/SshdSketch.v).
   Which capture group / constant / processor field feeds which event field, the outcome, the metric
   increments inside the handler and the hand-off of the login are thereby tied to the source on every run:
   a change of the source that changes the sketch makes this file fail to compile. *)
From Coq Require Import Ascii String List Bool Arith ZArith.
Import ListNotations.
From AM Require Import Lib.Bytes Lib.Regex Gen.SshdRegexes Gen.SshdDispatch Gen.SshdHandlers
  Model.SshdProc Model.SshdSketch.
Open Scope string_scope.
Open Scope nat_scope.

(* the model's shape of a handler whose event is [mk mt] *)
Definition shape_of (hs : hsketch) (mk : rmatch -> event) (c : cfg) (tok line : str) (wok ready : bool) : result :=
  match hs_forward hs with
  | None =>
      match find (hs_re hs) line with
      | None => nothing
      | Some mt => write_only wok (hs_metrics hs) (mk mt)
      end
  | Some cred =>
      match atoi tok with
      | None => nothing
      | Some pid =>
          match find (hs_re hs) line with
          | None => nothing
          | Some mt => write_forward wok ready (hs_metrics hs) (mk mt) pid (eval_src c tok mt cred)
          end
      end
  end.

(* every sketch is well-formed for the interpretation *)
Lemma sketches_wf : forall h hs, handler_sketch h = Some hs -> sketch_wf hs = true.
Proof.
  intros h hs H; destruct h; inversion H; subst; vm_compute; reflexivity.
Qed.

(* the sketch regex is the regex the dispatch table generator found for the handler *)
Lemma sketch_regex_agrees : forall h hs, handler_sketch h = Some hs -> handler_regex h = Some (hs_re hs).
Proof.
  intros h hs H; destruct h; inversion H; subst; reflexivity.
Qed.

(* MAIN TIE: for all inputs, the model's handler is the sketch's event builder put into the model's shape *)
Lemma handlers_match_source :
  forall h hs, handler_sketch h = Some hs ->
  forall c tok line wok ready,
  exists mk : rmatch -> event,
    (forall mt, event_of_sketch hs c tok mt = Some (mk mt)) /\
    run_handler h c tok line wok ready = shape_of hs mk c tok line wok ready.
Proof.
  intros h hs H c tok line wok ready.
  destruct h; inversion H; subst; clear H;
    (eexists; split; [ intro mt; reflexivity | reflexivity ]).
Qed.

(* the same as one equation: running the sketch gives exactly the model's result *)
Lemma run_sketch_is_run_handler :
  forall h hs, handler_sketch h = Some hs ->
  forall c tok line wok ready, run_sketch hs c tok line wok ready = Some (run_handler h c tok line wok ready).
Proof.
  intros h hs H c tok line wok ready.
  destruct (handlers_match_source h hs H c tok line wok ready) as [mk [Hev Hrun]].
  rewrite Hrun. unfold run_sketch, shape_of.
  destruct (hs_forward hs) as [cred|].
  - destruct (atoi tok); [|reflexivity].
    destruct (find (hs_re hs) line) as [mt|]; [|reflexivity].
    rewrite Hev. reflexivity.
  - destruct (find (hs_re hs) line) as [mt|]; [|reflexivity].
    rewrite Hev. reflexivity.
Qed.

(* the special cases, spelled out *)
Corollary write_only_handlers_match_source :
  forall h hs, handler_sketch h = Some hs -> hs_forward hs = None ->
  forall c tok line wok ready,
  exists mk : rmatch -> event,
    (forall mt, event_of_sketch hs c tok mt = Some (mk mt)) /\
    run_handler h c tok line wok ready =
      match find (hs_re hs) line with
      | None => nothing
      | Some mt => write_only wok (hs_metrics hs) (mk mt)
      end.
Proof.
  intros h hs H Hf c tok line wok ready.
  destruct (handlers_match_source h hs H c tok line wok ready) as [mk [Hev Hrun]].
  exists mk. split; [exact Hev|]. rewrite Hrun. unfold shape_of. rewrite Hf. reflexivity.
Qed.

Corollary forwarding_handlers_match_source :
  forall h hs cred, handler_sketch h = Some hs -> hs_forward hs = Some cred ->
  forall c tok line wok ready,
  exists mk : rmatch -> event,
    (forall mt, event_of_sketch hs c tok mt = Some (mk mt)) /\
    run_handler h c tok line wok ready =
      match atoi tok with
      | None => nothing
      | Some pid =>
          match find (hs_re hs) line with
          | None => nothing
          | Some mt => write_forward wok ready (hs_metrics hs) (mk mt) pid (eval_src c tok mt cred)
          end
      end.
Proof.
  intros h hs cred H Hf c tok line wok ready.
  destruct (handlers_match_source h hs H c tok line wok ready) as [mk [Hev Hrun]].
  exists mk. split; [exact Hev|]. rewrite Hrun. unfold shape_of. rewrite Hf. reflexivity.
Qed.

(* only the password handler forwards among the sketched ones, with the placeholder credential *)
Lemma forwarding_sketches :
  forall h hs cred, handler_sketch h = Some hs -> hs_forward hs = Some cred ->
  h = h_processAcceptedPasswordEntry /\ cred = FConst "unknown".
Proof.
  intros h hs cred H Hf; destruct h; inversion H; subst; simpl in Hf; inversion Hf; split; reflexivity.
Qed.

(* exactly the allow-listed handlers have no sketch *)
Lemma sketch_coverage :
  forall h, handler_sketch h = None ->
  h = h_processAcceptPublicKeyEntry \/ h = h_processCertificateInvalidEntry.
Proof.
  intros h H; destruct h; simpl in H; try discriminate H; [left | right]; reflexivity.
Qed.

Lemma sketchless_list : forall h, handler_sketch h = None <-> In h sketchless_handlers.
Proof.
  intro h; split.
  - intro H; destruct (sketch_coverage h H); subst; simpl; auto.
  - intro H; simpl in H; destruct H as [H|[H|[]]]; subst; reflexivity.
Qed.

(* ================================================================================================
   Decision trees: ALL handlers, including the two without a flat sketch
   (public key: three outcomes and a second regex; invalid certificate: no regex, tail of the line).
   ================================================================================================ *)

Ltac expose_prog :=
  match goal with
  | |- run_prog ?p _ _ _ _ _ _ = _ => let q := eval hnf in p in change p with q
  end.

Ltac tie_prog :=
  cbv beta iota zeta delta [run_handler h_simple h_accept_publickey h_accept_password h_cert_invalid h_invalid_user];
  cbn [run_prog penv0 pe_mt pe_im pe_pid];
  repeat match goal with
  | |- context [match find ?re ?l with _ => _ end] => destruct (find re l)
  | |- context [match atoi ?t with _ => _ end] => destruct (atoi t)
  | |- context [if Nat.eqb ?a ?b then _ else _] => destruct (Nat.eqb a b)
  | |- context [if Nat.ltb ?a ?b then _ else _] => destruct (Nat.ltb a b)
  end;
  reflexivity.

(* Accepted publickey: match, Atoi, then  whole line / rest does not match certIDRE / rest matches *)
Lemma pubkey_handler_matches_source : forall c tok line wok ready,
  run_prog prog_processAcceptPublicKeyEntry c tok line wok ready penv0
  = Some (h_accept_publickey c tok line wok ready).
Proof. intros. expose_prog. tie_prog. Qed.

(* Certificate invalid: no regex; reason = the line after len("Certificate invalid: ") or the fallback *)
Lemma certinvalid_handler_matches_source : forall c tok line wok ready,
  run_prog prog_processCertificateInvalidEntry c tok line wok ready penv0
  = Some (h_cert_invalid c tok line wok).
Proof. intros. expose_prog. tie_prog. Qed.

(* the length the hand model hard-codes is the length of the prefix in the source *)
Lemma cert_prefix_len_from_source :
  In ("reason", FLineFrom cert_prefix_len "unknown reason") (he_data (hl_event leaf_processCertificateInvalidEntry)).
Proof. simpl. auto. Qed.

(* ALL 20 handlers: the hand model is the interpretation of generated data *)
Theorem all_handlers_from_source :
  forall h c tok line wok ready,
  run_generated h c tok line wok ready = Some (run_handler h c tok line wok ready).
Proof.
  intros h c tok line wok ready. unfold run_generated.
  destruct h; cbn [handler_prog]; expose_prog; tie_prog.
Qed.

(* the flat sketch and the decision tree of a handler agree *)
Corollary sketch_and_prog_agree :
  forall h hs, handler_sketch h = Some hs ->
  forall c tok line wok ready, run_sketch hs c tok line wok ready = run_generated h c tok line wok ready.
Proof.
  intros. rewrite all_handlers_from_source. apply run_sketch_is_run_handler. assumption.
Qed.

Print Assumptions handlers_match_source.
Print Assumptions run_sketch_is_run_handler.
Print Assumptions sketch_coverage.
Print Assumptions all_handlers_from_source.
Print Assumptions pubkey_handler_matches_source.
Print Assumptions certinvalid_handler_matches_source.
