(* The reader of the line: the recursive-descent parser of Model/JsonEnc.v never runs out of fuel, and applied to
   the text of ANY value (followed by any text) it returns that value as a reader sees it ([norm]: strings and keys
   sanitised) and the text that follows — so the line of an event parses to exactly the event's fields. *)
From Coq Require Import Ascii String List Bool Arith NArith Lia.
Import ListNotations.
From AM Require Import Lib.Bytes Model.JsonEnc Proofs.JsonEncLemmas.
Open Scope list_scope.
Open Scope nat_scope.

(* ================= the fuel is never exhausted ================= *)

Lemma pre_some l o d rest : pre l o = Some (d, rest) -> exists d', o = Some (d', rest).
Proof. destruct o as [[d' rest']|]; cbn; intros H; [|discriminate H]. inversion H; subst. exists d'. reflexivity. Qed.

Lemma dec_chars_shorter : forall n s hi d rest, length s <= n -> dec_chars hi s = Some (d, rest) -> length rest < length s.
Proof.
  induction n as [|n IH]; intros s hi d rest Hl H; destruct s as [|c r]; try discriminate H; [cbn in Hl; lia|].
  cbn [length] in *. cbn [dec_chars] in H.
  destruct (nb c =? 34)%N; [inversion H; subst; lia|].
  destruct (nb c <? 32)%N; [discriminate H|].
  destruct (nb c =? 92)%N.
  - destruct r as [|e r']; [discriminate H|]. cbn [length] in *.
    destruct (nb e =? 117)%N.
    + destruct r' as [|h1 [|h2 [|h3 [|h4 r'']]]]; try discriminate H. cbn [length] in *.
      destruct (hex4 h1 h2 h3 h4) as [u|]; [|discriminate H].
      destruct (is_hi_surrogate u).
      * apply pre_some in H. destruct H as (d' & H). apply IH in H; lia.
      * destruct (is_lo_surrogate u).
        -- destruct hi; apply pre_some in H; destruct H as (d' & H); apply IH in H; lia.
        -- apply pre_some in H. destruct H as (d' & H). apply IH in H; lia.
    + destruct (short_unescape e); [|discriminate H]. apply pre_some in H. destruct H as (d' & H). apply IH in H; lia.
  - apply pre_some in H. destruct H as (d' & H). apply IH in H; lia.
Qed.

Lemma dec_chars_shorter' s hi d rest : dec_chars hi s = Some (d, rest) -> length rest < length s.
Proof. apply (dec_chars_shorter (length s)). lia. Qed.

Definition good {A} (r : pres A) (s : str) : Prop :=
  r <> PFuel /\ forall a rest, r = POk a rest -> length rest < length s.

Lemma parse_fuel_enough : forall fuel,
  (forall s, 2 * length s < fuel -> good (parse_value fuel s) s) /\
  (forall s, 2 * length s + 1 < fuel -> good (parse_elems fuel s) s) /\
  (forall s, 2 * length s + 1 < fuel -> good (parse_members fuel s) s).
Proof.
  induction fuel as [|f (IHv & IHe & IHm)]; [repeat split; intros; lia|].
  split; [|split]; intros s Hs.
  - (* parse_value *)
    destruct s as [|c r]; cbn [parse_value].
    { split; [discriminate|intros a rest H; discriminate H]. }
    cbn [length] in Hs.
    destruct (nb c =? 34)%N.
    { destruct (dec_chars None r) as [[d rest']|] eqn:E.
      - split; [discriminate|]. intros a rest H. inversion H; subst. apply dec_chars_shorter' in E. cbn [length]. lia.
      - split; [discriminate|intros a rest H; discriminate H]. }
    destruct (nb c =? 110)%N.
    { destruct (strip_prefix (s2l "ull") r) as [rest'|] eqn:E.
      - split; [discriminate|]. intros a rest H. inversion H; subst. apply strip_prefix_some in E. subst r.
        cbn [length]. rewrite app_length. lia.
      - split; [discriminate|intros a rest H; discriminate H]. }
    destruct (nb c =? 91)%N.
    { destruct r as [|c' r']; [split; [discriminate|intros a rest H; discriminate H]|].
      destruct (nb c' =? 93)%N.
      - split; [discriminate|]. intros a rest H. inversion H; subst. cbn [length]. lia.
      - destruct (IHe (c' :: r')) as [G1 G2]; [cbn [length] in *; lia|].
        destruct (parse_elems f (c' :: r')) as [vs rest'| |]; [| |exfalso; apply G1; reflexivity].
        + split; [discriminate|]. intros a rest H. inversion H; subst. specialize (G2 _ _ eq_refl). cbn [length] in *. lia.
        + split; [discriminate|intros a rest H; discriminate H]. }
    destruct (nb c =? 123)%N.
    { destruct r as [|c' r']; [split; [discriminate|intros a rest H; discriminate H]|].
      destruct (nb c' =? 125)%N.
      - split; [discriminate|]. intros a rest H. inversion H; subst. cbn [length]. lia.
      - destruct (IHm (c' :: r')) as [G1 G2]; [cbn [length] in *; lia|].
        destruct (parse_members f (c' :: r')) as [ms rest'| |]; [| |exfalso; apply G1; reflexivity].
        + split; [discriminate|]. intros a rest H. inversion H; subst. specialize (G2 _ _ eq_refl). cbn [length] in *. lia.
        + split; [discriminate|intros a rest H; discriminate H]. }
    split; [discriminate|intros a rest H; discriminate H].
  - (* parse_elems *)
    cbn [parse_elems].
    destruct (IHv s) as [G1 G2]; [lia|].
    destruct (parse_value f s) as [v rest1| |]; [| |exfalso; apply G1; reflexivity].
    2:{ split; [discriminate|intros a rest H; discriminate H]. }
    specialize (G2 _ _ eq_refl).
    destruct rest1 as [|c r]; [split; [discriminate|intros a rest H; discriminate H]|]. cbn [length] in G2.
    destruct (nb c =? 44)%N.
    + destruct (IHe r) as [E1 E2]; [lia|].
      destruct (parse_elems f r) as [vs rest'| |]; [| |exfalso; apply E1; reflexivity].
      * split; [discriminate|]. intros a rest H. inversion H; subst. specialize (E2 _ _ eq_refl). lia.
      * split; [discriminate|intros a rest H; discriminate H].
    + destruct (nb c =? 93)%N; [|split; [discriminate|intros a rest H; discriminate H]].
      split; [discriminate|]. intros a rest H. inversion H; subst. lia.
  - (* parse_members *)
    cbn [parse_members].
    destruct s as [|c r]; [split; [discriminate|intros a rest H; discriminate H]|]. cbn [length] in Hs.
    destruct (nb c =? 34)%N; [|split; [discriminate|intros a rest H; discriminate H]].
    destruct (dec_chars None r) as [[k rest0]|] eqn:E; [|split; [discriminate|intros a rest H; discriminate H]].
    apply dec_chars_shorter' in E.
    destruct rest0 as [|c1 r1]; [split; [discriminate|intros a rest H; discriminate H]|]. cbn [length] in E.
    destruct (nb c1 =? 58)%N; [|split; [discriminate|intros a rest H; discriminate H]].
    destruct (IHv r1) as [G1 G2]; [lia|].
    destruct (parse_value f r1) as [v rest2| |]; [| |exfalso; apply G1; reflexivity].
    2:{ split; [discriminate|intros a rest H; discriminate H]. }
    specialize (G2 _ _ eq_refl).
    destruct rest2 as [|c2 r2]; [split; [discriminate|intros a rest H; discriminate H]|]. cbn [length] in G2.
    destruct (nb c2 =? 44)%N.
    + destruct (IHm r2) as [E1 E2]; [lia|].
      destruct (parse_members f r2) as [ms rest'| |]; [| |exfalso; apply E1; reflexivity].
      * split; [discriminate|]. intros a rest H. inversion H; subst. specialize (E2 _ _ eq_refl). cbn [length]. lia.
      * split; [discriminate|intros a rest H; discriminate H].
    + destruct (nb c2 =? 125)%N; [|split; [discriminate|intros a rest H; discriminate H]].
      split; [discriminate|]. intros a rest H. inversion H; subst. cbn [length]. lia.
Qed.

(* the out-of-fuel value is never returned, for ANY text *)
Theorem parse_never_out_of_fuel s : parse s <> PFuel.
Proof. unfold parse. destruct (parse_fuel_enough (S (2 * length s))) as [H _]. apply H. lia. Qed.

(* ================= parsing what the encoder wrote ================= *)

Lemma dec_chars_enc_body s rest : dec_chars None (enc_body s ++ dq :: rest) = Some (sanitize s, rest).
Proof.
  rewrite dec_enc_body. cbn [dec_chars]. rewrite nb_dq. change (34 =? 34)%N with true. cbv iota.
  cbn [pre]. rewrite app_nil_r. reflexivity.
Qed.

Lemma readable_arr l : readable (JArr l) = forallb readable l.
Proof. reflexivity. Qed.
Lemma readable_obj m : readable (JObj m) = forallb (fun kv => readable (snd kv)) m.
Proof. reflexivity. Qed.
Lemma norm_arr l : norm (JArr l) = JArr (map norm l).
Proof. reflexivity. Qed.
Lemma norm_obj m : norm (JObj m) = JObj (map (fun kv => (sanitize (fst kv), norm (snd kv))) m).
Proof. reflexivity. Qed.

(* the first byte of a value's text is one of  double quote, n, [, {  *)
Definition head_ok (s : str) : Prop :=
  exists c r, s = c :: r /\ (nb c = 34 \/ nb c = 110 \/ nb c = 91 \/ nb c = 123)%N.

Lemma enc_value_head v : readable v = true -> head_ok (enc_value v).
Proof.
  destruct v as [s|t| |l|m]; intros H.
  - exists dq, (enc_body s ++ [dq]). split; [reflexivity|left; reflexivity].
  - cbn [readable] in H. apply andb_true_iff in H. destruct H as [H _]. apply seqb_eq in H.
    exists dq, (txt_body t ++ [dq]). split; [exact H|left; reflexivity].
  - eexists _, _. split; [reflexivity|right; left; reflexivity].
  - rewrite enc_value_arr. eexists _, _. split; [reflexivity|right; right; left; reflexivity].
  - rewrite enc_value_obj. eexists _, _. split; [reflexivity|right; right; right; reflexivity].
Qed.

Lemma join_comma_cons2 x y r : join_comma (x :: y :: r) = x ++ s2l "," ++ join_comma (y :: r).
Proof. reflexivity. Qed.

Definition parses (v : jval) : Prop :=
  forall fuel rest, length (enc_value v) <= fuel -> parse_value fuel (enc_value v ++ rest) = POk (norm v) rest.

Lemma parse_elems_enc l : l <> [] -> Forall parses l ->
  forall fuel rest, length (join_comma (map enc_value l)) < fuel ->
  parse_elems fuel (join_comma (map enc_value l) ++ "]"%char :: rest) = POk (map norm l) rest.
Proof.
  induction l as [|x [|y r] IH]; intros Hne Hall fuel rest Hf; [exfalso; apply Hne; reflexivity| |].
  - inversion Hall as [|x' l' Hx _]; subst. cbn [map join_comma] in *.
    destruct fuel as [|f]; [lia|]. cbn [parse_elems].
    rewrite (Hx f ("]"%char :: rest)) by lia. reflexivity.
  - inversion Hall as [|x' l' Hx Hr]; subst.
    change (map enc_value (x :: y :: r)) with (enc_value x :: enc_value y :: map enc_value r) in *.
    rewrite join_comma_cons2 in *. rewrite !app_length in Hf. cbn [s2l list_ascii_of_string length] in Hf.
    destruct fuel as [|f]; [lia|]. cbn [parse_elems].
    rewrite <- !app_assoc. rewrite (Hx f) by lia. cbn [s2l list_ascii_of_string app].
    change (nb ","%char =? 44)%N with true. cbv iota.
    change (enc_value y :: map enc_value r) with (map enc_value (y :: r)).
    rewrite (IH ltac:(discriminate) Hr f rest) by (change (map enc_value (y :: r)) with (enc_value y :: map enc_value r); lia).
    reflexivity.
Qed.

Definition mparses (kv : str * jval) : Prop := parses (snd kv).

Lemma enc_member_length kv : length (enc_value (snd kv)) < length (enc_member kv).
Proof. unfold enc_member, enc_string. cbn [length]. rewrite !app_length. cbn [length s2l list_ascii_of_string]. lia. Qed.

Lemma parse_members_enc m : m <> [] -> Forall mparses m ->
  forall fuel rest, length (join_comma (map enc_member m)) < fuel ->
  parse_members fuel (join_comma (map enc_member m) ++ "}"%char :: rest)
  = POk (map (fun kv => (sanitize (fst kv), norm (snd kv))) m) rest.
Proof.
  induction m as [|x [|y r] IH]; intros Hne Hall fuel rest Hf; [exfalso; apply Hne; reflexivity| |].
  - inversion Hall as [|x' l' Hx _]; subst. cbn [map join_comma] in *.
    pose proof (enc_member_length x) as Hlen.
    destruct fuel as [|f]; [lia|]. cbn [parse_members].
    unfold enc_member at 1. unfold enc_string. cbn [app]. rewrite nb_dq. change (34 =? 34)%N with true. cbv iota.
    rewrite <- !app_assoc. cbn [app]. rewrite dec_chars_enc_body.
    cbn [s2l list_ascii_of_string app]. change (nb ":"%char =? 58)%N with true. cbv iota.
    rewrite (Hx f) by lia. reflexivity.
  - inversion Hall as [|x' l' Hx Hr]; subst.
    change (map enc_member (x :: y :: r)) with (enc_member x :: enc_member y :: map enc_member r) in *.
    rewrite join_comma_cons2 in *. rewrite !app_length in Hf. cbn [s2l list_ascii_of_string length] in Hf.
    pose proof (enc_member_length x) as Hlen.
    destruct fuel as [|f]; [lia|]. cbn [parse_members].
    unfold enc_member at 1. unfold enc_string. cbn [app]. rewrite nb_dq. change (34 =? 34)%N with true. cbv iota.
    rewrite <- !app_assoc. cbn [app]. rewrite dec_chars_enc_body.
    cbn [s2l list_ascii_of_string app]. change (nb ":"%char =? 58)%N with true. cbv iota.
    rewrite (Hx f) by lia.
    change (nb ","%char =? 44)%N with true. cbv iota.
    change (enc_member y :: map enc_member r) with (map enc_member (y :: r)).
    rewrite (IH ltac:(discriminate) Hr f rest) by (change (map enc_member (y :: r)) with (enc_member y :: map enc_member r); lia).
    reflexivity.
Qed.

Lemma head_not c r : head_ok (c :: r) -> (nb c =? 93)%N = false /\ (nb c =? 125)%N = false.
Proof.
  intros (c' & r' & E & H). inversion E; subst c' r'.
  split; apply N.eqb_neq; intros E'; rewrite E' in H; destruct H as [H | [H | [H | H]]]; discriminate H.
Qed.

Lemma join_head x l : head_ok x -> head_ok (join_comma (x :: l)).
Proof.
  intros (c & r & -> & H). destruct l as [|y l]; [exists c, r; split; [reflexivity|exact H]|].
  rewrite join_comma_cons2. exists c, (r ++ s2l "," ++ join_comma (y :: l)). split; [reflexivity|exact H].
Qed.

Theorem parse_value_enc v : readable v = true -> parses v.
Proof.
  induction v as [s|t| |l IH|m IH] using jval_ind'; intros Hr fuel rest Hf.
  - (* string *)
    cbn [enc_value norm] in *. unfold enc_string in *. cbn [length] in Hf. destruct fuel as [|f]; [lia|].
    cbn [app parse_value]. rewrite nb_dq. change (34 =? 34)%N with true. cbv iota.
    rewrite <- app_assoc. cbn [app]. rewrite dec_chars_enc_body. reflexivity.
  - (* a plain literal emitted verbatim *)
    cbn [readable] in Hr. apply andb_true_iff in Hr. destruct Hr as [Ht Hp]. apply seqb_eq in Ht.
    cbn [enc_value norm] in *. rewrite Ht in Hf |- * at 1. cbn [length] in Hf. destruct fuel as [|f]; [lia|].
    cbn [app parse_value]. rewrite nb_dq. change (34 =? 34)%N with true. cbv iota.
    rewrite <- app_assoc. cbn [app]. rewrite (dec_plain_app _ _ Hp).
    cbn [dec_chars]. rewrite nb_dq. change (34 =? 34)%N with true. cbv iota. cbn [pre]. rewrite app_nil_r. reflexivity.
  - (* null *)
    cbn [enc_value norm] in *. cbn in Hf. destruct fuel as [|f]; [lia|]. reflexivity.
  - (* array *)
    rewrite readable_arr in Hr. rewrite enc_value_arr in *. rewrite norm_arr.
    rewrite !app_length in Hf. cbn [s2l list_ascii_of_string length] in Hf.
    destruct fuel as [|f]; [lia|].
    destruct l as [|x l].
    + reflexivity.
    + assert (Forall parses (x :: l)) as Hall.
      { rewrite Forall_forall in *. rewrite forallb_forall in Hr. intros y Hy. apply IH; [exact Hy|apply Hr; exact Hy]. }
      assert (head_ok (join_comma (map enc_value (x :: l)))) as Hh.
      { cbn [map]. apply join_head. apply enc_value_head. rewrite forallb_forall in Hr. apply Hr. left. reflexivity. }
      destruct Hh as (c & r & Ej & Hc).
      rewrite <- !app_assoc. cbn [s2l list_ascii_of_string app parse_value].
      change (nb "["%char =? 34)%N with false. change (nb "["%char =? 110)%N with false. change (nb "["%char =? 91)%N with true. cbv iota.
      pose proof (parse_elems_enc (x :: l) ltac:(discriminate) Hall f rest ltac:(lia)) as P.
      rewrite Ej in *. cbn [app] in *.
      destruct (head_not c r (ex_intro _ c (ex_intro _ r (conj eq_refl Hc)))) as [N1 _]. rewrite N1.
      cbn [s2l list_ascii_of_string app] in P. rewrite P. reflexivity.
  - (* object *)
    rewrite readable_obj in Hr. rewrite enc_value_obj in *. rewrite norm_obj.
    rewrite !app_length in Hf. cbn [s2l list_ascii_of_string length] in Hf.
    destruct fuel as [|f]; [lia|].
    destruct m as [|x m].
    + reflexivity.
    + assert (Forall mparses (x :: m)) as Hall.
      { rewrite Forall_forall in *. rewrite forallb_forall in Hr. intros y Hy. apply IH; [exact Hy|apply Hr; exact Hy]. }
      assert (exists r, join_comma (map enc_member (x :: m)) = dq :: r) as (r & Ej).
      { cbn [map]. destruct m as [|y m']; [eexists; reflexivity|]. cbn [map]. rewrite join_comma_cons2. eexists. reflexivity. }
      rewrite <- !app_assoc. cbn [s2l list_ascii_of_string app parse_value].
      change (nb "{"%char =? 34)%N with false. change (nb "{"%char =? 110)%N with false.
      change (nb "{"%char =? 91)%N with false. change (nb "{"%char =? 123)%N with true. cbv iota.
      pose proof (parse_members_enc (x :: m) ltac:(discriminate) Hall f rest ltac:(lia)) as P.
      rewrite Ej in *. cbn [app] in *. rewrite nb_dq. change (34 =? 125)%N with false. cbv iota.
      cbn [s2l list_ascii_of_string app] in P. rewrite P. reflexivity.
Qed.

(* THE WHOLE VALUE: the text of a value parses to the value a reader sees, whatever follows it *)
Theorem parse_enc_value v : readable v = true -> parse (enc_value v) = POk (norm v) [].
Proof.
  intros H. unfold parse. rewrite <- (app_nil_r (enc_value v)) at 2.
  apply parse_value_enc; [exact H|]. lia.
Qed.

(* ---------- events ---------- *)

Lemma time_char_plain_all : forallb (fun c => implb (time_char_ok c) (plainb c)) all_bytes = true.
Proof. vm_compute. reflexivity. Qed.

Lemma time_json_readable t : time_text_ok t = true -> readable (time_json t) = true.
Proof.
  unfold time_text_ok, time_json. intros H. cbn [readable].
  assert (txt_body (dq :: t ++ [dq]) = t) as E by (unfold txt_body; cbn [tl]; apply removelast_last).
  rewrite E, seqb_refl. cbn [andb]. apply forallb_forall. intros c Hc. rewrite forallb_forall in H.
  pose proof (byte_forall _ time_char_plain_all c) as G. cbv beta in G. rewrite (H c Hc) in G. exact G.
Qed.

Lemma jmap_readable m : forallb (fun kv => readable (snd kv)) m = true -> readable (jmap m) = true.
Proof. intros H. unfold jmap. rewrite readable_obj. apply forallb_sort_kv. exact H. Qed.

Lemma jstr_map_readable m : readable (jstr_map m) = true.
Proof.
  unfold jstr_map. apply jmap_readable. apply forallb_forall. intros kv Hkv.
  apply in_map_iff in Hkv. destruct Hkv as (x & <- & _). reflexivity.
Qed.

Lemma omit_if_readable b name v : readable v = true -> forallb (fun kv => readable (snd kv)) (omit_if b name v) = true.
Proof. intros H. destruct b; cbn; [reflexivity|]. rewrite H. reflexivity. Qed.

Theorem event_json_readable e : event_readable e = true -> readable (event_json e) = true.
Proof.
  unfold event_readable. intros H.
  apply andb_true_iff in H. destruct H as [H Hd]. apply andb_true_iff in H. destruct H as [H Hs].
  apply andb_true_iff in H. destruct H as [Ht Hm].
  unfold event_json. rewrite readable_obj. rewrite !forallb_app.
  cbn [forallb fld snd]. rewrite (time_json_readable _ Ht). rewrite !readable_obj. cbn [forallb fld snd readable].
  rewrite (omit_if_readable _ _ _ (jmap_readable _ Hm)), (omit_if_readable _ _ _ (jmap_readable _ Hs)).
  rewrite (omit_if_readable _ "target" _ (jstr_map_readable _)).
  assert (readable match je_subjects e with Some m => jstr_map m | None => JNull end = true) as ->
    by (destruct (je_subjects e); [apply jstr_map_readable|reflexivity]).
  destruct (je_data e) as [d|]; cbn [forallb fld snd]; [rewrite Hd|]; reflexivity.
Qed.

(* THE WHOLE EVENT: a reader of the line gets exactly the event's JSON view *)
Theorem parse_enc_event e : event_readable e = true -> parse (enc_event e) = POk (norm (event_json e)) [].
Proof. intros H. apply parse_enc_value. apply event_json_readable. exact H. Qed.

(* ---------- the reader's view, member by member ---------- *)

Definition nkv (kv : str * jval) : str * jval := (sanitize (fst kv), norm (snd kv)).

Lemma nkv_fld name v : valid_utf8 (s2l name) = true -> nkv (fld name v) = fld name (norm v).
Proof. intros H. unfold nkv, fld. cbn [fst snd]. rewrite (sanitize_valid _ H). reflexivity. Qed.

Lemma map_nkv_omit_if b name v : valid_utf8 (s2l name) = true ->
  map nkv (omit_if b name v) = omit_if b name (norm v).
Proof. intros H. destruct b; [reflexivity|]. unfold omit_if. cbn [map]. fold (fld name v). rewrite nkv_fld by exact H. reflexivity. Qed.

Lemma txt_body_time t : txt_body (dq :: t ++ [dq]) = t.
Proof. unfold txt_body. cbn [tl]. apply removelast_last. Qed.

Theorem norm_event_json e : norm (event_json e) = reader_view e.
Proof.
  unfold event_json, reader_view. rewrite norm_obj. fold nkv. f_equal.
  rewrite !map_app. cbn [map].
  rewrite !nkv_fld by reflexivity. rewrite (map_nkv_omit_if _ "target") by reflexivity.
  rewrite !norm_obj. fold nkv. cbn [map]. rewrite !nkv_fld by reflexivity.
  rewrite !(map_nkv_omit_if _ "extra") by reflexivity.
  unfold time_json. cbn [norm]. rewrite txt_body_time.
  f_equal; [|f_equal].
  - destruct (je_subjects e); reflexivity.
  - destruct (je_data e) as [d|]; [|reflexivity]. cbn [map]. rewrite nkv_fld by reflexivity. reflexivity.
Qed.

Theorem parse_enc_event_view e : event_readable e = true -> parse (enc_event e) = POk (reader_view e) [].
Proof. intros H. rewrite parse_enc_event by exact H. rewrite norm_event_json. reflexivity. Qed.

(* the events of the two models are readable whenever the time text is *)
Lemma opt_jkv_readable k o : forallb (fun kv => readable (snd kv)) (opt_jkv k o) = true.
Proof. destruct o; reflexivity. Qed.

Lemma login_view_readable aid t e : time_text_ok t = true -> event_readable (login_view aid t e) = true.
Proof.
  intros Ht. unfold event_readable, login_view. cbn [je_logged_at je_meta_extra je_src_extra je_data].
  rewrite Ht, opt_jkv_readable, forallb_app, !opt_jkv_readable. cbn [andb].
  destruct (SshdProc.ev_data e); [reflexivity|apply jstr_map_readable].
Qed.

Lemma object_json_readable o : readable (object_json o) = true.
Proof.
  unfold object_json. rewrite readable_obj, !forallb_app.
  rewrite !omit_if_readable by reflexivity. reflexivity.
Qed.

Lemma action_view_readable t a : time_text_ok t = true -> event_readable (action_view t a) = true.
Proof.
  intros Ht. unfold event_readable, action_view. cbn [je_logged_at je_meta_extra je_src_extra je_data].
  rewrite Ht. cbn [andb]. rewrite andb_true_r. apply andb_true_iff. split.
  - rewrite forallb_app. cbn [forallb snd readable]. rewrite object_json_readable. cbn [andb].
    destruct (ToEvent.ua_args a) as [args|]; [|reflexivity]. cbn [forallb snd]. rewrite readable_arr.
    rewrite andb_true_r. apply forallb_forall. intros v Hv. apply in_map_iff in Hv. destruct Hv as (x & <- & _). reflexivity.
  - apply forallb_forall. intros kv Hkv. apply in_map_iff in Hkv. destruct Hkv as (x & <- & _). reflexivity.
Qed.
