(* Process-level theorems: a supported message rendered from its fields yields exactly the
   expected event (dispatch table GENERATED, regexes GENERATED, handlers hand-modelled). *)
From Coq Require Import Ascii String List Bool Arith ZArith NArith Lia.
Import ListNotations.
From AM Require Import Lib.Bytes Lib.Regex Proofs.RegexLemmas Gen.SshdRegexes Gen.SshdDispatch
  Model.SshdProc Proofs.SshdFields.
Open Scope string_scope.
Open Scope list_scope.

Lemma no_match_bol_lits_s (L : string) r line :
  strip_prefix (s2l L) line = None -> matches (IBol :: (lits L ++ r)) line = false.
Proof. apply no_match_bol_lits. Qed.

(* an earlier anchored guard whose literal prefix differs from the line's *)
Ltac kill re := unfold re at 1; rewrite no_match_bol_lits_s by reflexivity; cbv beta iota.

Ltac kill_prefixes :=
  repeat match goal with
  | |- context [has_prefix (s2l ?K) ?L] => change (has_prefix (s2l K) L) with false; cbv beta iota
  end.

Ltac use_find H :=
  match type of H with
  | find ?re ?line = Some ?mt =>
      unfold matches; rewrite H; cbv beta iota;
      cbn [add_metrics run_handler]; unfold h_simple; rewrite H; cbv beta iota
  end.

Definition failure_result (wok : bool) (e : event) : result :=
  {| r_writes := [e]; r_forwards := []; r_metrics := [("UnknownLogin", "Failure")];
     r_ret := if wok then RetOk else RetWriteErr |}.

(* the event expected by construction for "<who> from <source> port <port>" failures *)
Definition ev_user_src_port (c : cfg) (tok u s p : str) : event :=
  {| ev_ok := false; ev_src := s; ev_port := Some p; ev_dns := None; ev_logged_as := u;
     ev_user_id := s2l "unknown"; ev_pid := tok; ev_file_path := None; ev_key_type := None;
     ev_fingerprint := None; ev_shell := None; ev_data := []; ev_host := c_node c; ev_mid := c_mid c |}.

Theorem process_failed_password c tok u s p wok ready :
  no_nl u -> no_space s -> digits p ->
  process c tok (fmt_failed_password u s p) wok ready = failure_result wok (ev_user_src_port c tok u s p).
Proof.
  intros Hu Hs Hp. destruct (find_failed_password u s p Hu Hs Hp) as [e He].
  unfold process, dispatch. cbn [dispatch_on guard_holds].
  unfold fmt_failed_password in *. kill_prefixes.
  kill rootLoginRefusedRE. kill badOwnerOrModesForHostFileRE. kill nastyPTRRecordRE.
  kill reverseMappingCheckFailedRE. kill doesNotMapBackToAddrRE. kill maxAuthAttemptsExceededRE.
  kill revokedPublicKeyByFileRE. kill revokedPublicKeyByFileErrRE.
  use_find He. reflexivity.
Qed.

Theorem process_max_attempts c tok u s p wok ready :
  no_nl u -> no_space s -> digits p ->
  process c tok (fmt_max_attempts u s p) wok ready = failure_result wok (ev_user_src_port c tok u s p).
Proof.
  intros Hu Hs Hp. destruct (find_max_attempts u s p Hu Hs Hp) as [e He].
  unfold process, dispatch. cbn [dispatch_on guard_holds].
  unfold fmt_max_attempts in *. kill_prefixes.
  kill rootLoginRefusedRE. kill badOwnerOrModesForHostFileRE. kill nastyPTRRecordRE.
  kill reverseMappingCheckFailedRE. kill doesNotMapBackToAddrRE.
  use_find He. reflexivity.
Qed.

Theorem process_invalid_user c tok u s p wok ready :
  no_nl u -> s <> [] -> no_space s -> digits p ->
  process c tok (fmt_invalid_user u s p) wok ready = failure_result wok (ev_user_src_port c tok u s p).
Proof.
  intros Hu Hs0 Hs Hp. destruct (find_invalid_user u s p Hu Hs0 Hs Hp) as [e He].
  unfold process, dispatch. cbn [dispatch_on guard_holds].
  unfold fmt_invalid_user in *.
  change (has_prefix (s2l "Accepted publickey") (s2l "Invalid user " ++ u ++ s2l " from " ++ s ++ s2l " port " ++ p)) with false.
  change (has_prefix (s2l "Accepted password") (s2l "Invalid user " ++ u ++ s2l " from " ++ s ++ s2l " port " ++ p)) with false.
  change (has_prefix (s2l "Certificate invalid") (s2l "Invalid user " ++ u ++ s2l " from " ++ s ++ s2l " port " ++ p)) with false.
  change (has_prefix (s2l "Invalid user") (s2l "Invalid user " ++ u ++ s2l " from " ++ s ++ s2l " port " ++ p)) with true.
  cbv beta iota. cbn [add_metrics run_handler]. unfold h_invalid_user. rewrite He. reflexivity.
Qed.
