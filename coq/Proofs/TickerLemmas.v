(* time.Ticker consumed by Auditd.Read's loop (Model/Ticker.v): closed form, ticker facts, and the staleness window of
   C16 for EVERY schedule of the loop. *)
From Coq Require Import Ascii String.
From Coq Require Import List Bool Arith ZArith NArith Lia.
Import ListNotations.
From AM Require Import Model.Tracker Model.AuditIR Model.Ticker Proofs.TrackerSpec Proofs.TrackerLife Proofs.TrackerMore.
From AM Require Gen.AuditProg Gen.Consts.
Open Scope Z_scope.

(* ---------- arithmetic ---------- *)

Lemma div_ge_iff (I n x : Z) : 0 < I -> (n <= x / I <-> n * I <= x).
Proof.
  intros HI. pose proof (Z.div_mod x I ltac:(lia)) as Hd. pose proof (Z.mod_pos_bound x I HI) as Hm.
  split; intros H; nia.
Qed.

Lemma div_lt_iff (I n x : Z) : 0 < I -> (x / I < n <-> x < n * I).
Proof. intros HI. pose proof (div_ge_iff I n x HI). lia. Qed.

(* ---------- the ticker: firing ---------- *)

Lemma fire_n_full n k0 nx : fire_n n {| slot := Some k0; nxt := nx |} = {| slot := Some k0; nxt := nx + Z.of_nat n |}.
Proof.
  revert nx. induction n as [|n IH]; intros nx.
  - cbn. f_equal. lia.
  - cbn [fire_n]. unfold fire. cbn [slot nxt]. rewrite IH. f_equal. lia.
Qed.

Lemma fire_n_empty n nx : fire_n (S n) {| slot := None; nxt := nx |} = {| slot := Some nx; nxt := nx + Z.of_nat (S n) |}.
Proof. cbn [fire_n]. unfold fire. cbn [slot nxt]. rewrite fire_n_full. f_equal. lia. Qed.

(* at most one tick is buffered, and it is the EARLIEST undelivered one: firing never replaces what waits in the slot *)
Lemma fire_keeps_buffered st k : slot st = Some k -> slot (fire st) = Some k.
Proof. intros H. unfold fire. cbn. rewrite H. reflexivity. Qed.

Lemma fire_n_keeps_buffered n st k : slot st = Some k -> slot (fire_n n st) = Some k.
Proof. revert st. induction n as [|n IH]; intros st H; cbn; [exact H|]. apply IH. apply fire_keeps_buffered. exact H. Qed.

Section Tick.
  Variable I T0 : Z.
  Hypothesis Ipos : 0 < I.

  (* letting time pass with an empty slot: nothing if the next boundary is still ahead, else tick [n] is in the slot
     and everything up to f has been fired *)
  Lemma advance_empty n f :
    advance I T0 f {| slot := None; nxt := n |} =
    if T0 + n * I <=? f then {| slot := Some n; nxt := (f - T0) / I + 1 |} else {| slot := None; nxt := n |}.
  Proof.
    unfold advance, due. cbn [nxt].
    pose proof (div_ge_iff I n (f - T0) Ipos) as Hq.
    destruct (Z.leb_spec (T0 + n * I) f) as [Hle|Hgt].
    - assert (Hn : n <= (f - T0) / I) by (apply Hq; lia).
      destruct (Z.to_nat ((f - T0) / I - n + 1)) as [|m] eqn:E; [lia|].
      rewrite fire_n_empty. f_equal. lia.
    - assert (Hn : ~ n <= (f - T0) / I) by (intros Hc; apply Hq in Hc; lia).
      replace (Z.to_nat ((f - T0) / I - n + 1)) with 0%nat by lia. reflexivity.
  Qed.

  (* the step-by-step model and the closed form agree on every schedule *)
  Lemma run_closed_form frees : forall n, run I T0 {| slot := None; nxt := n |} frees = consumed_cf I T0 n frees.
  Proof.
    induction frees as [|f r IH]; intros n; [reflexivity|].
    cbn [run consumed_cf]. rewrite advance_empty.
    destruct (T0 + n * I <=? f); cbn [recv slot nxt]; [f_equal|]; apply IH.
  Qed.

  Theorem consumed_closed_form frees : consumed I T0 frees = consumed_cf I T0 1 frees.
  Proof. apply run_closed_form. Qed.

  (* ---------- facts about the cleanups of a schedule ---------- *)

  Lemma cf_in frees : forall n c k, In (c, k) (consumed_cf I T0 n frees) -> In c frees /\ n <= k /\ T0 + k * I <= c.
  Proof.
    induction frees as [|f r IH]; intros n c k H; [destruct H|].
    cbn [consumed_cf] in H. destruct (Z.leb_spec (T0 + n * I) f) as [Hle|Hgt].
    - destruct H as [H|H].
      + inversion H; subst. split; [left; reflexivity|]. lia.
      + apply IH in H. destruct H as (H1 & H2 & H3). split; [right; exact H1|]. split; [|exact H3].
        assert (n <= (f - T0) / I) by (apply div_ge_iff; [exact Ipos|lia]). lia.
    - apply IH in H. destruct H as (H1 & H2 & H3). split; [right; exact H1|]. split; assumption.
  Qed.

  (* two consecutive cleanups: the second tick is the first boundary AFTER the first consumption *)
  Lemma cf_consecutive frees : forall n pre c1 k1 c2 k2 post,
    consumed_cf I T0 n frees = pre ++ (c1, k1) :: (c2, k2) :: post ->
    k2 = (c1 - T0) / I + 1 /\ k1 < k2 /\ c1 < T0 + k2 * I <= c2 /\ T0 + k2 * I <= c1 + I.
  Proof.
    induction frees as [|f r IH]; intros n pre c1 k1 c2 k2 post H.
    - destruct pre; discriminate H.
    - cbn [consumed_cf] in H. destruct (Z.leb_spec (T0 + n * I) f) as [Hle|Hgt]; [|eapply IH; exact H].
      destruct pre as [|x pre].
      + cbn [app] in H. inversion H as [[Hc Hk Hr]]. subst f n.
        assert (Hin : In (c2, k2) (consumed_cf I T0 ((c1 - T0) / I + 1) r)) by (rewrite Hr; left; reflexivity).
        (* the head of the rest is consumed with index exactly the new state *)
        assert (Hk2 : k2 = (c1 - T0) / I + 1).
        { clear - Hr. revert Hr. generalize ((c1 - T0) / I + 1) as m. induction r as [|g r IHr]; intros m Hr; [discriminate Hr|].
          cbn [consumed_cf] in Hr. destruct (T0 + m * I <=? g); [inversion Hr; reflexivity|]. eapply IHr. exact Hr. }
        apply cf_in in Hin. destruct Hin as (_ & _ & Hc2).
        pose proof (Z.div_mod (c1 - T0) I ltac:(lia)) as Hd. pose proof (Z.mod_pos_bound (c1 - T0) I Ipos) as Hm.
        split; [exact Hk2|]. subst k2. nia.
      + cbn [app] in H. inversion H as [[Hx Hr]]. eapply IH. exact Hr.
  Qed.

  (* schedules in time order *)
  Fixpoint sorted (l : list Z) : Prop :=
    match l with [] => True | x :: r => (forall y, In y r -> x <= y) /\ sorted r end.

  (* liveness: if the loop is free at some instant f at or after the boundary of tick k, a cleanup runs in [boundary, f] *)
  Lemma cf_served frees : forall n k f, sorted frees -> n <= k -> In f frees -> T0 + k * I <= f ->
    exists c k', In (c, k') (consumed_cf I T0 n frees) /\ T0 + k * I <= c <= f.
  Proof.
    induction frees as [|g r IH]; intros n k f Hs Hn Hin Hf; [destruct Hin|].
    destruct Hs as [Hg Hs]. cbn [consumed_cf]. destruct (Z.leb_spec (T0 + n * I) g) as [Hle|Hgt].
    - destruct (Z.le_gt_cases (T0 + k * I) g) as [Hkg|Hkg].
      + exists g, n. split; [left; reflexivity|]. split; [exact Hkg|].
        destruct Hin as [->|Hin]; [lia|apply Hg; exact Hin].
      + assert (Hf' : In f r) by (destruct Hin as [->|Hin]; [lia|exact Hin]).
        assert (Hn' : (g - T0) / I + 1 <= k).
        { assert ((g - T0) / I < k) by (apply div_lt_iff; [exact Ipos|lia]). lia. }
        destruct (IH _ k f Hs Hn' Hf' Hf) as (c & k' & H1 & H2). exists c, k'. split; [right; exact H1|exact H2].
    - assert (Hf' : In f r).
      { destruct Hin as [->|Hin]; [|exact Hin]. assert (n * I <= k * I) by nia. lia. }
      destruct (IH _ k f Hs Hn Hf' Hf) as (c & k' & H1 & H2). exists c, k'. split; assumption.
  Qed.

  (* the second of two consecutive cleanups runs at the FIRST free instant at or after its tick's boundary *)
  Lemma cf_first_free frees : forall n pre c k post, sorted frees ->
    consumed_cf I T0 n frees = pre ++ (c, k) :: post ->
    forall f, In f frees -> T0 + k * I <= f -> c <= f.
  Proof.
    induction frees as [|g r IH]; intros n pre c k post Hs H f Hin Hf.
    - destruct pre; discriminate H.
    - destruct Hs as [Hg Hs]. cbn [consumed_cf] in H. destruct (Z.leb_spec (T0 + n * I) g) as [Hle|Hgt].
      + destruct pre as [|x pre].
        * cbn [app] in H. inversion H; subst. destruct Hin as [->|Hin]; [lia|apply Hg; exact Hin].
        * cbn [app] in H. inversion H as [[Hx Hr]].
          assert (Hck : In (c, k) (consumed_cf I T0 ((g - T0) / I + 1) r)) by (rewrite Hr; apply in_elt).
          apply cf_in in Hck. destruct Hck as (Hcr & Hnk & _).
          destruct Hin as [->|Hin]; [|eapply IH; eassumption].
          (* f = g is before the boundary of tick k *)
          assert ((f - T0) / I < k) by lia. apply div_lt_iff in H0; [lia|exact Ipos].
      + assert (Hck : In (c, k) (consumed_cf I T0 n r)) by (rewrite H; apply in_elt).
        apply cf_in in Hck. destruct Hck as (_ & Hnk & _).
        destruct Hin as [->|Hin]; [|eapply IH; eassumption].
        assert (n * I <= k * I) by nia. lia.
  Qed.

  (* hence, if the loop is free at some instant of [boundary, boundary + d], consecutive cleanups are at most I + d apart *)
  Lemma cf_gap frees n pre c1 k1 c2 k2 post d : sorted frees ->
    consumed_cf I T0 n frees = pre ++ (c1, k1) :: (c2, k2) :: post ->
    (exists f, In f frees /\ T0 + k2 * I <= f <= T0 + k2 * I + d) ->
    c1 < c2 <= c1 + I + d.
  Proof.
    intros Hs H (f & Hin & Hf).
    destruct (cf_consecutive _ _ _ _ _ _ _ _ H) as (_ & _ & Hb & Hb').
    assert (H' : consumed_cf I T0 n frees = (pre ++ [(c1, k1)]) ++ (c2, k2) :: post) by (rewrite <- app_assoc; exact H).
    pose proof (cf_first_free _ _ _ _ _ _ Hs H' f Hin ltac:(lia)). lia.
  Qed.

  (* schedules compose: the cleanups of a schedule are an initial segment of those of any extension *)
  Lemma cf_app frees1 : forall n frees2, exists m,
    consumed_cf I T0 n (frees1 ++ frees2) = consumed_cf I T0 n frees1 ++ consumed_cf I T0 m frees2.
  Proof.
    induction frees1 as [|f r IH]; intros n frees2; [exists n; reflexivity|].
    cbn [app consumed_cf]. destruct (T0 + n * I <=? f).
    - destruct (IH ((f - T0) / I + 1) frees2) as [m Hm]. exists m. rewrite Hm. reflexivity.
    - apply IH.
  Qed.
End Tick.

(* ---------- what the cleanups do to a waiting half ---------- *)

Section Window.
  Variable s : N.
  Variable p : Z.
  Variable I : Z.

  Definition late (a : Z) (cs : list (Z * Z)) : bool := existsb (fun ck => a + I <? fst ck) cs.

  Lemma ops_clean cs : prun s p PClean (ops_of I cs) = (PClean, []).
  Proof.
    induction cs as [|[c k] r IH]; [reflexivity|].
    change (ops_of I ((c, k) :: r)) with (CleanSess (c - I) :: CleanLogins (c - I) :: ops_of I r).
    cbn [prun pstep]. rewrite IH. reflexivity.
  Qed.

  (* exact: a session half that arrived at [a] is discarded by the cleanups iff one of them runs after a + I *)
  Lemma ops_held a evs cs :
    prun s p (PHeld a evs) (ops_of I cs) = if late a cs then (PClean, []) else (PHeld a evs, []).
  Proof.
    induction cs as [|[c k] r IH]; [reflexivity|].
    change (ops_of I ((c, k) :: r)) with (CleanSess (c - I) :: CleanLogins (c - I) :: ops_of I r).
    change (late a ((c, k) :: r)) with ((a + I <? c) || late a r).
    cbn [prun pstep].
    destruct (Z.ltb_spec a (c - I)) as [H|H]; destruct (Z.ltb_spec (a + I) c) as [H'|H']; try lia; cbn [orb].
    - rewrite ops_clean. reflexivity.
    - rewrite IH. destruct (late a r); reflexivity.
  Qed.

  Lemma ops_parked l cs :
    prun s p (PParked l) (ops_of I cs) = if late (l_at l) cs then (PClean, []) else (PParked l, []).
  Proof.
    induction cs as [|[c k] r IH]; [reflexivity|].
    change (ops_of I ((c, k) :: r)) with (CleanSess (c - I) :: CleanLogins (c - I) :: ops_of I r).
    change (late (l_at l) ((c, k) :: r)) with ((l_at l + I <? c) || late (l_at l) r).
    cbn [prun pstep].
    destruct (Z.ltb_spec (l_at l) (c - I)) as [H|H]; destruct (Z.ltb_spec (l_at l + I) c) as [H'|H']; try lia; cbn [orb].
    - rewrite ops_clean. reflexivity.
    - rewrite IH. destruct (late (l_at l) r); reflexivity.
  Qed.

  Lemma late_false a cs : (forall c k, In (c, k) cs -> c <= a + I) -> late a cs = false.
  Proof.
    intros H. unfold late. destruct (existsb _ cs) eqn:E; [|reflexivity].
    apply existsb_exists in E. destruct E as ([c k] & Hin & Hlt). cbn [fst] in Hlt. apply Z.ltb_lt in Hlt.
    specialize (H _ _ Hin). lia.
  Qed.

  Lemma late_true a cs c k : In (c, k) cs -> a + I < c -> late a cs = true.
  Proof. intros Hin Hc. apply existsb_exists. exists (c, k). split; [exact Hin|]. cbn. apply Z.ltb_lt. exact Hc. Qed.

  Lemma keeps_held a evs cs : (forall c k, In (c, k) cs -> c <= a + I) -> keeps_run s p (PHeld a evs) (ops_of I cs).
  Proof.
    induction cs as [|[c k] r IH]; intros H; [exact Logic.I|].
    change (ops_of I ((c, k) :: r)) with (CleanSess (c - I) :: CleanLogins (c - I) :: ops_of I r).
    cbn [keeps_run keeps pstep].
    assert (Hc : c <= a + I) by (apply (H c k); left; reflexivity).
    destruct (Z.ltb_spec a (c - I)); [lia|]. cbn [fst].
    split; [lia|]. split; [exact Logic.I|]. apply IH. intros c' k' Hin. apply (H c' k'). right. exact Hin.
  Qed.

  Lemma keeps_parked l cs : (forall c k, In (c, k) cs -> c <= l_at l + I) -> keeps_run s p (PParked l) (ops_of I cs).
  Proof.
    induction cs as [|[c k] r IH]; intros H; [exact Logic.I|].
    change (ops_of I ((c, k) :: r)) with (CleanSess (c - I) :: CleanLogins (c - I) :: ops_of I r).
    cbn [keeps_run keeps pstep].
    assert (Hc : c <= l_at l + I) by (apply (H c k); left; reflexivity).
    split; [exact Logic.I|]. cbn [fst].
    destruct (Z.ltb_spec (l_at l) (c - I)); [lia|]. cbn [fst].
    split; [lia|]. apply IH. intros c' k' Hin. apply (H c' k'). right. exact Hin.
  Qed.

  Hypothesis Ipos : 0 < I.

  (* KEEPS, any schedule: as long as the clock has not passed a + I nothing the loop does discards the half *)
  Theorem ticker_keeps T0 frees :
    (forall a evs, (forall c k, In (c, k) (consumed I T0 frees) -> c <= a + I) ->
       prun s p (PHeld a evs) (cleanup_ops I T0 frees) = (PHeld a evs, []) /\
       keeps_run s p (PHeld a evs) (cleanup_ops I T0 frees)) /\
    (forall l, (forall c k, In (c, k) (consumed I T0 frees) -> c <= l_at l + I) ->
       prun s p (PParked l) (cleanup_ops I T0 frees) = (PParked l, []) /\
       keeps_run s p (PParked l) (cleanup_ops I T0 frees)).
  Proof.
    split.
    - intros a evs H. unfold cleanup_ops. rewrite ops_held, (late_false _ _ H). split; [reflexivity|apply keeps_held; exact H].
    - intros l H. unfold cleanup_ops. rewrite ops_parked, (late_false _ _ H). split; [reflexivity|apply keeps_parked; exact H].
  Qed.

  Corollary ticker_keeps_until T0 frees a evs :
    (forall f, In f frees -> f <= a + I) ->
    prun s p (PHeld a evs) (cleanup_ops I T0 frees) = (PHeld a evs, []) /\
    keeps_run s p (PHeld a evs) (cleanup_ops I T0 frees).
  Proof.
    intros H. apply ticker_keeps. intros c k Hin. rewrite consumed_closed_form in Hin by exact Ipos.
    apply (cf_in I T0 Ipos) in Hin. apply H. tauto.
  Qed.

  (* DROPS: the processor started at or before a; if the loop is free at some instant of [t, t + d] for every t in
     (a + I, a + 2I], a cleanup runs at some c in (a + I, a + 2I + d] and the half is gone *)
  Lemma ticker_cleanup_in_window T0 frees a d :
    sorted frees -> T0 <= a ->
    (forall t, a + I < t <= a + 2 * I -> exists f, In f frees /\ t <= f <= t + d) ->
    exists c k, In (c, k) (consumed I T0 frees) /\ a + I < c <= a + 2 * I + d.
  Proof.
    intros Hs Ha Hfree.
    destruct (tick_in_window I Ipos T0 a Ha) as (k & Hk0 & Hk).
    destruct (Hfree _ Hk) as (f & Hin & Hf).
    assert (Hk1 : 1 <= k) by nia.
    destruct (cf_served I T0 Ipos frees 1 k f Hs Hk1 Hin ltac:(lia)) as (c & k' & Hc & Hb).
    exists c, k'. rewrite consumed_closed_form by exact Ipos. split; [exact Hc|lia].
  Qed.

  Theorem ticker_drops T0 frees d : sorted frees ->
    (forall a evs, T0 <= a ->
       (forall t, a + I < t <= a + 2 * I -> exists f, In f frees /\ t <= f <= t + d) ->
       (exists c k, In (c, k) (consumed I T0 frees) /\ a + I < c <= a + 2 * I + d) /\
       prun s p (PHeld a evs) (cleanup_ops I T0 frees) = (PClean, [])) /\
    (forall l, T0 <= l_at l ->
       (forall t, l_at l + I < t <= l_at l + 2 * I -> exists f, In f frees /\ t <= f <= t + d) ->
       (exists c k, In (c, k) (consumed I T0 frees) /\ l_at l + I < c <= l_at l + 2 * I + d) /\
       prun s p (PParked l) (cleanup_ops I T0 frees) = (PClean, [])).
  Proof.
    intros Hs. split.
    - intros a evs Ha Hfree. destruct (ticker_cleanup_in_window T0 frees a d Hs Ha Hfree) as (c & k & Hin & Hc).
      split; [exists c, k; tauto|]. unfold cleanup_ops. rewrite ops_held, (late_true a _ c k Hin); [reflexivity|lia].
    - intros l Ha Hfree. destruct (ticker_cleanup_in_window T0 frees (l_at l) d Hs Ha Hfree) as (c & k & Hin & Hc).
      split; [exists c, k; tauto|]. unfold cleanup_ops. rewrite ops_parked, (late_true (l_at l) _ c k Hin); [reflexivity|lia].
  Qed.

  (* the cleanup that discards it is the first one after a + I: exact characterisation for every schedule *)
  Theorem ticker_window_exact T0 frees a evs :
    prun s p (PHeld a evs) (cleanup_ops I T0 frees) =
    if existsb (fun ck => a + I <? fst ck) (consumed I T0 frees) then (PClean, []) else (PHeld a evs, []).
  Proof. apply ops_held. Qed.
End Window.

(* ---------- the same facts about [consumed], the step-by-step model ---------- *)

Section Consumed.
  Variable I T0 : Z.
  Hypothesis Ipos : 0 < I.

  Theorem consumed_facts frees c k : In (c, k) (consumed I T0 frees) -> In c frees /\ 1 <= k /\ T0 + k * I <= c.
  Proof. rewrite consumed_closed_form by exact Ipos. apply cf_in. exact Ipos. Qed.

  Theorem consumed_consecutive frees pre c1 k1 c2 k2 post :
    consumed I T0 frees = pre ++ (c1, k1) :: (c2, k2) :: post ->
    k2 = (c1 - T0) / I + 1 /\ k1 < k2 /\ c1 < T0 + k2 * I <= c2 /\ T0 + k2 * I <= c1 + I.
  Proof. rewrite consumed_closed_form by exact Ipos. apply cf_consecutive. exact Ipos. Qed.

  Theorem consumed_served frees k f : sorted frees -> 1 <= k -> In f frees -> T0 + k * I <= f ->
    exists c k', In (c, k') (consumed I T0 frees) /\ T0 + k * I <= c <= f.
  Proof. rewrite consumed_closed_form by exact Ipos. apply cf_served. exact Ipos. Qed.

  Theorem consumed_first_free frees pre c k post : sorted frees ->
    consumed I T0 frees = pre ++ (c, k) :: post -> forall f, In f frees -> T0 + k * I <= f -> c <= f.
  Proof. rewrite consumed_closed_form by exact Ipos. apply cf_first_free. exact Ipos. Qed.

  Theorem consumed_gap frees pre c1 k1 c2 k2 post d : sorted frees ->
    consumed I T0 frees = pre ++ (c1, k1) :: (c2, k2) :: post ->
    (exists f, In f frees /\ T0 + k2 * I <= f <= T0 + k2 * I + d) ->
    c1 < c2 <= c1 + I + d.
  Proof. rewrite consumed_closed_form by exact Ipos. apply cf_gap. exact Ipos. Qed.

  Theorem consumed_prefix frees1 frees2 : exists rest, consumed I T0 (frees1 ++ frees2) = consumed I T0 frees1 ++ rest.
  Proof.
    rewrite !consumed_closed_form by exact Ipos. destruct (cf_app I T0 frees1 1 frees2) as [m Hm].
    eexists. exact Hm.
  Qed.
End Consumed.

(* dropped, then silent: after the discarding cleanup nothing of the session is emitted until a new LOGIN record of it *)
Theorem ticker_drops_then_silent (s : N) (p : Z) (I : Z) (Ipos : 0 < I) T0 frees d a evs B :
  sorted frees -> T0 <= a ->
  (forall t, a + I < t <= a + 2 * I -> exists f, In f frees /\ t <= f <= t + d) ->
  (forall o, In o B -> is_rec s p o = false) ->
  snd (prun s p (PHeld a evs) (cleanup_ops I T0 frees ++ B)) = [] /\
  (fst (prun s p (PHeld a evs) (cleanup_ops I T0 frees ++ B)) = PClean \/
   exists l, fst (prun s p (PHeld a evs) (cleanup_ops I T0 frees ++ B)) = PParked l).
Proof.
  intros Hs Ha Hfree HB.
  destruct (ticker_drops s p I Ipos T0 frees d Hs) as [Hd _]. destruct (Hd a evs Ha Hfree) as [_ Hrun].
  rewrite prun_app, Hrun.
  destruct (dropped_stays_silent s p B PClean (or_introl eq_refl) HB) as [H1 H2].
  destruct (prun s p PClean B) as [ph2 o2]. cbn [fst snd] in *. subst o2. split; [reflexivity|exact H2].
Qed.

(* ---------- the generated Read: period and tick arm ---------- *)

Definition gen_I : Z := Gen.Consts.staleDataCleanupInterval_ns.

Lemma read_ticker_gen :
  exists body, read_ticker (pg_read Gen.AuditProg.gen_audit) = Some (gen_I, body) /\
               forall now, arm_ops [] now body = Some (cleanup_at gen_I now).
Proof.
  eexists. split; [vm_compute; reflexivity|].
  intros now. cbn [arm_ops teval_z get]. unfold cleanup_at, gen_I, Gen.Consts.staleDataCleanupInterval_ns.
  cbn [String.eqb Ascii.eqb Bool.eqb get]. reflexivity.
Qed.

Lemma arm_ops_all_spec body per : (forall now, arm_ops [] now body = Some (cleanup_at per now)) ->
  forall cs, arm_ops_all body cs = Some (ops_of per cs).
Proof.
  intros H cs. induction cs as [|[c k] r IH]; [reflexivity|].
  cbn [arm_ops_all ops_of flat_map fst]. rewrite H. unfold ops_of in IH. rewrite IH. reflexivity.
Qed.

(* the operations the GENERATED Read performs under a schedule are [cleanup_ops] with the generated period:
   cut-off = consumption time - interval.  A changed cut-off expression or period breaks this proof. *)
Theorem cleanups_from_source T0 frees :
  cleanup_ops_gen (pg_read Gen.AuditProg.gen_audit) T0 frees = Some (cleanup_ops gen_I T0 frees).
Proof.
  destruct read_ticker_gen as (body & Hr & Hb). unfold cleanup_ops_gen. rewrite Hr.
  unfold cleanup_ops. apply arm_ops_all_spec. exact Hb.
Qed.

(* ---------- the variant with cut-off = time of the previous cleanup is wrong ---------- *)

(* period 10, started at 0; the loop is held up from before tick 1 (at 10) until 17, then punctual: cleanups at 17 and 20.
   A LOGIN record that arrived at 12 is 8 < 10 old at time 20: the variant discards it (cut-off 17), the source keeps it. *)
Definition refute_frees : list Z := [17; 20].

Lemma previous_cleanup_cutoff_refuted :
  exists (I T0 a : Z) (frees : list Z) (evs : list aev),
    0 < I /\ T0 <= a /\ sorted frees /\
    (forall c k, In (c, k) (consumed I T0 frees) -> c <= a + I) /\
    fst (prun 3 30 (PHeld a evs) (cleanup_ops_prev I T0 frees)) = PClean /\
    fst (prun 3 30 (PHeld a evs) (cleanup_ops I T0 frees)) = PHeld a evs.
Proof.
  exists 10, 0, 12, refute_frees, [].
  split; [lia|]. split; [lia|]. split; [cbn; intuition lia|].
  split; [|split; vm_compute; reflexivity].
  intros c k H. vm_compute in H. destruct H as [H|[H|[]]]; inversion H; subst; lia.
Qed.

Print Assumptions consumed_closed_form.
Print Assumptions consumed_gap.
Print Assumptions ticker_drops_then_silent.
Print Assumptions ticker_keeps.
Print Assumptions ticker_drops.
Print Assumptions cleanups_from_source.
Print Assumptions previous_cleanup_cutoff_refuted.
