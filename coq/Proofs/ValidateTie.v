(* Validate, as regenerated from internal/common/login.go, accepts exactly what Model/Tracker.v's [validate]
   accepts: Source not nil, PID > 0, CredUserID not empty — the model's l_valid is "Source not nil and CredUserID
   not empty". *)
From Coq Require Import List Bool ZArith Lia.
Import ListNotations.
From AM Require Import Model.ValidateIR Gen.LoginValidate Model.Tracker.
Open Scope Z_scope.

Definition abs_login (id : nat) (at_ : Z) (l : vlogin) : login :=
  {| l_id := id; l_pid := v_pid l; l_at := at_; l_valid := negb (v_source_nil l) && negb (v_cred_empty l) |}.

Theorem validate_from_source : forall id at_ l,
  run_validate gen_validate l = validate (abs_login id at_ l).
Proof.
  intros id at_ [sn pid ce]. unfold validate, abs_login. simpl.
  destruct sn; simpl; [reflexivity|].
  destruct (pid <=? 0) eqn:P; destruct (0 <? pid) eqn:Q; try lia; destruct ce; reflexivity.
Qed.

(* spelled out *)
Theorem validate_spec : forall l,
  run_validate gen_validate l = true <-> v_source_nil l = false /\ 0 < v_pid l /\ v_cred_empty l = false.
Proof.
  intros [sn pid ce]. simpl.
  destruct sn; simpl.
  { split; [discriminate|]. intros [H _]. discriminate. }
  destruct (pid <=? 0) eqn:P; simpl.
  { split; [discriminate|]. intros [_ [H _]]. lia. }
  destruct ce; simpl.
  { split; [discriminate|]. intros [_ [_ H]]. discriminate. }
  split; [|reflexivity]. intros _. repeat split. lia.
Qed.
