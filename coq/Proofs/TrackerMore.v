(* Further consequences: ended sessions (C09), cleanup exactness and the staleness
   window (C16), identical identity within a session (C14). *)
From Coq Require Import List Bool Arith ZArith NArith Lia.
Import ListNotations.
From AM Require Import Lib.Assoc Model.Tracker Proofs.TrackerBasics Proofs.TrackerInv
  Proofs.TrackerSpec Proofs.TrackerLife.

Local Notation NS := N.eqb_spec.
Local Notation ZS := Z.eqb_spec.

(* ---------- with a writer that never fails, a correlated session holds no events ---------- *)

Definition Inv2 (st : tstate) : Prop :=
  forall s u, In (s, u) (sess st) -> unbound u = false -> u_cached u = [].

Lemma Inv2_init b : Inv2 (tinit b).
Proof. intros s u []. Qed.

Lemma step_inv2 st o st' out r :
  wb st = None -> Inv2 st -> tstep st o = (st', out, r) -> Inv2 st'.
Proof.
  intros Hwb H2 Hs s u Hin Hub.
  destruct o as [l c|ev now|t|t]; cbn [tstep] in Hs.
  - unfold remote_login in Hs. destruct (negb (validate l)); [injection Hs as <- _ _; eapply H2; eauto|].
    destruct (pick c (candidates (l_pid l) (sess st))) as [[s0 u0]|].
    + rewrite Hwb, write_all_none in Hs. destruct (has_disp (u_cached u0)); injection Hs as <- _ _; cbn [sess] in Hin.
      * apply (in_adel _ NS) in Hin. eapply H2; [apply Hin|exact Hub].
      * apply (in_aset _ NS) in Hin. destruct Hin as [[-> ->]|[_ Hin]]; [reflexivity|eapply H2; eauto].
    + injection Hs as <- _ _. cbn [sess] in Hin. eapply H2; eauto.
  - unfold audit_event in Hs. destruct (a_ses ev) as [| |s0]; try (injection Hs as <- _ _; eapply H2; eauto).
    destruct (aget N.eqb s0 (sess st)) as [u0|] eqn:Eg.
    + unfold audit_with_session in Hs. destruct (u_login u0) as [l|] eqn:El.
      * rewrite Hwb, write_all_none in Hs. cbn [write1] in Hs. injection Hs as <- _ _. cbn [sess] in Hin.
        destruct (is_disp (a_type ev)).
        -- apply (in_adel _ NS) in Hin. eapply H2; [apply Hin|exact Hub].
        -- apply (in_aset _ NS) in Hin. destruct Hin as [[-> ->]|[_ Hin]]; [reflexivity|eapply H2; eauto].
      * injection Hs as <- _ _. cbn [sess] in Hin. apply (in_aset _ NS) in Hin.
        destruct Hin as [[-> ->]|[_ Hin]]; [discriminate|eapply H2; eauto].
    + unfold audit_without_session in Hs. destruct (negb (is_login (a_type ev))); [injection Hs as <- _ _; eapply H2; eauto|].
      destruct (a_pid ev) as [q|]; [|injection Hs as <- _ _; eapply H2; eauto].
      destruct (aget Z.eqb q (parked st)) as [l|].
      * rewrite Hwb in Hs. cbn [write1] in Hs. injection Hs as <- _ _. cbn [sess] in Hin.
        apply (in_aset _ NS) in Hin. destruct Hin as [[-> ->]|[_ Hin]]; [reflexivity|eapply H2; eauto].
      * injection Hs as <- _ _. cbn [sess] in Hin. apply (in_aset _ NS) in Hin.
        destruct Hin as [[-> ->]|[_ Hin]]; [discriminate|eapply H2; eauto].
  - injection Hs as <- _ _. cbn in Hin. apply filter_In in Hin. eapply H2; [apply Hin|exact Hub].
  - injection Hs as <- _ _. cbn in Hin. eapply H2; eauto.
Qed.

Lemma trun_inv2 st h st' out : wb st = None -> Inv2 st -> trun st h = (st', out) -> Inv2 st'.
Proof.
  revert st st' out. induction h as [|o r IH]; intros st st' out Hw H2 E; cbn in E.
  - injection E as <- _. exact H2.
  - destruct (tstep st o) as [[st1 o1] res] eqn:Es. destruct (trun st1 r) as [st2 o2] eqn:Er.
    injection E as <- _. eapply IH; [| |exact Er].
    + eapply step_wb_none; eauto.
    + eapply step_inv2; eauto.
Qed.

Lemma final_inv2 h : Inv2 (final h).
Proof.
  unfold final. destruct (trun (tinit None) h) as [st out] eqn:E.
  eapply trun_inv2; [| |exact E]; [reflexivity|apply Inv2_init].
Qed.

Lemma final_wb h : wb (final h) = None.
Proof.
  unfold final. destruct (trun (tinit None) h) as [st out] eqn:E. eapply trun_wb_none; [|exact E]. reflexivity.
Qed.

(* ---------- C09: the step that emits a session's credential-disposal record removes the session ---------- *)

Theorem disposal_releases h o st' out r :
  tstep (final h) o = (st', out, r) ->
  forall l e s, In (l, e) out -> is_disp (a_type e) = true -> a_ses e = SId s ->
  aget N.eqb s (sess st') = None.
Proof.
  intros Hs l e s Hin Hd Hse.
  pose proof (final_inv h) as HI. pose proof (final_inv2 h) as H2. pose proof (final_wb h) as Hwb.
  set (st := final h) in *.
  destruct o as [l0 c|ev now|t|t]; cbn [tstep] in Hs.
  - unfold remote_login in Hs. destruct (negb (validate l0)); [injection Hs as _ <- _; contradiction|].
    destruct (pick c (candidates (l_pid l0) (sess st))) as [[s0 u0]|] eqn:Ep; [|injection Hs as _ <- _; contradiction].
    apply pick_in in Ep. apply candidates_in in Ep. destruct Ep as (Hin0 & _ & _).
    rewrite Hwb, write_all_none in Hs.
    assert (He : In e (u_cached u0)).
    { destruct (has_disp (u_cached u0)); injection Hs as _ <- _; apply in_map_iff in Hin;
        destruct Hin as (x & [= _ <-] & Hx); exact Hx. }
    destruct (inv_sess _ _ HI _ _ Hin0) as (_ & _ & Hc). destruct (Hc e He) as [Hs0 _].
    assert (s0 = s) by congruence. subst s0.
    assert (Hhd : has_disp (u_cached u0) = true).
    { unfold has_disp. apply existsb_exists. exists e. tauto. }
    rewrite Hhd in Hs. injection Hs as <- _ _. cbn [sess]. apply aget_adel_same.
  - unfold audit_event in Hs. destruct (a_ses ev) as [| |s0] eqn:Es; try (injection Hs as _ <- _; contradiction).
    destruct (aget N.eqb s0 (sess st)) as [u0|] eqn:Eg.
    + unfold audit_with_session in Hs. destruct (u_login u0) as [l1|] eqn:El; [|injection Hs as _ <- _; contradiction].
      pose proof (aget_in _ NS _ _ _ Eg) as Hin0.
      assert (Hc : u_cached u0 = []) by (eapply H2; [exact Hin0|unfold unbound; rewrite El; reflexivity]).
      rewrite Hc, Hwb in Hs. cbn [write_all write1 app] in Hs. injection Hs as <- <- _.
      destruct Hin as [[= <- <-]|[]]. rewrite Hd. cbn [sess].
      assert (s0 = s) by congruence. subst s0. apply aget_adel_same.
    + unfold audit_without_session in Hs. destruct (is_login (a_type ev)) eqn:Et; cbn [negb] in Hs;
        [|injection Hs as _ <- _; contradiction].
      destruct (a_pid ev) as [q|]; [|injection Hs as _ <- _; contradiction].
      destruct (aget Z.eqb q (parked st)) as [l1|]; [|injection Hs as _ <- _; contradiction].
      rewrite Hwb in Hs. cbn [write1] in Hs. injection Hs as _ <- _. destruct Hin as [[= <- <-]|[]].
      destruct (a_type ev); cbn in *; discriminate.
  - injection Hs as _ <- _. contradiction.
  - injection Hs as _ <- _. contradiction.
Qed.

(* a login is never bound to a session that already has one *)
Theorem bound_not_rebound h l c st' out r s u :
  tstep (final h) (RemoteLogin l c) = (st', out, r) ->
  aget N.eqb s (sess (final h)) = Some u -> unbound u = false ->
  aget N.eqb s (sess st') = Some u /\ TrackerSpec.projs s out = [].
Proof.
  intros Hs Hg Hub.
  destruct (frame_login_other s 0%Z h (final h) l c st' out r (final_inv h) Hs) as (F1 & F2 & _).
  - intros u' Hu'. rewrite Hg in Hu'. injection Hu' as <-. left. exact Hub.
  - split; [congruence|exact F2].
Qed.

(* a stray event of a session that is not tracked (never opened, or ended) is ignored *)
Theorem stray_ignored st ev now s :
  a_ses ev = SId s -> aget N.eqb s (sess st) = None -> is_login (a_type ev) = false ->
  tstep st (Audit ev now) = (st, [], ROk).
Proof.
  intros Hs Hg Ht. cbn. unfold audit_event. rewrite Hs, Hg. unfold audit_without_session. rewrite Ht. reflexivity.
Qed.

(* ---------- C02 / C09 from an arbitrary reachable state ---------- *)

Theorem lifecycle_from s p A B :
  rel s p PClean (final A) -> allowed_run s p PClean B -> keeps_run s p PClean B ->
  exists outB,
    TrackerSpec.projs s (outs (A ++ B)) = TrackerSpec.projs s (outs A) ++ outB /\
    let E := events_from_rec s p B in
    (rec_seen s p B && login_seen p B = false -> outB = []) /\
    (rec_seen s p B && login_seen p B = true ->
       exists l k, In_login l B /\ login_p p l = true /\
                   outB = map (pair l) (firstn k E) /\ length (take_until_disp E) <= k /\ k <= length E).
Proof.
  intros Hrel Hal Hk. exists (snd (prun s p PClean B)).
  destruct (refine_from s p A B Hrel Hal) as [H1 _]. split; [exact H1|].
  apply machine_once_in_order; assumption.
Qed.

(* ---------- C16: cleanup is exact ---------- *)

Theorem clean_sess_exact st t :
  (forall s u, In (s, u) (sess (clean_sess st t)) <->
               In (s, u) (sess st) /\ (unbound u = false \/ (t <= u_added u)%Z)) /\
  parked (clean_sess st t) = parked st /\ wb (clean_sess st t) = wb st.
Proof.
  split; [|split; reflexivity]. intros s u. cbn. rewrite filter_In. cbn.
  rewrite negb_true_iff, andb_false_iff, Z.ltb_ge. tauto.
Qed.

Theorem clean_logins_exact st t :
  (forall p l, In (p, l) (parked (clean_logins st t)) <->
               In (p, l) (parked st) /\ (t <= l_at l)%Z) /\
  sess (clean_logins st t) = sess st /\ wb (clean_logins st t) = wb st.
Proof.
  split; [|split; reflexivity]. intros p l. cbn. rewrite filter_In. cbn.
  rewrite negb_true_iff, Z.ltb_ge. tauto.
Qed.

(* The audit processor calls both cleanups with cut-off (tick - I) at every tick of a
   ticker of period I. *)
Definition tick_ops (I tick : Z) : list top := [CleanSess (tick - I); CleanLogins (tick - I)].

Section Window.
  Variable s : N.
  Variable p : Z.
  Variable I : Z.
  Hypothesis Ipos : (0 < I)%Z.

  (* a waiting half that arrived at time a survives every tick up to a + I *)
  Theorem window_keeps_session a evs tick :
    (tick <= a + I)%Z ->
    prun s p (PHeld a evs) (tick_ops I tick) = (PHeld a evs, []) /\
    keeps_run s p (PHeld a evs) (tick_ops I tick).
  Proof.
    intros H. cbn. destruct (Z.ltb_spec a (tick - I)); [lia|]. cbn. split; [reflexivity|]. lia.
  Qed.

  Theorem window_keeps_login l tick :
    (tick <= l_at l + I)%Z ->
    prun s p (PParked l) (tick_ops I tick) = (PParked l, []) /\
    keeps_run s p (PParked l) (tick_ops I tick).
  Proof.
    intros H. cbn. destruct (Z.ltb_spec (l_at l) (tick - I)); [lia|]. cbn. split; [reflexivity|]. lia.
  Qed.

  (* ... and is discarded by the first tick after a + I *)
  Theorem window_drops_session a evs tick :
    (a + I < tick)%Z -> prun s p (PHeld a evs) (tick_ops I tick) = (PClean, []).
  Proof. intros H. cbn. destruct (Z.ltb_spec a (tick - I)); [reflexivity|lia]. Qed.

  Theorem window_drops_login l tick :
    (l_at l + I < tick)%Z -> prun s p (PParked l) (tick_ops I tick) = (PClean, []).
  Proof. intros H. cbn. destruct (Z.ltb_spec (l_at l) (tick - I)); [reflexivity|lia]. Qed.

  (* ticks at T0 + k*I, processor started at or before a: some tick falls in (a + I, a + 2I] *)
  Theorem tick_in_window T0 a :
    (T0 <= a)%Z -> exists k, (0 <= k)%Z /\ (a + I < T0 + k * I <= a + 2 * I)%Z.
  Proof.
    intros H. exists ((a - T0) / I + 2)%Z.
    pose proof (Z.div_mod (a - T0) I ltac:(lia)) as Hd.
    pose proof (Z.mod_pos_bound (a - T0) I Ipos) as Hm.
    assert (0 <= (a - T0) / I)%Z by (apply Z.div_pos; lia).
    split; [lia|]. nia.
  Qed.

  (* once discarded, the held events are never emitted: as long as no new LOGIN record of
     the session arrives, nothing is emitted for it *)
  Theorem dropped_stays_silent B ph :
    (ph = PClean \/ exists l, ph = PParked l) ->
    (forall o, In o B -> is_rec s p o = false) ->
    snd (prun s p ph B) = [] /\ (fst (prun s p ph B) = PClean \/ exists l, fst (prun s p ph B) = PParked l).
  Proof.
    revert ph. induction B as [|o r IH]; intros ph Hph Hno; cbn.
    - tauto.
    - assert (Ho : is_rec s p o = false) by (apply Hno; left; reflexivity).
      assert (Hstep : snd (pstep s p ph o) = [] /\
                      (fst (pstep s p ph o) = PClean \/ exists l, fst (pstep s p ph o) = PParked l)).
      { destruct Hph as [->|[l ->]]; destruct o as [l0 c|ev now|t|t]; cbn in *.
        - destruct (login_p p l0); cbn; eauto.
        - destruct (ev_of_s s ev); cbn in *; [rewrite Ho|]; cbn; eauto.
        - eauto.
        - eauto.
        - destruct (login_p p l0); cbn; eauto.
        - destruct (ev_of_s s ev); cbn in *; [rewrite Ho|]; cbn; eauto.
        - eauto.
        - destruct (l_at l <? t)%Z; cbn; eauto. }
      destruct (pstep s p ph o) as [ph1 o1]. cbn [fst snd] in *. destruct Hstep as [-> Hph1].
      destruct (IH ph1 Hph1) as [H1 H2]; [intros o' Ho'; apply Hno; right; exact Ho'|].
      destruct (prun s p ph1 r) as [ph2 o2]. cbn [fst snd] in *. subst o2. tauto.
  Qed.
End Window.
