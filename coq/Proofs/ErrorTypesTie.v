(* The error types' methods, as regenerated from the three errors.go files (Gen/ErrorTypes.v): every method is an
   accessor of one field (anything else is UNSUPPORTED in the generated file), and which field each returns. *)
From Coq Require Import String List Bool.
Import ListNotations.
From AM Require Import Gen.ErrorTypes.
Open Scope string_scope.

(* what method [m] of type [t] returns: (field, its type) *)
Definition accessor (t m : string) : option (string * string) :=
  match find (fun r => match r with (_, t', m', _, _) => String.eqb t t' && String.eqb m m' end) gen_error_methods with
  | Some (_, _, _, f, ty) => Some (f, ty)
  | None => None
  end.

(* the message a failure site builds is what Error() reports, the wrapped error is what Unwrap() yields (errors.Is /
   errors.As see through it), and the three classification flags are reported by their own accessors *)
Theorem error_types_from_source :
  accessor "parseAuditLogsError" "Error" = Some ("message", "string") /\
  accessor "parseAuditLogsError" "Unwrap" = Some ("inner", "error") /\
  accessor "reassemblerCBError" "Error" = Some ("message", "string") /\
  accessor "reassemblerCBError" "Unwrap" = Some ("inner", "error") /\
  accessor "SessionTrackerError" "Error" = Some ("message", "string") /\
  accessor "SessionTrackerError" "Unwrap" = Some ("inner", "error") /\
  accessor "SessionTrackerError" "RemoteLoginFailed" = Some ("remoteLoginFail", "bool") /\
  accessor "SessionTrackerError" "ParsePIDFailed" = Some ("parsePIDFail", "bool") /\
  accessor "SessionTrackerError" "AuditEventWriteFailed" = Some ("auditWriteFail", "bool") /\
  accessor "RemoteUserLoginValidateError" "Error" = Some ("message", "string").
Proof. vm_compute. repeat split; reflexivity. Qed.
