(* Lifting the sequential theorems (C01, C02, C04, ...) to concurrent executions:
   under the correlator-wide mutex every complete execution of every thread system, under every
   schedule, writes exactly what the sequential correlator writes on the linearization (the calls in
   the order in which they began, which respects each thread's program order).  So any statement about
   (history, outputs) proved for all sequential histories holds of every concurrent execution. *)
From Coq Require Import List Bool Arith ZArith NArith.
Import ListNotations.
From AM Require Import Model.Tracker Model.TrackerConc Proofs.TrackerInv Proofs.TrackerSpec Proofs.TrackerLife
  Proofs.TrackerConcLemmas.

(* the linearization of a concurrent execution *)
Definition lin (progs : list (list top)) (sched : list nat) : list top :=
  map snd (s_order (exec true progs sched)).

Lemma conc_out_seq : forall progs sched,
  all_done (exec true progs sched) = true ->
  s_out (exec true progs sched) = outs (lin progs sched) /\
  s_state (exec true progs sched) = final (lin progs sched).
Proof.
  intros progs sched Hd.
  destruct (locked_linearizable progs sched Hd) as [Heq _].
  unfold seq_run in Heq. unfold outs, final, lin.
  rewrite <- Heq. split; reflexivity.
Qed.

Lemma lin_program_order : forall progs sched,
  all_done (exec true progs sched) = true ->
  forall i, i < length progs -> calls_of i (s_order (exec true progs sched)) = nth i progs [].
Proof.
  intros progs sched Hd. destruct (locked_linearizable progs sched Hd) as [_ H]. exact H.
Qed.

Theorem lift_to_concurrent : forall (P : list top -> list emitted -> Prop),
  (forall h, P h (outs h)) ->
  forall progs sched, all_done (exec true progs sched) = true ->
  P (lin progs sched) (s_out (exec true progs sched)).
Proof.
  intros P HP progs sched Hd. destruct (conc_out_seq progs sched Hd) as [-> _]. apply HP.
Qed.

(* C01 for concurrent executions *)
Lemma identity_concurrent : forall progs sched (l : login) (e : aev),
  all_done (exec true progs sched) = true ->
  In (l, e) (s_out (exec true progs sched)) ->
  let h := lin progs sched in
  exists s ev0 now0,
    a_ses e = SId s /\ in_hist e h /\
    In (Audit ev0 now0) h /\ a_ses ev0 = SId s /\ a_type ev0 = TLogin /\ a_pid ev0 = Some (l_pid l) /\
    In_login l h.
Proof.
  intros progs sched l e Hd Hin h.
  destruct (conc_out_seq progs sched Hd) as [Ho _]. rewrite Ho in Hin.
  destruct (identity_of_emitted _ l e Hin) as (s & ev0 & now0 & H1 & H2 & H3 & H4 & H5 & H6 & H7 & _).
  exists s, ev0, now0. repeat split; assumption.
Qed.

(* C02 for concurrent executions: the session's emitted events, in the concurrent execution, are a
   prefix of its events from the LOGIN record on (in linearization order), empty until both halves are
   known, reaching the disposal record afterwards. *)
Lemma once_in_order_concurrent : forall progs sched (s : N) (p : Z),
  all_done (exec true progs sched) = true ->
  let h := lin progs sched in
  wf_session s p h -> no_late_cleanup s p h ->
  let out := projs s (s_out (exec true progs sched)) in
  let E := events_from_rec s p h in
  (rec_seen s p h && login_seen p h = false -> out = []) /\
  (rec_seen s p h && login_seen p h = true ->
     exists l k, In_login l h /\ login_p p l = true /\
                 out = map (pair l) (firstn k E) /\ length (take_until_disp E) <= k /\ k <= length E).
Proof.
  intros progs sched s p Hd h Hwf Hnl.
  destruct (conc_out_seq progs sched Hd) as [Ho _]. cbn zeta. rewrite Ho.
  exact (once_in_order_wf s p h Hwf Hnl).
Qed.
