(* History-relative invariant of the correlator and its consequences (C01, C04). *)
From Coq Require Import List Bool Arith ZArith NArith Lia.
Import ListNotations.
From AM Require Import Lib.Assoc Model.Tracker Proofs.TrackerBasics.

Local Notation NS := N.eqb_spec.
Local Notation ZS := Z.eqb_spec.

Definition In_login (l : login) (h : list top) : Prop := exists c, In (RemoteLogin l c) h.

(* a LOGIN-type record of session s whose process id is p occurs in h *)
Definition login_rec (h : list top) (s : N) (p : Z) : Prop :=
  exists ev now, In (Audit ev now) h /\ a_ses ev = SId s /\ a_type ev = TLogin /\ a_pid ev = Some p.

Definition in_hist (e : aev) (h : list top) : Prop := exists now, In (Audit e now) h.

Record Inv (h : list top) (st : tstate) : Prop := {
  inv_nd_s : NoDup (akeys (sess st));
  inv_nd_p : NoDup (akeys (parked st));
  inv_sess : forall s u, In (s, u) (sess st) ->
      login_rec h s (u_pid u) /\
      (forall l, u_login u = Some l -> In_login l h /\ l_pid l = u_pid u) /\
      (forall e, In e (u_cached u) -> a_ses e = SId s /\ in_hist e h);
  inv_parked : forall p l, In (p, l) (parked st) -> In_login l h /\ l_pid l = p /\ validate l = true
}.

(* what may be written: the event's session has a LOGIN record whose pid is the login's pid,
   and that login was delivered *)
Definition good (h : list top) (x : emitted) : Prop :=
  exists s, a_ses (snd x) = SId s /\ login_rec h s (l_pid (fst x)) /\ In_login (fst x) h /\ in_hist (snd x) h.

Lemma In_login_mono l h h' : incl h h' -> In_login l h -> In_login l h'.
Proof. intros Hi [c Hc]. exists c. apply Hi. exact Hc. Qed.

Lemma login_rec_mono h h' s p : incl h h' -> login_rec h s p -> login_rec h' s p.
Proof. intros Hi (ev & now & H & R). exists ev, now. split; [apply Hi; exact H|exact R]. Qed.

Lemma in_hist_mono e h h' : incl h h' -> in_hist e h -> in_hist e h'.
Proof. intros Hi [now H]. exists now. apply Hi. exact H. Qed.

Lemma good_mono h h' x : incl h h' -> good h x -> good h' x.
Proof.
  intros Hi (s & Hs & Hr & Hl & Hh). exists s. split; [exact Hs|]. split; [|split].
  - eapply login_rec_mono; eassumption.
  - eapply In_login_mono; eassumption.
  - eapply in_hist_mono; eassumption.
Qed.

Lemma Inv_mono h h' st : incl h h' -> Inv h st -> Inv h' st.
Proof.
  intros Hi [A B C D]. constructor; [exact A|exact B| |].
  - intros s u Hin. destruct (C s u Hin) as (C1 & C2 & C3). split; [|split].
    + eapply login_rec_mono; eassumption.
    + intros l Hl. destruct (C2 l Hl). split; [eapply In_login_mono; eassumption|assumption].
    + intros e He. destruct (C3 e He). split; [assumption|eapply in_hist_mono; eassumption].
  - intros p l Hin. destruct (D p l Hin) as (D1 & D2 & D3).
    split; [eapply In_login_mono; eassumption|tauto].
Qed.

Lemma Inv_init b : Inv [] (tinit b).
Proof. constructor; cbn; try constructor; intros; contradiction. Qed.

(* ---------- shapes of the sub-functions ---------- *)

Lemma remote_login_shape st l c st' out r :
  remote_login st l c = (st', out, r) ->
  (* rejected *)
  (validate l = false /\ st' = st /\ out = [] /\ r = RErrValidate) \/
  (* bound to a waiting session *)
  (validate l = true /\ exists s u, In (s, u) (sess st) /\ unbound u = true /\ u_pid u = l_pid l /\
     parked st' = parked st /\
     (forall x, In x out -> fst x = l /\ In (snd x) (u_cached u)) /\
     (sess st' = adel N.eqb s (sess st) \/
      exists u', sess st' = aset N.eqb s u' (sess st) /\ u_added u' = u_added u /\ u_pid u' = u_pid u /\
                 u_login u' = Some l /\ incl (u_cached u') (u_cached u))) \/
  (* parked *)
  (validate l = true /\ candidates (l_pid l) (sess st) = [] /\ sess st' = sess st /\
     parked st' = aset Z.eqb (l_pid l) l (parked st) /\ wb st' = wb st /\ out = [] /\ r = ROk).
Proof.
  unfold remote_login. destruct (validate l) eqn:Ev; cbn [negb].
  2:{ intros [= <- <- <-]. left. tauto. }
  destruct (pick c (candidates (l_pid l) (sess st))) as [[s u]|] eqn:Ep.
  - apply pick_in in Ep. apply candidates_in in Ep. destruct Ep as (Hin & Hub & Hpid).
    destruct (write_all (wb st) l (u_cached u)) as [[b' o] ok] eqn:Ew.
    pose proof (write_all_sub _ _ _ _ _ _ Ew) as Hsub.
    intros H. right. left. split; [reflexivity|]. exists s, u.
    destruct ok.
    + injection H as <- <- <-. cbn [sess parked]. repeat split; try assumption; try (apply Hsub; assumption).
      destruct (has_disp (u_cached u)); [left; reflexivity|].
      right. eexists. split; [reflexivity|]. cbn. repeat split. intros x [].
    + injection H as <- <- <-. cbn [sess parked]. repeat split; try assumption; try (apply Hsub; assumption).
      right. eexists. split; [reflexivity|]. cbn. repeat split. apply incl_refl.
  - intros [= <- <- <-]. right. right. cbn. repeat split.
    destruct (candidates (l_pid l) (sess st)) eqn:E; [reflexivity|discriminate].
Qed.

Lemma with_session_shape st s u ev st' out r :
  audit_with_session st s u ev = (st', out, r) ->
  parked st' = parked st /\
  (forall x, In x out -> exists l, u_login u = Some l /\ fst x = l /\ In (snd x) (u_cached u ++ [ev])) /\
  (sess st' = adel N.eqb s (sess st) \/
   exists u', sess st' = aset N.eqb s u' (sess st) /\ u_added u' = u_added u /\ u_pid u' = u_pid u /\
              u_login u' = u_login u /\ incl (u_cached u') (u_cached u ++ [ev])).
Proof.
  unfold audit_with_session. destruct (u_login u) as [l|] eqn:El.
  - destruct (write_all (wb st) l (u_cached u)) as [[b' o] ok] eqn:Ew.
    pose proof (write_all_sub _ _ _ _ _ _ Ew) as Hsub.
    assert (Hfin : forall u', u_added u' = u_added u -> u_pid u' = u_pid u -> u_login u' = Some l ->
              incl (u_cached u') (u_cached u ++ [ev]) ->
              let m := if is_disp (a_type ev) then adel N.eqb s (sess st) else aset N.eqb s u' (sess st) in
              m = adel N.eqb s (sess st) \/
              exists u'', m = aset N.eqb s u'' (sess st) /\ u_added u'' = u_added u /\ u_pid u'' = u_pid u /\
                          u_login u'' = Some l /\ incl (u_cached u'') (u_cached u ++ [ev])).
    { intros u' H1 H2 H3 H4. cbn. destruct (is_disp (a_type ev)); [left; reflexivity|].
      right. exists u'. tauto. }
    destruct ok.
    + destruct (write1 b') as [b'' [|]]; intros [= <- <- <-]; cbn [sess parked]; (split; [reflexivity|]); split.
      * intros x Hx. exists l. split; [reflexivity|]. apply in_app_or in Hx. destruct Hx as [Hx|[<-|[]]].
        -- destruct (Hsub x Hx). split; [assumption|]. apply in_or_app. left. assumption.
        -- cbn. split; [reflexivity|]. apply in_or_app. right. left. reflexivity.
      * apply Hfin; cbn; try reflexivity. intros x [].
      * intros x Hx. exists l. split; [reflexivity|]. destruct (Hsub x Hx). split; [assumption|].
        apply in_or_app. left. assumption.
      * apply Hfin; cbn; try reflexivity. intros x [].
    + intros [= <- <- <-]. cbn [sess parked]. split; [reflexivity|]. split.
      * intros x Hx. exists l. split; [reflexivity|]. destruct (Hsub x Hx). split; [assumption|].
        apply in_or_app. left. assumption.
      * apply Hfin; try reflexivity; try assumption. apply incl_appl. apply incl_refl.
  - intros [= <- <- <-]. cbn [sess parked]. split; [reflexivity|]. split; [intros x []|].
    right. eexists. split; [reflexivity|]. cbn. repeat split; try (symmetry; assumption). apply incl_refl.
Qed.

Lemma without_session_shape st s ev now st' out r :
  audit_without_session st s ev now = (st', out, r) ->
  (st' = st /\ out = []) \/
  (a_type ev = TLogin /\ exists p, a_pid ev = Some p /\
     ((exists l, aget Z.eqb p (parked st) = Some l /\
         sess st' = aset N.eqb s {| u_added := now; u_pid := p; u_login := Some l; u_cached := [] |} (sess st) /\
         parked st' = adel Z.eqb p (parked st) /\ (out = [(l, ev)] \/ out = [])) \/
      (aget Z.eqb p (parked st) = None /\
         sess st' = aset N.eqb s {| u_added := now; u_pid := p; u_login := None; u_cached := [ev] |} (sess st) /\
         parked st' = parked st /\ wb st' = wb st /\ out = [] /\ r = ROk))).
Proof.
  unfold audit_without_session. destruct (a_type ev) eqn:Et; cbn [is_login negb];
    try (intros [= <- <- <-]; left; tauto).
  destruct (a_pid ev) as [p|] eqn:Ep; [|intros [= <- <- <-]; left; tauto].
  right. split; [reflexivity|]. exists p. split; [reflexivity|].
  destruct (aget Z.eqb p (parked st)) as [l|] eqn:Eg.
  - left. exists l. split; [reflexivity|].
    destruct (write1 (wb st)) as [b' [|]]; injection H as <- <- <-; cbn [sess parked]; tauto.
  - right. injection H as <- <- <-. cbn. tauto.
Qed.

(* ---------- preservation ---------- *)

Lemma in_snoc {A} (x : A) h o : In x h -> In x (h ++ [o]).
Proof. intros H. apply in_or_app. left. exact H. Qed.

Lemma in_snoc_last {A} (o : A) h : In o (h ++ [o]).
Proof. apply in_or_app. right. left. reflexivity. Qed.

Lemma incl_snoc {A} (h : list A) o : incl h (h ++ [o]).
Proof. intros x. apply in_snoc. Qed.

Lemma step_inv h st o st' out r :
  Inv h st -> tstep st o = (st', out, r) ->
  Inv (h ++ [o]) st' /\ Forall (good (h ++ [o])) out.
Proof.
  intros HI Hs.
  pose proof (Inv_mono h (h ++ [o]) st (incl_snoc h o) HI) as HI'.
  destruct HI' as [A B C D].
  destruct o as [l c|ev now|t|t]; cbn [tstep] in Hs.
  - (* RemoteLogin *)
    apply remote_login_shape in Hs.
    destruct Hs as [(Hv & -> & -> & _)|[(Hv & s & u & Hin & Hub & Hpid & Hp & Hout & Hsess)|(Hv & _ & Hs & Hp & _ & -> & _)]].
    + split; [constructor; assumption|constructor].
    + destruct (C s u Hin) as (C1 & C2 & C3).
      assert (Hl : In_login l (h ++ [RemoteLogin l c])) by (exists c; apply in_snoc_last).
      split.
      * constructor.
        -- destruct Hsess as [->|(u' & -> & _)]; [apply (nodup_adel _ NS)|apply (nodup_aset _ NS)]; assumption.
        -- rewrite Hp. exact B.
        -- intros s0 u0 Hin0. destruct Hsess as [E|(u' & E & Ha & Hpu & Hlu & Hc)]; rewrite E in Hin0.
           ++ apply (in_adel _ NS) in Hin0. apply C. tauto.
           ++ apply (in_aset _ NS) in Hin0. destruct Hin0 as [[-> ->]|[_ Hin0]]; [|apply C; exact Hin0].
              split; [rewrite Hpu; exact C1|]. split.
              ** intros l0 Hl0. rewrite Hlu in Hl0. injection Hl0 as <-. split; [exact Hl|congruence].
              ** intros e He. apply C3. apply Hc. exact He.
        -- rewrite Hp. exact D.
      * apply Forall_forall. intros [l0 e] Hx. destruct (Hout _ Hx) as [Hf He]. cbn in Hf, He. subst l0.
        destruct (C3 e He) as [Hse Hhe]. exists s. cbn. split; [exact Hse|].
        split; [rewrite <- Hpid; exact C1|]. split; [exact Hl|exact Hhe].
    + split; [|constructor]. constructor.
      * rewrite Hs. exact A.
      * rewrite Hp. apply (nodup_aset _ ZS). exact B.
      * rewrite Hs. exact C.
      * intros p l0 Hin. rewrite Hp in Hin. apply (in_aset _ ZS) in Hin.
        destruct Hin as [[-> ->]|[_ Hin]]; [|apply D; exact Hin].
        split; [exists c; apply in_snoc_last|tauto].
  - (* Audit *)
    unfold audit_event in Hs. destruct (a_ses ev) as [| |s] eqn:Es;
      try (injection Hs as <- <- <-; split; [constructor; assumption|constructor]).
    assert (Hev : in_hist ev (h ++ [Audit ev now])) by (exists now; apply in_snoc_last).
    destruct (aget N.eqb s (sess st)) as [u|] eqn:Eg.
    + apply (aget_in _ NS) in Eg. destruct (C s u Eg) as (C1 & C2 & C3).
      apply with_session_shape in Hs. destruct Hs as (Hp & Hout & Hsess).
      assert (Hc' : forall e, In e (u_cached u ++ [ev]) -> a_ses e = SId s /\ in_hist e (h ++ [Audit ev now])).
      { intros e He. apply in_app_or in He. destruct He as [He|[<-|[]]]; [apply C3; exact He|tauto]. }
      split.
      * constructor.
        -- destruct Hsess as [->|(u' & -> & _)]; [apply (nodup_adel _ NS)|apply (nodup_aset _ NS)]; assumption.
        -- rewrite Hp. exact B.
        -- intros s0 u0 Hin0. destruct Hsess as [E|(u' & E & Ha & Hpu & Hlu & Hc)]; rewrite E in Hin0.
           ++ apply (in_adel _ NS) in Hin0. apply C. tauto.
           ++ apply (in_aset _ NS) in Hin0. destruct Hin0 as [[-> ->]|[_ Hin0]]; [|apply C; exact Hin0].
              split; [rewrite Hpu; exact C1|]. split.
              ** intros l0 Hl0. rewrite Hlu in Hl0. rewrite Hpu. apply C2. exact Hl0.
              ** intros e He. apply Hc'. apply Hc. exact He.
        -- rewrite Hp. exact D.
      * apply Forall_forall. intros [l0 e] Hx. destruct (Hout _ Hx) as (l1 & Hl1 & Hf & He). cbn in Hf, He. subst l0.
        destruct (C2 l1 Hl1) as [Hil Hpl]. destruct (Hc' e He) as [Hse Hhe].
        exists s. cbn. split; [exact Hse|]. split; [rewrite Hpl; exact C1|]. split; assumption.
    + apply without_session_shape in Hs.
      destruct Hs as [(-> & ->)|(Ht & p & Hp & [(l & Hg & Hsess & Hpk & Hout)|(Hg & Hsess & Hpk & _ & -> & _)])].
      * split; [constructor; assumption|constructor].
      * apply (aget_in _ ZS) in Hg. destruct (D p l Hg) as (D1 & D2 & D3).
        assert (Hrec : login_rec (h ++ [Audit ev now]) s p).
        { exists ev, now. split; [apply in_snoc_last|tauto]. }
        split.
        -- constructor.
           ++ rewrite Hsess. apply (nodup_aset _ NS). exact A.
           ++ rewrite Hpk. apply (nodup_adel _ ZS). exact B.
           ++ intros s0 u0 Hin0. rewrite Hsess in Hin0. apply (in_aset _ NS) in Hin0.
              destruct Hin0 as [[-> ->]|[_ Hin0]]; [|apply C; exact Hin0]. cbn.
              split; [exact Hrec|]. split; [|intros e []].
              intros l0 [= <-]. tauto.
           ++ intros p0 l0 Hin0. rewrite Hpk in Hin0. apply (in_adel _ ZS) in Hin0. apply D. tauto.
        -- destruct Hout as [->| ->]; [|constructor]. constructor; [|constructor].
           exists s. cbn. split; [exact Es|]. split; [rewrite D2; exact Hrec|]. split; assumption.
      * split; [|constructor]. constructor.
        -- rewrite Hsess. apply (nodup_aset _ NS). exact A.
        -- rewrite Hpk. exact B.
        -- intros s0 u0 Hin0. rewrite Hsess in Hin0. apply (in_aset _ NS) in Hin0.
           destruct Hin0 as [[-> ->]|[_ Hin0]]; [|apply C; exact Hin0]. cbn.
           split; [exists ev, now; split; [apply in_snoc_last|tauto]|]. split; [discriminate|].
           intros e [<-|[]]. tauto.
        -- rewrite Hpk. exact D.
  - (* CleanSess *)
    injection Hs as <- <- <-. split; [|constructor]. constructor; cbn.
    + apply nodup_keys_filter. exact A.
    + exact B.
    + intros s u Hin. apply filter_In in Hin. apply C. tauto.
    + exact D.
  - (* CleanLogins *)
    injection Hs as <- <- <-. split; [|constructor]. constructor; cbn.
    + exact A.
    + apply nodup_keys_filter. exact B.
    + exact C.
    + intros p l Hin. apply filter_In in Hin. apply D. tauto.
Qed.

Lemma trun_inv h0 st h st' out :
  Inv h0 st -> trun st h = (st', out) -> Inv (h0 ++ h) st' /\ Forall (good (h0 ++ h)) out.
Proof.
  revert h0 st st' out. induction h as [|o r IH]; intros h0 st st' out HI H; cbn in H.
  - injection H as <- <-. rewrite app_nil_r. split; [exact HI|constructor].
  - destruct (tstep st o) as [[st1 o1] res] eqn:Es.
    destruct (trun st1 r) as [st2 o2] eqn:Er. injection H as <- <-.
    destruct (step_inv _ _ _ _ _ _ HI Es) as [HI1 G1].
    destruct (IH _ _ _ _ HI1 Er) as [HI2 G2].
    replace (h0 ++ o :: r) with ((h0 ++ [o]) ++ r) by (rewrite <- app_assoc; reflexivity).
    split; [exact HI2|]. apply Forall_app. split; [|exact G2].
    eapply Forall_impl; [|exact G1]. intros x. apply good_mono. apply incl_appl. apply incl_refl.
Qed.

Lemma final_inv h : Inv h (final h).
Proof.
  unfold final. destruct (trun (tinit None) h) as [st out] eqn:E.
  destruct (trun_inv [] _ _ _ _ (Inv_init None) E). assumption.
Qed.

Lemma outs_good h : Forall (good h) (outs h).
Proof.
  unfold outs. destruct (trun (tinit None) h) as [st out] eqn:E.
  destruct (trun_inv [] _ _ _ _ (Inv_init None) E). assumption.
Qed.

(* ---------- uniqueness discipline of C01 ---------- *)

(* each sshd PID logs in once *)
Definition logins_unique (h : list top) : Prop :=
  forall l l' c c', In (RemoteLogin l c) h -> In (RemoteLogin l' c') h -> l_pid l = l_pid l' -> l = l'.

(* PIDs and session IDs are not reused: LOGIN records with the same session have the same
   pid, and LOGIN records with the same pid have the same session *)
Definition sessions_unique (h : list top) : Prop :=
  forall e e' n n', In (Audit e n) h -> In (Audit e' n') h ->
    a_type e = TLogin -> a_type e' = TLogin ->
    forall s s' p p', a_ses e = SId s -> a_ses e' = SId s' -> a_pid e = Some p -> a_pid e' = Some p' ->
      (s = s' <-> p = p').

Definition wf_unique (h : list top) : Prop := logins_unique h /\ sessions_unique h.

Theorem identity_of_emitted h l e :
  In (l, e) (outs h) ->
  exists s ev0 now0,
    a_ses e = SId s /\ in_hist e h /\
    In (Audit ev0 now0) h /\ a_ses ev0 = SId s /\ a_type ev0 = TLogin /\ a_pid ev0 = Some (l_pid l) /\
    In_login l h /\
    (wf_unique h ->
       (forall l' c', In (RemoteLogin l' c') h -> l_pid l' = l_pid l -> l' = l) /\
       (forall ev1 now1 p1, In (Audit ev1 now1) h -> a_ses ev1 = SId s -> a_type ev1 = TLogin ->
                            a_pid ev1 = Some p1 -> p1 = l_pid l)).
Proof.
  intros Hin. pose proof (outs_good h) as G. rewrite Forall_forall in G.
  destruct (G _ Hin) as (s & Hs & (ev0 & now0 & H0 & H1 & H2 & H3) & Hl & Hh). cbn in *.
  exists s, ev0, now0. repeat (split; [assumption|]).
  intros [W1 W2]. split.
  - intros l' c' Hl' Hp. destruct Hl as [c Hc]. symmetry. eapply W1; eauto.
  - intros ev1 now1 p1 Hi1 Hs1 Ht1 Hp1.
    symmetry. eapply (W2 ev0 ev1 now0 now1 H0 Hi1 H2 Ht1 s s (l_pid l) p1); auto.
Qed.

(* prefix form: what one more operation writes is justified by the history up to and
   including that operation *)
Theorem step_emits_only_correlated h o st' out r :
  tstep (final h) o = (st', out, r) ->
  forall l e, In (l, e) out ->
  exists s ev0 now0,
    a_ses e = SId s /\
    In (Audit ev0 now0) (h ++ [o]) /\ a_ses ev0 = SId s /\ a_type ev0 = TLogin /\ a_pid ev0 = Some (l_pid l) /\
    In_login l (h ++ [o]).
Proof.
  intros Hs l e Hin. destruct (step_inv _ _ _ _ _ _ (final_inv h) Hs) as [_ G].
  rewrite Forall_forall in G. destruct (G _ Hin) as (s & H1 & (ev0 & now0 & R) & Hl & _). cbn in *.
  exists s, ev0, now0. tauto.
Qed.

Lemma outs_snoc h o :
  outs (h ++ [o]) = outs h ++ snd (fst (tstep (final h) o)).
Proof.
  unfold outs, final. rewrite trun_snoc. destruct (trun (tinit None) h) as [st1 o1]. cbn.
  destruct (tstep st1 o) as [[st2 out] r]. reflexivity.
Qed.

Lemma final_snoc h o : final (h ++ [o]) = fst (fst (tstep (final h) o)).
Proof.
  unfold final. rewrite trun_snoc. destruct (trun (tinit None) h) as [st1 o1]. cbn.
  destruct (tstep st1 o) as [[st2 out] r]. reflexivity.
Qed.
