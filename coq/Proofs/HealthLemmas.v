From Coq Require Import List Arith Bool Lia.
Import ListNotations.
From AM Require Import Model.Health.

(* The last operation on name [n] in [ops]: Some true = OnReady, Some false = AddReadiness. *)
Fixpoint last_touch (n : name) (ops : list hop) : option bool :=
  match ops with
  | [] => None
  | o :: r =>
      match last_touch n r with
      | Some v => Some v
      | None => if Nat.eqb (op_name o) n
                then Some (match o with HAdd _ => false | HReady _ => true end)
                else None
      end
  end.

Definition keys (s : hstate) : list name := map fst s.

Lemma lookup_remove_same n s : lookup n (remove_key n s) = None.
Proof.
  induction s as [|[k v] r IH]; cbn; [reflexivity|].
  destruct (Nat.eqb k n) eqn:E; cbn; [exact IH|]. rewrite E. exact IH.
Qed.

Lemma lookup_remove_other n m s : n <> m -> lookup n (remove_key m s) = lookup n s.
Proof.
  intros Hne. induction s as [|[k v] r IH]; cbn; [reflexivity|].
  destruct (Nat.eqb k m) eqn:E.
  - apply Nat.eqb_eq in E. subst k.
    destruct (Nat.eqb m n) eqn:E2; [apply Nat.eqb_eq in E2; congruence|]. exact IH.
  - cbn. destruct (Nat.eqb k n); [reflexivity|exact IH].
Qed.

Lemma lookup_store n m v s :
  lookup n (store m v s) = if Nat.eqb m n then Some v else lookup n s.
Proof.
  unfold store. cbn. destruct (Nat.eqb m n) eqn:E; [reflexivity|].
  apply lookup_remove_other. intros ->. rewrite Nat.eqb_refl in E. discriminate.
Qed.

Lemma in_keys_remove k n s : In k (keys (remove_key n s)) -> In k (keys s) /\ k <> n.
Proof.
  induction s as [|[k' v] r IH]; cbn; [tauto|].
  destruct (Nat.eqb k' n) eqn:E.
  - intros H. destruct (IH H) as [H1 H2]. tauto.
  - cbn. intros [->|H].
    + split; [tauto|]. intros ->. rewrite Nat.eqb_refl in E. discriminate.
    + destruct (IH H) as [H1 H2]. tauto.
Qed.

Lemma nodup_remove n s : NoDup (keys s) -> NoDup (keys (remove_key n s)).
Proof.
  induction s as [|[k v] r IH]; cbn; intros H; [constructor|].
  inversion H as [|? ? Hn Hr]; subst.
  destruct (Nat.eqb k n); [apply IH; exact Hr|].
  cbn. constructor; [|apply IH; exact Hr].
  intros Hin. apply in_keys_remove in Hin. tauto.
Qed.

Lemma nodup_store n v s : NoDup (keys s) -> NoDup (keys (store n v s)).
Proof.
  intros H. unfold store. cbn. constructor; [|apply nodup_remove; exact H].
  intros Hin. apply in_keys_remove in Hin. tauto.
Qed.

Lemma nodup_step s o : NoDup (keys s) -> NoDup (keys (hstep s o)).
Proof. intros H. destruct o; cbn [hstep]; apply nodup_store; exact H. Qed.

Lemma nodup_fold ops s : NoDup (keys s) -> NoDup (keys (fold_left hstep ops s)).
Proof.
  revert s. induction ops as [|o r IH]; cbn; intros s H; [exact H|].
  apply IH. apply nodup_step. exact H.
Qed.

Lemma nodup_run ops : NoDup (keys (hrun ops)).
Proof. apply nodup_fold. constructor. Qed.

Lemma lookup_step n s o :
  lookup n (hstep s o) =
  if Nat.eqb (op_name o) n then Some (match o with HAdd _ => false | HReady _ => true end)
  else lookup n s.
Proof. destruct o; cbn [hstep op_name]; apply lookup_store. Qed.

Lemma lookup_fold n ops s :
  lookup n (fold_left hstep ops s) =
  match last_touch n ops with Some v => Some v | None => lookup n s end.
Proof.
  revert s. induction ops as [|o r IH]; intros s; cbn [fold_left last_touch]; [reflexivity|].
  rewrite IH. destruct (last_touch n r); [reflexivity|].
  rewrite lookup_step. destruct (Nat.eqb (op_name o) n); reflexivity.
Qed.

Lemma lookup_run n ops : lookup n (hrun ops) = last_touch n ops.
Proof. unfold hrun. rewrite lookup_fold. destruct (last_touch n ops); reflexivity. Qed.

Lemma lookup_in n v s : lookup n s = Some v -> In (n, v) s.
Proof.
  induction s as [|[k w] r IH]; cbn; [discriminate|].
  destruct (Nat.eqb k n) eqn:E.
  - apply Nat.eqb_eq in E. subst. intros [= ->]. left; reflexivity.
  - intros H. right. apply IH. exact H.
Qed.

Lemma in_lookup n v s : NoDup (keys s) -> In (n, v) s -> lookup n s = Some v.
Proof.
  induction s as [|[k w] r IH]; cbn; intros Hnd Hin; [contradiction|].
  inversion Hnd as [|? ? Hn Hr]; subst.
  destruct Hin as [[= -> ->]|Hin].
  - rewrite Nat.eqb_refl. reflexivity.
  - destruct (Nat.eqb k n) eqn:E.
    + apply Nat.eqb_eq in E. subst k. exfalso. apply Hn.
      change n with (fst (n, v)). apply in_map. exact Hin.
    + apply IH; assumption.
Qed.

Lemma forallb_snd_lookup s :
  NoDup (keys s) ->
  (forallb snd s = true <-> forall n v, lookup n s = Some v -> v = true).
Proof.
  intros Hnd. rewrite forallb_forall. split.
  - intros H n v Hl. apply (H (n, v)). apply lookup_in. exact Hl.
  - intros H [n v] Hin. cbn. apply (H n v). apply in_lookup; assumption.
Qed.

Lemma in_add_touched n ops : In (HAdd n) ops -> last_touch n ops <> None.
Proof.
  induction ops as [|o r IH]; cbn; [tauto|].
  intros [->|Hin].
  - destruct (last_touch n r); [discriminate|]. cbn. rewrite Nat.eqb_refl. discriminate.
  - destruct (last_touch n r); [discriminate|]. exfalso. apply (IH Hin). reflexivity.
Qed.

Lemma touched_ready_or_add n ops v :
  last_touch n ops = Some v -> v = false -> In (HAdd n) ops.
Proof.
  induction ops as [|o r IH]; cbn; [discriminate|].
  destruct (last_touch n r) as [w|].
  - intros [= ->] Hv. right. apply IH; [reflexivity|exact Hv].
  - destruct (Nat.eqb (op_name o) n) eqn:E; [|discriminate].
    apply Nat.eqb_eq in E. destruct o as [m|m]; cbn in *; subst m.
    + intros _ _. left. reflexivity.
    + intros [= <-]. discriminate.
Qed.

(* Main sequential statement. *)
Theorem health_iff ops :
  let m := status_of (hrun ops) in
  (* 200 + overall ok exactly when every registered component's last operation is OnReady *)
  ((st_code m = 200 /\ st_overall m = true) <->
     (forall n, In (HAdd n) ops -> last_touch n ops = Some true)) /\
  (* otherwise 503 + not-ready *)
  ((st_code m = 503 /\ st_overall m = false) <->
     (exists n, In (HAdd n) ops /\ last_touch n ops = Some false)) /\
  (* the body lists exactly the names touched, each with its current status *)
  (forall n, lookup n (st_comps m) = last_touch n ops) /\
  NoDup (keys (st_comps m)) /\
  (* overall is ok iff every listed component is ok *)
  (st_overall m = true <-> forall n v, In (n, v) (st_comps m) -> v = true) /\
  (* IsReady agrees *)
  is_ready (hrun ops) = st_overall m.
Proof.
  cbn zeta. unfold status_of. cbn [st_code st_overall st_comps].
  pose proof (nodup_run ops) as Hnd.
  pose proof (forallb_snd_lookup _ Hnd) as Hall.
  assert (Hok : forallb snd (hrun ops) = true <->
                forall n, In (HAdd n) ops -> last_touch n ops = Some true).
  { rewrite Hall. split.
    - intros H n Hin. pose proof (in_add_touched n ops Hin) as Ht.
      destruct (last_touch n ops) as [v|] eqn:E; [|congruence].
      rewrite <- lookup_run in E. rewrite (H n v E). reflexivity.
    - intros H n v Hl. rewrite lookup_run in Hl. destruct v; [reflexivity|].
      pose proof (touched_ready_or_add n ops false Hl eq_refl) as Hin.
      rewrite (H n Hin) in Hl. discriminate. }
  repeat split.
  - intros [_ H]. apply Hok. exact H.
  - rewrite (proj2 Hok H). reflexivity.
  - apply Hok. exact H.
  - intros [_ H].
    destruct (forallb snd (hrun ops)) eqn:E; [discriminate|].
    assert (Hn : ~ (forall n v, lookup n (hrun ops) = Some v -> v = true)).
    { intros Hc. apply Hall in Hc. congruence. }
    (* find the offending entry constructively *)
    clear Hok Hall H.
    assert (Hex : exists n, lookup n (hrun ops) = Some false).
    { clear Hn. revert E Hnd. generalize (hrun ops) as s.
      induction s as [|[k v] r IH]; cbn; [discriminate|].
      intros E Hnd. inversion Hnd as [|? ? Hk Hr]; subst.
      destruct v; cbn in E.
      - destruct (IH E Hr) as [n Hn']. exists n.
        destruct (Nat.eqb k n) eqn:Ek; [|exact Hn'].
        apply Nat.eqb_eq in Ek. subst k. exfalso. apply Hk.
        apply lookup_in in Hn'. change n with (fst (n, false)). apply in_map. exact Hn'.
      - exists k. rewrite Nat.eqb_refl. reflexivity. }
    destruct Hex as [n Hl]. exists n. rewrite lookup_run in Hl. split; [|exact Hl].
    apply (touched_ready_or_add n ops false Hl eq_refl).
  - destruct H as [n [Hin Hl]].
    destruct (Bool.bool_dec (forallb snd (hrun ops)) true) as [E|E].
    + pose proof (proj1 Hok E) as E'. rewrite (E' n Hin) in Hl. discriminate.
    + apply Bool.not_true_is_false in E. rewrite E. reflexivity.
  - destruct H as [n [Hin Hl]].
    destruct (Bool.bool_dec (forallb snd (hrun ops)) true) as [E|E].
    + pose proof (proj1 Hok E) as E'. rewrite (E' n Hin) in Hl. discriminate.
    + apply Bool.not_true_is_false in E. rewrite E. reflexivity.
  - intros n. apply lookup_run.
  - exact Hnd.
  - intros H n v Hin. rewrite forallb_forall in H. apply (H (n, v) Hin).
  - intros H. apply forallb_forall. intros [n v] Hin. cbn. apply (H n v Hin).
Qed.

(* ---- snapshot under concurrent stores ---- *)

Definition ev_ops (evs : list sev) : list hop :=
  flat_map (fun e => match e with EvOp o => [o] | _ => [] end) evs.

Definition no_req (evs : list sev) : Prop := forall e, In e evs -> exists o, e = EvOp o.

Lemma exec_req_ops evs s a :
  no_req evs -> exec_req evs s a = (fold_left hstep (ev_ops evs) s, a).
Proof.
  revert s. induction evs as [|e r IH]; intros s H; cbn; [reflexivity|].
  destruct (H e (or_introl eq_refl)) as [o ->]. cbn.
  apply IH. intros e' He'. apply H. right. exact He'.
Qed.

Lemma exec_req_app evs1 evs2 s a :
  exec_req (evs1 ++ evs2) s a =
  let '(s', a') := exec_req evs1 s a in exec_req evs2 s' a'.
Proof.
  revert s a. induction evs1 as [|e r IH]; intros s a; cbn; [reflexivity|].
  destruct e; apply IH.
Qed.

Theorem health_snapshot pre mid post :
  no_req pre -> no_req mid -> no_req post ->
  let ans := snd (exec_req (pre ++ EvLen :: mid ++ EvIter :: post) [] None) in
  (* the answer is the status of the map as it is at the Iterate critical section *)
  ans = Some (status_of (hrun (ev_ops pre ++ ev_ops mid))) /\
  (* and is internally consistent whatever ran concurrently *)
  (forall m, ans = Some m ->
     (st_overall m = true <-> forall n v, In (n, v) (st_comps m) -> v = true) /\
     (st_code m = 200 <-> st_overall m = true) /\ (st_code m = 503 <-> st_overall m = false)).
Proof.
  intros Hpre Hmid Hpost. cbn zeta.
  assert (E : snd (exec_req (pre ++ EvLen :: mid ++ EvIter :: post) [] None)
              = Some (status_of (hrun (ev_ops pre ++ ev_ops mid)))).
  { rewrite exec_req_app. rewrite (exec_req_ops pre [] None Hpre). cbn [exec_req].
    rewrite exec_req_app. rewrite (exec_req_ops mid _ None Hmid). cbn [exec_req].
    rewrite (exec_req_ops post _ _ Hpost). cbn [snd].
    unfold hrun. rewrite fold_left_app. reflexivity. }
  split; [exact E|].
  intros m Hm. rewrite E in Hm. injection Hm as <-.
  unfold status_of. cbn [st_code st_overall st_comps].
  repeat split.
  - intros H n v Hin. rewrite forallb_forall in H. apply (H (n, v) Hin).
  - intros H. apply forallb_forall. intros [n v] Hin. apply (H n v Hin).
  - destruct (forallb snd _); [reflexivity|discriminate].
  - intros ->. reflexivity.
  - destruct (forallb snd _); [discriminate|reflexivity].
  - intros ->. reflexivity.
Qed.

(* ---- WaitForReady ---- *)

Theorem health_wait evs :
  (wait_run evs = WClosed <->
     exists pre s post, evs = pre ++ WTick s :: post /\ is_ready s = true /\
       forall e, In e pre -> exists s', e = WTick s' /\ is_ready s' = false) /\
  (wait_run evs = WErr <->
     exists pre post, evs = pre ++ WCancel :: post /\
       forall e, In e pre -> exists s', e = WTick s' /\ is_ready s' = false).
Proof.
  induction evs as [|e r [IHc IHe]].
  - cbn. split; split; try discriminate.
    + intros (pre & s & post & H & _). destruct pre; discriminate.
    + intros (pre & post & H & _). destruct pre; discriminate.
  - destruct e as [s|]; cbn [wait_run].
    + destruct (is_ready s) eqn:Er.
      * split; split.
        -- intros _. exists [], s, r. repeat split; [exact Er|]. intros e [].
        -- reflexivity.
        -- discriminate.
        -- intros (pre & post & H & Hp). destruct pre as [|p pre]; [discriminate|].
           injection H as <- _. destruct (Hp (WTick s) (or_introl eq_refl)) as (s' & [= <-] & Hs').
           congruence.
      * split; split.
        -- intros H. apply IHc in H. destruct H as (pre & s0 & post & -> & Hs0 & Hp).
           exists (WTick s :: pre), s0, post. repeat split; [exact Hs0|].
           intros e [<-|He]; [exists s; split; [reflexivity|exact Er]|apply Hp; exact He].
        -- intros (pre & s0 & post & H & Hs0 & Hp). apply IHc.
           destruct pre as [|p pre].
           ++ injection H as -> ->. congruence.
           ++ injection H as <- ->. exists pre, s0, post. repeat split; [exact Hs0|].
              intros e He. apply Hp. right. exact He.
        -- intros H. apply IHe in H. destruct H as (pre & post & -> & Hp).
           exists (WTick s :: pre), post. split; [reflexivity|].
           intros e [<-|He]; [exists s; split; [reflexivity|exact Er]|apply Hp; exact He].
        -- intros (pre & post & H & Hp). apply IHe.
           destruct pre as [|p pre]; [discriminate|].
           injection H as <- ->. exists pre, post. split; [reflexivity|].
           intros e He. apply Hp. right. exact He.
    + split; split.
      * discriminate.
      * intros (pre & s & post & H & _ & Hp). destruct pre as [|p pre]; [discriminate|].
        injection H as <- _. destruct (Hp WCancel (or_introl eq_refl)) as (s' & Hs' & _). discriminate.
      * intros _. exists [], r. split; [reflexivity|]. intros e [].
      * reflexivity.
Qed.
