(* The directory reader's use of bufio (C20).  Model/DirReaderIR.v interprets
   `x, err := r.ReadString(delim)` by a stated contract on the bytes the reader has not delivered
   yet ([d_src], the file from the saved offset on): [dcut] finds a delimiter -> the bytes up to
   and including it, nil, the rest stays; none -> all remaining bytes, io.EOF, nothing stays.
   Here: the bufio model (Model/Bufio.v) satisfies that contract, for every buffer size and every
   way read(2) cuts the file into pieces. *)
From Coq Require Import Ascii String List Bool Arith Lia.
Import ListNotations.
From AM Require Import Lib.Bytes Model.Framing Proofs.FramingLemmas Model.Bufio Proofs.BufioLemmas.
From AM Require Import Model.DirReader Proofs.DirReaderLemmas Model.DirReaderIR.

Lemma dcut_cut d s : dcut d s = cut d s.
Proof.
  induction s as [|c r IH]; [reflexivity|]. cbn [dcut cut]. rewrite IH. reflexivity.
Qed.

(* [src] = the bytes the interpreter's reader has not delivered yet; the bufio reader b stands for it *)
Definition file_reader (src : str) (b : reader) : Prop :=
  wf b /\ progress_ok (chunks (rsrc b)) /\ ferr (rsrc b) = EEOF /\ T b = src.

(* bufio.NewReader(file) after Seek(off): any buffer size, any cutting of the bytes from off on *)
Theorem file_reader_new size cs : progress_ok cs ->
  file_reader (concat cs) (new_reader_size (eof_source cs) size).
Proof.
  intros Hpr. destruct (new_reader_facts (eof_source cs) size) as (_ & _ & _ & HT & _).
  split; [apply new_reader_wf; discriminate|]. split; [exact Hpr|]. split; [reflexivity|].
  rewrite HT. unfold stream, eof_source. cbn [chunks last]. apply app_nil_r.
Qed.

(* one ReadString call: exactly the step of the interpreter (DReadString with a reader that does
   not fail), and the relation holds again *)
Theorem file_reader_read_string d src b : file_reader src b ->
  match dcut d src with
  | Some (l, rest) => exists b', read_string_b d b = RSOk l None b' /\ file_reader rest b'
  | None => exists b', read_string_b d b = RSOk src (Some EEOF) b' /\ file_reader [] b'
  end.
Proof.
  intros (Hwf & Hpr & Hfe & HT). rewrite dcut_cut.
  destruct (read_string_b_spec d b Hwf) as (out & e & b' & Hrun & Hpost).
  pose proof (cf_post_wf d b out e b' Hwf Hpost) as Hwf'.
  pose proof (cf_post_progress d b out e b' Hpost Hpr) as Hpr'.
  destruct Hpost as (_ & _ & Hf' & HTb & Hcase). rewrite HT in HTb. destruct e as [e|].
  - destruct Hcase as (Hnd & _ & Hbd' & [(-> & Hex)|(_ & Hnp)]); [|contradiction].
    assert (HT' : T b' = []) by (unfold T; rewrite Hbd', (stream_exhausted _ Hex); reflexivity).
    rewrite HT', app_nil_r in HTb. subst out. rewrite (cut_not_in d src Hnd).
    exists b'. rewrite Hfe in Hrun. split; [exact Hrun|].
    split; [exact Hwf'|]. split; [exact Hpr'|]. split; [congruence|exact HT'].
  - destruct Hcase as ((body & -> & Hnb) & _). rewrite HTb, <- app_assoc. cbn [app].
    rewrite (cut_body d body (T b') Hnb). exists b'. split; [exact Hrun|].
    split; [exact Hwf'|]. split; [exact Hpr'|]. split; [congruence|reflexivity].
Qed.

(* ---------- readLines as a whole ---------- *)

Lemma bufio_read_lines_loop_S f b n : bufio_read_lines_loop (S f) b n =
  match read_string_b "010"%char b with
  | RSPanic p => ([], n, RLPanic p)
  | RSOutOfFuel => ([], n, RLOutOfFuel)
  | RSOk _ (Some EEOF) _ => ([], n, RLNil)
  | RSOk _ (Some e) _ => ([], n, RLErr e)
  | RSOk raw None b' =>
      let line := firstn (length raw - 1) raw in
      let '(ls, n', r) := bufio_read_lines_loop f b' (n + length raw) in (line :: ls, n', r)
  end.
Proof. reflexivity. Qed.

Lemma read_lines_loop_spec : forall fuel src b n, file_reader src b -> length src < fuel ->
  bufio_read_lines_loop fuel b n = (fst (lines src), n + line_bytes (fst (lines src)), RLNil).
Proof.
  induction fuel as [|f IH]; intros src b n Hfr Hfuel; [lia|].
  rewrite bufio_read_lines_loop_S. change "010"%char with nl.
  pose proof Hfr as (Hwf & Hpr & Hfe & HT).
  destruct (read_string_b_spec nl b Hwf) as (out & e & b' & -> & Hpost).
  pose proof (cf_post_wf nl b out e b' Hwf Hpost) as Hwf'.
  pose proof (cf_post_progress nl b out e b' Hpost Hpr) as Hpr'.
  destruct Hpost as (_ & _ & Hf' & HTb & Hcase). rewrite HT in HTb. destruct e as [e|].
  - destruct Hcase as (Hnd & _ & Hbd' & [(-> & Hex)|(_ & Hnp)]); [|contradiction].
    rewrite Hfe.
    assert (HT' : T b' = []) by (unfold T; rewrite Hbd', (stream_exhausted _ Hex); reflexivity).
    rewrite HT', app_nil_r in HTb. subst out. rewrite (lines_no_newline src Hnd). cbn. rewrite Nat.add_0_r. reflexivity.
  - destruct Hcase as ((body & -> & Hnb) & _). cbv zeta.
    assert (Hfr' : file_reader (T b') b').
    { split; [exact Hwf'|]. split; [exact Hpr'|]. split; [congruence|reflexivity]. }
    rewrite (IH (T b') b' _ Hfr').
    + rewrite HTb, <- app_assoc. cbn [app]. rewrite (lines_first body (T b') Hnb). cbn [fst line_bytes].
      rewrite app_length. cbn [length]. replace (length body + 1 - 1) with (length body + 0) by lia.
      rewrite firstn_app_2. cbn [firstn]. rewrite app_nil_r. f_equal. f_equal. lia.
    + apply (f_equal (@length ascii)) in HTb. rewrite !app_length in HTb. cbn [length] in HTb. lia.
Qed.

(* readLines over bufio.NewReaderSize(file from the saved offset on), every buffer size, every
   cutting of those bytes by read(2): the lines and the byte count of Model/DirReader.v's
   [read_lines], and a nil error *)
Theorem bufio_read_lines_eq size cs : progress_ok cs ->
  bufio_read_lines size (eof_source cs) =
  (fst (read_lines (concat cs)), snd (read_lines (concat cs)), RLNil).
Proof.
  intros Hpr. unfold bufio_read_lines.
  rewrite (read_lines_loop_spec _ (concat cs) _ 0 (file_reader_new size cs Hpr)).
  - reflexivity.
  - unfold stream, eof_source. cbn [chunks last]. rewrite app_nil_r. lia.
Qed.
