(* Proofs about the syslog line parser model. *)
From Coq Require Import Ascii String List Bool Arith Lia.
Import ListNotations.
From AM Require Import Lib.Bytes Model.Syslog.

Lemma split_sp_nonempty s : split_sp s <> [].
Proof.
  destruct s as [|c r]; [discriminate|]. cbn [split_sp].
  destruct (Ascii.eqb c sp); [discriminate|]. destruct (split_sp r); discriminate.
Qed.

Lemma split_sp_no_space s : ~ In sp s -> split_sp s = [s].
Proof.
  induction s as [|c r IH]; intros Hn; [reflexivity|].
  cbn [split_sp]. destruct (Ascii.eqb_spec c sp) as [->|Hne]; [exfalso; apply Hn; left; reflexivity|].
  rewrite IH by (intros H; apply Hn; right; exact H). reflexivity.
Qed.

(* the first part is the text before the first space, the other parts are the split of the rest *)
Lemma split_sp_first a b : ~ In sp a -> split_sp (a ++ sp :: b) = a :: split_sp b.
Proof.
  induction a as [|c r IH]; intros Hn.
  - reflexivity.
  - cbn [app split_sp]. destruct (Ascii.eqb_spec c sp) as [->|Hne]; [exfalso; apply Hn; left; reflexivity|].
    rewrite IH by (intros H; apply Hn; right; exact H). reflexivity.
Qed.

Lemma join_split s : join_sp (split_sp s) = s.
Proof.
  induction s as [|c r IH]; [reflexivity|].
  cbn [split_sp]. destruct (Ascii.eqb_spec c sp) as [->|Hne].
  - cbn [join_sp]. destruct (split_sp r) as [|x xs] eqn:E; [exfalso; exact (split_sp_nonempty r E)|].
    cbn [app]. f_equal. exact IH.
  - destruct (split_sp r) as [|x xs] eqn:E; [exfalso; exact (split_sp_nonempty r E)|].
    cbn [join_sp] in *. destruct xs as [|y ys]; cbn [app]; f_equal; exact IH.
Qed.

Lemma first_space s : In sp s -> exists a b, s = a ++ sp :: b /\ ~ In sp a.
Proof.
  induction s as [|c r IH]; intros Hin; [destruct Hin|].
  destruct (Ascii.eqb_spec c sp) as [->|Hne].
  - exists [], r. split; [reflexivity|intros []].
  - destruct Hin as [Hc|Hr]; [exfalso; apply Hne; exact Hc|].
    destruct (IH Hr) as (a & b & -> & Ha). exists (c :: a), b. split; [reflexivity|].
    intros [H|H]; [apply Hne; exact H|apply Ha; exact H].
Qed.

(* (a) Join(Split(s," ")[1:], " ") is exactly the text after the first space: spacing inside
   the message is preserved *)
Theorem split_join : forall a b, ~ In sp a ->
  hd [] (split_sp (a ++ sp :: b)) = a /\ join_sp (tl (split_sp (a ++ sp :: b))) = b.
Proof. intros a b Ha. rewrite split_sp_first by exact Ha. cbn [hd tl]. split; [reflexivity|apply join_split]. Qed.

Theorem split_join_ex : forall s, In sp s ->
  exists a b, s = a ++ sp :: b /\ ~ In sp a /\
              hd [] (split_sp s) = a /\ join_sp (tl (split_sp s)) = b.
Proof.
  intros s Hin. destruct (first_space s Hin) as (a & b & -> & Ha). exists a, b.
  split; [reflexivity|]. split; [exact Ha|]. apply split_join. exact Ha.
Qed.

Lemma split_sp_length_first a b : ~ In sp a -> 2 <= length (split_sp (a ++ sp :: b)).
Proof.
  intros Ha. rewrite split_sp_first by exact Ha. cbn [length].
  destruct (split_sp b) eqn:E; [exfalso; exact (split_sp_nonempty b E)|cbn; lia].
Qed.

Theorem parse_with_space : forall a b, ~ In sp a -> parse (a ++ sp :: b) = (a, trim_left_sp b).
Proof.
  intros a b Ha. unfold parse. pose proof (split_sp_length_first a b Ha) as Hl.
  destruct (Nat.ltb_spec (length (split_sp (a ++ sp :: b))) 2) as [H|H]; [lia|].
  destruct (split_join a b Ha) as [-> ->]. reflexivity.
Qed.

Lemma trim_left_pad n msg : hd_error msg <> Some sp -> trim_left_sp (repeat sp n ++ msg) = msg.
Proof.
  intros Hm. induction n as [|n IH].
  - cbn [repeat app]. destruct msg as [|c r]; [reflexivity|].
    cbn [trim_left_sp]. destruct (Ascii.eqb_spec c sp) as [->|Hne]; [exfalso; apply Hm; reflexivity|reflexivity].
  - cbn [repeat app trim_left_sp]. rewrite Ascii.eqb_refl. exact IH.
Qed.

Lemma trim_nl_app x : trim_nl (x ++ [nl]) = x.
Proof.
  induction x as [|c x IH].
  - reflexivity.
  - cbn [app trim_nl]. destruct (x ++ [nl]) as [|a l] eqn:E.
    + destruct x; discriminate E.
    + f_equal. exact IH.
Qed.

Lemma trim_nl_none x : last x sp <> nl -> trim_nl x = x.
Proof.
  induction x as [|c x IH]; intros Hl; [reflexivity|].
  cbn [trim_nl]. destruct x as [|a l].
  - cbn in Hl. destruct (Ascii.eqb_spec c nl) as [->|]; [exfalso; apply Hl; reflexivity|reflexivity].
  - f_equal. apply IH. exact Hl.
Qed.

(* (b) a framed line "<tok> <padding><msg>\n" is handed over as (tok, msg) *)
Theorem parse_framed : forall tok n msg,
  ~ In sp tok -> hd_error msg <> Some sp ->
  process_line (tok ++ sp :: repeat sp n ++ msg ++ [nl]) = (tok, msg).
Proof.
  intros tok n msg Htok Hmsg. unfold process_line.
  replace (tok ++ sp :: repeat sp n ++ msg ++ [nl]) with ((tok ++ sp :: repeat sp n ++ msg) ++ [nl])
    by (rewrite <- !app_assoc; cbn [app]; rewrite <- !app_assoc; reflexivity).
  rewrite trim_nl_app, parse_with_space by exact Htok. rewrite trim_left_pad by exact Hmsg. reflexivity.
Qed.

(* without the trailing newline the line is parsed as it is *)
Theorem process_unterminated : forall line, last line sp <> nl -> process_line line = parse line.
Proof. intros line H. unfold process_line. rewrite trim_nl_none by exact H. reflexivity. Qed.

(* (c) totality: fewer than two parts exactly when there is no space, and then the empty entry *)
Theorem few_parts_iff : forall s, length (split_sp s) < 2 <-> ~ In sp s.
Proof.
  intros s. split.
  - intros Hl Hin. destruct (first_space s Hin) as (a & b & -> & Ha).
    pose proof (split_sp_length_first a b Ha). lia.
  - intros Hn. rewrite split_sp_no_space by exact Hn. cbn. lia.
Qed.

Theorem parse_few : forall s, ~ In sp s -> parse s = ([], []).
Proof. intros s Hn. unfold parse. rewrite split_sp_no_space by exact Hn. reflexivity. Qed.

Theorem parse_few_parts : forall s, length (split_sp s) < 2 -> parse s = ([], []).
Proof. intros s H. apply parse_few. apply few_parts_iff. exact H. Qed.

Theorem parse_total : forall s,
  (~ In sp s /\ parse s = ([], [])) \/
  (exists a b, s = a ++ sp :: b /\ ~ In sp a /\ parse s = (a, trim_left_sp b)).
Proof.
  intros s. destruct (in_dec Ascii.ascii_dec sp s) as [Hin|Hn].
  - right. destruct (first_space s Hin) as (a & b & -> & Ha). exists a, b.
    split; [reflexivity|]. split; [exact Ha|]. apply parse_with_space. exact Ha.
  - left. split; [exact Hn|apply parse_few; exact Hn].
Qed.
