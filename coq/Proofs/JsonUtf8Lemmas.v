(* The text of a string, of a value and of an event is well-formed UTF-8, whatever bytes the fields hold. *)
From Coq Require Import Ascii String List Bool Arith NArith ZArith Lia.
Import ListNotations.
From AM Require Import Lib.Bytes Model.JsonEnc Proofs.JsonEncLemmas.
Open Scope list_scope.
Open Scope N_scope.

Lemma decode_rune_prefix s t n : snd (decode_rune s) = n -> (2 <= n)%nat ->
  decode_rune (firstn n s ++ t) = decode_rune s.
Proof.
  intros Hn H2. subst n.
  destruct s as [|b0 r1]; [cbn in H2; lia|].
  unfold decode_rune in *.
  destruct (nb b0 <? 0x80) eqn:E0; [cbn in H2; lia|].
  destruct (lead_info (nb b0)) as [[[sz lo] hi]|] eqn:EL; [|cbn in H2; lia].
  destruct r1 as [|b1 r2]; [cbn in H2; lia|].
  destruct ((nb b1 <? lo) || (hi <? nb b1)) eqn:E1; [cbn in H2; lia|].
  destruct (sz <=? 2)%nat eqn:S2.
  { cbn [snd firstn app]. rewrite E0, EL, E1, S2. reflexivity. }
  destruct r2 as [|b2 r3]; [cbn in H2; lia|].
  destruct (is_cont (nb b2)) eqn:C2; cbn [negb] in *; [|cbn in H2; lia].
  destruct (sz <=? 3)%nat eqn:S3.
  { cbn [snd firstn app]. rewrite E0, EL, E1, S2, C2, S3. reflexivity. }
  destruct r3 as [|b3 r4]; [cbn in H2; lia|].
  destruct (is_cont (nb b3)) eqn:C3; cbn [negb] in *; [|cbn in H2; lia].
  cbn [snd firstn app]. rewrite E0, EL, E1, S2, C2, S3, C3. reflexivity.
Qed.

Lemma firstn_length_app {A} (l t : list A) : firstn (length l) (l ++ t) = l.
Proof. induction l as [|x l IH]; [reflexivity|]. cbn. rewrite IH. reflexivity. Qed.

Lemma skipn_length_app {A} (l t : list A) : skipn (length l) (l ++ t) = t.
Proof. induction l as [|x l IH]; [reflexivity|]. cbn. exact IH. Qed.

(* a well-formed multi-byte sequence in front of any text is one step of the loop *)
Lemma runes_multi_app bytes t c n : decode_rune bytes = (c, n) -> (2 <= n)%nat -> length bytes = n ->
  runes (bytes ++ t) = (c, n, bytes) :: runes t.
Proof.
  intros E Hn Hl.
  assert (firstn n bytes = bytes) as Ef by (rewrite <- Hl; apply firstn_all).
  assert (decode_rune (bytes ++ t) = (c, n)) as E'.
  { rewrite <- Ef at 1. rewrite (decode_rune_prefix bytes t n); [exact E|rewrite E; reflexivity|exact Hn]. }
  subst n. destruct bytes as [|b r]; [cbn in Hn; lia|].
  change ((b :: r) ++ t) with (b :: r ++ t) in *.
  rewrite (runes_step b (r ++ t) c _ E').
  change (b :: r ++ t) with ((b :: r) ++ t).
  rewrite firstn_length_app, skipn_length_app. reflexivity.
Qed.

Lemma runes_ascii_cons b t : nb b < 0x80 -> runes (b :: t) = (nb b, 1%nat, [b]) :: runes t.
Proof.
  intros Hb. assert (decode_rune (b :: t) = (nb b, 1%nat)) as E.
  { unfold decode_rune. assert (nb b <? 0x80 = true) as -> by (apply N.ltb_lt; exact Hb). reflexivity. }
  rewrite (runes_step b t _ _ E). reflexivity.
Qed.

Definition is_asciib (c : ascii) : bool := nb c <? 0x80.

Lemma valid_ascii_app l t : forallb is_asciib l = true -> valid_utf8 (l ++ t) = valid_utf8 t.
Proof.
  induction l as [|b l IH]; intros H; [reflexivity|].
  cbn [forallb] in H. apply andb_true_iff in H. destruct H as [Hb Hl]. unfold is_asciib in Hb. apply N.ltb_lt in Hb.
  cbn [app]. unfold valid_utf8 in *. rewrite runes_ascii_cons by exact Hb. cbn [forallb is_invalid].
  assert (nb b =? rune_error = false) as -> by (apply N.eqb_neq; unfold rune_error; lia).
  cbn [andb negb]. apply IH. exact Hl.
Qed.

Lemma valid_multi_app bytes t c n : decode_rune bytes = (c, n) -> (2 <= n)%nat -> length bytes = n ->
  valid_utf8 (bytes ++ t) = valid_utf8 t.
Proof.
  intros E Hn Hl. unfold valid_utf8. rewrite (runes_multi_app bytes t c n E Hn Hl). cbn [forallb is_invalid].
  assert ((n =? 1)%nat = false) as -> by (apply Nat.eqb_neq; lia). rewrite andb_false_r. reflexivity.
Qed.

(* valid text in front does not change the verdict on what follows *)
Lemma runes_bytes_decode s : Forall (fun r => let '(c, n, bytes) := r in (2 <= n)%nat -> decode_rune bytes = (c, n) /\ length bytes = n) (runes s).
Proof.
  induction s as [|b r IH] using rune_ind; [constructor|].
  destruct (decode_rune (b :: r)) as [c n] eqn:E.
  rewrite (runes_step b r c n E). constructor.
  - intros Hn. split.
    + rewrite <- (app_nil_r (firstn n (b :: r))). rewrite (decode_rune_prefix (b :: r) [] n); [exact E|rewrite E; reflexivity|exact Hn].
    + pose proof (first_rune_ok' b r c n E) as Hok. unfold rune_ok in Hok.
      destruct Hok as [(x & _ & -> & _) | [(x & _ & -> & _) | (_ & Hl & _)]]; [lia|lia|exact Hl].
  - exact IH.
Qed.

Theorem valid_app a b : valid_utf8 a = true -> valid_utf8 (a ++ b) = valid_utf8 b.
Proof.
  intros Ha.
  assert (forall rs, Forall rune_ok rs ->
            Forall (fun r => let '(c, n, bytes) := r in (2 <= n)%nat -> decode_rune bytes = (c, n) /\ length bytes = n) rs ->
            forallb (fun r => negb (is_invalid r)) rs = true ->
            valid_utf8 (flat_map snd rs ++ b) = valid_utf8 b) as G.
  { induction rs as [|[[c n] bytes] rs IH]; intros Hok Hdec Hv; [reflexivity|].
    inversion Hok as [|r' rs' Hr Hrs]; subst. inversion Hdec as [|r'' rs'' Hd Hds]; subst.
    cbn [forallb] in Hv. apply andb_true_iff in Hv. destruct Hv as [Hv1 Hv2].
    cbn [flat_map snd]. rewrite <- app_assoc.
    destruct Hr as [(x & -> & -> & Hx & ->) | [(x & -> & -> & Hx & ->) | (Hn & Hl & _)]].
    - rewrite (valid_ascii_app [x]); [apply IH; assumption|]. cbn. unfold is_asciib. rewrite (proj2 (N.ltb_lt _ _) Hx). reflexivity.
    - exfalso. cbn [is_invalid] in Hv1. rewrite N.eqb_refl in Hv1. discriminate Hv1.
    - destruct (Hd Hn) as [Hd1 _]. rewrite (valid_multi_app bytes _ c n Hd1 Hn Hl). apply IH; assumption. }
  rewrite <- (runes_concat a). apply G; [apply runes_ok|apply runes_bytes_decode|exact Ha].
Qed.

Lemma valid_nil : valid_utf8 [] = true.
Proof. reflexivity. Qed.

Lemma valid_ascii l : forallb is_asciib l = true -> valid_utf8 l = true.
Proof. intros H. rewrite <- (app_nil_r l). rewrite valid_ascii_app by exact H. reflexivity. Qed.

(* ---------- the text of a string ---------- *)

Lemma esc_ascii_ascii_all : forallb (fun b => if nb b <? 0x80 then forallb is_asciib (esc_ascii b) else true) all_bytes = true.
Proof. vm_compute. reflexivity. Qed.

Lemma enc_rune_valid r t : rune_ok r -> (let '(c, n, bytes) := r in (2 <= n)%nat -> decode_rune bytes = (c, n) /\ length bytes = n) ->
  valid_utf8 (enc_rune r ++ t) = valid_utf8 t.
Proof.
  destruct r as [[c n] bytes]. intros [(b & -> & -> & Hb & ->) | [(b & -> & -> & Hb & ->) | (Hn & Hl & Hall & Hls)]] Hd; cbn [enc_rune].
  - assert (nb b <? 0x80 = true) as E by (apply N.ltb_lt; exact Hb). rewrite E.
    apply valid_ascii_app. pose proof (byte_forall _ esc_ascii_ascii_all b) as H. cbv beta in H. rewrite E in H. exact H.
  - assert (nb b <? 0x80 = false) as E by (apply N.ltb_ge; exact Hb). rewrite E. apply valid_ascii_app. reflexivity.
  - destruct (Hd Hn) as [Hd1 _].
    destruct bytes as [|x [|y l]]; [cbn in Hl; lia|cbn in Hl; lia|].
    destruct ((c =? 0x2028) || (c =? 0x2029)) eqn:E.
    + apply valid_ascii_app. apply orb_true_iff in E. destruct E as [E | E]; apply N.eqb_eq in E; subst c; reflexivity.
    + apply (valid_multi_app _ t c n Hd1 Hn Hl).
Qed.

Lemma enc_body_valid_app s t : valid_utf8 (enc_body s ++ t) = valid_utf8 t.
Proof.
  rewrite enc_body_runes.
  pose proof (runes_ok s) as Hok. pose proof (runes_bytes_decode s) as Hdec.
  induction (runes s) as [|r rs IH]; [reflexivity|].
  inversion Hok as [|r' rs' Hr Hrs]; subst. inversion Hdec as [|r'' rs'' Hd Hds]; subst.
  cbn [flat_map]. rewrite <- app_assoc. rewrite (enc_rune_valid r _ Hr Hd). apply IH; assumption.
Qed.

(* whatever the string holds, its text is well-formed UTF-8 (and stays so in front of any well-formed text) *)
Theorem enc_string_valid_app s t : valid_utf8 (enc_string s ++ t) = valid_utf8 t.
Proof.
  unfold enc_string. change ((dq :: enc_body s ++ [dq]) ++ t) with ([dq] ++ (enc_body s ++ [dq]) ++ t).
  rewrite (valid_ascii_app [dq]) by reflexivity. rewrite <- app_assoc. rewrite enc_body_valid_app.
  apply (valid_ascii_app [dq]). reflexivity.
Qed.

Theorem enc_string_valid s : valid_utf8 (enc_string s) = true.
Proof. rewrite <- (app_nil_r (enc_string s)). rewrite enc_string_valid_app. reflexivity. Qed.

(* ---------- values, events ---------- *)

Lemma txt_utf8_arr l : txt_utf8 (JArr l) = forallb txt_utf8 l.
Proof. reflexivity. Qed.
Lemma txt_utf8_obj m : txt_utf8 (JObj m) = forallb (fun kv => txt_utf8 (snd kv)) m.
Proof. reflexivity. Qed.

Definition transparent (x : str) : Prop := forall t, valid_utf8 (x ++ t) = valid_utf8 t.

Lemma transparent_app x y : transparent x -> transparent y -> transparent (x ++ y).
Proof. intros Hx Hy t. rewrite <- app_assoc. rewrite Hx. apply Hy. Qed.

Lemma transparent_ascii l : forallb is_asciib l = true -> transparent l.
Proof. intros H t. apply valid_ascii_app. exact H. Qed.

Lemma transparent_join ls : Forall transparent ls -> transparent (join_comma ls).
Proof.
  induction ls as [|x [|y r] IH]; intros H.
  - intros t. reflexivity.
  - inversion H; subst. assumption.
  - inversion H as [|x' l' Hx Hr]; subst.
    change (join_comma (x :: y :: r)) with (x ++ s2l "," ++ join_comma (y :: r)).
    apply transparent_app; [exact Hx|]. apply transparent_app; [apply transparent_ascii; reflexivity|apply IH; exact Hr].
Qed.

Theorem enc_value_transparent v : txt_utf8 v = true -> transparent (enc_value v).
Proof.
  induction v as [s|t| |l IH|m IH] using jval_ind'; intros Hok.
  - intros t. apply enc_string_valid_app.
  - intros t'. cbn [enc_value txt_utf8] in *. apply valid_app. exact Hok.
  - apply transparent_ascii. reflexivity.
  - rewrite enc_value_arr. rewrite txt_utf8_arr in Hok.
    apply transparent_app; [apply transparent_ascii; reflexivity|].
    apply transparent_app; [|apply transparent_ascii; reflexivity].
    apply transparent_join. rewrite Forall_forall in *. intros x Hx. apply in_map_iff in Hx. destruct Hx as (v & <- & Hv).
    rewrite forallb_forall in Hok. apply IH; [exact Hv|apply Hok; exact Hv].
  - rewrite enc_value_obj. rewrite txt_utf8_obj in Hok.
    apply transparent_app; [apply transparent_ascii; reflexivity|].
    apply transparent_app; [|apply transparent_ascii; reflexivity].
    apply transparent_join. rewrite Forall_forall in *. intros x Hx. apply in_map_iff in Hx. destruct Hx as (kv & <- & Hkv).
    unfold enc_member. apply transparent_app; [intros t; apply enc_string_valid_app|].
    apply transparent_app; [apply transparent_ascii; reflexivity|].
    rewrite forallb_forall in Hok. apply IH; [exact Hkv|apply Hok; exact Hkv].
Qed.

Lemma time_char_ascii_all : forallb (fun c => implb (time_char_ok c) (is_asciib c)) all_bytes = true.
Proof. vm_compute. reflexivity. Qed.

Lemma time_json_utf8 t : time_text_ok t = true -> txt_utf8 (time_json t) = true.
Proof.
  unfold time_text_ok, time_json. intros H. cbn [txt_utf8]. apply valid_ascii.
  cbn [forallb]. rewrite forallb_app. cbn [forallb].
  change (is_asciib dq) with true. cbn [andb]. rewrite andb_true_r.
  apply forallb_forall. intros c Hc. rewrite forallb_forall in H.
  pose proof (byte_forall _ time_char_ascii_all c) as G. cbv beta in G. rewrite (H c Hc) in G. exact G.
Qed.

Lemma jmap_utf8 m : forallb (fun kv => txt_utf8 (snd kv)) m = true -> txt_utf8 (jmap m) = true.
Proof. intros H. unfold jmap. rewrite txt_utf8_obj. apply forallb_sort_kv. exact H. Qed.

Lemma jstr_map_utf8 m : txt_utf8 (jstr_map m) = true.
Proof.
  unfold jstr_map. apply jmap_utf8. apply forallb_forall. intros kv Hkv.
  apply in_map_iff in Hkv. destruct Hkv as (x & <- & _). reflexivity.
Qed.

Lemma omit_if_utf8 b name v : txt_utf8 v = true -> forallb (fun kv => txt_utf8 (snd kv)) (omit_if b name v) = true.
Proof. intros H. destruct b; cbn; [reflexivity|]. rewrite H. reflexivity. Qed.

Theorem event_json_utf8 e : event_utf8 e = true -> txt_utf8 (event_json e) = true.
Proof.
  unfold event_utf8. intros H.
  apply andb_true_iff in H. destruct H as [H Hd]. apply andb_true_iff in H. destruct H as [H Hs].
  apply andb_true_iff in H. destruct H as [Ht Hm].
  unfold event_json. rewrite txt_utf8_obj. rewrite !forallb_app.
  cbn [forallb fld snd]. rewrite (time_json_utf8 _ Ht). rewrite !txt_utf8_obj. cbn [forallb fld snd txt_utf8].
  rewrite (omit_if_utf8 _ _ _ (jmap_utf8 _ Hm)), (omit_if_utf8 _ _ _ (jmap_utf8 _ Hs)).
  rewrite (omit_if_utf8 _ "target" _ (jstr_map_utf8 _)).
  assert (txt_utf8 match je_subjects e with Some m => jstr_map m | None => JNull end = true) as ->
    by (destruct (je_subjects e); [apply jstr_map_utf8|reflexivity]).
  destruct (je_data e) as [d|]; cbn [forallb fld snd]; [rewrite Hd|]; reflexivity.
Qed.

(* the whole line is well-formed UTF-8, whatever bytes the fields hold *)
Theorem enc_line_valid e : event_utf8 e = true -> valid_utf8 (enc_line e) = true.
Proof.
  intros H. unfold enc_line, enc_event. rewrite (enc_value_transparent _ (event_json_utf8 e H)). reflexivity.
Qed.

Lemma opt_jkv_utf8 k o : forallb (fun kv => txt_utf8 (snd kv)) (opt_jkv k o) = true.
Proof. destruct o; reflexivity. Qed.

Lemma login_view_utf8 aid t e : time_text_ok t = true -> event_utf8 (login_view aid t e) = true.
Proof.
  intros Ht. unfold event_utf8, login_view. cbn [je_logged_at je_meta_extra je_src_extra je_data].
  rewrite Ht, opt_jkv_utf8, forallb_app, !opt_jkv_utf8. cbn [andb].
  destruct (SshdProc.ev_data e); [reflexivity|apply jstr_map_utf8].
Qed.

Lemma object_json_utf8 o : txt_utf8 (object_json o) = true.
Proof.
  unfold object_json. rewrite txt_utf8_obj, !forallb_app.
  rewrite !omit_if_utf8 by reflexivity. reflexivity.
Qed.

Lemma action_view_utf8 t a : time_text_ok t = true -> event_utf8 (action_view t a) = true.
Proof.
  intros Ht. unfold event_utf8, action_view. cbn [je_logged_at je_meta_extra je_src_extra je_data].
  rewrite Ht. cbn [andb]. rewrite andb_true_r. apply andb_true_iff. split.
  - rewrite forallb_app. cbn [forallb snd txt_utf8]. rewrite object_json_utf8. cbn [andb].
    destruct (ToEvent.ua_args a) as [args|]; [|reflexivity]. cbn [forallb snd]. rewrite txt_utf8_arr.
    rewrite andb_true_r. apply forallb_forall. intros v Hv. apply in_map_iff in Hv. destruct Hv as (x & <- & _). reflexivity.
  - apply forallb_forall. intros kv Hkv. apply in_map_iff in Hkv. destruct Hkv as (x & <- & _). reflexivity.
Qed.
