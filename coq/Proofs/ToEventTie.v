(* The hand model of the UserAction rendering (Model/ToEvent.to_event) equals the interpretation of the
   sketch go2v reads from the Go source of user.toAuditEvent (Gen/ToEventSketch.v).  A change of the
   source that changes the sketch (outcome rule, field origins, metadata keys, the process_args guard,
   the copying of Subjects) makes this file fail to compile. *)
From Coq Require Import Ascii String List Bool ZArith.
Import ListNotations.
From AM Require Import Lib.Bytes Model.ToEvent Gen.ToEventSketch Model.ToEventSketch.
Open Scope string_scope.

(* the generated outcome rule is the model's *)
Lemma outcome_rule_from_source : forall r,
  te_outcome_by (te_outcome_cases generated_sketch) (te_outcome_default generated_sketch) r = outcome_of r.
Proof.
  intro r. unfold outcome_of, result_success. cbn [generated_sketch te_outcome_cases te_outcome_default te_outcome_by].
  destruct (seqb r (s2l "success")); [reflexivity|].
  destruct (seqb r (s2l "fail")); reflexivity.
Qed.

(* MAIN TIE *)
Theorem to_event_from_source : forall l e, render_sketch generated_sketch l e = Some (to_event l e).
Proof.
  intros l e.
  assert (H := outcome_rule_from_source (ce_result e)).
  unfold render_sketch, to_event.
  cbn [generated_sketch te_extra te_extra_ok te_ident te_subjects te_source te_target te_logged_at te_audit_id
       te_outcome_scrutinee te_extra_guarded te_time te_string te_object te_strings te_args te_lookup
       te_type te_component te_outcome_cases te_outcome_default] in *.
  vm_compute (te_extra_ok _). cbv iota.
  cbn [te_lookup String.eqb Ascii.eqb Bool.eqb te_string te_object te_strings te_args]. 
  rewrite H. unfold args_of.
  destruct l; destruct (ce_args e); reflexivity.
Qed.

(* aliasing, as read from the source: Subjects is copied entry by entry into a fresh map (so the
   written event never shares its subjects map with the stored login); Source and Target are passed on *)
Lemma generated_aliasing :
  te_subjects_copied generated_sketch = true /\
  te_source_copied generated_sketch = false /\
  te_target_copied generated_sketch = false.
Proof. repeat split; reflexivity. Qed.

(* the guard of process_args and the value are the same field *)
Lemma generated_args_guard :
  te_extra_guarded generated_sketch = [(GuardNonEmpty FromEvProcessArgs, "process_args", FromEvProcessArgs)].
Proof. reflexivity. Qed.

Print Assumptions to_event_from_source.
Print Assumptions generated_aliasing.
