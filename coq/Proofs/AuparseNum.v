(* strconv.ParseUint / ParseInt (base 10) of Model/Auparse.v: the loop with the cutoff test and the wrapping
   addition computes the decimal value [dec_val] (Horner fold) and accepts exactly the non-empty digit
   strings whose value fits; ParseInt adds one optional sign. *)
From Coq Require Import Ascii String List Bool Arith NArith ZArith Lia.
Import ListNotations.
From AM Require Import Lib.Bytes Lib.GoStrings Model.Auparse.
Open Scope list_scope.

(* ------------------------------------------------------------------ decimal value *)

Fixpoint dec_val_from (n : N) (s : str) : N :=
  match s with
  | [] => n
  | c :: r => dec_val_from (n * 10 + digit_val c) r
  end.

Definition dec_val (s : str) : N := dec_val_from 0 s.

Definition all_digits (s : str) : bool := forallb is_digit s.

Lemma dec_val_from_ge s : forall n, (n <= dec_val_from n s)%N.
Proof.
  induction s as [|c r IH]; intros n; cbn [dec_val_from]; [lia|].
  specialize (IH (n * 10 + digit_val c)%N). lia.
Qed.

Lemma dec_val_from_mono s : forall n m, (n <= m)%N -> (dec_val_from n s <= dec_val_from m s)%N.
Proof.
  induction s as [|c r IH]; intros n m H; cbn [dec_val_from]; [exact H|].
  apply IH. lia.
Qed.

Lemma dec_val_from_app a b n : dec_val_from n (a ++ b) = dec_val_from (dec_val_from n a) b.
Proof. revert n. induction a as [|c r IH]; intros n; cbn [app dec_val_from]; [reflexivity|apply IH]. Qed.

(* leading zeros do not change the value *)
Lemma dec_val_zeros k s : dec_val (repeat "0"%char k ++ s) = dec_val s.
Proof.
  unfold dec_val. induction k as [|k IH]; [reflexivity|].
  cbn [repeat app dec_val_from]. exact IH.
Qed.

Lemma digit_val_le c : is_digit c = true -> (digit_val c <= 9)%N.
Proof.
  unfold is_digit, digit_val. intros H. apply andb_true_iff in H. destruct H as [H1 H2].
  apply N.leb_le in H1. apply N.leb_le in H2. lia.
Qed.

(* ------------------------------------------------------------------ one step of the loop *)

Lemma mod_two64_wrap x : (two64 <= x)%N -> (x < 2 * two64)%N -> (x mod two64 = x - two64)%N.
Proof.
  intros H1 H2. symmetry. apply (N.mod_unique x two64 1 (x - two64)); unfold two64 in *; lia.
Qed.

(* the source's three tests (n >= cutoff; n1 < n after n *= 10; n1 > maxVal) amount to n*10+d > maxVal *)
Lemma uint_step maxv n d :
  (n < two64)%N -> (maxv < two64)%N -> (d <= 9)%N ->
  (if (cutoff10 <=? n)%N then None
   else let n10 := go_u64_mul n 10 in
        let n1 := go_u64_add n10 d in
        if (n1 <? n10)%N || (maxv <? n1)%N then None else Some n1)
  = (if (n * 10 + d <=? maxv)%N then Some (n * 10 + d)%N else None).
Proof.
  intros Hn Hm Hd. unfold cutoff10, two64 in *.
  destruct (N.leb_spec 1844674407370955162 n) as [Hc|Hc].
  - destruct (N.leb_spec (n * 10 + d) maxv) as [H|H]; [lia|reflexivity].
  - cbv zeta. unfold go_u64_mul, go_u64_add.
    assert (H10 : go_u64 (n * 10) = (n * 10)%N) by (apply go_u64_small; unfold two64; lia).
    rewrite H10.
    destruct (N.lt_ge_cases (n * 10 + d) 18446744073709551616) as [Hs|Hs].
    + assert (H1 : go_u64 (n * 10 + d) = (n * 10 + d)%N) by (apply go_u64_small; unfold two64; lia).
      rewrite H1.
      destruct (N.ltb_spec (n * 10 + d) (n * 10)) as [Hx|Hx]; [lia|]. cbn [orb].
      destruct (N.ltb_spec maxv (n * 10 + d)) as [Hy|Hy];
        destruct (N.leb_spec (n * 10 + d) maxv) as [Hz|Hz]; try lia; reflexivity.
    + assert (H1 : go_u64 (n * 10 + d) = (n * 10 + d - 18446744073709551616)%N).
      { unfold go_u64. apply mod_two64_wrap; unfold two64; lia. }
      rewrite H1.
      destruct (N.ltb_spec (n * 10 + d - 18446744073709551616) (n * 10)) as [Hx|Hx]; [|lia]. cbn [orb].
      destruct (N.leb_spec (n * 10 + d) maxv) as [Hz|Hz]; [lia|reflexivity].
Qed.

(* ------------------------------------------------------------------ the loop *)

(* unfolding equations *)
Lemma parse_uint_loop_nil maxv n : parse_uint_loop maxv [] n = NumOk n.
Proof. reflexivity. Qed.

Lemma parse_uint_loop_cons maxv c r n :
  parse_uint_loop maxv (c :: r) n =
  if is_digit c then
    if (cutoff10 <=? n)%N then NumRange
    else let n10 := go_u64_mul n 10 in
         let n1 := go_u64_add n10 (digit_val c) in
         if (n1 <? n10)%N || (maxv <? n1)%N then NumRange else parse_uint_loop maxv r n1
  else NumSyntax.
Proof. reflexivity. Qed.

Lemma parse_uint_loop_digit maxv c r n :
  (n < two64)%N -> (maxv < two64)%N -> is_digit c = true ->
  parse_uint_loop maxv (c :: r) n =
  if (n * 10 + digit_val c <=? maxv)%N then parse_uint_loop maxv r (n * 10 + digit_val c) else NumRange.
Proof.
  intros Hn Hm Hc. rewrite parse_uint_loop_cons, Hc.
  pose proof (uint_step maxv n (digit_val c) Hn Hm (digit_val_le c Hc)) as S.
  cbv zeta in *.
  destruct (cutoff10 <=? n)%N.
  - destruct (n * 10 + digit_val c <=? maxv)%N; [discriminate|reflexivity].
  - destruct ((go_u64_add (go_u64_mul n 10) (digit_val c) <? go_u64_mul n 10)%N
              || (maxv <? go_u64_add (go_u64_mul n 10) (digit_val c))%N).
    + destruct (n * 10 + digit_val c <=? maxv)%N; [discriminate|reflexivity].
    + destruct (n * 10 + digit_val c <=? maxv)%N; [|discriminate].
      injection S as S. rewrite S. reflexivity.
Qed.

(* accepted exactly when all bytes are digits and the value fits *)
Lemma parse_uint_loop_ok maxv s : forall n v,
  (n <= maxv)%N -> (maxv < two64)%N ->
  (parse_uint_loop maxv s n = NumOk v <->
   all_digits s = true /\ v = dec_val_from n s /\ (v <= maxv)%N).
Proof.
  induction s as [|c r IH]; intros n v Hn Hm.
  - rewrite parse_uint_loop_nil. cbn. split.
    + intros [= <-]. split; [reflexivity|split; [reflexivity|exact Hn]].
    + intros (_ & -> & _). reflexivity.
  - cbn [all_digits forallb dec_val_from]. destruct (is_digit c) eqn:Hc.
    + rewrite parse_uint_loop_digit by (try exact Hc; try exact Hm; lia).
      destruct (N.leb_spec (n * 10 + digit_val c) maxv) as [Hle|Hgt].
      * rewrite (IH _ v Hle Hm). cbn [andb]. reflexivity.
      * split; [discriminate|]. intros (_ & -> & Hv).
        pose proof (dec_val_from_ge r (n * 10 + digit_val c)). lia.
    + rewrite parse_uint_loop_cons, Hc. split; [discriminate|]. intros (H & _). discriminate.
Qed.

(* a byte that is not a digit, met before the value overflows, is a syntax error; the loop never
   returns a value above maxVal *)
Lemma parse_uint_loop_le maxv s : forall n v,
  (n <= maxv)%N -> (maxv < two64)%N -> parse_uint_loop maxv s n = NumOk v -> (v <= maxv)%N.
Proof. intros n v Hn Hm H. apply (parse_uint_loop_ok maxv s n v Hn Hm) in H. tauto. Qed.

Lemma max_val_lt bits : (bits <= 64)%N -> (max_val bits < two64)%N.
Proof.
  intros H. unfold max_val, two64.
  assert (2 ^ bits <= 2 ^ 64)%N by (apply N.pow_le_mono_r; lia).
  change (2 ^ 64)%N with 18446744073709551616%N in *.
  assert (0 < 2 ^ bits)%N by (apply N.neq_0_lt_0; apply N.pow_nonzero; lia). lia.
Qed.

Lemma max_val_succ bits : (max_val bits + 1 = 2 ^ bits)%N.
Proof.
  unfold max_val. assert (0 < 2 ^ bits)%N by (apply N.neq_0_lt_0; apply N.pow_nonzero; lia). lia.
Qed.

(* ------------------------------------------------------------------ ParseUint *)

(* strconv.ParseUint(s, 10, bits) succeeds with v exactly when s is a non-empty string of ASCII digits
   (leading zeros allowed, no sign, no underscore, no blank) whose decimal value v is below 2^bits *)
Theorem parse_uint_ok_iff bits s v :
  (bits <= 64)%N ->
  (parse_uint bits s = NumOk v <-> s <> [] /\ all_digits s = true /\ v = dec_val s /\ (v < 2 ^ bits)%N).
Proof.
  intros Hb. pose proof (max_val_lt bits Hb) as Hm. pose proof (max_val_succ bits) as Hs.
  destruct s as [|c r].
  - cbn. split; [discriminate|]. intros (H & _). congruence.
  - unfold parse_uint, dec_val.
    rewrite (parse_uint_loop_ok (max_val bits) (c :: r) 0 v) by (try exact Hm; lia).
    split.
    + intros (A & B & C). repeat split; try assumption; [discriminate|lia].
    + intros (_ & A & B & C). repeat split; try assumption. lia.
Qed.

Lemma parse_uint_digits bits s :
  (bits <= 64)%N -> s <> [] -> all_digits s = true -> (dec_val s < 2 ^ bits)%N ->
  parse_uint bits s = NumOk (dec_val s).
Proof. intros Hb H1 H2 H3. apply parse_uint_ok_iff; [exact Hb|]. repeat split; assumption. Qed.

Lemma parse_uint_nil bits : parse_uint bits [] = NumSyntax.
Proof. reflexivity. Qed.

(* ------------------------------------------------------------------ ParseInt *)

Lemma parse_int_cons bits c r :
  parse_int bits (c :: r) =
  let '(neg, body) := if Ascii.eqb c c_plus then (false, r)
                      else if Ascii.eqb c c_minus then (true, r) else (false, c :: r) in
  match parse_uint bits body with
  | NumSyntax => NumSyntax
  | NumRange => NumRange
  | NumOk un =>
      let cutoff := (2 ^ (bits - 1))%N in
      if negb neg && (cutoff <=? un)%N then NumRange
      else if neg && (cutoff <? un)%N then NumRange
      else NumOk (if neg then (- Z.of_N un)%Z else Z.of_N un)
  end.
Proof. reflexivity. Qed.

(* the shapes ParseInt accepts: digits, "+" digits, "-" digits *)
Inductive int_shape : str -> bool -> str -> Prop :=
| IsPlain ds : hd_error ds <> Some c_plus -> hd_error ds <> Some c_minus -> int_shape ds false ds
| IsPlus ds : int_shape (c_plus :: ds) false ds
| IsMinus ds : int_shape (c_minus :: ds) true ds.

Lemma digit_not_sign c : is_digit c = true -> c <> c_plus /\ c <> c_minus.
Proof.
  intros H. split; intros ->; vm_compute in H; discriminate.
Qed.

Lemma int_shape_plus r neg ds : int_shape (c_plus :: r) neg ds -> neg = false /\ ds = r.
Proof.
  intros H. inversion H; subst.
  - cbn in *. congruence.
  - split; reflexivity.
Qed.

Lemma int_shape_minus r neg ds : int_shape (c_minus :: r) neg ds -> neg = true /\ ds = r.
Proof.
  intros H. inversion H; subst.
  - cbn in *. congruence.
  - split; reflexivity.
Qed.

Lemma int_shape_plain c r neg ds :
  c <> c_plus -> c <> c_minus -> int_shape (c :: r) neg ds -> neg = false /\ ds = c :: r.
Proof.
  intros H1 H2 H. inversion H; subst.
  - split; reflexivity.
  - congruence.
  - congruence.
Qed.

(* what ParseInt makes of the unsigned value *)
Definition int_of (bits : N) (neg : bool) (r : numres N) : numres Z :=
  match r with
  | NumSyntax => NumSyntax
  | NumRange => NumRange
  | NumOk un =>
      let cutoff := (2 ^ (bits - 1))%N in
      if negb neg && (cutoff <=? un)%N then NumRange
      else if neg && (cutoff <? un)%N then NumRange
      else NumOk (if neg then (- Z.of_N un)%Z else Z.of_N un)
  end.

Lemma int_of_ok bits neg ds z :
  (1 <= bits <= 64)%N ->
  (int_of bits neg (parse_uint bits ds) = NumOk z <->
   ds <> [] /\ all_digits ds = true /\
   z = (if neg then - Z.of_N (dec_val ds) else Z.of_N (dec_val ds))%Z /\
   (- Z.of_N (2 ^ (bits - 1)) <= z < Z.of_N (2 ^ (bits - 1)))%Z).
Proof.
  intros [Hb1 Hb]. set (C := (2 ^ (bits - 1))%N).
  assert (HC : (2 ^ bits = 2 * C)%N).
  { unfold C. replace bits with (N.succ (bits - 1)) at 1 by lia. apply N.pow_succ_r'. }
  destruct (parse_uint bits ds) as [un| |] eqn:E.
  - apply parse_uint_ok_iff in E; [|exact Hb]. destruct E as (E1 & E2 & E3 & E4).
    unfold int_of. fold C. subst un. destruct neg; cbn [negb andb].
    + destruct (N.ltb_spec C (dec_val ds)) as [Hc|Hc].
      * split; [discriminate|]. intros (_ & _ & -> & Hr). lia.
      * split.
        -- intros [= <-]. split; [exact E1|split; [exact E2|split; [reflexivity|lia]]].
        -- intros (_ & _ & -> & _). reflexivity.
    + destruct (N.leb_spec C (dec_val ds)) as [Hc|Hc].
      * split; [discriminate|]. intros (_ & _ & -> & Hr). lia.
      * split.
        -- intros [= <-]. split; [exact E1|split; [exact E2|split; [reflexivity|lia]]].
        -- intros (_ & _ & -> & _). reflexivity.
  - cbn [int_of]. split; [discriminate|]. intros (H1 & H2 & -> & Hr).
    assert (X : parse_uint bits ds = NumOk (dec_val ds)).
    { apply parse_uint_digits; try assumption. destruct neg; lia. }
    congruence.
  - cbn [int_of]. split; [discriminate|]. intros (H1 & H2 & -> & Hr).
    assert (X : parse_uint bits ds = NumOk (dec_val ds)).
    { apply parse_uint_digits; try assumption. destruct neg; lia. }
    congruence.
Qed.

Lemma parse_int_shape bits c r :
  parse_int bits (c :: r) =
  if Ascii.eqb c c_plus then int_of bits false (parse_uint bits r)
  else if Ascii.eqb c c_minus then int_of bits true (parse_uint bits r)
  else int_of bits false (parse_uint bits (c :: r)).
Proof.
  rewrite parse_int_cons. destruct (Ascii.eqb c c_plus); [reflexivity|].
  destruct (Ascii.eqb c c_minus); reflexivity.
Qed.

(* strconv.ParseInt(s, 10, bits) succeeds with z exactly when s is an optional single sign followed by a
   non-empty string of ASCII digits whose signed value z lies in [-2^(bits-1), 2^(bits-1)) *)
Theorem parse_int_ok_iff bits s z :
  (1 <= bits <= 64)%N ->
  (parse_int bits s = NumOk z <->
   exists neg ds, int_shape s neg ds /\ ds <> [] /\ all_digits ds = true /\
                  z = (if neg then - Z.of_N (dec_val ds) else Z.of_N (dec_val ds))%Z /\
                  (- Z.of_N (2 ^ (bits - 1)) <= z < Z.of_N (2 ^ (bits - 1)))%Z).
Proof.
  intros Hb.
  destruct s as [|c r].
  - cbn. split; [discriminate|]. intros (neg & ds & Hs & Hne & _). inversion Hs; subst; congruence.
  - rewrite parse_int_shape.
    destruct (Ascii.eqb_spec c c_plus) as [->|Hp]; [|destruct (Ascii.eqb_spec c c_minus) as [->|Hm]].
    + rewrite (int_of_ok bits false r z Hb). split.
      * intros H. exists false, r. split; [constructor|exact H].
      * intros (neg & ds & Hs & H). apply int_shape_plus in Hs. destruct Hs as [-> ->]. exact H.
    + rewrite (int_of_ok bits true r z Hb). split.
      * intros H. exists true, r. split; [constructor|exact H].
      * intros (neg & ds & Hs & H). apply int_shape_minus in Hs. destruct Hs as [-> ->]. exact H.
    + rewrite (int_of_ok bits false (c :: r) z Hb). split.
      * intros H. exists false, (c :: r). split; [constructor; cbn; congruence|exact H].
      * intros (neg & ds & Hs & H). apply (int_shape_plain c r neg ds Hp Hm) in Hs.
        destruct Hs as [-> ->]. exact H.
Qed.

(* the three accepted shapes, as equations *)
Lemma parse_int_digits bits ds :
  (1 <= bits <= 64)%N -> ds <> [] -> all_digits ds = true -> (dec_val ds < 2 ^ (bits - 1))%N ->
  parse_int bits ds = NumOk (Z.of_N (dec_val ds)).
Proof.
  intros Hb H1 H2 H3. apply parse_int_ok_iff; [exact Hb|]. exists false, ds.
  repeat split; try assumption; try lia.
  destruct ds as [|c r]; [congruence|]. cbn in H2. apply andb_true_iff in H2. destruct H2 as [H2 _].
  destruct (digit_not_sign c H2). constructor; cbn; congruence.
Qed.

Lemma parse_int_plus bits ds :
  (1 <= bits <= 64)%N -> ds <> [] -> all_digits ds = true -> (dec_val ds < 2 ^ (bits - 1))%N ->
  parse_int bits (c_plus :: ds) = NumOk (Z.of_N (dec_val ds)).
Proof.
  intros Hb H1 H2 H3. apply parse_int_ok_iff; [exact Hb|]. exists false, ds.
  repeat split; try assumption; try lia. constructor.
Qed.

Lemma parse_int_minus bits ds :
  (1 <= bits <= 64)%N -> ds <> [] -> all_digits ds = true -> (dec_val ds <= 2 ^ (bits - 1))%N ->
  parse_int bits (c_minus :: ds) = NumOk (- Z.of_N (dec_val ds))%Z.
Proof.
  intros Hb H1 H2 H3. apply parse_int_ok_iff; [exact Hb|]. exists true, ds.
  repeat split; try assumption; try lia. constructor.
Qed.

(* every byte of an accepted number is a digit or (first byte only) a sign: in particular none of
   '(' '.' ':' ')' ' ' *)
Lemma parse_uint_ok_bytes bits s v c :
  (bits <= 64)%N -> parse_uint bits s = NumOk v -> In c s -> is_digit c = true.
Proof.
  intros Hb H Hin. apply parse_uint_ok_iff in H; [|exact Hb]. destruct H as (_ & H & _).
  unfold all_digits in H. rewrite forallb_forall in H. apply H. exact Hin.
Qed.

Lemma parse_int_ok_bytes bits s z c :
  (1 <= bits <= 64)%N -> parse_int bits s = NumOk z -> In c s ->
  is_digit c = true \/ c = c_plus \/ c = c_minus.
Proof.
  intros Hb H Hin. apply parse_int_ok_iff in H; [|exact Hb].
  destruct H as (neg & ds & Hs & _ & Hd & _).
  unfold all_digits in Hd. rewrite forallb_forall in Hd.
  inversion Hs; subst.
  - left. apply Hd. exact Hin.
  - destruct Hin as [<-|Hin]; [right; left; reflexivity|left; apply Hd; exact Hin].
  - destruct Hin as [<-|Hin]; [right; right; reflexivity|left; apply Hd; exact Hin].
Qed.

(* ranges of the results *)
Lemma parse_uint_range bits s v : (bits <= 64)%N -> parse_uint bits s = NumOk v -> (v < 2 ^ bits)%N.
Proof. intros Hb H. apply parse_uint_ok_iff in H; [tauto|exact Hb]. Qed.

Lemma parse_int_range bits s z :
  (1 <= bits <= 64)%N -> parse_int bits s = NumOk z ->
  (- Z.of_N (2 ^ (bits - 1)) <= z < Z.of_N (2 ^ (bits - 1)))%Z.
Proof.
  intros Hb H. apply parse_int_ok_iff in H; [|exact Hb].
  destruct H as (neg & ds & _ & _ & _ & _ & H). exact H.
Qed.

(* the header's numbers printed in plain decimal *)
Lemma decimal_fields ds : ds <> [] -> all_digits ds = true ->
  ((dec_val ds < 2 ^ 63)%N -> parse_int 64 ds = NumOk (Z.of_N (dec_val ds)) /\
                              parse_int 64 (c_plus :: ds) = NumOk (Z.of_N (dec_val ds))) /\
  ((dec_val ds <= 2 ^ 63)%N -> parse_int 64 (c_minus :: ds) = NumOk (- Z.of_N (dec_val ds))%Z) /\
  ((dec_val ds < 2 ^ 32)%N -> parse_uint 32 ds = NumOk (dec_val ds)) /\
  (forall k, dec_val (repeat "0"%char k ++ ds) = dec_val ds).
Proof.
  intros H1 H2. split; [|split; [|split]].
  - intros H. split; [apply parse_int_digits|apply parse_int_plus]; try assumption; lia.
  - intros H. apply parse_int_minus; try assumption; lia.
  - intros H. apply parse_uint_digits; try assumption; lia.
  - intros k. apply dec_val_zeros.
Qed.

(* ------------------------------------------------------------------ printing in plain decimal *)
From Coq Require Import DecimalN DecimalPos.

Fixpoint uint_str (u : Decimal.uint) : str :=
  match u with
  | Decimal.Nil => []
  | Decimal.D0 r => "0"%char :: uint_str r
  | Decimal.D1 r => "1"%char :: uint_str r
  | Decimal.D2 r => "2"%char :: uint_str r
  | Decimal.D3 r => "3"%char :: uint_str r
  | Decimal.D4 r => "4"%char :: uint_str r
  | Decimal.D5 r => "5"%char :: uint_str r
  | Decimal.D6 r => "6"%char :: uint_str r
  | Decimal.D7 r => "7"%char :: uint_str r
  | Decimal.D8 r => "8"%char :: uint_str r
  | Decimal.D9 r => "9"%char :: uint_str r
  end.

(* strconv.FormatUint(n, 10) / fmt's %d of a non-negative number: no sign, no leading zeros, "0" for 0 *)
Definition dec (n : N) : str := uint_str (N.to_uint n).

(* %03d of a non-negative number: padded with zeros to at least three digits *)
Definition dec3 (n : N) : str := repeat "0"%char (3 - length (dec n)) ++ dec n.

Lemma uint_str_digits u : all_digits (uint_str u) = true.
Proof. induction u; cbn; [reflexivity|exact IHu..]. Qed.

Lemma dec_val_uint_acc u : forall acc, dec_val_from (Npos acc) (uint_str u) = Npos (Pos.of_uint_acc u acc).
Proof.
  induction u as [|u IH|u IH|u IH|u IH|u IH|u IH|u IH|u IH|u IH|u IH]; intros acc;
    [reflexivity|
     cbn [uint_str dec_val_from Pos.of_uint_acc]; rewrite <- IH; f_equal;
     match goal with |- context [digit_val ?c] => let v := eval vm_compute in (digit_val c) in change (digit_val c) with v end;
     lia..].
Qed.

Lemma dec_val_uint u : dec_val (uint_str u) = Pos.of_uint u.
Proof.
  unfold dec_val.
  induction u as [|u IH|u IH|u IH|u IH|u IH|u IH|u IH|u IH|u IH|u IH];
    [reflexivity|exact IH|cbn [uint_str dec_val_from Pos.of_uint]; rewrite <- dec_val_uint_acc; reflexivity..].
Qed.

Theorem dec_spec n : dec n <> [] /\ all_digits (dec n) = true /\ dec_val (dec n) = n.
Proof.
  unfold dec. split; [|split].
  - destruct n as [|p]; [discriminate|]. cbn [N.to_uint].
    pose proof (DecimalPos.Unsigned.to_uint_nonnil p) as H. destruct (Pos.to_uint p); [congruence|discriminate..].
  - apply uint_str_digits.
  - rewrite dec_val_uint. change (Pos.of_uint (N.to_uint n)) with (N.of_uint (N.to_uint n)).
    apply DecimalN.Unsigned.of_to.
Qed.

Theorem dec3_spec n : dec3 n <> [] /\ all_digits (dec3 n) = true /\ dec_val (dec3 n) = n.
Proof.
  destruct (dec_spec n) as (H1 & H2 & H3). unfold dec3. split; [|split].
  - destruct (repeat "0"%char (3 - length (dec n))); [exact H1|discriminate].
  - unfold all_digits in *. rewrite forallb_app, H2, andb_true_r.
    induction (3 - length (dec n)) as [|k IH]; [reflexivity|exact IH].
  - rewrite dec_val_zeros. exact H3.
Qed.

Example dec_examples :
  dec 0 = s2l "0" /\ dec 1690000000 = s2l "1690000000" /\ dec3 7 = s2l "007" /\ dec3 999 = s2l "999" /\
  dec3 1234 = s2l "1234" /\ dec 4294967295 = s2l "4294967295".
Proof. vm_compute. repeat split; reflexivity. Qed.
