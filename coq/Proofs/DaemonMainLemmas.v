(* Proofs about main.go and the goroutine / flag structure of package cmd as generated into Gen/DaemonMain.v
   (wiringgen.go), tied to Model/Workers.v's exit status (C08). *)
From Coq Require Import String List Bool Arith Lia.
Import ListNotations.
From AM Require Import Gen.DaemonMain Model.Workers.
From AM Require Gen.Blocking.
Open Scope string_scope.

Definition mem (s : string) (l : list string) : bool := existsb (String.eqb s) l.
Definition is_nil {A} (l : list A) : bool := match l with [] => true | _ => false end.

(* ================= exit status and signals (C08) ================= *)

(* The process status of Model/Workers.v's [exited] IS the status func main yields, as interpreted from the
   source, for a non-nil / nil error of the runner; that error is RunNamedPipe's, which is eg.Wait()'s. *)
Theorem exit_status_from_source :
  (exit_status_on_error <> 0 /\ exit_status_on_nil = 0) /\
  (run_error_returned = true /\ Gen.Blocking.group_wait_error_returned = true /\ run_returns_nil_at_end = true) /\
  (forall s st, exited s = Some st ->
     st = if any_failed (d_ws s) then exit_status_on_error else exit_status_on_nil) /\
  (forall s st, exited s = Some st -> (st <> 0 <-> any_failed (d_ws s) = true)).
Proof.
  split; [split; [vm_compute; discriminate|reflexivity]|]. split; [repeat split; reflexivity|].
  split; intros s st; unfold exited; destruct (all_returned (d_ws s)); try discriminate;
    intros [= <-]; destruct (any_failed (d_ws s)).
  - reflexivity.
  - reflexivity.
  - split; [reflexivity|discriminate].
  - split; [intros H; exfalso; apply H; reflexivity|discriminate].
Qed.

Theorem signals_from_source :
  root_ctx_ctor = "signal.NotifyContext" /\ root_ctx_parent = "context.Background()" /\
  In 15 root_signal_numbers /\ In 2 root_signal_numbers /\
  root_stop_deferred = true /\ root_ctx_passed_to_run = true /\ run_args_plain = true /\
  Gen.Blocking.group_ctx_derived_from_root = true.
Proof. vm_compute. repeat split; auto. Qed.

Definition count_of (f : string) (l : list (string * nat)) : nat :=
  match find (fun p => String.eqb (fst p) f) l with Some p => snd p | None => 0 end.

(* every goroutine the daemon starts in packages main and cmd is started through the errgroup: no `go` statement;
   RunNamedPipe's <group>.Go calls are exactly the workers; the helpers' calls are the optional workers *)
Fixpoint list_beq_str (a b : list string) : bool :=
  match a, b with
  | [], [] => true
  | x :: a', y :: b' => String.eqb x y && list_beq_str a' b'
  | _, _ => false
  end.

Definition goroutines_managed_ok : bool :=
  is_nil bare_go_statements &&
  list_beq_str run_group_workers Gen.Blocking.group_workers &&
  Nat.eqb (count_of "RunNamedPipe" group_go_calls) (length Gen.Blocking.group_workers) &&
  forallb (fun o => Nat.eqb (count_of (fst (fst o)) group_go_calls) (snd (fst o))) optional_workers &&
  Nat.eqb (length group_go_calls) (S (length optional_workers)) &&
  forallb (fun o => mem (fst (fst o)) Gen.Blocking.group_optional) optional_workers &&
  forallb (fun f => mem f (map (fun o => fst (fst o)) optional_workers)) Gen.Blocking.group_optional.

Theorem goroutines_managed_from_source : goroutines_managed_ok = true.
Proof. vm_compute. reflexivity. Qed.

(* the optional workers need a flag that is off by default *)
Theorem optional_workers_off_by_default : forall f n fl, In (f, n, fl) optional_workers ->
  fl <> [] /\ forall x d, In (x, d) fl -> d = "false".
Proof.
  intros f n fl H. cbn in H. destruct H as [[= <- <- <-]|[[= <- <- <-]|[]]]; (split; [discriminate|]);
    intros x d Hin; cbn in Hin; repeat (destruct Hin as [[= <- <-]|Hin]; [reflexivity|]); destruct Hin.
Qed.

Theorem default_paths_distinct :
  sshd_pipe_default <> audit_pipe_default /\ events_output_default <> sshd_pipe_default /\
  events_output_default <> audit_pipe_default.
Proof. repeat split; discriminate. Qed.
