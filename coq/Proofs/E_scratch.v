From Coq Require Import List Bool Arith Lia.
Import ListNotations.
From AM Require Import Model.Errgroup Proofs.ErrgroupLemmas.

(* ================= safety theorems ================= *)

(* 1a. g.err is written at most once, the Once body is entered at most once, and the value of g.err is the error
   returned by the worker function of the goroutine that entered it *)
Theorem err_written_once : forall sc sched,
  let s := fst (exec sc sched) in let tr := snd (exec sc sched) in
  length (filter is_write tr) <= 1 /\ length (filter is_enter tr) <= 1 /\
  (s_err s = None -> filter is_write tr = []) /\
  (forall e, s_err s = Some e ->
     exists j w, filter is_enter tr = [EvEnter j] /\ filter is_write tr = [EvWrite j e] /\
                 In (EvRet j (Some e)) tr /\ nth_error sc j = Some w /\ w_res w = Some e).
Proof.
  intros sc sched s tr. destruct (inv_exec sc sched) as [I T]. fold s in I, T. fold tr in T.
  pose proof (t_write sc s tr T) as W. pose proof (t_enter sc s tr T) as E.
  repeat split.
  - destruct (s_err s); [destruct W as (j & -> & _)|rewrite W]; simpl; lia.
  - destruct (s_once s); [rewrite E|rewrite E|destruct E as (j & ->)]; simpl; lia.
  - intros N. rewrite N in W. exact W.
  - intros e N. rewrite N in W. destruct W as (j & W1 & W2 & W3).
    destruct (i_results sc s I j _ W3) as (w & Hw & Hr). exists j, w. repeat split; auto.
    apply (t_ret sc s tr T). exact W3.
Qed.

(* 1b. no data race on g.err: program order and the WaitGroup order every write before every read *)
Theorem err_race_free : forall sc sched, let tr := snd (exec sc sched) in
  (forall i e, never_before (EvDone i) (EvWrite i e) tr) /\
  (forall i, i < length sc -> precedes (EvDone i) EvWaitPass tr) /\
  (forall r, is_read r = true -> precedes EvWaitPass r tr) /\
  (forall i e r, is_read r = true -> never_before r (EvWrite i e) tr).
Proof.
  intros sc sched tr. destruct (inv_exec sc sched) as [I T]. fold tr in T.
  repeat split; [apply (o_write_done _ _ _ T) | apply (o_done_pass _ _ _ T) | apply (o_pass_read _ _ _ T) | apply (o_write_read _ _ _ T)].
Qed.

(* wg.Done never finds the counter at zero *)
Theorem no_panic : forall sc sched i, s_g (fst (exec sc sched)) i <> GPanic.
Proof. intros sc sched i. destruct (inv_exec sc sched) as [I _]. apply (i_nopanic _ _ I). Qed.

(* ---------- the group context ---------- *)

Lemma ctx_stable_step : forall sc c t k, s_ctx (fst c) = Some k -> s_ctx (fst (step sc c t)) = Some k.
Proof.
  intros sc [s tr] t k C. unfold step. simpl fst in *. destruct (act sc s t) as [[e s']|] eqn:A; [|exact C].
  simpl. act_inv A; simpl; auto; try congruence; rewrite C; reflexivity.
Qed.

(* 2a. a cancelled context is never un-cancelled and keeps its cause *)
Theorem ctx_stable : forall sc sched c k, s_ctx (fst c) = Some k -> s_ctx (fst (run sc c sched)) = Some k.
Proof.
  induction sched as [|t l IH]; intros c k C; [exact C|]. rewrite run_cons. apply IH. apply ctx_stable_step. exact C.
Qed.

(* every worker function returned nil, as seen after wg.Wait *)
Lemma all_nil_of_passed : forall sc s, SInv sc s -> passed_wait (s_c s) = true -> s_err s = None ->
  forall i w, nth_error sc i = Some w -> w_res w = None.
Proof.
  intros sc s I P N i w Hw.
  assert (L : i < length sc) by (apply nth_error_Some; rewrite Hw; discriminate).
  pose proof (sinv_passed_exit sc s I P i L) as X. destruct (s_g s i) eqn:G; try discriminate X.
  destruct (i_results sc s I i r) as (w' & Hw' & Hr); [rewrite G; reflexivity|].
  rewrite Hw in Hw'. inversion Hw'; subst w'. rewrite Hr. destruct r as [e|]; [exfalso|reflexivity].
  destruct (s_once s) eqn:O.
  - destruct (i_once_new sc s I O) as [_ Q]. specialize (Q i). rewrite G in Q. discriminate Q.
  - pose proof (i_once_body sc s I i0 O) as B. pose proof (sinv_passed_quiet sc s I P i0) as [Q|Q];
      destruct (s_g s i0); discriminate.
  - destruct (i_once_done sc s I O) as [Q _]. contradiction.
Qed.

(* 2b. where a cancellation comes from (no spurious cancellation): the parent; or the goroutine that won the Once,
   after its worker function returned that error; or Wait, after wg.Wait, when every worker function returned nil.
   Conversely a cancellation of the parent always reaches the group context. *)
Theorem ctx_cause : forall sc sched,
  let s := fst (exec sc sched) in let tr := snd (exec sc sched) in
  (In EvExt tr -> s_ctx s <> None) /\
  forall k, s_ctx s = Some k ->
  match k with
  | CParent => In EvExt tr
  | CErr e => s_err s = Some e /\
              exists j w, filter is_enter tr = [EvEnter j] /\ In (EvRet j (Some e)) tr /\
                          nth_error sc j = Some w /\ w_res w = Some e
  | CNil => passed_wait (s_c s) = true /\ In EvWaitPass tr /\ forall i w, nth_error sc i = Some w -> w_res w = None
  end.
Proof.
  intros sc sched s tr. destruct (inv_exec sc sched) as [I T]. fold s in I, T. fold tr in T.
  split; [apply (t_ext _ _ _ T)|]. intros k C. pose proof (i_cause sc s I) as K. rewrite C in K. destruct k.
  - split; [exact K|]. pose proof (t_write sc s tr T) as W. rewrite K in W. destruct W as (j & W1 & W2 & W3).
    destruct (i_results sc s I j _ W3) as (w & Hw & Hr). exists j, w. repeat split; auto. apply (t_ret sc s tr T). exact W3.
  - destruct K as [P N]. split; [exact P|]. split; [apply (t_pass sc s tr T); exact P|].
    apply (all_nil_of_passed sc s I P N).
  - apply (t_parent sc s tr T C).
Qed.

(* a group cancellation [EvCancel] is always by a goroutine whose own worker function had returned that error *)
Theorem cancel_after_failure : forall sc sched i v l1 l2,
  snd (exec sc sched) = l1 ++ EvCancel i v :: l2 -> exists e, v = Some e /\ In (EvRet i (Some e)) l2.
Proof. intros sc sched i v l1 l2 E. destruct (inv_exec sc sched) as [_ T]. eapply (o_cancel _ _ _ T); eauto. Qed.

(* ---------- Wait ---------- *)

(* 3. Wait returns only after every goroutine ran wg.Done (hence after every worker function returned); nil iff
   every worker function returned nil, otherwise the error of the winner of the Once; the context is then done *)
Theorem wait_returns : forall sc sched r,
  let s := fst (exec sc sched) in let tr := snd (exec sc sched) in
  wait_result s = Some r ->
  (forall i w, nth_error sc i = Some w -> s_g s i = GExit (w_res w) /\ In (EvDone i) tr /\ In (EvRet i (w_res w)) tr) /\
  (forall i, i < length sc -> precedes (EvDone i) EvWaitPass tr) /\
  (forall i, each_occ (EvDone i) (fun l => exists x, In (EvRet i x) l) tr) /\
  (r = None <-> forall i w, nth_error sc i = Some w -> w_res w = None) /\
  (forall e, r = Some e -> exists j w, filter is_enter tr = [EvEnter j] /\ nth_error sc j = Some w /\ w_res w = Some e) /\
  s_ctx s <> None.
Proof.
  intros sc sched r s tr WR. destruct (inv_exec sc sched) as [I T]. fold s in I, T. fold tr in T.
  unfold wait_result in WR. destruct (s_c s) eqn:C; try discriminate WR. inversion WR; subst r0. clear WR.
  assert (P : passed_wait (s_c s) = true) by (rewrite C; reflexivity).
  pose proof (i_ret sc s I) as R. rewrite C in R. destruct R as [Rc Re].
  repeat split.
  - assert (L : i < length sc) by (apply nth_error_Some; rewrite H; discriminate).
    pose proof (sinv_passed_exit sc s I P i L) as X. destruct (s_g s i) eqn:G; try discriminate X.
    destruct (i_results sc s I i r0) as (w' & Hw' & Hr); [rewrite G; reflexivity|]. congruence.
  - apply (t_done sc s tr T). apply (sinv_passed_exit sc s I P). apply nth_error_Some. rewrite H. discriminate.
  - assert (L : i < length sc) by (apply nth_error_Some; rewrite H; discriminate).
    pose proof (sinv_passed_exit sc s I P i L) as X. destruct (s_g s i) eqn:G; try discriminate X.
    destruct (i_results sc s I i r0) as (w' & Hw' & Hr); [rewrite G; reflexivity|].
    apply (t_ret sc s tr T). rewrite G. simpl. congruence.
  - apply (o_done_pass _ _ _ T).
  - apply (o_ret_done _ _ _ T).
  - intros N. apply (all_nil_of_passed sc s I P). congruence.
  - intros A. destruct r as [e|]; [exfalso|reflexivity]. pose proof (t_write sc s tr T) as W. rewrite <- Re in W.
    destruct W as (j & _ & _ & W3). destruct (i_results sc s I j _ W3) as (w & Hw & Hr). rewrite (A j w Hw) in Hr. discriminate.
  - intros e N. pose proof (t_write sc s tr T) as W. rewrite <- Re, N in W.
    destruct W as (j & _ & W2 & W3). destruct (i_results sc s I j _ W3) as (w & Hw & Hr). exists j, w. auto.
  - exact Rc.
Qed.
