From Coq Require Import List Bool Arith ZArith NArith Lia.
Import ListNotations.
From AM Require Import Lib.Assoc Model.Tracker Proofs.TrackerBasics Proofs.TrackerInv Model.Pipeline.

Lemma pipe_run_snoc acts a : pipe_run (acts ++ [a]) = pipe_step (pipe_run acts) a.
Proof. unfold pipe_run. rewrite fold_left_app. reflexivity. Qed.

Lemma tracker_hist_snoc acts a :
  tracker_hist (acts ++ [a]) = tracker_hist acts ++ match tracker_op a with Some o => [o] | None => [] end.
Proof. unfold tracker_hist. rewrite flat_map_app. cbn. rewrite app_nil_r. reflexivity. Qed.

(* the run's tracker component is the correlator run on its own history *)
Lemma pipe_run_tracker acts : fst (pipe_run acts) = final (tracker_hist acts).
Proof.
  induction acts as [|a acts IH] using rev_ind; [reflexivity|].
  rewrite pipe_run_snoc, tracker_hist_snoc. destruct (pipe_run acts) as [st log]. cbn [fst] in IH. subst st.
  destruct a as [l|l c|ev now|t|t]; cbn [pipe_step tracker_op].
  - rewrite app_nil_r. reflexivity.
  - rewrite final_snoc. destruct (tstep _ _) as [[st' out] r]. reflexivity.
  - rewrite final_snoc. destruct (tstep _ _) as [[st' out] r]. reflexivity.
  - rewrite final_snoc. reflexivity.
  - rewrite final_snoc. reflexivity.
Qed.

Lemma in_tracker_hist_deliver acts l c :
  In (RemoteLogin l c) (tracker_hist acts) -> In (PDeliver l c) acts.
Proof.
  unfold tracker_hist. rewrite in_flat_map. intros (a & Ha & Hin).
  destruct a as [l0|l0 c0|ev now|t|t]; cbn in Hin; try contradiction;
    destruct Hin as [H|[]]; try discriminate. injection H as -> ->. exact Ha.
Qed.

Lemma plog_snoc_prefix acts a : exists added, plog (acts ++ [a]) = plog acts ++ added.
Proof.
  unfold plog. rewrite pipe_run_snoc. destruct (pipe_run acts) as [st log]. cbn [snd].
  destruct a as [l|l c|ev now|t|t]; cbn [pipe_step tracker_op].
  - eexists. reflexivity.
  - destruct (tstep _ _) as [[st' out] r]. eexists. reflexivity.
  - destruct (tstep _ _) as [[st' out] r]. eexists. reflexivity.
  - cbn. eexists. reflexivity.
  - cbn. eexists. reflexivity.
Qed.

Lemma wf_run_prefix acts a : wf_run (acts ++ [a]) -> wf_run acts.
Proof.
  intros H pre l c post E. apply (H pre l c (post ++ [a])). rewrite E, <- app_assoc. reflexivity.
Qed.

(* every written login stays in the log *)
Lemma write_in_log acts l : In (PWrite l) acts -> In (ELogin l) (plog acts).
Proof.
  pattern acts. apply rev_ind; clear acts; [intros []|]. intros a acts IH.
  intros Hin. destruct (plog_snoc_prefix acts a) as [added E]. apply in_app_or in Hin.
  destruct Hin as [Hin|[->|[]]].
  - rewrite E. apply in_or_app. left. apply IH. exact Hin.
  - unfold plog. rewrite pipe_run_snoc. destruct (pipe_run acts) as [st log]. cbn. apply in_or_app. right. left. reflexivity.
Qed.

(* Causal order: at the moment a UserAction with identity l is appended, the UserLogin of l
   is already in the log — for every run, every interleaving of the two pipelines. *)
Theorem causal_order acts :
  wf_run acts ->
  forall pre l e post, plog acts = pre ++ EAction l e :: post -> In (ELogin l) pre.
Proof.
  induction acts as [|a acts IH] using rev_ind; intros Hwf pre l e post E.
  - unfold plog in E. cbn in E. destruct pre; discriminate.
  - pose proof (wf_run_prefix _ _ Hwf) as Hwf'. specialize (IH Hwf').
    (* what the last action appended *)
    assert (Hadd : exists added, plog (acts ++ [a]) = plog acts ++ added /\
              forall l0 e0, In (EAction l0 e0) added -> In (ELogin l0) (plog acts)).
    { unfold plog at 1. rewrite pipe_run_snoc. pose proof (pipe_run_tracker acts) as Ht.
      unfold plog. destruct (pipe_run acts) as [st log] eqn:Er. cbn [fst snd] in *. subst st.
      assert (Hstep : forall o, tracker_op a = Some o ->
                forall st' out r, tstep (final (tracker_hist acts)) o = (st', out, r) ->
                forall l0 e0, In (l0, e0) out -> In (ELogin l0) log).
      { intros o Ho st' out r Hs l0 e0 Hin.
        destruct (step_emits_only_correlated _ _ _ _ _ Hs l0 e0 Hin) as (s & ev0 & now0 & _ & _ & _ & _ & _ & [c Hc]).
        assert (Hd : In (PDeliver l0 c) (acts ++ [a])).
        { apply in_tracker_hist_deliver. rewrite tracker_hist_snoc, Ho. exact Hc. }
        apply In_split in Hd. destruct Hd as (p1 & p2 & Ep).
        pose proof (Hwf p1 l0 c p2 Ep) as Hw.
        (* the write is strictly before the delivery, hence within acts *)
        assert (Hw' : In (PWrite l0) acts).
        { destruct p2 as [|x p2'] using rev_ind.
          - apply app_inj_tail in Ep. destruct Ep as [-> _]. exact Hw.
          - rewrite app_comm_cons, app_assoc in Ep. apply app_inj_tail in Ep. destruct Ep as [-> _].
            apply in_or_app. left. exact Hw. }
        pose proof (write_in_log acts l0 Hw') as Hl. unfold plog in Hl. rewrite Er in Hl. exact Hl. }
      destruct a as [l1|l1 c1|ev now|t|t]; cbn [pipe_step tracker_op] in *.
      - eexists. split; [reflexivity|]. intros l0 e0 [H|[]]. discriminate.
      - destruct (tstep _ _) as [[st' out] r] eqn:Es. eexists. split; [reflexivity|].
        intros l0 e0 Hin. apply in_map_iff in Hin. destruct Hin as ([l2 e2] & [= -> ->] & Hin).
        eapply Hstep; eauto.
      - destruct (tstep _ _) as [[st' out] r] eqn:Es. eexists. split; [reflexivity|].
        intros l0 e0 Hin. apply in_map_iff in Hin. destruct Hin as ([l2 e2] & [= -> ->] & Hin).
        eapply Hstep; eauto.
      - eexists. split; [reflexivity|]. intros l0 e0 [].
      - eexists. split; [reflexivity|]. intros l0 e0 []. }
    destruct Hadd as (added & Eadd & Hnew). rewrite Eadd in E.
    apply app_eq_app in E. destruct E as [m [[E1 E2]|[E1 E2]]].
    + destruct m as [|x m'].
      * rewrite app_nil_r in E1. cbn in E2. subst pre. apply (Hnew l e). rewrite <- E2. left. reflexivity.
      * cbn in E2. injection E2 as <- E2. eapply IH. exact E1.
    + subst pre. apply in_or_app. left. apply (Hnew l e). rewrite E2. apply in_or_app. right. left. reflexivity.
Qed.

(* every event emitted by the correlator is appended exactly once: the log's UserAction entries
   are exactly the correlator's outputs, in order *)
Theorem actions_once acts :
  flat_map (fun x => match x with EAction l e => [(l, e)] | ELogin _ => [] end) (plog acts) = outs (tracker_hist acts).
Proof.
  induction acts as [|a acts IH] using rev_ind; [reflexivity|].
  unfold plog. rewrite pipe_run_snoc, tracker_hist_snoc. pose proof (pipe_run_tracker acts) as Ht.
  unfold plog in IH. destruct (pipe_run acts) as [st log]. cbn [fst snd] in *. subst st.
  assert (Hmap : forall out : list emitted,
            flat_map (fun x => match x with EAction l e => [(l, e)] | ELogin _ => [] end)
                     (map (fun x => EAction (fst x) (snd x)) out) = out).
  { induction out as [|[l e] out IHo]; cbn; [reflexivity|]. rewrite IHo. reflexivity. }
  destruct a as [l1|l1 c1|ev now|t|t]; cbn [pipe_step tracker_op].
  - cbn [snd]. rewrite flat_map_app, IH. cbn. rewrite !app_nil_r. reflexivity.
  - rewrite outs_snoc. destruct (tstep _ _) as [[st' out] r]. cbn [snd fst]. rewrite flat_map_app, IH, Hmap. reflexivity.
  - rewrite outs_snoc. destruct (tstep _ _) as [[st' out] r]. cbn [snd fst]. rewrite flat_map_app, IH, Hmap. reflexivity.
  - rewrite outs_snoc. cbn [tstep snd fst map]. rewrite app_nil_r, IH, app_nil_r. reflexivity.
  - rewrite outs_snoc. cbn [tstep snd fst map]. rewrite app_nil_r, IH, app_nil_r. reflexivity.
Qed.
