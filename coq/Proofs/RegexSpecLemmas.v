(* The matcher of Lib/Regex.v is correct against the declarative semantics of Model/RegexSpec.v:
   sound, complete and priority-correct (leftmost start, then greedy-lexicographic star lengths),
   for every item list, every text, every start offset.

   Structure:  [mi_spec]  - the instrumented matcher [mi] against [Parse] (one induction on the items;
                            the star case is "first success in a descending enumeration");
               [m_mi]     - Lib.Regex.m is the string image of [mi] (simulation, second induction);
               [find_parse_from_spec], [find_from_parse] - the scan over start offsets;
               then the statements about [find] / [matches] / [find_idx] used by Props/C06.v. *)
From Coq Require Import Ascii String List Bool Arith NArith Lia.
Import ListNotations.
From AM Require Import Lib.Bytes Lib.Utf8 Lib.Regex Model.RegexSpec Proofs.RegexLemmas.

(* ------------------------------------------------------------------ lists *)

Lemma skipn_cons_nth {A} (T : list A) : forall p x s',
  skipn p T = x :: s' -> nth_error T p = Some x /\ skipn (S p) T = s' /\ p < length T.
Proof.
  induction T as [|y T IH]; intros p x s' H.
  - destruct p; discriminate.
  - destruct p as [|p].
    + cbn in H. injection H as -> ->. cbn. repeat split. lia.
    + cbn [skipn] in H. destruct (IH _ _ _ H) as (H1 & H2 & H3). cbn [nth_error length].
      repeat split; [exact H1|exact H2|lia].
Qed.

Lemma skipn_nil_len {A} (T : list A) p : skipn p T = [] -> p <= length T -> p = length T.
Proof.
  intros H Hle. pose proof (skipn_length p T) as HL. rewrite H in HL. cbn in HL. lia.
Qed.

Lemma nth_skipn_cons {A} (T : list A) : forall p c, nth_error T p = Some c -> skipn p T = c :: skipn (S p) T.
Proof.
  induction T as [|y T IH]; intros p c H.
  - destruct p; discriminate.
  - destruct p as [|p]; cbn in H.
    + injection H as ->. reflexivity.
    + cbn [skipn]. apply IH. exact H.
Qed.

Lemma nth_lt {A} (T : list A) p c : nth_error T p = Some c -> p < length T.
Proof. intros H. apply nth_error_Some. congruence. Qed.

Lemma sub_firstn (T : str) p n : sub T p (p + n) = firstn n (skipn p T).
Proof. unfold sub. replace (p + n - p) with n by lia. reflexivity. Qed.

Lemma skipn_add {A} (T : list A) : forall p j, skipn j (skipn p T) = skipn (p + j) T.
Proof.
  induction T as [|y T IH]; intros p j.
  - rewrite !skipn_nil. reflexivity.
  - destruct p as [|p]; [reflexivity|]. cbn [skipn Nat.add]. apply IH.
Qed.

(* ------------------------------------------------------------------ one decoding step *)

Lemma rune_step T p c : nth_error T p = Some c ->
  1 <= snd (decode_rune (skipn p T)) /\ snd (decode_rune (skipn p T)) <= 4 /\ p + snd (decode_rune (skipn p T)) <= length T.
Proof.
  intros H. pose proof (nth_lt _ _ _ H) as Hlt. rewrite (nth_skipn_cons _ _ _ H).
  destruct (decode_rune_width c (skipn (S p) T)) as (H1 & H2 & H3). cbn [length] in H3. rewrite skipn_length in H3. lia.
Qed.

(* ------------------------------------------------------------------ class runs *)

Lemma run_len_firstn k : forall s j, j <= run_len k s -> forallb (in_cls k) (firstn j s) = true.
Proof.
  induction s as [|c s IH]; intros j H.
  - cbn in H. assert (j = 0) by lia. subst. reflexivity.
  - destruct j as [|j]; [reflexivity|]. cbn [run_len] in H. cbn [firstn forallb].
    destruct (in_cls k c) eqn:E; [|lia]. cbn. apply IH. lia.
Qed.

Lemma firstn_run_len k : forall s n, n <= length s -> forallb (in_cls k) (firstn n s) = true -> n <= run_len k s.
Proof.
  induction s as [|c s IH]; intros n Hn H.
  - cbn in Hn. lia.
  - destruct n as [|n]; [lia|]. cbn [firstn forallb] in H. apply andb_true_iff in H. destruct H as [H1 H2].
    cbn [run_len]. rewrite H1. cbn [length] in Hn. specialize (IH n ltac:(lia) H2). lia.
Qed.

(* ------------------------------------------------------------------ first success in a descending enumeration *)

Lemma try_desc_max {A} (f : nat -> option A) : forall n x,
  try_desc f n = Some x -> exists j, j <= n /\ f j = Some x /\ forall i, j < i -> i <= n -> f i = None.
Proof.
  induction n as [|n IH]; intros x H; cbn [try_desc] in H.
  - destruct (f 0) eqn:E; [|discriminate]. injection H as <-. exists 0. repeat split; [lia|exact E|]. intros i H1 H2. lia.
  - destruct (f (S n)) eqn:E.
    + injection H as <-. exists (S n). repeat split; [lia|exact E|]. intros i H1 H2. lia.
    + destruct (IH _ H) as (j & Hj & Hf & Hno). exists j. repeat split; [lia|exact Hf|].
      intros i H1 H2. destruct (Nat.eq_dec i (S n)) as [->|Hne]; [exact E|]. apply Hno; lia.
Qed.

Lemma try_desc_none_inv {A} (f : nat -> option A) : forall n, try_desc f n = None -> forall j, j <= n -> f j = None.
Proof.
  induction n as [|n IH]; intros H j Hj; cbn [try_desc] in H.
  - assert (j = 0) by lia. subst. destruct (f 0); [discriminate|reflexivity].
  - destruct (f (S n)) eqn:E; [discriminate|]. destruct (Nat.eq_dec j (S n)) as [->|Hne]; [exact E|].
    apply IH; [exact H|lia].
Qed.

Lemma try_desc_map {A B} (h : A -> B) (f : nat -> option B) (g : nat -> option A) : forall n,
  (forall j, j <= n -> f j = option_map h (g j)) -> try_desc f n = option_map h (try_desc g n).
Proof.
  induction n as [|n IH]; intros H; cbn [try_desc].
  - rewrite (H 0) by lia. destruct (g 0); reflexivity.
  - rewrite (H (S n)) by lia. destruct (g (S n)); [reflexivity|]. cbn [option_map].
    apply IH. intros j Hj. apply H. lia.
Qed.

(* ------------------------------------------------------------------ the order *)

Lemma lex_ge_refl l : lex_ge l l.
Proof. induction l as [|a l IH]; [constructor|apply LG_eq; exact IH]. Qed.

Lemma lex_ge_antisym l l' : lex_ge l l' -> lex_ge l' l -> l = l'.
Proof.
  intros H. induction H as [|a b l l' Hlt|a l l' H IH]; intros H2.
  - reflexivity.
  - inversion H2; subst; lia.
  - inversion H2; subst; [lia|]. f_equal. apply IH. assumption.
Qed.

Lemma lex_ge_trans l1 l2 : lex_ge l1 l2 -> forall l3, lex_ge l2 l3 -> lex_ge l1 l3.
Proof.
  intros H. induction H as [|a b l l' Hlt|a l l' H IH]; intros l3 H3.
  - exact H3.
  - inversion H3; subst; apply LG_gt; lia.
  - inversion H3; subst; [apply LG_gt; assumption|apply LG_eq; apply IH; assumption].
Qed.

Lemma lex_ge_total : forall l l', length l = length l' -> lex_ge l l' \/ lex_ge l' l.
Proof.
  induction l as [|a l IH]; intros [|b l'] H; try discriminate.
  - left. constructor.
  - cbn in H. destruct (lt_eq_lt_dec a b) as [[Hlt|Heq]|Hgt].
    + right. apply LG_gt. exact Hlt.
    + subst b. destruct (IH l' ltac:(lia)) as [H1|H1]; [left|right]; apply LG_eq; exact H1.
    + left. apply LG_gt. exact Hgt.
Qed.

(* ------------------------------------------------------------------ parses *)

Fixpoint nstars (its : list item) : nat :=
  match its with [] => 0 | IStar _ :: r => S (nstars r) | _ :: r => nstars r end.

Lemma Parse_stars T its p ops ls e pcs : Parse T its p ops ls e pcs -> length ls = nstars its.
Proof. intros H. induction H; cbn; congruence. Qed.

(* the start offset and the star lengths determine the parse *)
Lemma Parse_det T its p ops ls e pcs :
  Parse T its p ops ls e pcs -> forall e' pcs', Parse T its p ops ls e' pcs' -> e = e' /\ pcs = pcs'.
Proof.
  intros H. induction H as [p ops|c r p ops ls e pcs Hc H IH|k c r p ops ls e pcs Hc Hk H IH
    |k n r p ops ls e pcs Hn Hf H IH|g r p ops ls e pcs H IH|g a r p ops ls e pcs Hl H IH
    |r ops ls e pcs H IH|r p ops ls e pcs Hp H IH|k c r p ops ls e pcs Hc Hk H IH]; intros e' pcs' H2; inversion H2; subst.
  - split; reflexivity.
  - apply IH. assumption.
  - apply IH. assumption.
  - apply IH. assumption.
  - apply IH. assumption.
  - match goal with Hx : lookup_g g ops = Some _, Hy : lookup_g g ops = Some _ |- _ => rewrite Hx in Hy; injection Hy as <- end.
    match goal with Hx : Parse T r p ops ls e' _ |- _ => destruct (IH _ _ Hx) as [-> ->] end. split; reflexivity.
  - apply IH. assumption.
  - apply IH. assumption.
  - apply IH. assumption.
Qed.

(* offsets only grow; a parse that starts inside the text ends inside it; every closed group lies
   between the start and the end, and starts where a group open before the start was opened or
   inside the match *)
Lemma Parse_bounds T its p ops ls e pcs :
  Parse T its p ops ls e pcs -> p <= length T ->
  p <= e /\ e <= length T /\
  Forall (fun x => p <= snd (snd x) /\ snd (snd x) <= e /\
                   (In (fst x, fst (snd x)) ops \/ (p <= fst (snd x) /\ fst (snd x) <= snd (snd x)))) pcs.
Proof.
  intros H. induction H as [p ops|c r p ops ls e pcs Hc H IH|k c r p ops ls e pcs Hc Hk H IH
    |k n r p ops ls e pcs Hn Hf H IH|g r p ops ls e pcs H IH|g a r p ops ls e pcs Hl H IH
    |r ops ls e pcs H IH|r p ops ls e pcs Hp H IH|k c r p ops ls e pcs Hc Hk H IH]; intros Hle.
  - repeat split; [lia|lia|constructor].
  - apply nth_lt in Hc. destruct (IH ltac:(lia)) as (H1 & H2 & H3). repeat split; [lia|lia|].
    eapply Forall_impl; [|exact H3]. cbn. intros x (Ha & Hb & Hc'). repeat split; [lia|lia|]. destruct Hc' as [Hi|Hi]; [left; exact Hi|right; lia].
  - apply nth_lt in Hc. destruct (IH ltac:(lia)) as (H1 & H2 & H3). repeat split; [lia|lia|].
    eapply Forall_impl; [|exact H3]. cbn. intros x (Ha & Hb & Hc'). repeat split; [lia|lia|]. destruct Hc' as [Hi|Hi]; [left; exact Hi|right; lia].
  - destruct (IH ltac:(lia)) as (H1 & H2 & H3). repeat split; [lia|lia|].
    eapply Forall_impl; [|exact H3]. cbn. intros x (Ha & Hb & Hc'). repeat split; [lia|lia|]. destruct Hc' as [Hi|Hi]; [left; exact Hi|right; lia].
  - destruct (IH Hle) as (H1 & H2 & H3). repeat split; [lia|lia|].
    eapply Forall_impl; [|exact H3]. cbn. intros x (Ha & Hb & Hc'). repeat split; [lia|lia|].
    destruct Hc' as [[Hi|Hi]|Hi]; [right|left; exact Hi|right; exact Hi].
    injection Hi as _ Hi. lia.
  - destruct (IH Hle) as (H1 & H2 & H3). repeat split; [lia|lia|]. constructor; [|exact H3]. cbn.
    repeat split; [lia|lia|]. left. clear - Hl. induction ops as [|[g' a'] ops IHo]; [discriminate|].
    cbn in Hl. destruct (Nat.eqb_spec g' g) as [->|Hne]; [injection Hl as ->; left; reflexivity|right; apply IHo; exact Hl].
  - exact (IH Hle).
  - exact (IH Hle).
  - destruct (rune_step _ _ _ Hc) as (W1 & W2 & W3). destruct (IH W3) as (H1 & H2 & H3). repeat split; [lia|lia|].
    eapply Forall_impl; [|exact H3]. cbn. intros x (Ha & Hb & Hc'). repeat split; [lia|lia|]. destruct Hc' as [Hi|Hi]; [left; exact Hi|right; lia].
Qed.

(* ------------------------------------------------------------------ the instrumented matcher against Parse *)

Definition mi_ok (T : str) (its : list item) (pos : nat) (ops : popens) (o : option (nat * list nat * pcaps)) : Prop :=
  match o with
  | Some (e, ls, pcs) =>
      Parse T its pos ops ls e pcs /\
      forall ls' e' pcs', Parse T its pos ops ls' e' pcs' -> lex_ge ls ls'
  | None => forall ls' e' pcs', ~ Parse T its pos ops ls' e' pcs'
  end.

Theorem mi_spec T its : forall pos ops, pos <= length T -> mi_ok T its pos ops (mi its pos (skipn pos T) ops).
Proof.
  induction its as [|it r IH]; intros pos ops Hle.
  - cbn. split; [constructor|]. intros ls' e' pcs' H. inversion H; subst. constructor.
  - destruct it as [c|k|k|g|g| | |k].
    + (* ILit *)
      cbn [mi]. destruct (skipn pos T) as [|x s'] eqn:E.
      * cbn. intros ls' e' pcs' H. inversion H; subst.
        match goal with Hn : nth_error T pos = Some _ |- _ => apply nth_skipn_cons in Hn; congruence end.
      * destruct (skipn_cons_nth _ _ _ _ E) as (Hx & Hs & Hlt). subst s'.
        destruct (Ascii.eqb_spec x c) as [->|Hne].
        -- specialize (IH (S pos) ops ltac:(lia)).
           destruct (mi r (S pos) (skipn (S pos) T) ops) as [[[e ls] pcs]|]; cbn in *.
           ++ destruct IH as [HP Hbest]. split; [apply P_lit; assumption|].
              intros ls' e' pcs' H2. inversion H2; subst. eapply Hbest. eassumption.
           ++ intros ls' e' pcs' H2. inversion H2; subst. eapply IH. eassumption.
        -- cbn. intros ls' e' pcs' H2. inversion H2; subst. congruence.
    + (* IOne *)
      cbn [mi]. destruct (skipn pos T) as [|x s'] eqn:E.
      * cbn. intros ls' e' pcs' H. inversion H; subst.
        match goal with Hn : nth_error T pos = Some _ |- _ => apply nth_skipn_cons in Hn; congruence end.
      * destruct (skipn_cons_nth _ _ _ _ E) as (Hx & Hs & Hlt). subst s'.
        destruct (in_cls k x) eqn:Hk.
        -- specialize (IH (S pos) ops ltac:(lia)).
           destruct (mi r (S pos) (skipn (S pos) T) ops) as [[[e ls] pcs]|]; cbn in *.
           ++ destruct IH as [HP Hbest]. split; [eapply P_one; eassumption|].
              intros ls' e' pcs' H2. inversion H2; subst. eapply Hbest. eassumption.
           ++ intros ls' e' pcs' H2. inversion H2; subst. eapply IH. eassumption.
        -- cbn. intros ls' e' pcs' H2. inversion H2; subst. congruence.
    + (* IStar *)
      cbn [mi]. set (s := skipn pos T). set (n := run_len k s).
      assert (Hlen : length s = length T - pos) by (unfold s; apply skipn_length).
      assert (Hn : n <= length s) by apply run_len_le.
      assert (Hstep : forall j, j <= n -> mi_ok T r (pos + j) ops (mi r (pos + j) (skipn j s) ops)).
      { intros j Hj. unfold s. rewrite skipn_add. apply IH. lia. }
      assert (Hcls : forall n' ls' e' pcs', Parse T (IStar k :: r) pos ops (n' :: ls') e' pcs' -> n' <= n).
      { intros n' ls' e' pcs' H. inversion H; subst. unfold n. apply firstn_run_len; [lia|].
        unfold s. rewrite <- sub_firstn. assumption. }
      destruct (try_desc (fun j => lift_star j (mi r (pos + j) (skipn j s) ops)) n) as [[[e ls] pcs]|] eqn:E.
      * apply try_desc_max in E. destruct E as (j & Hj & Hf & Hno).
        specialize (Hstep j Hj) as Hsj. destruct (mi r (pos + j) (skipn j s) ops) as [[[e1 ls1] pcs1]|]; [|discriminate].
        cbn in Hf. injection Hf as <- <- <-. cbn in Hsj. destruct Hsj as [HP Hbest]. cbn. split.
        -- apply P_star; [lia| |exact HP]. rewrite sub_firstn. fold s. apply run_len_firstn. exact Hj.
        -- intros ls' e' pcs' H2. pose proof H2 as H2'.
           inversion H2 as [ | | |k0 n' r0 p0 ops0 lr e0 pcs0 Hb' Hf' Hr| | | | | ]; subst.
           pose proof (Hcls _ _ _ _ H2') as Hn'.
           destruct (lt_eq_lt_dec n' j) as [[Hlt|Heq]|Hgt].
           ++ apply LG_gt. exact Hlt.
           ++ subst n'. apply LG_eq. eapply Hbest. exact Hr.
           ++ exfalso. specialize (Hno n' Hgt Hn'). specialize (Hstep n' Hn').
              destruct (mi r (pos + n') (skipn n' s) ops) as [[[e2 ls2] pcs2]|]; [discriminate|].
              cbn in Hstep. eapply Hstep. exact Hr.
      * cbn. intros ls' e' pcs' H2. pose proof H2 as H2'.
        inversion H2 as [ | | |k0 n' r0 p0 ops0 lr e0 pcs0 Hb' Hf' Hr| | | | | ]; subst.
        pose proof (Hcls _ _ _ _ H2') as Hn'.
        pose proof (try_desc_none_inv _ _ E n' Hn') as Hf. cbn beta in Hf. specialize (Hstep n' Hn').
        destruct (mi r (pos + n') (skipn n' s) ops) as [[[e2 ls2] pcs2]|]; [discriminate|].
        cbn in Hstep. eapply Hstep. exact Hr.
    + (* IOpen *)
      cbn [mi]. specialize (IH pos ((g, pos) :: ops) Hle).
      destruct (mi r pos (skipn pos T) ((g, pos) :: ops)) as [[[e ls] pcs]|]; cbn in *.
      * destruct IH as [HP Hbest]. split; [apply P_open; exact HP|].
        intros ls' e' pcs' H2. inversion H2; subst. eapply Hbest. eassumption.
      * intros ls' e' pcs' H2. inversion H2; subst. eapply IH. eassumption.
    + (* IClose *)
      cbn [mi]. destruct (lookup_g g ops) as [a|] eqn:El.
      * specialize (IH pos ops Hle).
        destruct (mi r pos (skipn pos T) ops) as [[[e ls] pcs]|]; cbn in *.
        -- destruct IH as [HP Hbest]. split; [apply P_close; assumption|].
           intros ls' e' pcs' H2. inversion H2; subst. eapply Hbest. eassumption.
        -- intros ls' e' pcs' H2. inversion H2; subst. eapply IH. eassumption.
      * cbn. intros ls' e' pcs' H2. inversion H2; subst. congruence.
    + (* IBol *)
      cbn [mi]. destruct pos as [|pos]; cbn [Nat.eqb].
      * specialize (IH 0 ops Hle).
        destruct (mi r 0 (skipn 0 T) ops) as [[[e ls] pcs]|]; cbn in *.
        -- destruct IH as [HP Hbest]. split; [apply P_bol; exact HP|].
           intros ls' e' pcs' H2. inversion H2; subst. eapply Hbest. eassumption.
        -- intros ls' e' pcs' H2. inversion H2; subst. eapply IH. eassumption.
      * cbn. intros ls' e' pcs' H2. inversion H2.
    + (* IEol *)
      cbn [mi]. destruct (skipn pos T) as [|x s'] eqn:E.
      * pose proof (skipn_nil_len _ _ E Hle) as Hp. specialize (IH pos ops Hle). rewrite E in IH.
        destruct (mi r pos [] ops) as [[[e ls] pcs]|]; cbn in *.
        -- destruct IH as [HP Hbest]. split; [apply P_eol; assumption|].
           intros ls' e' pcs' H2. inversion H2; subst. eapply Hbest. eassumption.
        -- intros ls' e' pcs' H2. inversion H2; subst. eapply IH. eassumption.
      * destruct (skipn_cons_nth _ _ _ _ E) as (_ & _ & Hlt).
        cbn. intros ls' e' pcs' H2. inversion H2; subst. lia.
    + (* IRune *)
      cbn [mi]. destruct (skipn pos T) as [|x s'] eqn:E.
      * cbn. intros ls' e' pcs' H. inversion H; subst.
        match goal with Hn : nth_error T pos = Some _ |- _ => apply nth_skipn_cons in Hn; congruence end.
      * destruct (skipn_cons_nth _ _ _ _ E) as (Hx & Hs & Hlt).
        destruct (rune_step _ _ _ Hx) as (W1 & W2 & W3). rewrite E in W1, W2, W3.
        set (w := snd (decode_rune (x :: s'))) in *.
        assert (Hsk : skipn w (x :: s') = skipn (pos + w) T) by (rewrite <- E; apply skipn_add).
        destruct (in_cls k x) eqn:Hk.
        -- cbn zeta. fold w. rewrite Hsk.
           specialize (IH (pos + w) ops W3).
           destruct (mi r (pos + w) (skipn (pos + w) T) ops) as [[[e ls] pcs]|]; cbn in *.
           ++ destruct IH as [HP Hbest]. split; [eapply P_rune; [exact Hx|exact Hk|rewrite E; exact HP]|].
              intros ls' e' pcs' H2. inversion H2; subst. eapply Hbest.
              match goal with Hq : Parse T r _ ops ls' e' pcs' |- _ => rewrite E in Hq; exact Hq end.
           ++ intros ls' e' pcs' H2. inversion H2; subst. eapply IH.
              match goal with Hq : Parse T r _ ops ls' e' pcs' |- _ => rewrite E in Hq; exact Hq end.
        -- cbn. intros ls' e' pcs' H2. inversion H2; subst. congruence.
Qed.

(* ------------------------------------------------------------------ Lib.Regex.m is the string image of mi *)

Definition img (T : str) (cs : caps) (x : nat * list nat * pcaps) : nat * caps :=
  (fst (fst x), rev (str_caps T (snd x)) ++ cs).

Lemma lookup_str_opens T g ops :
  lookup_g g (str_opens T ops) = option_map (fun a => skipn a T) (lookup_g g ops).
Proof.
  induction ops as [|[g' a] ops IH]; [reflexivity|]. cbn. destruct (Nat.eqb g' g); [reflexivity|exact IH].
Qed.

Lemma cap_len T a pos : pos <= length T ->
  firstn (length (skipn a T) - length (skipn pos T)) (skipn a T) = sub T a pos.
Proof.
  intros H. unfold sub. rewrite !skipn_length. f_equal. lia.
Qed.

Theorem m_mi T its : forall pos ops cs, pos <= length T ->
  m its pos (skipn pos T) (str_opens T ops) cs = option_map (img T cs) (mi its pos (skipn pos T) ops).
Proof.
  induction its as [|it r IH]; intros pos ops cs Hle.
  - reflexivity.
  - destruct it as [c|k|k|g|g| | |k].
    + cbn [m mi]. destruct (skipn pos T) as [|x s'] eqn:E; [reflexivity|].
      destruct (skipn_cons_nth _ _ _ _ E) as (_ & Hs & Hlt). subst s'.
      destruct (Ascii.eqb x c); [apply IH; lia|reflexivity].
    + cbn [m mi]. destruct (skipn pos T) as [|x s'] eqn:E; [reflexivity|].
      destruct (skipn_cons_nth _ _ _ _ E) as (_ & Hs & Hlt). subst s'.
      destruct (in_cls k x); [apply IH; lia|reflexivity].
    + cbn [m mi]. apply try_desc_map. intros j Hj.
      pose proof (run_len_le k (skipn pos T)) as H1. rewrite skipn_length in H1.
      rewrite skipn_add, IH by lia.
      destruct (mi r (pos + j) (skipn (pos + j) T) ops) as [[[e ls] pcs]|]; reflexivity.
    + cbn [m mi]. apply (IH pos ((g, pos) :: ops) cs Hle).
    + cbn [m mi]. rewrite lookup_str_opens. destruct (lookup_g g ops) as [a|]; [|reflexivity].
      cbn [option_map]. rewrite cap_len by exact Hle. rewrite IH by exact Hle.
      destruct (mi r pos (skipn pos T) ops) as [[[e ls] pcs]|]; [|reflexivity].
      cbn. unfold img. cbn. rewrite <- app_assoc. reflexivity.
    + cbn [m mi]. destruct (Nat.eqb pos 0); [apply IH; exact Hle|reflexivity].
    + cbn [m mi]. destruct (skipn pos T) as [|x s'] eqn:E; [|reflexivity].
      rewrite <- E. apply IH. exact Hle.
    + cbn [m mi]. destruct (skipn pos T) as [|x s'] eqn:E; [reflexivity|].
      destruct (skipn_cons_nth _ _ _ _ E) as (Hx & _ & _).
      destruct (rune_step _ _ _ Hx) as (_ & _ & W3). rewrite E in W3.
      set (w := snd (decode_rune (x :: s'))) in *.
      assert (Hsk : skipn w (x :: s') = skipn (pos + w) T) by (rewrite <- E; apply skipn_add).
      destruct (in_cls k x); [|reflexivity]. cbn zeta. fold w. rewrite Hsk. apply IH. exact W3.
Qed.

(* ------------------------------------------------------------------ the scan over start offsets *)

Lemma find_from_parse T its : forall pos, pos <= length T ->
  find_from its pos (skipn pos T) = option_map (rmatch_of T) (find_parse_from its pos (skipn pos T)).
Proof.
  intros pos. remember (length T - pos) as d eqn:Hd. revert pos Hd.
  induction d as [|d IH]; intros pos Hd Hle.
  - assert (E : skipn pos T = []) by (apply skipn_all2; lia).
    rewrite E. cbn [find_from find_parse_from]. rewrite <- E.
    change (@nil (nat * str)) with (str_opens T []). rewrite m_mi by exact Hle.
    destruct (mi its pos (skipn pos T) []) as [[[e ls] pcs]|]; cbn.
    + unfold rmatch_of. cbn. rewrite app_nil_r. reflexivity.
    + reflexivity.
  - destruct (skipn pos T) as [|x s'] eqn:E.
    { apply skipn_nil_len in E; [lia|exact Hle]. }
    cbn [find_from find_parse_from]. rewrite <- E.
    change (@nil (nat * str)) with (str_opens T []). rewrite m_mi by exact Hle.
    destruct (mi its pos (skipn pos T) []) as [[[e ls] pcs]|]; cbn.
    + unfold rmatch_of. cbn. rewrite app_nil_r. reflexivity.
    + destruct (skipn_cons_nth _ _ _ _ E) as (_ & Hs & Hlt). subst s'. apply IH; lia.
Qed.

Theorem find_is_parse_image its T : find its T = option_map (rmatch_of T) (find_parse its T).
Proof. unfold find, find_parse. apply (find_from_parse T its 0). lia. Qed.

Definition no_parse_at (its : list item) (T : str) (p : nat) : Prop :=
  forall ls e pcs, ~ Parse T its p [] ls e pcs.

Lemma find_parse_from_spec T its : forall pos, pos <= length T ->
  match find_parse_from its pos (skipn pos T) with
  | Some pm =>
      pos <= pm_start pm /\ pm_start pm <= length T /\
      Parse T its (pm_start pm) [] (pm_stars pm) (pm_end pm) (pm_caps pm) /\
      (forall ls' e' pcs', Parse T its (pm_start pm) [] ls' e' pcs' -> lex_ge (pm_stars pm) ls') /\
      (forall p', pos <= p' -> p' < pm_start pm -> no_parse_at its T p')
  | None => forall p', pos <= p' -> p' <= length T -> no_parse_at its T p'
  end.
Proof.
  intros pos. remember (length T - pos) as d eqn:Hd. revert pos Hd.
  induction d as [|d IH]; intros pos Hd Hle.
  - assert (E : skipn pos T = []) by (apply skipn_all2; lia).
    pose proof (mi_spec T its pos [] Hle) as Hs. rewrite E in *. cbn [find_parse_from].
    destruct (mi its pos [] []) as [[[e ls] pcs]|]; cbn in *.
    + destruct Hs as [HP Hb]. repeat split; [lia|lia|exact HP|exact Hb|]. intros p' H1 H2. lia.
    + intros p' H1 H2. assert (p' = pos) by lia. subst p'. exact Hs.
  - destruct (skipn pos T) as [|x s'] eqn:E.
    { apply skipn_nil_len in E; [lia|exact Hle]. }
    pose proof (mi_spec T its pos [] Hle) as Hs. rewrite E in Hs. cbn [find_parse_from].
    destruct (mi its pos (x :: s') []) as [[[e ls] pcs]|]; cbn in *.
    + destruct Hs as [HP Hb]. repeat split; [lia|lia|exact HP|exact Hb|]. intros p' H1 H2. lia.
    + destruct (skipn_cons_nth _ _ _ _ E) as (_ & Hs' & Hlt). subst s'.
      specialize (IH (S pos) ltac:(lia) ltac:(lia)).
      destruct (find_parse_from its (S pos) (skipn (S pos) T)) as [pm|].
      * destruct IH as (H1 & H2 & H3 & H4 & H5). repeat split; [lia|exact H2|exact H3|exact H4|].
        intros p' Hp1 Hp2. destruct (Nat.eq_dec p' pos) as [->|Hne]; [exact Hs|apply H5; lia].
      * intros p' Hp1 Hp2. destruct (Nat.eq_dec p' pos) as [->|Hne]; [exact Hs|apply IH; lia].
Qed.

(* ------------------------------------------------------------------ the statements *)

(* what find_parse returns is THE leftmost-first match *)
Theorem find_parse_best its T pm :
  find_parse its T = Some pm -> Best its T (pm_start pm) (pm_stars pm) (pm_end pm) (pm_caps pm).
Proof.
  intros H. pose proof (find_parse_from_spec T its 0 ltac:(lia)) as S. cbn [skipn] in S.
  unfold find_parse in H. rewrite H in S. destruct S as (_ & H2 & H3 & H4 & H5).
  split; [split; assumption|]. intros p' ls' e' pcs' [Hp' HP'].
  destruct (lt_eq_lt_dec (pm_start pm) p') as [[Hlt|Heq]|Hgt].
  - left. exact Hlt.
  - right. split; [exact Heq|]. subst p'. eapply H4. exact HP'.
  - exfalso. eapply (H5 p'); [lia|exact Hgt|exact HP'].
Qed.

(* no match is missed *)
Theorem find_parse_none its T :
  find_parse its T = None -> forall p ls e pcs, ~ Match its T p ls e pcs.
Proof.
  intros H p ls e pcs [Hp HP]. pose proof (find_parse_from_spec T its 0 ltac:(lia)) as S. cbn [skipn] in S.
  unfold find_parse in H. rewrite H in S. eapply (S p); [lia|exact Hp|exact HP].
Qed.

Theorem find_parse_complete its T p ls e pcs :
  Match its T p ls e pcs -> exists pm, find_parse its T = Some pm.
Proof.
  intros HM. destruct (find_parse its T) as [pm|] eqn:E; [exists pm; reflexivity|].
  exfalso. eapply find_parse_none; eassumption.
Qed.

Theorem Best_unique its T p ls e pcs p' ls' e' pcs' :
  Best its T p ls e pcs -> Best its T p' ls' e' pcs' -> p = p' /\ ls = ls' /\ e = e' /\ pcs = pcs'.
Proof.
  intros [HM HB] [HM' HB'].
  destruct (HB _ _ _ _ HM') as [Hlt|[Heq Hge]]; destruct (HB' _ _ _ _ HM) as [Hlt'|[Heq' Hge']]; try lia.
  subst p'. pose proof (lex_ge_antisym _ _ Hge Hge') as <-.
  destruct HM as [_ HP]. destruct HM' as [_ HP']. destruct (Parse_det _ _ _ _ _ _ _ HP _ _ HP') as [-> ->].
  repeat split; reflexivity.
Qed.

Theorem find_parse_iff its T pm :
  find_parse its T = Some pm <-> Best its T (pm_start pm) (pm_stars pm) (pm_end pm) (pm_caps pm).
Proof.
  split; [apply find_parse_best|]. intros HB.
  destruct HB as [HM HB]. destruct (find_parse_complete _ _ _ _ _ _ HM) as [pm' E].
  pose proof (find_parse_best _ _ _ E) as HB'.
  destruct (Best_unique _ _ _ _ _ _ _ _ _ _ HB' (conj HM HB)) as (H1 & H2 & H3 & H4).
  rewrite E. f_equal. destruct pm, pm'. cbn in *. congruence.
Qed.

(* --- Lib.Regex.find, the entry the sshd model uses --- *)

(* soundness + priority: what find returns is the leftmost-first match, with exactly its captures *)
Theorem find_sound its T r :
  find its T = Some r ->
  exists ls pcs, Best its T (m_start r) ls (m_end r) pcs /\ m_caps r = rev (str_caps T pcs).
Proof.
  rewrite find_is_parse_image. destruct (find_parse its T) as [pm|] eqn:E; [|discriminate].
  cbn. intros [= <-]. exists (pm_stars pm), (pm_caps pm). split; [apply find_parse_best; exact E|reflexivity].
Qed.

(* completeness: if the pattern matches anywhere, find returns a match that is at least as good *)
Theorem find_complete its T p ls e pcs :
  Match its T p ls e pcs ->
  exists r ls0 pcs0, find its T = Some r /\ Best its T (m_start r) ls0 (m_end r) pcs0 /\ prefers (m_start r) ls0 p ls.
Proof.
  intros HM. destruct (find_parse_complete _ _ _ _ _ _ HM) as [pm E].
  exists (rmatch_of T pm), (pm_stars pm), (pm_caps pm).
  rewrite find_is_parse_image, E. pose proof (find_parse_best _ _ _ E) as HB.
  split; [reflexivity|]. split; [exact HB|]. destruct HB as [_ HB]. eapply HB. exact HM.
Qed.

Theorem find_none_iff its T :
  find its T = None <-> forall p ls e pcs, ~ Match its T p ls e pcs.
Proof.
  rewrite find_is_parse_image. split.
  - destruct (find_parse its T) eqn:E; [discriminate|]. intros _. apply find_parse_none. exact E.
  - intros H. destruct (find_parse its T) as [pm|] eqn:E; [|reflexivity].
    exfalso. destruct (find_parse_best _ _ _ E) as [HM _]. eapply H. exact HM.
Qed.

(* the characterisation: find returns r exactly when r is the string view of THE best parse *)
Theorem find_iff its T r :
  find its T = Some r <->
  exists ls pcs, Best its T (m_start r) ls (m_end r) pcs /\ m_caps r = rev (str_caps T pcs).
Proof.
  split; [apply find_sound|]. intros (ls & pcs & HB & Hc).
  pose (pm := {| pm_start := m_start r; pm_end := m_end r; pm_stars := ls; pm_caps := pcs |}).
  assert (E : find_parse its T = Some pm) by (apply find_parse_iff; exact HB).
  rewrite find_is_parse_image, E. cbn [option_map]. f_equal. unfold rmatch_of, pm. cbn.
  destruct r as [s0 e0 c0]. cbn in Hc. subst c0. reflexivity.
Qed.

Theorem matches_iff its T : matches its T = true <-> exists p ls e pcs, Match its T p ls e pcs.
Proof.
  unfold matches. split.
  - destruct (find its T) as [r|] eqn:E; [|discriminate]. intros _.
    destruct (find_sound _ _ _ E) as (ls & pcs & [HM _] & _). exists (m_start r), ls, (m_end r), pcs. exact HM.
  - intros (p & ls & e & pcs & HM). destruct (find_complete _ _ _ _ _ _ HM) as (r & _ & _ & E & _). rewrite E. reflexivity.
Qed.

(* captures are verbatim sub-ranges of the text, inside the match, in order of their positions *)
Lemma sub_decomp (T : str) a b : a <= b -> b <= length T -> T = firstn a T ++ sub T a b ++ skipn b T.
Proof.
  intros H1 H2. unfold sub. rewrite <- (firstn_skipn a T) at 1. f_equal.
  rewrite <- (firstn_skipn (b - a) (skipn a T)) at 1. f_equal. rewrite skipn_add. f_equal. lia.
Qed.

Theorem find_caps_substrings its T r g v :
  find its T = Some r -> In (g, v) (m_caps r) ->
  exists a b, m_start r <= a /\ a <= b /\ b <= m_end r /\ m_end r <= length T /\
              v = sub T a b /\ T = firstn a T ++ v ++ skipn b T.
Proof.
  intros E Hin. destruct (find_sound _ _ _ E) as (ls & pcs & [[Hp HP] _] & Hc).
  rewrite Hc in Hin. apply in_rev in Hin. unfold str_caps in Hin. apply in_map_iff in Hin.
  destruct Hin as ([g' [a b]] & Heq & Hin). cbn in Heq. injection Heq as <- <-.
  destruct (Parse_bounds _ _ _ _ _ _ _ HP Hp) as (H1 & H2 & H3).
  rewrite Forall_forall in H3. specialize (H3 _ Hin). cbn in H3. destruct H3 as (Ha & Hb & [[]|Hc']).
  exists a, b. repeat split; try lia. apply sub_decomp; lia.
Qed.

Theorem find_range its T r : find its T = Some r -> m_start r <= m_end r /\ m_end r <= length T.
Proof.
  intros E. destruct (find_sound _ _ _ E) as (ls & pcs & [[Hp HP] _] & _).
  destruct (Parse_bounds _ _ _ _ _ _ _ HP Hp) as (H1 & H2 & _). split; assumption.
Qed.

(* find_idx (all indices, as FindStringSubmatchIndex reports them) and find describe the same match *)
Lemma lookup_g_map {A B} (h : A -> B) g (l : list (nat * A)) :
  lookup_g g (map (fun x => (fst x, h (snd x))) l) = option_map h (lookup_g g l).
Proof.
  induction l as [|[g' a] l IH]; [reflexivity|]. cbn. destruct (Nat.eqb g' g); [reflexivity|exact IH].
Qed.

Theorem find_idx_agrees its T :
  match find_parse its T with
  | Some pm =>
      find its T = Some (rmatch_of T pm) /\
      find_idx its T = Some (N.of_nat (pm_start pm) :: N.of_nat (pm_end pm)
                             :: flat_map (group_idx (pm_caps pm)) (seq 1 (ngroups its))) /\
      forall g, cap g (rmatch_of T pm) =
                match lookup_g g (rev (pm_caps pm)) with Some (a, b) => sub T a b | None => [] end
  | None => find its T = None /\ find_idx its T = None
  end.
Proof.
  unfold find_idx. rewrite find_is_parse_image. destruct (find_parse its T) as [pm|]; [|split; reflexivity].
  repeat split. intros g. unfold cap, rmatch_of. cbn [m_caps]. unfold str_caps. rewrite <- map_rev.
  rewrite (lookup_g_map (fun ab => sub T (fst ab) (snd ab))).
  destruct (lookup_g g (rev (pm_caps pm))) as [[a b]|]; reflexivity.
Qed.

(* ------------------------------------------------------------------ the matched text is the concatenation of the pieces *)

Inductive Shape : list item -> list nat -> str -> Prop :=
| Sh_nil : Shape [] [] []
| Sh_lit c r ls w : Shape r ls w -> Shape (ILit c :: r) ls (c :: w)
| Sh_one k c r ls w : in_cls k c = true -> Shape r ls w -> Shape (IOne k :: r) ls (c :: w)
| Sh_star k v r ls w : forallb (in_cls k) v = true -> Shape r ls w -> Shape (IStar k :: r) (length v :: ls) (v ++ w)
| Sh_open g r ls w : Shape r ls w -> Shape (IOpen g :: r) ls w
| Sh_close g r ls w : Shape r ls w -> Shape (IClose g :: r) ls w
| Sh_bol r ls w : Shape r ls w -> Shape (IBol :: r) ls w
| Sh_eol r ls w : Shape r ls w -> Shape (IEol :: r) ls w
| Sh_rune k c v r ls w : in_cls k c = true -> length v < 4 -> Shape r ls w -> Shape (IRune k :: r) ls (c :: v ++ w).

Lemma sub_cons (T : str) p e c : nth_error T p = Some c -> p < e -> sub T p e = c :: sub T (S p) e.
Proof.
  intros H Hlt. unfold sub. rewrite (nth_skipn_cons _ _ _ H).
  replace (e - p) with (S (e - S p)) by lia. reflexivity.
Qed.

Lemma firstn_plus {A} (l : list A) : forall a b, firstn (a + b) l = firstn a l ++ firstn b (skipn a l).
Proof.
  induction l as [|x l IH]; intros a b.
  - rewrite skipn_nil, !firstn_nil. reflexivity.
  - destruct a as [|a]; [reflexivity|]. cbn [Nat.add firstn skipn app]. f_equal. apply IH.
Qed.

Lemma sub_split (T : str) p q e : p <= q -> q <= e -> sub T p e = sub T p q ++ sub T q e.
Proof.
  intros H1 H2. unfold sub. replace (e - p) with ((q - p) + (e - q)) by lia.
  rewrite firstn_plus. f_equal. rewrite skipn_add. do 2 f_equal. lia.
Qed.

Theorem Parse_shape T its p ops ls e pcs :
  Parse T its p ops ls e pcs -> p <= length T -> Shape its ls (sub T p e).
Proof.
  intros H. induction H as [p ops|c r p ops ls e pcs Hc H IH|k c r p ops ls e pcs Hc Hk H IH
    |k n r p ops ls e pcs Hn Hf H IH|g r p ops ls e pcs H IH|g a r p ops ls e pcs Hl H IH
    |r ops ls e pcs H IH|r p ops ls e pcs Hp H IH|k c r p ops ls e pcs Hc Hk H IH]; intros Hle.
  - unfold sub. rewrite Nat.sub_diag. constructor.
  - pose proof (nth_lt _ _ _ Hc) as Hlt. destruct (Parse_bounds _ _ _ _ _ _ _ H ltac:(lia)) as (H1 & _).
    rewrite (sub_cons _ _ _ _ Hc) by lia. constructor. apply IH. lia.
  - pose proof (nth_lt _ _ _ Hc) as Hlt. destruct (Parse_bounds _ _ _ _ _ _ _ H ltac:(lia)) as (H1 & _).
    rewrite (sub_cons _ _ _ _ Hc) by lia. constructor; [exact Hk|]. apply IH. lia.
  - destruct (Parse_bounds _ _ _ _ _ _ _ H ltac:(lia)) as (H1 & _).
    rewrite (sub_split T p (p + n) e) by lia.
    replace n with (length (sub T p (p + n))) at 1.
    + constructor; [exact Hf|]. apply IH. lia.
    + rewrite sub_firstn, firstn_length, skipn_length. lia.
  - constructor. apply IH. exact Hle.
  - constructor. apply IH. exact Hle.
  - constructor. apply IH. exact Hle.
  - constructor. apply IH. exact Hle.
  - destruct (rune_step _ _ _ Hc) as (W1 & W2 & W3). set (w := snd (decode_rune (skipn p T))) in *.
    destruct (Parse_bounds _ _ _ _ _ _ _ H W3) as (H1 & _).
    rewrite (sub_split T p (p + w) e) by lia. rewrite sub_firstn, (nth_skipn_cons _ _ _ Hc).
    destruct w as [|w']; [lia|]. cbn [firstn app]. apply Sh_rune; [exact Hk| |apply IH; exact W3].
    pose proof (firstn_le_length w' (skipn (S p) T)). lia.
Qed.

(* ------------------------------------------------------------------ the checker for given star lengths *)

Theorem parse_with_sound T its : forall pos ops ls e pcs, pos <= length T ->
  parse_with its pos (skipn pos T) ops ls = Some (e, pcs) -> Parse T its pos ops ls e pcs.
Proof.
  induction its as [|it r IH]; intros pos ops ls e pcs Hle H.
  - destruct ls; [|discriminate]. injection H as <- <-. constructor.
  - destruct it as [c|k|k|g|g| | |k]; cbn [parse_with] in H.
    + destruct (skipn pos T) as [|x s'] eqn:E; [discriminate|].
      destruct (skipn_cons_nth _ _ _ _ E) as (Hx & Hs & Hlt). subst s'.
      destruct (Ascii.eqb x c) eqn:Exc; [|discriminate]. apply Ascii.eqb_eq in Exc. rewrite Exc in Hx.
      apply P_lit; [exact Hx|]. apply IH; [lia|exact H].
    + destruct (skipn pos T) as [|x s'] eqn:E; [discriminate|].
      destruct (skipn_cons_nth _ _ _ _ E) as (Hx & Hs & Hlt). subst s'.
      destruct (in_cls k x) eqn:Hk; [|discriminate]. eapply P_one; [exact Hx|exact Hk|]. apply IH; [lia|exact H].
    + destruct ls as [|j ls]; [discriminate|]. destruct (Nat.leb_spec j (run_len k (skipn pos T))) as [Hj|]; [|discriminate].
      pose proof (run_len_le k (skipn pos T)) as H1. rewrite skipn_length in H1. rewrite skipn_add in H.
      apply P_star; [lia| |apply IH; [lia|exact H]]. rewrite sub_firstn. apply run_len_firstn. exact Hj.
    + apply P_open. apply IH; assumption.
    + destruct (lookup_g g ops) as [a|] eqn:El; [|discriminate].
      destruct (parse_with r pos (skipn pos T) ops ls) as [[e1 pcs1]|] eqn:E1; [|discriminate].
      injection H as <- <-. apply P_close; [exact El|]. apply IH; assumption.
    + destruct pos as [|pos]; [|discriminate]. cbn in H. apply P_bol. apply IH; assumption.
    + destruct (skipn pos T) as [|x s'] eqn:E; [|discriminate].
      apply P_eol; [apply skipn_nil_len; assumption|]. apply IH; [exact Hle|]. rewrite E. exact H.
    + destruct (skipn pos T) as [|x s'] eqn:E; [discriminate|].
      destruct (skipn_cons_nth _ _ _ _ E) as (Hx & _ & _).
      destruct (rune_step _ _ _ Hx) as (_ & _ & W3). rewrite E in W3.
      set (w := snd (decode_rune (x :: s'))) in *.
      assert (Hsk : skipn w (x :: s') = skipn (pos + w) T) by (rewrite <- E; apply skipn_add).
      destruct (in_cls k x) eqn:Hk; [|discriminate]. cbn zeta in H. fold w in H. rewrite Hsk in H.
      eapply P_rune; [exact Hx|exact Hk|]. rewrite E. apply IH; [exact W3|exact H].
Qed.

(* ------------------------------------------------------------------ restatements used by Props/C06 C11 C17 *)

Lemma lex_ge_order l l' :
  (lex_ge l l' -> lex_ge l' l -> l = l') /\ (length l = length l' -> lex_ge l l' \/ lex_ge l' l) /\
  (forall l'', lex_ge l l' -> lex_ge l' l'' -> lex_ge l l'').
Proof.
  split; [apply lex_ge_antisym|]. split; [apply lex_ge_total|].
  intros l'' H1 H2. exact (lex_ge_trans _ _ H1 _ H2).
Qed.

Lemma matches_false_iff its line :
  matches its line = false <-> forall p ls e pcs, ~ Match its line p ls e pcs.
Proof.
  rewrite <- find_none_iff. unfold matches.
  destruct (find its line); split; intros H; try reflexivity; discriminate.
Qed.

Lemma capture_of_best_match its line r :
  find its line = Some r ->
  (exists ls pcs, Best its line (m_start r) ls (m_end r) pcs /\ m_caps r = rev (str_caps line pcs)) /\
  (forall g v, In (g, v) (m_caps r) ->
     exists a b, m_start r <= a /\ a <= b /\ b <= m_end r /\ m_end r <= length line /\ v = sub line a b).
Proof.
  intros E. split; [exact (find_sound _ _ _ E)|].
  intros g v Hin. destruct (find_caps_substrings _ _ _ _ _ E Hin) as (a & b & H1 & H2 & H3 & H4 & H5 & _).
  exists a, b. repeat split; assumption.
Qed.

(* ------------------------------------------------------------------ bytes and runes: what can be said at byte level *)

Lemma non_ascii_high c : is_ascii c = false -> In c high_bytes.
Proof.
  revert c. assert (H : forall c, (is_ascii c || existsb (Ascii.eqb c) high_bytes) = true).
  { apply for_all_ascii. vm_compute. reflexivity. }
  intros c Hc. specialize (H c). rewrite Hc, orb_false_l in H. apply existsb_exists in H.
  destruct H as (x & Hin & Heq). apply Ascii.eqb_eq in Heq. subst x. exact Hin.
Qed.

(* a class without the byte 128 that is uniform on 128..255 holds ASCII bytes only *)
Lemma low_cls_ascii k c : cls_uniform_high k = true -> high_cls k = false -> in_cls k c = true -> is_ascii c = true.
Proof.
  intros Hu Hh Hin. destruct (is_ascii c) eqn:E; [reflexivity|]. exfalso.
  apply non_ascii_high in E. unfold cls_uniform_high in Hu. apply orb_true_iff in Hu. destruct Hu as [Hu|Hu].
  - rewrite forallb_forall in Hu. unfold high_cls in Hh.
    assert (In (ascii_of_N 128) high_bytes) by (vm_compute; left; reflexivity).
    rewrite (Hu _ H) in Hh. discriminate.
  - rewrite forallb_forall in Hu. specialize (Hu _ E). rewrite Hin in Hu. discriminate.
Qed.

(* what follows a greedy star over a class with the non-ASCII bytes, in a rune-safe pattern, starts with an ASCII
   byte or at the end of the text (or is nothing but group marks up to the end of the pattern) *)
Lemma follow_next T r : follow_ok r = true -> classes_uniform r = true ->
  forall q ops ls e pcs, Parse T r q ops ls e pcs ->
  only_marks r = true \/ q = length T \/ exists c, nth_error T q = Some c /\ is_ascii c = true.
Proof.
  induction r as [|it r IH]; intros Hf Hu q ops ls e pcs HP.
  - left. reflexivity.
  - destruct it as [c|k|k|g|g| | |k]; cbn [follow_ok classes_uniform only_marks] in *; try discriminate.
    + inversion HP; subst. right. right. exists c. split; assumption.
    + apply andb_true_iff in Hu. destruct Hu as [Hu1 Hu2]. apply negb_true_iff in Hf.
      inversion HP; subst. right. right. eexists. split; [eassumption|]. eapply low_cls_ascii; eassumption.
    + inversion HP; subst. eapply IH; eassumption.
    + inversion HP; subst. eapply IH; eassumption.
    + inversion HP; subst. right. left. reflexivity.
Qed.

Lemma lead_info_lo n sz lo hi : lead_info n = Some (sz, lo, hi) -> (128 <= lo)%N.
Proof.
  unfold lead_info.
  repeat match goal with |- context [if ?b then _ else _] => destruct b end; intros [= <- <- <-]; discriminate || (apply N.leb_le; reflexivity).
Qed.

(* the bytes of a decoding step behind its first byte are not ASCII *)
Lemma decode_rune_cont s i b :
  1 <= i -> i < snd (decode_rune s) -> nth_error s i = Some b -> is_ascii b = false.
Proof.
  unfold decode_rune, is_ascii, nb, is_cont.
  destruct s as [|b0 r1]; [cbn; lia|].
  destruct (N_of_ascii b0 <? 128)%N; [cbn; lia|].
  destruct (lead_info (N_of_ascii b0)) as [[[sz lo] hi]|] eqn:EL; [|cbn; lia].
  apply lead_info_lo in EL.
  destruct r1 as [|b1 r2]; [cbn; lia|].
  destruct ((N_of_ascii b1 <? lo)%N || (hi <? N_of_ascii b1)%N) eqn:E1; [cbn; lia|].
  apply orb_false_iff in E1. destruct E1 as [E1 _]. apply N.ltb_ge in E1.
  assert (A1 : (N_of_ascii b1 <? 128)%N = false) by (apply N.ltb_ge; lia).
  destruct (sz <=? 2).
  { cbn [snd]. intros H1 H2 H3. assert (i = 1) by lia. subst i. cbn in H3. injection H3 as <-. exact A1. }
  destruct r2 as [|b2 r3]; [cbn; lia|].
  destruct ((128 <=? N_of_ascii b2)%N && (N_of_ascii b2 <=? 191)%N) eqn:E2; cbn [negb]; [|cbn; lia].
  apply andb_true_iff in E2. destruct E2 as [E2 _]. apply N.leb_le in E2.
  assert (A2 : (N_of_ascii b2 <? 128)%N = false) by (apply N.ltb_ge; lia).
  destruct (sz <=? 3).
  { cbn [snd]. intros H1 H2 H3. destruct i as [|[|[|i]]]; try lia; cbn in H3; injection H3 as <-; assumption. }
  destruct r3 as [|b3 r4]; [cbn; lia|].
  destruct ((128 <=? N_of_ascii b3)%N && (N_of_ascii b3 <=? 191)%N) eqn:E3; cbn [negb]; [|cbn; lia].
  apply andb_true_iff in E3. destruct E3 as [E3 _]. apply N.leb_le in E3.
  assert (A3 : (N_of_ascii b3 <? 128)%N = false) by (apply N.ltb_ge; lia).
  cbn [snd]. intros H1 H2 H3. destruct i as [|[|[|[|i]]]]; try lia; cbn in H3; injection H3 as <-; assumption.
Qed.

Lemma nth_error_skipn {A} (T : list A) : forall p i, nth_error (skipn p T) i = nth_error T (p + i).
Proof.
  induction T as [|x T IH]; intros p i.
  - rewrite skipn_nil. destruct i, p; reflexivity.
  - destruct p as [|p]; [reflexivity|]. cbn [skipn Nat.add nth_error]. apply IH.
Qed.

(* THE BYTE-LEVEL FACT: in any byte string (valid UTF-8 or not) the offset of an ASCII byte, and the end of the
   text, are rune boundaries of Go's decoding loop *)
Theorem ascii_offset_is_boundary T q :
  q = length T \/ (exists c, nth_error T q = Some c /\ is_ascii c = true) -> Boundary T q.
Proof.
  intros Hq. assert (Hle : q <= length T).
  { destruct Hq as [->|(c & Hc & _)]; [lia|]. apply nth_lt in Hc. lia. }
  assert (W : forall n p, Boundary T p -> p <= q -> q - p <= n -> Boundary T q).
  { induction n as [|n IH]; intros p Hb Hp Hn.
    - assert (p = q) by lia. subst p. exact Hb.
    - destruct (Nat.eq_dec p q) as [->|Hne]; [exact Hb|].
      assert (Hlt : p < length T) by lia.
      destruct (nth_error T p) as [c0|] eqn:Ec; [|apply nth_error_None in Ec; lia].
      destruct (rune_step _ _ _ Ec) as (W1 & W2 & W3).
      set (w := snd (decode_rune (skipn p T))) in *.
      assert (Hw : p + w <= q).
      { destruct (le_lt_dec (p + w) q) as [Hok|Hbad]; [exact Hok|]. exfalso.
        destruct Hq as [->|(c & Hc & Ha)]; [lia|].
        assert (Hi : nth_error (skipn p T) (q - p) = Some c).
        { rewrite nth_error_skipn. replace (p + (q - p)) with q by lia. exact Hc. }
        pose proof (decode_rune_cont (skipn p T) (q - p) c ltac:(lia) ltac:(fold w; lia) Hi) as Hna.
        rewrite Ha in Hna. discriminate. }
      apply (IH (p + w)); [apply B_step; assumption|exact Hw|lia]. }
  apply (W q 0); [constructor|lia|lia].
Qed.

(* consequence for parses: in a rune-safe position a greedy star over a class with the non-ASCII bytes ends at a
   rune boundary; an IRune item consumes exactly one decoding step *)
Theorem star_ends_at_boundary T k r p ops n ls e pcs :
  Parse T (IStar k :: r) p ops (n :: ls) e pcs ->
  follow_ok r = true -> classes_uniform r = true -> only_marks r = false -> Boundary T (p + n).
Proof.
  intros HP Hf Hu Hm. inversion HP; subst.
  match goal with Hr : Parse T r (p + n) ops ls e pcs |- _ => destruct (follow_next T r Hf Hu _ _ _ _ _ Hr) as [Hx|Hx] end.
  - congruence.
  - apply ascii_offset_is_boundary. exact Hx.
Qed.

Theorem rune_item_is_one_step T k r p ops ls e pcs :
  Parse T (IRune k :: r) p ops ls e pcs -> Boundary T p ->
  exists c, nth_error T p = Some c /\ in_cls k c = true /\
            Boundary T (p + snd (decode_rune (skipn p T))) /\
            Parse T r (p + snd (decode_rune (skipn p T))) ops ls e pcs.
Proof.
  intros HP Hb. inversion HP; subst. eexists. split; [eassumption|]. split; [assumption|]. split; [|assumption].
  apply B_step; [exact Hb|]. eapply nth_lt. eassumption.
Qed.
