(* Accepted publickey (plain key and certificate) on the widened domain: loginRE and certIDRE.

   Proofs/SshdLogin.v discharges "no later split point" by "the separator literal occurs nowhere
   later", which forces a narrow domain (no " from ", " port ", " ssh" anywhere after the field).
   Here the argument is the exact one.  Every match of loginRE ends with a match of its tail

       ssh[[:alnum:]]+: [\w -]+:\S            (with the leading space; [cpat] below)

   and that tail is deterministic (':' is outside both classes), so "the tail matches at this
   offset" is decided by a ten-state automaton ([frag_at]).  A longer Username / Source / Port
   needs such a fragment further to the right (after a later " from " and " port ", after a
   later " port ", or just later); the rendered line has exactly one fragment outside the key id
   (the real  ssh2: KT HASH:KS), so the three greedy fields are right IF AND ONLY IF the key id
   (with the space in front of it) contains no fragment: [no_ssh_frag kid]. *)
From Coq Require Import Ascii String List Bool Arith ZArith NArith Lia.
Import ListNotations.
From AM Require Import Lib.Bytes Lib.Utf8 Lib.Regex Proofs.RegexLemmas Gen.SshdRegexes Gen.SshdDispatch
  Model.SshdProc Proofs.SshdFields Proofs.SshdForms Proofs.SshdFields2 Proofs.SshdForms2 Proofs.SshdLogin.
Open Scope string_scope.
Open Scope list_scope.

(* ================================================================================== *)
(* 1. generic: what a successful match says about the text                            *)
(* ================================================================================== *)

Lemma skipn_skipn' {A} i j (l : list A) : skipn i (skipn j l) = skipn (j + i) l.
Proof.
  revert l. induction j as [|j IH]; intros l; [reflexivity|].
  destruct l as [|x l]; cbn [skipn Nat.add]; [destruct i; reflexivity|apply IH].
Qed.

(* the tail of a pattern matched some suffix of the text *)
Lemma m_suffix pre post : forall p t ops cs res,
  m (pre ++ post) p t ops cs = Some res ->
  exists j p' ops' cs', m post p' (skipn j t) ops' cs' = Some res.
Proof.
  induction pre as [|it pre IH]; intros p t ops cs res H.
  - exists 0, p, ops, cs. exact H.
  - cbn [app] in H. destruct it as [x|k|k|g|g| | |k]; cbn [m] in H.
    + destruct t as [|y t]; [discriminate|]. destruct (Ascii.eqb y x); [|discriminate].
      destruct (IH _ _ _ _ _ H) as (j & p' & o' & c' & Hj). exists (S j), p', o', c'. exact Hj.
    + destruct t as [|y t]; [discriminate|]. destruct (in_cls k y); [|discriminate].
      destruct (IH _ _ _ _ _ H) as (j & p' & o' & c' & Hj). exists (S j), p', o', c'. exact Hj.
    + apply try_desc_some in H. destruct H as (j0 & _ & H).
      destruct (IH _ _ _ _ _ H) as (j & p' & o' & c' & Hj). exists (j0 + j), p', o', c'.
      rewrite <- skipn_skipn'. exact Hj.
    + exact (IH _ _ _ _ _ H).
    + destruct (lookup_g g ops); [|discriminate]. exact (IH _ _ _ _ _ H).
    + destruct (Nat.eqb p 0); [|discriminate]. exact (IH _ _ _ _ _ H).
    + destruct t; [|discriminate]. exact (IH _ _ _ _ _ H).
    + destruct t as [|y t]; [discriminate|]. destruct (in_cls k y); [|discriminate].
      destruct (IH _ _ _ _ _ H) as (j & p' & o' & c' & Hj). exists (snd (decode_rune (y :: t)) + j), p', o', c'.
      rewrite <- skipn_skipn'. exact Hj.
Qed.

Lemma run_len_firstn k : forall s j, j <= run_len k s -> forallb (in_cls k) (firstn j s) = true.
Proof.
  induction s as [|c s IH]; intros j Hj; [destruct j; reflexivity|].
  destruct j as [|j]; [reflexivity|]. cbn [run_len] in Hj. cbn [firstn forallb].
  destruct (in_cls k c); [|lia]. cbn. apply IH. lia.
Qed.

(* k+ consumed a non-empty word of the class *)
Lemma m_plus_inv k r p t ops cs res :
  m (IOne k :: IStar k :: r) p t ops cs = Some res ->
  exists v t' p', t = v ++ t' /\ v <> [] /\ forallb (in_cls k) v = true /\ m r p' t' ops cs = Some res.
Proof.
  intros H. destruct t as [|x s]; [discriminate|]. rewrite m_one in H.
  destruct (in_cls k x) eqn:Hx; [|discriminate]. rewrite m_star in H.
  apply try_desc_some in H. destruct H as (j & Hj & H).
  exists (x :: firstn j s), (skipn j s), (S p + j). split; [|split; [|split]].
  - cbn [app]. rewrite firstn_skipn. reflexivity.
  - discriminate.
  - cbn [forallb]. rewrite Hx. apply run_len_firstn. exact Hj.
  - exact H.
Qed.

(* ================================================================================== *)
(* 2. the tail of loginRE and the automaton that decides it                           *)
(* ================================================================================== *)

Definition cpat : list item :=
  lits " ssh" ++ IOne cls_alnum :: IStar cls_alnum :: lits ": " ++ IOpen 4 :: IOne cls_alg :: IStar cls_alg ::
  IClose 4 :: lits ":" ++ IOpen 5 :: IOne cls_nonspace :: IStar cls_nonspace :: IClose 5 :: [].

Definition pre3 : list item := [IOpen 3; IStar cls_dot; IClose 3].
Definition pre2 : list item := [IOpen 2; IStar cls_dot; IClose 2].

(* loginRE, cut at its separators (checked against the GENERATED definition) *)
Lemma loginRE_shape :
  loginRE = lits "Accepted publickey for " ++ IOpen 1 :: IStar cls_dot :: IClose 1 ::
            ([] ++ map ILit (s2l " from ") ++ (pre2 ++ map ILit (s2l " port ") ++ (pre3 ++ cpat))).
Proof. reflexivity. Qed.

Inductive fstate := L0 | L1 | L2 | L3 | A0 | A1 | C0 | G0 | G1 | F0.
Inductive fres := Go (q : fstate) | Acc | Rej.

Definition colon_c : ascii := ":"%char.

Definition fstep (q : fstate) (c : ascii) : fres :=
  match q with
  | L0 => if Ascii.eqb c sp then Go L1 else Rej
  | L1 => if Ascii.eqb c "s"%char then Go L2 else Rej
  | L2 => if Ascii.eqb c "s"%char then Go L3 else Rej
  | L3 => if Ascii.eqb c "h"%char then Go A0 else Rej
  | A0 => if in_cls cls_alnum c then Go A1 else Rej
  | A1 => if in_cls cls_alnum c then Go A1 else if Ascii.eqb c colon_c then Go C0 else Rej
  | C0 => if Ascii.eqb c sp then Go G0 else Rej
  | G0 => if in_cls cls_alg c then Go G1 else Rej
  | G1 => if in_cls cls_alg c then Go G1 else if Ascii.eqb c colon_c then Go F0 else Rej
  | F0 => if in_cls cls_nonspace c then Acc else Rej
  end.

Fixpoint frun (q : fstate) (t : str) : bool :=
  match t with
  | [] => false
  | c :: r => match fstep q c with Go q' => frun q' r | Acc => true | Rej => false end
  end.

(* t starts with a fragment   " ssh" alnum+ ": " [\w -]+ ":" non-space *)
Definition frag_at (t : str) : bool := frun L0 t.

(* no fragment starts anywhere in t *)
Fixpoint nofrag (t : str) : bool :=
  negb (frag_at t) && match t with [] => true | _ :: r => nofrag r end.

Lemma frun_alnum v t : forallb (in_cls cls_alnum) v = true -> frun A1 (v ++ t) = frun A1 t.
Proof.
  induction v as [|c v IH]; intros H; [reflexivity|]. cbn [forallb] in H. apply andb_true_iff in H. destruct H as [H1 H2].
  cbn [app frun fstep]. rewrite H1. apply IH. exact H2.
Qed.

Lemma frun_alg v t : forallb (in_cls cls_alg) v = true -> frun G1 (v ++ t) = frun G1 t.
Proof.
  induction v as [|c v IH]; intros H; [reflexivity|]. cbn [forallb] in H. apply andb_true_iff in H. destruct H as [H1 H2].
  cbn [app frun fstep]. rewrite H1. apply IH. exact H2.
Qed.

Lemma frag_of_parts v w e r :
  v <> [] -> forallb (in_cls cls_alnum) v = true -> w <> [] -> forallb (in_cls cls_alg) w = true ->
  in_cls cls_nonspace e = true ->
  frag_at (s2l " ssh" ++ v ++ s2l ": " ++ w ++ s2l ":" ++ e :: r) = true.
Proof.
  intros Hv0 Hv Hw0 Hw He. destruct v as [|x v]; [congruence|]. destruct w as [|y w]; [congruence|].
  cbn [forallb] in Hv, Hw. apply andb_true_iff in Hv, Hw. destruct Hv as [Hx Hv]. destruct Hw as [Hy Hw].
  unfold frag_at. change (frun A0 ((x :: v) ++ s2l ": " ++ (y :: w) ++ s2l ":" ++ e :: r) = true).
  cbn [app frun fstep]. rewrite Hx, (frun_alnum v _ Hv).
  change (frun G0 ((y :: w) ++ s2l ":" ++ e :: r) = true).
  cbn [app frun fstep]. rewrite Hy, (frun_alg w _ Hw).
  change (frun F0 (e :: r) = true). cbn [frun fstep]. rewrite He. reflexivity.
Qed.

(* a match of the tail pattern starts with a fragment *)
Lemma cpat_frag p t ops cs res : m cpat p t ops cs = Some res -> frag_at t = true.
Proof.
  unfold cpat, lits. intros H.
  apply m_lits_inv in H. destruct H as (t1 & -> & H).
  apply m_plus_inv in H. destruct H as (v & t2 & p2 & -> & Hv0 & Hv & H).
  apply m_lits_inv in H. destruct H as (t3 & -> & H).
  rewrite m_open in H.
  apply m_plus_inv in H. destruct H as (w & t4 & p4 & -> & Hw0 & Hw & H).
  rewrite m_close in H. destruct (lookup_g 4 _); [|discriminate].
  apply m_lits_inv in H. destruct H as (t5 & -> & H).
  rewrite m_open in H. destruct t5 as [|e r]; [discriminate|]. rewrite m_one in H.
  destruct (in_cls cls_nonspace e) eqn:He; [|discriminate].
  apply frag_of_parts; assumption.
Qed.

Lemma nofrag_skipn : forall t, nofrag t = true -> forall j, frag_at (skipn j t) = false.
Proof.
  induction t as [|x t IH]; intros H j; cbn [nofrag] in H; apply andb_true_iff in H; destruct H as [H1 H2];
    apply negb_true_iff in H1.
  - destruct j; exact H1.
  - destruct j as [|j]; cbn [skipn]; [exact H1|]. apply IH. exact H2.
Qed.

Lemma nofrag_suffix : forall t j, nofrag t = true -> nofrag (skipn j t) = true.
Proof.
  induction t as [|x t IH]; intros j H; [destruct j; exact H|].
  destruct j as [|j]; [exact H|]. cbn [skipn]. apply IH.
  cbn [nofrag] in H. apply andb_true_iff in H. apply H.
Qed.

(* A: without a fragment anywhere, nothing that ends with the tail pattern matches anywhere *)
Lemma nofrag_fails pre t : nofrag t = true -> forall j, fails (pre ++ cpat) (skipn j t).
Proof.
  intros Hn j p ops cs. destruct (m (pre ++ cpat) p (skipn j t) ops cs) as [res|] eqn:E; [|reflexivity].
  apply m_suffix in E. destruct E as (i & p' & o' & c' & E). apply cpat_frag in E.
  rewrite skipn_skipn' in E. rewrite (nofrag_skipn t Hn) in E. discriminate.
Qed.

(* ================================================================================== *)
(* 3. "after every occurrence of the literal L, f holds"                              *)
(* ================================================================================== *)

Fixpoint scan (f : str -> bool) (L t : str) : bool :=
  (match strip_prefix L t with Some t' => f t' | None => true end) &&
  match t with [] => true | _ :: r => scan f L r end.

Lemma scan_skipn f L : forall t, scan f L t = true ->
  forall j t', strip_prefix L (skipn j t) = Some t' -> f t' = true.
Proof.
  induction t as [|x t IH]; intros H j t' E; cbn [scan] in H; apply andb_true_iff in H; destruct H as [H1 H2].
  - assert (skipn j (@nil ascii) = []) as X by (destruct j; reflexivity). rewrite X in E. rewrite E in H1. exact H1.
  - destruct j as [|j]; cbn [skipn] in E; [rewrite E in H1; exact H1|]. exact (IH H2 j t' E).
Qed.

Lemma scan_suffix f L : forall t j, scan f L t = true -> scan f L (skipn j t) = true.
Proof.
  induction t as [|x t IH]; intros j H; [destruct j; exact H|].
  destruct j as [|j]; [exact H|]. cbn [skipn]. apply IH.
  cbn [scan] in H. apply andb_true_iff in H. apply H.
Qed.

Lemma strip_prefix_skipn L : forall t t', strip_prefix L t = Some t' -> t' = skipn (length L) t.
Proof.
  induction L as [|a L IH]; intros t t' H; cbn in H; [injection H as <-; reflexivity|].
  destruct t as [|y t]; [discriminate|]. destruct (Ascii.eqb a y); [|discriminate]. cbn [length skipn]. apply IH. exact H.
Qed.

(* a suffix-closed f that holds of t holds after every occurrence in t *)
Lemma scan_mono f L : (forall t j, f t = true -> f (skipn j t) = true) -> forall t, f t = true -> scan f L t = true.
Proof.
  intros Hf. induction t as [|x t IH]; intros H; cbn [scan]; apply andb_true_intro; split.
  - destruct (strip_prefix L []) as [t'|] eqn:E; [|reflexivity]. rewrite (strip_prefix_skipn _ _ _ E). apply Hf. exact H.
  - reflexivity.
  - destruct (strip_prefix L (x :: t)) as [t'|] eqn:E; [|reflexivity]. rewrite (strip_prefix_skipn _ _ _ E). apply Hf. exact H.
  - apply IH. exact (Hf (x :: t) 1 H).
Qed.

(* B: the generic step — pre, then the literal L, then fin *)
Lemma scan_fails f L pre fin t :
  (forall t', f t' = true -> forall j, fails fin (skipn j t')) ->
  scan f L t = true -> forall j, fails (pre ++ map ILit L ++ fin) (skipn j t).
Proof.
  intros Hfin Hs j p ops cs.
  destruct (m (pre ++ map ILit L ++ fin) p (skipn j t) ops cs) as [res|] eqn:E; [|reflexivity].
  apply m_suffix in E. destruct E as (i & p' & o' & c' & E).
  apply m_lits_inv in E. destruct E as (t' & Et & E). rewrite skipn_skipn' in Et.
  assert (strip_prefix L (skipn (j + i) t) = Some t') as X by (rewrite Et; apply strip_prefix_app).
  pose proof (scan_skipn f L t Hs _ _ X) as Hf.
  pose proof (Hfin t' Hf 0 (p' + length L) o' c') as Y. cbn [skipn] in Y. rewrite Y in E. discriminate.
Qed.

(* chunk by chunk, for a literal that starts with a space *)
Lemma scan_field f L' v t : lacks sp v -> scan f (sp :: L') (v ++ t) = scan f (sp :: L') t.
Proof.
  induction v as [|a v IH]; intros H; [reflexivity|].
  cbn in H. apply andb_true_iff in H. destruct H as [H1 H2]. cbn [app scan strip_prefix].
  rewrite (eqb_sp_false a H1). cbn [andb]. apply IH. exact H2.
Qed.

Lemma scan_sp f L' t :
  scan f (sp :: L') (sp :: t) = (match strip_prefix L' t with Some t' => f t' | None => true end) && scan f (sp :: L') t.
Proof. reflexivity. Qed.

Lemma scan_sp_no f L' t : has_prefix L' t = false -> scan f (sp :: L') (sp :: t) = scan f (sp :: L') t.
Proof. intros H. rewrite scan_sp. unfold has_prefix in H. destruct (strip_prefix L' t); [discriminate|reflexivity]. Qed.

Definition nochainP : str -> bool := scan nofrag (s2l " port ").
Definition nochainF : str -> bool := scan nochainP (s2l " from ").

Lemma nochainP_of_nofrag t : nofrag t = true -> nochainP t = true.
Proof. apply scan_mono. exact nofrag_suffix. Qed.

Lemma nochainF_of_nofrag t : nofrag t = true -> nochainF t = true.
Proof.
  intros H. apply scan_mono; [|apply nochainP_of_nofrag; exact H].
  intros t0 j. apply scan_suffix.
Qed.

(* no longer Port / Source / Username *)
Lemma nofrag_no_later_port t : nofrag t = true -> forall j, fails cpat (skipn j t).
Proof. intros H j. exact (nofrag_fails [] t H j). Qed.

Lemma nochainP_fails pre t : nochainP t = true -> forall j, fails (pre ++ map ILit (s2l " port ") ++ (pre3 ++ cpat)) (skipn j t).
Proof. apply scan_fails. intros t' H. apply nofrag_fails. exact H. Qed.

Lemma nochainF_fails pre t : nochainF t = true ->
  forall j, fails (pre ++ map ILit (s2l " from ") ++ (pre2 ++ map ILit (s2l " port ") ++ (pre3 ++ cpat))) (skipn j t).
Proof. apply scan_fails. intros t' H. apply nochainP_fails. exact H. Qed.

(* ================================================================================== *)
(* 4. proving [nofrag] of a rendered text, chunk by chunk                             *)
(* ================================================================================== *)

Lemma frag_at_not_sp a t : negb (Ascii.eqb a sp) = true -> frag_at (a :: t) = false.
Proof. intros H. apply negb_true_iff in H. unfold frag_at. cbn [frun fstep]. rewrite H. reflexivity. Qed.

Lemma nofrag_field v t : lacks sp v -> nofrag (v ++ t) = nofrag t.
Proof.
  induction v as [|a v IH]; intros H; [reflexivity|].
  cbn in H. apply andb_true_iff in H. destruct H as [H1 H2]. cbn [app nofrag].
  rewrite (frag_at_not_sp a _ H1). cbn [negb andb]. apply IH. exact H2.
Qed.

Lemma nofrag_field_end v : lacks sp v -> nofrag v = true.
Proof. intros H. rewrite <- (app_nil_r v), nofrag_field by exact H. reflexivity. Qed.

Lemma nofrag_sp t : nofrag (sp :: t) = negb (frun L1 t) && nofrag t.
Proof. reflexivity. Qed.

(* a word of the key-type class after a space: the automaton is still inside " ssh" alnum* or dead *)
Definition wordQ (q : fstate) : bool := match q with L1 | L2 | L3 | A0 | A1 => true | _ => false end.

Definition word_step_ok (q : fstate) (c : ascii) : bool :=
  implb (in_cls cls_keytype c) (match fstep q c with Go q' => wordQ q' | Acc => false | Rej => true end).

Lemma word_step q c : wordQ q = true -> in_cls cls_keytype c = true ->
  match fstep q c with Go q' => wordQ q' = true | Acc => False | Rej => True end.
Proof.
  intros Hq Hc.
  assert (word_step_ok q c = true) as X.
  { revert c Hc. destruct q; try discriminate; intros c _; revert c; apply for_all_ascii; vm_compute; reflexivity. }
  unfold word_step_ok in X. rewrite Hc in X. cbn [implb] in X.
  destruct (fstep q c); [exact X|discriminate|exact I].
Qed.

Lemma frun_word : forall w t q, forallb (in_cls cls_keytype) w = true -> wordQ q = true ->
  (forall q', wordQ q' = true -> frun q' t = false) -> frun q (w ++ t) = false.
Proof.
  induction w as [|c w IH]; intros t q Hw Hq Ht; [apply Ht; exact Hq|].
  cbn [forallb] in Hw. apply andb_true_iff in Hw. destruct Hw as [Hc Hw].
  cbn [app frun]. pose proof (word_step q c Hq Hc) as X.
  destruct (fstep q c) as [q'| |]; [|contradiction|reflexivity]. apply IH; assumption.
Qed.

(* ... followed by a space: dead *)
Lemma frun_word_sp w t : forallb (in_cls cls_keytype) w = true -> frun L1 (w ++ sp :: t) = false.
Proof. intros H. apply frun_word; [exact H|reflexivity|]. intros q Hq. destruct q; try discriminate; reflexivity. Qed.

(* ... followed by a closing parenthesis (the serial number): dead *)
Lemma frun_word_paren w t : forallb (in_cls cls_keytype) w = true -> frun L1 (w ++ ")"%char :: t) = false.
Proof. intros H. apply frun_word; [exact H|reflexivity|]. intros q Hq. destruct q; try discriminate; reflexivity. Qed.

(* ... followed by a colon and then by something that does not start with a space (HASH:DIGEST): dead *)
Lemma frun_word_colon w t : forallb (in_cls cls_keytype) w = true ->
  has_prefix [sp] t = false -> frun L1 (w ++ colon_c :: t) = false.
Proof.
  intros H Ht. apply frun_word; [exact H|reflexivity|]. intros q Hq.
  destruct q; try discriminate; try reflexivity.
  (* A1: the colon is taken, then a space is required *)
  change (frun C0 t = false). destruct t as [|x t]; [reflexivity|]. cbn [frun fstep].
  unfold has_prefix in Ht. cbn [strip_prefix] in Ht.
  destruct (Ascii.eqb_spec x sp) as [->|]; [|reflexivity]. rewrite Ascii.eqb_refl in Ht. discriminate.
Qed.

(* the straddle: a fragment of a ++ b lies in a, or some state accepts a prefix of b *)
Lemma frun_app : forall a b q, frun q (a ++ b) = true -> frun q a = true \/ exists q', frun q' b = true.
Proof.
  induction a as [|c a IH]; intros b q H; [right; exists q; exact H|].
  cbn [app frun] in *. destruct (fstep q c) as [q'| |]; [apply IH; exact H|left; reflexivity|discriminate].
Qed.

Lemma nofrag_app : forall a b, nofrag a = true -> (forall q, frun q b = false) -> nofrag b = true -> nofrag (a ++ b) = true.
Proof.
  induction a as [|c a IH]; intros b Ha Hb Hnb; [exact Hnb|].
  cbn [nofrag] in Ha. apply andb_true_iff in Ha. destruct Ha as [H1 H2]. apply negb_true_iff in H1.
  change ((c :: a) ++ b) with (c :: (a ++ b)). cbn [nofrag]. apply andb_true_intro. split.
  - apply negb_true_iff. destruct (frag_at (c :: a ++ b)) eqn:E; [|reflexivity].
    apply (frun_app (c :: a) b L0) in E. destruct E as [E|[q E]]; [unfold frag_at in H1; congruence|].
    rewrite Hb in E. discriminate.
  - apply IH; assumption.
Qed.

(* what follows the key id — " (" — is accepted from no state *)
Lemma frun_sp_paren t q : frun q (sp :: "("%char :: t) = false.
Proof. destruct q; reflexivity. Qed.

(* a simple sufficient condition: the text never says " ssh" *)
Lemma frag_at_ssh t : frag_at t = true -> has_prefix (s2l " ssh") t = true.
Proof.
  unfold frag_at, has_prefix. intros H.
  destruct t as [|a t]; [discriminate|]. cbn [frun fstep] in H. destruct (Ascii.eqb_spec a sp) as [->|]; [|discriminate].
  destruct t as [|b t]; [discriminate|]. cbn [frun fstep] in H. destruct (Ascii.eqb_spec b "s"%char) as [->|]; [|discriminate].
  destruct t as [|c t]; [discriminate|]. cbn [frun fstep] in H. destruct (Ascii.eqb_spec c "s"%char) as [->|]; [|discriminate].
  destruct t as [|d t]; [discriminate|]. cbn [frun fstep] in H. destruct (Ascii.eqb_spec d "h"%char) as [->|]; [|discriminate].
  reflexivity.
Qed.

Lemma nowhere_ssh_nofrag : forall t, nowhere (s2l " ssh") t = true -> nofrag t = true.
Proof.
  induction t as [|x t IH]; intros H; cbn [nowhere] in H; apply andb_true_iff in H; destruct H as [H1 H2];
    apply negb_true_iff in H1; cbn [nofrag]; apply andb_true_intro; split; try reflexivity.
  - apply negb_true_iff. destruct (frag_at (x :: t)) eqn:E; [|reflexivity]. apply frag_at_ssh in E. congruence.
  - apply IH. exact H2.
Qed.

(* ================================================================================== *)
(* 5. the rendered line                                                               *)
(* ================================================================================== *)

(* key type and hash name: non-empty [A-Za-z0-9_-]  ([keytype] of Proofs/SshdFields2.v) *)
Lemma keytype_imp_alg c : in_cls cls_keytype c = true -> in_cls cls_alg c = true.
Proof. apply implb_true. revert c. apply for_all_ascii. vm_compute. reflexivity. Qed.

Lemma keytype_imp_dot c : in_cls cls_keytype c = true -> in_cls cls_dot c = true.
Proof. apply implb_true. revert c. apply for_all_ascii. vm_compute. reflexivity. Qed.

Lemma keytype_lacks_sp v : keytype v -> lacks sp v.
Proof. intros H. apply no_space_lacks_sp, keytype_no_space, H. Qed.

Lemma keytype_alg v : keytype v -> forallb (in_cls cls_alg) v = true.
Proof. intros [_ H]. revert H. apply forallb_imp. apply keytype_imp_alg. Qed.

Lemma no_space_head_not_sp ks z : ks <> [] -> no_space ks -> has_prefix [sp] (ks ++ z) = false.
Proof.
  intros H0 H. destruct ks as [|e ks]; [congruence|]. cbn [forallb] in H. apply andb_true_iff in H. destruct H as [He _].
  apply nonspace_not_sp in He. unfold has_prefix. cbn [app strip_prefix].
  rewrite (eqb_sp_false e He). reflexivity.
Qed.

(* the text from the real "ssh2:" on holds no further fragment, if what follows the digest holds none *)
Lemma nofrag_core kt h ks z :
  keytype kt -> keytype h -> ks <> [] -> no_space ks -> nofrag z = true ->
  nofrag (s2l "ssh2:" ++ sp :: kt ++ sp :: h ++ s2l ":" ++ ks ++ z) = true.
Proof.
  intros Hkt Hh Hks0 Hks Hz.
  pose proof (keytype_lacks_sp kt Hkt) as Lkt. pose proof (keytype_lacks_sp h Hh) as Lh.
  pose proof (no_space_lacks_sp ks Hks) as Lks.
  rewrite nofrag_field by reflexivity.
  rewrite nofrag_sp, frun_word_sp by apply Hkt. cbn [negb andb].
  rewrite nofrag_field by exact Lkt. rewrite nofrag_sp.
  change (s2l ":" ++ ks ++ z) with (colon_c :: ks ++ z).
  rewrite frun_word_colon; [|apply Hh|apply no_space_head_not_sp; assumption]. cbn [negb andb].
  rewrite nofrag_field by exact Lh.
  change (colon_c :: ks ++ z) with (s2l ":" ++ ks ++ z).
  rewrite nofrag_field by reflexivity. rewrite nofrag_field by exact Lks. exact Hz.
Qed.

Lemma hp_digits L'' a p t : digits p -> in_cls cls_digit a = false -> has_prefix (a :: L'') (p ++ t) = false.
Proof. intros Hp Ha. apply (hp_first_cls cls_digit); [apply Hp|apply Hp|exact Ha]. Qed.

Lemma nochainP_core p kt h ks z :
  digits p -> keytype kt -> keytype h -> ks <> [] -> no_space ks -> nofrag z = true ->
  nochainP (s2l "port" ++ sp :: p ++ sp :: s2l "ssh2:" ++ sp :: kt ++ sp :: h ++ s2l ":" ++ ks ++ z) = true.
Proof.
  intros Hp Hkt Hh Hks0 Hks Hz. pose proof (digits_lacks_sp p Hp) as Lp.
  unfold nochainP. change (s2l " port ") with (sp :: s2l "port ").
  rewrite scan_field by reflexivity.
  rewrite scan_sp_no by (apply hp_digits; [exact Hp|reflexivity]).
  rewrite scan_field by exact Lp.
  rewrite scan_sp_no by reflexivity.
  apply nochainP_of_nofrag. apply nofrag_core; assumption.
Qed.

Lemma strip_word W : forall v t t', lacks sp W -> lacks sp v ->
  strip_prefix (W ++ [sp]) (v ++ sp :: t) = Some t' -> t' = t.
Proof.
  induction W as [|a W IH]; intros v t t' HW Hv H.
  - destruct v as [|x v]; cbn [app strip_prefix] in H.
    + rewrite Ascii.eqb_refl in H. congruence.
    + cbn in Hv. apply andb_true_iff in Hv. destruct Hv as [Hx _]. rewrite (eqb_sp_false x Hx) in H. discriminate.
  - cbn in HW. apply andb_true_iff in HW. destruct HW as [Ha HW].
    destruct v as [|x v]; cbn [app strip_prefix] in H.
    + apply negb_true_iff in Ha. rewrite Ha in H. discriminate.
    + cbn in Hv. apply andb_true_iff in Hv. destruct Hv as [_ Hv].
      destruct (Ascii.eqb a x); [|discriminate]. exact (IH v t t' HW Hv H).
Qed.

(* the source may be ANY space-free word, the word "from" included *)
Lemma nochainF_core s p kt h ks z :
  no_space s -> digits p -> keytype kt -> keytype h -> ks <> [] -> no_space ks -> nofrag z = true ->
  nochainF (s2l "from" ++ sp :: s ++ sp :: s2l "port" ++ sp :: p ++ sp :: s2l "ssh2:" ++ sp :: kt ++ sp :: h ++ s2l ":" ++ ks ++ z) = true.
Proof.
  intros Hs Hp Hkt Hh Hks0 Hks Hz.
  pose proof (no_space_lacks_sp s Hs) as Ls. pose proof (digits_lacks_sp p Hp) as Lp.
  unfold nochainF. change (s2l " from ") with (sp :: s2l "from ").
  rewrite scan_field by reflexivity.
  rewrite scan_sp. apply andb_true_intro. split.
  - destruct (strip_prefix (s2l "from ") (s ++ sp :: s2l "port" ++ sp :: p ++ sp :: s2l "ssh2:" ++ sp :: kt ++ sp :: h ++ s2l ":" ++ ks ++ z))
      as [t'|] eqn:E; [|reflexivity].
    apply (strip_word (s2l "from") s) in E; [|reflexivity|exact Ls]. subst t'.
    apply nochainP_core; assumption.
  - rewrite scan_field by exact Ls.
    rewrite scan_sp_no by reflexivity.
    rewrite scan_field by reflexivity.
    rewrite scan_sp_no by (apply hp_digits; [exact Hp|reflexivity]).
    rewrite scan_field by exact Lp.
    rewrite scan_sp_no by reflexivity.
    apply (nochainF_of_nofrag). apply nofrag_core; assumption.
Qed.

(* z: what follows the key digest — nothing, or a space and more text without a fragment *)
Lemma find_login_wide u s p kt h ks z :
  no_nl u -> no_space s -> digits p ->
  keytype kt -> keytype h -> ks <> [] -> no_space ks ->
  run_len cls_nonspace z = 0 -> nofrag z = true ->
  find loginRE (key_core u s p kt h ks ++ z) =
  Some {| m_start := 0; m_end := length (key_core u s p kt h ks);
          m_caps := [(5, ks); (4, kt ++ s2l " " ++ h); (3, p); (2, s); (1, u)] |}.
Proof.
  intros Hu Hs Hp Hkt Hh Hks0 Hks Hz Zn.
  cut (exists e, find loginRE (key_core u s p kt h ks ++ z) =
         Some {| m_start := 0; m_end := e; m_caps := [(5, ks); (4, kt ++ s2l " " ++ h); (3, p); (2, s); (1, u)] |}
         /\ e = length (key_core u s p kt h ks)).
  { intros (e & He & ->). exact He. }
  eexists. split.
  - rewrite key_core_app, loginRE_shape. apply find_at_zero. step_lits.
    apply group_star; [apply no_nl_dot; exact Hu| |].
    + cbn [app]. rewrite m_lits. unfold pre2. cbn [app].
      apply group_star; [apply no_space_dot; exact Hs| |].
      * rewrite m_lits. unfold pre3. cbn [app].
        apply group_star; [apply digits_dot; exact Hp| |].
        -- unfold cpat.
           change (s2l " ssh2: " ++ kt ++ s2l " " ++ h ++ s2l ":" ++ ks ++ z)
             with (s2l " ssh" ++ (s2l "2" ++ (s2l ": " ++ kt ++ s2l " " ++ h ++ s2l ":" ++ ks ++ z))).
           step_lits. apply plus_nogroup; [discriminate|reflexivity| |].
           ++ step_lits.
              replace (kt ++ s2l " " ++ h ++ s2l ":" ++ ks ++ z) with ((kt ++ s2l " " ++ h) ++ s2l ":" ++ ks ++ z)
                by (rewrite <- !app_assoc; reflexivity).
              apply group_plus.
              ** destruct Hkt as [Hk0 _]. destruct kt; [congruence|discriminate].
              ** apply forallb_app_true; [apply keytype_alg; exact Hkt|].
                 apply forallb_app_true; [reflexivity|apply keytype_alg; exact Hh].
              ** step_lits. apply group_plus; [exact Hks0|exact Hks| |].
                 --- rewrite m_nil. reflexivity.
                 --- apply no_later_run0. exact Hz.
              ** apply no_later_run0. apply run_len_out. reflexivity.
           ++ apply no_later_run0. apply run_len_out. reflexivity.
        -- change (s2l " ssh2: " ++ kt ++ s2l " " ++ h ++ s2l ":" ++ ks ++ z)
             with (sp :: (s2l "ssh2:" ++ sp :: kt ++ sp :: h ++ s2l ":" ++ ks ++ z)).
           intros j Hj _. destruct j as [|j]; [lia|]. cbn [skipn].
           apply nofrag_no_later_port. apply nofrag_core; assumption.
      * change (s2l " port " ++ p ++ s2l " ssh2: " ++ kt ++ s2l " " ++ h ++ s2l ":" ++ ks ++ z)
          with (sp :: (s2l "port" ++ sp :: p ++ sp :: s2l "ssh2:" ++ sp :: kt ++ sp :: h ++ s2l ":" ++ ks ++ z)).
        intros j Hj _. destruct j as [|j]; [lia|]. cbn [skipn].
        apply (nochainP_fails []). apply nochainP_core; assumption.
    + change (s2l " from " ++ s ++ s2l " port " ++ p ++ s2l " ssh2: " ++ kt ++ s2l " " ++ h ++ s2l ":" ++ ks ++ z)
        with (sp :: (s2l "from" ++ sp :: s ++ sp :: s2l "port" ++ sp :: p ++ sp :: s2l "ssh2:" ++ sp :: kt ++ sp :: h ++ s2l ":" ++ ks ++ z)).
      intros j Hj _. destruct j as [|j]; [lia|]. cbn [skipn].
      apply (nochainF_fails []). apply nochainF_core; assumption.
  - unfold key_core. rewrite !app_length. eval_lengths. lia.
Qed.

(* ---------- plain key:  ... ssh2: KT HASH:KS  (nothing follows) ---------- *)

Lemma find_accepted_key_wide u s p kt h ks :
  no_nl u -> no_space s -> digits p ->
  keytype kt -> keytype h -> ks <> [] -> no_space ks ->
  find loginRE (fmt_accepted_key u s p kt h ks) =
  Some {| m_start := 0; m_end := length (fmt_accepted_key u s p kt h ks);
          m_caps := [(5, ks); (4, kt ++ s2l " " ++ h); (3, p); (2, s); (1, u)] |}.
Proof.
  intros Hu Hs Hp Hkt Hh Hks0 Hks.
  pose proof (find_login_wide u s p kt h ks [] Hu Hs Hp Hkt Hh Hks0 Hks eq_refl eq_refl) as H.
  rewrite app_nil_r in H. exact H.
Qed.

(* ---------- certificate:  ... KS ID KID (serial N) CA KT2 HASH2:KS2 ---------- *)

(* THE hypothesis on the key id: " " ++ kid contains no fragment  ssh[[:alnum:]]+: [\w -]+:\S *)
Definition no_ssh_frag (kid : str) : bool := nofrag (sp :: kid).

(* sufficient: the key id neither starts with "ssh" nor contains " ssh" *)
Lemma no_ssh_frag_simple kid : nowhere (s2l " ssh") (sp :: kid) = true -> no_ssh_frag kid = true.
Proof. apply nowhere_ssh_nofrag. Qed.

Lemma digit_imp_keytype c : in_cls cls_digit c = true -> in_cls cls_keytype c = true.
Proof. apply implb_true. revert c. apply for_all_ascii. vm_compute. reflexivity. Qed.

Lemma no_space_not_sp_head v : no_space v -> has_prefix [sp] v = false.
Proof.
  intros H. destruct v as [|e v]; [reflexivity|]. cbn [forallb] in H. apply andb_true_iff in H. destruct H as [He _].
  apply nonspace_not_sp in He. unfold has_prefix. cbn [strip_prefix]. rewrite (eqb_sp_false e He). reflexivity.
Qed.

Lemma cert_tail_shape kid n kt2 h2 ks2 :
  sp :: cert_tail kid n kt2 h2 ks2 =
  sp :: s2l "ID" ++ (sp :: kid) ++ sp :: "("%char ::
    (s2l "serial" ++ sp :: n ++ ")"%char :: (sp :: s2l "CA" ++ sp :: kt2 ++ sp :: h2 ++ colon_c :: ks2)).
Proof.
  reflexivity.
Qed.

Lemma nofrag_cert_tail kid n kt2 h2 ks2 :
  no_ssh_frag kid = true -> digits n -> keytype kt2 -> keytype h2 -> no_space ks2 ->
  nofrag (sp :: cert_tail kid n kt2 h2 ks2) = true.
Proof.
  intros Hkid Hn Hkt Hh Hks.
  pose proof (digits_lacks_sp n Hn) as Ln. pose proof (keytype_lacks_sp kt2 Hkt) as Lkt.
  pose proof (keytype_lacks_sp h2 Hh) as Lh. pose proof (no_space_lacks_sp ks2 Hks) as Lks.
  rewrite cert_tail_shape.
  rewrite nofrag_sp. apply andb_true_intro. split; [reflexivity|].
  rewrite nofrag_field by reflexivity.
  apply nofrag_app; [exact Hkid|apply frun_sp_paren|].
  rewrite nofrag_sp. apply andb_true_intro. split; [reflexivity|].
  change ("("%char :: (s2l "serial" ++ sp :: n ++ ")"%char :: (sp :: s2l "CA" ++ sp :: kt2 ++ sp :: h2 ++ colon_c :: ks2)))
    with (s2l "(serial" ++ sp :: n ++ ")"%char :: (sp :: s2l "CA" ++ sp :: kt2 ++ sp :: h2 ++ colon_c :: ks2)).
  rewrite nofrag_field by reflexivity.
  rewrite nofrag_sp, frun_word_paren by (destruct Hn as [_ Hn]; revert Hn; apply forallb_imp, digit_imp_keytype).
  cbn [negb andb]. rewrite nofrag_field by exact Ln.
  change (")"%char :: (sp :: s2l "CA" ++ sp :: kt2 ++ sp :: h2 ++ colon_c :: ks2))
    with (s2l ")" ++ (sp :: s2l "CA" ++ sp :: kt2 ++ sp :: h2 ++ colon_c :: ks2)).
  rewrite nofrag_field by reflexivity.
  rewrite nofrag_sp. apply andb_true_intro. split; [reflexivity|].
  rewrite nofrag_field by reflexivity.
  rewrite nofrag_sp, frun_word_sp by apply Hkt. cbn [negb andb].
  rewrite nofrag_field by exact Lkt.
  rewrite nofrag_sp.
  rewrite frun_word_colon; [|apply Hh|apply no_space_not_sp_head; exact Hks]. cbn [negb andb].
  rewrite nofrag_field by exact Lh.
  change (colon_c :: ks2) with (s2l ":" ++ ks2). rewrite nofrag_field by reflexivity.
  apply nofrag_field_end. exact Lks.
Qed.

Ltac hp_side2 :=
  first
  [ reflexivity
  | match goal with Hd : digits ?w |- has_prefix _ (?w ++ _) = false =>
      apply (hp_first_cls cls_digit); [apply Hd|apply Hd|reflexivity] end
  | match goal with Hk : keytype ?w |- has_prefix _ (?w ++ _) = false =>
      apply (hp_first_cls cls_keytype); [apply Hk|apply Hk|reflexivity] end ].

Ltac nw2 :=
  repeat first
  [ rewrite nowhere_field by lacks_side
  | rewrite nowhere_sp; apply andb_true_intro; split; [apply negb_true_iff; hp_side2|]
  | apply nowhere_field_end; lacks_side
  | assumption
  | reflexivity ].

(* kid: ANY text without newline (the greedy UserID group ends at the LAST " (serial N) ");
   CA key type and hash over the whole class *)
Lemma find_cert_id_wide kid n kt2 h2 ks2 :
  no_nl kid -> digits n -> keytype kt2 -> keytype h2 -> no_space ks2 ->
  exists e, find certIDRE (cert_tail kid n kt2 h2 ks2) =
            Some {| m_start := 0; m_end := e; m_caps := [(3, ca_text kt2 h2 ks2); (2, n); (1, kid)] |}.
Proof.
  intros Hk Hn Hkt Hh Hks.
  pose proof (digits_lacks_sp n Hn) as Ln.
  pose proof (keytype_lacks_sp kt2 Hkt) as Lkt. pose proof (keytype_lacks_sp h2 Hh) as Lh.
  pose proof (no_space_lacks_sp ks2 Hks) as Lks.
  eexists. unfold certIDRE, cert_tail. apply find_at_zero. step_lits.
  apply group_star; [apply no_nl_dot; exact Hk| |].
  - step_lits. apply group_plus; [apply Hn|apply Hn| |].
    + step_lits. apply plus_nogroup; [discriminate|reflexivity| |].
      * apply group_plus_end.
        -- discriminate.
        -- unfold ca_text. apply forallb_app_true; [reflexivity|].
           apply forallb_app_true; [destruct Hkt as [_ H]; revert H; apply forallb_imp, keytype_imp_dot|].
           apply forallb_app_true; [reflexivity|].
           apply forallb_app_true; [destruct Hh as [_ H]; revert H; apply forallb_imp, keytype_imp_dot|].
           apply forallb_app_true; [reflexivity|apply no_space_dot; exact Hks].
        -- rewrite m_nil. reflexivity.
      * apply no_later_run0. apply run_len_out. reflexivity.
    + apply no_later_run0. apply run_len_out. reflexivity.
  - unfold ca_text.
    change (s2l " (serial " ++ n ++ s2l ")" ++ s2l " " ++ s2l "CA " ++ kt2 ++ s2l " " ++ h2 ++ s2l ":" ++ ks2)
      with (sp :: (s2l "(serial" ++ sp :: n ++ s2l ")" ++ sp :: s2l "CA" ++ sp :: kt2 ++ sp :: h2 ++ s2l ":" ++ ks2)).
    apply (no_later_nowhere_s " (serial ").
    change (s2l " (serial ") with (sp :: s2l "(serial "). nw2.
Qed.

Lemma find_accepted_cert_wide u s p kt h ks kid n kt2 h2 ks2 :
  no_nl u -> no_space s -> digits p ->
  keytype kt -> keytype h -> ks <> [] -> no_space ks ->
  no_ssh_frag kid = true -> digits n -> keytype kt2 -> keytype h2 -> no_space ks2 ->
  find loginRE (fmt_accepted_cert u s p kt h ks kid n kt2 h2 ks2) =
  Some {| m_start := 0; m_end := length (key_core u s p kt h ks);
          m_caps := [(5, ks); (4, kt ++ s2l " " ++ h); (3, p); (2, s); (1, u)] |}.
Proof.
  intros Hu Hs Hp Hkt Hh Hks0 Hks Hkid Hn Hkt2 Hh2 Hks2.
  unfold fmt_accepted_cert. apply find_login_wide; try assumption.
  - reflexivity.
  - apply nofrag_cert_tail; assumption.
Qed.

(* ================================================================================== *)
(* process level                                                                      *)
(* ================================================================================== *)

Theorem process_accepted_key c tok pid u s p kt h ks wok ready :
  atoi tok = Some pid ->
  no_nl u -> no_space s -> digits p ->
  keytype kt -> keytype h -> ks <> [] -> no_space ks ->
  process c tok (fmt_accepted_key u s p kt h ks) wok ready =
  accepted_result wok ready "SSHKeyLogin" pid (s2l "unknown")
    (ev_accepted_key c tok u s p (kt ++ s2l " " ++ h) ks).
Proof.
  intros Hpid Hu Hs Hp Hkt Hh Hks0 Hks.
  pose proof (find_accepted_key_wide u s p kt h ks Hu Hs Hp Hkt Hh Hks0 Hks) as Hf.
  unfold process, dispatch. cbn [dispatch_on guard_holds].
  decide_prefixes.
  cbn [add_metrics run_handler]. unfold h_accept_publickey. rewrite Hf, Hpid. cbv zeta.
  cbn [m_end m_start]. rewrite Nat.sub_0_r, Nat.eqb_refl.
  unfold write_forward, accepted_result. destruct wok; reflexivity.
Qed.

Theorem process_accepted_cert c tok pid u s p kt h ks kid n kt2 h2 ks2 wok ready :
  atoi tok = Some pid ->
  no_nl u -> no_space s -> digits p ->
  keytype kt -> keytype h -> ks <> [] -> no_space ks ->
  no_nl kid -> no_ssh_frag kid = true -> digits n -> keytype kt2 -> keytype h2 -> no_space ks2 ->
  process c tok (fmt_accepted_cert u s p kt h ks kid n kt2 h2 ks2) wok ready =
  accepted_result wok ready "SSHCertLogin" pid kid
    (ev_accepted_cert c tok u s p (kt ++ s2l " " ++ h) ks kid n (ca_text kt2 h2 ks2)).
Proof.
  intros Hpid Hu Hs Hp Hkt Hh Hks0 Hks Hkid0 Hkid Hn Hkt2 Hh2 Hks2.
  pose proof (find_accepted_cert_wide u s p kt h ks kid n kt2 h2 ks2 Hu Hs Hp Hkt Hh Hks0 Hks Hkid Hn Hkt2 Hh2 Hks2) as Hf.
  destruct (find_cert_id_wide kid n kt2 h2 ks2 Hkid0 Hn Hkt2 Hh2 Hks2) as [e He].
  unfold process, dispatch. cbn [dispatch_on guard_holds].
  decide_prefixes.
  cbn [add_metrics run_handler]. unfold h_accept_publickey. rewrite Hf, Hpid. cbv zeta.
  cbn [m_end m_start]. rewrite Nat.sub_0_r. unfold fmt_accepted_cert.
  rewrite len_eqb_false, len_ltb_false, skipn_len_1, He.
  unfold write_forward, accepted_result. destruct wok; reflexivity.
Qed.
