(* Symbolic execution of the functions GENERATED from go-libaudit's reassembler.go (Gen/ReassemblerProg.v)
   by the interpreter of Model/ReassemblerIR.v: what each of them does to a concrete interpreter state,
   function by function.  Proofs/ReassemblerIRTie.v relates these states to Model/AuditProc.v. *)
From Coq Require Import String List Bool Arith ZArith NArith Lia.
Import ListNotations.
From AM Require Import Lib.Assoc Model.AuditProc Model.ReassemblerIR Gen.ReassemblerProg.
Open Scope string_scope.
Open Scope list_scope.

(* ---- list facts --------------------------------------------------------------------------------- *)
Lemma nth_error_lset_same {A} (l : list A) p v x : nth_error l p = Some x -> nth_error (lset p v l) p = Some v.
Proof.
  revert p. induction l as [|y r IH]; intros [|p] H; simpl in *; try discriminate; [reflexivity|].
  apply IH. exact H.
Qed.

Lemma nth_error_lset_other {A} (l : list A) p q v : p <> q -> nth_error (lset p v l) q = nth_error l q.
Proof.
  revert p q. induction l as [|y r IH]; intros [|p] [|q] H; simpl; try reflexivity; [congruence|].
  apply IH. congruence.
Qed.

Lemma lset_lset {A} (l : list A) p v w : lset p w (lset p v l) = lset p w l.
Proof.
  revert p. induction l as [|y r IH]; intros [|p]; simpl; try reflexivity. rewrite IH. reflexivity.
Qed.

Lemma length_lset {A} (l : list A) p v : length (lset p v l) = length l.
Proof.
  revert p. induction l as [|y r IH]; intros [|p]; simpl; try reflexivity. rewrite IH. reflexivity.
Qed.

Lemma skipn_z_0 {A} (l : list A) : skipn_z l 0 = l.
Proof. destruct l; reflexivity. Qed.

Lemma zpos_lt_1 p : (Z.pos p <? 1)%Z = false.
Proof. apply Z.ltb_ge. lia. Qed.

Lemma forallb_ext' {A} (f g : A -> bool) l : (forall x, f x = g x) -> forallb f l = forallb g l.
Proof. intros H. induction l as [|x r IH]; simpl; [reflexivity|]. rewrite H, IH. reflexivity. Qed.

Lemma insert_by_ext f g x l : (forall a b, f a b = g a b) -> insert_by f x l = insert_by g x l.
Proof. intros H. induction l as [|y r IH]; simpl; [reflexivity|]. rewrite H, IH. reflexivity. Qed.

Lemma isort_by_ext f g l : (forall a b, f a b = g a b) -> isort_by f l = isort_by g l.
Proof.
  intros H. unfold isort_by. generalize (@nil N) as acc.
  induction l as [|x r IH]; intros acc; simpl; [reflexivity|].
  rewrite (insert_by_ext f g) by exact H. apply IH.
Qed.

Lemma strict_total_b_ext f g l : (forall a b, f a b = g a b) -> strict_total_b f l = strict_total_b g l.
Proof.
  intros H. unfold strict_total_b. f_equal; [f_equal|].
  - apply forallb_ext'. intros a. rewrite H. reflexivity.
  - apply forallb_ext'. intros a. apply forallb_ext'. intros b. rewrite !H. reflexivity.
  - apply forallb_ext'. intros a. apply forallb_ext'. intros b. apply forallb_ext'. intros c. rewrite !H. reflexivity.
Qed.

Lemma forallb_true {A} (l : list A) : forallb (fun _ => true) l = true.
Proof. induction l; simpl; auto. Qed.

(* ---- the record-type tests ----------------------------------------------------------------------- *)
Lemma is_eoe_z t : (Z.of_nat t =? gen_AUDIT_EOE)%Z = is_eoe t.
Proof.
  unfold is_eoe, gen_AUDIT_EOE. change 1320%Z with (Z.of_nat T_EOE).
  destruct (Nat.eqb_spec t T_EOE) as [->|H]; [apply Z.eqb_refl|].
  apply Z.eqb_neq. intros E. apply Nat2Z.inj in E. contradiction.
Qed.

Lemma completes_z t :
  ((Z.of_nat t =? gen_AUDIT_PROCTITLE) || (Z.of_nat t <=? gen_AUDIT_LAST_DAEMON) ||
   (gen_AUDIT_ANOM_LOGIN_FAILURES <=? Z.of_nat t))%Z = completes t.
Proof.
  unfold completes, gen_AUDIT_PROCTITLE, gen_AUDIT_LAST_DAEMON, gen_AUDIT_ANOM_LOGIN_FAILURES.
  change 1327%Z with (Z.of_nat T_PROCTITLE). change 1299%Z with (Z.of_nat T_LAST_DAEMON).
  change 2100%Z with (Z.of_nat T_ANOM_LOGIN_FAILURES).
  f_equal; [f_equal|].
  - destruct (Nat.eqb_spec t T_PROCTITLE) as [->|H]; [apply Z.eqb_refl|].
    apply Z.eqb_neq. intros E. apply Nat2Z.inj in E. contradiction.
  - destruct (Nat.leb_spec t T_LAST_DAEMON) as [H|H]; [apply Z.leb_le|apply Z.leb_gt].
    + apply Nat2Z.inj_le. exact H.
    + apply Nat2Z.inj_lt. exact H.
  - destruct (Nat.leb_spec T_ANOM_LOGIN_FAILURES t) as [H|H]; [apply Z.leb_le|apply Z.leb_gt].
    + apply Nat2Z.inj_le. exact H.
    + apply Nat2Z.inj_lt. exact H.
Qed.

Section Run.
  Variable msg : Type.
  Variable mseq : msg -> N.
  Variable mtype : msg -> nat.

  Notation cstT := (cst msg).
  Notation cevT := (cev msg).
  Notation run_func := (run_func msg mseq mtype).
  Notation callee := (callee msg mseq mtype).
  Notation C := (callee gen_reassembler).

  (* ---- abs, Less, Sort ---------------------------------------------------------------------------- *)
  Lemma abs_run : forall call (st : cstT) z,
    run_func call gen_abs None [VInt z] st = Some (st, [VInt (Z.abs z)]).
  Proof.
    intros. unfold run_func. cbn.
    destruct (Z.ltb_spec z 0); cbn; repeat f_equal; lia.
  Qed.

  Lemma seq_less_z a b :
    (if (gen_maxSortRange <? Z.abs (Z.of_N a - Z.of_N b))%Z then (b <? a)%N else (a <? b)%N) = seq_less a b.
  Proof.
    unfold seq_less, seq_dist, max_sort_range, gen_maxSortRange.
    destruct (N.ltb_spec a b) as [L|L].
    - replace (Z.abs (Z.of_N a - Z.of_N b)) with (Z.of_N (b - a)) by lia.
      destruct (Z.ltb_spec 16777215 (Z.of_N (b - a))); destruct (N.ltb_spec 16777215 (b - a)); try lia; reflexivity.
    - replace (Z.abs (Z.of_N a - Z.of_N b)) with (Z.of_N (a - b)) by lia.
      destruct (Z.ltb_spec 16777215 (Z.of_N (a - b))); destruct (N.ltb_spec 16777215 (a - b)); try lia; reflexivity.
  Qed.

  (* sequenceNumSlice.Less, as a comparison of two elements, IS the model's [seq_less] *)
  Lemma less_run : forall d (st : cstT) a b,
    less_of msg (C (S (S d))) st a b = Some (seq_less a b).
  Proof.
    intros. unfold less_of. cbn. rewrite <- seq_less_z.
    destruct (Z.ltb_spec (Z.of_N a - Z.of_N b) 0) as [H|H]; cbn.
    - replace (Z.abs (Z.of_N a - Z.of_N b)) with (- (Z.of_N a - Z.of_N b))%Z by lia.
      destruct (gen_maxSortRange <? - (Z.of_N a - Z.of_N b))%Z; reflexivity.
    - replace (Z.abs (Z.of_N a - Z.of_N b)) with (Z.of_N a - Z.of_N b)%Z by lia.
      destruct (gen_maxSortRange <? Z.of_N a - Z.of_N b)%Z; reflexivity.
  Qed.

  Lemma lessb_run d (st : cstT) a b : lessb_of msg (C (S (S d))) st a b = seq_less a b.
  Proof. unfold lessb_of. rewrite less_run. destruct (seq_less a b); reflexivity. Qed.

  (* l.seqs.Sort() under sort.Sort's contract *)
  Lemma sort_run d (st : cstT) l :
    sort_seqs msg (C (S (S d))) st l =
    if strict_total_b seq_less l then Some (isort_by seq_less l) else None.
  Proof.
    unfold sort_seqs.
    assert (Hd : less_defined msg (C (S (S d))) st l = true).
    { unfold less_defined. erewrite forallb_ext'; [apply forallb_true|].
      intros a. cbv beta. erewrite forallb_ext'; [apply forallb_true|]. intros b. cbv beta.
      rewrite less_run. reflexivity. }
    rewrite Hd. cbn [andb].
    rewrite (strict_total_b_ext _ seq_less) by (intros; apply lessb_run).
    rewrite (isort_by_ext _ seq_less) by (intros; apply lessb_run). reflexivity.
  Qed.

  (* from here on calls are resolved by the lemmas above, not by unfolding *)
  Lemma callee_S d f r a (st : cstT) :
    C (S d) f r a st = run_func (C d) (prog_of gen_reassembler f) r a st.
  Proof. reflexivity. Qed.
  #[local] Arguments ReassemblerIR.callee : simpl never.
  #[local] Arguments ReassemblerIR.run_func : simpl never.

  (* ---- event.Add, event.IsExpired, eventList.remove ------------------------------------------------ *)
  Definition ev_added (m : msg) (e : cevT) : cevT :=
    {| ce_exp := ce_exp e; ce_msgs := ce_msgs e ++ [m]; ce_done := ce_done e || completes (mtype m) |}.

  Lemma add_run : forall call (st : cstT) p m e,
    nth_error (c_heap st) p = Some e ->
    run_func call gen_Add (Some (VEv (Some p))) [VMsg (Some m)] st =
    Some (with_heap msg (lset p (ev_added m e) (c_heap st)) st, []).
  Proof.
    intros call [sq evs hp la mx tmo lk cl nw out] p m [ex ms dn] H. cbn in H.
    unfold run_func, ev_added. cbn. rewrite H. cbn. rewrite H. cbn.
    rewrite <- completes_z.
    destruct (Z.of_nat (mtype m) =? gen_AUDIT_PROCTITLE)%Z; cbn.
    - rewrite (nth_error_lset_same _ _ _ _ H). cbn. rewrite lset_lset, orb_true_r. reflexivity.
    - destruct (Z.of_nat (mtype m) <=? gen_AUDIT_LAST_DAEMON)%Z; cbn.
      + rewrite (nth_error_lset_same _ _ _ _ H). cbn. rewrite lset_lset, orb_true_r. reflexivity.
      + destruct (gen_AUDIT_ANOM_LOGIN_FAILURES <=? Z.of_nat (mtype m))%Z; cbn.
        * rewrite (nth_error_lset_same _ _ _ _ H). cbn. rewrite lset_lset, orb_true_r. reflexivity.
        * rewrite orb_false_r. reflexivity.
  Qed.

  Lemma expired_run : forall call (st : cstT) p e,
    nth_error (c_heap st) p = Some e ->
    run_func call gen_IsExpired (Some (VEv (Some p))) [] st = Some (st, [VBool (Nat.ltb (ce_exp e) (c_now st))]).
  Proof.
    intros call [sq evs hp la mx tmo lk cl nw out] p e H. cbn in H.
    unfold run_func. cbn. rewrite H. reflexivity.
  Qed.

  Lemma remove_run_cons : forall call (st : cstT) s rest,
    c_seqs st = s :: rest ->
    run_func call gen_remove (Some VListObj) [] st =
    Some (with_events msg (mdel s (c_events st)) (with_seqs msg rest st), []).
  Proof.
    intros call [sq evs hp la mx tmo lk cl nw out] s rest H. cbn in H. subst sq.
    unfold run_func. cbn. rewrite zpos_lt_1, skipn_z_0. reflexivity.
  Qed.

  Lemma remove_run_nil : forall call (st : cstT),
    c_seqs st = [] -> run_func call gen_remove (Some VListObj) [] st = Some (st, []).
  Proof.
    intros call [sq evs hp la mx tmo lk cl nw out] H. cbn in H. subst sq. reflexivity.
  Qed.

  (* ---- eventList.Put ------------------------------------------------------------------------------- *)
  Definition ev_marked (e : cevT) : cevT :=
    {| ce_exp := ce_exp e; ce_msgs := ce_msgs e; ce_done := true |}.
  Definition ev_fresh (exp : nat) (m : msg) : cevT :=
    {| ce_exp := exp; ce_msgs := [m]; ce_done := completes (mtype m) |}.

  Lemma put_run_eoe_found : forall d (st : cstT) m p e,
    c_locked st = false -> is_eoe (mtype m) = true ->
    mget (mseq m) (c_events st) = Some p -> nth_error (c_heap st) p = Some e ->
    run_func (C (S (S d))) gen_Put (Some VListObj) [VMsg (Some m)] st =
    Some (with_heap msg (lset p (ev_marked e) (c_heap st)) st, []).
  Proof.
    intros d [sq evs hp la mx tmo lk cl nw out] m p e Hl He Hg Hn. cbn in Hl, Hg, Hn. subst lk.
    unfold run_func. cbn. rewrite is_eoe_z, He, Hg. cbn. rewrite Hn. cbn. reflexivity.
  Qed.

  Lemma put_run_eoe_missing : forall d (st : cstT) m,
    c_locked st = false -> is_eoe (mtype m) = true -> mget (mseq m) (c_events st) = None ->
    run_func (C (S (S d))) gen_Put (Some VListObj) [VMsg (Some m)] st = Some (st, []).
  Proof.
    intros d [sq evs hp la mx tmo lk cl nw out] m Hl He Hg. cbn in Hl, Hg. subst lk.
    unfold run_func. cbn. rewrite is_eoe_z, He, Hg. cbn. reflexivity.
  Qed.

  Lemma put_run_found : forall d (st : cstT) m p e,
    c_locked st = false -> is_eoe (mtype m) = false ->
    mget (mseq m) (c_events st) = Some p -> nth_error (c_heap st) p = Some e ->
    run_func (C (S (S d))) gen_Put (Some VListObj) [VMsg (Some m)] st =
    Some (with_heap msg (lset p (ev_added m e) (c_heap st)) st, []).
  Proof.
    intros d [sq evs hp la mx tmo lk cl nw out] m p e Hl He Hg Hn. cbn in Hl, Hg, Hn. subst lk.
    unfold run_func at 1. cbn. rewrite is_eoe_z, He, Hg. cbn.
    rewrite callee_S. cbn [prog_of gen_reassembler pg_Add].
    rewrite (add_run _ _ p m e) by exact Hn. cbn. reflexivity.
  Qed.

  Lemma put_run_new : forall d (st : cstT) m,
    c_locked st = false -> is_eoe (mtype m) = false -> mget (mseq m) (c_events st) = None ->
    strict_total_b seq_less (c_seqs st ++ [mseq m]) = true ->
    run_func (C (S (S (S d)))) gen_Put (Some VListObj) [VMsg (Some m)] st =
    Some (with_heap msg (c_heap st ++ [ev_fresh (c_now st + c_timeout st) m])
            (with_events msg (mset (mseq m) (length (c_heap st)) (c_events st))
               (with_seqs msg (isort_by seq_less (c_seqs st ++ [mseq m])) st)), []).
  Proof.
    intros d [sq evs hp la mx tmo lk cl nw out] m Hl He Hg Hs. cbn in Hl, Hg, Hs. subst lk.
    unfold run_func at 1. cbn. rewrite is_eoe_z, He, Hg. cbn.
    rewrite sort_run. cbn. rewrite Hs. cbn.
    rewrite callee_S. cbn [prog_of gen_reassembler pg_Add].
    erewrite add_run.
    2:{ cbn. rewrite nth_error_app2 by lia. rewrite Nat.sub_diag. reflexivity. }
    cbn. unfold ev_added, ev_fresh. cbn.
    replace (lset (length hp) _ (hp ++ _)) with (hp ++ [{| ce_exp := nw + tmo; ce_msgs := [m]; ce_done := completes (mtype m) |}]).
    - reflexivity.
    - clear. induction hp as [|x r IH]; cbn; [reflexivity|]. rewrite <- IH. reflexivity.
  Qed.

  (* ---- eventList.CleanUp ---------------------------------------------------------------------------- *)
  #[local] Arguments ReassemblerIR.for_loop : simpl never.
  #[local] Arguments ReassemblerIR.range_loop : simpl never.

  Definition cleanup_body : rblock :=
    match rf_body gen_CleanUp with
    | BCons _ (BCons _ (BCons _ (BCons _ (BCons _ (BCons (SFor b) _))))) => b
    | _ => BNil
    end.

  (* the locals of CleanUp / Clear inside the loop: evicted, seq, lost, l *)
  Definition env_cl (E : list (option nat)) (s0 : N) (L : Z) : env msg :=
    [("evicted", VEvs E); ("seq", VU32 s0); ("lost", VInt L); ("l", VListObj)].

  (* what CleanUp / Clear return once their loop has ended *)
  Definition loop_result (r : option (res msg)) : option (cstT * list (val msg)) :=
    match r with
    | Some (st1, (en1, d1), fl) =>
        let outs := match fl with
                    | FNormal => match get "evicted" en1, get "lost" en1 with
                                 | Some v1, Some v2 => Some [v1; v2]
                                 | _, _ => None
                                 end
                    | FReturn vs => Some vs
                    | _ => None
                    end in
        match outs with
        | Some vs => if d1 then (if c_locked st1 then Some (with_locked msg false st1, vs) else None) else Some (st1, vs)
        | None => None
        end
    | None => None
    end.

  (* int(seq - l.lastSeq - 1) guarded by l.lastSeq > 0 *)
  Definition gap_z (last s : N) : Z :=
    if (0 <? last)%N then Z.of_N (sub32 (sub32 s last) 1) else 0%Z.

  Definition body_fn (d : nat) (b : rblock) : cstT -> frame msg -> option (res msg) :=
    fun st1 fr1 => scoped msg (length (fst fr1)) (exec_block msg mseq mtype (C d) b st1 fr1).

  (* one iteration of CleanUp's loop *)
  Lemma cleanup_iter_empty : forall d (st : cstT) E s0 L,
    c_seqs st = [] ->
    body_fn d cleanup_body st (env_cl E s0 L, true) = Some (st, (env_cl E s0 L, true), FBreak).
  Proof.
    intros d [sq evs hp la mx tmo lk cl nw out] E s0 L H. cbn in H. subst sq. reflexivity.
  Qed.

  Lemma cleanup_iter_keep : forall d (st : cstT) E s0 L s rest p e,
    c_seqs st = s :: rest -> mget s (c_events st) = Some p -> nth_error (c_heap st) p = Some e ->
    ce_done e || (c_maxsz st <? Z.of_nat (length (s :: rest)))%Z || Nat.ltb (ce_exp e) (c_now st) = false ->
    body_fn (S d) cleanup_body st (env_cl E s0 L, true) = Some (st, (env_cl E s L, true), FBreak).
  Proof.
    intros d [sq evs hp la mx tmo lk cl nw out] E s0 L s rest p e H Hg Hn Hc. cbn in H, Hg, Hn, Hc. subst sq.
    apply orb_false_iff in Hc. destruct Hc as [Hc H3]. apply orb_false_iff in Hc. destruct Hc as [H1 H2].
    unfold body_fn. cbn. rewrite Hg. cbn. rewrite Hn. cbn. rewrite H1. cbn.
    rewrite H2. cbn.
    rewrite callee_S. cbn [prog_of gen_reassembler pg_IsExpired].
    rewrite (expired_run _ _ p e) by exact Hn. cbn. rewrite H3. cbn. reflexivity.
  Qed.
  Lemma cleanup_iter_evict : forall d (st : cstT) E s0 L s rest p e,
    c_seqs st = s :: rest -> mget s (c_events st) = Some p -> nth_error (c_heap st) p = Some e ->
    ce_done e || (c_maxsz st <? Z.of_nat (length (s :: rest)))%Z || Nat.ltb (ce_exp e) (c_now st) = true ->
    body_fn (S d) cleanup_body st (env_cl E s0 L, true) =
    Some (with_events msg (mdel s (c_events st)) (with_seqs msg rest (with_last msg s st)),
          (env_cl (E ++ [Some p]) s (L + gap_z (c_last st) s), true), FContinue).
  Proof.
    intros d [sq evs hp la mx tmo lk cl nw out] E s0 L s rest p e H Hg Hn Hc. cbn in H, Hg, Hn, Hc. subst sq.
    assert (Hrm : forall st', c_seqs st' = s :: rest ->
              C (S d) FnRemove (Some VListObj) [] st' =
              Some (with_events msg (mdel s (c_events st')) (with_seqs msg rest st'), [])).
    { intros st' Hs. rewrite callee_S. cbn [prog_of gen_reassembler pg_remove]. apply remove_run_cons. exact Hs. }
    assert (Hex : C (S d) FnIsExpired (Some (VEv (Some p))) []
                    {| c_seqs := s :: rest; c_events := evs; c_heap := hp; c_last := la; c_maxsz := mx; c_timeout := tmo;
                       c_locked := lk; c_closed := cl; c_now := nw; c_out := out |} =
                  Some ({| c_seqs := s :: rest; c_events := evs; c_heap := hp; c_last := la; c_maxsz := mx; c_timeout := tmo;
                           c_locked := lk; c_closed := cl; c_now := nw; c_out := out |}, [VBool (Nat.ltb (ce_exp e) nw)])).
    { rewrite callee_S. cbn [prog_of gen_reassembler pg_IsExpired]. rewrite (expired_run _ _ p e) by exact Hn. reflexivity. }
    unfold body_fn, gap_z. cbn. rewrite Hg. cbn. rewrite Hn. cbn.
    destruct (ce_done e) eqn:H1; cbn.
    - destruct (0 <? la)%N; cbn; rewrite Hrm by reflexivity; cbn; rewrite ?Z.add_0_r; reflexivity.
    - destruct (mx <? Z.pos (Pos.of_succ_nat (length rest)))%Z eqn:H2; cbn.
      + destruct (0 <? la)%N; cbn; rewrite Hrm by reflexivity; cbn; rewrite ?Z.add_0_r; reflexivity.
      + rewrite Hex. cbn. cbn in Hc. rewrite Hc. cbn.
        destruct (0 <? la)%N; cbn; rewrite Hrm by reflexivity; cbn; rewrite ?Z.add_0_r; reflexivity.
  Qed.
  (* ---- eventList.Clear: one iteration of its loop ---------------------------------------------------- *)
  Definition clear_body : rblock :=
    match rf_body gen_Clear with
    | BCons _ (BCons _ (BCons _ (BCons _ (BCons _ (BCons (SFor b) _))))) => b
    | _ => BNil
    end.

  Lemma clear_iter_empty : forall d (st : cstT) E s0 L,
    c_seqs st = [] ->
    body_fn d clear_body st (env_cl E s0 L, true) = Some (st, (env_cl E s0 L, true), FBreak).
  Proof.
    intros d [sq evs hp la mx tmo lk cl nw out] E s0 L H. cbn in H. subst sq. reflexivity.
  Qed.

  Lemma clear_iter_evict : forall d (st : cstT) E s0 L s rest,
    c_seqs st = s :: rest ->
    body_fn (S d) clear_body st (env_cl E s0 L, true) =
    Some (with_events msg (mdel s (c_events st)) (with_seqs msg rest (with_last msg s st)),
          (env_cl (E ++ [mget s (c_events st)]) s (L + gap_z (c_last st) s), true), FNormal).
  Proof.
    intros d [sq evs hp la mx tmo lk cl nw out] E s0 L s rest H. cbn in H. subst sq.
    assert (Hrm : forall st', c_seqs st' = s :: rest ->
              C (S d) FnRemove (Some VListObj) [] st' =
              Some (with_events msg (mdel s (c_events st')) (with_seqs msg rest st'), [])).
    { intros st' Hs. rewrite callee_S. cbn [prog_of gen_reassembler pg_remove]. apply remove_run_cons. exact Hs. }
    unfold body_fn, gap_z. cbn.
    destruct (0 <? la)%N; cbn; rewrite Hrm by reflexivity; cbn; rewrite ?Z.add_0_r; reflexivity.
  Qed.

  (* ---- Reassembler.callback -------------------------------------------------------------------------- *)
  Definition callback_body : rblock :=
    match rf_body gen_callback with
    | BCons (SRange _ _ b) _ => b
    | _ => BNil
    end.

  Definition env_cb (ps : list (option nat)) (lost : Z) : env msg :=
    [("lost", VInt lost); ("events", VEvs ps); ("r", VReassObj)].

  Lemma range_loop_cons body x p r (st : cstT) fr :
    range_loop msg body x (p :: r) st fr =
    match body st ((x, VEv p) :: fst fr, snd fr) with
    | Some (st1, (en1, d1), fl) =>
        let fr1 := (restore (length (fst fr)) en1, d1) in
        match fl with
        | FNormal => range_loop msg body x r st1 fr1
        | FContinue => range_loop msg body x r st1 fr1
        | FBreak => Some (st1, fr1, FNormal)
        | FReturn vs => Some (st1, fr1, FReturn vs)
        end
    | None => None
    end.
  Proof. reflexivity. Qed.

  Lemma for_loop_S body n (st : cstT) fr :
    for_loop msg body (S n) st fr =
    match body st fr with
    | Some (st1, fr1, FNormal) => for_loop msg body n st1 fr1
    | Some (st1, fr1, FContinue) => for_loop msg body n st1 fr1
    | Some (st1, fr1, FBreak) => Some (st1, fr1, FNormal)
    | Some (st1, fr1, FReturn vs) => Some (st1, fr1, FReturn vs)
    | None => None
    end.
  Proof. reflexivity. Qed.

  Lemma callback_range : forall d ps0 lost hp ps gs,
    Forall2 (fun p g => exists e : cevT, nth_error hp p = Some e /\ ce_msgs e = g) ps gs ->
    forall st : cstT, c_heap st = hp ->
    range_loop msg (exec_block msg mseq mtype (C d) callback_body) "e" (map Some ps) st (env_cb ps0 lost, false) =
    Some (with_out msg (c_out st ++ map CBComplete gs) st, (env_cb ps0 lost, false), FNormal).
  Proof.
    intros d ps0 lost hp ps gs H.
    induction H as [|p g ps gs (e & Hn & Hg) _ IH]; intros st Hh.
    - cbn. rewrite app_nil_r. destruct st; reflexivity.
    - destruct st as [sq evs hp' la mx tmo lk cl nw out]. cbn in Hh. subst hp'.
      cbn [map]. rewrite range_loop_cons. cbn. rewrite Hn. cbn. rewrite IH by reflexivity. cbn.
      rewrite <- app_assoc. subst g. reflexivity.
  Qed.

  (* ---- the function bodies around the loops: statement by statement ---------------------------------- *)
  Lemma exec_block_cons call s r (st : cstT) fr :
    exec_block msg mseq mtype call (BCons s r) st fr =
    match exec msg mseq mtype call s st fr with
    | Some (st1, fr1, FNormal) => exec_block msg mseq mtype call r st1 fr1
    | other => other
    end.
  Proof. reflexivity. Qed.

  Lemma exec_SFor call body (st : cstT) fr :
    exec msg mseq mtype call (SFor body) st fr =
    for_loop msg (fun st1 fr1 => scoped msg (length (fst fr1)) (exec_block msg mseq mtype call body st1 fr1))
             (S (length (c_seqs st))) st fr.
  Proof. reflexivity. Qed.

  Lemma exec_SRange call x e body (st : cstT) fr :
    exec msg mseq mtype call (SRange x e body) st fr =
    match eval msg mseq mtype call e st (fst fr) with
    | Some (st1, VEvs ps) => range_loop msg (exec_block msg mseq mtype call body) x ps st1 fr
    | _ => None
    end.
  Proof. reflexivity. Qed.

  #[local] Arguments ReassemblerIR.exec_block : simpl never.

  Lemma cleanup_run_wrap : forall d (st : cstT),
    c_locked st = false ->
    run_func (C d) gen_CleanUp (Some VListObj) [] st =
    loop_result (for_loop msg (body_fn d cleanup_body)
                   (S (length (c_seqs st))) (with_locked msg true st) (env_cl [] 0 0, true)).
  Proof.
    intros d [sq evs hp la mx tmo lk cl nw out] Hl. cbn in Hl. subst lk.
    unfold run_func. cbn [bind_recv bind_all rf_recv rf_params rf_body gen_CleanUp].
    do 5 (rewrite exec_block_cons; cbn).
    rewrite exec_block_cons, exec_SFor.
    match goal with |- ?lhs = loop_result ?r =>
      match lhs with context [for_loop msg ?f ?n ?s ?fr] =>
        change r with (for_loop msg f n s fr); generalize (for_loop msg f n s fr)
      end
    end.
    intros [[[st1 [en1 d1]] fl]|]; [|reflexivity].
    destruct fl; try reflexivity.
    rewrite exec_block_cons. cbn.
    destruct (get "evicted" en1); [|reflexivity]. destruct (get "lost" en1); reflexivity.
  Qed.

  Lemma exec_block_nil call (st : cstT) fr : exec_block msg mseq mtype call BNil st fr = Some (st, fr, FNormal).
  Proof. reflexivity. Qed.

  (* Reassembler.callback: one ReassemblyComplete per event, in order, then EventsLost when lost > 0 *)
  Lemma callback_run : forall d (st : cstT) ps gs lost,
    Forall2 (fun p g => exists e : cevT, nth_error (c_heap st) p = Some e /\ ce_msgs e = g) ps gs ->
    run_func (C d) gen_callback (Some VReassObj) [VEvs (map Some ps); VInt lost] st =
    Some (with_out msg (c_out st ++ map CBComplete gs ++ (if (0 <? lost)%Z then [CBLost lost] else [])) st, []).
  Proof.
    intros d st ps gs lost H. unfold run_func. cbn [bind_recv bind_all rf_recv rf_params rf_body gen_callback].
    rewrite exec_block_cons, exec_SRange. cbn.
    match goal with |- context [range_loop msg (exec_block _ _ _ _ ?b)] => change b with callback_body end.
    change [("lost", VInt lost); ("events", VEvs (map Some ps)); ("r", VReassObj)] with (env_cb (map Some ps) lost).
    rewrite (callback_range d (map Some ps) lost (c_heap st) ps gs H st eq_refl).
    destruct st as [sq evs hp la mx tmo lk cl nw out].
    rewrite exec_block_cons. cbn.
    destruct (0 <? lost)%Z; cbn.
    - repeat (first [rewrite exec_block_cons | rewrite exec_block_nil]; cbn). rewrite <- app_assoc. reflexivity.
    - repeat (first [rewrite exec_block_cons | rewrite exec_block_nil]; cbn). rewrite app_nil_r. reflexivity.
  Qed.

  Lemma clear_run_wrap : forall d (st : cstT),
    c_locked st = false ->
    run_func (C d) gen_Clear (Some VListObj) [] st =
    loop_result (for_loop msg (body_fn d clear_body)
                   (S (length (c_seqs st))) (with_locked msg true st) (env_cl [] 0 0, true)).
  Proof.
    intros d [sq evs hp la mx tmo lk cl nw out] Hl. cbn in Hl. subst lk.
    unfold run_func. cbn [bind_recv bind_all rf_recv rf_params rf_body gen_Clear].
    do 5 (rewrite exec_block_cons; cbn).
    rewrite exec_block_cons, exec_SFor.
    match goal with |- ?lhs = loop_result ?r =>
      match lhs with context [for_loop msg ?f ?n ?s ?fr] =>
        change r with (for_loop msg f n s fr); generalize (for_loop msg f n s fr)
      end
    end.
    intros [[[st1 [en1 d1]] fl]|]; [|reflexivity].
    destruct fl; try reflexivity.
    rewrite exec_block_cons. cbn.
    destruct (get "evicted" en1); [|reflexivity]. destruct (get "lost" en1); reflexivity.
  Qed.

  (* ---- Reassembler.PushMessage / Maintain / Close: the calls they make, in order ---------------------- *)
  Definition then_callback (d : nat) (r : option (cstT * list (val msg))) (ret : list (val msg))
    : option (cstT * list (val msg)) :=
    match r with
    | Some (st2, [v1; v2]) =>
        match C d FnCallback (Some VReassObj) [v1; v2] st2 with
        | Some (st3, _) => Some (st3, ret)
        | None => None
        end
    | _ => None
    end.

  Lemma push_run : forall d (st : cstT) m,
    run_func (C d) gen_PushMessage (Some VReassObj) [VMsg (Some m)] st =
    match C d FnPut (Some VListObj) [VMsg (Some m)] st with
    | Some (st1, _) => then_callback d (C d FnCleanUp (Some VListObj) [] st1) []
    | None => None
    end.
  Proof.
    intros d st m. unfold run_func, then_callback. cbn [bind_recv bind_all rf_recv rf_params rf_body gen_PushMessage].
    repeat (first [rewrite exec_block_cons | rewrite exec_block_nil]; cbn).
    destruct (C d FnPut (Some VListObj) [VMsg (Some m)] st) as [[st1 o1]|]; [|reflexivity].
    destruct o1; cbn; repeat (first [rewrite exec_block_cons | rewrite exec_block_nil]; cbn);
    (destruct (C d FnCleanUp (Some VListObj) [] st1) as [[st2 o2]|]; [|reflexivity]);
    (destruct o2 as [|v1 [|v2 [|v3 o2]]]; try reflexivity); cbn;
    repeat (first [rewrite exec_block_cons | rewrite exec_block_nil]; cbn);
    (destruct (C d FnCallback (Some VReassObj) [v1; v2] st2) as [[st3 o3]|]; [|reflexivity]);
    destruct o3; cbn; repeat (first [rewrite exec_block_cons | rewrite exec_block_nil]; cbn); reflexivity.
  Qed.

  Lemma push_nil_run : forall d (st : cstT),
    run_func (C d) gen_PushMessage (Some VReassObj) [VMsg None] st = Some (st, []).
  Proof.
    intros d st. unfold run_func. cbn [bind_recv bind_all rf_recv rf_params rf_body gen_PushMessage].
    repeat (first [rewrite exec_block_cons | rewrite exec_block_nil]; cbn). reflexivity.
  Qed.

  Lemma maintain_run : forall d (st : cstT),
    run_func (C d) gen_Maintain (Some VReassObj) [] st =
    if (c_closed st =? 1)%Z then Some (st, [VErr (Some "errReassemblerClosed")])
    else then_callback d (C d FnCleanUp (Some VListObj) [] st) [VNil].
  Proof.
    intros d st. unfold run_func, then_callback. cbn [bind_recv bind_all rf_recv rf_params rf_body gen_Maintain].
    repeat (first [rewrite exec_block_cons | rewrite exec_block_nil]; cbn).
    destruct (c_closed st =? 1)%Z; cbn; repeat (first [rewrite exec_block_cons | rewrite exec_block_nil]; cbn); [reflexivity|].
    destruct (C d FnCleanUp (Some VListObj) [] st) as [[st2 o2]|]; [|reflexivity].
    destruct o2 as [|v1 [|v2 [|v3 o2]]]; try reflexivity. cbn.
    repeat (first [rewrite exec_block_cons | rewrite exec_block_nil]; cbn).
    destruct (C d FnCallback (Some VReassObj) [v1; v2] st2) as [[st3 o3]|]; [|reflexivity].
    destruct o3; cbn; repeat (first [rewrite exec_block_cons | rewrite exec_block_nil]; cbn); reflexivity.
  Qed.

  Lemma close_run : forall d (st : cstT),
    run_func (C d) gen_Close (Some VReassObj) [] st =
    if (c_closed st =? 0)%Z
    then then_callback d (C d FnClear (Some VListObj) [] (with_closed msg 1 st)) [VNil]
    else Some (st, [VErr (Some "errReassemblerClosed")]).
  Proof.
    intros d st. unfold run_func, then_callback. cbn [bind_recv bind_all rf_recv rf_params rf_body gen_Close].
    repeat (first [rewrite exec_block_cons | rewrite exec_block_nil]; cbn).
    destruct (c_closed st =? 0)%Z; cbn; repeat (first [rewrite exec_block_cons | rewrite exec_block_nil]; cbn); [|reflexivity].
    destruct (C d FnClear (Some VListObj) [] (with_closed msg 1 st)) as [[st2 o2]|]; [|reflexivity].
    destruct o2 as [|v1 [|v2 [|v3 o2]]]; try reflexivity. cbn.
    repeat (first [rewrite exec_block_cons | rewrite exec_block_nil]; cbn).
    destruct (C d FnCallback (Some VReassObj) [v1; v2] st2) as [[st3 o3]|]; [|reflexivity].
    destruct o3; cbn; repeat (first [rewrite exec_block_cons | rewrite exec_block_nil]; cbn); reflexivity.
  Qed.
End Run.
