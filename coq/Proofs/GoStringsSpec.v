(* Characteristic specifications of the hand-written Gallina versions of Go's [strings] functions
   (Lib/GoStrings.v), of the string order, of the fixed-width arithmetic helpers, and of [atoi]
   (Model/SshdProc.v = strconv.Atoi).  For all inputs.  The function-level tie to the real library is
   stage harness/prims -mode strings (Model/PrimsCheck.v). *)
From Coq Require Import Ascii String List Bool Arith NArith ZArith Lia.
Import ListNotations.
From AM Require Import Lib.Bytes Model.Syslog Lib.GoStrings Model.SshdProc.
Local Open Scope nat_scope.
Local Open Scope list_scope.

(* ------------------------------------------------------------------ prefixes and suffixes *)

Lemma has_prefix_iff p s : has_prefix p s = true <-> exists t, s = p ++ t.
Proof.
  unfold has_prefix. split.
  - destruct (strip_prefix p s) as [t|] eqn:E; [|discriminate]. intros _. exists t. apply strip_prefix_some. exact E.
  - intros [t ->]. rewrite strip_prefix_app. reflexivity.
Qed.

Lemma go_has_prefix_iff s p : go_has_prefix s p = true <-> exists t, s = p ++ t.
Proof. apply has_prefix_iff. Qed.

Lemma go_has_suffix_iff s x : go_has_suffix s x = true <-> exists t, s = t ++ x.
Proof.
  unfold go_has_suffix. rewrite has_prefix_iff. split.
  - intros [t H]. exists (rev t). rewrite <- (rev_involutive s), H, rev_app_distr, rev_involutive. reflexivity.
  - intros [t ->]. exists (rev t). apply rev_app_distr.
Qed.

(* TrimPrefix removes the prefix once, and only if it is there *)
Lemma go_trim_prefix_app p t : go_trim_prefix (p ++ t) p = t.
Proof. unfold go_trim_prefix. rewrite strip_prefix_app. reflexivity. Qed.

Lemma go_trim_prefix_none s p : go_has_prefix s p = false -> go_trim_prefix s p = s.
Proof. unfold go_has_prefix, has_prefix, go_trim_prefix. destruct (strip_prefix p s); [discriminate|reflexivity]. Qed.

Lemma go_trim_prefix_once p t : go_trim_prefix (p ++ p ++ t) p = p ++ t.
Proof. apply go_trim_prefix_app. Qed.

Lemma go_trim_suffix_app t x : go_trim_suffix (t ++ x) x = t.
Proof.
  unfold go_trim_suffix. replace (go_has_suffix (t ++ x) x) with true by (symmetry; apply go_has_suffix_iff; exists t; reflexivity).
  rewrite app_length. replace (length t + length x - length x) with (length t) by lia.
  rewrite firstn_app, firstn_all, Nat.sub_diag. cbn. apply app_nil_r.
Qed.

Lemma go_trim_suffix_none s x : go_has_suffix s x = false -> go_trim_suffix s x = s.
Proof. unfold go_trim_suffix. intros ->. reflexivity. Qed.

Lemma go_trim_suffix_once t x : go_trim_suffix ((t ++ x) ++ x) x = t ++ x.
Proof. apply go_trim_suffix_app. Qed.

(* ------------------------------------------------------------------ Index: the FIRST occurrence *)

(* sep occurs in s at offset j *)
Definition occurs_at (sep s : str) (j : nat) : bool := has_prefix sep (skipn j s).

Lemma go_index_empty s : go_index s [] = Some 0.
Proof. destruct s; reflexivity. Qed.

Lemma go_index_some s sep : forall i,
  go_index s sep = Some i <->
  i <= length s /\ occurs_at sep s i = true /\ forall j, j < i -> occurs_at sep s j = false.
Proof.
  unfold occurs_at. induction s as [|c r IH]; intros i; cbn [go_index].
  - destruct (has_prefix sep []) eqn:E.
    + split.
      * intros [= <-]. repeat split; [cbn; lia|exact E|]. intros j Hj. lia.
      * intros (H1 & _ & _). cbn in H1. f_equal. lia.
    + split; [discriminate|]. intros (H1 & H2 & _). cbn in H1. assert (i = 0) by lia. subst i. cbn in H2. congruence.
  - destruct (has_prefix sep (c :: r)) eqn:E.
    + split.
      * intros [= <-]. repeat split; [lia|exact E|]. intros j Hj. lia.
      * intros (_ & _ & H3). destruct i as [|i]; [reflexivity|]. specialize (H3 0 ltac:(lia)). cbn in H3. congruence.
    + destruct (go_index r sep) as [i0|] eqn:E0.
      * split.
        -- intros [= <-]. destruct (proj1 (IH i0) eq_refl) as (H1 & H2 & H3). repeat split; [cbn; lia|exact H2|].
           intros [|j] Hj; [exact E|]. cbn [skipn]. apply H3. lia.
        -- intros (H1 & H2 & H3). destruct i as [|i]; [cbn in H2; congruence|]. f_equal. f_equal.
           assert (Hi : Some i0 = Some i).
           { apply IH. repeat split; [cbn in H1; lia|exact H2|]. intros j Hj. apply (H3 (S j)). lia. }
           congruence.
      * split; [discriminate|]. intros (H1 & H2 & H3). destruct i as [|i]; [cbn in H2; congruence|].
        assert (Hi : None = Some i).
        { apply IH. repeat split; [cbn in H1; lia|exact H2|]. intros j Hj. apply (H3 (S j)). lia. }
        congruence.
Qed.

Lemma go_index_none s sep :
  go_index s sep = None <-> forall j, j <= length s -> occurs_at sep s j = false.
Proof.
  unfold occurs_at. induction s as [|c r IH]; cbn [go_index].
  - destruct (has_prefix sep []) eqn:E.
    + split; [discriminate|]. intros H. specialize (H 0 ltac:(cbn; lia)). cbn in H. congruence.
    + split; [|reflexivity]. intros _ j Hj. cbn in Hj. assert (j = 0) by lia. subst. exact E.
  - destruct (has_prefix sep (c :: r)) eqn:E.
    + split; [discriminate|]. intros H. specialize (H 0 ltac:(lia)). cbn in H. congruence.
    + destruct (go_index r sep) as [i0|] eqn:E0.
      * split; [discriminate|]. intros H. exfalso. assert (Hn : @None nat = None) by reflexivity.
        assert (Hr : forall j, j <= length r -> has_prefix sep (skipn j r) = false).
        { intros j Hj. apply (H (S j)). cbn. lia. }
        apply IH in Hr. discriminate.
      * split; [|reflexivity]. intros _ [|j] Hj; [exact E|]. cbn [skipn]. apply (proj1 IH eq_refl). cbn in Hj. lia.
Qed.

Lemma skipn_plus {A} (l : list A) : forall i j, skipn j (skipn i l) = skipn (i + j) l.
Proof.
  induction l as [|x l IH]; intros i j.
  - rewrite !skipn_nil. reflexivity.
  - destruct i as [|i]; [reflexivity|]. cbn [skipn Nat.add]. apply IH.
Qed.

(* the text splits around the first occurrence *)
Lemma go_index_split s sep i :
  go_index s sep = Some i -> s = firstn i s ++ sep ++ skipn (i + length sep) s.
Proof.
  intros H. apply go_index_some in H. destruct H as (_ & H & _). unfold occurs_at in H.
  apply has_prefix_iff in H. destruct H as [t Ht].
  rewrite <- (firstn_skipn i s) at 1. f_equal. rewrite Ht. f_equal.
  rewrite <- skipn_plus, Ht, skipn_app, skipn_all, Nat.sub_diag. reflexivity.
Qed.

(* ------------------------------------------------------------------ Cut *)

Lemma go_cut_found s sep i :
  go_index s sep = Some i ->
  go_cut s sep = (firstn i s, skipn (i + length sep) s, true) /\
  s = firstn i s ++ sep ++ skipn (i + length sep) s.
Proof. intros H. unfold go_cut. rewrite H. split; [reflexivity|apply go_index_split; exact H]. Qed.

Lemma go_cut_not_found s sep : go_index s sep = None -> go_cut s sep = (s, [], false).
Proof. intros H. unfold go_cut. rewrite H. reflexivity. Qed.

(* ------------------------------------------------------------------ Split and Join *)

Lemma go_split_from_skip sep : forall s k, go_split_from sep s k = go_split_from sep (skipn k s) 0.
Proof.
  induction s as [|c r IH]; intros k.
  - rewrite skipn_nil. destruct k; reflexivity.
  - destruct k as [|k]; [reflexivity|]. cbn [go_split_from skipn]. apply IH.
Qed.

Definition cons_head (c : ascii) (l : list str) : list str :=
  match l with x :: xs => (c :: x) :: xs | [] => [[c]] end.

(* THE characterisation of Split for a non-empty separator: cut at the leftmost occurrence, continue behind it *)
Theorem go_split_unfold sep : sep <> [] -> forall s,
  go_split s sep = match go_index s sep with
                   | Some i => firstn i s :: go_split (skipn (i + length sep) s) sep
                   | None => [s]
                   end.
Proof.
  intros Hne. assert (Hl : 1 <= length sep) by (destruct sep; [congruence|cbn; lia]).
  unfold go_split. induction s as [|c r IH].
  - cbn [go_split_from go_index]. destruct sep as [|x sep]; [congruence|]. reflexivity.
  - cbn [go_split_from go_index]. destruct (has_prefix sep (c :: r)) eqn:E.
    + cbn [firstn Nat.add]. f_equal. rewrite go_split_from_skip. f_equal.
      destruct (length sep) as [|n]; [lia|]. cbn [skipn]. f_equal. lia.
    + rewrite IH. destruct (go_index r sep) as [i|]; reflexivity.
Qed.

(* for the EMPTY separator the model returns len(s)+1 empty strings; Go splits into UTF-8 sequences: the
   translator refuses such a call, the correspondence stage counts it as outside the domain *)
Lemma go_split_empty_sep s : go_split s [] = repeat [] (S (length s)).
Proof.
  unfold go_split. induction s as [|c r IH]; [reflexivity|].
  cbn [go_split_from length]. change (has_prefix [] (c :: r)) with true. cbn [Nat.sub]. rewrite IH. reflexivity.
Qed.

Lemma go_index_bound s sep i : go_index s sep = Some i -> i + length sep <= length s.
Proof.
  intros H. pose proof (go_index_split _ _ _ H) as Hs. apply go_index_some in H. destruct H as (H1 & _ & _).
  apply (f_equal (@length ascii)) in Hs. rewrite !app_length, firstn_length, skipn_length in Hs. lia.
Qed.

Lemma go_split_nonempty s sep : go_split s sep <> [].
Proof. apply go_split_from_nonempty. Qed.

(* Join undoes Split *)
Theorem go_join_split sep : sep <> [] -> forall s, go_join (go_split s sep) sep = s.
Proof.
  intros Hne. assert (Hl : 1 <= length sep) by (destruct sep; [congruence|cbn; lia]).
  intros s. remember (length s) as n eqn:Hn. revert s Hn.
  induction n as [n IH] using lt_wf_ind. intros s Hn.
  rewrite (go_split_unfold sep Hne s). destruct (go_index s sep) as [i|] eqn:E; [|reflexivity].
  pose proof (go_index_bound _ _ _ E) as Hb. pose proof (go_index_split _ _ _ E) as Hs.
  cbn [go_join]. destruct (go_split (skipn (i + length sep) s) sep) as [|y ys] eqn:Er.
  { exfalso. exact (go_split_nonempty _ _ Er). }
  rewrite <- Er, (IH (length (skipn (i + length sep) s))); [symmetry; exact Hs| |reflexivity].
  rewrite skipn_length. lia.
Qed.

(* number of pieces = number of non-overlapping leftmost occurrences + 1 (strings.Count) *)
Fixpoint go_count_from (sep s : str) (skip : nat) : nat :=
  match s with
  | [] => 0
  | c :: r =>
      match skip with
      | S k => go_count_from sep r k
      | O => if has_prefix sep s then S (go_count_from sep r (length sep - 1)) else go_count_from sep r 0
      end
  end.
Definition go_count (s sep : str) : nat := go_count_from sep s 0.

Theorem go_split_length s sep : length (go_split s sep) = S (go_count s sep).
Proof.
  unfold go_split, go_count. generalize 0 as k. induction s as [|c r IH]; intros k; [reflexivity|].
  cbn [go_split_from go_count_from]. destruct k as [|k]; [|apply IH].
  destruct (has_prefix sep (c :: r)); [cbn [length]; rewrite IH; reflexivity|].
  rewrite <- IH. destruct (go_split_from sep r 0) eqn:E; [exfalso; exact (go_split_from_nonempty _ _ _ E)|reflexivity].
Qed.

Theorem go_count_unfold sep : sep <> [] -> forall s,
  go_count s sep = match go_index s sep with
                   | Some i => S (go_count (skipn (i + length sep) s) sep)
                   | None => 0
                   end.
Proof.
  intros Hne s. pose proof (go_split_unfold sep Hne s) as H. apply (f_equal (@length str)) in H.
  rewrite go_split_length in H. destruct (go_index s sep) as [i|]; cbn [length] in H; [rewrite go_split_length in H|]; lia.
Qed.

(* no piece contains the separator: every occurrence a leftmost scan meets has been cut *)
Theorem go_split_pieces_free sep : sep <> [] -> forall s, Forall (fun p => go_index p sep = None) (go_split s sep).
Proof.
  intros Hne. assert (Hl : 1 <= length sep) by (destruct sep; [congruence|cbn; lia]).
  intros s. remember (length s) as n eqn:Hn. revert s Hn.
  induction n as [n IH] using lt_wf_ind. intros s Hn.
  rewrite (go_split_unfold sep Hne s). destruct (go_index s sep) as [i|] eqn:E.
  - pose proof (go_index_bound _ _ _ E) as Hb. constructor.
    + apply go_index_none. intros j Hj. rewrite firstn_length in Hj.
      destruct (occurs_at sep (firstn i s) j) eqn:Eo; [|reflexivity]. exfalso.
      unfold occurs_at in Eo. apply has_prefix_iff in Eo. destruct Eo as [t Ht].
      assert (Hlen : j + length sep <= i).
      { apply (f_equal (@length ascii)) in Ht. rewrite skipn_length, firstn_length, app_length in Ht. lia. }
      apply go_index_some in E. destruct E as (_ & _ & E3).
      assert (Hj' : j < i) by lia. specialize (E3 j Hj'). unfold occurs_at in E3.
      assert (Hp : has_prefix sep (skipn j s) = true).
      { apply has_prefix_iff. exists (t ++ skipn i s).
        rewrite <- (firstn_skipn i s) at 1. rewrite skipn_app, Ht, <- app_assoc. f_equal. f_equal.
        rewrite firstn_length. replace (j - Nat.min i (length s)) with 0 by lia. reflexivity. }
      congruence.
    + apply (IH (length (skipn (i + length sep) s))); [|reflexivity]. rewrite skipn_length. lia.
  - constructor; [exact E|constructor].
Qed.

(* ------------------------------------------------------------------ TrimLeft (byte cutset) *)

Definition in_cutset (cutset : str) (c : ascii) : bool := existsb (Ascii.eqb c) cutset.

Theorem go_trim_left_spec s cutset :
  exists a, s = a ++ go_trim_left s cutset /\ forallb (in_cutset cutset) a = true /\
            match go_trim_left s cutset with [] => True | c :: _ => in_cutset cutset c = false end.
Proof.
  induction s as [|c r IH]; [exists []; repeat split|].
  cbn [go_trim_left]. fold (in_cutset cutset c). destruct (in_cutset cutset c) eqn:E.
  - destruct IH as (a & H1 & H2 & H3). exists (c :: a). cbn [app forallb]. rewrite E, H2. rewrite <- H1. repeat split. exact H3.
  - exists []. repeat split. exact E.
Qed.

Lemma go_trim_left_idem s cutset : go_trim_left (go_trim_left s cutset) cutset = go_trim_left s cutset.
Proof.
  induction s as [|c r IH]; [reflexivity|]. cbn [go_trim_left].
  destruct (existsb (Ascii.eqb c) cutset) eqn:E; [exact IH|]. cbn [go_trim_left]. rewrite E. reflexivity.
Qed.

(* ------------------------------------------------------------------ the order on strings *)

Lemma N_of_ascii_inj x y : N_of_ascii x = N_of_ascii y -> x = y.
Proof. intros H. rewrite <- (ascii_N_embedding x), <- (ascii_N_embedding y), H. reflexivity. Qed.

Lemma byte_trichotomy x y : (byte_ltb x y = true /\ x <> y /\ byte_ltb y x = false) \/
                            (x = y) \/
                            (byte_ltb y x = true /\ x <> y /\ byte_ltb x y = false).
Proof.
  unfold byte_ltb. destruct (N.lt_trichotomy (N_of_ascii x) (N_of_ascii y)) as [H|[H|H]].
  - left. repeat split; [apply N.ltb_lt; exact H| |apply N.ltb_ge; lia]. intros ->. lia.
  - right. left. apply N_of_ascii_inj. exact H.
  - right. right. repeat split; [apply N.ltb_lt; exact H| |apply N.ltb_ge; lia]. intros ->. lia.
Qed.

(* the declarative order: a proper prefix is smaller; otherwise the first differing byte decides *)
Inductive lex_lt : str -> str -> Prop :=
| LL_prefix y b : lex_lt [] (y :: b)
| LL_byte x y a b : (N_of_ascii x < N_of_ascii y)%N -> lex_lt (x :: a) (y :: b)
| LL_tail x a b : lex_lt a b -> lex_lt (x :: a) (x :: b).

Theorem str_ltb_iff a b : str_ltb a b = true <-> lex_lt a b.
Proof.
  revert b. induction a as [|x a IH]; intros [|y b]; cbn [str_ltb].
  - split; [discriminate|inversion 1].
  - split; [constructor|reflexivity].
  - split; [discriminate|inversion 1].
  - unfold byte_ltb. destruct (N.ltb_spec (N_of_ascii x) (N_of_ascii y)) as [Hlt|Hge].
    + split; [intros _; apply LL_byte; exact Hlt|reflexivity].
    + destruct (Ascii.eqb_spec x y) as [->|Hne].
      * rewrite IH. split; [apply LL_tail|]. inversion 1; subst; [lia|assumption].
      * split; [discriminate|]. inversion 1; subst; [lia|congruence].
Qed.

Theorem str_ltb_trichotomy a b :
  (str_ltb a b = true /\ a <> b /\ str_ltb b a = false) \/
  (a = b /\ str_ltb a b = false /\ str_ltb b a = false) \/
  (str_ltb b a = true /\ a <> b /\ str_ltb a b = false).
Proof.
  revert b. induction a as [|x a IH]; intros [|y b]; cbn [str_ltb].
  - right. left. repeat split.
  - left. repeat split. discriminate.
  - right. right. repeat split. discriminate.
  - destruct (byte_trichotomy x y) as [(H1 & H2 & H3)|[->|(H1 & H2 & H3)]].
    + left. rewrite H1, H3. destruct (Ascii.eqb_spec y x) as [->|_]; [congruence|]. repeat split. congruence.
    + unfold byte_ltb. rewrite N.ltb_irrefl, Ascii.eqb_refl.
      destruct (IH b) as [(K1 & K2 & K3)|[(K1 & K2 & K3)|(K1 & K2 & K3)]].
      * left. repeat split; [exact K1| |exact K3]. congruence.
      * right. left. subst b. repeat split; assumption.
      * right. right. repeat split; [exact K1| |exact K3]. congruence.
    + right. right. rewrite H1, H3. destruct (Ascii.eqb_spec x y) as [->|_]; [congruence|]. repeat split. congruence.
Qed.

Theorem str_ltb_trans a b c : str_ltb a b = true -> str_ltb b c = true -> str_ltb a c = true.
Proof.
  rewrite !str_ltb_iff. intros H. revert c. induction H as [y b|x y a b Hlt|x a b H IH]; intros c Hc.
  - inversion Hc; subst; constructor.
  - inversion Hc; subst; [apply LL_byte; lia|apply LL_byte; exact Hlt].
  - inversion Hc; subst; [apply LL_byte; assumption|apply LL_tail; apply IH; assumption].
Qed.

Theorem str_ltb_asym a b : str_ltb a b = true -> str_ltb b a = false.
Proof. intros H. destruct (str_ltb_trichotomy a b) as [(_ & _ & K)|[(_ & K & _)|(_ & _ & K)]]; congruence. Qed.

(* ------------------------------------------------------------------ fixed-width arithmetic *)

Lemma go_u64_range n : (go_u64 n < two64)%N.
Proof. unfold go_u64. apply N.mod_lt. discriminate. Qed.

Lemma go_u64_add_spec a b : go_u64_add a b = ((a + b) mod 2 ^ 64)%N.
Proof. reflexivity. Qed.

Lemma go_u64_mul_spec a b : go_u64_mul a b = ((a * b) mod 2 ^ 64)%N.
Proof. reflexivity. Qed.

(* a - b on uint64 is subtraction modulo 2^64 *)
Lemma go_u64_sub_spec a b : Z.of_N (go_u64_sub a b) = ((Z.of_N a - Z.of_N b) mod 2 ^ 64)%Z.
Proof.
  unfold go_u64_sub, go_u64. assert (H64 : two64 = (2 ^ 64)%N) by reflexivity.
  pose proof (N.mod_lt b two64 ltac:(discriminate)) as Hb.
  rewrite N2Z.inj_mod, N2Z.inj_add, N2Z.inj_sub by lia. rewrite N2Z.inj_mod.
  change (Z.of_N two64) with (2 ^ 64)%Z.
  replace (Z.of_N a + (2 ^ 64 - Z.of_N b mod 2 ^ 64))%Z with (Z.of_N a - Z.of_N b mod 2 ^ 64 + 1 * 2 ^ 64)%Z by lia.
  rewrite Z.mod_add by lia. apply Zminus_mod_idemp_r.
Qed.

(* int32 wrap-around: the representative of z modulo 2^32 in [-2^31, 2^31) *)
Lemma go_i32_range z : (- 2 ^ 31 <= go_i32 z < 2 ^ 31)%Z.
Proof. unfold go_i32. pose proof (Z.mod_pos_bound (z + 2147483648) 4294967296 ltac:(lia)). lia. Qed.

Lemma go_i32_congr z : ((go_i32 z - z) mod 2 ^ 32 = 0)%Z.
Proof.
  unfold go_i32. change (2 ^ 32)%Z with 4294967296%Z.
  rewrite (Z.mod_eq (z + 2147483648) 4294967296) by lia.
  replace (z + 2147483648 - 4294967296 * ((z + 2147483648) / 4294967296) - 2147483648 - z)%Z
    with ((- ((z + 2147483648) / 4294967296)) * 4294967296)%Z by lia.
  apply Z.mod_mul. lia.
Qed.

Lemma go_i32_id z : (- 2 ^ 31 <= z < 2 ^ 31)%Z -> go_i32 z = z.
Proof. intros H. unfold go_i32. rewrite Z.mod_small by lia. lia. Qed.

Lemma go_u64_of_i32_spec z : Z.of_N (go_u64_of_i32 z) = (z mod 2 ^ 64)%Z.
Proof.
  unfold go_u64_of_i32. rewrite Z2N.id; [reflexivity|]. apply Z.mod_pos_bound. lia.
Qed.

(* ------------------------------------------------------------------ strconv.Atoi *)

Definition digit_val (c : ascii) : Z := (Z.of_N (N_of_ascii c) - 48)%Z.

(* the number a digit string denotes *)
Definition digits_value_from (acc : Z) (ds : str) : Z := fold_left (fun a c => (a * 10 + digit_val c)%Z) ds acc.
Definition digits_value (ds : str) : Z := digits_value_from 0 ds.

Lemma digits_val_spec : forall s acc,
  digits_val acc s = if forallb is_digit s then Some (digits_value_from acc s) else None.
Proof.
  induction s as [|c r IH]; intros acc; [reflexivity|].
  cbn [digits_val forallb]. destruct (is_digit c); [|reflexivity]. rewrite IH. reflexivity.
Qed.

Lemma is_digit_val c : is_digit c = true -> (0 <= digit_val c <= 9)%Z.
Proof.
  unfold is_digit, digit_val. intros H. apply andb_true_iff in H. destruct H as [H1 H2].
  apply N.leb_le in H1. apply N.leb_le in H2. lia.
Qed.

Lemma digits_value_from_bound : forall ds acc, forallb is_digit ds = true -> (0 <= acc)%Z ->
  (acc * 10 ^ Z.of_nat (length ds) <= digits_value_from acc ds < (acc + 1) * 10 ^ Z.of_nat (length ds))%Z.
Proof.
  induction ds as [|c r IH]; intros acc H Hacc.
  - cbn. lia.
  - cbn [forallb] in H. apply andb_true_iff in H. destruct H as [Hc Hr]. pose proof (is_digit_val c Hc) as Hd.
    unfold digits_value_from. cbn [fold_left length]. fold (digits_value_from (acc * 10 + digit_val c) r).
    specialize (IH (acc * 10 + digit_val c)%Z Hr ltac:(lia)).
    rewrite Nat2Z.inj_succ, Z.pow_succ_r by lia.
    assert (Hp : (0 < 10 ^ Z.of_nat (length r))%Z) by (apply Z.pow_pos_nonneg; lia). nia.
Qed.

(* a digit string of n digits denotes a number in [0, 10^n) *)
Lemma digits_value_bound ds : forallb is_digit ds = true -> (0 <= digits_value ds < 10 ^ Z.of_nat (length ds))%Z.
Proof. intros H. pose proof (digits_value_from_bound ds 0 H ltac:(lia)). unfold digits_value. lia. Qed.

Definition int64_min : Z := (- 9223372036854775808)%Z.

(* the accepted syntax: an optional sign, then at least one digit, digits only (no underscores, no spaces, no
   non-ASCII digits); the value must fit int64 *)
Inductive atoi_syntax : str -> bool -> str -> Prop :=
| AS_plain body : atoi_syntax body false body                      (* chosen only when no sign stands in front *)
| AS_plus body : atoi_syntax ("+"%char :: body) false body
| AS_minus body : atoi_syntax ("-"%char :: body) true body.

Lemma digit_not_sign c : is_digit c = true -> Ascii.eqb c "-" = false /\ Ascii.eqb c "+" = false.
Proof.
  intros H. split.
  - destruct (Ascii.eqb_spec c "-"%char) as [E|]; [subst c; vm_compute in H; discriminate|reflexivity].
  - destruct (Ascii.eqb_spec c "+"%char) as [E|]; [subst c; vm_compute in H; discriminate|reflexivity].
Qed.

Theorem atoi_spec s z :
  atoi s = Some z <->
  exists neg body, atoi_syntax s neg body /\ body <> [] /\ forallb is_digit body = true /\
                   z = (if neg then - digits_value body else digits_value body)%Z /\
                   (int64_min <= z <= int64_max)%Z.
Proof.
  unfold atoi. split.
  - destruct s as [|c r].
    + discriminate.
    + destruct (Ascii.eqb_spec c "-"%char) as [->|Hm]; [|destruct (Ascii.eqb_spec c "+"%char) as [->|Hp]].
      * destruct r as [|d r']; [discriminate|]. rewrite digits_val_spec.
        destruct (forallb is_digit (d :: r')) eqn:Hd; [|discriminate]. fold (digits_value (d :: r')).
        pose proof (digits_value_bound _ Hd) as Hb.
        destruct (Z.leb_spec (digits_value (d :: r')) (int64_max + 1)) as [Hle|]; [|discriminate].
        intros [= <-]. exists true, (d :: r'). repeat split; [constructor|discriminate|exact Hd| |]; unfold int64_min, int64_max in *; lia.
      * destruct r as [|d r']; [discriminate|]. rewrite digits_val_spec.
        destruct (forallb is_digit (d :: r')) eqn:Hd; [|discriminate]. fold (digits_value (d :: r')).
        pose proof (digits_value_bound _ Hd) as Hb.
        destruct (Z.leb_spec (digits_value (d :: r')) int64_max) as [Hle|]; [|discriminate].
        intros [= <-]. exists false, (d :: r'). repeat split; [constructor|discriminate|exact Hd| |]; unfold int64_min, int64_max in *; lia.
      * rewrite digits_val_spec.
        destruct (forallb is_digit (c :: r)) eqn:Hd; [|discriminate]. fold (digits_value (c :: r)).
        pose proof (digits_value_bound _ Hd) as Hb.
        destruct (Z.leb_spec (digits_value (c :: r)) int64_max) as [Hle|]; [|discriminate].
        intros [= <-]. exists false, (c :: r). repeat split; [constructor|discriminate|exact Hd| |]; unfold int64_min, int64_max in *; lia.
  - intros (neg & body & Hsyn & Hne & Hd & Hz & Hr). pose proof (digits_value_bound _ Hd) as Hb.
    inversion Hsyn; subst.
    + destruct body as [|c r]; [congruence|]. pose proof Hd as Hd'. cbn [forallb] in Hd'. apply andb_true_iff in Hd'.
      destruct Hd' as [Hc _]. destruct (digit_not_sign c Hc) as [E1 E2]. rewrite E1, E2.
      rewrite digits_val_spec, Hd. fold (digits_value (c :: r)).
      destruct (Z.leb_spec (digits_value (c :: r)) int64_max); [reflexivity|lia].
    + destruct body as [|c r]; [congruence|].
      replace (Ascii.eqb "+" "-") with false by reflexivity. replace (Ascii.eqb "+" "+") with true by reflexivity.
      cbn iota beta. rewrite digits_val_spec, Hd. fold (digits_value (c :: r)).
      destruct (Z.leb_spec (digits_value (c :: r)) int64_max); [reflexivity|lia].
    + destruct body as [|c r]; [congruence|].
      replace (Ascii.eqb "-" "-") with true by reflexivity.
      cbn iota beta. rewrite digits_val_spec, Hd. fold (digits_value (c :: r)).
      destruct (Z.leb_spec (digits_value (c :: r)) (int64_max + 1)); [reflexivity|]. unfold int64_min, int64_max in *. lia.
Qed.

(* the range error: well-formed but beyond int64 *)
Theorem atoi_range_error (neg : bool) (body : str) :
  body <> [] -> forallb is_digit body = true ->
  let s : str := if neg then "-"%char :: body else body in
  let z : Z := (if neg then - digits_value body else digits_value body)%Z in
  atoi s = if ((int64_min <=? z) && (z <=? int64_max))%Z then Some z else None.
Proof.
  intros Hne Hd s z. destruct ((int64_min <=? z)%Z && (z <=? int64_max)%Z) eqn:E.
  - apply andb_true_iff in E. destruct E as [E1 E2]. apply Z.leb_le in E1. apply Z.leb_le in E2.
    apply atoi_spec. exists neg, body. repeat split; try assumption; try lia.
    subst s. destruct neg; constructor.
  - destruct (atoi s) as [z'|] eqn:Ea; [|reflexivity]. exfalso.
    apply atoi_spec in Ea. destruct Ea as (neg' & body' & Hsyn & _ & Hd' & Hz & Hr).
    assert (neg' = neg /\ body' = body) as [-> ->].
    { subst s. destruct neg; inversion Hsyn; subst; try (split; reflexivity).
      - exfalso. cbn [forallb] in Hd'. apply andb_true_iff in Hd'. destruct Hd' as [Hc _]. vm_compute in Hc. discriminate.
      - exfalso. cbn [forallb] in Hd. apply andb_true_iff in Hd. destruct Hd as [Hc _]. vm_compute in Hc. discriminate.
      - exfalso. cbn [forallb] in Hd. apply andb_true_iff in Hd. destruct Hd as [Hc _]. vm_compute in Hc. discriminate. }
    subst z'. fold z in Hr. apply andb_false_iff in E. destruct E as [E|E]; [apply Z.leb_gt in E|apply Z.leb_gt in E]; lia.
Qed.

(* Go's fast path: up to 18 digits cannot overflow, the range check never fires *)
Theorem atoi_short (neg : bool) (body : str) :
  body <> [] -> forallb is_digit body = true -> length body <= 18 ->
  atoi (if neg then "-"%char :: body else body : str) = Some (if neg then - digits_value body else digits_value body : Z)%Z.
Proof.
  intros Hne Hd Hl. pose proof (atoi_range_error neg body Hne Hd) as H. cbn zeta in H. rewrite H.
  pose proof (digits_value_bound _ Hd) as Hb.
  assert (Hp : (10 ^ Z.of_nat (length body) <= 10 ^ 18)%Z) by (apply Z.pow_le_mono_r; lia).
  replace ((int64_min <=? _)%Z && _) with true; [reflexivity|]. symmetry. apply andb_true_iff.
  unfold int64_min, int64_max. destruct neg; split; apply Z.leb_le; lia.
Qed.

(* what is rejected *)
Lemma atoi_empty : atoi [] = None.
Proof. reflexivity. Qed.

Lemma atoi_sign_only : atoi ["+"%char] = None /\ atoi ["-"%char] = None.
Proof. split; reflexivity. Qed.

Lemma atoi_non_digit s z : atoi s = Some z -> forall c, In c s -> is_digit c = true \/ (exists r, s = c :: r /\ (c = "+"%char \/ c = "-"%char)).
Proof.
  intros H c Hin. apply atoi_spec in H. destruct H as (neg & body & Hsyn & _ & Hd & _).
  rewrite forallb_forall in Hd. inversion Hsyn; subst.
  - left. apply Hd. exact Hin.
  - destruct Hin as [<-|Hin]; [right; eexists; split; [reflexivity|left; reflexivity]|left; apply Hd; exact Hin].
  - destruct Hin as [<-|Hin]; [right; eexists; split; [reflexivity|right; reflexivity]|left; apply Hd; exact Hin].
Qed.

Lemma go_i32_wrap z :
  (- 2 ^ 31 <= go_i32 z < 2 ^ 31)%Z /\ ((go_i32 z - z) mod 2 ^ 32 = 0)%Z /\
  ((- 2 ^ 31 <= z < 2 ^ 31)%Z -> go_i32 z = z).
Proof. exact (conj (go_i32_range z) (conj (go_i32_congr z) (go_i32_id z))). Qed.
