(* Properties of ProcessEntry that hold for EVERY line and PID token (C11, C19, C05). *)
From Coq Require Import Ascii String List Bool Arith ZArith NArith Lia.
Import ListNotations.
From AM Require Import Lib.Bytes Lib.Regex Proofs.RegexLemmas Gen.SshdRegexes Gen.SshdDispatch Model.SshdProc.
Open Scope string_scope.
Open Scope list_scope.
Open Scope nat_scope.

(* ---------- bounds of a match ---------- *)

Lemma try_desc_some_le {A} (f : nat -> option A) n x :
  try_desc f n = Some x -> exists j, j <= n /\ f j = Some x.
Proof. apply try_desc_some. Qed.

Lemma m_bounds its : forall pos s ops cs e cs',
  m its pos s ops cs = Some (e, cs') -> pos <= e /\ e <= pos + length s.
Proof.
  induction its as [|it r IH]; intros pos s ops cs e cs' H.
  - cbn in H. injection H as <- _. lia.
  - destruct it as [x|k|k|g|g| | |k]; cbn [m] in H.
    + destruct s as [|y s]; [discriminate|]. destruct (Ascii.eqb y x); [|discriminate].
      apply IH in H. cbn. lia.
    + destruct s as [|y s]; [discriminate|]. destruct (in_cls k y); [|discriminate].
      apply IH in H. cbn. lia.
    + apply try_desc_some in H. destruct H as (j & Hj & H). apply IH in H.
      pose proof (run_len_le k s). rewrite skipn_length in H. lia.
    + apply IH in H. exact H.
    + destruct (lookup_g g ops); [|discriminate]. apply IH in H. exact H.
    + destruct (Nat.eqb pos 0); [|discriminate]. apply IH in H. exact H.
    + destruct s; [|discriminate]. apply IH in H. exact H.
    + destruct s as [|y s]; [discriminate|]. destruct (in_cls k y); [|discriminate].
      apply IH in H. rewrite skipn_length in H. pose proof (decode_rune_width y s). lia.
Qed.

Lemma find_from_bounds its : forall s pos mt,
  find_from its pos s = Some mt -> pos <= m_start mt /\ m_start mt <= m_end mt /\ m_end mt <= pos + length s.
Proof.
  induction s as [|c s IH]; intros pos mt H; cbn [find_from] in H.
  - destruct (m its pos [] [] []) as [[e cs]|] eqn:E; [|discriminate]. injection H as <-. cbn.
    apply m_bounds in E. cbn in E. lia.
  - destruct (m its pos (c :: s) [] []) as [[e cs]|] eqn:E.
    + injection H as <-. cbn. apply m_bounds in E. cbn in *. lia.
    + apply IH in H. cbn. lia.
Qed.

Lemma find_bounds its line mt :
  find its line = Some mt -> m_start mt <= m_end mt /\ m_end mt <= length line.
Proof. intros H. apply find_from_bounds in H. lia. Qed.

(* ---------- shape of results ---------- *)

(* every handler returns one of three shapes *)
Inductive shape (wok ready : bool) : result -> Prop :=
| sh_nothing : shape wok ready nothing
| sh_write ms e : ev_ok e = false -> shape wok ready (write_only wok ms e)
| sh_forward ms e pid cred : ev_ok e = true -> shape wok ready (write_forward wok ready ms e pid cred).

Lemma h_simple_shape re mk line wok ready :
  (forall mt, ev_ok (mk mt) = false) -> shape wok ready (h_simple re mk line wok).
Proof. intros H. unfold h_simple. destruct (find re line); [apply sh_write; apply H|apply sh_nothing]. Qed.

Lemma accept_publickey_no_panic c tok line wok ready :
  shape wok ready (h_accept_publickey c tok line wok ready).
Proof.
  unfold h_accept_publickey. destruct (find loginRE line) as [mt|] eqn:Ef; [|apply sh_nothing].
  destruct (atoi tok) as [pid|]; [|apply sh_nothing].
  pose proof (find_bounds _ _ _ Ef) as [Hb1 Hb2].
  destruct (Nat.eqb_spec (length line) (m_end mt - m_start mt)) as [Heq|Hne]; [apply sh_forward; reflexivity|].
  destruct (Nat.ltb_spec (length line) (m_end mt - m_start mt + 1)) as [Hlt|Hge]; [lia|].
  destruct (find certIDRE _); apply sh_forward; reflexivity.
Qed.

Lemma run_handler_shape h c tok line wok ready : shape wok ready (run_handler h c tok line wok ready).
Proof.
  destruct h; cbn [run_handler]; try (apply h_simple_shape; intros; reflexivity).
  - apply accept_publickey_no_panic.
  - unfold h_accept_password. destruct (atoi tok); [|apply sh_nothing].
    destruct (find passwordLoginRE line); [apply sh_forward; reflexivity|apply sh_nothing].
  - unfold h_cert_invalid. apply sh_write. reflexivity.
  - unfold h_invalid_user. destruct (find invalidUserRE line); [apply sh_write; reflexivity|apply sh_nothing].
Qed.

(* consequences of a shape, preserved by the metric added in the dispatch switch *)
Record well_shaped (wok ready : bool) (r : result) : Prop := {
  ws_ret : r_ret r <> RetPanic /\ (wok = true -> r_ret r = RetOk) /\
           (r_ret r = RetWriteErr -> wok = false /\ r_forwards r = [] /\ length (r_writes r) = 1);
  ws_one : length (r_writes r) <= 1 /\ length (r_forwards r) <= 1;
  ws_fwd : forall f, In f (r_forwards r) ->
             r_writes r = [f_src f] /\ ev_ok (f_src f) = true /\ wok = true /\ ready = true;
  ws_cancel : ready = false -> r_forwards r = []
}.

Lemma shape_well wok ready r : shape wok ready r -> well_shaped wok ready r.
Proof.
  intros [|ms e He|ms e pid cred He].
  - constructor; cbn; repeat split; try congruence; try lia; try tauto.
  - constructor; unfold write_only; cbn.
    + destruct wok; repeat split; try congruence.
    + lia.
    + intros f [].
    + reflexivity.
  - constructor; unfold write_forward; destruct wok; cbn.
    + repeat split; try congruence.
    + repeat split; try congruence.
    + destruct ready; cbn; lia.
    + lia.
    + destruct ready; cbn; [|intros f []]. intros f [<-|[]]. cbn. tauto.
    + intros f [].
    + intros ->. reflexivity.
    + reflexivity.
Qed.

Lemma add_metrics_well wok ready ms r : well_shaped wok ready r -> well_shaped wok ready (add_metrics ms r).
Proof. intros [A B C D]. constructor; cbn; assumption. Qed.

Lemma dispatch_on_well d c tok line wok ready : well_shaped wok ready (dispatch_on d c tok line wok ready).
Proof.
  induction d as [|[[g t] ms] d IH]; cbn [dispatch_on].
  - apply shape_well. apply sh_nothing.
  - destruct (guard_holds g line); [|exact IH]. apply add_metrics_well. apply shape_well.
    destruct t as [h|]; [apply run_handler_shape|].
    destruct (first_user user_dispatch line); [apply run_handler_shape|apply sh_nothing].
Qed.

Theorem process_total c tok line wok ready : well_shaped wok ready (process c tok line wok ready).
Proof. apply dispatch_on_well. Qed.

(* ---------- an event only for lines that begin with a recognised keyword ---------- *)

Definition keywords : list string :=
  ["Accepted publickey"; "Accepted password"; "Certificate invalid"; "Invalid user"; "User ";
   "ROOT LOGIN REFUSED FROM "; "Authentication refused for "; "Nasty PTR record """;
   "reverse mapping checking getaddrinfo for "; "Address "; "maximum authentication attempts exceeded for ";
   "Authentication key "; "Error checking authentication key "; "Failed password for "].

Definition has_keyword (line : str) : bool := existsb (fun k => has_prefix (s2l k) line) keywords.

Lemma matches_bol_lits_prefix L r line :
  matches (IBol :: (lits L ++ r)) line = true -> has_prefix (s2l L) line = true.
Proof.
  unfold matches. rewrite find_bol. unfold has_prefix.
  destruct (strip_prefix (s2l L) line) eqn:E; [reflexivity|].
  unfold lits. rewrite (m_lits_mismatch _ _ _ _ _ _ E). discriminate.
Qed.

(* what a guard of the generated table implies about the line *)
Definition guard_keyword (g : guard) : option string :=
  match g with
  | GPrefix p => Some p
  | GMatch re => match re with
                 | IBol :: _ => None   (* filled in per entry below *)
                 | _ => None
                 end
  end.

Lemma no_guard_nothing d c tok line wok ready :
  (forall g t ms, In (g, t, ms) d -> guard_holds g line = false) ->
  dispatch_on d c tok line wok ready = nothing.
Proof.
  induction d as [|[[g t] ms] d IH]; intros H; cbn [dispatch_on]; [reflexivity|].
  rewrite (H g t ms (or_introl eq_refl)). apply IH. intros g' t' ms' Hin. eapply H. right. exact Hin.
Qed.

Theorem no_keyword_nothing c tok line wok ready :
  has_keyword line = false -> process c tok line wok ready = nothing.
Proof.
  intros Hk. unfold process. apply no_guard_nothing. intros g t ms Hin.
  unfold has_keyword, keywords in Hk. cbn [existsb] in Hk.
  repeat (apply orb_false_iff in Hk; let H := fresh "K" in destruct Hk as [H Hk]).
  unfold dispatch in Hin. cbn [In] in Hin.
  repeat (destruct Hin as [Hin|Hin]; [injection Hin as <- <- <-|]); try contradiction; cbn [guard_holds]; try assumption;
    match goal with
    | |- matches ?re line = false =>
        destruct (matches re line) eqn:E; [|reflexivity]; unfold re in E;
        apply matches_bol_lits_prefix in E; congruence
    end.
Qed.

Corollary event_needs_keyword c tok line wok ready :
  r_writes (process c tok line wok ready) <> [] -> has_keyword line = true.
Proof.
  intros H. destruct (has_keyword line) eqn:E; [reflexivity|].
  rewrite (no_keyword_nothing _ _ _ _ _ E) in H. cbn in H. congruence.
Qed.

(* ---------- C19: counted once, under the matching outcome ---------- *)

Definition label_ok (e : event) (l : mlabel) : Prop :=
  (ev_ok e = true -> snd l = "Success") /\ (ev_ok e = false -> snd l = "Failure").

(* handler-level: (metrics emitted inside the handler, does the dispatch case add one) *)
Definition counted (dm : option mlabel) (r : result) : Prop :=
  forall e, r_writes r = [e] ->
    exists l, (match dm with Some x => x :: r_metrics r | None => r_metrics r end) = [l] /\ label_ok e l.

Lemma counted_nothing dm : counted dm nothing.
Proof. intros e H. discriminate. Qed.

Lemma pk_not_pw line :
  has_prefix (s2l "Accepted publickey") line = true -> has_prefix (s2l "Accepted password") line = false.
Proof.
  unfold has_prefix. destruct (strip_prefix (s2l "Accepted publickey") line) eqn:E; [|discriminate].
  intros _. apply strip_prefix_some in E. subst line. reflexivity.
Qed.

Lemma dispatch_counted c tok line wok ready :
  forall e, r_writes (process c tok line wok ready) = [e] ->
  exists l, r_metrics (process c tok line wok ready) = [l] /\ label_ok e l /\
    (has_prefix (s2l "Accepted password") line = true -> fst l = "PasswordLogin") /\
    (has_prefix (s2l "Accepted publickey") line = true -> fst l = "SSHKeyLogin" \/ fst l = "SSHCertLogin").
Proof.
  unfold process, dispatch. cbn [dispatch_on guard_holds].
  (* walk the generated table *)
  destruct (has_prefix (s2l "Accepted publickey") line) eqn:G1.
  { cbn [add_metrics r_writes r_metrics run_handler]. unfold h_accept_publickey.
    intros e. destruct (find loginRE line) as [mt|]; [|discriminate].
    destruct (atoi tok); [|discriminate].
    destruct (Nat.eqb (length line) (m_end mt - m_start mt)).
    - unfold write_forward. destruct wok; cbn; intros [= <-]; eexists; (split; [reflexivity|]);
        (split; [split; cbn; congruence|]);
        (split; [intros Hpw; pose proof (pk_not_pw _ G1) as X; change (has_prefix (s2l "Accepted password") line = true) in Hpw; congruence|intros _; left; reflexivity]).
    - destruct (length line <? m_end mt - m_start mt + 1); [discriminate|].
      destruct (find certIDRE _); unfold write_forward; destruct wok; cbn; intros [= <-]; eexists;
        (split; [reflexivity|]); (split; [split; cbn; congruence|]);
        (split; [intros Hpw; pose proof (pk_not_pw _ G1) as X; change (has_prefix (s2l "Accepted password") line = true) in Hpw; congruence|intros _; right; reflexivity]). }
  destruct (has_prefix (s2l "Accepted password") line) eqn:G2.
  { cbn [add_metrics r_writes r_metrics run_handler]. unfold h_accept_password.
    intros e. destruct (atoi tok); [|discriminate]. destruct (find passwordLoginRE line); [|discriminate].
    unfold write_forward. destruct wok; cbn; intros [= <-]; eexists; (split; [reflexivity|]);
      (split; [split; cbn; congruence|]); split; intros; auto; discriminate. }
  destruct (has_prefix (s2l "Certificate invalid") line) eqn:G3.
  { cbn [add_metrics r_writes r_metrics run_handler]. unfold h_cert_invalid, write_only. cbn.
    intros e [= <-]. eexists. split; [reflexivity|]. split; [split; cbn; congruence|]. split; discriminate. }
  destruct (has_prefix (s2l "Invalid user") line) eqn:G4.
  { cbn [add_metrics r_writes r_metrics run_handler]. unfold h_invalid_user.
    intros e. destruct (find invalidUserRE line); [|discriminate]. unfold write_only. cbn.
    intros [= <-]. eexists. split; [reflexivity|]. split; [split; cbn; congruence|]. split; discriminate. }
  (* all remaining cases add (UnknownLogin, Failure) in the switch and use h_simple handlers *)
  assert (Hsimple : forall h e, h <> h_processAcceptPublicKeyEntry -> h <> h_processAcceptedPasswordEntry ->
            h <> h_processCertificateInvalidEntry -> h <> h_processInvalidUserEntry ->
            r_writes (run_handler h c tok line wok ready) = [e] ->
            r_metrics (run_handler h c tok line wok ready) = [] /\ ev_ok e = false).
  { intros h e N1 N2 N3 N4. destruct h; try congruence; cbn [run_handler]; unfold h_simple;
      match goal with |- context [find ?re line] => destruct (find re line) end; cbn; try discriminate;
      intros [= <-]; split; reflexivity. }
  assert (Hfin : forall r e, (r_writes r = [e] -> r_metrics r = [] /\ ev_ok e = false) ->
            r_writes (add_metrics (Some ("UnknownLogin", "Failure")) r) = [e] ->
            exists l, r_metrics (add_metrics (Some ("UnknownLogin", "Failure")) r) = [l] /\ label_ok e l /\
              (false = true -> fst l = "PasswordLogin") /\ (false = true -> fst l = "SSHKeyLogin" \/ fst l = "SSHCertLogin")).
  { intros r e H Hw. cbn in Hw. destruct (H Hw) as [Hm He]. cbn. rewrite Hm. eexists. split; [reflexivity|].
    split; [split; cbn; congruence|]. split; discriminate. }
  destruct (has_prefix (s2l "User ") line).
  { intros e. apply Hfin. destruct (first_user user_dispatch line) as [h|] eqn:Eu; [|discriminate].
    apply Hsimple; unfold user_dispatch in Eu; cbn [first_user] in Eu;
      repeat match type of Eu with (if ?b then _ else _) = _ => destruct b; [injection Eu as <-; discriminate|] end;
      discriminate. }
  repeat match goal with
  | |- forall e, r_writes (if ?b then _ else _) = _ -> _ =>
      destruct b; [intros e; apply Hfin; apply Hsimple; discriminate|]
  end.
  cbn. intros e H. discriminate.
Qed.

Lemma process_total_flat c tok line wok ready :
  let r := process c tok line wok ready in
  (r_ret r <> RetPanic /\ (wok = true -> r_ret r = RetOk) /\
   (r_ret r = RetWriteErr -> wok = false /\ r_forwards r = [] /\ length (r_writes r) = 1)) /\
  (length (r_writes r) <= 1 /\ length (r_forwards r) <= 1) /\
  (forall f, In f (r_forwards r) -> r_writes r = [f_src f] /\ ev_ok (f_src f) = true /\ wok = true /\ ready = true) /\
  (ready = false -> r_forwards r = []).
Proof.
  cbv zeta. destruct (process_total c tok line wok ready) as [A B C D].
  split; [exact A|]. split; [exact B|]. split; [exact C|exact D].
Qed.

Lemma keyword_flat c tok line wok ready :
  (has_keyword line = false -> process c tok line wok ready = nothing) /\
  (r_writes (process c tok line wok ready) <> [] -> has_keyword line = true).
Proof. split; [apply no_keyword_nothing|apply event_needs_keyword]. Qed.

Lemma no_keyword_no_metric c tok line wok ready :
  has_keyword line = false -> r_metrics (process c tok line wok ready) = [].
Proof. intros H. rewrite no_keyword_nothing by assumption. reflexivity. Qed.

(* ---------- C05: only accepted-authentication lines forward a login ---------- *)

Definition accept_handler (h : handler) : bool :=
  match h with h_processAcceptPublicKeyEntry | h_processAcceptedPasswordEntry => true | _ => false end.

Lemma non_accept_no_forward h c tok line wok ready :
  accept_handler h = false -> r_forwards (run_handler h c tok line wok ready) = [].
Proof.
  destruct h; cbn [accept_handler]; try discriminate; intros _; cbn [run_handler];
    unfold h_simple, h_cert_invalid, h_invalid_user, write_only;
    try match goal with |- context [find ?re line] => destruct (find re line) end; reflexivity.
Qed.

Lemma first_user_in l line h : first_user l line = Some h -> In h (map snd l).
Proof.
  induction l as [|[re h'] l IH]; cbn; [discriminate|].
  destruct (matches re line); [intros [= ->]; left; reflexivity|]. intros H. right. apply IH. exact H.
Qed.

Lemma user_handlers_non_accept : forallb (fun h => negb (accept_handler h)) (map snd user_dispatch) = true.
Proof. vm_compute. reflexivity. Qed.

Definition target_non_accept (t : target) : bool :=
  match t with THandler h => negb (accept_handler h) | TUserType => true end.

Lemma dispatch_on_no_forward d c tok line wok ready :
  forallb (fun e => target_non_accept (snd (fst e))) d = true ->
  r_forwards (dispatch_on d c tok line wok ready) = [].
Proof.
  induction d as [|[[g t] ms] d IH]; cbn [dispatch_on forallb]; [reflexivity|].
  intros H. apply andb_true_iff in H. destruct H as [Ht Hd]. cbn [fst snd] in Ht.
  destruct (guard_holds g line); [|apply IH; exact Hd]. cbn [add_metrics r_forwards].
  destruct t as [h|].
  - apply non_accept_no_forward. cbn in Ht. apply negb_true_iff. exact Ht.
  - destruct (first_user user_dispatch line) as [h|] eqn:E; [|reflexivity].
    apply non_accept_no_forward. apply first_user_in in E.
    pose proof user_handlers_non_accept as Hu. rewrite forallb_forall in Hu.
    apply negb_true_iff. apply Hu. exact E.
Qed.

Theorem forward_needs_accept c tok line wok ready :
  r_forwards (process c tok line wok ready) <> [] ->
  has_prefix (s2l "Accepted publickey") line = true \/ has_prefix (s2l "Accepted password") line = true.
Proof.
  unfold process, dispatch. cbn [dispatch_on guard_holds].
  destruct (has_prefix (s2l "Accepted publickey") line); [intros _; left; reflexivity|].
  destruct (has_prefix (s2l "Accepted password") line); [intros _; right; reflexivity|].
  intros H. exfalso. apply H.
  assert (E : r_forwards (dispatch_on (skipn 2 dispatch) c tok line wok ready) = [])
    by (apply dispatch_on_no_forward; vm_compute; reflexivity).
  unfold dispatch in E. cbn [skipn dispatch_on guard_holds] in E. exact E.
Qed.

(* the forwarded login carries the pid of the line, and "unknown" or the certificate key id *)
Theorem forward_content c tok line wok ready f :
  In f (r_forwards (process c tok line wok ready)) ->
  atoi tok = Some (f_pid f) /\ r_writes (process c tok line wok ready) = [f_src f] /\
  (f_cred f = unknown \/ f_cred f = ev_user_id (f_src f)).
Proof.
  unfold process, dispatch. cbn [dispatch_on guard_holds].
  destruct (has_prefix (s2l "Accepted publickey") line).
  { cbn [add_metrics r_forwards r_writes run_handler]. unfold h_accept_publickey.
    destruct (find loginRE line) as [mt|]; [|intros []].
    destruct (atoi tok) as [pid|]; [|intros []].
    destruct (Nat.eqb (length line) (m_end mt - m_start mt)).
    - unfold write_forward. destruct wok; [|intros []]. destruct ready; [|intros []].
      intros [<-|[]]. cbn. auto.
    - destruct (length line <? m_end mt - m_start mt + 1); [intros []|].
      destruct (find certIDRE _); unfold write_forward; (destruct wok; [|intros []]); (destruct ready; [|intros []]);
        intros [<-|[]]; cbn; auto. }
  destruct (has_prefix (s2l "Accepted password") line).
  { cbn [add_metrics r_forwards r_writes run_handler]. unfold h_accept_password.
    destruct (atoi tok) as [pid|]; [|intros []]. destruct (find passwordLoginRE line); [|intros []].
    unfold write_forward. destruct wok; [|intros []]. destruct ready; [|intros []].
    intros [<-|[]]. cbn. auto. }
  intros H. exfalso.
  assert (E : r_forwards (dispatch_on (skipn 2 dispatch) c tok line wok ready) = [])
    by (apply dispatch_on_no_forward; vm_compute; reflexivity).
  unfold dispatch in E. cbn [skipn dispatch_on guard_holds] in E. rewrite E in H. exact H.
Qed.
