(* Process-level theorems, part 2: each remaining supported message rendered from its fields
   yields exactly the expected event (dispatch table GENERATED, regexes GENERATED, handlers
   hand-modelled).  The expected events are written out as explicit records, independently of
   the regular expressions. *)
From Coq Require Import Ascii String List Bool Arith ZArith NArith Lia.
Import ListNotations.
From AM Require Import Lib.Bytes Lib.Utf8 Lib.Regex Proofs.RegexLemmas Gen.SshdRegexes Gen.SshdDispatch
  Model.SshdProc Proofs.SshdFields Proofs.SshdForms Proofs.SshdFields2.
Open Scope string_scope.
Open Scope list_scope.

(* ---------- a pattern ending in  T$  only matches texts ending in T ---------- *)

Lemma m_ends_with l : forall its p s ops cs res,
  m (its ++ map ILit l ++ [IEol]) p s ops cs = Some res -> exists x, s = x ++ l.
Proof.
  induction its as [|it r IH]; intros p s ops cs res H.
  - cbn [app] in H. apply lits_eol_exact in H. exists []. subst s. reflexivity.
  - cbn [app] in H. destruct it as [x|k|k|g|g| | |k]; cbn [m] in H.
    + destruct s as [|y s]; [discriminate|]. destruct (Ascii.eqb y x); [|discriminate].
      apply IH in H. destruct H as [z ->]. exists (y :: z). reflexivity.
    + destruct s as [|y s]; [discriminate|]. destruct (in_cls k y); [|discriminate].
      apply IH in H. destruct H as [z ->]. exists (y :: z). reflexivity.
    + apply try_desc_some in H. destruct H as (j & _ & H). apply IH in H. destruct H as [z Hz].
      exists (firstn j s ++ z). rewrite <- app_assoc, <- Hz. symmetry. apply firstn_skipn.
    + apply IH in H. exact H.
    + destruct (lookup_g g ops); [|discriminate]. apply IH in H. exact H.
    + destruct (Nat.eqb p 0); [|discriminate]. apply IH in H. exact H.
    + destruct s; [|discriminate]. apply IH in H. exact H.
    + destruct s as [|y s]; [discriminate|]. destruct (in_cls k y); [|discriminate].
      apply IH in H. destruct H as [z Hz].
      exists (firstn (snd (decode_rune (y :: s))) (y :: s) ++ z). rewrite <- app_assoc, <- Hz. symmetry. apply firstn_skipn.
Qed.

(* two byte strings that differ at some common position *)
Fixpoint clash (a b : str) : bool :=
  match a, b with
  | x :: a', y :: b' => if Ascii.eqb x y then clash a' b' else true
  | _, _ => false
  end.

Lemma clash_neq a : forall b a2 b2, clash a b = true -> a ++ a2 <> b ++ b2.
Proof.
  induction a as [|x a IH]; intros [|y b] a2 b2 H; cbn in H; try discriminate.
  destruct (Ascii.eqb_spec x y) as [->|Hne]; cbn.
  - intros E. injection E as E. exact (IH _ _ _ H E).
  - intros E. injection E as E1 _. contradiction.
Qed.

(* read from the end, the two tails differ before either is exhausted *)
Definition tails_clash (l t : str) : bool := clash (rev l) (rev t).

Lemma no_match_ends re pre (T T' : string) line :
  re = IBol :: (pre ++ lits T ++ [IEol]) ->
  (exists x, line = x ++ s2l T') ->
  tails_clash (s2l T) (s2l T') = true ->
  matches re line = false.
Proof.
  intros -> [x ->] Hc. unfold matches. rewrite find_bol.
  destruct (m (pre ++ lits T ++ [IEol]) 0 (x ++ s2l T') [] []) as [[e cs]|] eqn:E; [|reflexivity].
  exfalso. unfold lits in E. apply m_ends_with in E. destruct E as [z Hz].
  apply (f_equal (@rev ascii)) in Hz. rewrite !rev_app_distr in Hz.
  symmetry in Hz. revert Hz. apply clash_neq. exact Hc.
Qed.

(* ---------- shapes of the seven "User ..." patterns and lines ---------- *)

Definition user_from_pre : list item :=
  lits "User " ++ [IOpen 1; IStar cls_dot; IClose 1] ++ lits " from " ++ [IOpen 2; IStar cls_dot; IClose 2].
Definition user_shell_pre : list item :=
  lits "User " ++ [IOpen 1; IStar cls_dot; IClose 1] ++ lits " not allowed because shell " ++ [IOpen 2; IStar cls_dot; IClose 2].

Lemma user_from_re_split T : user_from_re T = IBol :: (user_from_pre ++ lits T ++ [IEol]).
Proof. reflexivity. Qed.
Lemma user_shell_re_split T : user_shell_re T = IBol :: (user_shell_pre ++ lits T ++ [IEol]).
Proof. reflexivity. Qed.

Lemma ends_user_from T u s : exists x, fmt_user_from T u s = x ++ s2l T.
Proof.
  exists (s2l "User " ++ u ++ s2l " from " ++ s). unfold fmt_user_from. rewrite <- !app_assoc. reflexivity.
Qed.

Lemma ends_user_shell T u sh : exists x, fmt_user_shell T u sh = x ++ s2l T.
Proof.
  exists (s2l "User " ++ u ++ s2l " not allowed because shell " ++ sh). unfold fmt_user_shell.
  rewrite <- !app_assoc. reflexivity.
Qed.

(* refute the FIRST  matches re line  of the goal: re ends in a tail different from the line's *)
Ltac refute_tail E :=
  lazymatch goal with
  | |- context [matches ?re ?line] =>
      let K := fresh "K" in
      assert (K : matches re line = false) by
        (first
          [ eapply (no_match_ends re user_from_pre); [apply user_from_re_split | exact E | reflexivity]
          | eapply (no_match_ends re user_shell_pre); [apply user_shell_re_split | exact E | reflexivity] ]);
      rewrite K; clear K; cbv beta iota
  end.

(* ---------- which entry of the generated user_dispatch table fires ---------- *)

Ltac take_find He :=
  match type of He with
  | find ?re ?line = Some ?mt => unfold matches; rewrite He; reflexivity
  end.

Lemma first_user_not_in_allow_users u s :
  no_nl u -> no_space s ->
  first_user user_dispatch (fmt_not_in_allow_users u s) = Some h_processNotInAllowUsersEntry.
Proof.
  intros Hu Hs. destruct (find_not_in_allow_users u s Hu Hs) as [e He].
  unfold user_dispatch. cbn [first_user]. take_find He.
Qed.

Lemma first_user_nonexistent_shell u sh :
  no_nl u -> no_space sh ->
  first_user user_dispatch (fmt_user_nonexistent_shell u sh) = Some h_userNonExistentShell.
Proof.
  intros Hu Hs. destruct (find_user_nonexistent_shell u sh Hu Hs) as [e He].
  pose proof (ends_user_shell T_shell_not_exist u sh) as E.
  unfold user_dispatch. cbn [first_user].
  refute_tail E. take_find He.
Qed.

Lemma first_user_nonexecutable_shell u sh :
  no_nl u -> no_space sh ->
  first_user user_dispatch (fmt_user_nonexecutable_shell u sh) = Some h_userNonExecutableShell.
Proof.
  intros Hu Hs. destruct (find_user_nonexecutable_shell u sh Hu Hs) as [e He].
  pose proof (ends_user_shell T_shell_not_exec u sh) as E.
  unfold user_dispatch. cbn [first_user].
  do 2 refute_tail E. take_find He.
Qed.

Lemma first_user_in_deny_users u s :
  no_nl u -> no_space s ->
  first_user user_dispatch (fmt_user_in_deny_users u s) = Some h_userInDenyUsers.
Proof.
  intros Hu Hs. destruct (find_user_in_deny_users u s Hu Hs) as [e He].
  pose proof (ends_user_from T_in_deny_users u s) as E.
  unfold user_dispatch. cbn [first_user].
  do 3 refute_tail E. take_find He.
Qed.

Lemma first_user_not_in_any_group u s :
  no_nl u -> no_space s ->
  first_user user_dispatch (fmt_user_not_in_any_group u s) = Some h_userNotInAnyGroup.
Proof.
  intros Hu Hs. destruct (find_user_not_in_any_group u s Hu Hs) as [e He].
  pose proof (ends_user_from T_not_in_any_group u s) as E.
  unfold user_dispatch. cbn [first_user].
  do 4 refute_tail E. take_find He.
Qed.

Lemma first_user_group_in_deny_groups u s :
  no_nl u -> no_space s ->
  first_user user_dispatch (fmt_user_group_in_deny_groups u s) = Some h_userGroupInDenyGroups.
Proof.
  intros Hu Hs. destruct (find_user_group_in_deny_groups u s Hu Hs) as [e He].
  pose proof (ends_user_from T_group_in_deny_groups u s) as E.
  unfold user_dispatch. cbn [first_user].
  do 5 refute_tail E. take_find He.
Qed.

Lemma first_user_group_not_in_allow_groups u s :
  no_nl u -> no_space s ->
  first_user user_dispatch (fmt_user_group_not_in_allow_groups u s) = Some h_userGroupNotListedInAllowGroups.
Proof.
  intros Hu Hs. destruct (find_user_group_not_in_allow_groups u s Hu Hs) as [e He].
  pose proof (ends_user_from T_not_in_allow_groups u s) as E.
  unfold user_dispatch. cbn [first_user].
  do 6 refute_tail E. take_find He.
Qed.

(* ---------- expected events, written out ---------- *)

(* "User U from S not allowed because ..." *)
Definition ev_user_src (c : cfg) (tok u s : str) : event :=
  {| ev_ok := false; ev_src := s; ev_port := None; ev_dns := None; ev_logged_as := u;
     ev_user_id := s2l "unknown"; ev_pid := tok; ev_file_path := None; ev_key_type := None;
     ev_fingerprint := None; ev_shell := None; ev_data := []; ev_host := c_node c; ev_mid := c_mid c |}.

(* "User U not allowed because shell SH ..." *)
Definition ev_user_shell (c : cfg) (tok u sh : str) : event :=
  {| ev_ok := false; ev_src := s2l "unknown"; ev_port := None; ev_dns := None; ev_logged_as := u;
     ev_user_id := s2l "unknown"; ev_pid := tok; ev_file_path := None; ev_key_type := None;
     ev_fingerprint := None; ev_shell := Some sh; ev_data := []; ev_host := c_node c; ev_mid := c_mid c |}.

(* "ROOT LOGIN REFUSED FROM S port P" *)
Definition ev_root_refused (c : cfg) (tok s p : str) : event :=
  {| ev_ok := false; ev_src := s; ev_port := Some p; ev_dns := None; ev_logged_as := s2l "root";
     ev_user_id := s2l "unknown"; ev_pid := tok; ev_file_path := None; ev_key_type := None;
     ev_fingerprint := None; ev_shell := None; ev_data := []; ev_host := c_node c; ev_mid := c_mid c |}.

(* "Authentication refused for U: bad owner or modes for F" *)
Definition ev_bad_owner (c : cfg) (tok u f : str) : event :=
  {| ev_ok := false; ev_src := s2l "unknown"; ev_port := None; ev_dns := None; ev_logged_as := u;
     ev_user_id := s2l "unknown"; ev_pid := tok; ev_file_path := Some f; ev_key_type := None;
     ev_fingerprint := None; ev_shell := None; ev_data := []; ev_host := c_node c; ev_mid := c_mid c |}.

(* the three reverse-DNS messages: source S, DNS name D *)
Definition ev_src_dns (c : cfg) (tok s d : str) : event :=
  {| ev_ok := false; ev_src := s; ev_port := None; ev_dns := Some d; ev_logged_as := s2l "unknown";
     ev_user_id := s2l "unknown"; ev_pid := tok; ev_file_path := None; ev_key_type := None;
     ev_fingerprint := None; ev_shell := None; ev_data := []; ev_host := c_node c; ev_mid := c_mid c |}.

(* the two revoked-key messages *)
Definition ev_revoked_key (c : cfg) (tok kt fp f : str) : event :=
  {| ev_ok := false; ev_src := s2l "unknown"; ev_port := None; ev_dns := None; ev_logged_as := s2l "unknown";
     ev_user_id := s2l "unknown"; ev_pid := tok; ev_file_path := Some f; ev_key_type := Some kt;
     ev_fingerprint := Some fp; ev_shell := None; ev_data := []; ev_host := c_node c; ev_mid := c_mid c |}.

(* "Accepted password for U from S port P ssh2" *)
Definition ev_accepted_password (c : cfg) (tok u s p : str) : event :=
  {| ev_ok := true; ev_src := s; ev_port := Some p; ev_dns := None; ev_logged_as := u;
     ev_user_id := s2l "unknown"; ev_pid := tok; ev_file_path := None; ev_key_type := None;
     ev_fingerprint := None; ev_shell := None; ev_data := []; ev_host := c_node c; ev_mid := c_mid c |}.

(* "Certificate invalid: REASON" *)
Definition ev_cert_invalid (c : cfg) (tok reason : str) : event :=
  {| ev_ok := false; ev_src := s2l "unknown"; ev_port := Some (s2l "unknown"); ev_dns := None;
     ev_logged_as := s2l "unknown"; ev_user_id := s2l "unknown"; ev_pid := tok; ev_file_path := None;
     ev_key_type := None; ev_fingerprint := None; ev_shell := None;
     ev_data := [("error", s2l "certificate invalid"); ("reason", reason)];
     ev_host := c_node c; ev_mid := c_mid c |}.

(* ---------- dispatch helpers ---------- *)

(* decide every HasPrefix guard of the goal by evaluation (the line starts with a literal) *)
Ltac decide_prefixes :=
  repeat match goal with
  | |- context [has_prefix (s2l ?K) ?L] =>
      let b := eval cbv in (has_prefix (s2l K) L) in
      lazymatch b with
      | true => change (has_prefix (s2l K) L) with true
      | false => change (has_prefix (s2l K) L) with false
      end; cbv beta iota
  end.

Ltac user_form Hfirst He :=
  unfold process, dispatch; cbn [dispatch_on guard_holds];
  decide_prefixes;
  rewrite Hfirst; cbn [add_metrics run_handler]; unfold h_simple; rewrite He; reflexivity.

(* ---------- the seven "User ... not allowed" forms ---------- *)

Theorem process_not_in_allow_users c tok u s wok ready :
  no_nl u -> no_space s ->
  process c tok (fmt_not_in_allow_users u s) wok ready = failure_result wok (ev_user_src c tok u s).
Proof.
  intros Hu Hs. destruct (find_not_in_allow_users u s Hu Hs) as [e He].
  pose proof (first_user_not_in_allow_users u s Hu Hs) as Hf.
  user_form Hf He.
Qed.

Theorem process_user_nonexistent_shell c tok u sh wok ready :
  no_nl u -> no_space sh ->
  process c tok (fmt_user_nonexistent_shell u sh) wok ready = failure_result wok (ev_user_shell c tok u sh).
Proof.
  intros Hu Hs. destruct (find_user_nonexistent_shell u sh Hu Hs) as [e He].
  pose proof (first_user_nonexistent_shell u sh Hu Hs) as Hf.
  user_form Hf He.
Qed.

Theorem process_user_nonexecutable_shell c tok u sh wok ready :
  no_nl u -> no_space sh ->
  process c tok (fmt_user_nonexecutable_shell u sh) wok ready = failure_result wok (ev_user_shell c tok u sh).
Proof.
  intros Hu Hs. destruct (find_user_nonexecutable_shell u sh Hu Hs) as [e He].
  pose proof (first_user_nonexecutable_shell u sh Hu Hs) as Hf.
  user_form Hf He.
Qed.

Theorem process_user_in_deny_users c tok u s wok ready :
  no_nl u -> no_space s ->
  process c tok (fmt_user_in_deny_users u s) wok ready = failure_result wok (ev_user_src c tok u s).
Proof.
  intros Hu Hs. destruct (find_user_in_deny_users u s Hu Hs) as [e He].
  pose proof (first_user_in_deny_users u s Hu Hs) as Hf.
  user_form Hf He.
Qed.

Theorem process_user_not_in_any_group c tok u s wok ready :
  no_nl u -> no_space s ->
  process c tok (fmt_user_not_in_any_group u s) wok ready = failure_result wok (ev_user_src c tok u s).
Proof.
  intros Hu Hs. destruct (find_user_not_in_any_group u s Hu Hs) as [e He].
  pose proof (first_user_not_in_any_group u s Hu Hs) as Hf.
  user_form Hf He.
Qed.

Theorem process_user_group_in_deny_groups c tok u s wok ready :
  no_nl u -> no_space s ->
  process c tok (fmt_user_group_in_deny_groups u s) wok ready = failure_result wok (ev_user_src c tok u s).
Proof.
  intros Hu Hs. destruct (find_user_group_in_deny_groups u s Hu Hs) as [e He].
  pose proof (first_user_group_in_deny_groups u s Hu Hs) as Hf.
  user_form Hf He.
Qed.

Theorem process_user_group_not_in_allow_groups c tok u s wok ready :
  no_nl u -> no_space s ->
  process c tok (fmt_user_group_not_in_allow_groups u s) wok ready = failure_result wok (ev_user_src c tok u s).
Proof.
  intros Hu Hs. destruct (find_user_group_not_in_allow_groups u s Hu Hs) as [e He].
  pose proof (first_user_group_not_in_allow_groups u s Hu Hs) as Hf.
  user_form Hf He.
Qed.

(* ---------- forms dispatched by a regex guard ---------- *)

Theorem process_root_login_refused c tok s p wok ready :
  no_nl s -> no_space p ->
  process c tok (fmt_root_login_refused s p) wok ready = failure_result wok (ev_root_refused c tok s p).
Proof.
  intros Hs Hp. destruct (find_root_login_refused s p Hs Hp) as [e He].
  unfold process, dispatch. cbn [dispatch_on guard_holds].
  unfold fmt_root_login_refused in *. kill_prefixes.
  use_find He. reflexivity.
Qed.

Theorem process_bad_owner c tok u f wok ready :
  no_nl u -> no_nl f -> lacks colon f ->
  process c tok (fmt_bad_owner u f) wok ready = failure_result wok (ev_bad_owner c tok u f).
Proof.
  intros Hu Hf Hc. destruct (find_bad_owner u f Hu Hf Hc) as [e He].
  unfold process, dispatch. cbn [dispatch_on guard_holds].
  unfold fmt_bad_owner in *. kill_prefixes.
  kill rootLoginRefusedRE.
  use_find He. reflexivity.
Qed.

Theorem process_nasty_ptr c tok d s wok ready :
  no_nl d -> no_nl s -> lacks dq s ->
  process c tok (fmt_nasty_ptr d s) wok ready = failure_result wok (ev_src_dns c tok s d).
Proof.
  intros Hd Hs Hq. destruct (find_nasty_ptr d s Hd Hs Hq) as [e He].
  unfold process, dispatch. cbn [dispatch_on guard_holds].
  unfold fmt_nasty_ptr in *. kill_prefixes.
  kill rootLoginRefusedRE. kill badOwnerOrModesForHostFileRE.
  use_find He. reflexivity.
Qed.

Theorem process_reverse_mapping_failed c tok d s wok ready :
  no_nl d -> no_space s ->
  process c tok (fmt_reverse_mapping_failed d s) wok ready = failure_result wok (ev_src_dns c tok s d).
Proof.
  intros Hd Hs. destruct (find_reverse_mapping_failed d s Hd Hs) as [e He].
  unfold process, dispatch. cbn [dispatch_on guard_holds].
  unfold fmt_reverse_mapping_failed in *. kill_prefixes.
  kill rootLoginRefusedRE. kill badOwnerOrModesForHostFileRE. kill nastyPTRRecordRE.
  use_find He. reflexivity.
Qed.

Theorem process_not_map_back c tok s d wok ready :
  no_nl s -> no_space d ->
  process c tok (fmt_not_map_back s d) wok ready = failure_result wok (ev_src_dns c tok s d).
Proof.
  intros Hs Hd. destruct (find_not_map_back s d Hs Hd) as [e He].
  unfold process, dispatch. cbn [dispatch_on guard_holds].
  unfold fmt_not_map_back in *. kill_prefixes.
  kill rootLoginRefusedRE. kill badOwnerOrModesForHostFileRE. kill nastyPTRRecordRE.
  kill reverseMappingCheckFailedRE.
  use_find He. reflexivity.
Qed.

Theorem process_revoked_key c tok kt fp f wok ready :
  keytype kt -> no_nl fp -> no_space f ->
  process c tok (fmt_revoked_key kt fp f) wok ready = failure_result wok (ev_revoked_key c tok kt fp f).
Proof.
  intros Hk Hfp Hf. destruct (find_revoked_key kt fp f Hk Hfp Hf) as [e He].
  unfold process, dispatch. cbn [dispatch_on guard_holds].
  unfold fmt_revoked_key in *. kill_prefixes.
  kill rootLoginRefusedRE. kill badOwnerOrModesForHostFileRE. kill nastyPTRRecordRE.
  kill reverseMappingCheckFailedRE. kill doesNotMapBackToAddrRE. kill maxAuthAttemptsExceededRE.
  use_find He. reflexivity.
Qed.

Theorem process_revoked_key_err c tok kt fp f wok ready :
  keytype kt -> no_nl fp -> no_space f ->
  process c tok (fmt_revoked_key_err kt fp f) wok ready = failure_result wok (ev_revoked_key c tok kt fp f).
Proof.
  intros Hk Hfp Hf. destruct (find_revoked_key_err kt fp f Hk Hfp Hf) as [e He].
  unfold process, dispatch. cbn [dispatch_on guard_holds].
  unfold fmt_revoked_key_err in *. kill_prefixes.
  kill rootLoginRefusedRE. kill badOwnerOrModesForHostFileRE. kill nastyPTRRecordRE.
  kill reverseMappingCheckFailedRE. kill doesNotMapBackToAddrRE. kill maxAuthAttemptsExceededRE.
  kill revokedPublicKeyByFileRE.
  use_find He. reflexivity.
Qed.

(* ---------- Accepted password: the only successful outcome here; it is also forwarded ---------- *)

Definition accepted_password_result (wok ready : bool) (pid : Z) (e : event) : result :=
  {| r_writes := [e];
     r_forwards := if wok then (if ready then [{| f_pid := pid; f_cred := s2l "unknown"; f_src := e |}] else []) else [];
     r_metrics := [("PasswordLogin", "Success")];
     r_ret := if wok then RetOk else RetWriteErr |}.

Theorem process_accepted_password c tok pid u s p wok ready :
  atoi tok = Some pid ->
  no_nl u -> no_space s -> digits p ->
  process c tok (fmt_accepted_password u s p) wok ready =
  accepted_password_result wok ready pid (ev_accepted_password c tok u s p).
Proof.
  intros Hpid Hu Hs Hp. destruct (find_accepted_password u s p Hu Hs Hp) as [e He].
  unfold process, dispatch. cbn [dispatch_on guard_holds].
  decide_prefixes.
  cbn [add_metrics run_handler]. unfold h_accept_password. rewrite Hpid, He.
  unfold write_forward, accepted_password_result. destruct wok; reflexivity.
Qed.

(* a PID token that is not a number: the message is counted but yields no event *)
Theorem process_accepted_password_bad_pid c tok u s p wok ready :
  atoi tok = None ->
  process c tok (fmt_accepted_password u s p) wok ready =
  {| r_writes := []; r_forwards := []; r_metrics := [("PasswordLogin", "Success")]; r_ret := RetOk |}.
Proof.
  intros Hpid. unfold process, dispatch. cbn [dispatch_on guard_holds].
  decide_prefixes.
  cbn [add_metrics run_handler]. unfold h_accept_password. rewrite Hpid. reflexivity.
Qed.

(* ---------- Certificate invalid: REASON (no regular expression involved) ---------- *)

Definition fmt_cert_invalid (reason : str) : str := s2l "Certificate invalid: " ++ reason.

Definition cert_invalid_result (wok : bool) (e : event) : result :=
  {| r_writes := [e]; r_forwards := []; r_metrics := [("SSHCertLogin", "Failure")];
     r_ret := if wok then RetOk else RetWriteErr |}.

Theorem process_cert_invalid c tok reason wok ready :
  reason <> [] ->
  process c tok (fmt_cert_invalid reason) wok ready = cert_invalid_result wok (ev_cert_invalid c tok reason).
Proof.
  intros Hr. unfold process, dispatch. cbn [dispatch_on guard_holds].
  decide_prefixes.
  cbn [add_metrics run_handler]. unfold h_cert_invalid, fmt_cert_invalid.
  destruct reason as [|x reason]; [congruence|]. reflexivity.
Qed.
