(* Refinement: the daemon with the errgroup machine inside (Model/ErrgroupDaemon.v) is a daemon of Model/Workers.v.
   Every composite round is a [dround]; when all worker functions have returned, Wait returns within nine fair rounds
   of the group, nil iff no worker failed: the rule that Workers.v states about errgroup is a theorem about the machine. *)
From Coq Require Import String List Bool Arith Lia.
Import ListNotations.
From AM Require Import Gen.Blocking Model.Workers Proofs.WorkersLemmas Model.Errgroup Proofs.ErrgroupLemmas Model.ErrgroupDaemon.

(* ---------- Workers.v side ---------- *)

Lemma wstep_returned : forall d cn w g l w' b, wstep d cn w g l w' -> ws_main w = Returned b -> ws_main w' = Returned b.
Proof.
  intros d cn w g l w' b H R. inversion H; subst; simpl; [|exact R].
  rewrite R in H0. apply gstep_returned in H0. apply H0.
Qed.

Lemma wexec_returned : forall d cn w sch tr w' b, wexec d cn w sch tr w' -> ws_main w = Returned b -> ws_main w' = Returned b.
Proof. induction 1; intros R; [exact R|]. apply IHwexec. eapply wstep_returned; eauto. Qed.

Lemma all_round_nth : forall cn ds ws ws', all_round cn ds ws ws' ->
  length ws' = length ws /\
  forall i w', nth_error ws' i = Some w' ->
    exists d w sch tr, nth_error ds i = Some d /\ nth_error ws i = Some w /\ wexec d cn w sch tr w'.
Proof.
  induction 1 as [|d ds w ws w' ws' sch tr F X A [IL IH]].
  - split; [reflexivity|]. intros i w' N. destruct i; discriminate N.
  - split; [simpl; lia|]. intros [|i] w0 N; simpl in N.
    + inversion N; subst. exists d, w, sch, tr. auto.
    + destruct (IH i w0 N) as (d0 & w1 & sch0 & tr0 & A1 & A2 & A3). exists d0, w1, sch0, tr0. auto.
Qed.

Lemma any_failed_nth : forall ws, any_failed ws = true <-> exists i w, nth_error ws i = Some w /\ ws_main w = Returned true.
Proof.
  intros ws. unfold any_failed. rewrite existsb_exists. split.
  - intros (w & Hin & F). apply In_nth_error in Hin. destruct Hin as [i N]. exists i, w. split; [exact N|].
    unfold failed in F. destruct (ws_main w) as [| | |[|]]; try discriminate F. reflexivity.
  - intros (i & w & N & R). exists w. split; [eapply nth_error_In; eauto|]. rewrite R. reflexivity.
Qed.

Lemma all_returned_nth : forall ws, all_returned ws = true <-> forall i w, nth_error ws i = Some w -> exists b, ws_main w = Returned b.
Proof.
  intros ws. unfold all_returned. rewrite forallb_forall. split.
  - intros A i w N. specialize (A w (nth_error_In _ _ N)). destruct (ws_main w); try discriminate A. eauto.
  - intros A w Hin. apply In_nth_error in Hin. destruct Hin as [i N]. destruct (A i w N) as [b ->]. reflexivity.
Qed.

(* ---------- errgroup side ---------- *)

Lemma grounds_erounds : forall sc n c c', grounds sc n c c' -> erounds sc n c c'.
Proof. induction 1; econstructor; eauto. Qed.

Lemma inv_grounds : forall sc n c c', grounds sc n c c' -> Inv sc c -> Inv sc c'.
Proof. induction 1; intros HI; [exact HI|]. apply IHgrounds. apply inv_run. exact HI. Qed.

Lemma g_ret_run : forall sc seg c i r, Inv sc c -> g_ret (s_g (fst c) i) = Some r -> g_ret (s_g (fst (run sc c seg)) i) = Some r.
Proof.
  induction seg as [|t l IH]; intros c i r HI G; [exact G|]. rewrite run_cons. apply IH; [apply inv_step; exact HI|].
  apply g_ret_step; assumption.
Qed.

Lemma g_ret_grounds : forall sc n c c' i r, grounds sc n c c' -> Inv sc c -> g_ret (s_g (fst c) i) = Some r -> g_ret (s_g (fst c') i) = Some r.
Proof.
  induction 1; intros HI G; [exact G|]. apply IHgrounds; [apply inv_run; exact HI|]. apply g_ret_run; assumption.
Qed.

Lemma ctx_done_run : forall sc seg c, ctx_done c = true -> ctx_done (run sc c seg) = true.
Proof.
  intros sc seg c D. unfold ctx_done in *. destruct (s_ctx (fst c)) as [k|] eqn:C; [|discriminate D].
  rewrite (ctx_stable sc seg c k C). reflexivity.
Qed.

Lemma ctx_done_grounds : forall sc n c c', grounds sc n c c' -> ctx_done c = true -> ctx_done c' = true.
Proof. induction 1; intros D; [exact D|]. apply IHgrounds. apply ctx_done_run. exact D. Qed.

(* a goroutine stays inside its worker function as long as the function does not return *)
Lemma gf_step : forall sc c t i, Inv sc c -> s_g (fst c) i = GF -> t <> TF i -> s_g (fst (step sc c t)) i = GF.
Proof.
  intros sc c t j [I _] G N. destruct (step_cases sc c t) as [[_ ->]|(e & s' & H & ->)]; [exact G|]. simpl.
  destruct c as [s tr]. simpl in *.
  act_inv H; simpl; auto.
  1: { gcase j i; [reflexivity|exact G]. }
  all: gcase j i; try exact G; try congruence.
Qed.

Lemma gf_run : forall sc seg c i, Inv sc c -> s_g (fst c) i = GF -> ~ In (TF i) seg -> s_g (fst (run sc c seg)) i = GF.
Proof.
  induction seg as [|t l IH]; intros c i HI G N; [exact G|]. rewrite run_cons.
  apply IH; [apply inv_step; exact HI | apply gf_step; auto; intros ->; apply N; left; reflexivity | intros X; apply N; right; exact X].
Qed.

Lemma gf_grounds : forall sc n c c' i, grounds sc n c c' -> Inv sc c -> s_g (fst c) i = GF -> s_g (fst c') i = GF.
Proof.
  induction 1 as [|n c seg c' F NT R IH]; intros HI G; [exact G|]. apply IH; [apply inv_run; exact HI|]. apply gf_run; auto.
Qed.

(* the environment event TF i makes the goroutine leave its worker function with the scripted result *)
Lemma tf_fires : forall sc env c i x, Inv sc c -> nth_error sc i = Some x -> w_wait x = false ->
  s_g (fst c) i = GF \/ g_ret (s_g (fst c) i) = Some (w_res x) -> In (TF i) env ->
  g_ret (s_g (fst (run sc c env)) i) = Some (w_res x).
Proof.
  induction env as [|t l IH]; intros c i x HI X W D Hin; [destruct Hin|]. rewrite run_cons.
  destruct D as [G|G].
  - destruct (tid_eq_dec t (TF i)) as [->|N].
    + apply g_ret_run; [apply inv_step; exact HI|]. destruct c as [s tr]. simpl in *.
      erewrite step_some; [|unfold act; rewrite G, X, W; reflexivity]. simpl. rewrite gupd_same. apply after_f_not.
    + destruct Hin as [E|Hin]; [congruence|]. apply IH; auto; [apply inv_step; exact HI|]. left. apply gf_step; auto.
  - apply g_ret_run; [apply inv_step; exact HI|]. apply g_ret_step; assumption.
Qed.

(* ---------- one composite round is a daemon round of Workers.v ---------- *)

Section Refine.
  Variables (ds : list wdesc) (sc : script).
  Hypothesis Hplain : plain sc.

  (* after the environment events, every worker function that has returned in Workers.v has returned in the machine *)
  Lemma returned_recorded : forall s c ws' env i w' b,
    Inv sc c -> coupled sc s c -> all_round (d_cancel s) ds (d_ws s) ws' -> agrees sc ws' -> env_ok ws' env ->
    nth_error ws' i = Some w' -> ws_main w' = Returned b ->
    exists x, nth_error sc i = Some x /\ is_some (w_res x) = b /\ g_ret (s_g (fst (run sc c env)) i) = Some (w_res x).
  Proof.
    intros s c ws' env i w' b HI (CL & CC & CW) AR AG (E1 & E2) N R.
    destruct (AG i w' b N R) as (x & X & B). exists x. split; [exact X|]. split; [exact B|].
    destruct (all_round_nth _ _ _ _ AR) as [_ NT]. destruct (NT i w' N) as (d & w & sch & tr & _ & Nw & WE).
    apply tf_fires; auto.
    - apply Hplain. eapply nth_error_In; eauto.
    - specialize (CW i w Nw). destruct (ws_main w) eqn:M; auto.
      right. destruct CW as (r & G & _). destruct HI as [I _]. destruct (i_results sc _ I i r G) as (x' & X' & Rx). congruence.
    - eapply E2; eauto.
  Qed.

  Lemma cround_dround : forall s c s' c', Inv sc c -> coupled sc s c -> cround ds sc (s, c) (s', c') ->
    dround ds s s' /\ Inv sc c' /\ coupled sc s' c'.
  Proof.
    intros s c s' c' HI CO CRD. inversion CRD as [s0 c0 ws' env c0' AR AG EO GR]; subst.
    assert (HI1 : Inv sc (run sc c env)) by (apply inv_run; exact HI).
    assert (HI' : Inv sc c') by (eapply inv_grounds; eauto).
    split; [|split; [exact HI'|]].
    - (* Workers.v's rule: a failed worker function or an earlier cancellation leaves the context cancelled *)
      constructor; [exact AR|]. intros D. apply orb_true_iff in D. destruct D as [D|D].
      + destruct CO as (_ & CC & _). rewrite CC in D. eapply ctx_done_grounds; eauto. apply ctx_done_run. exact D.
      + apply any_failed_nth in D. destruct D as (i & w' & N & R).
        destruct (returned_recorded s c ws' env i w' true HI CO AR AG EO N R) as (x & X & B & G).
        destruct (w_res x) as [e|] eqn:Rx; [|discriminate B].
        pose proof (cancel_within_three_rounds sc i e (run sc c env) c' (conj HI1 G) (grounds_erounds _ _ _ _ GR)) as C.
        unfold ctx_done. destruct (s_ctx (fst c')); [reflexivity|contradiction].
    - (* the coupling is re-established *)
      destruct (all_round_nth _ _ _ _ AR) as [LN NT]. destruct CO as (CL & CC & CW).
      split; [simpl; lia|]. split; [reflexivity|]. simpl. intros i w' N.
      destruct (ws_main w') as [k1|rw1 k1|e1|e1] eqn:M.
      4: { destruct (returned_recorded s c ws' env i w' e1 HI (conj CL (conj CC CW)) AR AG EO N M) as (x & X & B & G).
           exists (w_res x). split; [|exact B]. eapply g_ret_grounds; eauto. }
      all: destruct (NT i w' N) as (d & w & sch & tr & _ & Nw & WE);
        assert (NR : forall bb, ws_main w <> Returned bb) by (intros bb Rb; rewrite (wexec_returned _ _ _ _ _ _ _ WE Rb) in M; discriminate M);
        specialize (CW i w Nw);
        assert (G : s_g (fst c) i = GF) by (destruct (ws_main w); auto; exfalso; eapply NR; reflexivity);
        (eapply gf_grounds; [exact GR|exact HI1|]); apply gf_run; auto;
        intros Hin; destruct EO as (E1 & _); destruct (E1 _ Hin) as [X|(i' & w'' & bb & X & N' & R')]; [discriminate X|];
        inversion X; subst i'; rewrite N in N'; inversion N'; subst w''; rewrite M in R'; discriminate R'.
  Qed.
End Refine.

(* ---------- the start: the caller has executed its Go statements ---------- *)

Lemma repeat_two : forall (t : tid) k, repeat t (2 * S k) = (repeat t (2 * k) ++ [t; t])%list.
Proof. intros t k. replace (2 * S k) with (2 * k + 2) by lia. apply repeat_app. Qed.

Lemma spawn_prefix : forall sc k, k <= length sc ->
  s_c (fst (exec sc (repeat TC (2 * k)))) = next_c sc k /\
  (forall i, i < k -> s_g (fst (exec sc (repeat TC (2 * k)))) i = GF) /\
  s_ctx (fst (exec sc (repeat TC (2 * k)))) = None.
Proof.
  induction k as [|k IH]; intros L.
  - simpl. repeat split. intros i Hi. lia.
  - rewrite repeat_two, exec_app. destruct IH as (C & G & X); [lia|].
    destruct (exec sc (repeat TC (2 * k))) as [s tr]. simpl in C, G, X.
    assert (CA : s_c s = CAdd k) by (rewrite C; unfold next_c; destruct (Nat.ltb_spec k (length sc)); [reflexivity|lia]).
    rewrite run_cons. erewrite step_some; [|unfold act; rewrite CA; reflexivity].
    rewrite run_cons. erewrite step_some; [|unfold act; simpl; reflexivity]. simpl. repeat split; auto.
    intros i Hi. unfold gupd. destruct (Nat.eqb_spec i k); [reflexivity|]. apply G. lia.
Qed.

Lemma coupled_start : forall K ds sc, length sc = length ds -> coupled sc (dinit K ds) (cstart sc).
Proof.
  intros K ds sc L. destruct (spawn_prefix sc (length sc) (le_n _)) as (_ & G & X). unfold cstart.
  split; [simpl; rewrite map_length; auto|]. split; [unfold ctx_done; rewrite X; reflexivity|].
  intros i w N. simpl in N. assert (Li : i < length sc).
  { rewrite L. rewrite <- (map_length (winit K) ds). apply nth_error_Some. rewrite N. discriminate. }
  rewrite nth_error_map in N. destruct (nth_error ds i); [|discriminate N]. inversion N; subst w. simpl. apply G. exact Li.
Qed.

Section Daemon.
  Variables (K : nat) (ds : list wdesc) (sc : script).
  Hypothesis Hlen : length sc = length ds.
  Hypothesis Hplain : plain sc.

  (* SIMULATION: every reachable state of the composite projects to a reachable state of Workers.v's daemon *)
  Lemma creach_sound : forall x, creach K ds sc x -> dreach K ds (fst x) /\ Inv sc (snd x) /\ coupled sc (fst x) (snd x).
  Proof.
    induction 1 as [|[s c] [s' c'] R [DR [HI CO]] CRD].
    - simpl. split; [constructor|]. split; [apply inv_exec | apply coupled_start; exact Hlen].
    - simpl in *. destruct (cround_dround ds sc Hplain s c s' c' HI CO CRD) as (D & HI' & CO').
      split; [econstructor; eauto | auto].
  Qed.

  Lemma crounds_drounds : forall n x y, crounds ds sc n x y -> Inv sc (snd x) -> coupled sc (fst x) (snd x) ->
    drounds ds n (fst x) (fst y) /\ Inv sc (snd y) /\ coupled sc (fst y) (snd y).
  Proof.
    induction 1 as [x|n [s c] [s1 c1] z CRD R IH]; intros HI CO.
    - split; [constructor|auto].
    - simpl in *. destruct (cround_dround ds sc Hplain s c s1 c1 HI CO CRD) as (D & HI' & CO').
      destruct (IH HI' CO') as (DS & HI'' & CO''). split; [econstructor; eauto | auto].
  Qed.

  (* [exited]: when every worker function has returned, Wait returns within nine fair rounds of the group's threads,
     with a non-nil error iff some worker function failed *)
  Lemma coupled_exit : forall s c c', Inv sc c -> coupled sc s c -> all_returned (d_ws s) = true -> erounds sc 9 c c' ->
    exists r, wait_result (fst c') = Some r /\ is_some r = any_failed (d_ws s).
  Proof.
    clear Hlen Hplain. intros s c c' HI (CL & CC & CW) AR R. pose proof (proj1 (all_returned_nth _) AR) as ARn.
    assert (A : allret sc (fst c)).
    { intros i Li. rewrite <- CL in Li. destruct (nth_error (d_ws s) i) as [w|] eqn:N; [|apply nth_error_None in N; lia].
      specialize (CW i w N). destruct (ARn i w N) as [b M]. rewrite M in CW. destruct CW as (r & G & _). rewrite G. discriminate. }
    destruct (deadlock_free_inv sc c c' HI A R) as [HI' WR].
    destruct (wait_result (fst c')) as [r|] eqn:W; [|contradiction]. exists r. split; [reflexivity|].
    destruct (wait_returns_inv sc c' r HI' W) as (_ & _ & _ & NIL & _).
    destruct HI as [I _].
    destruct (any_failed (d_ws s)) eqn:F.
    - apply any_failed_nth in F. destruct F as (i & w & N & M). specialize (CW i w N). rewrite M in CW.
      destruct CW as (r0 & G & B). destruct r0 as [e|]; [|discriminate B].
      destruct (i_results sc _ I i _ G) as (x & X & Rx).
      destruct r; [reflexivity|]. rewrite (proj1 NIL eq_refl i x X) in Rx. discriminate Rx.
    - destruct r as [e|]; [exfalso|reflexivity].
      assert (AN : forall i x, nth_error sc i = Some x -> w_res x = None).
      { intros i x X. assert (Li : i < length (d_ws s)) by (rewrite CL; apply nth_error_Some; rewrite X; discriminate).
        destruct (nth_error (d_ws s) i) as [w|] eqn:N; [|apply nth_error_None in N; lia].
        specialize (CW i w N). destruct (ARn i w N) as [b M]. rewrite M in CW. destruct CW as (r0 & G & B).
        destruct (i_results sc _ I i _ G) as (x' & X' & Rx). rewrite X in X'. inversion X'; subst x'. rewrite Rx.
        destruct r0 as [e0|]; [|reflexivity]. exfalso.
        assert (any_failed (d_ws s) = true); [|congruence]. apply any_failed_nth. exists i, w. split; [exact N|].
        simpl in B. subst b. exact M. }
      apply (proj2 NIL) in AN. discriminate AN.
  Qed.

  (* C08's fail-stop theorem, resting on the errgroup machine instead of a stated rule *)
  Theorem errgroup_fail_stop : Forall desc_ok ds -> forall x, creach K ds sc x ->
    (forall y, cround ds sc x y -> any_failed (d_ws (fst y)) = true -> ctx_done (snd y) = true) /\
    (ctx_done (snd x) = true -> forall n y, cancel_bound K <= n -> crounds ds sc n x y ->
       all_returned (d_ws (fst y)) = true /\
       forall c', erounds sc 9 (snd y) c' ->
         exists r, wait_result (fst c') = Some r /\ is_some r = any_failed (d_ws (fst y)) /\
                   (any_failed (d_ws (fst x)) = true -> is_some r = true)).
  Proof.
    intros HD [s c] CRX. destruct (creach_sound _ CRX) as (DR & HI & CO). simpl in *.
    destruct (fail_stop K ds HD s DR) as [F1 F2]. split.
    - intros [s1 c1] CRD AF. simpl in *. destruct (cround_dround ds sc Hplain s c s1 c1 HI CO CRD) as (D & _ & (_ & CC & _)).
      rewrite <- CC. apply (F1 s1 D AF).
    - intros CD n [s' c'] Hn CRS. simpl. destruct (crounds_drounds n _ _ CRS HI CO) as (DS & HI' & CO'). simpl in *.
      destruct CO as (_ & CC & _). rewrite <- CC in CD.
      destruct (F2 CD n s' Hn DS) as (st & EX & FS). unfold exited in EX.
      destruct (all_returned (d_ws s')) eqn:AR; [|discriminate EX]. split; [reflexivity|].
      intros c'' R. destruct (coupled_exit s' c' c'' HI' CO' AR R) as (r & W & B). exists r. split; [exact W|]. split; [exact B|].
      intros AF. specialize (FS AF). subst st. rewrite B. destruct (any_failed (d_ws s')); [reflexivity|]. inversion EX.
  Qed.
End Daemon.
