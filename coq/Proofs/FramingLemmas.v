(* Proofs about the pipe-framing model (C12). *)
From Coq Require Import Ascii String List Bool Arith Lia.
Import ListNotations.
From AM Require Import Lib.Bytes Model.Framing.

(* ---------- the specification side: frames / records / tail ---------- *)

Lemma frames_concat d bs : bs = concat (records d bs) ++ tail d bs.
Proof.
  unfold records, tail. induction bs as [|c r IH]; [reflexivity|].
  cbn [frames]. destruct (frames d r) as [rs t]. cbn [fst snd] in IH.
  destruct (Ascii.eqb c d).
  - cbn. f_equal. exact IH.
  - destruct rs as [|x xs]; cbn in *; f_equal; exact IH.
Qed.

Lemma tail_no_delim d bs : ~ In d (tail d bs).
Proof.
  unfold tail. induction bs as [|c r IH]; [intros []|].
  cbn [frames]. destruct (frames d r) as [rs t]. cbn [snd] in IH.
  destruct (Ascii.eqb_spec c d) as [->|Hne].
  - exact IH.
  - destruct rs as [|x xs]; cbn [snd]; [|exact IH].
    intros [Hc|Ht]; [apply Hne; exact Hc|apply IH; exact Ht].
Qed.

Definition well_terminated (d : ascii) (r : str) : Prop := exists b, r = b ++ [d] /\ ~ In d b.

Lemma records_shape_all d bs : Forall (well_terminated d) (records d bs).
Proof.
  unfold records. induction bs as [|c r IH]; [constructor|].
  cbn [frames]. destruct (frames d r) as [rs t]. cbn [fst] in IH.
  destruct (Ascii.eqb_spec c d) as [->|Hne]; cbn [fst].
  - constructor; [|exact IH]. exists []. split; [reflexivity|intros []].
  - destruct rs as [|x xs]; [constructor|].
    inversion IH as [|x' xs' Hx Hxs]; subst. constructor; [|exact Hxs].
    destruct Hx as (b & -> & Hb). exists (c :: b). split; [reflexivity|].
    intros [Hc|Hin]; [apply Hne; exact Hc|apply Hb; exact Hin].
Qed.

Lemma records_shape d bs r : In r (records d bs) -> well_terminated d r.
Proof. intros H. exact (proj1 (Forall_forall _ _) (records_shape_all d bs) r H). Qed.

Lemma frames_no_delim d t : ~ In d t -> frames d t = ([], t).
Proof.
  induction t as [|c r IH]; intros Hn; [reflexivity|].
  cbn [frames]. rewrite IH by (intros H; apply Hn; right; exact H).
  destruct (Ascii.eqb_spec c d) as [->|Hne]; [exfalso; apply Hn; left; reflexivity|reflexivity].
Qed.

Lemma frames_body d b rest : ~ In d b ->
  frames d (b ++ d :: rest) = (terminate d b :: fst (frames d rest), snd (frames d rest)).
Proof.
  unfold terminate. induction b as [|c r IH]; intros Hn.
  - cbn [app frames]. rewrite Ascii.eqb_refl. destruct (frames d rest); reflexivity.
  - cbn [app frames]. rewrite IH by (intros H; apply Hn; right; exact H).
    destruct (Ascii.eqb_spec c d) as [->|Hne]; [exfalso; apply Hn; left; reflexivity|reflexivity].
Qed.

Lemma frame_cons d b bodies t : frame d (b :: bodies) t = b ++ d :: frame d bodies t.
Proof. unfold frame, terminate. cbn [map concat]. rewrite <- !app_assoc. reflexivity. Qed.

(* uniqueness: a stream built from delimiter-free bodies and a delimiter-free tail has exactly
   those records and that tail *)
Lemma frames_frame d bodies t :
  (forall b, In b bodies -> ~ In d b) -> ~ In d t ->
  frames d (frame d bodies t) = (map (terminate d) bodies, t).
Proof.
  intros Hb Ht. induction bodies as [|b bodies IH].
  - unfold frame. cbn. apply frames_no_delim. exact Ht.
  - rewrite frame_cons, frames_body by (apply Hb; left; reflexivity).
    rewrite IH by (intros b' H; apply Hb; right; exact H). reflexivity.
Qed.

Lemma records_frame d bodies t :
  (forall b, In b bodies -> ~ In d b) -> ~ In d t ->
  records d (frame d bodies t) = map (terminate d) bodies.
Proof. intros Hb Ht. unfold records. rewrite frames_frame by assumption. reflexivity. Qed.

Lemma tail_frame d bodies t :
  (forall b, In b bodies -> ~ In d b) -> ~ In d t -> tail d (frame d bodies t) = t.
Proof. intros Hb Ht. unfold tail. rewrite frames_frame by assumption. reflexivity. Qed.

Lemma strip1_terminate d b : strip1 d (terminate d b) = b.
Proof.
  unfold terminate. induction b as [|c b IH].
  - cbn. rewrite Ascii.eqb_refl. reflexivity.
  - cbn [app strip1]. destruct (b ++ [d]) as [|a l] eqn:E.
    + destruct b; discriminate E.
    + f_equal. exact IH.
Qed.

(* existence: every stream is such a frame *)
Lemma stream_decompose d bs :
  exists bodies t, bs = frame d bodies t /\ (forall b, In b bodies -> ~ In d b) /\ ~ In d t /\
                   records d bs = map (terminate d) bodies /\ tail d bs = t.
Proof.
  exists (map (strip1 d) (records d bs)), (tail d bs).
  assert (Hmap : map (terminate d) (map (strip1 d) (records d bs)) = records d bs).
  { pose proof (records_shape_all d bs) as Hs. induction Hs as [|r rs Hr Hrs IH]; [reflexivity|].
    cbn [map]. rewrite IH. destruct Hr as (b & -> & _).
    change (b ++ [d]) with (terminate d b). rewrite strip1_terminate. reflexivity. }
  split; [|split; [|split; [|split]]].
  - unfold frame. rewrite Hmap. apply frames_concat.
  - intros b Hin. apply in_map_iff in Hin. destruct Hin as (r & <- & Hr).
    apply records_shape in Hr. destruct Hr as (b & -> & Hb).
    change (b ++ [d]) with (terminate d b). rewrite strip1_terminate. exact Hb.
  - apply tail_no_delim.
  - symmetry. exact Hmap.
  - reflexivity.
Qed.

Lemma stream_shape d bs :
  (exists bodies t, bs = frame d bodies t /\ (forall b, In b bodies -> ~ In d b) /\ ~ In d t /\
                    records d bs = map (terminate d) bodies /\ tail d bs = t) /\
  (forall bodies t, (forall b, In b bodies -> ~ In d b) -> ~ In d t -> bs = frame d bodies t ->
                    records d bs = map (terminate d) bodies /\ tail d bs = t).
Proof.
  split; [exact (stream_decompose d bs)|].
  intros bodies t Hb Ht ->. split; [exact (records_frame d bodies t Hb Ht)|exact (tail_frame d bodies t Hb Ht)].
Qed.

(* ---------- ReadString ---------- *)

Lemma cut_frames d bs l q : cut d bs = Some (l, q) ->
  frames d bs = (l :: fst (frames d q), snd (frames d q)).
Proof.
  revert l q. induction bs as [|c r IH]; intros l q H; [discriminate H|].
  cbn [cut] in H. cbn [frames]. destruct (Ascii.eqb c d).
  - injection H as <- <-. destruct (frames d r); reflexivity.
  - destruct (cut d r) as [[l' q']|] eqn:E; [|discriminate H].
    injection H as <- <-. rewrite (IH l' q' eq_refl). reflexivity.
Qed.

Lemma cut_none_frames d bs : cut d bs = None -> frames d bs = ([], bs).
Proof.
  induction bs as [|c r IH]; intros H; [reflexivity|].
  cbn [cut] in H. cbn [frames]. destruct (Ascii.eqb c d); [discriminate H|].
  destruct (cut d r) as [[l' q']|]; [discriminate H|]. rewrite IH by reflexivity. reflexivity.
Qed.

Lemma cut_split d bs l q : cut d bs = Some (l, q) -> bs = l ++ q /\ 1 <= length l.
Proof.
  revert l q. induction bs as [|c r IH]; intros l q H; [discriminate H|].
  cbn [cut] in H. destruct (Ascii.eqb c d).
  - injection H as <- <-. split; [reflexivity|cbn; lia].
  - destruct (cut d r) as [[l' q']|] eqn:E; [|discriminate H].
    injection H as <- <-. destruct (IH l' q' eq_refl) as [-> Hl]. split; [reflexivity|cbn; lia].
Qed.

Lemma cut_app_some d a b l q : cut d a = Some (l, q) -> cut d (a ++ b) = Some (l, q ++ b).
Proof.
  revert l q. induction a as [|c r IH]; intros l q H; [discriminate H|].
  cbn [cut app] in *. destruct (Ascii.eqb c d).
  - injection H as <- <-. reflexivity.
  - destruct (cut d r) as [[l' q']|] eqn:E; [|discriminate H].
    injection H as <- <-. rewrite (IH l' q' eq_refl). reflexivity.
Qed.

Lemma read_string_nil d buf :
  read_string d buf [] =
  match cut d buf with Some (l, rest) => RdLine l rest [] | None => RdEOF buf end.
Proof. reflexivity. Qed.

Lemma read_string_cons d buf c cs :
  read_string d buf (c :: cs) =
  match cut d buf with Some (l, rest) => RdLine l rest (c :: cs) | None => read_string d (buf ++ c) cs end.
Proof. reflexivity. Qed.

(* what ReadString returns, in terms of the whole remaining stream buf ++ concat cs *)
Lemma read_string_spec d cs : forall buf,
  match read_string d buf cs with
  | RdLine l rest cs' => cut d (buf ++ concat cs) = Some (l, rest ++ concat cs')
  | RdEOF b => cut d (buf ++ concat cs) = None /\ b = buf ++ concat cs
  end.
Proof.
  induction cs as [|c cs IH]; intros buf.
  - rewrite read_string_nil. cbn [concat]. rewrite app_nil_r.
    destruct (cut d buf) as [[l rest]|] eqn:E.
    + rewrite app_nil_r. reflexivity.
    + split; reflexivity.
  - rewrite read_string_cons. destruct (cut d buf) as [[l rest]|] eqn:E.
    + apply cut_app_some. exact E.
    + specialize (IH (buf ++ c)). cbn [concat].
      destruct (read_string d (buf ++ c) cs) as [l rest cs'|b]; rewrite <- app_assoc in IH; exact IH.
Qed.

(* ---------- the loop ---------- *)

Lemma loop_spec d cb : forall fuel k buf cs,
  length buf + length (concat cs) < fuel ->
  loop fuel d cb k buf cs = deliver cb k (records d (buf ++ concat cs)).
Proof.
  induction fuel as [|f IH]; intros k buf cs Hf; [lia|].
  cbn [loop]. pose proof (read_string_spec d cs buf) as R.
  destruct (read_string d buf cs) as [l rest cs'|b].
  - pose proof (cut_frames _ _ _ _ R) as F. pose proof (cut_split _ _ _ _ R) as [Hs Hl].
    unfold records. rewrite F. cbn [fst deliver]. destruct (cb k l); [|reflexivity].
    rewrite IH; [reflexivity|].
    apply (f_equal (@length ascii)) in Hs. rewrite !app_length in Hs. lia.
  - destruct R as [R _]. unfold records. rewrite (cut_none_frames _ _ R). reflexivity.
Qed.

Lemma ingest_records cs d cb : ingest cs d cb = deliver cb 0 (records d (concat cs)).
Proof. unfold ingest. rewrite loop_spec; [reflexivity|cbn; lia]. Qed.

Theorem chunk_independent : forall cs d cb, ingest cs d cb = ingest [concat cs] d cb.
Proof. intros cs d cb. rewrite !ingest_records. cbn [concat]. rewrite app_nil_r. reflexivity. Qed.

(* ---------- delivery ---------- *)

(* the callback accepts every record of l, l starting at call index k *)
Definition ok_all (cb : callback) (k : nat) (l : list str) : Prop :=
  forall i x, nth_error l i = Some x -> cb (k + i) x = true.

Lemma ok_all_cons cb k a l : cb k a = true -> ok_all cb (S k) l -> ok_all cb k (a :: l).
Proof.
  intros Ha Hl [|i] x H; cbn in H.
  - injection H as <-. rewrite Nat.add_0_r. exact Ha.
  - replace (k + S i) with (S k + i) by lia. apply Hl. exact H.
Qed.

Lemma deliver_cases cb : forall rs k,
  (ok_all cb k rs /\ deliver cb k rs = (rs, RetEOF)) \/
  (exists pre r post, rs = pre ++ r :: post /\ ok_all cb k pre /\ cb (k + length pre) r = false /\
                      deliver cb k rs = (pre ++ [r], RetCallbackErr (k + length pre))).
Proof.
  induction rs as [|a rs IH]; intros k.
  - left. split; [|reflexivity]. intros [|i] x H; discriminate H.
  - cbn [deliver]. destruct (cb k a) eqn:E.
    + destruct (IH (S k)) as [[Hok Hd]|(pre & r & post & -> & Hok & Hf & Hd)]; rewrite Hd.
      * left. split; [|reflexivity]. apply ok_all_cons; assumption.
      * right. exists (a :: pre), r, post. cbn [length].
        replace (k + S (length pre)) with (S k + length pre) by lia.
        split; [reflexivity|]. split; [apply ok_all_cons; assumption|]. split; [exact Hf|reflexivity].
    + right. exists [], a, rs. cbn [length app]. rewrite Nat.add_0_r.
      split; [reflexivity|]. split; [intros [|i] x H; discriminate H|]. split; [exact E|reflexivity].
Qed.

Theorem ingest_spec : forall bs d cb,
  let rs := records d bs in
  (ok_all cb 0 rs /\ ingest [bs] d cb = (rs, RetEOF)) \/
  (exists pre r post, rs = pre ++ r :: post /\ ok_all cb 0 pre /\ cb (length pre) r = false /\
                      ingest [bs] d cb = (pre ++ [r], RetCallbackErr (length pre))).
Proof.
  intros bs d cb rs. rewrite ingest_records. cbn [concat]. rewrite app_nil_r. fold rs.
  exact (deliver_cases cb rs 0).
Qed.

(* same statement for any chunking *)
Theorem ingest_chunks_spec : forall cs d cb,
  let rs := records d (concat cs) in
  (ok_all cb 0 rs /\ ingest cs d cb = (rs, RetEOF)) \/
  (exists pre r post, rs = pre ++ r :: post /\ ok_all cb 0 pre /\ cb (length pre) r = false /\
                      ingest cs d cb = (pre ++ [r], RetCallbackErr (length pre))).
Proof. intros cs d cb. rewrite chunk_independent. apply ingest_spec. Qed.

Lemma deliver_fail_at : forall rs j k, j <= k ->
  deliver (fail_at k) j rs =
  if k - j <? length rs then (firstn (S (k - j)) rs, RetCallbackErr k) else (rs, RetEOF).
Proof.
  induction rs as [|a rs IH]; intros j k Hjk; [reflexivity|].
  cbn [deliver]. unfold fail_at at 1. destruct (Nat.eqb_spec j k) as [->|Hne]; cbn [negb].
  - rewrite Nat.sub_diag. reflexivity.
  - rewrite IH by lia. replace (k - j) with (S (k - S j)) by lia.
    cbn [length]. change (S (k - S j) <? S (length rs)) with (k - S j <? length rs).
    destruct (k - S j <? length rs); reflexivity.
Qed.

Lemma deliver_never_fail : forall rs k, deliver never_fail k rs = (rs, RetEOF).
Proof. induction rs as [|a rs IH]; intros k; [reflexivity|]. cbn [deliver never_fail]. unfold never_fail in IH. rewrite IH. reflexivity. Qed.

(* ---------- corollaries ---------- *)

Theorem ingest_never_out_of_fuel : forall cs d cb, snd (ingest cs d cb) <> RetOutOfFuel.
Proof.
  intros cs d cb.
  destruct (ingest_chunks_spec cs d cb) as [[_ ->]|(pre & r & post & _ & _ & _ & ->)]; discriminate.
Qed.

(* what was delivered is an initial segment of the stream's records ... *)
Theorem delivered_prefix_records : forall cs d cb,
  exists post, records d (concat cs) = fst (ingest cs d cb) ++ post.
Proof.
  intros cs d cb.
  destruct (ingest_chunks_spec cs d cb) as [[_ ->]|(pre & r & post & E & _ & _ & ->)]; cbn [fst].
  - exists []. rewrite app_nil_r. reflexivity.
  - exists post. rewrite E, <- app_assoc. reflexivity.
Qed.

(* ... hence, concatenated (delimiters included), a prefix of the stream *)
Theorem delivered_prefix_stream : forall cs d cb,
  exists rest, concat cs = concat (fst (ingest cs d cb)) ++ rest.
Proof.
  intros cs d cb. destruct (delivered_prefix_records cs d cb) as [post E].
  exists (concat post ++ tail d (concat cs)).
  rewrite (frames_concat d (concat cs)) at 1. rewrite E, concat_app, <- app_assoc. reflexivity.
Qed.

(* each delivered record ends with the delimiter and contains no other *)
Theorem delivered_shape : forall cs d cb r,
  In r (fst (ingest cs d cb)) -> exists b, r = b ++ [d] /\ ~ In d b.
Proof.
  intros cs d cb r Hin. destruct (delivered_prefix_records cs d cb) as [post E].
  apply (records_shape d (concat cs)). rewrite E. apply in_or_app. left. exact Hin.
Qed.

(* Ingest returns end-of-stream exactly when the callback accepted every record, and then
   everything terminated was delivered; it returns the k-th call's error exactly when k is the
   first record the callback refuses, and then exactly k+1 records were delivered *)
Theorem ingest_ret : forall cs d cb,
  let rs := records d (concat cs) in
  (snd (ingest cs d cb) = RetEOF <-> ok_all cb 0 rs) /\
  (snd (ingest cs d cb) = RetEOF -> fst (ingest cs d cb) = rs) /\
  (forall k, snd (ingest cs d cb) = RetCallbackErr k ->
     fst (ingest cs d cb) = firstn (S k) rs /\ k < length rs /\
     (exists r, nth_error rs k = Some r /\ cb k r = false) /\
     (forall i x, i < k -> nth_error rs i = Some x -> cb i x = true)).
Proof.
  intros cs d cb rs.
  destruct (ingest_chunks_spec cs d cb) as [[Hok E]|(pre & r & post & Ers & Hok & Hf & E)];
    fold rs in Hok, E |- *; try fold rs in Ers; rewrite E; cbn [fst snd].
  - split; [split; [intros _; exact Hok|reflexivity]|]. split; [reflexivity|]. intros k H; discriminate H.
  - assert (Hnth : nth_error rs (length pre) = Some r).
    { rewrite Ers, nth_error_app2, Nat.sub_diag by lia. reflexivity. }
    split; [split; [intros H; discriminate H|]|].
    + intros Hall. specialize (Hall (length pre) r Hnth). cbn in Hall. congruence.
    + split; [intros H; discriminate H|]. intros k [= <-].
      split; [|split; [|split]].
      * rewrite Ers. replace (S (length pre)) with (length (pre ++ [r])) by (rewrite app_length; cbn; lia).
        change (r :: post) with ([r] ++ post). rewrite app_assoc, firstn_app, firstn_all, Nat.sub_diag.
        cbn [firstn]. rewrite app_nil_r. reflexivity.
      * rewrite Ers, app_length. cbn. lia.
      * exists r. split; [exact Hnth|exact Hf].
      * intros i x Hi Hx. apply (Hok i x). rewrite Ers, nth_error_app1 in Hx by exact Hi. exact Hx.
Qed.

(* the explicit form: a stream made of bodies, each followed by the delimiter, then a tail *)
Theorem ingest_framed : forall d bodies t cs cb,
  (forall b, In b bodies -> ~ In d b) -> ~ In d t ->
  concat cs = frame d bodies t ->
  ingest cs d cb = deliver cb 0 (map (terminate d) bodies).
Proof.
  intros d bodies t cs cb Hb Ht E. rewrite ingest_records, E, records_frame by assumption. reflexivity.
Qed.

Theorem ingest_framed_never_fail : forall d bodies t cs,
  (forall b, In b bodies -> ~ In d b) -> ~ In d t ->
  concat cs = frame d bodies t ->
  ingest cs d never_fail = (map (terminate d) bodies, RetEOF).
Proof.
  intros d bodies t cs Hb Ht E. rewrite (ingest_framed d bodies t) by assumption. apply deliver_never_fail.
Qed.

Theorem ingest_framed_fail_at : forall d bodies t cs k,
  (forall b, In b bodies -> ~ In d b) -> ~ In d t ->
  concat cs = frame d bodies t ->
  ingest cs d (fail_at k) =
  if k <? length bodies then (map (terminate d) (firstn (S k) bodies), RetCallbackErr k)
  else (map (terminate d) bodies, RetEOF).
Proof.
  intros d bodies t cs k Hb Ht E. rewrite (ingest_framed d bodies t) by assumption.
  rewrite deliver_fail_at by lia. rewrite Nat.sub_0_r, map_length, firstn_map. reflexivity.
Qed.

(* the unterminated tail is never delivered: the delivered bytes never reach into it *)
Theorem tail_never_delivered : forall cs d cb,
  exists rest, concat cs = concat (fst (ingest cs d cb)) ++ rest ++ tail d (concat cs) /\
               ~ In d (tail d (concat cs)).
Proof.
  intros cs d cb. destruct (delivered_prefix_records cs d cb) as [post E].
  exists (concat post). split; [|apply tail_no_delim].
  rewrite (frames_concat d (concat cs)) at 1. rewrite E, concat_app, <- app_assoc. reflexivity.
Qed.
