(* Lifecycle of one session on the specification machine, lifted to the correlator:
   exactly-once/in-order (C02), ended sessions and PID reuse (C09), cleanup window (C16). *)
From Coq Require Import List Bool Arith ZArith NArith Lia.
Import ListNotations.
From AM Require Import Lib.Assoc Model.Tracker Proofs.TrackerBasics Proofs.TrackerInv Proofs.TrackerSpec.

Local Notation NS := N.eqb_spec.
Local Notation ZS := Z.eqb_spec.

Section Life.
  Variable s : N.
  Variable p : Z.

  Notation phase := (phase).
  Notation pstep := (pstep s p).
  Notation allowed := (allowed s p).
  Notation rel := (rel s p).
  Notation projs := (projs s).
  Notation ev_of_s := (ev_of_s s).
  Notation is_rec_p := (is_rec_p p).
  Notation login_p := (login_p p).

  Fixpoint prun (ph : phase) (h : list top) : phase * list emitted :=
    match h with
    | [] => (ph, [])
    | o :: r => let '(ph1, o1) := pstep ph o in let '(ph2, o2) := prun ph1 r in (ph2, o1 ++ o2)
    end.

  Fixpoint allowed_run (ph : phase) (h : list top) : Prop :=
    match h with
    | [] => True
    | o :: r => allowed ph o /\ allowed_run (fst (pstep ph o)) r
    end.

  Lemma prun_app ph h1 h2 :
    prun ph (h1 ++ h2) =
    let '(ph1, o1) := prun ph h1 in let '(ph2, o2) := prun ph1 h2 in (ph2, o1 ++ o2).
  Proof.
    revert ph. induction h1 as [|o r IH]; intros ph; cbn.
    - destruct (prun ph h2). reflexivity.
    - destruct (pstep ph o) as [ph1 o1]. rewrite IH.
      destruct (prun ph1 r) as [ph2 o2]. destruct (prun ph2 h2) as [ph3 o3].
      rewrite app_assoc. reflexivity.
  Qed.

  Lemma allowed_run_app ph h1 h2 :
    allowed_run ph (h1 ++ h2) <-> allowed_run ph h1 /\ allowed_run (fst (prun ph h1)) h2.
  Proof.
    revert ph. induction h1 as [|o r IH]; intros ph; cbn; [tauto|].
    destruct (pstep ph o) as [ph1 o1] eqn:E. cbn [fst]. rewrite IH.
    destruct (prun ph1 r) as [ph2 o2]. cbn [fst]. tauto.
  Qed.

  (* ---------- the correlator refines the machine along whole runs ---------- *)

  Lemma refine_run h0 st ph h st' out :
    Inv h0 st -> wb st = None -> rel ph st -> allowed_run ph h -> trun st h = (st', out) ->
    rel (fst (prun ph h)) st' /\ projs out = snd (prun ph h) /\ wb st' = None /\ Inv (h0 ++ h) st'.
  Proof.
    revert h0 st ph st' out. induction h as [|o r IH]; intros h0 st ph st' out HI Hwb Hrel Hal H; cbn in H.
    - injection H as <- <-. cbn. rewrite app_nil_r. tauto.
    - destruct (tstep st o) as [[st1 o1] res] eqn:Es. destruct (trun st1 r) as [st2 o2] eqn:Er.
      injection H as <- <-. destruct Hal as [Ha Har].
      destruct (refine_step s p h0 st ph o st1 o1 res HI Hwb Hrel Ha Es) as (R1 & P1 & W1).
      destruct (step_inv _ _ _ _ _ _ HI Es) as [HI1 _].
      destruct (IH _ _ _ _ _ HI1 W1 R1 Har Er) as (R2 & P2 & W2 & HI2).
      cbn [prun]. destruct (pstep ph o) as [ph1 po1]. cbn [fst snd] in *.
      destruct (prun ph1 r) as [ph2 po2]. cbn [fst snd] in *.
      split; [exact R2|]. split; [|split; [exact W2|]].
      + rewrite (projs_app s). congruence.
      + replace (h0 ++ o :: r) with ((h0 ++ [o]) ++ r) by (rewrite <- app_assoc; reflexivity). exact HI2.
  Qed.

  (* from any reachable state in which neither half of (s, p) is waiting *)
  Theorem refine_from A B :
    rel PClean (final A) -> allowed_run PClean B ->
    projs (outs (A ++ B)) = projs (outs A) ++ snd (prun PClean B) /\
    rel (fst (prun PClean B)) (final (A ++ B)).
  Proof.
    intros Hrel Hal. unfold outs, final in *. rewrite trun_app.
    destruct (trun (tinit None) A) as [stA oA] eqn:EA. cbn [fst snd] in *.
    destruct (trun stA B) as [stB oB] eqn:EB. cbn [fst snd].
    destruct (trun_inv [] _ _ _ _ (Inv_init None) EA) as [HIA _]. cbn in HIA.
    assert (HwA : wb stA = None) by (eapply trun_wb_none; [|exact EA]; reflexivity).
    destruct (refine_run A stA PClean B stB oB HIA HwA Hrel Hal EB) as (R & P & _ & _).
    split; [|exact R]. rewrite (projs_app s). congruence.
  Qed.

  Lemma rel_clean_init : rel PClean (tinit None).
  Proof. cbn. repeat split. intros s' u' []. Qed.

  Corollary refine_init h :
    allowed_run PClean h ->
    projs (outs h) = snd (prun PClean h) /\ rel (fst (prun PClean h)) (final h).
  Proof.
    intros Hal. destruct (refine_from [] h) as [H1 H2]; [exact rel_clean_init|exact Hal|].
    cbn [app] in *. unfold outs at 2 in H1. cbn in H1. tauto.
  Qed.

  (* ---------- history functions used by the statements ---------- *)

  Definition ev_s (o : top) : list aev :=
    match o with Audit ev _ => if ev_of_s ev then [ev] else [] | _ => [] end.

  Definition events_of_s (h : list top) : list aev := flat_map ev_s h.

  Definition is_rec (o : top) : bool :=
    match o with Audit ev _ => ev_of_s ev && is_rec_p ev | _ => false end.

  Definition is_login_p (o : top) : bool :=
    match o with RemoteLogin l _ => login_p l | _ => false end.

  (* events of s from its LOGIN record (pid p) on *)
  Fixpoint events_from_rec (h : list top) : list aev :=
    match h with
    | [] => []
    | o :: r => if is_rec o then events_of_s (o :: r) else events_from_rec r
    end.

  Definition rec_seen (h : list top) : bool := existsb is_rec h.
  Definition login_seen (h : list top) : bool := existsb is_login_p h.

  Fixpoint take_until_disp (l : list aev) : list aev :=
    match l with
    | [] => []
    | e :: r => if is_disp (a_type e) then [e] else e :: take_until_disp r
    end.

  Lemma events_of_s_snoc h o : events_of_s (h ++ [o]) = events_of_s h ++ ev_s o.
  Proof. unfold events_of_s. rewrite flat_map_app. cbn. rewrite app_nil_r. reflexivity. Qed.

  Lemma is_rec_ev_s o : is_rec o = true -> exists ev now, o = Audit ev now /\ ev_s o = [ev].
  Proof.
    destruct o as [| ev now| |]; cbn; try discriminate. intros H. apply andb_true_iff in H.
    destruct H as [H _]. exists ev, now. rewrite H. tauto.
  Qed.

  Lemma events_from_rec_snoc h o :
    events_from_rec (h ++ [o]) =
    if rec_seen h then events_from_rec h ++ ev_s o else if is_rec o then ev_s o else [].
  Proof.
    induction h as [|x r IH]; cbn [app events_from_rec rec_seen existsb].
    - destruct (is_rec o) eqn:E; [|reflexivity]. cbn. rewrite app_nil_r. reflexivity.
    - destruct (is_rec x) eqn:Ex; cbn [orb].
      + change (x :: r ++ [o]) with ((x :: r) ++ [o]). rewrite events_of_s_snoc. reflexivity.
      + exact IH.
  Qed.

  Lemma rec_seen_snoc h o : rec_seen (h ++ [o]) = rec_seen h || is_rec o.
  Proof. unfold rec_seen. rewrite existsb_app. cbn. rewrite orb_false_r. reflexivity. Qed.

  Lemma login_seen_snoc h o : login_seen (h ++ [o]) = login_seen h || is_login_p o.
  Proof. unfold login_seen. rewrite existsb_app. cbn. rewrite orb_false_r. reflexivity. Qed.

  Lemma has_disp_app a b : has_disp (a ++ b) = has_disp a || has_disp b.
  Proof. unfold has_disp. apply existsb_app. Qed.

  Lemma tud_bound l k : has_disp (firstn k l) = true -> length (take_until_disp l) <= k.
  Proof.
    revert k. induction l as [|e r IH]; intros k H; cbn.
    - lia.
    - destruct k as [|k]; [cbn in H; discriminate|]. cbn in H.
      destruct (is_disp (a_type e)); cbn; [lia|]. cbn in H. specialize (IH k H). lia.
  Qed.

  Lemma tud_nodisp l : has_disp l = false -> take_until_disp l = l.
  Proof.
    induction l as [|e r IH]; cbn; [reflexivity|]. intros H. apply orb_false_iff in H. destruct H as [H1 H2].
    rewrite H1. f_equal. apply IH. exact H2.
  Qed.

  Lemma firstn_app_le {A} k (a b : list A) : k <= length a -> firstn k (a ++ b) = firstn k a.
  Proof. intros H. rewrite firstn_app. replace (k - length a) with 0 by lia. cbn. apply app_nil_r. Qed.

  (* cleanup calls that do not discard the waiting half *)
  Definition keeps (ph : phase) (o : top) : Prop :=
    match o, ph with
    | CleanSess t, PHeld a _ => (t <= a)%Z
    | CleanLogins t, PParked l => (t <= l_at l)%Z
    | _, _ => True
    end.

  Fixpoint keeps_run (ph : phase) (h : list top) : Prop :=
    match h with
    | [] => True
    | o :: r => keeps ph o /\ keeps_run (fst (pstep ph o)) r
    end.

  Lemma keeps_run_app ph h1 h2 :
    keeps_run ph (h1 ++ h2) <-> keeps_run ph h1 /\ keeps_run (fst (prun ph h1)) h2.
  Proof.
    revert ph. induction h1 as [|o r IH]; intros ph; cbn; [tauto|].
    destruct (pstep ph o) as [ph1 o1] eqn:E. cbn [fst]. rewrite IH.
    destruct (prun ph1 r) as [ph2 o2]. cbn [fst]. tauto.
  Qed.

  (* ---------- invariant of the machine along a run without discards ---------- *)

  Definition J (ph : phase) (out : list emitted) (h : list top) : Prop :=
    match ph with
    | PClean => rec_seen h = false /\ login_seen h = false /\ out = []
    | PHeld a evs => rec_seen h = true /\ login_seen h = false /\ evs = events_from_rec h /\ out = []
    | PParked l => rec_seen h = false /\ login_seen h = true /\ out = [] /\ In_login l h /\ login_p l = true
    | PBound l =>
        rec_seen h = true /\ login_seen h = true /\ out = map (pair l) (events_from_rec h) /\
        has_disp (events_from_rec h) = false /\ In_login l h /\ login_p l = true
    | PEnded =>
        rec_seen h = true /\ login_seen h = true /\
        exists l k, out = map (pair l) (firstn k (events_from_rec h)) /\
                    has_disp (firstn k (events_from_rec h)) = true /\ k <= length (events_from_rec h) /\
                    In_login l h /\ login_p l = true
    end.

  Lemma In_login_snoc l h o : In_login l h -> In_login l (h ++ [o]).
  Proof. apply In_login_mono. apply incl_snoc. Qed.

  Lemma efr_none h : rec_seen h = false -> events_from_rec h = [].
  Proof.
    induction h as [|x r IH]; cbn; [reflexivity|]. intros H. apply orb_false_iff in H. destruct H as [H1 H2].
    rewrite H1. apply IH. exact H2.
  Qed.

  Lemma efr_unchanged h o :
    is_rec o = false -> rec_seen h = false \/ ev_s o = [] ->
    events_from_rec (h ++ [o]) = events_from_rec h.
  Proof.
    intros Hr Hc. rewrite events_from_rec_snoc. destruct (rec_seen h) eqn:E.
    - destruct Hc as [Hc|Hc]; [discriminate|]. rewrite Hc. apply app_nil_r.
    - rewrite Hr. symmetry. apply efr_none. exact E.
  Qed.

  Lemma J_same ph out h o :
    is_rec o = false -> is_login_p o = false -> rec_seen h = false \/ ev_s o = [] ->
    J ph out h -> J ph out (h ++ [o]).
  Proof.
    intros Hr Hl Hc HJ.
    assert (E1 : rec_seen (h ++ [o]) = rec_seen h) by (rewrite rec_seen_snoc, Hr; apply orb_false_r).
    assert (E2 : login_seen (h ++ [o]) = login_seen h) by (rewrite login_seen_snoc, Hl; apply orb_false_r).
    pose proof (efr_unchanged h o Hr Hc) as E3.
    destruct ph as [|a evs|l0|l0|]; cbn [J] in *; rewrite E1, E2, ?E3.
    - exact HJ.
    - exact HJ.
    - destruct HJ as (H1 & H2 & H3 & H4 & H5). repeat split; try assumption. apply In_login_snoc. exact H4.
    - destruct HJ as (H1 & H2 & H3 & H4 & H5 & H6). repeat split; try assumption. apply In_login_snoc. exact H5.
    - destruct HJ as (H1 & H2 & l1 & k & H3 & H4 & H5 & H6 & H7). split; [exact H1|]. split; [exact H2|].
      exists l1, k. repeat split; try assumption. apply In_login_snoc. exact H6.
  Qed.

  Lemma J_step ph out h o :
    J ph out h -> allowed ph o -> keeps ph o ->
    J (fst (pstep ph o)) (out ++ snd (pstep ph o)) (h ++ [o]).
  Proof.
    intros HJ Hal Hk.
    destruct o as [l c|ev now|t|t].
    - (* RemoteLogin *)
      cbn [pstep]. destruct (login_p l) eqn:El.
      + assert (Hil : In_login l (h ++ [RemoteLogin l c])) by (exists c; apply in_snoc_last).
        assert (E : events_from_rec (h ++ [RemoteLogin l c]) = events_from_rec h)
          by (apply efr_unchanged; [reflexivity|right; reflexivity]).
        assert (E1 : rec_seen (h ++ [RemoteLogin l c]) = rec_seen h)
          by (rewrite rec_seen_snoc; apply orb_false_r).
        assert (E2 : login_seen (h ++ [RemoteLogin l c]) = true)
          by (rewrite login_seen_snoc; cbn; rewrite El; apply orb_true_r).
        destruct ph as [|a evs|l0|l0|]; cbn [J fst snd allowed] in *.
        * destruct HJ as (H1 & H2 & ->). rewrite E1, E2. cbn [app]. tauto.
        * destruct HJ as (H1 & H2 & -> & ->). cbn [app].
          destruct (has_disp (events_from_rec h)) eqn:Ed; cbn [J fst snd app]; rewrite E1, E2, E.
          -- split; [exact H1|]. split; [reflexivity|]. exists l, (length (events_from_rec h)).
             rewrite firstn_all. repeat split; auto.
          -- tauto.
        * congruence.
        * destruct HJ as (H1 & H2 & -> & H4 & H5 & H6). rewrite E1, E2, E, app_nil_r.
          repeat split; try assumption. apply In_login_snoc. exact H5.
        * destruct HJ as (H1 & H2 & l1 & k & -> & H4 & H5 & H6 & H7). rewrite E1, E2, E, app_nil_r.
          split; [exact H1|]. split; [reflexivity|]. exists l1, k. repeat split; try assumption.
          apply In_login_snoc. exact H6.
      + cbn [fst snd]. rewrite app_nil_r. apply J_same; [reflexivity|exact El|right; reflexivity|exact HJ].
    - (* Audit *)
      cbn [pstep]. destruct (ev_of_s ev) eqn:Eev.
      2:{ cbn [fst snd]. rewrite app_nil_r. apply J_same; [cbn; rewrite Eev; reflexivity|reflexivity| |exact HJ].
          right. cbn. rewrite Eev. reflexivity. }
      assert (Hes : ev_s (Audit ev now) = [ev]) by (cbn; rewrite Eev; reflexivity).
      assert (E2 : login_seen (h ++ [Audit ev now]) = login_seen h)
        by (rewrite login_seen_snoc; apply orb_false_r).
      assert (Hir : is_rec (Audit ev now) = is_rec_p ev) by (cbn; rewrite Eev; reflexivity).
      destruct ph as [|a evs|l0|l0|]; cbn [J] in HJ.
      + destruct HJ as (H1 & H2 & ->). destruct (is_rec_p ev) eqn:Er; cbn [fst snd J].
        * rewrite rec_seen_snoc, E2, Hir, events_from_rec_snoc, H1, Hir, Hes. cbn. tauto.
        * rewrite app_nil_r. apply (J_same PClean [] h (Audit ev now)); [exact Hir|reflexivity|left; exact H1|]. cbn. tauto.
      + destruct HJ as (H1 & H2 & -> & ->). cbn [fst snd J].
        rewrite rec_seen_snoc, E2, H1, events_from_rec_snoc, H1, Hes. cbn. tauto.
      + destruct HJ as (H1 & H2 & -> & H4 & H5). destruct (is_rec_p ev) eqn:Er; cbn [fst snd J].
        * rewrite rec_seen_snoc, E2, Hir, events_from_rec_snoc, H1, Hir, Hes. cbn.
          assert (Hd : is_disp (a_type ev) = false).
          { unfold TrackerSpec.is_rec_p in Er. apply andb_true_iff in Er. destruct Er as [Er _].
            destruct (a_type ev); cbn in *; congruence. }
          rewrite Hd. cbn. repeat split; try assumption. apply In_login_snoc. exact H4.
        * rewrite app_nil_r. apply (J_same (PParked l0) [] h (Audit ev now)); [exact Hir|reflexivity|left; exact H1|]. cbn. tauto.
      + destruct HJ as (H1 & H2 & -> & H4 & H5 & H6).
        assert (E : events_from_rec (h ++ [Audit ev now]) = events_from_rec h ++ [ev])
          by (rewrite events_from_rec_snoc, H1, Hes; reflexivity).
        assert (Ho : map (pair l0) (events_from_rec h) ++ [(l0, ev)] = map (pair l0) (events_from_rec h ++ [ev]))
          by (rewrite map_app; reflexivity).
        destruct (is_disp (a_type ev)) eqn:Ed; cbn [fst snd J]; rewrite rec_seen_snoc, E2, H1.
        * split; [reflexivity|]. split; [exact H2|]. exists l0, (length (events_from_rec h ++ [ev])).
          rewrite E, firstn_all. split; [rewrite map_app; reflexivity|]. split.
          -- rewrite has_disp_app. cbn. rewrite Ed. apply orb_true_r.
          -- split; [lia|]. split; [apply In_login_snoc; exact H5|exact H6].
        * rewrite E. split; [reflexivity|]. split; [exact H2|]. split; [rewrite map_app; reflexivity|]. split.
          -- rewrite has_disp_app, H4. cbn. rewrite Ed. reflexivity.
          -- split; [apply In_login_snoc; exact H5|exact H6].
      + destruct HJ as (H1 & H2 & l1 & k & -> & H4 & H5 & H6 & H7). cbn [fst snd J].
        rewrite app_nil_r, rec_seen_snoc, E2, H1.
        split; [reflexivity|]. split; [exact H2|]. exists l1, k.
        rewrite events_from_rec_snoc, H1, Hes, (firstn_app_le k _ _ H5). split; [reflexivity|]. split; [exact H4|].
        split; [rewrite app_length; lia|]. split; [apply In_login_snoc; exact H6|exact H7].
    - (* CleanSess *)
      assert (Hsame : fst (pstep ph (CleanSess t)) = ph /\ snd (pstep ph (CleanSess t)) = []).
      { destruct ph as [|a evs|l0|l0|]; cbn in *; try tauto.
        destruct (Z.ltb_spec a t); [lia|]. tauto. }
      destruct Hsame as [-> ->]. rewrite app_nil_r.
      apply J_same; [reflexivity|reflexivity|right; reflexivity|exact HJ].
    - (* CleanLogins *)
      assert (Hsame : fst (pstep ph (CleanLogins t)) = ph /\ snd (pstep ph (CleanLogins t)) = []).
      { destruct ph as [|a evs|l0|l0|]; cbn in *; try tauto.
        destruct (Z.ltb_spec (l_at l0) t); [lia|]. tauto. }
      destruct Hsame as [-> ->]. rewrite app_nil_r.
      apply J_same; [reflexivity|reflexivity|right; reflexivity|exact HJ].
  Qed.

  Lemma J_run ph out h0 h :
    J ph out h0 -> allowed_run ph h -> keeps_run ph h ->
    J (fst (prun ph h)) (out ++ snd (prun ph h)) (h0 ++ h).
  Proof.
    revert ph out h0. induction h as [|o r IH]; intros ph out h0 HJ Hal Hk; cbn.
    - rewrite !app_nil_r. exact HJ.
    - destruct Hal as [Ha Har]. destruct Hk as [Hk Hkr].
      pose proof (J_step ph out h0 o HJ Ha Hk) as HJ1.
      destruct (pstep ph o) as [ph1 o1]. cbn [fst snd] in *.
      specialize (IH ph1 (out ++ o1) (h0 ++ [o]) HJ1 Har Hkr).
      destruct (prun ph1 r) as [ph2 o2]. cbn [fst snd] in *.
      rewrite <- (app_assoc h0 [o] r) in IH. cbn [app] in IH. rewrite <- (app_assoc out o1 o2) in IH. exact IH.
  Qed.

  (* ---------- C02 on the machine, then on the correlator ---------- *)

  Theorem machine_once_in_order h :
    allowed_run PClean h -> keeps_run PClean h ->
    let out := snd (prun PClean h) in
    let E := events_from_rec h in
    (rec_seen h && login_seen h = false -> out = []) /\
    (rec_seen h && login_seen h = true ->
       exists l k, In_login l h /\ login_p l = true /\
                   out = map (pair l) (firstn k E) /\ length (take_until_disp E) <= k /\ k <= length E).
  Proof.
    intros Hal Hk. cbn zeta.
    assert (HJ0 : J PClean [] []) by (cbn; tauto).
    pose proof (J_run PClean [] [] h HJ0 Hal Hk) as HJ. cbn [app] in HJ.
    destruct (fst (prun PClean h)) as [|a evs|l0|l0|]; cbn [J] in HJ.
    - destruct HJ as (H1 & H2 & H3). rewrite H1. cbn. split; [intros _; exact H3|discriminate].
    - destruct HJ as (H1 & H2 & _ & H4). rewrite H1, H2. cbn. split; [intros _; exact H4|discriminate].
    - destruct HJ as (H1 & H2 & H3 & _). rewrite H1. cbn. split; [intros _; exact H3|discriminate].
    - destruct HJ as (H1 & H2 & H3 & H4 & H5 & H6). rewrite H1, H2. cbn. split; [discriminate|]. intros _.
      exists l0, (length (events_from_rec h)). rewrite firstn_all.
      repeat split; try assumption. rewrite (tud_nodisp _ H4). lia. lia.
    - destruct HJ as (H1 & H2 & l1 & k & H3 & H4 & H5 & H6 & H7). rewrite H1, H2. cbn. split; [discriminate|].
      intros _. exists l1, k. repeat split; try assumption. apply tud_bound. exact H4.
  Qed.

  Theorem once_in_order h :
    allowed_run PClean h -> keeps_run PClean h ->
    let out := projs (outs h) in
    let E := events_from_rec h in
    (rec_seen h && login_seen h = false -> out = []) /\
    (rec_seen h && login_seen h = true ->
       exists l k, In_login l h /\ login_p l = true /\
                   out = map (pair l) (firstn k E) /\ length (take_until_disp E) <= k /\ k <= length E).
  Proof.
    intros Hal Hk. destruct (refine_init h Hal) as [-> _]. apply machine_once_in_order; assumption.
  Qed.
End Life.

(* ---------- declarative sufficient conditions for [allowed_run] and [keeps_run] ---------- *)
Section Declarative.
  Variable s : N.
  Variable p : Z.

  Notation is_rec := (is_rec s p).
  Notation is_login_p := (is_login_p p).

  (* a LOGIN-type record of session s with a parsable pid *)
  Definition login_rec_of_s (o : top) : bool :=
    match o with
    | Audit ev _ => ev_of_s s ev && is_login (a_type ev) && match a_pid ev with Some _ => true | None => false end
    | _ => false
    end.

  Definition opens_other_session (o : top) : bool :=
    match o with Audit ev _ => other_rec s p ev | _ => false end.

  (* The uniqueness discipline of C01 seen from (s, p), as a predicate on the history alone:
     - LOGIN records of s carry pid p;                 (session ids identify one sshd process)
     - there is at most one of them;                   (session ids are not reused)
     - no other session's LOGIN record carries pid p;  (pids are not reused)
     - at most one valid login with pid p is delivered (each sshd pid logs in once). *)
  Record wf_session (h : list top) : Prop := {
    wf_pid : forall o, In o h -> login_rec_of_s o = true -> is_rec o = true;
    wf_one_rec : length (filter is_rec h) <= 1;
    wf_no_other : forall o, In o h -> opens_other_session o = false;
    wf_one_login : length (filter is_login_p h) <= 1
  }.

  Lemma rec_seen_count h : rec_seen s p h = true -> 1 <= length (filter is_rec h).
  Proof.
    unfold rec_seen. induction h as [|o r IH]; cbn; [discriminate|].
    destruct (is_rec o); cbn; [lia|exact IH].
  Qed.

  Lemma login_seen_count h : login_seen p h = true -> 1 <= length (filter is_login_p h).
  Proof.
    unfold login_seen. induction h as [|o r IH]; cbn; [discriminate|].
    destruct (is_login_p o); cbn; [lia|exact IH].
  Qed.

  (* which phase implies which half has been seen *)
  Definition K (ph : TrackerSpec.phase) (h : list top) : Prop :=
    match ph with
    | PClean => True
    | PHeld _ _ | PBound _ | PEnded => rec_seen s p h = true
    | PParked _ => login_seen p h = true
    end /\
    match ph with PBound _ | PEnded => True | _ => True end.

  Lemma K_step ph h o : K ph h -> K (fst (pstep s p ph o)) (h ++ [o]).
  Proof.
    intros [HK _]. split; [|destruct (fst (pstep s p ph o)); exact I].
    destruct o as [l c|ev now|t|t]; cbn [pstep].
    - destruct (login_p p l) eqn:El.
      + destruct ph as [|a evs|l0|l0|]; cbn [fst].
        * rewrite login_seen_snoc. cbn. rewrite El. apply orb_true_r.
        * destruct (has_disp evs); cbn; rewrite rec_seen_snoc, HK; reflexivity.
        * rewrite login_seen_snoc, HK. reflexivity.
        * rewrite rec_seen_snoc, HK. reflexivity.
        * rewrite rec_seen_snoc, HK. reflexivity.
      + cbn [fst]. destruct ph; try exact I; rewrite ?rec_seen_snoc, ?login_seen_snoc, HK; reflexivity.
    - destruct (ev_of_s s ev) eqn:Eev.
      + destruct ph as [|a evs|l0|l0|].
        * destruct (TrackerSpec.is_rec_p p ev) eqn:Er; cbn [fst]; [|exact I].
          rewrite rec_seen_snoc. cbn. rewrite Eev, Er. apply orb_true_r.
        * cbn [fst]. rewrite rec_seen_snoc, HK. reflexivity.
        * destruct (TrackerSpec.is_rec_p p ev) eqn:Er; cbn [fst].
          -- rewrite rec_seen_snoc. cbn. rewrite Eev, Er. apply orb_true_r.
          -- rewrite login_seen_snoc, HK. reflexivity.
        * destruct (is_disp (a_type ev)); cbn [fst]; rewrite rec_seen_snoc, HK; reflexivity.
        * cbn [fst]. rewrite rec_seen_snoc, HK. reflexivity.
      + cbn [fst]. destruct ph; try exact I; rewrite ?rec_seen_snoc, ?login_seen_snoc, HK; reflexivity.
    - destruct ph as [|a evs|l0|l0|]; cbn [fst]; try exact I; try (rewrite ?rec_seen_snoc, ?login_seen_snoc, HK; reflexivity).
      destruct (a <? t)%Z; cbn [fst]; [exact I|]. rewrite rec_seen_snoc, HK. reflexivity.
    - destruct ph as [|a evs|l0|l0|]; cbn [fst]; try exact I; try (rewrite ?rec_seen_snoc, ?login_seen_snoc, HK; reflexivity).
      destruct (l_at l0 <? t)%Z; cbn [fst]; [exact I|]. rewrite login_seen_snoc, HK. reflexivity.
  Qed.

  Lemma filter_snoc {A} (f : A -> bool) l x : filter f (l ++ [x]) = filter f l ++ (if f x then [x] else []).
  Proof. rewrite filter_app. cbn. destruct (f x); reflexivity. Qed.

  (* one step is allowed when the history extended by it is still well-formed *)
  Lemma allowed_from_wf ph h o : K ph h -> wf_session (h ++ [o]) -> TrackerSpec.allowed s p ph o.
  Proof.
    intros [HK _] [Hpid Hone Hno Hlog].
    assert (Hin : In o (h ++ [o])) by (apply in_or_app; right; left; reflexivity).
    destruct o as [l c|ev now|t|t]; cbn [TrackerSpec.allowed]; try exact I.
    - (* RemoteLogin *)
      destruct ph as [|a evs|l0|l0|]; try exact I.
      destruct (login_p p l) eqn:El; [|reflexivity]. exfalso.
      pose proof (login_seen_count h HK) as H1. rewrite filter_snoc, app_length in Hlog. cbn in Hlog.
      rewrite El in Hlog. cbn in Hlog. lia.
    - (* Audit *)
      destruct (ev_of_s s ev) eqn:Eev.
      + assert (Hrec : is_login (a_type ev) = true -> a_pid ev <> None -> TrackerSpec.is_rec_p p ev = true).
        { intros Ht Hp. specialize (Hpid _ Hin). unfold login_rec_of_s, TrackerLife.is_rec in Hpid.
          rewrite Eev, Ht in Hpid. cbn [andb] in Hpid.
          destruct (a_pid ev) as [q|] eqn:Eq; [|congruence]. apply Hpid. reflexivity. }
        assert (Hpidp : is_login (a_type ev) = true -> a_pid ev = None \/ a_pid ev = Some p).
        { intros Ht. destruct (a_pid ev) as [q|] eqn:Eq; [|left; reflexivity]. right.
          assert (Hr : TrackerSpec.is_rec_p p ev = true) by (apply Hrec; [exact Ht|congruence]).
          unfold TrackerSpec.is_rec_p in Hr. rewrite Ht, Eq in Hr. cbn in Hr. apply Z.eqb_eq in Hr. congruence. }
        destruct ph as [|a evs|l0|l0|]; try exact I; try exact Hpidp.
        (* PEnded: a second LOGIN record of s would be the second one *)
        destruct (is_login (a_type ev)) eqn:Ht; [|left; reflexivity].
        destruct (a_pid ev) as [q|] eqn:Eq; [|right; reflexivity]. exfalso.
        assert (Hr : TrackerSpec.is_rec_p p ev = true) by (apply Hrec; [reflexivity|congruence]).
        pose proof (rec_seen_count h HK) as H1. rewrite filter_snoc, app_length in Hone. cbn in Hone.
        rewrite Eev, Hr in Hone. cbn in Hone. lia.
      + specialize (Hno _ Hin). cbn in Hno. destruct ph; try exact I; exact Hno.
  Qed.

  Lemma wf_session_prefix h o : wf_session (h ++ [o]) -> wf_session h.
  Proof.
    intros [A B C D]. constructor.
    - intros x Hx. apply A. apply in_or_app. left. exact Hx.
    - rewrite filter_snoc, app_length in B. lia.
    - intros x Hx. apply C. apply in_or_app. left. exact Hx.
    - rewrite filter_snoc, app_length in D. lia.
  Qed.

  Lemma allowed_run_snoc ph h o :
    allowed_run s p ph (h ++ [o]) <-> allowed_run s p ph h /\ TrackerSpec.allowed s p (fst (prun s p ph h)) o.
  Proof. rewrite allowed_run_app. cbn. tauto. Qed.

  Lemma K_run h : K (fst (prun s p PClean h)) h.
  Proof.
    induction h as [|o h IH] using rev_ind; [split; exact I|].
    rewrite prun_app. destruct (prun s p PClean h) as [ph out]. cbn [fst] in *. cbn [prun].
    pose proof (K_step ph h o IH) as HK. destruct (pstep s p ph o) as [ph1 o1]. cbn [fst] in *. exact HK.
  Qed.

  (* the well-formed histories of C01 satisfy the side conditions of the refinement *)
  Theorem wf_session_allowed h : wf_session h -> allowed_run s p PClean h.
  Proof.
    induction h as [|o h IH] using rev_ind; intros Hwf; [exact I|].
    apply allowed_run_snoc. split; [apply IH; eapply wf_session_prefix; exact Hwf|].
    apply (allowed_from_wf _ h); [apply K_run|exact Hwf].
  Qed.

  (* ---------- no cleanup call discards a waiting half: a condition on the history alone ---------- *)

  (* every cleanup cut-off in the history is not later than the arrival time of the LOGIN record
     of s (for session cleanup) / the logged-at time of the login with pid p (for login cleanup) *)
  Definition no_late_cleanup (h : list top) : Prop :=
    (forall t ev now, In (CleanSess t) h -> In (Audit ev now) h -> is_rec (Audit ev now) = true -> (t <= now)%Z) /\
    (forall t l c, In (CleanLogins t) h -> In (RemoteLogin l c) h -> login_p p l = true -> (t <= l_at l)%Z).

  Definition Kt (ph : TrackerSpec.phase) (h : list top) : Prop :=
    match ph with
    | PHeld a _ => exists ev, In (Audit ev a) h /\ is_rec (Audit ev a) = true
    | PParked l => exists c, In (RemoteLogin l c) h /\ login_p p l = true
    | _ => True
    end.

  Lemma Kt_mono ph h o : Kt ph h -> Kt ph (h ++ [o]).
  Proof.
    destruct ph as [|a evs|l0|l0|]; cbn; try tauto.
    - intros (ev & H1 & H2). exists ev. split; [apply in_or_app; left; exact H1|exact H2].
    - intros (c & H1 & H2). exists c. split; [apply in_or_app; left; exact H1|exact H2].
  Qed.

  Lemma Kt_step ph h o : Kt ph h -> Kt (fst (pstep s p ph o)) (h ++ [o]).
  Proof.
    intros HK.
    assert (Hlast : In o (h ++ [o])) by (apply in_or_app; right; left; reflexivity).
    destruct o as [l c|ev now|t|t]; cbn [pstep].
    - destruct (login_p p l) eqn:El.
      + destruct ph as [|a evs|l0|l0|]; cbn [fst].
        * exists c. split; [exact Hlast|exact El].
        * destruct (has_disp evs); exact I.
        * apply Kt_mono. exact HK.
        * exact I.
        * exact I.
      + cbn [fst]. apply Kt_mono. exact HK.
    - destruct (ev_of_s s ev) eqn:Eev.
      + destruct ph as [|a evs|l0|l0|].
        * destruct (TrackerSpec.is_rec_p p ev) eqn:Er; cbn [fst]; [|exact I].
          exists ev. split; [exact Hlast|]. cbn. rewrite Eev, Er. reflexivity.
        * cbn [fst]. destruct HK as (e0 & H1 & H2). exists e0. split; [apply in_or_app; left; exact H1|exact H2].
        * destruct (TrackerSpec.is_rec_p p ev); cbn [fst]; [exact I|]. apply (Kt_mono (PParked l0)). exact HK.
        * destruct (is_disp (a_type ev)); exact I.
        * exact I.
      + cbn [fst]. apply Kt_mono. exact HK.
    - destruct ph as [|a evs|l0|l0|]; cbn [fst]; try exact I; try (apply Kt_mono; exact HK).
      destruct (a <? t)%Z; cbn [fst]; [exact I|]. apply (Kt_mono (PHeld a evs)). exact HK.
    - destruct ph as [|a evs|l0|l0|]; cbn [fst]; try exact I; try (apply Kt_mono; exact HK).
      destruct (l_at l0 <? t)%Z; cbn [fst]; [exact I|]. apply (Kt_mono (PParked l0)). exact HK.
  Qed.

  Lemma Kt_run h : Kt (fst (prun s p PClean h)) h.
  Proof.
    induction h as [|o h IH] using rev_ind; [exact I|].
    rewrite prun_app. destruct (prun s p PClean h) as [ph out]. cbn [fst] in *. cbn [prun].
    pose proof (Kt_step ph h o IH) as HK. destruct (pstep s p ph o) as [ph1 o1]. cbn [fst] in *. exact HK.
  Qed.

  Lemma keeps_run_snoc ph h o :
    keeps_run s p ph (h ++ [o]) <-> keeps_run s p ph h /\ keeps (fst (prun s p ph h)) o.
  Proof. rewrite keeps_run_app. cbn. tauto. Qed.

  Lemma no_late_prefix h o : no_late_cleanup (h ++ [o]) -> no_late_cleanup h.
  Proof.
    intros [A B]. split.
    - intros t ev now H1 H2 H3. apply (A t ev now); try (apply in_or_app; left); assumption.
    - intros t l c H1 H2 H3. apply (B t l c); try (apply in_or_app; left); assumption.
  Qed.

  Theorem no_late_cleanup_keeps h : no_late_cleanup h -> keeps_run s p PClean h.
  Proof.
    induction h as [|o h IH] using rev_ind; intros Hn; [exact I|].
    apply keeps_run_snoc. split; [apply IH; eapply no_late_prefix; exact Hn|].
    pose proof (Kt_run h) as HK. destruct Hn as [A B].
    assert (Hlast : In o (h ++ [o])) by (apply in_or_app; right; left; reflexivity).
    destruct o as [l c|ev now|t|t]; cbn [keeps]; try exact I;
      destruct (fst (prun s p PClean h)) as [|a evs|l0|l0|]; try exact I; cbn [Kt] in HK.
    - destruct HK as (e0 & H1 & H2). apply (A t e0 a); [exact Hlast|apply in_or_app; left; exact H1|exact H2].
    - destruct HK as (c & H1 & H2). apply (B t l0 c); [exact Hlast|apply in_or_app; left; exact H1|exact H2].
  Qed.
End Declarative.

Lemma hypotheses_from_history (s : N) (p : Z) (h : list top) :
  (wf_session s p h -> allowed_run s p PClean h) /\
  (no_late_cleanup s p h -> keeps_run s p PClean h).
Proof. split; [apply wf_session_allowed|apply no_late_cleanup_keeps]. Qed.

Lemma once_in_order_wf (s : N) (p : Z) (h : list top) :
  wf_session s p h -> no_late_cleanup s p h ->
  let out := projs s (outs h) in
  let E := events_from_rec s p h in
  (rec_seen s p h && login_seen p h = false -> out = []) /\
  (rec_seen s p h && login_seen p h = true ->
     exists l k, In_login l h /\ login_p p l = true /\
                 out = map (pair l) (firstn k E) /\ length (take_until_disp E) <= k /\ k <= length E).
Proof.
  intros Hw Hc. apply once_in_order; [apply wf_session_allowed|apply no_late_cleanup_keeps]; assumption.
Qed.
