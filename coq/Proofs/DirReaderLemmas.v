(* Proofs about Model/DirReader.v (C20). *)
From Coq Require Import Ascii String List Bool Arith NArith Lia Permutation Sorted.
Import ListNotations.
From AM Require Import Lib.Bytes Model.DirReader.

(* ------------------------------------------------------------------ lines *)

Lemma lines_app a b :
  lines (a ++ b) =
  (fst (lines a) ++ fst (lines (snd (lines a) ++ b)), snd (lines (snd (lines a) ++ b))).
Proof.
  induction a as [|c a IH].
  - cbn. destruct (lines b); reflexivity.
  - cbn [app lines]. rewrite IH. clear IH.
    destruct (lines a) as [la ta]. cbn [fst snd].
    destruct (is_nl c) eqn:Hc.
    + cbn [fst snd]. reflexivity.
    + destruct la as [|l la'].
      * cbn [fst snd app lines]. destruct (lines (ta ++ b)) as [lb tb]. cbn [fst snd].
        rewrite Hc. destruct lb; reflexivity.
      * cbn [fst snd app]. reflexivity.
Qed.

Lemma lines_join_inv s : join (fst (lines s)) ++ snd (lines s) = s.
Proof.
  induction s as [|c s IH]; [reflexivity|].
  cbn [lines]. destruct (lines s) as [ls tl]. cbn [fst snd] in IH.
  destruct (is_nl c) eqn:Hc.
  - cbn [fst snd join app]. unfold is_nl in Hc. apply Ascii.eqb_eq in Hc. subst c.
    rewrite IH. reflexivity.
  - destruct ls as [|l ls']; cbn [fst snd join app] in *.
    + rewrite IH. reflexivity.
    + rewrite <- IH. rewrite <- !app_assoc. reflexivity.
Qed.

Lemma lines_no_nl s :
  (forall l, In l (fst (lines s)) -> ~ In nl l) /\ ~ In nl (snd (lines s)).
Proof.
  induction s as [|c s [IH1 IH2]].
  - cbn. split; [intros l []|intros []].
  - cbn [lines]. destruct (lines s) as [ls tl]. cbn [fst snd] in *.
    destruct (is_nl c) eqn:Hc.
    + cbn [fst snd]. split; [|exact IH2].
      intros l [<-|Hl]; [intros []|apply IH1; exact Hl].
    + assert (Hne : c <> nl).
      { intros ->. unfold is_nl in Hc. rewrite Ascii.eqb_refl in Hc. discriminate. }
      destruct ls as [|l0 ls']; cbn [fst snd].
      * split; [intros l []|]. intros [H|H]; [congruence|exact (IH2 H)].
      * split; [|exact IH2]. intros l [<-|Hl].
        -- intros [H|H]; [congruence|]. exact (IH1 l0 (or_introl eq_refl) H).
        -- apply IH1. right. exact Hl.
Qed.

Lemma is_nl_false c : c <> nl -> is_nl c = false.
Proof. intros H. unfold is_nl. apply Ascii.eqb_neq. exact H. Qed.

(* no complete line before the newline has been written *)
Lemma lines_no_newline s : ~ In nl s -> lines s = ([], s).
Proof.
  induction s as [|c s IH]; intros Hs; [reflexivity|].
  cbn [lines]. rewrite IH by (intros H; apply Hs; right; exact H).
  rewrite is_nl_false; [reflexivity|]. intros ->. apply Hs. left. reflexivity.
Qed.

Lemma lines_first l s :
  ~ In nl l -> lines (l ++ nl :: s) = (l :: fst (lines s), snd (lines s)).
Proof.
  induction l as [|c l IH]; intros Hl.
  - cbn [app lines]. unfold is_nl. rewrite Ascii.eqb_refl. destruct (lines s); reflexivity.
  - cbn [app lines]. rewrite IH by (intros H; apply Hl; right; exact H).
    rewrite is_nl_false; [reflexivity|]. intros ->. apply Hl. left. reflexivity.
Qed.

(* [lines] is THE decomposition into newline-free lines and a newline-free rest *)
Lemma lines_unique ls tl :
  (forall l, In l ls -> ~ In nl l) -> ~ In nl tl -> lines (join ls ++ tl) = (ls, tl).
Proof.
  intros Hls Htl. induction ls as [|l ls IH].
  - cbn [join app]. apply lines_no_newline. exact Htl.
  - cbn [join]. rewrite <- app_assoc. cbn [app].
    rewrite lines_first by (apply Hls; left; reflexivity).
    rewrite IH by (intros x Hx; apply Hls; right; exact Hx). reflexivity.
Qed.

Lemma line_bytes_join ls : length (join ls) = line_bytes ls.
Proof.
  induction ls as [|l r IH]; [reflexivity|].
  cbn [join line_bytes]. rewrite app_length. cbn [length]. rewrite IH. lia.
Qed.

Lemma line_bytes_app a b : line_bytes (a ++ b) = line_bytes a + line_bytes b.
Proof. induction a as [|l r IH]; cbn [app line_bytes]; [reflexivity|]. rewrite IH. lia. Qed.

Lemma lines_length s : line_bytes (fst (lines s)) + length (snd (lines s)) = length s.
Proof.
  rewrite <- (lines_join_inv s) at 3. rewrite app_length, line_bytes_join. reflexivity.
Qed.

Lemma skipn_lines s : skipn (line_bytes (fst (lines s))) s = snd (lines s).
Proof.
  rewrite <- (lines_join_inv s) at 2. rewrite <- line_bytes_join.
  rewrite skipn_app, skipn_all, Nat.sub_diag. reflexivity.
Qed.

Lemma skipn_lines_app s b :
  skipn (line_bytes (fst (lines s))) (s ++ b) = snd (lines s) ++ b.
Proof.
  rewrite <- (lines_join_inv s) at 2. rewrite <- line_bytes_join, <- app_assoc.
  rewrite skipn_app, skipn_all, Nat.sub_diag. reflexivity.
Qed.

Lemma lines_rest_idem s : lines (snd (lines s)) = ([], snd (lines s)).
Proof.
  apply (lines_unique [] (snd (lines s))); [intros l []|apply lines_no_nl].
Qed.


(* ------------------------------------------------------------------ one event *)

Lemma on_event_write_append st live b :
  tail_inv st live ->
  on_event st (live ++ b) EvWrite =
    (RS (line_bytes (fst (lines (live ++ b)))) (length (live ++ b)),
     fst (lines (snd (lines live) ++ b))).
Proof.
  intros [Hoff Hsz]. unfold on_event, read_lines.
  assert (Hoff' : (if length (live ++ b) <? lastSz st then 0 else offset st) = offset st).
  { destruct (Nat.ltb_spec (length (live ++ b)) (lastSz st)) as [Hlt|]; [|reflexivity].
    destruct Hsz as [H0|[_ Hle]]; [symmetry; exact H0|].
    rewrite app_length in Hlt. lia. }
  rewrite Hoff', Hoff, skipn_lines_app.
  rewrite (lines_app live b). cbn [fst]. rewrite line_bytes_app. reflexivity.
Qed.

Lemma on_event_write_empty st live :
  tail_inv st live -> on_event st [] EvWrite = (RS 0 0, []).
Proof.
  intros [Hoff Hsz]. unfold on_event, read_lines. cbn [length].
  destruct (Nat.ltb_spec 0 (lastSz st)) as [Hlt|Hge].
  - reflexivity.
  - destruct Hsz as [H0|[Hpos _]]; [|lia]. rewrite H0. reflexivity.
Qed.

(* ------------------------------------------------------------------ one operation *)

Definition next_pend (pend : str) (o : op) : str :=
  match o with
  | Append b => snd (lines (pend ++ b))
  | Chmod => pend
  | _ => []
  end.

Definition step_out (pend : str) (o : op) : list str :=
  match o with
  | Append b => fst (lines (pend ++ b))
  | _ => []
  end.

Lemma step_correct st live o :
  tail_inv st live ->
  exists st',
    step st live o = (st', apply_op live o, step_out (snd (lines live)) o) /\
    tail_inv st' (apply_op live o) /\
    snd (lines (apply_op live o)) = next_pend (snd (lines live)) o.
Proof.
  intros Hinv. destruct o as [b| | | |]; unfold step; cbn [apply_op events_of on_events].
  - (* Append *)
    rewrite (on_event_write_append st live b Hinv). cbn [step_out next_pend].
    eexists. split; [rewrite app_nil_r; reflexivity|]. split.
    + unfold tail_inv. cbn [offset lastSz]. split; [reflexivity|].
      destruct (line_bytes (fst (lines (live ++ b)))) eqn:E; [left; reflexivity|right].
      pose proof (lines_length (live ++ b)) as HL. lia.
    + rewrite (lines_app live b). reflexivity.
  - (* Rotate *)
    cbn. eexists. split; [reflexivity|]. split; [|reflexivity].
    unfold tail_inv. cbn. split; [reflexivity|left; reflexivity].
  - (* Recreate *)
    cbn. eexists. split; [reflexivity|]. split; [|reflexivity].
    unfold tail_inv. cbn. split; [reflexivity|left; reflexivity].
  - (* Truncate *)
    rewrite (on_event_write_empty st live Hinv). cbn [step_out next_pend app].
    eexists. split; [reflexivity|]. split; [|reflexivity].
    unfold tail_inv. cbn. split; [reflexivity|left; reflexivity].
  - (* Chmod *)
    cbn. exists st. split; [reflexivity|]. split; [exact Hinv|reflexivity].
Qed.

(* ------------------------------------------------------------------ tailing *)

Lemma spec_steps_unfold pend o r :
  spec_steps pend (o :: r) = step_out pend o :: spec_steps (next_pend pend o) r.
Proof.
  destruct o as [b| | | |]; cbn [spec_steps step_out next_pend]; try reflexivity.
  destruct (lines (pend ++ b)); reflexivity.
Qed.

(* per operation: an Append delivers exactly the lines its bytes complete *)
Theorem tail_steps_correct : forall ops st live,
  tail_inv st live ->
  run_tail st live ops = spec_steps (snd (lines live)) ops.
Proof.
  induction ops as [|o r IH]; intros st live Hinv; [reflexivity|].
  destruct (step_correct st live o Hinv) as (st' & Hstep & Hinv' & Hpend).
  cbn [run_tail]. rewrite Hstep, spec_steps_unfold, <- Hpend.
  f_equal. apply IH. exact Hinv'.
Qed.

Lemma end_tail_inv : forall ops st live,
  tail_inv st live ->
  tail_inv (fst (end_tail st live ops)) (snd (end_tail st live ops)).
Proof.
  induction ops as [|o r IH]; intros st live Hinv; [exact Hinv|].
  destruct (step_correct st live o Hinv) as (st' & Hstep & Hinv' & _).
  cbn [end_tail]. rewrite Hstep. apply IH. exact Hinv'.
Qed.

Lemma run_tail_app : forall p q st live,
  run_tail st live (p ++ q) =
  run_tail st live p ++ run_tail (fst (end_tail st live p)) (snd (end_tail st live p)) q.
Proof.
  induction p as [|o r IH]; intros q st live; [reflexivity|].
  cbn [app run_tail end_tail]. destruct (step st live o) as [[st' live'] out].
  rewrite IH. reflexivity.
Qed.

(* the per-operation deliveries add up to the complete lines of every incarnation *)
Lemma spec_all_steps : forall ops cur,
  spec_all cur ops = fst (lines cur) ++ concat (spec_steps (snd (lines cur)) ops).
Proof.
  induction ops as [|o r IH]; intros cur.
  - cbn. rewrite app_nil_r. reflexivity.
  - destruct o as [b| | | |]; cbn [spec_all spec_steps].
    + rewrite IH, (lines_app cur b). cbn [fst snd].
      destruct (lines (snd (lines cur) ++ b)) as [lb tb]. cbn [fst snd concat].
      rewrite app_assoc. reflexivity.
    + rewrite IH. reflexivity.
    + rewrite IH. reflexivity.
    + rewrite IH. reflexivity.
    + rewrite IH. reflexivity.
Qed.

(* Everything ever delivered of audit.log — what start-up (or earlier tailing) delivered of
   the current file, then what tailing delivers — is exactly the complete lines of every
   incarnation of the file, in order, each once. *)
Theorem tail_correct : forall ops st live,
  tail_inv st live ->
  fst (lines live) ++ concat (run_tail st live ops) = spec_all live ops.
Proof.
  intros ops st live Hinv.
  rewrite (tail_steps_correct ops st live Hinv), spec_all_steps. reflexivity.
Qed.

(* ... and this holds at every moment: after any prefix of the operations exactly the lines
   completed so far have been delivered (none early, none late). *)
Theorem tail_correct_prefix : forall p q st live,
  tail_inv st live ->
  exists rest,
    concat (run_tail st live (p ++ q)) = concat (run_tail st live p) ++ rest /\
    fst (lines live) ++ concat (run_tail st live p) = spec_all live p.
Proof.
  intros p q st live Hinv. rewrite run_tail_app, concat_app.
  eexists. split; [reflexivity|]. apply tail_correct. exact Hinv.
Qed.

(* delivered lines carry no newline; a line is delivered only if its newline was written *)
Theorem tail_lines_clean : forall ops st live l,
  tail_inv st live -> In l (concat (run_tail st live ops)) -> ~ In nl l.
Proof.
  intros ops st live l Hinv. rewrite (tail_steps_correct ops st live Hinv).
  generalize (snd (lines live)). induction ops as [|o r IH]; intros pend; [intros []|].
  rewrite spec_steps_unfold. cbn [concat]. rewrite in_app_iff. intros [H|H]; [|exact (IH _ H)].
  destruct o as [b| | | |]; cbn [step_out] in H; try destruct H.
  exact (proj1 (lines_no_nl (pend ++ b)) l H).
Qed.

(* one incarnation: appends only.  The lines are those of the concatenated bytes, however the
   bytes were cut into appends. *)
Lemma spec_all_appends : forall bs cur,
  spec_all cur (map Append bs) = fst (lines (cur ++ concat bs)).
Proof.
  induction bs as [|b r IH]; intros cur; cbn [map spec_all concat].
  - rewrite app_nil_r. reflexivity.
  - rewrite IH, app_assoc. reflexivity.
Qed.

Lemma spec_all_app : forall p q cur,
  (forall o, In o p -> exists b, o = Append b \/ o = Chmod) ->
  spec_all cur (p ++ q) =
  spec_all (fold_left apply_op p cur) q.
Proof.
  induction p as [|o r IH]; intros q cur Hp; [reflexivity|].
  destruct (Hp o (or_introl eq_refl)) as [b [->| ->]]; cbn [app spec_all fold_left apply_op];
    apply IH; intros o' Ho'; apply Hp; right; exact Ho'.
Qed.

(* ------------------------------------------------------------------ sorting *)

Lemma insert_perm a l : Permutation (insert a l) (a :: l).
Proof.
  induction l as [|b r IH]; cbn [insert]; [apply Permutation_refl|].
  destruct (before a b); [apply Permutation_refl|].
  eapply perm_trans; [apply perm_skip; exact IH|apply perm_swap].
Qed.

Lemma isort_perm l : Permutation (isort l) l.
Proof.
  induction l as [|a r IH]; cbn [isort]; [apply perm_nil|].
  eapply perm_trans; [apply insert_perm|apply perm_skip; exact IH].
Qed.

Definition logs (l : list name) : Prop := forall a, In a l -> is_log a = true.

Lemma before_total a b : is_log a = true -> is_log b = true -> before a b = false -> before b a = true.
Proof.
  destruct a as [|x|], b as [|y|]; cbn; try discriminate; try reflexivity.
  intros _ _ H. apply Nat.leb_gt in H. apply Nat.leb_le. lia.
Qed.

Lemma before_trans a b c :
  is_log a = true -> is_log b = true -> is_log c = true ->
  before a b = true -> before b c = true -> before a c = true.
Proof.
  destruct a as [|x|], b as [|y|], c as [|z|]; cbn; try discriminate; try reflexivity.
  intros _ _ _ H1 H2. apply Nat.leb_le in H1, H2. apply Nat.leb_le. lia.
Qed.

Definition beforeP (a b : name) : Prop := before a b = true.

Lemma insert_sorted a l :
  is_log a = true -> logs l ->
  StronglySorted beforeP l -> StronglySorted beforeP (insert a l).
Proof.
  intros Ha Hl Hs. induction l as [|b r IH]; cbn [insert].
  - constructor; [constructor|constructor].
  - assert (Hb : is_log b = true) by (apply Hl; left; reflexivity).
    assert (Hr : logs r) by (intros x Hx; apply Hl; right; exact Hx).
    inversion Hs as [|? ? Hsr Hall]; subst.
    destruct (before a b) eqn:Hab.
    + constructor; [exact Hs|]. constructor; [exact Hab|].
      rewrite Forall_forall in *. intros x Hx.
      apply (before_trans a b x Ha Hb (Hr x Hx) Hab). apply Hall. exact Hx.
    + constructor; [apply IH; assumption|].
      rewrite Forall_forall in *. intros x Hx.
      apply (Permutation_in _ (insert_perm a r)) in Hx. destruct Hx as [<-|Hx].
      * apply before_total; assumption.
      * apply Hall. exact Hx.
Qed.

Lemma isort_sorted l : logs l -> StronglySorted beforeP (isort l).
Proof.
  intros Hl. induction l as [|a r IH]; cbn [isort]; [constructor|].
  assert (Hr : logs r) by (intros x Hx; apply Hl; right; exact Hx).
  apply insert_sorted.
  - apply Hl. left. reflexivity.
  - intros x Hx. apply Hr. apply (Permutation_in _ (isort_perm r)). exact Hx.
  - apply IH. exact Hr.
Qed.

Lemma filter_logs l : logs (filter is_log l).
Proof. intros a Ha. apply filter_In in Ha. apply Ha. Qed.

Lemma before_strict a b :
  is_log a = true -> is_log b = true -> a <> b -> before a b = true -> older a b.
Proof.
  destruct a as [|x|], b as [|y|]; cbn; try discriminate; try congruence; try (intros; exact I).
  intros _ _ Hne H. apply Nat.leb_le in H.
  assert (x <> y) by congruence. lia.
Qed.

Lemma StronglySorted_strict (l : list name) :
  logs l -> NoDup l -> StronglySorted beforeP l -> StronglySorted older l.
Proof.
  intros Hl Hnd Hs. induction Hs as [|a r Hsr IH Hall]; [constructor|].
  inversion Hnd as [|? ? Hnotin Hnd']; subst.
  assert (Hr : logs r) by (intros x Hx; apply Hl; right; exact Hx).
  constructor; [apply IH; assumption|].
  rewrite Forall_forall in *. intros x Hx.
  apply before_strict.
  - apply Hl. left. reflexivity.
  - apply Hr. exact Hx.
  - intros ->. exact (Hnotin Hx).
  - apply Hall. exact Hx.
Qed.

Lemma sort_names_in l a : In a (sort_names l) <-> In a l /\ a <> Other.
Proof.
  unfold sort_names. assert (Hp := isort_perm (filter is_log l)). split.
  - intros Ha. apply (Permutation_in _ Hp) in Ha. apply filter_In in Ha.
    destruct Ha as [Ha Hlog]. split; [exact Ha|]. intros ->. discriminate.
  - intros [Ha Hne]. apply (Permutation_in _ (Permutation_sym Hp)). apply filter_In.
    split; [exact Ha|]. destruct a; [reflexivity|reflexivity|congruence].
Qed.

(* The names to read are exactly the audit logs of the directory (everything else is dropped),
   ordered: larger suffix number first — numerically, for any numbers — and audit.log last. *)
Theorem sort_correct : forall l : list name,
  NoDup l ->
  Permutation (sort_names l) (filter is_log l) /\
  StronglySorted older (sort_names l) /\
  (forall a, In a (sort_names l) <-> In a l /\ a <> Other).
Proof.
  intros l Hnd. unfold sort_names.
  assert (Hp := isort_perm (filter is_log l)).
  split; [exact Hp|]. split.
  - apply StronglySorted_strict.
    + intros x Hx. apply (filter_logs l). apply (Permutation_in _ Hp). exact Hx.
    + apply (Permutation_NoDup (Permutation_sym Hp)). apply NoDup_filter. exact Hnd.
    + apply isort_sorted. apply filter_logs.
  - intros a. split.
    + intros Ha. apply (Permutation_in _ Hp) in Ha. apply filter_In in Ha.
      destruct Ha as [Ha Hlog]. split; [exact Ha|]. intros ->. discriminate.
    + intros [Ha Hne]. apply (Permutation_in _ (Permutation_sym Hp)). apply filter_In.
      split; [exact Ha|]. destruct a; [reflexivity|reflexivity|congruence].
Qed.

(* the explicit shape: the rotated files by strictly descending number, then audit.log *)
Lemma older_sorted_shape (l : list name) :
  logs l -> StronglySorted older l ->
  exists ns, l = map Rot ns ++ (if existsb (name_eqb Live) l then [Live] else []) /\
             StronglySorted (fun x y => y < x) ns.
Proof.
  intros Hl Hs. induction Hs as [|a r Hsr IH Hall].
  - exists []. split; [reflexivity|constructor].
  - assert (Hr' : logs r) by (intros x Hx; apply Hl; right; exact Hx).
    destruct (IH Hr') as (ns & Hr & Hns). rewrite Forall_forall in Hall.
    destruct a as [|x|].
    + destruct r as [|b r']; [exists []; split; [reflexivity|constructor]|].
      exfalso. exact (Hall b (or_introl eq_refl)).
    + exists (x :: ns). cbn [map app existsb name_eqb orb]. split.
      * rewrite Hr at 1. reflexivity.
      * constructor; [exact Hns|]. rewrite Forall_forall. intros y Hy.
        assert (Hin : In (Rot y) r).
        { rewrite Hr. apply in_or_app. left. apply in_map. exact Hy. }
        exact (Hall (Rot y) Hin).
    + exfalso. specialize (Hl Other (or_introl eq_refl)). discriminate.
Qed.

Theorem sort_shape : forall l : list name,
  NoDup l ->
  exists ns,
    sort_names l = map Rot ns ++ (if existsb (name_eqb Live) l then [Live] else []) /\
    StronglySorted (fun x y => y < x) ns /\
    (forall n, In n ns <-> In (Rot n) l).
Proof.
  intros l Hnd. destruct (sort_correct l Hnd) as (Hp & Hs & Hin).
  assert (Hlogs : logs (sort_names l)).
  { intros x Hx. apply (filter_logs l). apply (Permutation_in _ Hp). exact Hx. }
  destruct (older_sorted_shape (sort_names l) Hlogs Hs) as (ns & Heq & Hns).
  assert (Hlive : existsb (name_eqb Live) (sort_names l) = existsb (name_eqb Live) l).
  { apply eq_true_iff_eq. rewrite !existsb_exists. split; intros (x & Hx & Hxl).
    - exists x. split; [apply Hin; exact Hx|exact Hxl].
    - exists x. split; [|exact Hxl]. apply Hin. split; [exact Hx|].
      intros ->. discriminate. }
  exists ns. split; [rewrite <- Hlive; exact Heq|]. split; [exact Hns|].
  intros n. split.
  - intros Hn. apply (Hin (Rot n)). rewrite Heq. apply in_or_app. left. apply in_map. exact Hn.
  - intros Hn. assert (H : In (Rot n) (sort_names l)) by (apply Hin; split; [exact Hn|discriminate]).
    rewrite Heq in H. apply in_app_or in H. destruct H as [H|H].
    + apply in_map_iff in H. destruct H as (m & [= ->] & Hm). exact Hm.
    + destruct (existsb (name_eqb Live) (sort_names l)); [destruct H as [H|[]]; discriminate|destruct H].
Qed.

(* ------------------------------------------------------------------ start-up *)

Definition init_inv (names : list name) (st : rstate) (live : str) : Prop :=
  In Live names \/ tail_inv st live.

Lemma read_initial_correct d : forall names st,
  (~ In Live names -> tail_inv st (content d Live)) ->
  snd (read_initial d st names) = map (fun a => fst (lines (content d a))) names /\
  tail_inv (fst (read_initial d st names)) (content d Live).
Proof.
  induction names as [|a r IH]; intros st Hst.
  - cbn. split; [reflexivity|]. apply Hst. intros [].
  - cbn [read_initial]. unfold read_lines.
    set (st1 := if name_eqb a Live then _ else st).
    assert (H1 : ~ In Live r -> tail_inv st1 (content d Live)).
    { intros Hr. subst st1. destruct a as [|x|]; cbn [name_eqb].
      - unfold tail_inv, startup_lastsz. cbn [offset lastSz]. split; [reflexivity|].
        destruct (line_bytes (fst (lines (content d Live)))) eqn:E; [left; reflexivity|right].
        pose proof (lines_length (content d Live)) as HL. lia.
      - apply Hst. intros [H|H]; [discriminate|exact (Hr H)].
      - apply Hst. intros [H|H]; [discriminate|exact (Hr H)]. }
    destruct (IH st1 H1) as [IHo IHs].
    destruct (read_initial d st1 r) as [st2 out]. cbn [fst snd] in *.
    split; [rewrite IHo; reflexivity|exact IHs].
Qed.

(* Start-up delivers the lines of the audit logs present, file after file in sorted order
   (oldest rotation first, audit.log last), and leaves the tail state fitting audit.log:
   its offset is the end of the delivered whole-line prefix, so tailing continues with
   neither repetition nor gap ([tail_correct]). *)
Lemma content_absent d a : ~ In a (map fst d) -> content d a = [].
Proof.
  induction d as [|[b c] r IH]; intros Hn; [reflexivity|].
  cbn [content]. cbn [map fst In] in Hn.
  destruct (name_eqb a b) eqn:E.
  - exfalso. apply Hn. left. destruct a as [|x|], b as [|y|]; cbn in E; try discriminate; try reflexivity.
    apply Nat.eqb_eq in E. congruence.
  - apply IH. intros H. apply Hn. right. exact H.
Qed.

Theorem initial_correct : forall d : dir,
  snd (startup d) = map (fun a => fst (lines (content d a))) (sort_names (map fst d)) /\
  tail_inv (fst (startup d)) (content d Live).
Proof.
  intros d. unfold startup. apply read_initial_correct.
  intros Hn. rewrite content_absent.
  - unfold tail_inv. cbn. split; [reflexivity|left; reflexivity].
  - intros H. apply Hn. apply sort_names_in. split; [exact H|discriminate].
Qed.

(* ------------------------------------------------------------------ the whole run *)

Theorem run_correct : forall (d : dir) (ops : list op),
  let live := content d Live in
  let names := sort_names (map fst d) in
  run d ops =
    (names,
     map (fun a => fst (lines (content d a))) names,
     spec_steps (snd (lines live)) ops) /\
  fst (lines live) ++ concat (spec_steps (snd (lines live)) ops) = spec_all live ops.
Proof.
  intros d ops live names. destruct (initial_correct d) as [Hinit Hinv].
  unfold run. destruct (startup d) as [st init]. cbn [fst snd] in *.
  split; [|symmetry; apply spec_all_steps].
  rewrite Hinit. rewrite (tail_steps_correct ops st (content d Live) Hinv). reflexivity.
Qed.
