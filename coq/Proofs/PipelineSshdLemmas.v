(* Proofs about Model/PipelineSshd.v: the combined sshd + correlator runs satisfy [wf_run] (so C10's theorems
   hold for them without that hypothesis), and what the abstract entries / deliveries of such a run stand for. *)
From Coq Require Import Ascii String List Bool Arith ZArith NArith Lia.
Import ListNotations.
From AM Require Import Lib.Bytes Lib.Assoc Model.SshdProc Proofs.SshdGeneral Model.Tracker Model.Pipeline
  Proofs.PipelineLemmas Model.PipelineSshd.

(* ---------- what one call contributes (from C05's theorem) ---------- *)

Lemma removelast_le1 {A} (l : list A) : length l <= 1 -> removelast l = [].
Proof. destruct l as [|a [|b l]]; cbn; intros H; try reflexivity. lia. Qed.

(* a call's actions: nothing, one write, or one write followed by the hand-off of the same login *)
Lemma line_acts_shape c k i :
  let l := abs_login k (i_at i) (run_line c i) in
  line_acts c k i = [] \/ line_acts c k i = [SW l] \/ line_acts c k i = [SW l; SH l].
Proof.
  cbv zeta. unfold line_acts, run_line.
  pose proof (process_total_flat c (i_tok i) (i_line i) (i_wok i) (i_ready i)) as H. cbv zeta in H.
  set (r := process c (i_tok i) (i_line i) (i_wok i) (i_ready i)) in *.
  destruct H as ((_ & Hok & Herr) & (Hw & Hf) & Hfw & _).
  destruct (r_forwards r) as [|f [|f' fs]] eqn:Ef.
  - (* nothing forwarded *)
    cbn [map app]. rewrite app_nil_r. unfold written.
    destruct (r_ret r) eqn:Er.
    + destruct (r_writes r) as [|e [|e' es]]; cbn in *; auto; lia.
    + rewrite removelast_le1 by exact Hw. auto.
    + destruct (r_writes r) as [|e [|e' es]]; cbn in *; auto; lia.
  - (* one login forwarded: the write succeeded and is that login's event *)
    destruct (Hfw f (or_introl eq_refl)) as (Ew & _ & Ewok & _).
    unfold written. rewrite (Hok Ewok), Ew. cbn. auto.
  - cbn in Hf. lia.
Qed.

(* ---------- guardedness of the sshd goroutine's remaining actions ---------- *)

(* every hand-off still to come is of a login whose write is in W already or precedes it in the list *)
Fixpoint guarded (W : list pact) (rest : list sact) : Prop :=
  match rest with
  | [] => True
  | SW l :: r => guarded (W ++ [PWrite l]) r
  | SH l :: r => In (PWrite l) W /\ guarded W r
  end.

Lemma guarded_mono rest : forall W W', incl W W' -> guarded W rest -> guarded W' rest.
Proof.
  induction rest as [|[l|l] r IH]; intros W W' Hi H; cbn in *; [exact I| |].
  - apply (IH (W ++ [PWrite l])); [|exact H]. apply incl_app; [apply incl_appl; exact Hi|apply incl_appr, incl_refl].
  - destruct H as [H1 H2]. split; [apply Hi; exact H1|]. apply (IH W); assumption.
Qed.

Lemma guarded_sshd_acts_from c ins : forall k W, guarded W (sshd_acts_from c k ins).
Proof.
  induction ins as [|i ins IH]; intros k W; [exact I|]. cbn [sshd_acts_from].
  destruct (line_acts_shape c k i) as [E|[E|E]]; rewrite E; cbn.
  - apply IH.
  - apply IH.
  - split; [apply in_or_app; right; left; reflexivity|apply IH].
Qed.

(* ---------- wf_run is preserved by appending ---------- *)

Lemma wf_run_nil : wf_run [].
Proof. intros pre l c post E. destruct pre; discriminate. Qed.

Lemma wf_run_snoc W a :
  wf_run W -> (forall l c, a = PDeliver l c -> In (PWrite l) W) -> wf_run (W ++ [a]).
Proof.
  intros HW Ha pre l c post E.
  destruct post as [|x post'] using rev_ind.
  - apply app_inj_tail in E. destruct E as [E1 E2]. subst pre. apply (Ha l c). exact E2.
  - clear IHpost'. rewrite app_comm_cons, app_assoc in E. apply app_inj_tail in E. destruct E as [E _].
    apply (HW pre l c post'). exact E.
Qed.

Lemma crun_wf sched : forall st W,
  wf_run W ->
  (forall l, c_pend st = Some l -> In (PWrite l) W) ->
  guarded W (c_sshd st) ->
  wf_run (W ++ crun sched st).
Proof.
  induction sched as [|m s IH]; intros st W HW Hp Hg; [cbn; rewrite app_nil_r; exact HW|].
  assert (Hstep : forall a st', (forall l c, a = PDeliver l c -> In (PWrite l) W) ->
            (forall l, c_pend st' = Some l -> In (PWrite l) (W ++ [a])) ->
            guarded (W ++ [a]) (c_sshd st') -> wf_run (W ++ a :: crun s st')).
  { intros a st' Ha Hp' Hg'. change (a :: crun s st') with ([a] ++ crun s st'). rewrite app_assoc.
    apply IH; [apply wf_run_snoc; assumption|exact Hp'|exact Hg']. }
  destruct m as [|c|]; cbn [crun].
  - destruct (c_sshd st) as [|[l|l] r] eqn:Es.
    + apply IH; [exact HW|exact Hp|rewrite Es; exact I].
    + apply Hstep; cbn [c_pend c_sshd].
      * intros l0 c0 E. discriminate.
      * intros l0 E. apply in_or_app. left. apply Hp. exact E.
      * exact Hg.
    + cbn in Hg. destruct Hg as [Hin Hg]. destruct (c_pend st) eqn:Ep.
      * apply IH; [exact HW|intros l1 E1; rewrite Ep in E1; exact (Hp l1 E1)|rewrite Es; cbn; split; assumption].
      * apply IH; cbn [c_pend c_sshd]; [exact HW| |exact Hg]. intros l1 [= <-]. exact Hin.
  - destruct (c_pend st) as [l|] eqn:Ep.
    + apply Hstep; cbn [c_pend c_sshd].
      * intros l0 c0 [= <- <-]. apply Hp. reflexivity.
      * intros l0 E. discriminate.
      * apply (guarded_mono _ W); [apply incl_appl, incl_refl|exact Hg].
    + apply IH; [exact HW|intros l1 E1; rewrite Ep in E1; exact (Hp l1 E1)|exact Hg].
  - destruct (c_aud st) as [|a r] eqn:Ea.
    + apply IH; assumption.
    + apply Hstep; cbn [c_pend c_sshd].
      * intros l0 c0 E. destruct a; discriminate.
      * intros l0 E. apply in_or_app. left. apply Hp. exact E.
      * apply (guarded_mono _ W); [apply incl_appl, incl_refl|exact Hg].
Qed.

(* For EVERY configuration, list of sshd records, list of other correlator calls and schedule: the run
   the combined system performs hands a login over only after its UserLogin was written. *)
Theorem combined_run_wf c ins aud sched : wf_run (acts_of c ins aud sched).
Proof.
  unfold acts_of. change (crun sched (cinit c ins aud)) with ([] ++ crun sched (cinit c ins aud)).
  apply crun_wf; [exact wf_run_nil|intros l E; discriminate|apply guarded_sshd_acts_from].
Qed.

Theorem causal_combined c ins aud sched :
  forall pre l e post, plog (acts_of c ins aud sched) = pre ++ EAction l e :: post -> In (ELogin l) pre.
Proof. apply causal_order. apply combined_run_wf. Qed.

Theorem once_combined c ins aud sched :
  flat_map (fun x => match x with EAction l e => [(l, e)] | ELogin _ => [] end) (plog (acts_of c ins aud sched))
  = outs (tracker_hist (acts_of c ins aud sched)).
Proof. apply actions_once. Qed.

(* ---------- what the abstract entries stand for ---------- *)

(* an ELogin entry of the log was put there by a PWrite action *)
Lemma login_entry_from_write acts l : In (ELogin l) (plog acts) -> In (PWrite l) acts.
Proof.
  induction acts as [|a acts IH] using rev_ind; [intros []|].
  unfold plog. rewrite pipe_run_snoc. unfold plog in IH. destruct (pipe_run acts) as [st log]. cbn [snd] in IH.
  intros H. apply in_or_app.
  assert (Hact : forall out : list emitted, In (ELogin l) (log ++ map (fun x => EAction (fst x) (snd x)) out) -> In (ELogin l) log).
  { intros out Hin. apply in_app_or in Hin. destruct Hin as [Hin|Hin]; [exact Hin|].
    apply in_map_iff in Hin. destruct Hin as (x & Hx & _). discriminate. }
  destruct a as [l1|l1 c1|ev now|t|t]; cbn [pipe_step tracker_op snd] in H.
  - cbn in H. apply in_app_or in H. destruct H as [H|[H|[]]]; [left; apply IH; exact H|]. injection H as ->. right. left. reflexivity.
  - destruct (tstep _ _) as [[st' out] r]. cbn [snd] in H. left. apply IH. exact (Hact _ H).
  - destruct (tstep _ _) as [[st' out] r]. cbn [snd] in H. left. apply IH. exact (Hact _ H).
  - cbn in H. rewrite app_nil_r in H. left. apply IH. exact H.
  - cbn in H. rewrite app_nil_r in H. left. apply IH. exact H.
Qed.

(* the combined run only performs what its three parties hold *)
Lemma crun_write_from_sshd sched : forall st l, In (PWrite l) (crun sched st) -> In (SW l) (c_sshd st).
Proof.
  induction sched as [|m s IH]; intros st l H; [destruct H|].
  destruct m as [|c|]; cbn [crun] in H.
  - destruct (c_sshd st) as [|[l1|l1] r] eqn:Es.
    + apply IH in H. rewrite Es in H. exact H.
    + destruct H as [H|H]; [injection H as ->; left; reflexivity|]. apply IH in H. right. exact H.
    + destruct (c_pend st).
      * apply IH in H. rewrite Es in H. exact H.
      * apply IH in H. right. exact H.
  - destruct (c_pend st).
    + destruct H as [H|H]; [discriminate|]. apply IH in H. exact H.
    + apply IH. exact H.
  - destruct (c_aud st) as [|a r].
    + apply IH. exact H.
    + destruct H as [H|H]; [destruct a; discriminate|]. apply IH in H. exact H.
Qed.

Lemma in_sshd_acts_from c ins : forall k a, In a (sshd_acts_from c k ins) ->
  exists j i, nth_error ins j = Some i /\ In a (line_acts c (k + j) i).
Proof.
  induction ins as [|i ins IH]; intros k a H; [destruct H|]. cbn [sshd_acts_from] in H.
  apply in_app_or in H. destruct H as [H|H].
  - exists 0, i. rewrite Nat.add_0_r. split; [reflexivity|exact H].
  - apply IH in H. destruct H as (j & i' & Hn & Hin). exists (S j), i'. split; [exact Hn|].
    replace (k + S j) with (S k + j) by lia. exact Hin.
Qed.

Lemma in_line_acts_SW c k i l : In (SW l) (line_acts c k i) ->
  l = abs_login k (i_at i) (run_line c i) /\ written (run_line c i) <> [].
Proof.
  unfold line_acts. intros H. apply in_app_or in H. destruct H as [H|H]; apply in_map_iff in H; destruct H as (x & E & Hx).
  - injection E as <-. split; [reflexivity|]. intros E0. rewrite E0 in Hx. exact Hx.
  - discriminate.
Qed.

Lemma in_line_acts_SH c k i l : In (SH l) (line_acts c k i) ->
  exists f, r_forwards (run_line c i) = [f] /\ written (run_line c i) = [f_src f] /\
            l = abs_login k (i_at i) (run_line c i) /\ atoi (i_tok i) = Some (l_pid l).
Proof.
  unfold line_acts. intros H. apply in_app_or in H. destruct H as [H|H]; apply in_map_iff in H; destruct H as (x & E & Hx); [discriminate|].
  injection E as <-. unfold run_line in *.
  pose proof (process_total_flat c (i_tok i) (i_line i) (i_wok i) (i_ready i)) as T. cbv zeta in T.
  destruct T as ((_ & Hok & _) & (_ & Hf) & Hfw & _).
  destruct (r_forwards (process c (i_tok i) (i_line i) (i_wok i) (i_ready i))) as [|f [|f' fs]] eqn:Ef; [destruct Hx| |cbn in Hf; lia].
  exists f. split; [reflexivity|].
  assert (Hin : In f (r_forwards (process c (i_tok i) (i_line i) (i_wok i) (i_ready i)))) by (rewrite Ef; left; reflexivity).
  destruct (Hfw f (or_introl eq_refl)) as (Ew & _ & Ewok & _).
  destruct (forward_content c _ _ _ _ f Hin) as (Ea & _ & _).
  split; [unfold written; rewrite (Hok Ewok); exact Ew|]. split; [reflexivity|].
  unfold abs_login. rewrite Ef. cbn. exact Ea.
Qed.

(* Every UserLogin entry [ELogin l] of the output of a combined run is the event that record number
   [l_id l] of the sshd input wrote: l is that call's abstraction and the call did write an event. *)
Theorem login_entries_are_line_writes c ins aud sched l :
  In (ELogin l) (plog (acts_of c ins aud sched)) ->
  exists i, nth_error ins (l_id l) = Some i /\ l = abs_login (l_id l) (i_at i) (run_line c i) /\
            written (run_line c i) <> [].
Proof.
  intros H. apply login_entry_from_write in H. apply crun_write_from_sshd in H. cbn in H.
  apply in_sshd_acts_from in H. destruct H as (j & i & Hn & Hin). cbn in Hin.
  apply in_line_acts_SW in Hin. destruct Hin as [-> Hw]. exists i. cbn. auto.
Qed.

(* ---------- deliveries: forwarded logins, in record order, each at most once ---------- *)

Definition pend_list (p : option login) : list login := match p with Some l => [l] | None => [] end.

Lemma crun_deliveries sched : forall st,
  exists rest, deliveries (crun sched st) ++ rest = pend_list (c_pend st) ++ handoffs (c_sshd st).
Proof.
  induction sched as [|m s IH]; intros st; [eexists; reflexivity|].
  destruct m as [|c|]; cbn [crun].
  - destruct (c_sshd st) as [|[l|l] r] eqn:Es.
    + rewrite <- Es. apply IH.
    + destruct (IH {| c_sshd := r; c_pend := c_pend st; c_aud := c_aud st |}) as [rest E]. exists rest. exact E.
    + destruct (c_pend st) eqn:Ep.
      * destruct (IH st) as [rest E]. rewrite Es, Ep in E. exists rest. exact E.
      * destruct (IH {| c_sshd := r; c_pend := Some l; c_aud := c_aud st |}) as [rest E]. exists rest. exact E.
  - destruct (c_pend st) as [l|] eqn:Ep.
    + destruct (IH {| c_sshd := c_sshd st; c_pend := None; c_aud := c_aud st |}) as [rest E]. exists rest.
      cbn [c_pend c_sshd pend_list app] in E. cbn [pend_list app].
      change (deliveries (PDeliver l c :: crun s {| c_sshd := c_sshd st; c_pend := None; c_aud := c_aud st |}))
        with (l :: deliveries (crun s {| c_sshd := c_sshd st; c_pend := None; c_aud := c_aud st |})).
      cbn [app]. rewrite E. reflexivity.
    + destruct (IH st) as [rest E]. rewrite Ep in E. exists rest. exact E.
  - destruct (c_aud st) as [|a r] eqn:Ea.
    + apply IH.
    + destruct (IH {| c_sshd := c_sshd st; c_pend := c_pend st; c_aud := r |}) as [rest E]. exists rest.
      destruct a; exact E.
Qed.

(* The logins the correlator receives in a combined run are an initial segment of the logins the sshd
   goroutine hands over, in record order (none invented, none twice, none out of order). *)
Theorem deliveries_prefix c ins aud sched :
  exists rest, deliveries (acts_of c ins aud sched) ++ rest = handoffs (sshd_acts c ins).
Proof. exact (crun_deliveries sched (cinit c ins aud)). Qed.

Lemma in_handoffs a l : In l (handoffs a) <-> In (SH l) a.
Proof.
  unfold handoffs. rewrite in_flat_map. split.
  - intros ([x|x] & Hx & Hin); cbn in Hin; [destruct Hin|]. destruct Hin as [->|[]]. exact Hx.
  - intros H. exists (SH l). split; [exact H|left; reflexivity].
Qed.

(* A delivered login is the one record [l_id l] forwarded: that call forwarded exactly one login, wrote
   exactly that login's event, and the login's PID is the record's pid token as strconv.Atoi reads it. *)
Theorem delivered_is_forwarded c ins aud sched l :
  In l (deliveries (acts_of c ins aud sched)) ->
  exists i f, nth_error ins (l_id l) = Some i /\ r_forwards (run_line c i) = [f] /\
              written (run_line c i) = [f_src f] /\ l = abs_login (l_id l) (i_at i) (run_line c i) /\
              atoi (i_tok i) = Some (l_pid l).
Proof.
  intros H. destruct (deliveries_prefix c ins aud sched) as [rest E].
  assert (Hin : In l (handoffs (sshd_acts c ins))) by (rewrite <- E; apply in_or_app; left; exact H).
  apply in_handoffs in Hin. apply in_sshd_acts_from in Hin. destruct Hin as (j & i & Hn & Hin). cbn in Hin.
  apply in_line_acts_SH in Hin. destruct Hin as (f & Ef & Ew & El & Ea). exists i, f.
  assert (Ej : l_id l = j) by (rewrite El; reflexivity). rewrite Ej. auto.
Qed.

(* record indices identify: two hand-offs (hence two deliveries) of a combined run never share an id *)
Lemma handoffs_ids_from c ins : forall k,
  exists js, map l_id (handoffs (sshd_acts_from c k ins)) = js /\ NoDup js /\ forall j, In j js -> k <= j.
Proof.
  induction ins as [|i ins IH]; intros k; [exists []; repeat split; [constructor|intros j []]|].
  destruct (IH (S k)) as (js & E & Hnd & Hge). cbn [sshd_acts_from]. unfold handoffs in *. rewrite flat_map_app, map_app, E.
  destruct (line_acts_shape c k i) as [El|[El|El]]; rewrite El; cbn.
  - exists js. repeat split; [exact Hnd|]. intros j Hj. apply Hge in Hj. lia.
  - exists js. repeat split; [exact Hnd|]. intros j Hj. apply Hge in Hj. lia.
  - exists (k :: js). repeat split.
    + constructor; [|exact Hnd]. intros Hk. apply Hge in Hk. lia.
    + intros j [<-|Hj]; [lia|]. apply Hge in Hj. lia.
Qed.

Lemma nodup_app_l {A} (a b : list A) : NoDup (a ++ b) -> NoDup a.
Proof.
  induction a as [|x a IH]; cbn; intros H; [constructor|]. inversion H as [|y r Hn Hr]; subst.
  constructor; [|apply IH; exact Hr]. intros Hx. apply Hn. apply in_or_app. left. exact Hx.
Qed.

Theorem delivered_ids_distinct c ins aud sched : NoDup (map l_id (deliveries (acts_of c ins aud sched))).
Proof.
  destruct (deliveries_prefix c ins aud sched) as [rest E].
  destruct (handoffs_ids_from c ins 0) as (js & Ej & Hnd & _). fold (sshd_acts c ins) in Ej.
  rewrite <- E, map_app in Ej. subst js. apply nodup_app_l in Hnd. exact Hnd.
Qed.

(* the other correlator calls are performed in their order, each at most once *)
Lemma crun_audit_part sched : forall st, exists rest, audit_part (crun sched st) ++ rest = map pact_of_aop (c_aud st).
Proof.
  induction sched as [|m s IH]; intros st; [eexists; reflexivity|].
  destruct m as [|c|]; cbn [crun].
  - destruct (c_sshd st) as [|[l|l] r].
    + apply IH.
    + exact (IH {| c_sshd := r; c_pend := c_pend st; c_aud := c_aud st |}).
    + destruct (c_pend st); [apply IH|]. exact (IH {| c_sshd := r; c_pend := Some l; c_aud := c_aud st |}).
  - destruct (c_pend st); [|apply IH]. exact (IH {| c_sshd := c_sshd st; c_pend := None; c_aud := c_aud st |}).
  - destruct (c_aud st) as [|a r] eqn:Ea; [rewrite <- Ea; apply IH|].
    destruct (IH {| c_sshd := c_sshd st; c_pend := c_pend st; c_aud := r |}) as [rest E]. exists rest.
    cbn [c_aud] in E. unfold audit_part in *. destruct a; cbn [pact_of_aop filter map app]; rewrite E; reflexivity.
Qed.

Theorem audit_part_prefix c ins aud sched :
  exists rest, audit_part (acts_of c ins aud sched) ++ rest = map pact_of_aop aud.
Proof. exact (crun_audit_part sched (cinit c ins aud)). Qed.
