(* Proofs about Model/Workers.v: cancellation responsiveness (C13) and fail-stop (C08). *)
From Coq Require Import String List Bool Arith Lia.
Import ListNotations.
From AM Require Import Gen.Blocking Model.Workers.

(* ---------- lists ---------- *)

Lemma upd_length : forall A i (x : A) l, length (upd i x l) = length l.
Proof. induction i; destruct l; simpl; auto. Qed.

Lemma nth_upd_same : forall A i (x : A) l y, nth_error l i = Some y -> nth_error (upd i x l) i = Some x.
Proof. induction i; destruct l; simpl; intros; try discriminate; eauto. Qed.

Lemma nth_upd_other : forall A i j (x : A) l, i <> j -> nth_error (upd i x l) j = nth_error l j.
Proof.
  induction i; destruct l; destruct j; simpl; intros; auto; try congruence.
Qed.

(* ---------- potential of a goroutine ---------- *)

Definition mu (g : gstate) : nat :=
  match g with
  | Returned _ => 0
  | Joining _ => 1
  | BlockedAt _ b => 2 * b + 2
  | Running b => 2 * b + 3
  end.

Definition wf_g (K : nat) (rows : list row) (g : gstate) : Prop :=
  match g with
  | BlockedAt r b => In r rows /\ b <= K
  | Running b => b <= K
  | _ => True
  end.

Lemma mu_returned : forall g, mu g = 0 <-> is_returned g = true.
Proof. destruct g; simpl; split; intros; try lia; try discriminate; auto. Qed.

Lemma mu_bound : forall K rows g, wf_g K rows g -> mu g <= 2 * K + 3.
Proof. destruct g; simpl; intros; lia. Qed.

Lemma gstep_wf : forall K rows dl ec jo g l g',
  gstep rows dl ec jo g l g' -> wf_g K rows g -> wf_g K rows g'.
Proof. intros K rows dl ec jo g l g' H; inversion H; subst; simpl; intuition; lia. Qed.

Lemma gstep_label : forall rows ec jo g l g', gstep rows false ec jo g l g' -> l = Tau.
Proof.
  intros rows ec jo g l g' H; inversion H; subst; auto; destruct l; auto;
    match goal with H : Deliver = Deliver -> _ |- _ => specialize (H eq_refl); discriminate end.
Qed.

Lemma gstep_returned : forall rows dl ec jo e l g', gstep rows dl ec jo (Returned e) l g' -> l = Tau /\ g' = Returned e.
Proof. intros rows dl ec jo e l g' H; inversion H; subst; auto. Qed.

(* a step never turns a returned goroutine into a live one, nor changes its verdict *)
Lemma gstep_failed : forall rows dl ec jo g l g', gstep rows dl ec jo g l g' -> failed g = true -> failed g' = true.
Proof. intros rows dl ec jo g l g' H; inversion H; subst; simpl; auto; discriminate. Qed.

Lemma gstep_is_returned : forall rows dl ec jo g l g', gstep rows dl ec jo g l g' -> is_returned g = true -> g' = g.
Proof. intros rows dl ec jo g l g' H; inversion H; subst; simpl; auto; discriminate. Qed.

(* cancelled + every row guarded: a step strictly lowers the potential, except for a finished
   goroutine and for a main goroutine still waiting for the helpers it joins *)
Lemma gstep_mu : forall K rows dl jo g l g',
  forallb row_guarded rows = true -> wf_g K rows g ->
  gstep rows dl true jo g l g' ->
  mu g' <= mu g /\ (mu g' < mu g \/ mu g = 0 \/ (mu g = 1 /\ jo = false)).
Proof.
  intros K rows dl jo g l g' HG WF H.
  assert (GR : forall r, In r rows -> row_guarded r = true)
    by (intros; eapply forallb_forall in HG; eauto).
  inversion H; subst; simpl in *; try (split; lia).
  - (* GStay: impossible *) destruct WF as [Hin _]. rewrite (GR _ Hin) in *. simpl in *. discriminate.
  - destruct WF as [Hin _]. rewrite (GR _ Hin) in *. discriminate.
Qed.

(* ---------- worker invariants ---------- *)

Definition wfw (K : nat) (d : wdesc) (w : wst) : Prop :=
  wf_g K (wd_rows d) (ws_main w) /\
  length (ws_helpers w) = length (wd_helpers d) /\
  (forall i hd s, nth_error (wd_helpers d) i = Some hd -> nth_error (ws_helpers w) i = Some s ->
      wf_g K (hd_rows hd) s) /\
  (* the join: a returned worker function has no joined helper alive *)
  (is_returned (ws_main w) = true ->
     forall i hd s, nth_error (wd_helpers d) i = Some hd -> nth_error (ws_helpers w) i = Some s ->
       hd_joined hd = true -> is_returned s = true).

Lemma joined_done_nth : forall hds hs, joined_done hds hs = true ->
  forall i hd s, nth_error hds i = Some hd -> nth_error hs i = Some s -> hd_joined hd = true -> is_returned s = true.
Proof.
  induction hds; destruct hs; simpl; intros H i hd s H1 H2 HJ; try (destruct i; discriminate).
  apply andb_true_iff in H. destruct H as [Ha Hb].
  destruct i; simpl in *.
  - inversion H1; inversion H2; subst. rewrite HJ in Ha. simpl in Ha. exact Ha.
  - eauto.
Qed.

Lemma joined_done_all : forall hds hs, (forall i s, nth_error hs i = Some s -> is_returned s = true) -> joined_done hds hs = true.
Proof.
  induction hds; destruct hs; simpl; intros; auto.
  apply andb_true_iff; split.
  - rewrite (H 0 g eq_refl). apply orb_true_r.
  - apply IHhds. intros i s Hi. apply (H (S i) s Hi).
Qed.

Lemma wstep_wfw : forall K d cn w g l w', wfw K d w -> wstep d cn w g l w' -> wfw K d w'.
Proof.
  intros K d cn w g l w' (Hm & Hlen & Hh & Hj) H. inversion H; subst; unfold wfw; cbn [ws_main ws_helpers].
  - split; [eapply gstep_wf; eauto|]. split; [exact Hlen|]. split; [exact Hh|].
    intros Hr. destruct (is_returned (ws_main w)) eqn:E.
    + apply Hj; auto.
    + (* main has just returned: it was Joining with every joined helper returned *)
      inversion H0; subst; simpl in *; try discriminate.
      * apply joined_done_nth. assumption.
      * match goal with Heq : _ = ws_main w |- _ => rewrite <- Heq in E; simpl in E; discriminate end.
  - split; [exact Hm|]. split; [rewrite upd_length; exact Hlen|]. split.
    + intros j hd' s0 Hd Hs. destruct (Nat.eq_dec i j) as [->|Hne].
      * rewrite (nth_upd_same _ _ _ _ _ H1) in Hs. inversion Hs; subst. rewrite H0 in Hd; inversion Hd; subst.
        eapply gstep_wf; eauto.
      * rewrite nth_upd_other in Hs by assumption. eauto.
    + intros Hr j hd' s0 Hd Hs HJ. destruct (Nat.eq_dec i j) as [->|Hne].
      * rewrite (nth_upd_same _ _ _ _ _ H1) in Hs. inversion Hs; subst. rewrite H0 in Hd; inversion Hd; subst.
        assert (R : is_returned s = true) by (eapply Hj; eauto).
        rewrite (gstep_is_returned _ _ _ _ _ _ _ H2 R). exact R.
      * rewrite nth_upd_other in Hs by assumption. eauto.
Qed.

Lemma wexec_wfw : forall K d cn w sch tr w', wexec d cn w sch tr w' -> wfw K d w -> wfw K d w'.
Proof. induction 1; intros; auto. apply IHwexec. eapply wstep_wfw; eauto. Qed.

Lemma winit_wfw : forall K d, wfw K d (winit K d).
Proof.
  intros K d. unfold winit, wfw; simpl. split; [lia|]. split; [apply map_length|]. split.
  - intros i hd s _ Hs. apply nth_error_In in Hs. apply in_map_iff in Hs. destruct Hs as (x & <- & _). simpl; lia.
  - discriminate.
Qed.

Lemma wreach_wfw : forall K d w, wreach K d w -> wfw K d w.
Proof. induction 1; [apply winit_wfw | eapply wstep_wfw; eauto]. Qed.

(* ---------- once returned: nothing more is delivered ---------- *)

Lemma wstep_after_return : forall K d cn w g l w',
  desc_helpers_ok d = true -> wfw K d w -> is_returned (ws_main w) = true ->
  wstep d cn w g l w' -> l = Tau /\ ws_main w' = ws_main w.
Proof.
  intros K d cn w g l w' HO (Hm & Hlen & Hh & Hj) HR H. inversion H; subst; simpl.
  - destruct (ws_main w); try discriminate. apply gstep_returned in H0. destruct H0; subst; auto.
  - split; auto. destruct (hd_delivers hd) eqn:ED.
    + assert (HJ : hd_joined hd = true).
      { unfold desc_helpers_ok in HO. eapply forallb_forall in HO; [|eapply nth_error_In; eauto].
        rewrite ED in HO. exact HO. }
      assert (R : is_returned s = true) by (eapply Hj; eauto).
      destruct s; try discriminate. apply gstep_returned in H2. tauto.
    + eapply gstep_label; eauto.
Qed.

Lemma wexec_after_return : forall K d cn w sch tr w',
  desc_helpers_ok d = true -> wexec d cn w sch tr w' -> wfw K d w -> is_returned (ws_main w) = true ->
  ~ In Deliver tr /\ ws_main w' = ws_main w.
Proof.
  intros K d cn w sch tr w' HO H. induction H; intros WF HR.
  - split; auto.
  - destruct (wstep_after_return _ _ _ _ _ _ _ HO WF HR H) as [-> Hm].
    destruct IHwexec as [Hn Hm2]; [eapply wstep_wfw; eauto | rewrite Hm; auto |].
    split; [|congruence]. simpl. intros [F|F]; [discriminate|auto].
Qed.

(* ---------- progress after cancellation ---------- *)

Definition pot (w : wst) (g : gid) : nat :=
  match g with
  | None => mu (ws_main w)
  | Some i => match nth_error (ws_helpers w) i with Some s => mu s | None => 0 end
  end.

Definition floor_of (g : gid) : nat := match g with None => 1 | Some _ => 0 end.

Lemma desc_guarded_main : forall d, desc_guarded d = true -> forallb row_guarded (wd_rows d) = true.
Proof. unfold desc_guarded; intros d H; apply andb_true_iff in H; tauto. Qed.

Lemma desc_guarded_helper : forall d i hd, desc_guarded d = true -> nth_error (wd_helpers d) i = Some hd ->
  forallb row_guarded (hd_rows hd) = true.
Proof.
  unfold desc_guarded; intros d i hd H Hn; apply andb_true_iff in H; destruct H as [_ H].
  eapply forallb_forall in H; [exact H | eapply nth_error_In; eauto].
Qed.

Lemma wstep_pot : forall K d w g l w',
  desc_guarded d = true -> wfw K d w -> wstep d true w g l w' ->
  (forall g', pot w' g' <= pot w g') /\ (pot w' g < pot w g \/ pot w g <= floor_of g).
Proof.
  intros K d w g l w' HG (Hm & Hlen & Hh & Hj) H. inversion H; subst.
  - destruct (gstep_mu K _ _ _ _ _ _ (desc_guarded_main _ HG) Hm H0) as [Hle Hd]. split.
    + intros [i|]; simpl; auto.
    + simpl. lia.
  - assert (WS : wf_g K (hd_rows hd) s) by eauto.
    simpl in H2.
    destruct (gstep_mu K _ _ _ _ _ _ (desc_guarded_helper _ _ _ HG H0) WS H2) as [Hle Hd]. split.
    + intros [j|]; simpl; auto. destruct (Nat.eq_dec i j) as [->|Hne].
      * rewrite (nth_upd_same _ _ _ _ _ H1), H1. exact Hle.
      * rewrite nth_upd_other by assumption. auto.
    + simpl. rewrite (nth_upd_same _ _ _ _ _ H1), H1. destruct Hd as [Hd|[Hd|[_ Hd]]]; [lia|lia|discriminate].
Qed.

Lemma wexec_pot : forall K d w sch tr w',
  desc_guarded d = true -> wexec d true w sch tr w' -> wfw K d w ->
  forall g, pot w' g <= pot w g /\ (In g sch -> pot w' g <= Nat.max (floor_of g) (pot w g - 1)).
Proof.
  intros K d w sch tr w' HG H. induction H; intros WF g0.
  - split; [lia | intros []].
  - destruct (wstep_pot _ _ _ _ _ _ HG WF H) as [Hall Hdec].
    assert (WF1 : wfw K d w1) by (eapply wstep_wfw; eauto).
    destruct (IHwexec WF1 g0) as [Hle Hin]. pose proof (Hall g0) as H0g. split; [lia|].
    intros [->|Hi].
    + lia.
    + specialize (Hin Hi). lia.
Qed.

Definition wbnd (n : nat) (w : wst) : Prop := pot w None <= Nat.max 1 n /\ forall i, pot w (Some i) <= n.

Lemma wfw_wbnd : forall K d w, wfw K d w -> wbnd (2 * K + 3) w.
Proof.
  intros K d w (Hm & Hlen & Hh & Hj). split; cbn [pot].
  - pose proof (mu_bound _ _ _ Hm). lia.
  - intros i. destruct (nth_error (ws_helpers w) i) eqn:E; [|lia].
    destruct (nth_error (wd_helpers d) i) eqn:E2.
    + eapply mu_bound; eauto.
    + apply nth_error_None in E2. assert (i < length (ws_helpers w)) by (apply nth_error_Some; congruence). lia.
Qed.

Lemma wexec_length : forall d cn w sch tr w', wexec d cn w sch tr w' -> length (ws_helpers w') = length (ws_helpers w).
Proof.
  induction 1; auto. rewrite IHwexec. inversion H; subst; simpl; auto. apply upd_length.
Qed.

(* one fair round lowers the bound by one *)
Lemma round_bnd : forall K d w sch tr w' n,
  desc_guarded d = true -> wfw K d w -> fair_round w sch -> wexec d true w sch tr w' ->
  wbnd (S n) w -> wbnd n w'.
Proof.
  intros K d w sch tr w' n HG WF [FN FH] HE [B1 B2]. split.
  - destruct (wexec_pot _ _ _ _ _ _ HG HE WF None) as [_ Hd]. specialize (Hd FN). simpl floor_of in Hd. lia.
  - intros i. destruct (wexec_pot _ _ _ _ _ _ HG HE WF (Some i)) as [Hle Hd].
    destruct (lt_dec i (length (ws_helpers w))) as [Hl|Hl].
    + specialize (Hd (FH i Hl)). specialize (B2 i). simpl floor_of in Hd. lia.
    + simpl. rewrite <- (wexec_length _ _ _ _ _ _ HE) in Hl.
      destruct (nth_error (ws_helpers w') i) eqn:E; [|lia].
      exfalso. apply Hl. apply nth_error_Some. congruence.
Qed.

Lemma wbnd0_helpers : forall w, wbnd 0 w -> forall i s, nth_error (ws_helpers w) i = Some s -> is_returned s = true.
Proof. intros w [_ B] i s E. specialize (B i). simpl in B. rewrite E in B. apply mu_returned. lia. Qed.

(* the last round: every helper has returned, the main goroutine is at its join *)
Lemma final_round : forall K d w sch tr w',
  desc_guarded d = true -> wexec d true w sch tr w' -> wfw K d w -> wbnd 0 w ->
  (is_returned (ws_main w) = true \/ In None sch) -> is_returned (ws_main w') = true.
Proof.
  intros K d w sch tr w' HG H. induction H; intros WF B Hor.
  - destruct Hor as [|[]]; auto.
  - assert (WF1 : wfw K d w1) by (eapply wstep_wfw; eauto).
    assert (B1 : wbnd 0 w1).
    { destruct (wstep_pot _ _ _ _ _ _ HG WF H) as [Hall _]. destruct B as [Ba Bb]. split.
      - specialize (Hall None). lia.
      - intros i. specialize (Hall (Some i)). specialize (Bb i). lia. }
    apply IHwexec; auto.
    destruct (is_returned (ws_main w)) eqn:ER.
    + left. inversion H; subst; simpl; auto.
      rewrite (gstep_is_returned _ _ _ _ _ _ _ H1 ER). exact ER.
    + destruct Hor as [F|[->|Hin]]; [discriminate| |right; exact Hin].
      left. inversion H; subst; simpl.
      match goal with HS : gstep _ _ _ _ _ _ _ |- _ =>
        rewrite (joined_done_all _ _ (wbnd0_helpers _ B)) in HS;
        destruct B as [Ba _]; simpl in Ba;
        inversion HS; subst; simpl in *; auto;
        match goal with HE : _ = ws_main w |- _ => rewrite <- HE in Ba; simpl in Ba; try lia end end.
Qed.

Lemma wbnd_weaken : forall n m w, n <= m -> wbnd n w -> wbnd m w.
Proof. intros n m w Hle [A B]. split; [lia|]. intros i; specialize (B i); lia. Qed.

Lemma wrounds_wfw : forall K d cn n w tr w', wrounds d cn n w tr w' -> wfw K d w -> wfw K d w'.
Proof. induction 1; intros; auto. apply IHwrounds. eapply wexec_wfw; eauto. Qed.

Lemma wrounds_returned : forall K d n w tr w',
  desc_guarded d = true -> wrounds d true n w tr w' -> forall m, wfw K d w -> wbnd m w -> m < n ->
  is_returned (ws_main w') = true.
Proof.
  intros K d n w tr w' HG H. induction H; intros m WF B Hlt; [lia|].
  assert (WF1 : wfw K d w1) by (eapply wexec_wfw; eauto).
  destruct m as [|m].
  - assert (R1 : is_returned (ws_main w1) = true) by (eapply final_round; eauto; right; apply H).
    assert (B1 : wbnd 0 w1).
    { eapply (round_bnd K d w sch tr w1 0 HG WF H H0). eapply wbnd_weaken; [|exact B]. lia. }
    destruct n.
    + inversion H1; subst. exact R1.
    + eapply (IHwrounds 0); eauto. lia.
  - eapply (IHwrounds m); eauto; [|lia]. eapply (round_bnd K d w sch tr w1 m HG WF H H0). exact B.
Qed.

(* ---------- C13: cancel_responsive ---------- *)

Theorem cancel_responsive : forall K d,
  desc_guarded d = true -> desc_helpers_ok d = true ->
  forall w, wreach K d w ->
    (* after Cancel, every fair run has returned after cancel_bound K rounds ... *)
    (forall n tr w', cancel_bound K <= n -> wrounds d true n w tr w' -> is_returned (ws_main w') = true) /\
    (* ... and once the worker function has returned, neither it nor a goroutine it started delivers *)
    (is_returned (ws_main w) = true ->
       forall cn sch tr w', wexec d cn w sch tr w' -> ~ In Deliver tr /\ ws_main w' = ws_main w).
Proof.
  intros K d HG HO w HR. pose proof (wreach_wfw _ _ _ HR) as WF. split.
  - intros n tr w' Hn H. eapply wrounds_returned; eauto using wfw_wbnd. unfold cancel_bound in Hn. lia.
  - intros R cn sch tr w' H. eapply wexec_after_return; eauto.
Qed.

(* ---------- the two defects, as behaviours of the model ---------- *)

(* an unguarded blocking point: the cancelled worker may stay blocked in every round, for ever
   (a worker without helpers that sits at an unguarded row; the all-stay run is fair) *)
Lemma unguarded_hangs_simple : forall name rows r b n, row_guarded r = false ->
  exists tr w', wrounds (mkWdesc name rows []) true n (mkWst (BlockedAt r b) []) tr w' /\ ws_main w' = BlockedAt r b.
Proof.
  intros name rows r b n HU. induction n.
  - eexists; eexists; split; [constructor|reflexivity].
  - destruct IHn as (tr & w' & HR & HM).
    exists (([Tau] ++ tr)%list), w'. split; [|exact HM].
    eapply WRS with (sch := [None]) (w1 := mkWst (BlockedAt r b) []); eauto.
    + split; [left; reflexivity | simpl; intros; lia].
    + eapply WE1; [|constructor]. apply (WMain (mkWdesc name rows []) true (mkWst (BlockedAt r b) []) Tau (BlockedAt r b)).
      simpl. apply GStay. rewrite HU. reflexivity.
Qed.

(* a delivering helper that is not joined: Cancel; the worker function returns; the helper delivers *)
Lemma unjoined_delivers_after_return : forall name rows hname hrows r (b : nat),
  In r hrows ->
  let d := mkWdesc name rows [mkHdesc hname hrows true false] in
  exists w, is_returned (ws_main w) = true /\
    exists tr w', wexec d true w [Some 0] tr w' /\ In Deliver tr.
Proof.
  intros name rows hname hrows r b Hin d.
  exists (mkWst (Returned true) [Running b]). split; [reflexivity|].
  exists [Deliver], (mkWst (Returned true) [BlockedAt r b]). split; [|left; reflexivity].
  eapply WE1; [|constructor].
  apply (WHelper d true (mkWst (Returned true) [Running b]) 0 (mkHdesc hname hrows true false) (Running b) Deliver (BlockedAt r b)); simpl; auto.
  apply GArrive; auto.
Qed.

(* ---------- C08: the daemon ---------- *)

Definition desc_ok (d : wdesc) : Prop := desc_guarded d = true /\ desc_helpers_ok d = true.

Definition P (K m : nat) (d : wdesc) (w : wst) : Prop := wfw K d w /\ wbnd m w.

Lemma all_round_wfw : forall K cn ds ws ws', all_round cn ds ws ws' ->
  Forall2 (wfw K) ds ws -> Forall2 (wfw K) ds ws'.
Proof.
  induction 1; intros F; inversion F; subst; constructor; auto. eapply wexec_wfw; eauto.
Qed.

Lemma all_round_P : forall K m ds ws ws', Forall desc_ok ds -> all_round true ds ws ws' ->
  Forall2 (P K (S m)) ds ws -> Forall2 (P K m) ds ws'.
Proof.
  intros K m ds ws ws' HD H. induction H; intros F; [constructor|].
  inversion F as [|? ? ? ? [WF B] Ft]; subst. inversion HD as [|? ? [HG _] HDt]; subst.
  constructor; auto. split; [eapply wexec_wfw; eauto | eapply round_bnd; eauto].
Qed.

Definition Q (K : nat) (d : wdesc) (w : wst) : Prop := wfw K d w /\ is_returned (ws_main w) = true.

Lemma all_round_final : forall K ds ws ws', Forall desc_ok ds -> all_round true ds ws ws' ->
  Forall2 (P K 0) ds ws -> Forall2 (Q K) ds ws'.
Proof.
  intros K ds ws ws' HD H. induction H; intros F; [constructor|].
  inversion F as [|? ? ? ? [WF B] Ft]; subst. inversion HD as [|? ? [HG _] HDt]; subst.
  constructor; auto. split; [eapply wexec_wfw; eauto|].
  eapply final_round; eauto. right. apply H.
Qed.

Lemma all_round_Q : forall K cn ds ws ws', Forall desc_ok ds -> all_round cn ds ws ws' ->
  Forall2 (Q K) ds ws -> Forall2 (Q K) ds ws' /\ map ws_main ws' = map ws_main ws.
Proof.
  intros K cn ds ws ws' HD H. induction H; intros F; [split; constructor|].
  inversion F as [|? ? ? ? [WF R] Ft]; subst. inversion HD as [|? ? [_ HO] HDt]; subst.
  destruct (wexec_after_return _ _ _ _ _ _ _ HO H0 WF R) as [_ HM].
  destruct (IHall_round HDt Ft) as [IH1 IH2]. split.
  - constructor; auto. split; [eapply wexec_wfw; eauto | rewrite HM; exact R].
  - simpl. rewrite HM, IH2. reflexivity.
Qed.

Lemma Q_all_returned : forall K ds ws, Forall2 (Q K) ds ws -> all_returned ws = true.
Proof. induction 1; simpl; auto. destruct H as [_ ->]. exact IHForall2. Qed.

(* a worker function that has returned an error keeps that verdict *)
Lemma wexec_failed : forall K d cn w sch tr w', wexec d cn w sch tr w' -> wfw K d w ->
  failed (ws_main w) = true -> failed (ws_main w') = true.
Proof.
  induction 1; intros WF Fl; auto. apply IHwexec; [eapply wstep_wfw; eauto|].
  inversion H; subst; simpl; auto. eapply gstep_failed; eauto.
Qed.

Lemma all_round_failed : forall K cn ds ws ws', all_round cn ds ws ws' -> Forall2 (wfw K) ds ws ->
  any_failed ws = true -> any_failed ws' = true.
Proof.
  unfold any_failed. induction 1; intros F Fl; inversion F; subst; simpl in *; auto.
  apply orb_true_iff in Fl. apply orb_true_iff. destruct Fl as [Fl|Fl]; [left; eapply wexec_failed; eauto | right; auto].
Qed.

Lemma dreach_wfw : forall K ds s, dreach K ds s -> Forall2 (wfw K) ds (d_ws s).
Proof.
  induction 1.
  - simpl. induction ds; simpl; constructor; auto. apply winit_wfw.
  - inversion H0; subst. simpl. eapply all_round_wfw; eauto.
Qed.

Lemma Forall2_P_of_wfw : forall K ds ws, Forall2 (wfw K) ds ws -> Forall2 (P K (2 * K + 3)) ds ws.
Proof. induction 1; constructor; auto. split; auto. eapply wfw_wbnd; eauto. Qed.

Lemma Forall2_P_wfw : forall K m ds ws, Forall2 (P K m) ds ws -> Forall2 (wfw K) ds ws.
Proof. induction 1; constructor; auto. apply H. Qed.

Lemma Forall2_Q_wfw : forall K ds ws, Forall2 (Q K) ds ws -> Forall2 (wfw K) ds ws.
Proof. induction 1; constructor; auto. apply H. Qed.

Lemma drounds_Q : forall K ds n s s', Forall desc_ok ds -> drounds ds n s s' ->
  Forall2 (Q K) ds (d_ws s) -> Forall2 (Q K) ds (d_ws s') /\ (any_failed (d_ws s) = true -> any_failed (d_ws s') = true).
Proof.
  intros K ds n s s' HD H. induction H; intros F; [split; auto|].
  inversion H; subst. destruct (all_round_Q _ _ _ _ _ HD H1 F) as [F1 _].
  destruct (IHdrounds F1) as [F2 Hf]. split; auto.
  intros Fl. apply Hf. simpl. eapply all_round_failed; eauto using Forall2_Q_wfw.
Qed.

Lemma drounds_exit : forall K ds n s s', Forall desc_ok ds -> drounds ds n s s' ->
  forall m, d_cancel s = true -> Forall2 (P K m) ds (d_ws s) -> m < n ->
  Forall2 (Q K) ds (d_ws s') /\ (any_failed (d_ws s) = true -> any_failed (d_ws s') = true).
Proof.
  intros K ds n s s' HD H. induction H; intros m HC F Hlt; [lia|].
  inversion H; subst. rewrite HC in *. simpl in H2.
  assert (HC1 : c' = true) by (apply H2; reflexivity). subst c'.
  assert (Fl1 : any_failed (d_ws s) = true -> any_failed ws' = true)
    by (intros; eapply all_round_failed; eauto using Forall2_P_wfw).
  destruct m as [|m].
  - pose proof (all_round_final _ _ _ _ HD H1 F) as F1.
    destruct (drounds_Q K _ _ _ _ HD H0 F1) as [F2 Hf]. split; auto.
  - pose proof (all_round_P _ _ _ _ _ HD H1 F) as F1.
    destruct (IHdrounds m eq_refl F1) as [F2 Hf]; [lia|]. split; auto.
Qed.

(* C08 *)
Theorem fail_stop : forall K ds, Forall desc_ok ds ->
  forall s, dreach K ds s ->
    (* a worker function that returns an error cancels the group context in that very round *)
    (forall s1, dround ds s s1 -> any_failed (d_ws s1) = true -> d_cancel s1 = true) /\
    (* once the group context is cancelled (failure or SIGTERM/SIGINT), every fair run has exited
       after cancel_bound K rounds, with status 1 if any worker function had failed *)
    (d_cancel s = true -> forall n s', cancel_bound K <= n -> drounds ds n s s' ->
       exists st, exited s' = Some st /\ (any_failed (d_ws s) = true -> st = 1)).
Proof.
  intros K ds HD s HR. split.
  - intros s1 H Fl. inversion H; subst. simpl in *. apply H1. rewrite Fl. apply orb_true_r.
  - intros HC n s' Hn H.
    pose proof (Forall2_P_of_wfw _ _ _ (dreach_wfw _ _ _ HR)) as F.
    destruct (drounds_exit K _ _ _ _ HD H (2 * K + 3) HC F) as [FQ Hf]; [unfold cancel_bound in Hn; lia|].
    unfold exited. rewrite (Q_all_returned _ _ _ FQ).
    eexists; split; [reflexivity|]. intros Fl. rewrite (Hf Fl). reflexivity.
Qed.

(* ---------- instantiation with a table ---------- *)

Lemma forallb_filter : forall A (f g : A -> bool) l, forallb f l = true -> forallb f (filter g l) = true.
Proof.
  induction l; simpl; intros; auto. apply andb_true_iff in H. destruct H.
  destruct (g a); simpl; auto. rewrite H; auto.
Qed.

Lemma table_desc_ok : forall rows hs w,
  forallb row_guarded rows = true -> forallb helper_ok hs = true -> desc_ok (wdesc_of rows hs w).
Proof.
  intros rows hs w HR HH. split.
  - unfold desc_guarded, wdesc_of; simpl. apply andb_true_iff; split.
    + apply forallb_filter; auto.
    + apply forallb_forall. intros x Hx. apply in_map_iff in Hx. destruct Hx as (h & <- & _). simpl.
      apply forallb_filter; auto.
  - unfold desc_helpers_ok, wdesc_of; simpl. apply forallb_forall. intros x Hx.
    apply in_map_iff in Hx. destruct Hx as (h & <- & Hh). simpl.
    apply filter_In in Hh. destruct Hh as [Hh _]. eapply forallb_forall in HH; eauto.
Qed.

Lemma table_descs_ok : forall rows hs ws,
  forallb row_guarded rows = true -> forallb helper_ok hs = true -> Forall desc_ok (map (wdesc_of rows hs) ws).
Proof. intros. induction ws; simpl; constructor; auto. apply table_desc_ok; auto. Qed.

(* the general theorems, for the workers described by a table whose rows are all guarded and
   whose delivering helpers are all joined *)
Theorem cancel_responsive_table : forall rows hs,
  forallb row_guarded rows = true /\ forallb helper_ok hs = true ->
  forall K name w, wreach K (wdesc_of rows hs name) w ->
    (forall n tr w', cancel_bound K <= n -> wrounds (wdesc_of rows hs name) true n w tr w' ->
       is_returned (ws_main w') = true) /\
    (is_returned (ws_main w) = true ->
       forall cn sch tr w', wexec (wdesc_of rows hs name) cn w sch tr w' ->
         ~ In Deliver tr /\ ws_main w' = ws_main w).
Proof.
  intros rows hs [HR HH] K name w. destruct (table_desc_ok rows hs name HR HH) as [HG HO].
  apply cancel_responsive; assumption.
Qed.

Theorem fail_stop_table : forall rows hs names,
  forallb row_guarded rows = true /\ forallb helper_ok hs = true ->
  forall K s, dreach K (map (wdesc_of rows hs) names) s ->
    (forall s1, dround (map (wdesc_of rows hs) names) s s1 -> any_failed (d_ws s1) = true -> d_cancel s1 = true) /\
    (d_cancel s = true -> forall n s', cancel_bound K <= n -> drounds (map (wdesc_of rows hs) names) n s s' ->
       exists st, exited s' = Some st /\ (any_failed (d_ws s) = true -> st = 1)).
Proof.
  intros rows hs names [HR HH] K s. apply fail_stop. apply table_descs_ok; assumption.
Qed.

(* a state in which the main goroutine is blocked at any of its rows is reachable *)
Lemma blocked_reachable : forall K d r, In r (wd_rows d) ->
  wreach K d (mkWst (BlockedAt r K) (map (fun _ => Running K) (wd_helpers d))).
Proof.
  intros K d r Hin. eapply RStep with (cn := false) (g := None) (l := Tau); [apply RInit|].
  apply (WMain d false (winit K d) Tau (BlockedAt r K)). simpl. apply GArrive; auto; discriminate.
Qed.
