(* The wiring of the pipeline workers, as normalised from the generated closures (Gen/WorkerBodies.v), IS the
   expected wiring written out below; consequences used by the property files. *)
From Coq Require Import String List Bool ZArith Arith.
Import ListNotations.
From AM Require Import Model.WorkerWiring Gen.WorkerBodies.
From AM Require Gen.Consts.
Open Scope string_scope.
Open Scope nat_scope.

(* ---------- the expected wiring ---------- *)

Definition np_ingester : wexp :=
  WLit "NamedPipeIngester" false [("Logger", WVar "logger"); ("Health", WVar "h")].

Definition sshd_processor : wexp :=
  WLit "SshdProcessorer" true
    [("ctx", WVar "groupCtx"); ("logins", WVar "logins"); ("nodeName", WVar "nodeName"); ("machineID", WVar "mid");
     ("eventW", WVar "eventWriter"); ("metrics", WVar "pprov")].

(* sshd_ingester: refuse a path that is not a named pipe (error wrapped and returned); then the syslog ingester on
   the sshd pipe, driving the sshd processor, run with the group context; its error is the worker's result *)
Definition exp_sshd_ingester : wresult :=
  mkRes [(WCall "common.IsNamedPipe" [WVar "sshdLogFilePath"], true)]
        (WMethod (WLit "SyslogIngester" false
                    [("FilePath", WVar "sshdLogFilePath"); ("SshdProcessor", sshd_processor); ("namedPipeIngester", np_ingester)])
                 "Ingest" [WVar "groupCtx"]).

Definition exp_audit_ingester : wresult :=
  mkRes [(WCall "common.IsNamedPipe" [WVar "auditdLogFilePath"], true)]
        (WMethod (WLit "AuditLogIngester" false
                    [("FilePath", WVar "auditdLogFilePath"); ("AuditLogChan", WVar "auditLogChan"); ("namedPipeIngester", np_ingester)])
                 "Ingest" [WVar "groupCtx"]).

(* audit_processor: exactly these four fields — in particular no After filter: the daemon drops no event by its time *)
Definition exp_audit_processor : wresult :=
  mkRes []
        (WMethod (WLit "auditd.Auditd" false
                    [("Audits", WVar "auditLogChan"); ("Logins", WVar "logins"); ("EventW", WVar "eventWriter"); ("Health", WVar "h")])
                 "Read" [WVar "groupCtx"]).

Definition expected : list wresult := [exp_sshd_ingester; exp_audit_ingester; exp_audit_processor].

Fixpoint all_eq (got : list (option wresult)) (want : list wresult) : bool :=
  match got, want with
  | [], [] => true
  | g :: got', w :: want' => res_eq g w && all_eq got' want'
  | _, _ => false
  end.

Definition normalised : list (option wresult) := map (eval_worker gen_ctors) gen_workers.

(* THE TIE: three closures, in this order, with this normal form *)
Theorem worker_wiring_from_source : all_eq normalised expected = true.
Proof. vm_compute. reflexivity. Qed.

(* ---------- soundness of the comparison: [weq] only accepts what is equal up to the order of literal fields ---------- *)
(* (used below to turn the boolean tie into statements about fields) *)

Lemma nth_normalised : forall i w, nth_error expected i = Some w ->
  exists r, nth_error normalised i = Some (Some r) /\ res_eq (Some r) w = true.
Proof.
  intros i w H.
  destruct i as [|[|[|i]]]; simpl in H; try (destruct i; discriminate);
    inversion H; subst; clear H; vm_compute;
    (eexists; split; [reflexivity|reflexivity]).
Qed.

(* ---------- consequences ---------- *)

(* what a worker returns at its end, as normalised *)
Definition ret_of (i : nat) : option wexp :=
  match nth_error normalised i with Some (Some r) => Some (r_return r) | _ => None end.
Definition guards_of (i : nat) : list (wexp * bool) :=
  match nth_error normalised i with Some (Some r) => r_guards r | _ => [] end.

Definition opt_weq (a : option wexp) (b : wexp) : bool := match a with Some x => weq x b | None => false end.
Definition bind_opt {A B} (a : option A) (f : A -> option B) : option B := match a with Some x => f x | None => None end.

(* C13 / C08: every worker's entry method is called with the errgroup's context, and the context stored in the sshd
   processor (the one its hand-off selects watch unless overridden per call) is that same context *)
Theorem workers_run_on_group_context :
  forallb (fun i => match ret_of i with Some (WMethod _ _ [WVar "groupCtx"]) => true | _ => false end) [0; 1; 2] = true /\
  opt_weq (bind_opt (bind_opt (bind_opt (ret_of 0) recv_of) (field_of "SshdProcessor")) (field_of "ctx")) (WVar "groupCtx") = true /\
  resolve_shared gen_shared "groupCtx" = Some (WResult (WCall "errgroup.WithContext" [WVar "ctx"]) 1) /\
  resolve_shared gen_shared "eg" = Some (WResult (WCall "errgroup.WithContext" [WVar "ctx"]) 0).
Proof. vm_compute. repeat split; reflexivity. Qed.

(* C08: a pipe worker first checks that its path is a named pipe and returns that error (wrapped: non-nil);
   every worker's result is the result of its entry method (not swallowed, not replaced) *)
Theorem workers_return_their_errors :
  guards_eq (guards_of 0) [(WCall "common.IsNamedPipe" [WVar "sshdLogFilePath"], true)] = true /\
  guards_eq (guards_of 1) [(WCall "common.IsNamedPipe" [WVar "auditdLogFilePath"], true)] = true /\
  guards_of 2 = [] /\
  forallb (fun i => match ret_of i with Some (WMethod (WLit _ _ _) m _) => String.eqb m "Ingest" || String.eqb m "Read" | _ => false end)
          [0; 1; 2] = true.
Proof. vm_compute. repeat split; reflexivity. Qed.

(* C02 / C15 / C14: the audit processor is built from exactly four fields; there is no After filter, so
   reassemblerCB.after is the zero time and no event is dropped for its timestamp *)
Theorem audit_processor_has_no_time_filter :
  exists fs, bind_opt (ret_of 2) (fun e => option_map fields_of (recv_of e)) = Some fs /\
             length fs = 4 /\ ~ In "After" fs /\ In "Audits" fs /\ In "Logins" fs /\ In "EventW" fs /\ In "Health" fs.
Proof.
  eexists. split; [vm_compute; reflexivity|].
  repeat split; try (simpl; tauto).
  simpl. intros [H|[H|[H|[H|[]]]]]; discriminate.
Qed.

(* C05 / C10: both pipelines write to the one writer on the opened events file and share the one unbuffered channel *)
Theorem pipelines_share_writer_and_channel :
  opt_weq (bind_opt (bind_opt (bind_opt (ret_of 0) recv_of) (field_of "SshdProcessor")) (field_of "eventW")) (WVar "eventWriter") = true /\
  opt_weq (bind_opt (bind_opt (ret_of 2) recv_of) (field_of "EventW")) (WVar "eventWriter") = true /\
  opt_weq (bind_opt (bind_opt (bind_opt (ret_of 0) recv_of) (field_of "SshdProcessor")) (field_of "logins")) (WVar "logins") = true /\
  opt_weq (bind_opt (bind_opt (ret_of 2) recv_of) (field_of "Logins")) (WVar "logins") = true /\
  resolve_shared gen_shared "logins" = Some (WMake "chan common.RemoteUserLogin" None) /\
  resolve_shared gen_shared "eventWriter" =
    Some (WCall "auditevent.NewDefaultAuditEventWriter"
            [WResult (WCall "helpers.OpenAuditLogFileUntilSuccessWithContext"
                        [WResult (WCall "errgroup.WithContext" [WVar "ctx"]) 1; WVar "appEventsOutput";
                         WCall "zapr.NewLogger" [WResult (WMethod (WVar "optLoggerConfig") "Build" []) 0]]) 0]).
Proof. vm_compute. repeat split; reflexivity. Qed.

(* C08 / C13: the audit line buffer the ingester fills is the one the processor drains, of the generated capacity *)
Theorem audit_line_buffer_wiring :
  opt_weq (bind_opt (bind_opt (ret_of 1) recv_of) (field_of "AuditLogChan")) (WVar "auditLogChan") = true /\
  opt_weq (bind_opt (bind_opt (ret_of 2) recv_of) (field_of "Audits")) (WVar "auditLogChan") = true /\
  resolve_shared gen_shared "auditLogChan" = Some (WMake "chan string" (Some (WInt Gen.Consts.auditLogChanBufSize))).
Proof. vm_compute. repeat split; reflexivity. Qed.

(* C18: every worker marks readiness on RunNamedPipe's own health object; each ingester reads its own pipe *)
Theorem workers_health_and_paths :
  opt_weq (bind_opt (bind_opt (bind_opt (ret_of 0) recv_of) (field_of "namedPipeIngester")) (field_of "Health")) (WVar "h") = true /\
  opt_weq (bind_opt (bind_opt (bind_opt (ret_of 1) recv_of) (field_of "namedPipeIngester")) (field_of "Health")) (WVar "h") = true /\
  opt_weq (bind_opt (bind_opt (ret_of 2) recv_of) (field_of "Health")) (WVar "h") = true /\
  opt_weq (bind_opt (bind_opt (ret_of 0) recv_of) (field_of "FilePath")) (WVar "sshdLogFilePath") = true /\
  opt_weq (bind_opt (bind_opt (ret_of 1) recv_of) (field_of "FilePath")) (WVar "auditdLogFilePath") = true.
Proof. vm_compute. repeat split; reflexivity. Qed.

(* ---------- the normaliser on small examples: what it accepts and what it rejects ---------- *)

(* a renamed local variable and fields written in another order give the same normal form *)
Example harmless_rewrite_same_normal_form :
  res_eq (eval_worker gen_ctors (mkWorker 0
    [WSet ["proc"] (WLit "auditd.Auditd" false [("Health", WVar "h"); ("EventW", WVar "eventWriter"); ("Logins", WVar "logins"); ("Audits", WVar "auditLogChan")]);
     WSet ["e"] (WMethod (WVar "proc") "Read" [WVar "groupCtx"]); WReturn (WVar "e")])) exp_audit_processor = true.
Proof. vm_compute. reflexivity. Qed.

(* the processor built with the process context instead of the group context is rejected *)
Example wrong_context_rejected :
  res_eq (eval_worker gen_ctors (mkWorker 0
    [WSet ["err"] (WCall "common.IsNamedPipe" [WVar "sshdLogFilePath"]); WIfErrReturn "err" true;
     WSet ["p"] (WCall "sshd.NewSshdProcessor" [WVar "ctx"; WVar "logins"; WVar "nodeName"; WVar "mid"; WVar "eventWriter"; WVar "pprov"]);
     WSet ["npi"] (WCall "namedpipe.NewNamedPipeIngester" [WVar "logger"; WVar "h"]);
     WSet ["sli"] (WCall "syslog.NewSyslogIngester" [WVar "sshdLogFilePath"; WVar "p"; WVar "npi"]);
     WReturn (WMethod (WVar "sli") "Ingest" [WVar "groupCtx"])])) exp_sshd_ingester = false.
Proof. vm_compute. reflexivity. Qed.

(* an added After field is rejected *)
Example after_filter_rejected :
  res_eq (eval_worker gen_ctors (mkWorker 0
    [WReturn (WMethod (WLit "auditd.Auditd" false [("After", WCall "time.Now" []); ("Audits", WVar "auditLogChan"); ("Logins", WVar "logins");
                                                  ("EventW", WVar "eventWriter"); ("Health", WVar "h")]) "Read" [WVar "groupCtx"])]))
    exp_audit_processor = false.
Proof. vm_compute. reflexivity. Qed.
