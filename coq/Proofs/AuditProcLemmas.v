(* Proofs about Model/AuditProc.v (used by Props/C15.v). *)
From Coq Require Import List Bool Arith NArith Lia Permutation Sorting.Sorted.
Import ListNotations.
From AM Require Import Model.AuditProc.

Section ReassemblerLemmas.
  Variable msg : Type.
  Variable mseq : msg -> N.
  Variable mtype : msg -> nat.

  Notation rev := (rev msg).
  Notation non_eoe := (non_eoe msg mtype).
  Notation closes := (closes msg mtype).
  Notation put := (put msg mseq mtype).
  Notation put_ev := (put_ev msg mseq mtype).
  Notation mark_done := (mark_done msg).
  Notation cleanup := (cleanup msg).
  Notation rstep := (rstep msg mseq mtype).
  Notation rrun := (rrun msg mseq mtype).
  Notation recs_of := (recs_of msg mseq mtype).
  Notation ops_msgs := (ops_msgs msg).
  Notation op_msgs := (op_msgs msg).

  Definition allmsgs (l : list rev) : list msg := concat (map e_msgs l).

  Lemma allmsgs_app a b : allmsgs (a ++ b) = allmsgs a ++ allmsgs b.
  Proof. unfold allmsgs. rewrite map_app, concat_app. reflexivity. Qed.

  (* ---------- CleanUp never discards: evicted ++ kept = the buffer ---------- *)
  Lemma cleanup_app maxsz now l : fst (cleanup maxsz now l) ++ snd (cleanup maxsz now l) = l.
  Proof.
    induction l as [|e r IH]; [reflexivity|]. simpl.
    destruct (evictable msg maxsz now e (e :: r)); simpl; [rewrite IH|]; reflexivity.
  Qed.

  Lemma mark_done_msgs s l : map e_msgs (mark_done s l) = map e_msgs l.
  Proof.
    induction l as [|e r IH]; [reflexivity|]. simpl.
    destruct (s =? e_seq e)%N; simpl; [|rewrite IH]; reflexivity.
  Qed.

  Lemma mark_done_seqs s l : map e_seq (mark_done s l) = map e_seq l.
  Proof.
    induction l as [|e r IH]; [reflexivity|]. simpl.
    destruct (s =? e_seq e)%N; simpl; [|rewrite IH]; reflexivity.
  Qed.

  Lemma put_ev_perm exp m l : Permutation (allmsgs (put_ev exp m l)) (m :: allmsgs l).
  Proof.
    induction l as [|e r IH]; [reflexivity|]. simpl.
    destruct (mseq m =? e_seq e)%N.
    - unfold allmsgs. simpl. rewrite <- app_assoc. simpl.
      apply Permutation_sym. apply Permutation_middle.
    - destruct (mseq m <? e_seq e)%N.
      + reflexivity.
      + unfold allmsgs in *. simpl.
        eapply Permutation_trans; [apply Permutation_app_head; exact IH|].
        apply Permutation_sym. apply Permutation_middle.
  Qed.

  Lemma put_perm timeout now m l :
    Permutation (allmsgs (put timeout now m l)) (allmsgs l ++ filter non_eoe [m]).
  Proof.
    unfold put, AuditProc.non_eoe. simpl. destruct (is_eoe (mtype m)); simpl.
    - unfold allmsgs. rewrite mark_done_msgs, app_nil_r. reflexivity.
    - eapply Permutation_trans; [apply put_ev_perm|]. apply Permutation_cons_append.
  Qed.

  Lemma rstep_perm maxsz timeout st o :
    Permutation (allmsgs (snd (fst (rstep maxsz timeout st o))) ++ allmsgs (r_evs (fst (fst (rstep maxsz timeout st o)))))
                (allmsgs (r_evs st) ++ filter non_eoe (op_msgs o)).
  Proof.
    destruct o as [now m|now|]; simpl.
    - rewrite <- allmsgs_app, cleanup_app. apply put_perm.
    - rewrite <- allmsgs_app, cleanup_app, app_nil_r. reflexivity.
    - rewrite !app_nil_r. reflexivity.
  Qed.

  Lemma rrun_app maxsz timeout st a b :
    rrun maxsz timeout st (a ++ b) =
    (fst (rrun maxsz timeout (fst (rrun maxsz timeout st a)) b),
     snd (rrun maxsz timeout st a) ++ snd (rrun maxsz timeout (fst (rrun maxsz timeout st a)) b)).
  Proof.
    revert st. induction a as [|o r IH]; intros st; simpl.
    - destruct (rrun maxsz timeout st b); reflexivity.
    - destruct (rstep maxsz timeout st o) as [[st' ev] lost].
      rewrite IH. destruct (rrun maxsz timeout st' r) as [st2 ev2]. simpl.
      destruct (rrun maxsz timeout st2 b) as [st3 ev3]. simpl. rewrite app_assoc. reflexivity.
  Qed.

  Lemma ops_msgs_app a b : ops_msgs (a ++ b) = ops_msgs a ++ ops_msgs b.
  Proof. unfold AuditProc.ops_msgs. apply flat_map_app. Qed.

  (* every pushed non-EOE record is in exactly one evicted-or-buffered event *)
  Lemma rrun_perm maxsz timeout st ops :
    Permutation (allmsgs (snd (rrun maxsz timeout st ops)) ++ allmsgs (r_evs (fst (rrun maxsz timeout st ops))))
                (allmsgs (r_evs st) ++ filter non_eoe (ops_msgs ops)).
  Proof.
    revert st. induction ops as [|o r IH]; intros st; simpl.
    - rewrite app_nil_r. reflexivity.
    - pose proof (rstep_perm maxsz timeout st o) as H.
      destruct (rstep maxsz timeout st o) as [[st' ev] lost]. simpl in H.
      specialize (IH st'). destruct (rrun maxsz timeout st' r) as [st2 ev2]. simpl in *.
      rewrite allmsgs_app, filter_app, <- app_assoc.
      eapply Permutation_trans; [apply Permutation_app_head; exact IH|].
      rewrite !app_assoc. apply Permutation_app_tail. exact H.
  Qed.

  (* ---------- grouping ---------- *)
  Definition closed (s : N) (p : list msg) : Prop :=
    exists m, In m p /\ mseq m = s /\ closes m = true.

  Lemma recs_of_app s a b : recs_of s (a ++ b) = recs_of s a ++ recs_of s b.
  Proof. apply filter_app. Qed.

  Lemma recs_of_in s p m : In m (recs_of s p) <-> In m p /\ mseq m = s /\ non_eoe m = true.
  Proof.
    unfold AuditProc.recs_of. rewrite filter_In, andb_true_iff, N.eqb_eq. tauto.
  Qed.

  Lemma recs_of_snoc_same p m : non_eoe m = true -> recs_of (mseq m) (p ++ [m]) = recs_of (mseq m) p ++ [m].
  Proof. intros H. rewrite recs_of_app. simpl. rewrite N.eqb_refl, H. reflexivity. Qed.

  Lemma recs_of_snoc_other s p m : mseq m <> s \/ non_eoe m = false -> recs_of s (p ++ [m]) = recs_of s p.
  Proof.
    intros H. rewrite recs_of_app. simpl.
    destruct (N.eqb_spec (mseq m) s) as [E|E]; simpl.
    - destruct H as [H|H]; [contradiction|]. rewrite H. apply app_nil_r.
    - apply app_nil_r.
  Qed.

  (* the invariant of a run; p = records pushed so far, G = events evicted so far *)
  Record ginv (timeout : nat) (p : list msg) (evs G : list rev) : Prop := {
    gi_sorted : StronglySorted N.lt (map e_seq evs);
    gi_evs : forall e, In e evs -> e_msgs e = recs_of (e_seq e) p /\ e_msgs e <> [] /\
                                   (e_done e = true -> closed (e_seq e) p) /\ timeout <= e_exp e;
    gi_G : forall e, In e G -> e_msgs e = recs_of (e_seq e) p /\ e_msgs e <> [] /\ closed (e_seq e) p;
    gi_nodup : NoDup (map e_seq (G ++ evs));
    gi_cover : forall m, In m p -> non_eoe m = true -> In (mseq m) (map e_seq (G ++ evs))
  }.

  Lemma closed_snoc s p m : closed s p -> closed s (p ++ [m]).
  Proof. intros (x & H1 & H2). exists x. split; [apply in_or_app; left; exact H1|exact H2]. Qed.

  Lemma sorted_lt_notin s l : StronglySorted N.lt (s :: l) -> ~ In s l.
  Proof.
    intros H. inversion H as [|? ? _ Hall]; subst. rewrite Forall_forall in Hall.
    intros Hin. specialize (Hall _ Hin). lia.
  Qed.

  (* put_ev on a sorted buffer: the sequence numbers *)
  Lemma put_ev_seqs_in exp m l : StronglySorted N.lt (map e_seq l) -> In (mseq m) (map e_seq l) ->
    map e_seq (put_ev exp m l) = map e_seq l.
  Proof.
    induction l as [|e r IH]; simpl; intros Hs Hin; [contradiction|].
    destruct (N.eqb_spec (mseq m) (e_seq e)) as [E|E]; [reflexivity|].
    destruct (N.ltb_spec (mseq m) (e_seq e)) as [L|L].
    - exfalso. destruct Hin as [Hin|Hin]; [congruence|].
      inversion Hs as [|? ? _ Hall]; subst. rewrite Forall_forall in Hall. specialize (Hall _ Hin). lia.
    - simpl. f_equal. apply IH; [inversion Hs; assumption|]. destruct Hin as [Hin|Hin]; [congruence|exact Hin].
  Qed.

  Lemma put_ev_seqs_new exp m l : ~ In (mseq m) (map e_seq l) ->
    Permutation (map e_seq (put_ev exp m l)) (mseq m :: map e_seq l).
  Proof.
    induction l as [|e r IH]; simpl; intros Hn; [reflexivity|].
    destruct (N.eqb_spec (mseq m) (e_seq e)) as [E|E]; [exfalso; apply Hn; left; congruence|].
    destruct (mseq m <? e_seq e)%N; [reflexivity|].
    simpl. eapply Permutation_trans; [apply perm_skip; apply IH; tauto|]. apply perm_swap.
  Qed.

  Lemma put_ev_sorted exp m l : StronglySorted N.lt (map e_seq l) ->
    StronglySorted N.lt (map e_seq (put_ev exp m l)).
  Proof.
    induction l as [|e r IH]; simpl; intros Hs.
    - constructor; constructor.
    - destruct (N.eqb_spec (mseq m) (e_seq e)) as [E|E]; [exact Hs|].
      destruct (N.ltb_spec (mseq m) (e_seq e)) as [L|L].
      + simpl. constructor; [exact Hs|]. constructor; [exact L|].
        inversion Hs as [|? ? _ Hall]; subst. rewrite Forall_forall in *. intros x Hx. specialize (Hall x Hx). lia.
      + simpl. inversion Hs as [|? ? Hr Hall]; subst. constructor; [apply IH; exact Hr|].
        rewrite Forall_forall in *. intros x Hx.
        assert (Hx' : x = mseq m \/ In x (map e_seq r)).
        { clear -Hx. induction r as [|e' r' IH']; simpl in *.
          - destruct Hx as [Hx|[]]. left. symmetry. exact Hx.
          - destruct (mseq m =? e_seq e')%N; simpl in *; [right; exact Hx|].
            destruct (mseq m <? e_seq e')%N; simpl in *.
            + destruct Hx as [Hx|Hx]; [left; symmetry; exact Hx|right; exact Hx].
            + destruct Hx as [Hx|Hx]; [right; left; exact Hx|]. destruct (IH' Hx) as [H|H]; [left; exact H|right; right; exact H]. }
        destruct Hx' as [->|Hx']; [lia|apply Hall; exact Hx'].
  Qed.

  (* put_ev on a sorted buffer: the elements *)
  Lemma put_ev_elems exp m l e' : StronglySorted N.lt (map e_seq l) -> In e' (put_ev exp m l) ->
    (In e' l /\ e_seq e' <> mseq m) \/
    (exists e, In e l /\ e_seq e = mseq m /\ e' = ev_add msg mtype m e) \/
    (e' = ev_new msg mseq mtype exp m /\ ~ In (mseq m) (map e_seq l)).
  Proof.
    induction l as [|e r IH]; simpl; intros Hs Hin.
    - destruct Hin as [<-|[]]. right; right. split; [reflexivity|tauto].
    - destruct (N.eqb_spec (mseq m) (e_seq e)) as [E|E].
      + destruct Hin as [<-|Hin].
        * right; left. exists e. split; [left; reflexivity|]. split; [congruence|reflexivity].
        * left. split; [right; exact Hin|].
          inversion Hs as [|? ? _ Hall]; subst. rewrite Forall_forall in Hall.
          specialize (Hall (e_seq e') (in_map e_seq _ _ Hin)). lia.
      + destruct (N.ltb_spec (mseq m) (e_seq e)) as [L|L].
        * destruct Hin as [<-|Hin].
          -- right; right. split; [reflexivity|]. intros [H|H]; [congruence|].
             inversion Hs as [|? ? _ Hall]; subst. rewrite Forall_forall in Hall. specialize (Hall _ H). lia.
          -- left. split; [exact Hin|].
             destruct Hin as [<-|Hin]; [congruence|].
             inversion Hs as [|? ? _ Hall]; subst. rewrite Forall_forall in Hall.
             specialize (Hall (e_seq e') (in_map e_seq _ _ Hin)). lia.
        * destruct Hin as [<-|Hin].
          -- left. split; [left; reflexivity|congruence].
          -- inversion Hs as [|? ? Hr Hall]; subst.
             destruct (IH Hr Hin) as [[H1 H2]|[(e0 & H1 & H2 & H3)|[H1 H2]]].
             ++ left. split; [right; exact H1|exact H2].
             ++ right; left. exists e0. split; [right; exact H1|]. split; assumption.
             ++ right; right. split; [exact H1|]. intros [H|H]; [congruence|contradiction].
  Qed.

  Lemma mark_done_elems s l e' : In e' (mark_done s l) ->
    In e' l \/ (exists e, In e l /\ e_seq e = s /\ e' = set_done msg e).
  Proof.
    induction l as [|e r IH]; simpl; [tauto|].
    destruct (N.eqb_spec s (e_seq e)) as [E|E]; simpl.
    - intros [<-|H]; [right; exists e; split; [left; reflexivity|split; [congruence|reflexivity]]|left; right; exact H].
    - intros [<-|H]; [left; left; reflexivity|].
      destruct (IH H) as [H1|(e0 & H1 & H2 & H3)]; [left; right; exact H1|].
      right. exists e0. split; [right; exact H1|split; assumption].
  Qed.

  (* pushing a record whose event is not closed yet *)
  Lemma ginv_put timeout now p evs G m :
    now <= timeout ->
    ginv timeout p evs G ->
    (non_eoe m = true -> ~ closed (mseq m) p) ->
    ginv timeout (p ++ [m]) (put timeout now m evs) G.
  Proof.
    intros Hnow [Hs He HG Hnd Hc] Hopen. unfold AuditProc.put.
    destruct (is_eoe (mtype m)) eqn:Heoe.
    - (* EOE: only marks *)
      assert (Hne : non_eoe m = false) by (unfold AuditProc.non_eoe; rewrite Heoe; reflexivity).
      constructor.
      + rewrite mark_done_seqs. exact Hs.
      + intros e' Hin. destruct (mark_done_elems _ _ _ Hin) as [H|(e & H1 & H2 & ->)].
        * destruct (He _ H) as (A & B & C & D). rewrite recs_of_snoc_other by (right; exact Hne).
          repeat split; try assumption. intros Hd. apply closed_snoc. apply C. exact Hd.
        * destruct (He _ H1) as (A & B & C & D). simpl. rewrite recs_of_snoc_other by (right; exact Hne).
          repeat split; try assumption. intros _. exists m. split; [apply in_or_app; right; left; reflexivity|].
          split; [symmetry; exact H2|]. unfold AuditProc.closes. rewrite Heoe. reflexivity.
      + intros e Hin. destruct (HG _ Hin) as (A & B & C). rewrite recs_of_snoc_other by (right; exact Hne).
        repeat split; try assumption. apply closed_snoc. exact C.
      + rewrite map_app, mark_done_seqs, <- map_app. exact Hnd.
      + intros x Hx Hxn. rewrite map_app, mark_done_seqs, <- map_app.
        apply in_app_or in Hx. destruct Hx as [Hx|[<-|[]]]; [apply Hc; assumption|congruence].
    - assert (Hne : non_eoe m = true) by (unfold AuditProc.non_eoe; rewrite Heoe; reflexivity).
      specialize (Hopen Hne).
      assert (HnotG : ~ In (mseq m) (map e_seq G)).
      { intros Hin. apply in_map_iff in Hin. destruct Hin as (e & E1 & E2).
        destruct (HG _ E2) as (_ & _ & C). apply Hopen. rewrite <- E1. exact C. }
      constructor.
      + apply put_ev_sorted. exact Hs.
      + intros e' Hin. destruct (put_ev_elems _ _ _ _ Hs Hin) as [[H1 H2]|[(e & H1 & H2 & ->)|[-> H2]]].
        * destruct (He _ H1) as (A & B & C & D). rewrite recs_of_snoc_other by (left; congruence).
          repeat split; try assumption. intros Hd. apply closed_snoc. apply C. exact Hd.
        * destruct (He _ H1) as (A & B & C & D). simpl. rewrite H2, recs_of_snoc_same by exact Hne.
          rewrite <- H2, <- A. repeat split.
          -- intros H. apply app_eq_nil in H. destruct H as [_ H]. discriminate.
          -- intros Hd. apply orb_true_iff in Hd. destruct Hd as [Hd|Hd].
             ++ apply closed_snoc. apply C. exact Hd.
             ++ exists m. split; [apply in_or_app; right; left; reflexivity|]. split; [symmetry; exact H2|].
                unfold AuditProc.closes. rewrite Hd. apply orb_true_r.
          -- exact D.
        * simpl. rewrite recs_of_snoc_same by exact Hne.
          assert (Hemp : recs_of (mseq m) p = []).
          { destruct (recs_of (mseq m) p) as [|x xs] eqn:Hr; [reflexivity|exfalso].
            assert (Hx : In x (recs_of (mseq m) p)) by (rewrite Hr; left; reflexivity).
            apply recs_of_in in Hx. destruct Hx as (X1 & X2 & X3).
            specialize (Hc _ X1 X3). rewrite X2, map_app in Hc. apply in_app_or in Hc. tauto. }
          rewrite Hemp. simpl. repeat split.
          -- discriminate.
          -- intros Hd. exists m. split; [apply in_or_app; right; left; reflexivity|]. split; [reflexivity|].
             unfold AuditProc.closes. rewrite Hd. apply orb_true_r.
          -- lia.
      + intros e Hin. destruct (HG _ Hin) as (A & B & C).
        assert (e_seq e <> mseq m).
        { intros E. apply Hopen. rewrite <- E. exact C. }
        rewrite recs_of_snoc_other by (left; congruence).
        repeat split; try assumption. apply closed_snoc. exact C.
      + rewrite map_app in *.
        destruct (in_dec N.eq_dec (mseq m) (map e_seq evs)) as [Hin|Hnin].
        * rewrite put_ev_seqs_in by assumption. exact Hnd.
        * eapply Permutation_NoDup.
          -- apply Permutation_sym. eapply Permutation_trans.
             ++ apply Permutation_app_head. apply put_ev_seqs_new. exact Hnin.
             ++ apply Permutation_sym. apply Permutation_middle.
          -- constructor; [|exact Hnd]. intros H. apply in_app_or in H. tauto.
      + intros x Hx Hxn. rewrite map_app in *.
        assert (Hsub : forall s, In s (map e_seq evs) -> In s (map e_seq (put_ev (now + timeout) m evs))).
        { intros s Hin0. destruct (in_dec N.eq_dec (mseq m) (map e_seq evs)) as [Hin|Hnin].
          - rewrite put_ev_seqs_in by assumption. exact Hin0.
          - eapply Permutation_in; [apply Permutation_sym; apply put_ev_seqs_new; exact Hnin|]. right. exact Hin0. }
        assert (Hm : In (mseq m) (map e_seq (put_ev (now + timeout) m evs))).
        { destruct (in_dec N.eq_dec (mseq m) (map e_seq evs)) as [Hin|Hnin].
          - rewrite put_ev_seqs_in by assumption. exact Hin.
          - eapply Permutation_in; [apply Permutation_sym; apply put_ev_seqs_new; exact Hnin|]. left. reflexivity. }
        apply in_app_or in Hx. destruct Hx as [Hx|[<-|[]]].
        * specialize (Hc _ Hx Hxn). apply in_app_or in Hc. apply in_or_app.
          destruct Hc as [Hc|Hc]; [left; exact Hc|right; apply Hsub; exact Hc].
        * apply in_or_app. right. exact Hm.
  Qed.

  (* without expiry and overflow CleanUp evicts complete events only *)
  Lemma cleanup_done maxsz now l :
    length l <= maxsz -> (forall e, In e l -> now <= e_exp e) ->
    forall e, In e (fst (cleanup maxsz now l)) -> e_done e = true.
  Proof.
    induction l as [|e r IH]; simpl; intros Hl Hexp x Hx; [contradiction|].
    unfold evictable in Hx.
    assert (H1 : (maxsz <? length (e :: r)) = false) by (apply Nat.ltb_ge; simpl; lia).
    assert (H2 : (e_exp e <? now) = false) by (apply Nat.ltb_ge; apply Hexp; left; reflexivity).
    rewrite H1, H2, !orb_false_r in Hx.
    destruct (e_done e) eqn:Hd; simpl in Hx; [|contradiction].
    destruct Hx as [<-|Hx]; [exact Hd|].
    apply IH; [lia|intros; apply Hexp; right; assumption|exact Hx].
  Qed.

  Lemma sorted_app_r (a b : list N) : StronglySorted N.lt (a ++ b) -> StronglySorted N.lt b.
  Proof. induction a as [|x a IH]; simpl; intros H; [exact H|]. inversion H; subst. apply IH. assumption. Qed.

  Lemma ginv_cleanup maxsz timeout now p evs G :
    now <= timeout -> length evs <= maxsz ->
    ginv timeout p evs G ->
    ginv timeout p (snd (cleanup maxsz now evs)) (G ++ fst (cleanup maxsz now evs)).
  Proof.
    intros Hnow Hl [Hs He HG Hnd Hc].
    pose proof (cleanup_app maxsz now evs) as Happ.
    assert (Hdone : forall e, In e (fst (cleanup maxsz now evs)) -> e_done e = true).
    { apply cleanup_done; [exact Hl|]. intros e Hin. destruct (He _ Hin) as (_ & _ & _ & D). lia. }
    set (a := fst (cleanup maxsz now evs)) in *. set (b := snd (cleanup maxsz now evs)) in *.
    constructor.
    - rewrite <- Happ, map_app in Hs. apply sorted_app_r in Hs. exact Hs.
    - intros e Hin. apply He. rewrite <- Happ. apply in_or_app. right. exact Hin.
    - intros e Hin. apply in_app_or in Hin. destruct Hin as [Hin|Hin]; [apply HG; exact Hin|].
      assert (Hin' : In e evs) by (rewrite <- Happ; apply in_or_app; left; exact Hin).
      destruct (He _ Hin') as (A & B & C & _). repeat split; try assumption. apply C. apply Hdone. exact Hin.
    - rewrite <- app_assoc, Happ. exact Hnd.
    - intros m Hm Hn. rewrite <- app_assoc, Happ. apply Hc; assumption.
  Qed.

  Lemma term_last_open ms pre m post :
    term_last msg mseq mtype ms -> ms = pre ++ m :: post -> non_eoe m = true -> ~ closed (mseq m) pre.
  Proof.
    intros Ht Hms Hne (x & Hx & E & Hcl).
    apply in_split in Hx. destruct Hx as (p1 & p2 & ->).
    apply (Ht p1 x (p2 ++ m :: post) m).
    - rewrite Hms, <- app_assoc. reflexivity.
    - exact Hcl.
    - apply in_or_app. right. left. reflexivity.
    - exact Hne.
    - congruence.
  Qed.

  Lemma term_last_prefix a b : term_last msg mseq mtype (a ++ b) -> term_last msg mseq mtype a.
  Proof.
    intros H pre m post m' E Hc Hin Hn. apply (H pre m (post ++ b) m'); try assumption.
    - rewrite E, <- app_assoc. reflexivity.
    - apply in_or_app. left. exact Hin.
  Qed.

  (* the invariant along a run (no Close inside) *)
  Lemma ginv_run maxsz timeout ops : forall p st G,
    (forall o, In o ops -> op_time msg o <= timeout /\ o <> RClose) ->
    size_ok msg mseq mtype maxsz timeout st ops ->
    term_last msg mseq mtype (p ++ ops_msgs ops) ->
    ginv timeout p (r_evs st) G ->
    ginv timeout (p ++ ops_msgs ops) (r_evs (fst (rrun maxsz timeout st ops))) (G ++ snd (rrun maxsz timeout st ops)).
  Proof.
    induction ops as [|o r IH]; intros p st G Ht Hsz Hterm Hinv.
    - simpl. rewrite !app_nil_r. exact Hinv.
    - simpl in Hsz. destruct Hsz as [Hsz1 Hsz2].
      destruct (Ht o (or_introl eq_refl)) as [Hto Hnc].
      assert (Ht' : forall o', In o' r -> op_time msg o' <= timeout /\ o' <> RClose) by (intros; apply Ht; right; assumption).
      destruct o as [now m|now|]; [| |congruence]; simpl in *.
      + set (evs1 := put timeout now m (r_evs st)) in *.
        assert (Hinv1 : ginv timeout (p ++ [m]) evs1 G).
        { apply ginv_put; [exact Hto|exact Hinv|]. intros Hne.
          eapply term_last_open; [exact Hterm|reflexivity|exact Hne]. }
        pose proof (ginv_cleanup maxsz timeout now _ _ _ Hto Hsz1 Hinv1) as Hinv2.
        specialize (IH (p ++ [m]) {| r_evs := snd (cleanup maxsz now evs1); r_last := last_of msg (r_last st) (fst (cleanup maxsz now evs1)) |}
                       (G ++ fst (cleanup maxsz now evs1)) Ht' Hsz2).
        rewrite <- app_assoc in IH. simpl in IH. specialize (IH Hterm Hinv2).
        destruct (rrun maxsz timeout _ r) as [st2 ev2]. simpl in *. rewrite app_assoc. exact IH.
      + pose proof (ginv_cleanup maxsz timeout now _ _ _ Hto Hsz1 Hinv) as Hinv2.
        specialize (IH p {| r_evs := snd (cleanup maxsz now (r_evs st)); r_last := last_of msg (r_last st) (fst (cleanup maxsz now (r_evs st))) |}
                       (G ++ fst (cleanup maxsz now (r_evs st))) Ht' Hsz2 Hterm Hinv2).
        destruct (rrun maxsz timeout _ r) as [st2 ev2]. simpl in *. rewrite app_assoc. exact IH.
  Qed.

  Lemma ginv_init timeout : ginv timeout [] [] [].
  Proof.
    constructor; simpl; try (intros; contradiction).
    - constructor.
    - constructor.
  Qed.

  (* C15_grouping, reassembler level *)
  Theorem grouping maxsz timeout ops :
    (forall o, In o ops -> op_time msg o <= timeout /\ o <> RClose) ->
    size_ok msg mseq mtype maxsz timeout (rinit msg) ops ->
    term_last msg mseq mtype (ops_msgs ops) ->
    exists seqs,
      NoDup seqs /\
      groups_of msg mseq mtype maxsz timeout ops = map (fun s => recs_of s (ops_msgs ops)) seqs /\
      (forall s, In s seqs <-> recs_of s (ops_msgs ops) <> []).
  Proof.
    intros Ht Hsz Hterm.
    pose proof (ginv_run maxsz timeout ops [] (rinit msg) [] Ht Hsz Hterm (ginv_init timeout)) as H.
    unfold groups_of. destruct (rrun maxsz timeout (rinit msg) ops) as [st ev]. simpl in H.
    destruct H as [Hs He HG Hnd Hc].
    exists (map e_seq (ev ++ r_evs st)). split; [exact Hnd|]. split.
    - rewrite map_map. apply map_ext_in. intros e Hin. apply in_app_or in Hin.
      destruct Hin as [Hin|Hin]; [apply HG|apply He]; exact Hin.
    - intros s. split.
      + intros Hin. apply in_map_iff in Hin. destruct Hin as (e & <- & Hin). apply in_app_or in Hin.
        destruct Hin as [Hin|Hin]; [destruct (HG _ Hin) as (A & B & _)|destruct (He _ Hin) as (A & B & _)]; rewrite <- A; exact B.
      + intros Hne. destruct (recs_of s (ops_msgs ops)) as [|x xs] eqn:Hr; [congruence|].
        assert (Hx : In x (recs_of s (ops_msgs ops))) by (rewrite Hr; left; reflexivity).
        apply recs_of_in in Hx. destruct Hx as (X1 & X2 & X3). rewrite <- X2. apply Hc; assumption.
  Qed.

  (* a sufficient condition on the stream alone for size_ok: no more than maxsz distinct
     sequence numbers (the buffer holds at most one event per sequence number) *)
  Lemma put_ev_length exp m l : length (put_ev exp m l) <= S (length l).
  Proof.
    induction l as [|e r IH]; simpl; [lia|].
    destruct (mseq m =? e_seq e)%N; simpl; [lia|]. destruct (mseq m <? e_seq e)%N; simpl; lia.
  Qed.

  Lemma put_ev_seqs_incl exp m l x : In x (map e_seq (put_ev exp m l)) -> x = mseq m \/ In x (map e_seq l).
  Proof.
    induction l as [|e r IH]; simpl.
    - intros [H|[]]. left. symmetry. exact H.
    - destruct (mseq m =? e_seq e)%N; simpl; [tauto|].
      destruct (mseq m <? e_seq e)%N; simpl.
      + intros [H|H]; [left; symmetry; exact H|right; exact H].
      + intros [H|H]; [right; left; exact H|]. destruct (IH H); [left|right; right]; assumption.
  Qed.

  Lemma sorted_nodup (l : list N) : StronglySorted N.lt l -> NoDup l.
  Proof.
    induction l as [|x r IH]; intros H; [constructor|].
    constructor; [apply sorted_lt_notin; exact H|apply IH; inversion H; assumption].
  Qed.

  Lemma put_sorted timeout now m l : StronglySorted N.lt (map e_seq l) ->
    StronglySorted N.lt (map e_seq (put timeout now m l)).
  Proof.
    intros H. unfold AuditProc.put. destruct (is_eoe (mtype m)); [rewrite mark_done_seqs; exact H|apply put_ev_sorted; exact H].
  Qed.

  Lemma put_seqs_incl timeout now m l x : In x (map e_seq (put timeout now m l)) -> x = mseq m \/ In x (map e_seq l).
  Proof.
    unfold AuditProc.put. destruct (is_eoe (mtype m)); [rewrite mark_done_seqs; tauto|apply put_ev_seqs_incl].
  Qed.

  Lemma cleanup_snd_sorted maxsz now l : StronglySorted N.lt (map e_seq l) ->
    StronglySorted N.lt (map e_seq (snd (cleanup maxsz now l))).
  Proof.
    intros H. rewrite <- (cleanup_app maxsz now l), map_app in H. apply sorted_app_r in H. exact H.
  Qed.

  Lemma cleanup_snd_incl maxsz now l x : In x (map e_seq (snd (cleanup maxsz now l))) -> In x (map e_seq l).
  Proof.
    intros H. rewrite <- (cleanup_app maxsz now l), map_app. apply in_or_app. right. exact H.
  Qed.

  (* a condition on the stream alone that implies size_ok: all sequence numbers of the pushed
     records lie in a set of at most maxsz numbers (the buffer holds one event per number) *)
  Lemma size_ok_distinct maxsz timeout (S : list N) : length S <= maxsz ->
    forall ops st,
    StronglySorted N.lt (map e_seq (r_evs st)) -> incl (map e_seq (r_evs st)) S ->
    (forall m, In m (ops_msgs ops) -> In (mseq m) S) ->
    size_ok msg mseq mtype maxsz timeout st ops.
  Proof.
    intros HS. induction ops as [|o r IH]; intros st Hs Hi Hm; simpl; [exact I|].
    assert (Hm' : forall m, In m (ops_msgs r) -> In (mseq m) S).
    { intros m H. apply Hm. unfold AuditProc.ops_msgs. simpl. apply in_or_app. right. exact H. }
    assert (Hlen : forall l : list rev, StronglySorted N.lt (map e_seq l) -> incl (map e_seq l) S -> length l <= maxsz).
    { intros l H1 H2. rewrite <- (map_length (@e_seq msg)). eapply Nat.le_trans; [|exact HS].
      apply NoDup_incl_length; [apply sorted_nodup; exact H1|exact H2]. }
    destruct o as [now m|now|]; simpl.
    - assert (Hs1 : StronglySorted N.lt (map e_seq (put timeout now m (r_evs st)))) by (apply put_sorted; exact Hs).
      assert (Hi1 : incl (map e_seq (put timeout now m (r_evs st))) S).
      { intros x Hx. destruct (put_seqs_incl _ _ _ _ _ Hx) as [->|H]; [|apply Hi; exact H].
        apply Hm. unfold AuditProc.ops_msgs. simpl. left. reflexivity. }
      split; [apply Hlen; assumption|].
      apply IH; simpl; [apply cleanup_snd_sorted; exact Hs1| |exact Hm'].
      intros x Hx. apply Hi1. eapply cleanup_snd_incl. exact Hx.
    - split; [apply Hlen; assumption|].
      apply IH; simpl; [apply cleanup_snd_sorted; exact Hs| |exact Hm'].
      intros x Hx. apply Hi. eapply cleanup_snd_incl. exact Hx.
    - split; [apply Hlen; assumption|].
      apply IH; simpl; [constructor|intros x []|exact Hm'].
  Qed.

  Theorem size_ok_few_seqs maxsz timeout ops (S : list N) :
    length S <= maxsz -> (forall m, In m (ops_msgs ops) -> In (mseq m) S) ->
    size_ok msg mseq mtype maxsz timeout (rinit msg) ops.
  Proof.
    intros HS Hm. apply (size_ok_distinct maxsz timeout S HS); simpl; [constructor|intros x []|exact Hm].
  Qed.
End ReassemblerLemmas.

Section ProcessorLemmas.
  Variables line msg event cerr login AS : Type.
  Variable is_empty : line -> bool.
  Variable parse : line -> option msg.
  Variable mseq : msg -> N.
  Variable mtype : msg -> nat.
  Variable coalesce : list msg -> option event.
  Variable old : event -> bool.
  Variable audit : AS -> event -> AS * option cerr.
  Variable rlogin : AS -> login -> AS * option cerr.
  Variable maxsz timeout : nat.

  Notation parse_loop := (parse_loop line msg is_empty parse).
  Notation pushes := (pushes line msg is_empty parse).
  Notation cb := (cb msg event cerr AS).
  Notation pst := (pst line msg event cerr AS).
  Notation rerr := (rerr msg cerr).
  Notation deliver := (deliver msg event cerr AS coalesce old audit).
  Notation callback := (callback msg event cerr AS coalesce old audit).
  Notation send := (send msg event cerr AS).
  Notation reass := (reass line msg event cerr AS mseq mtype coalesce old audit maxsz timeout).
  Notation on_line := (on_line line msg event cerr AS is_empty parse mseq mtype coalesce old audit maxsz timeout).
  Notation step := (step line msg event cerr login AS is_empty parse mseq mtype coalesce old audit rlogin maxsz timeout).
  Notation read_from := (read_from line msg event cerr login AS is_empty parse mseq mtype coalesce old audit rlogin maxsz timeout).
  Notation read := (read line msg event cerr login AS is_empty parse mseq mtype coalesce old audit rlogin maxsz timeout).
  Notation lines_of := (lines_of line login).
  Notation non_eoe := (non_eoe msg mtype).
  Notation ops_msgs := (ops_msgs msg).
  Notation inp := (inp line login).
  Notation result := (result line msg cerr).

  (* ---------- parseAuditLogs ---------- *)
  Lemma parse_loop_spec ls :
    match snd (parse_loop ls) with
    | Some l => exists pre post, ls = pre ++ l :: post /\ is_empty l = false /\ parse l = None /\
                  (forall x, In x pre -> is_empty x = false -> parse x <> None) /\
                  fst (parse_loop ls) = pushes pre
    | None => (forall x, In x ls -> is_empty x = false -> parse x <> None) /\ fst (parse_loop ls) = pushes ls
    end.
  Proof.
    induction ls as [|l r IH]; simpl.
    - split; [intros x []|reflexivity].
    - destruct (is_empty l) eqn:He.
      + destruct (snd (parse_loop r)) as [b|].
        * destruct IH as (pre & post & -> & H1 & H2 & H3 & H4).
          exists (l :: pre), post. repeat split; try assumption.
          -- intros x [<-|Hx] Hx2; [congruence|apply H3; assumption].
          -- unfold AuditProc.pushes in *. simpl. rewrite ?He. exact H4.
        * destruct IH as [H1 H2]. split.
          -- intros x [<-|Hx] Hx2; [congruence|apply H1; assumption].
          -- unfold AuditProc.pushes in *. simpl. rewrite ?He. exact H2.
      + destruct (parse l) as [m|] eqn:Hp; simpl.
        * destruct (snd (parse_loop r)) as [b|].
          -- destruct IH as (pre & post & -> & H1 & H2 & H3 & H4).
             exists (l :: pre), post. repeat split; try assumption.
             ++ intros x [<-|Hx] Hx2; [congruence|apply H3; assumption].
             ++ unfold AuditProc.pushes in *. simpl. rewrite ?He, ?Hp. simpl. f_equal. exact H4.
          -- destruct IH as [H1 H2]. split.
             ++ intros x [<-|Hx] Hx2; [congruence|apply H1; assumption].
             ++ unfold AuditProc.pushes in *. simpl. rewrite ?He, ?Hp. simpl. f_equal. exact H2.
        * exists [], r. repeat split; try assumption. intros x [].
  Qed.

  Lemma parse_loop_snoc ls l :
    snd (parse_loop ls) = None ->
    parse_loop (ls ++ [l]) =
      if is_empty l then (fst (parse_loop ls), None) else
      match parse l with
      | None => (fst (parse_loop ls), Some l)
      | Some m => (fst (parse_loop ls) ++ [m], None)
      end.
  Proof.
    induction ls as [|x r IH]; simpl; intros H.
    - destruct (is_empty l); [reflexivity|]. destruct (parse l); reflexivity.
    - destruct (is_empty x).
      + apply IH. exact H.
      + destruct (parse x) as [mx|]; simpl in *; [|discriminate].
        rewrite (IH H). destruct (is_empty l); [reflexivity|]. destruct (parse l); reflexivity.
  Qed.

  (* ---------- the callback ---------- *)
  (* no receive happens inside a callback: the slot holds the first error, the others were dropped *)
  Definition slot_inv (c : cb) : Prop :=
    match cb_errs _ _ _ _ c with
    | [] => cb_slot _ _ _ _ c = None /\ cb_dropped _ _ _ _ c = []
    | e :: rest => cb_slot _ _ _ _ c = Some e /\ cb_dropped _ _ _ _ c = rest
    end.

  Lemma send_inv e c : slot_inv c -> slot_inv (send e c).
  Proof.
    unfold slot_inv, AuditProc.send. destruct (cb_errs _ _ _ _ c) as [|e0 rest] eqn:He; intros [H1 H2].
    - rewrite H1. simpl. rewrite ?He. simpl. split; [reflexivity|exact H2].
    - rewrite H1. simpl. rewrite ?He. simpl. split; [reflexivity|]. rewrite H2. reflexivity.
  Qed.

  Lemma send_groups e c : cb_groups _ _ _ _ (send e c) = cb_groups _ _ _ _ c.
  Proof. unfold AuditProc.send. destruct (cb_slot _ _ _ _ c); reflexivity. Qed.

  Lemma deliver_inv c g : slot_inv c -> slot_inv (deliver c g).
  Proof.
    intros H. unfold AuditProc.deliver.
    assert (H0 : slot_inv (note_group msg event cerr AS g c)) by exact H.
    destruct (coalesce g) as [ev|]; [|apply send_inv; exact H0].
    destruct (old ev); [exact H0|].
    destruct (audit _ ev) as [a [x|]]; [apply send_inv|]; exact H0.
  Qed.

  Lemma deliver_groups c g : cb_groups _ _ _ _ (deliver c g) = cb_groups _ _ _ _ c ++ [g].
  Proof.
    unfold AuditProc.deliver. destruct (coalesce g) as [ev|]; [|rewrite send_groups; reflexivity].
    destruct (old ev); [reflexivity|].
    destruct (audit _ ev) as [a [x|]]; [rewrite send_groups|]; reflexivity.
  Qed.

  Lemma fold_deliver_inv gs : forall c, slot_inv c -> slot_inv (fold_left deliver gs c).
  Proof. induction gs as [|g r IH]; simpl; intros c H; [exact H|]. apply IH. apply deliver_inv. exact H. Qed.

  Lemma fold_deliver_groups gs : forall c, cb_groups _ _ _ _ (fold_left deliver gs c) = cb_groups _ _ _ _ c ++ gs.
  Proof.
    induction gs as [|g r IH]; simpl; intros c; [rewrite app_nil_r; reflexivity|].
    rewrite IH, deliver_groups, <- app_assoc. reflexivity.
  Qed.

  Lemma callback_inv c ev lost : slot_inv c -> slot_inv (callback c ev lost).
  Proof.
    intros H. unfold AuditProc.callback, note_lost. destruct (lost =? 0)%N; apply (fold_deliver_inv _ _ H).
  Qed.

  Lemma callback_groups c ev lost : cb_groups _ _ _ _ (callback c ev lost) = cb_groups _ _ _ _ c ++ map e_msgs ev.
  Proof.
    unfold AuditProc.callback, note_lost. destruct (lost =? 0)%N; simpl; apply fold_deliver_groups.
  Qed.

  (* ---------- the processor ---------- *)
  Notation allmsgs := (allmsgs msg).
  Notation p_r := (p_r line msg event cerr AS).
  Notation p_cb := (p_cb line msg event cerr AS).
  Notation p_perr := (p_perr line msg event cerr AS).
  Notation p_consumed := (p_consumed line msg event cerr AS).
  Notation p_ops := (p_ops line msg event cerr AS).
  Notation cb_groups := (cb_groups msg event cerr AS).
  Notation cb_errs := (cb_errs msg event cerr AS).
  Notation cb_slot := (cb_slot msg event cerr AS).
  Notation cb_dropped := (cb_dropped msg event cerr AS).
  Notation poll := (poll line msg event cerr AS).
  Notation shutdown := (shutdown line msg event cerr AS mseq mtype coalesce old audit maxsz timeout).
  Notation pinit := (pinit line msg event cerr AS).

  Record pinv (s : pst) : Prop := {
    pi_cons : Permutation (concat (cb_groups (p_cb s)) ++ allmsgs (r_evs (p_r s)))
                          (filter non_eoe (ops_msgs (p_ops s)));
    pi_groups : cb_groups (p_cb s) = map e_msgs (snd (rrun msg mseq mtype maxsz timeout (rinit msg) (p_ops s)));
    pi_state : p_r s = fst (rrun msg mseq mtype maxsz timeout (rinit msg) (p_ops s))
  }.

  (* the state at the top of the select loop *)
  Definition quiet (s : pst) : Prop :=
    p_perr s = None /\ cb_errs (p_cb s) = [] /\ cb_slot (p_cb s) = None /\ cb_dropped (p_cb s) = [].

  Definition parse_ok (s : pst) : Prop := parse_loop (p_consumed s) = (ops_msgs (p_ops s), p_perr s).

  Definition errs_spec (s : pst) (res : result) : Prop :=
    match cb_errs (p_cb s) with
    | [] => (forall e, res <> RSlot _ _ _ e) /\ cb_dropped (p_cb s) = []
    | e :: rest => res = RSlot _ _ _ e /\ cb_dropped (p_cb s) = rest
    end.

  Lemma reass_inv s o : pinv s -> pinv (reass s o).
  Proof.
    intros [Hc Hg Hst]. unfold AuditProc.reass.
    pose proof (rstep_perm msg mseq mtype maxsz timeout (p_r s) o) as Hperm.
    pose proof (rrun_app msg mseq mtype maxsz timeout (rinit msg) (p_ops s) [o]) as Happ.
    simpl in Happ. rewrite <- Hst in Happ.
    destruct (rstep msg mseq mtype maxsz timeout (p_r s) o) as [[r' ev] lost]. simpl in *.
    rewrite app_nil_r in Happ.
    constructor; simpl.
    - rewrite callback_groups, concat_app, <- app_assoc.
      rewrite (ops_msgs_app msg), filter_app.
      assert (E : ops_msgs [o] = op_msgs msg o) by (unfold AuditProc.ops_msgs; simpl; apply app_nil_r).
      rewrite E.
      eapply Permutation_trans.
      + apply Permutation_app_head. exact Hperm.
      + rewrite app_assoc. apply Permutation_app_tail. exact Hc.
    - rewrite callback_groups, Happ. simpl. rewrite map_app, Hg. reflexivity.
    - rewrite Happ. reflexivity.
  Qed.

  Lemma reass_fields s o :
    p_perr (reass s o) = p_perr s /\ p_consumed (reass s o) = p_consumed s /\ p_ops (reass s o) = p_ops s ++ [o] /\
    (slot_inv (p_cb s) -> slot_inv (p_cb (reass s o))).
  Proof.
    unfold AuditProc.reass. destruct (rstep msg mseq mtype maxsz timeout (p_r s) o) as [[r' ev] lost]. simpl.
    repeat split. apply callback_inv.
  Qed.

  Lemma quiet_slot_inv s : quiet s -> slot_inv (p_cb s).
  Proof. intros (_ & H1 & H2 & H3). unfold slot_inv. rewrite H1. split; assumption. Qed.

  (* the select after a reassembler call made from a quiet state *)
  Lemma poll_reass s o : quiet s ->
    let r := poll (reass s o) in
    p_r (fst r) = p_r (reass s o) /\ cb_groups (p_cb (fst r)) = cb_groups (p_cb (reass s o)) /\
    p_ops (fst r) = p_ops s ++ [o] /\ p_consumed (fst r) = p_consumed s /\ p_perr (fst r) = None /\
    perr_of _ _ _ (snd r) = None /\ errs_spec (fst r) (snd r) /\ (snd r = RNone _ _ _ -> quiet (fst r)).
  Proof.
    intros Hq. destruct (reass_fields s o) as (F1 & F2 & F3 & F4).
    specialize (F4 (quiet_slot_inv _ Hq)). destruct Hq as (Q1 & Q2 & Q3 & Q4).
    unfold AuditProc.poll. rewrite F1, Q1. unfold slot_inv in F4. unfold errs_spec, quiet.
    destruct (cb_errs (p_cb (reass s o))) as [|e rest] eqn:He; destruct F4 as [S1 S2]; rewrite S1; simpl.
    - rewrite ?He, ?F1, ?F2, ?F3, ?S1, ?S2. repeat split; try assumption; try reflexivity; try discriminate; try (intros; discriminate).
    - rewrite ?He, ?F2, ?F3, ?S2. repeat split; try reflexivity; try assumption; try discriminate; try (intros; discriminate). rewrite F1. exact Q1.
  Qed.

  Lemma step_spec s i : pinv s -> parse_ok s -> quiet s ->
    let r := step s i in
    pinv (fst r) /\ parse_ok (fst r) /\ p_perr (fst r) = perr_of _ _ _ (snd r) /\
    p_consumed (fst r) = p_consumed s ++ lines_of [i] /\
    errs_spec (fst r) (snd r) /\ (snd r = RNone _ _ _ -> quiet (fst r)).
  Proof.
    intros Hinv Hp Hq. destruct i as [now l|now|lg|]; simpl.
    - (* a line *)
      unfold AuditProc.on_line.
      assert (Hp' : parse_loop (p_consumed s ++ [l]) =
                    if is_empty l then (ops_msgs (p_ops s), None) else
                    match parse l with None => (ops_msgs (p_ops s), Some l) | Some m => (ops_msgs (p_ops s) ++ [m], None) end).
      { unfold parse_ok in Hp. destruct Hq as (Q1 & _). rewrite Q1 in Hp.
        rewrite parse_loop_snoc by (rewrite Hp; reflexivity). rewrite Hp. reflexivity. }
      destruct (is_empty l) eqn:He.
      + unfold AuditProc.poll, consume, errs_spec, quiet, parse_ok, quiet in *. simpl.
        destruct Hq as (Q1 & Q2 & Q3 & Q4). rewrite ?Q1, ?Q3. simpl. rewrite ?Q1, ?Q2, ?Q3, ?Q4, ?Hp'.
        repeat split; try reflexivity; try assumption; try (destruct Hinv; assumption); try discriminate; try (intros; discriminate).
      + destruct (parse l) as [m|] eqn:Hpl.
        * set (s0 := consume line msg event cerr AS l s).
          assert (Hq0 : quiet s0) by exact Hq.
          assert (Hinv0 : pinv s0) by (destruct Hinv; constructor; assumption).
          pose proof (poll_reass s0 (RPush now m) Hq0) as H. cbv zeta in H.
          destruct H as (A1 & A2 & A3 & A4 & A5 & A6 & A7 & A8).
          pose proof (reass_inv s0 (RPush now m) Hinv0) as [I1 I2 I3].
          destruct (reass_fields s0 (RPush now m)) as (F1 & F2 & F3 & _).
          split; [constructor|split; [|split; [|split; [|split]]]].
          -- rewrite A1, A2, A3, <- F3. exact I1.
          -- rewrite A2, A3, <- F3. exact I2.
          -- rewrite A1, A3, <- F3. exact I3.
          -- unfold parse_ok. rewrite A4, A3, A5. simpl. rewrite Hp', (ops_msgs_app msg). simpl. reflexivity.
          -- rewrite A5, A6. reflexivity.
          -- rewrite A4. simpl. reflexivity.
          -- exact A7.
          -- exact A8.
        * unfold AuditProc.poll, set_perr, consume, errs_spec, parse_ok in *. simpl.
          destruct Hq as (Q1 & Q2 & Q3 & Q4). rewrite ?Q1, ?Q2, ?Q3, ?Q4, ?Hp'.
          repeat split; try reflexivity; try assumption; try (destruct Hinv; assumption); try discriminate; try (intros; discriminate).
    - (* Maintain *)
      pose proof (poll_reass s (RMaintain now) Hq) as H. cbv zeta in H.
      destruct H as (A1 & A2 & A3 & A4 & A5 & A6 & A7 & A8).
      pose proof (reass_inv s (RMaintain now) Hinv) as [I1 I2 I3].
      destruct (reass_fields s (RMaintain now)) as (F1 & F2 & F3 & _).
      split; [constructor|split; [|split; [|split; [|split]]]].
      + rewrite A1, A2, A3, <- F3. exact I1.
      + rewrite A2, A3, <- F3. exact I2.
      + rewrite A1, A3, <- F3. exact I3.
      + unfold parse_ok in *. rewrite A4, A3, A5, (ops_msgs_app msg). simpl. rewrite app_nil_r.
        destruct Hq as (Q1 & _). rewrite Q1 in Hp. exact Hp.
      + rewrite A5, A6. reflexivity.
      + rewrite A4, app_nil_r. reflexivity.
      + exact A7.
      + exact A8.
    - (* a login *)
      destruct Hq as (Q1 & Q2 & Q3 & Q4).
      destruct (rlogin (cb_as _ _ _ _ (p_cb s)) lg) as [a [x|]]; simpl;
        unfold errs_spec, quiet, parse_ok in *; simpl; rewrite ?Q1, ?Q2, ?Q3, ?Q4, ?app_nil_r;
        (repeat split; try reflexivity; try assumption; try (destruct Hinv; assumption); try discriminate; try (intros e; discriminate)).
      all: rewrite Q1 in Hp; exact Hp.
    - (* cancellation *)
      destruct Hq as (Q1 & Q2 & Q3 & Q4).
      unfold errs_spec, quiet, parse_ok in *; simpl; rewrite ?Q1, ?Q2, ?Q3, ?Q4, ?app_nil_r;
        (repeat split; try reflexivity; try assumption; try (destruct Hinv; assumption); try discriminate; try (intros e; discriminate)).
      all: try (rewrite Q1 in Hp; exact Hp).
  Qed.

  Lemma lines_of_cons i r : lines_of (i :: r) = lines_of [i] ++ lines_of r.
  Proof. unfold AuditProc.lines_of. simpl. rewrite app_nil_r. reflexivity. Qed.

  Lemma read_from_spec ins : forall s, pinv s -> parse_ok s -> quiet s ->
    let r := read_from s ins in
    pinv (fst r) /\ parse_ok (fst r) /\ p_perr (fst r) = perr_of _ _ _ (snd r) /\
    (exists rest, p_consumed s ++ lines_of ins = p_consumed (fst r) ++ rest) /\
    (snd r = RNone _ _ _ -> p_consumed (fst r) = p_consumed s ++ lines_of ins) /\
    errs_spec (fst r) (snd r).
  Proof.
    induction ins as [|i r IH]; intros s Hinv Hp Hq.
    - simpl. destruct Hq as (Q1 & Q2 & Q3 & Q4). unfold errs_spec. rewrite Q2.
      split; [exact Hinv|]. split; [exact Hp|]. split; [exact Q1|].
      split; [exists []; reflexivity|]. split; [intros _; rewrite app_nil_r; reflexivity|].
      split; [intros e; discriminate|exact Q4].
    - pose proof (step_spec s i Hinv Hp Hq) as H. cbv zeta in H.
      destruct H as (A1 & A2 & A3 & A4 & A5 & A6).
      rewrite lines_of_cons. cbv zeta. cbn [AuditProc.read_from].
      destruct (step s i) as [s' res]. cbn [fst snd] in *.
      assert (Hstop : res <> RNone _ _ _ ->
        pinv s' /\ parse_ok s' /\ p_perr s' = perr_of _ _ _ res /\
        (exists rest, p_consumed s ++ lines_of [i] ++ lines_of r = p_consumed s' ++ rest) /\
        (res = RNone _ _ _ -> p_consumed s' = p_consumed s ++ lines_of [i] ++ lines_of r) /\ errs_spec s' res).
      { intros Hne. split; [exact A1|]. split; [exact A2|]. split; [exact A3|].
        split; [exists (lines_of r); rewrite A4, <- app_assoc; reflexivity|].
        split; [intros E; contradiction|exact A5]. }
      destruct res as [|l|e|c|]; cbn [fst snd]; try (apply Hstop; discriminate).
      specialize (IH s' A1 A2 (A6 eq_refl)). cbv zeta in IH.
      destruct IH as (B1 & B2 & B3 & (rest & B4) & B5 & B6).
      split; [exact B1|]. split; [exact B2|]. split; [exact B3|].
      split; [exists rest; rewrite app_assoc, <- A4; exact B4|].
      split; [intros Hn; rewrite (B5 Hn), A4, app_assoc; reflexivity|exact B6].
  Qed.

  Lemma pinit_ok a : pinv (pinit a) /\ parse_ok (pinit a) /\ quiet (pinit a).
  Proof.
    repeat split; simpl; try reflexivity.
  Qed.

  (* C15_conservation *)
  Theorem conservation a ins :
    let o := read a ins in
    let fin := o_fin _ _ _ _ _ o in
    Permutation (concat (cb_groups (p_cb fin))) (filter non_eoe (ops_msgs (p_ops fin))) /\
    cb_groups (p_cb fin) = groups_of msg mseq mtype maxsz timeout (p_ops (o_ret _ _ _ _ _ o)) /\
    ops_msgs (p_ops fin) = ops_msgs (p_ops (o_ret _ _ _ _ _ o)) /\
    parse_loop (p_consumed fin) = (ops_msgs (p_ops fin), perr_of _ _ _ (o_res _ _ _ _ _ o)) /\
    (exists rest, lines_of ins = p_consumed fin ++ rest) /\
    (o_res _ _ _ _ _ o = RNone _ _ _ -> p_consumed fin = lines_of ins).
  Proof.
    destruct (pinit_ok a) as (I & P & Q).
    pose proof (read_from_spec ins (pinit a) I P Q) as H. cbv zeta in H.
    unfold AuditProc.read. destruct (read_from (pinit a) ins) as [s res]. simpl in *.
    destruct H as (B1 & B2 & B3 & B4 & B5 & B6).
    pose proof (reass_inv s RClose B1) as [C1 C2 C3].
    destruct (reass_fields s RClose) as (F1 & F2 & F3 & _).
    unfold AuditProc.shutdown.
    assert (Hm : ops_msgs (p_ops (reass s RClose)) = ops_msgs (p_ops s)).
    { rewrite F3, (ops_msgs_app msg). simpl. apply app_nil_r. }
    assert (Hempty : r_evs (p_r (reass s RClose)) = []).
    { unfold AuditProc.reass. simpl. reflexivity. }
    split; [|split; [|split; [|split; [|split]]]].
    - rewrite Hempty in C1. unfold AuditProcLemmas.allmsgs in C1. simpl in C1. rewrite app_nil_r in C1. exact C1.
    - destruct B1 as [_ G1 G2]. unfold AuditProc.reass, groups_of. simpl. rewrite callback_groups, G1, G2.
      destruct (rrun msg mseq mtype maxsz timeout (rinit msg) (p_ops s)) as [st ev]. simpl. rewrite map_app. reflexivity.
    - exact Hm.
    - rewrite ?F2, ?Hm. simpl in Hm. rewrite ?Hm. unfold parse_ok in B2. rewrite B2, B3. reflexivity.
    - rewrite ?F2. exact B4.
    - rewrite ?F2. exact B5.
  Qed.

  (* Close is called only by the deferred shutdown *)
  Lemma poll_ops s : p_ops (fst (poll s)) = p_ops s.
  Proof. unfold AuditProc.poll. destruct (p_perr s); [reflexivity|]. destruct (cb_slot (p_cb s)); reflexivity. Qed.

  Lemma step_noclose s i : ~ In RClose (p_ops s) -> ~ In RClose (p_ops (fst (step s i))).
  Proof.
    intros H. destruct i as [now l|now|lg|]; simpl.
    - rewrite poll_ops. unfold AuditProc.on_line. destruct (is_empty l); [exact H|].
      destruct (parse l) as [m|]; [|exact H].
      destruct (reass_fields (consume line msg event cerr AS l s) (RPush now m)) as (_ & _ & F & _). rewrite F.
      intros Hin. apply in_app_or in Hin. destruct Hin as [Hin|[Hin|[]]]; [exact (H Hin)|discriminate].
    - rewrite poll_ops. destruct (reass_fields s (RMaintain now)) as (_ & _ & F & _). rewrite F.
      intros Hin. apply in_app_or in Hin. destruct Hin as [Hin|[Hin|[]]]; [exact (H Hin)|discriminate].
    - destruct (rlogin (cb_as _ _ _ _ (p_cb s)) lg) as [a [x|]]; exact H.
    - exact H.
  Qed.

  Lemma read_from_noclose ins : forall s, ~ In RClose (p_ops s) -> ~ In RClose (p_ops (fst (read_from s ins))).
  Proof.
    induction ins as [|i r IH]; intros s H; [exact H|].
    cbn [AuditProc.read_from]. pose proof (step_noclose s i H) as H'.
    destruct (step s i) as [s' res]. cbn [fst] in H'.
    destruct res; try exact H'. apply IH. exact H'.
  Qed.

  (* C15_grouping for Read: conservation's link to the reassembler + the grouping theorem *)
  Theorem read_grouping a ins :
    let o := read a ins in
    let ops := p_ops (o_ret _ _ _ _ _ o) in
    (forall x, In x ops -> op_time msg x <= timeout) ->
    size_ok msg mseq mtype maxsz timeout (rinit msg) ops ->
    term_last msg mseq mtype (ops_msgs ops) ->
    exists seqs,
      NoDup seqs /\
      cb_groups (p_cb (o_fin _ _ _ _ _ o)) = map (fun s => recs_of msg mseq mtype s (ops_msgs ops)) seqs /\
      (forall s, In s seqs <-> recs_of msg mseq mtype s (ops_msgs ops) <> []).
  Proof.
    cbv zeta. intros Ht Hsz Hterm.
    destruct (conservation a ins) as (_ & G & _).
    rewrite G. apply grouping; try assumption.
    intros x Hx. split; [apply Ht; exact Hx|].
    intros ->. revert Hx. unfold AuditProc.read.
    pose proof (read_from_noclose ins (pinit a)) as N.
    destruct (read_from (pinit a) ins) as [s res]. simpl in *. apply N. intros [].
  Qed.

  (* C15_errors *)
  Theorem errors a ins :
    let o := read a ins in
    let c := p_cb (o_ret _ _ _ _ _ o) in
    match cb_errs c with
    | [] => (forall e, o_res _ _ _ _ _ o <> RSlot _ _ _ e) /\ cb_dropped c = []
    | e :: rest => o_res _ _ _ _ _ o = RSlot _ _ _ e /\ cb_dropped c = rest
    end.
  Proof.
    destruct (pinit_ok a) as (I & P & Q).
    pose proof (read_from_spec ins (pinit a) I P Q) as H. cbv zeta in H.
    unfold AuditProc.read. destruct (read_from (pinit a) ins) as [s res]. simpl in *.
    destruct H as (_ & _ & _ & _ & _ & B6). exact B6.
  Qed.
End ProcessorLemmas.

(* ---------- the capacity-1 channel under arbitrary sends and receives ---------- *)
Section SlotLemmas.
  Variable E : Type.

  Definition sends (ops : list (sop E)) : list E :=
    flat_map (fun o => match o with SSend e => [e] | STake => [] end) ops.

  Definition pending (s : option E) : list E := match s with Some e => [e] | None => [] end.

  (* no error vanishes unaccounted: each sent error is received, still pending, or was dropped *)
  Lemma slot_account ops : forall slot,
    let '(s, got, dr) := slot_run E slot ops in
    Permutation (pending slot ++ sends ops) (got ++ pending s ++ dr).
  Proof.
    induction ops as [|o r IH]; intros slot; simpl.
    - rewrite !app_nil_r. reflexivity.
    - destruct o as [e|].
      + destruct slot as [e0|].
        * specialize (IH (Some e0)). destruct (slot_run E (Some e0) r) as [[s got] dr]. simpl in *.
          eapply Permutation_trans; [apply perm_swap|].
          eapply Permutation_trans; [apply perm_skip; exact IH|].
          rewrite !app_assoc. apply Permutation_middle.
        * specialize (IH (Some e)). destruct (slot_run E (Some e) r) as [[s got] dr]. simpl in *. exact IH.
      + destruct slot as [e0|].
        * specialize (IH None). destruct (slot_run E None r) as [[s got] dr]. simpl in *. apply perm_skip. exact IH.
        * specialize (IH None). destruct (slot_run E None r) as [[s got] dr]. simpl in *. exact IH.
  Qed.

  (* a send is dropped only while an earlier error is pending: from an empty slot nothing is
     dropped before the first send, and the first send is received first (or stays pending) *)
  Lemma slot_first e r :
    let '(s, got, dr) := slot_run E None (SSend e :: r) in
    (exists got', got = e :: got') \/ (got = [] /\ s = Some e).
  Proof.
    simpl. generalize e. clear e. induction r as [|o r IH]; intros e; simpl.
    - right. split; reflexivity.
    - destruct o as [e'|].
      + specialize (IH e). destruct (slot_run E (Some e) r) as [[s got] dr]. exact IH.
      + destruct (slot_run E None r) as [[s got] dr]. left. exists got. reflexivity.
  Qed.

  (* when every send is followed by a receive before the next send, nothing is dropped *)
  Fixpoint alternating (full : bool) (ops : list (sop E)) : Prop :=
    match ops with
    | [] => True
    | SSend _ :: r => full = false /\ alternating true r
    | STake :: r => alternating false r
    end.

  Lemma slot_no_drop ops : forall slot,
    alternating (match slot with Some _ => true | None => false end) ops ->
    snd (slot_run E slot ops) = [].
  Proof.
    induction ops as [|o r IH]; intros slot H; simpl; [reflexivity|].
    destruct o as [e|]; simpl in H.
    - destruct H as [Hf H]. destruct slot; [discriminate|]. apply (IH (Some e)). exact H.
    - destruct slot as [e0|].
      + specialize (IH None H). destruct (slot_run E None r) as [[s got] dr]. exact IH.
      + apply (IH None). exact H.
  Qed.
End SlotLemmas.
