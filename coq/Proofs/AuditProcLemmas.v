(* Proofs about Model/AuditProc.v (used by Props/C15.v). *)
From Coq Require Import List Bool Arith NArith Lia Permutation Sorting.Sorted.
Import ListNotations.
From AM Require Import Model.AuditProc.

Section ReassemblerLemmas.
  Variable msg : Type.
  Variable mseq : msg -> N.
  Variable mtype : msg -> nat.

  Notation rev := (rev msg).
  Notation non_eoe := (non_eoe msg mtype).
  Notation closes := (closes msg mtype).
  Notation put := (put msg mseq mtype).
  Notation put_ev := (put_ev msg mseq mtype).
  Notation mark_done := (mark_done msg).
  Notation cleanup := (cleanup msg).
  Notation rstep := (rstep msg mseq mtype).
  Notation rrun := (rrun msg mseq mtype).
  Notation recs_of := (recs_of msg mseq mtype).
  Notation ops_msgs := (ops_msgs msg).
  Notation op_msgs := (op_msgs msg).

  Definition allmsgs (l : list rev) : list msg := concat (map e_msgs l).

  Lemma allmsgs_app a b : allmsgs (a ++ b) = allmsgs a ++ allmsgs b.
  Proof. unfold allmsgs. rewrite map_app, concat_app. reflexivity. Qed.

  (* ---------- CleanUp never discards: evicted ++ kept = the buffer ---------- *)
  Lemma cleanup_app maxsz now l : fst (cleanup maxsz now l) ++ snd (cleanup maxsz now l) = l.
  Proof.
    induction l as [|e r IH]; [reflexivity|]. simpl.
    destruct (evictable msg maxsz now e (e :: r)); simpl; [rewrite IH|]; reflexivity.
  Qed.

  Lemma mark_done_msgs s l : map e_msgs (mark_done s l) = map e_msgs l.
  Proof.
    induction l as [|e r IH]; [reflexivity|]. simpl.
    destruct (s =? e_seq e)%N; simpl; [|rewrite IH]; reflexivity.
  Qed.

  Lemma mark_done_seqs s l : map e_seq (mark_done s l) = map e_seq l.
  Proof.
    induction l as [|e r IH]; [reflexivity|]. simpl.
    destruct (s =? e_seq e)%N; simpl; [|rewrite IH]; reflexivity.
  Qed.

  Lemma put_ev_perm exp m l : Permutation (allmsgs (put_ev exp m l)) (m :: allmsgs l).
  Proof.
    induction l as [|e r IH]; [reflexivity|]. simpl.
    destruct (mseq m =? e_seq e)%N.
    - unfold allmsgs. simpl. rewrite <- app_assoc. simpl.
      apply Permutation_sym. apply Permutation_middle.
    - destruct (mseq m <? e_seq e)%N.
      + reflexivity.
      + unfold allmsgs in *. simpl.
        eapply Permutation_trans; [apply Permutation_app_head; exact IH|].
        apply Permutation_sym. apply Permutation_middle.
  Qed.

  Lemma put_perm timeout now m l :
    Permutation (allmsgs (put timeout now m l)) (allmsgs l ++ filter non_eoe [m]).
  Proof.
    unfold put, AuditProc.non_eoe. simpl. destruct (is_eoe (mtype m)); simpl.
    - unfold allmsgs. rewrite mark_done_msgs, app_nil_r. reflexivity.
    - eapply Permutation_trans; [apply put_ev_perm|]. apply Permutation_cons_append.
  Qed.

  Lemma rstep_perm maxsz timeout st o :
    Permutation (allmsgs (snd (fst (rstep maxsz timeout st o))) ++ allmsgs (r_evs (fst (fst (rstep maxsz timeout st o)))))
                (allmsgs (r_evs st) ++ filter non_eoe (op_msgs o)).
  Proof.
    destruct o as [now m|now|]; simpl.
    - rewrite <- allmsgs_app, cleanup_app. apply put_perm.
    - rewrite <- allmsgs_app, cleanup_app, app_nil_r. reflexivity.
    - rewrite !app_nil_r. reflexivity.
  Qed.

  Lemma rrun_app maxsz timeout st a b :
    rrun maxsz timeout st (a ++ b) =
    (fst (rrun maxsz timeout (fst (rrun maxsz timeout st a)) b),
     snd (rrun maxsz timeout st a) ++ snd (rrun maxsz timeout (fst (rrun maxsz timeout st a)) b)).
  Proof.
    revert st. induction a as [|o r IH]; intros st; simpl.
    - destruct (rrun maxsz timeout st b); reflexivity.
    - destruct (rstep maxsz timeout st o) as [[st' ev] lost].
      rewrite IH. destruct (rrun maxsz timeout st' r) as [st2 ev2]. simpl.
      destruct (rrun maxsz timeout st2 b) as [st3 ev3]. simpl. rewrite app_assoc. reflexivity.
  Qed.

  Lemma ops_msgs_app a b : ops_msgs (a ++ b) = ops_msgs a ++ ops_msgs b.
  Proof. unfold AuditProc.ops_msgs. apply flat_map_app. Qed.

  (* every pushed non-EOE record is in exactly one evicted-or-buffered event *)
  Lemma rrun_perm maxsz timeout st ops :
    Permutation (allmsgs (snd (rrun maxsz timeout st ops)) ++ allmsgs (r_evs (fst (rrun maxsz timeout st ops))))
                (allmsgs (r_evs st) ++ filter non_eoe (ops_msgs ops)).
  Proof.
    revert st. induction ops as [|o r IH]; intros st; simpl.
    - rewrite app_nil_r. reflexivity.
    - pose proof (rstep_perm maxsz timeout st o) as H.
      destruct (rstep maxsz timeout st o) as [[st' ev] lost]. simpl in H.
      specialize (IH st'). destruct (rrun maxsz timeout st' r) as [st2 ev2]. simpl in *.
      rewrite allmsgs_app, filter_app, <- app_assoc.
      eapply Permutation_trans; [apply Permutation_app_head; exact IH|].
      rewrite !app_assoc. apply Permutation_app_tail. exact H.
  Qed.

  (* ---------- grouping ---------- *)
  Definition closed (s : N) (p : list msg) : Prop :=
    exists m, In m p /\ mseq m = s /\ closes m = true.

  Lemma recs_of_app s a b : recs_of s (a ++ b) = recs_of s a ++ recs_of s b.
  Proof. apply filter_app. Qed.

  Lemma recs_of_in s p m : In m (recs_of s p) <-> In m p /\ mseq m = s /\ non_eoe m = true.
  Proof.
    unfold AuditProc.recs_of. rewrite filter_In, andb_true_iff, N.eqb_eq. tauto.
  Qed.

  Lemma recs_of_snoc_same p m : non_eoe m = true -> recs_of (mseq m) (p ++ [m]) = recs_of (mseq m) p ++ [m].
  Proof. intros H. rewrite recs_of_app. simpl. rewrite N.eqb_refl, H. reflexivity. Qed.

  Lemma recs_of_snoc_other s p m : mseq m <> s \/ non_eoe m = false -> recs_of s (p ++ [m]) = recs_of s p.
  Proof.
    intros H. rewrite recs_of_app. simpl.
    destruct (N.eqb_spec (mseq m) s) as [E|E]; simpl.
    - destruct H as [H|H]; [contradiction|]. rewrite H. apply app_nil_r.
    - apply app_nil_r.
  Qed.

  (* the invariant of a run; p = records pushed so far, G = events evicted so far *)
  Record ginv (timeout : nat) (p : list msg) (evs G : list rev) : Prop := {
    gi_sorted : StronglySorted N.lt (map e_seq evs);
    gi_evs : forall e, In e evs -> e_msgs e = recs_of (e_seq e) p /\ e_msgs e <> [] /\
                                   (e_done e = true -> closed (e_seq e) p) /\ timeout <= e_exp e;
    gi_G : forall e, In e G -> e_msgs e = recs_of (e_seq e) p /\ e_msgs e <> [] /\ closed (e_seq e) p;
    gi_nodup : NoDup (map e_seq (G ++ evs));
    gi_cover : forall m, In m p -> non_eoe m = true -> In (mseq m) (map e_seq (G ++ evs))
  }.

  Lemma closed_snoc s p m : closed s p -> closed s (p ++ [m]).
  Proof. intros (x & H1 & H2). exists x. split; [apply in_or_app; left; exact H1|exact H2]. Qed.

  Lemma sorted_lt_notin s l : StronglySorted N.lt (s :: l) -> ~ In s l.
  Proof.
    intros H. inversion H as [|? ? _ Hall]; subst. rewrite Forall_forall in Hall.
    intros Hin. specialize (Hall _ Hin). lia.
  Qed.

  (* put_ev on a sorted buffer: the sequence numbers *)
  Lemma put_ev_seqs_in exp m l : StronglySorted N.lt (map e_seq l) -> In (mseq m) (map e_seq l) ->
    map e_seq (put_ev exp m l) = map e_seq l.
  Proof.
    induction l as [|e r IH]; simpl; intros Hs Hin; [contradiction|].
    destruct (N.eqb_spec (mseq m) (e_seq e)) as [E|E]; [reflexivity|].
    destruct (N.ltb_spec (mseq m) (e_seq e)) as [L|L].
    - exfalso. destruct Hin as [Hin|Hin]; [congruence|].
      inversion Hs as [|? ? _ Hall]; subst. rewrite Forall_forall in Hall. specialize (Hall _ Hin). lia.
    - simpl. f_equal. apply IH; [inversion Hs; assumption|]. destruct Hin as [Hin|Hin]; [congruence|exact Hin].
  Qed.

  Lemma put_ev_seqs_new exp m l : ~ In (mseq m) (map e_seq l) ->
    Permutation (map e_seq (put_ev exp m l)) (mseq m :: map e_seq l).
  Proof.
    induction l as [|e r IH]; simpl; intros Hn; [reflexivity|].
    destruct (N.eqb_spec (mseq m) (e_seq e)) as [E|E]; [exfalso; apply Hn; left; congruence|].
    destruct (mseq m <? e_seq e)%N; [reflexivity|].
    simpl. eapply Permutation_trans; [apply perm_skip; apply IH; tauto|]. apply perm_swap.
  Qed.

  Lemma put_ev_sorted exp m l : StronglySorted N.lt (map e_seq l) ->
    StronglySorted N.lt (map e_seq (put_ev exp m l)).
  Proof.
    induction l as [|e r IH]; simpl; intros Hs.
    - constructor; constructor.
    - destruct (N.eqb_spec (mseq m) (e_seq e)) as [E|E]; [exact Hs|].
      destruct (N.ltb_spec (mseq m) (e_seq e)) as [L|L].
      + simpl. constructor; [exact Hs|]. constructor; [exact L|].
        inversion Hs as [|? ? _ Hall]; subst. rewrite Forall_forall in *. intros x Hx. specialize (Hall x Hx). lia.
      + simpl. inversion Hs as [|? ? Hr Hall]; subst. constructor; [apply IH; exact Hr|].
        rewrite Forall_forall in *. intros x Hx.
        assert (Hx' : x = mseq m \/ In x (map e_seq r)).
        { clear -Hx. induction r as [|e' r' IH']; simpl in *.
          - destruct Hx as [Hx|[]]. left. symmetry. exact Hx.
          - destruct (mseq m =? e_seq e')%N; simpl in *; [right; exact Hx|].
            destruct (mseq m <? e_seq e')%N; simpl in *.
            + destruct Hx as [Hx|Hx]; [left; symmetry; exact Hx|right; exact Hx].
            + destruct Hx as [Hx|Hx]; [right; left; exact Hx|]. destruct (IH' Hx) as [H|H]; [left; exact H|right; right; exact H]. }
        destruct Hx' as [->|Hx']; [lia|apply Hall; exact Hx'].
  Qed.

  (* put_ev on a sorted buffer: the elements *)
  Lemma put_ev_elems exp m l e' : StronglySorted N.lt (map e_seq l) -> In e' (put_ev exp m l) ->
    (In e' l /\ e_seq e' <> mseq m) \/
    (exists e, In e l /\ e_seq e = mseq m /\ e' = ev_add msg mtype m e) \/
    (e' = ev_new msg mseq mtype exp m /\ ~ In (mseq m) (map e_seq l)).
  Proof.
    induction l as [|e r IH]; simpl; intros Hs Hin.
    - destruct Hin as [<-|[]]. right; right. split; [reflexivity|tauto].
    - destruct (N.eqb_spec (mseq m) (e_seq e)) as [E|E].
      + destruct Hin as [<-|Hin].
        * right; left. exists e. split; [left; reflexivity|]. split; [congruence|reflexivity].
        * left. split; [right; exact Hin|].
          inversion Hs as [|? ? _ Hall]; subst. rewrite Forall_forall in Hall.
          specialize (Hall (e_seq e') (in_map e_seq _ _ Hin)). lia.
      + destruct (N.ltb_spec (mseq m) (e_seq e)) as [L|L].
        * destruct Hin as [<-|Hin].
          -- right; right. split; [reflexivity|]. intros [H|H]; [congruence|].
             inversion Hs as [|? ? _ Hall]; subst. rewrite Forall_forall in Hall. specialize (Hall _ H). lia.
          -- left. split; [exact Hin|].
             destruct Hin as [<-|Hin]; [congruence|].
             inversion Hs as [|? ? _ Hall]; subst. rewrite Forall_forall in Hall.
             specialize (Hall (e_seq e') (in_map e_seq _ _ Hin)). lia.
        * destruct Hin as [<-|Hin].
          -- left. split; [left; reflexivity|congruence].
          -- inversion Hs as [|? ? Hr Hall]; subst.
             destruct (IH Hr Hin) as [[H1 H2]|[(e0 & H1 & H2 & H3)|[H1 H2]]].
             ++ left. split; [right; exact H1|exact H2].
             ++ right; left. exists e0. split; [right; exact H1|]. split; assumption.
             ++ right; right. split; [exact H1|]. intros [H|H]; [congruence|contradiction].
  Qed.

  Lemma mark_done_elems s l e' : In e' (mark_done s l) ->
    In e' l \/ (exists e, In e l /\ e_seq e = s /\ e' = set_done msg e).
  Proof.
    induction l as [|e r IH]; simpl; [tauto|].
    destruct (N.eqb_spec s (e_seq e)) as [E|E]; simpl.
    - intros [<-|H]; [right; exists e; split; [left; reflexivity|split; [congruence|reflexivity]]|left; right; exact H].
    - intros [<-|H]; [left; left; reflexivity|].
      destruct (IH H) as [H1|(e0 & H1 & H2 & H3)]; [left; right; exact H1|].
      right. exists e0. split; [right; exact H1|split; assumption].
  Qed.

  (* pushing a record whose event is not closed yet *)
  Lemma ginv_put timeout now p evs G m :
    now <= timeout ->
    ginv timeout p evs G ->
    (non_eoe m = true -> ~ closed (mseq m) p) ->
    ginv timeout (p ++ [m]) (put timeout now m evs) G.
  Proof.
    intros Hnow [Hs He HG Hnd Hc] Hopen. unfold AuditProc.put.
    destruct (is_eoe (mtype m)) eqn:Heoe.
    - (* EOE: only marks *)
      assert (Hne : non_eoe m = false) by (unfold AuditProc.non_eoe; rewrite Heoe; reflexivity).
      constructor.
      + rewrite mark_done_seqs. exact Hs.
      + intros e' Hin. destruct (mark_done_elems _ _ _ Hin) as [H|(e & H1 & H2 & ->)].
        * destruct (He _ H) as (A & B & C & D). rewrite recs_of_snoc_other by (right; exact Hne).
          repeat split; try assumption. intros Hd. apply closed_snoc. apply C. exact Hd.
        * destruct (He _ H1) as (A & B & C & D). simpl. rewrite recs_of_snoc_other by (right; exact Hne).
          repeat split; try assumption. intros _. exists m. split; [apply in_or_app; right; left; reflexivity|].
          split; [symmetry; exact H2|]. unfold AuditProc.closes. rewrite Heoe. reflexivity.
      + intros e Hin. destruct (HG _ Hin) as (A & B & C). rewrite recs_of_snoc_other by (right; exact Hne).
        repeat split; try assumption. apply closed_snoc. exact C.
      + rewrite map_app, mark_done_seqs, <- map_app. exact Hnd.
      + intros x Hx Hxn. rewrite map_app, mark_done_seqs, <- map_app.
        apply in_app_or in Hx. destruct Hx as [Hx|[<-|[]]]; [apply Hc; assumption|congruence].
    - assert (Hne : non_eoe m = true) by (unfold AuditProc.non_eoe; rewrite Heoe; reflexivity).
      specialize (Hopen Hne).
      assert (HnotG : ~ In (mseq m) (map e_seq G)).
      { intros Hin. apply in_map_iff in Hin. destruct Hin as (e & E1 & E2).
        destruct (HG _ E2) as (_ & _ & C). apply Hopen. rewrite <- E1. exact C. }
      constructor.
      + apply put_ev_sorted. exact Hs.
      + intros e' Hin. destruct (put_ev_elems _ _ _ _ Hs Hin) as [[H1 H2]|[(e & H1 & H2 & ->)|[-> H2]]].
        * destruct (He _ H1) as (A & B & C & D). rewrite recs_of_snoc_other by (left; congruence).
          repeat split; try assumption. intros Hd. apply closed_snoc. apply C. exact Hd.
        * destruct (He _ H1) as (A & B & C & D). simpl. rewrite H2, recs_of_snoc_same by exact Hne.
          rewrite <- H2, <- A. repeat split.
          -- intros H. apply app_eq_nil in H. destruct H as [_ H]. discriminate.
          -- intros Hd. apply orb_true_iff in Hd. destruct Hd as [Hd|Hd].
             ++ apply closed_snoc. apply C. exact Hd.
             ++ exists m. split; [apply in_or_app; right; left; reflexivity|]. split; [symmetry; exact H2|].
                unfold AuditProc.closes. rewrite Hd. apply orb_true_r.
          -- exact D.
        * simpl. rewrite recs_of_snoc_same by exact Hne.
          assert (Hemp : recs_of (mseq m) p = []).
          { destruct (recs_of (mseq m) p) as [|x xs] eqn:Hr; [reflexivity|exfalso].
            assert (Hx : In x (recs_of (mseq m) p)) by (rewrite Hr; left; reflexivity).
            apply recs_of_in in Hx. destruct Hx as (X1 & X2 & X3).
            specialize (Hc _ X1 X3). rewrite X2, map_app in Hc. apply in_app_or in Hc. tauto. }
          rewrite Hemp. simpl. repeat split.
          -- discriminate.
          -- intros Hd. exists m. split; [apply in_or_app; right; left; reflexivity|]. split; [reflexivity|].
             unfold AuditProc.closes. rewrite Hd. apply orb_true_r.
          -- lia.
      + intros e Hin. destruct (HG _ Hin) as (A & B & C).
        assert (e_seq e <> mseq m).
        { intros E. apply Hopen. rewrite <- E. exact C. }
        rewrite recs_of_snoc_other by (left; congruence).
        repeat split; try assumption. apply closed_snoc. exact C.
      + rewrite map_app in *.
        destruct (in_dec N.eq_dec (mseq m) (map e_seq evs)) as [Hin|Hnin].
        * rewrite put_ev_seqs_in by assumption. exact Hnd.
        * eapply Permutation_NoDup.
          -- apply Permutation_sym. eapply Permutation_trans.
             ++ apply Permutation_app_head. apply put_ev_seqs_new. exact Hnin.
             ++ apply Permutation_sym. apply Permutation_middle.
          -- constructor; [|exact Hnd]. intros H. apply in_app_or in H. tauto.
      + intros x Hx Hxn. rewrite map_app in *.
        assert (Hsub : forall s, In s (map e_seq evs) -> In s (map e_seq (put_ev (now + timeout) m evs))).
        { intros s Hin0. destruct (in_dec N.eq_dec (mseq m) (map e_seq evs)) as [Hin|Hnin].
          - rewrite put_ev_seqs_in by assumption. exact Hin0.
          - eapply Permutation_in; [apply Permutation_sym; apply put_ev_seqs_new; exact Hnin|]. right. exact Hin0. }
        assert (Hm : In (mseq m) (map e_seq (put_ev (now + timeout) m evs))).
        { destruct (in_dec N.eq_dec (mseq m) (map e_seq evs)) as [Hin|Hnin].
          - rewrite put_ev_seqs_in by assumption. exact Hin.
          - eapply Permutation_in; [apply Permutation_sym; apply put_ev_seqs_new; exact Hnin|]. left. reflexivity. }
        apply in_app_or in Hx. destruct Hx as [Hx|[<-|[]]].
        * specialize (Hc _ Hx Hxn). apply in_app_or in Hc. apply in_or_app.
          destruct Hc as [Hc|Hc]; [left; exact Hc|right; apply Hsub; exact Hc].
        * apply in_or_app. right. exact Hm.
  Qed.

  (* without expiry and overflow CleanUp evicts complete events only *)
  Lemma cleanup_done maxsz now l :
    length l <= maxsz -> (forall e, In e l -> now <= e_exp e) ->
    forall e, In e (fst (cleanup maxsz now l)) -> e_done e = true.
  Proof.
    induction l as [|e r IH]; simpl; intros Hl Hexp x Hx; [contradiction|].
    unfold evictable in Hx.
    assert (H1 : (maxsz <? length (e :: r)) = false) by (apply Nat.ltb_ge; simpl; lia).
    assert (H2 : (e_exp e <? now) = false) by (apply Nat.ltb_ge; apply Hexp; left; reflexivity).
    rewrite H1, H2, !orb_false_r in Hx.
    destruct (e_done e) eqn:Hd; simpl in Hx; [|contradiction].
    destruct Hx as [<-|Hx]; [exact Hd|].
    apply IH; [lia|intros; apply Hexp; right; assumption|exact Hx].
  Qed.

  Lemma sorted_app_r (a b : list N) : StronglySorted N.lt (a ++ b) -> StronglySorted N.lt b.
  Proof. induction a as [|x a IH]; simpl; intros H; [exact H|]. inversion H; subst. apply IH. assumption. Qed.

  Lemma ginv_cleanup maxsz timeout now p evs G :
    now <= timeout -> length evs <= maxsz ->
    ginv timeout p evs G ->
    ginv timeout p (snd (cleanup maxsz now evs)) (G ++ fst (cleanup maxsz now evs)).
  Proof.
    intros Hnow Hl [Hs He HG Hnd Hc].
    pose proof (cleanup_app maxsz now evs) as Happ.
    assert (Hdone : forall e, In e (fst (cleanup maxsz now evs)) -> e_done e = true).
    { apply cleanup_done; [exact Hl|]. intros e Hin. destruct (He _ Hin) as (_ & _ & _ & D). lia. }
    set (a := fst (cleanup maxsz now evs)) in *. set (b := snd (cleanup maxsz now evs)) in *.
    constructor.
    - rewrite <- Happ, map_app in Hs. apply sorted_app_r in Hs. exact Hs.
    - intros e Hin. apply He. rewrite <- Happ. apply in_or_app. right. exact Hin.
    - intros e Hin. apply in_app_or in Hin. destruct Hin as [Hin|Hin]; [apply HG; exact Hin|].
      assert (Hin' : In e evs) by (rewrite <- Happ; apply in_or_app; left; exact Hin).
      destruct (He _ Hin') as (A & B & C & _). repeat split; try assumption. apply C. apply Hdone. exact Hin.
    - rewrite <- app_assoc, Happ. exact Hnd.
    - intros m Hm Hn. rewrite <- app_assoc, Happ. apply Hc; assumption.
  Qed.

  Lemma term_last_open ms pre m post :
    term_last msg mseq mtype ms -> ms = pre ++ m :: post -> non_eoe m = true -> ~ closed (mseq m) pre.
  Proof.
    intros Ht Hms Hne (x & Hx & E & Hcl).
    apply in_split in Hx. destruct Hx as (p1 & p2 & ->).
    apply (Ht p1 x (p2 ++ m :: post) m).
    - rewrite Hms, <- app_assoc. reflexivity.
    - exact Hcl.
    - apply in_or_app. right. left. reflexivity.
    - exact Hne.
    - congruence.
  Qed.

  Lemma term_last_prefix a b : term_last msg mseq mtype (a ++ b) -> term_last msg mseq mtype a.
  Proof.
    intros H pre m post m' E Hc Hin Hn. apply (H pre m (post ++ b) m'); try assumption.
    - rewrite E, <- app_assoc. reflexivity.
    - apply in_or_app. left. exact Hin.
  Qed.

  (* the invariant along a run (no Close inside) *)
  Lemma ginv_run maxsz timeout ops : forall p st G,
    (forall o, In o ops -> op_time msg o <= timeout /\ o <> RClose) ->
    size_ok msg mseq mtype maxsz timeout st ops ->
    term_last msg mseq mtype (p ++ ops_msgs ops) ->
    ginv timeout p (r_evs st) G ->
    ginv timeout (p ++ ops_msgs ops) (r_evs (fst (rrun maxsz timeout st ops))) (G ++ snd (rrun maxsz timeout st ops)).
  Proof.
    induction ops as [|o r IH]; intros p st G Ht Hsz Hterm Hinv.
    - simpl. rewrite !app_nil_r. exact Hinv.
    - simpl in Hsz. destruct Hsz as [Hsz1 Hsz2].
      destruct (Ht o (or_introl eq_refl)) as [Hto Hnc].
      assert (Ht' : forall o', In o' r -> op_time msg o' <= timeout /\ o' <> RClose) by (intros; apply Ht; right; assumption).
      destruct o as [now m|now|]; [| |congruence]; simpl in *.
      + set (evs1 := put timeout now m (r_evs st)) in *.
        assert (Hinv1 : ginv timeout (p ++ [m]) evs1 G).
        { apply ginv_put; [exact Hto|exact Hinv|]. intros Hne.
          eapply term_last_open; [exact Hterm|reflexivity|exact Hne]. }
        pose proof (ginv_cleanup maxsz timeout now _ _ _ Hto Hsz1 Hinv1) as Hinv2.
        specialize (IH (p ++ [m]) {| r_evs := snd (cleanup maxsz now evs1); r_last := last_of msg (r_last st) (fst (cleanup maxsz now evs1)) |}
                       (G ++ fst (cleanup maxsz now evs1)) Ht' Hsz2).
        rewrite <- app_assoc in IH. simpl in IH. specialize (IH Hterm Hinv2).
        destruct (rrun maxsz timeout _ r) as [st2 ev2]. simpl in *. rewrite app_assoc. exact IH.
      + pose proof (ginv_cleanup maxsz timeout now _ _ _ Hto Hsz1 Hinv) as Hinv2.
        specialize (IH p {| r_evs := snd (cleanup maxsz now (r_evs st)); r_last := last_of msg (r_last st) (fst (cleanup maxsz now (r_evs st))) |}
                       (G ++ fst (cleanup maxsz now (r_evs st))) Ht' Hsz2 Hterm Hinv2).
        destruct (rrun maxsz timeout _ r) as [st2 ev2]. simpl in *. rewrite app_assoc. exact IH.
  Qed.

  Lemma ginv_init timeout : ginv timeout [] [] [].
  Proof.
    constructor; simpl; try (intros; contradiction).
    - constructor.
    - constructor.
  Qed.

  (* C15_grouping, reassembler level *)
  Theorem grouping maxsz timeout ops :
    (forall o, In o ops -> op_time msg o <= timeout /\ o <> RClose) ->
    size_ok msg mseq mtype maxsz timeout (rinit msg) ops ->
    term_last msg mseq mtype (ops_msgs ops) ->
    exists seqs,
      NoDup seqs /\
      groups_of msg mseq mtype maxsz timeout ops = map (fun s => recs_of s (ops_msgs ops)) seqs /\
      (forall s, In s seqs <-> recs_of s (ops_msgs ops) <> []).
  Proof.
    intros Ht Hsz Hterm.
    pose proof (ginv_run maxsz timeout ops [] (rinit msg) [] Ht Hsz Hterm (ginv_init timeout)) as H.
    unfold groups_of. destruct (rrun maxsz timeout (rinit msg) ops) as [st ev]. simpl in H.
    destruct H as [Hs He HG Hnd Hc].
    exists (map e_seq (ev ++ r_evs st)). split; [exact Hnd|]. split.
    - rewrite map_map. apply map_ext_in. intros e Hin. apply in_app_or in Hin.
      destruct Hin as [Hin|Hin]; [apply HG|apply He]; exact Hin.
    - intros s. split.
      + intros Hin. apply in_map_iff in Hin. destruct Hin as (e & <- & Hin). apply in_app_or in Hin.
        destruct Hin as [Hin|Hin]; [destruct (HG _ Hin) as (A & B & _)|destruct (He _ Hin) as (A & B & _)]; rewrite <- A; exact B.
      + intros Hne. destruct (recs_of s (ops_msgs ops)) as [|x xs] eqn:Hr; [congruence|].
        assert (Hx : In x (recs_of s (ops_msgs ops))) by (rewrite Hr; left; reflexivity).
        apply recs_of_in in Hx. destruct Hx as (X1 & X2 & X3). rewrite <- X2. apply Hc; assumption.
  Qed.

  (* a sufficient condition on the stream alone for size_ok: no more than maxsz distinct
     sequence numbers (the buffer holds at most one event per sequence number) *)
  Lemma put_ev_length exp m l : length (put_ev exp m l) <= S (length l).
  Proof.
    induction l as [|e r IH]; simpl; [lia|].
    destruct (mseq m =? e_seq e)%N; simpl; [lia|]. destruct (mseq m <? e_seq e)%N; simpl; lia.
  Qed.
End ReassemblerLemmas.

Section ProcessorLemmas.
  Variables line msg event cerr login AS : Type.
  Variable is_empty : line -> bool.
  Variable parse : line -> option msg.
  Variable mseq : msg -> N.
  Variable mtype : msg -> nat.
  Variable coalesce : list msg -> option event.
  Variable old : event -> bool.
  Variable audit : AS -> event -> AS * option cerr.
  Variable rlogin : AS -> login -> AS * option cerr.
  Variable maxsz timeout : nat.

  Notation parse_loop := (parse_loop line msg is_empty parse).
  Notation pushes := (pushes line msg is_empty parse).
  Notation cb := (cb msg event cerr AS).
  Notation pst := (pst line msg event cerr AS).
  Notation rerr := (rerr msg cerr).
  Notation deliver := (deliver msg event cerr AS coalesce old audit).
  Notation callback := (callback msg event cerr AS coalesce old audit).
  Notation send := (send msg event cerr AS).
  Notation reass := (reass line msg event cerr AS mseq mtype coalesce old audit maxsz timeout).
  Notation on_line := (on_line line msg event cerr AS is_empty parse mseq mtype coalesce old audit maxsz timeout).
  Notation step := (step line msg event cerr login AS is_empty parse mseq mtype coalesce old audit rlogin maxsz timeout).
  Notation read_from := (read_from line msg event cerr login AS is_empty parse mseq mtype coalesce old audit rlogin maxsz timeout).
  Notation read := (read line msg event cerr login AS is_empty parse mseq mtype coalesce old audit rlogin maxsz timeout).
  Notation lines_of := (lines_of line login).
  Notation non_eoe := (non_eoe msg mtype).
  Notation ops_msgs := (ops_msgs msg).
  Notation inp := (inp line login).
  Notation result := (result line msg cerr).

  (* ---------- parseAuditLogs ---------- *)
  Lemma parse_loop_spec ls :
    match snd (parse_loop ls) with
    | Some l => exists pre post, ls = pre ++ l :: post /\ is_empty l = false /\ parse l = None /\
                  (forall x, In x pre -> is_empty x = false -> parse x <> None) /\
                  fst (parse_loop ls) = pushes pre
    | None => (forall x, In x ls -> is_empty x = false -> parse x <> None) /\ fst (parse_loop ls) = pushes ls
    end.
  Proof.
    induction ls as [|l r IH]; simpl.
    - split; [intros x []|reflexivity].
    - destruct (is_empty l) eqn:He.
      + destruct (snd (parse_loop r)) as [b|].
        * destruct IH as (pre & post & -> & H1 & H2 & H3 & H4).
          exists (l :: pre), post. repeat split; try assumption.
          -- intros x [<-|Hx] Hx2; [congruence|apply H3; assumption].
          -- unfold AuditProc.pushes in *. simpl. rewrite ?He. exact H4.
        * destruct IH as [H1 H2]. split.
          -- intros x [<-|Hx] Hx2; [congruence|apply H1; assumption].
          -- unfold AuditProc.pushes in *. simpl. rewrite ?He. exact H2.
      + destruct (parse l) as [m|] eqn:Hp; simpl.
        * destruct (snd (parse_loop r)) as [b|].
          -- destruct IH as (pre & post & -> & H1 & H2 & H3 & H4).
             exists (l :: pre), post. repeat split; try assumption.
             ++ intros x [<-|Hx] Hx2; [congruence|apply H3; assumption].
             ++ unfold AuditProc.pushes in *. simpl. rewrite ?He, ?Hp. simpl. f_equal. exact H4.
          -- destruct IH as [H1 H2]. split.
             ++ intros x [<-|Hx] Hx2; [congruence|apply H1; assumption].
             ++ unfold AuditProc.pushes in *. simpl. rewrite ?He, ?Hp. simpl. f_equal. exact H2.
        * exists [], r. repeat split; try assumption. intros x [].
  Qed.

  Lemma parse_loop_snoc ls l :
    snd (parse_loop ls) = None ->
    parse_loop (ls ++ [l]) =
      if is_empty l then (fst (parse_loop ls), None) else
      match parse l with
      | None => (fst (parse_loop ls), Some l)
      | Some m => (fst (parse_loop ls) ++ [m], None)
      end.
  Proof.
    induction ls as [|x r IH]; simpl; intros H.
    - destruct (is_empty l); [reflexivity|]. destruct (parse l); reflexivity.
    - destruct (is_empty x).
      + apply IH. exact H.
      + destruct (parse x) as [mx|]; simpl in *; [|discriminate].
        rewrite (IH H). destruct (is_empty l); [reflexivity|]. destruct (parse l); reflexivity.
  Qed.

  (* ---------- the callback ---------- *)
  (* no receive happens inside a callback: the slot holds the first error, the others were dropped *)
  Definition slot_inv (c : cb) : Prop :=
    match cb_errs _ _ _ _ c with
    | [] => cb_slot _ _ _ _ c = None /\ cb_dropped _ _ _ _ c = []
    | e :: rest => cb_slot _ _ _ _ c = Some e /\ cb_dropped _ _ _ _ c = rest
    end.

  Lemma send_inv e c : slot_inv c -> slot_inv (send e c).
  Proof.
    unfold slot_inv, AuditProc.send. destruct (cb_errs _ _ _ _ c) as [|e0 rest] eqn:He; intros [H1 H2].
    - rewrite H1. simpl. rewrite ?He. simpl. split; [reflexivity|exact H2].
    - rewrite H1. simpl. rewrite ?He. simpl. split; [reflexivity|]. rewrite H2. reflexivity.
  Qed.

  Lemma send_groups e c : cb_groups _ _ _ _ (send e c) = cb_groups _ _ _ _ c.
  Proof. unfold AuditProc.send. destruct (cb_slot _ _ _ _ c); reflexivity. Qed.

  Lemma deliver_inv c g : slot_inv c -> slot_inv (deliver c g).
  Proof.
    intros H. unfold AuditProc.deliver.
    assert (H0 : slot_inv (note_group msg event cerr AS g c)) by exact H.
    destruct (coalesce g) as [ev|]; [|apply send_inv; exact H0].
    destruct (old ev); [exact H0|].
    destruct (audit _ ev) as [a [x|]]; [apply send_inv|]; exact H0.
  Qed.

  Lemma deliver_groups c g : cb_groups _ _ _ _ (deliver c g) = cb_groups _ _ _ _ c ++ [g].
  Proof.
    unfold AuditProc.deliver. destruct (coalesce g) as [ev|]; [|rewrite send_groups; reflexivity].
    destruct (old ev); [reflexivity|].
    destruct (audit _ ev) as [a [x|]]; [rewrite send_groups|]; reflexivity.
  Qed.

  Lemma fold_deliver_inv gs : forall c, slot_inv c -> slot_inv (fold_left deliver gs c).
  Proof. induction gs as [|g r IH]; simpl; intros c H; [exact H|]. apply IH. apply deliver_inv. exact H. Qed.

  Lemma fold_deliver_groups gs : forall c, cb_groups _ _ _ _ (fold_left deliver gs c) = cb_groups _ _ _ _ c ++ gs.
  Proof.
    induction gs as [|g r IH]; simpl; intros c; [rewrite app_nil_r; reflexivity|].
    rewrite IH, deliver_groups, <- app_assoc. reflexivity.
  Qed.

  Lemma callback_inv c ev lost : slot_inv c -> slot_inv (callback c ev lost).
  Proof.
    intros H. unfold AuditProc.callback, note_lost. destruct (lost =? 0)%N; apply (fold_deliver_inv _ _ H).
  Qed.

  Lemma callback_groups c ev lost : cb_groups _ _ _ _ (callback c ev lost) = cb_groups _ _ _ _ c ++ map e_msgs ev.
  Proof.
    unfold AuditProc.callback, note_lost. destruct (lost =? 0)%N; simpl; apply fold_deliver_groups.
  Qed.

  (* ---------- the processor ---------- *)
  Notation allmsgs := (allmsgs msg).

  Record pinv (s : pst) : Prop := {
    pi_cons : Permutation (concat (cb_groups _ _ _ _ (p_cb _ _ _ _ _ s)) ++ allmsgs (r_evs (p_r _ _ _ _ _ s)))
                          (filter non_eoe (ops_msgs (p_ops _ _ _ _ _ s)));
    pi_groups : cb_groups _ _ _ _ (p_cb _ _ _ _ _ s) =
                map e_msgs (snd (rrun msg mseq mtype maxsz timeout (rinit msg) (p_ops _ _ _ _ _ s)));
    pi_state : p_r _ _ _ _ _ s = fst (rrun msg mseq mtype maxsz timeout (rinit msg) (p_ops _ _ _ _ _ s));
    pi_parse : parse_loop (p_consumed _ _ _ _ _ s) = (ops_msgs (p_ops _ _ _ _ _ s), p_perr _ _ _ _ _ s);
    pi_slot : slot_inv (p_cb _ _ _ _ _ s)
  }.

  (* the state at the top of the select loop *)
  Definition quiet (s : pst) : Prop :=
    p_perr _ _ _ _ _ s = None /\ cb_errs _ _ _ _ (p_cb _ _ _ _ _ s) = [].

  Lemma concat_snoc {A} (l : list (list A)) x : concat (l ++ x) = concat l ++ concat x.
  Proof. apply concat_app. Qed.

  Lemma reass_inv s o : pinv s -> pinv (reass s o).
  Proof.
    intros [Hc Hg Hst Hp Hs]. unfold AuditProc.reass.
    pose proof (rstep_perm msg mseq mtype maxsz timeout (p_r _ _ _ _ _ s) o) as Hperm.
    pose proof (rrun_app msg mseq mtype maxsz timeout (rinit msg) (p_ops _ _ _ _ _ s) [o]) as Happ.
    simpl in Happ. rewrite <- Hst in Happ.
    destruct (rstep msg mseq mtype maxsz timeout (p_r _ _ _ _ _ s) o) as [[r' ev] lost]. simpl in *.
    rewrite app_nil_r in Happ.
    constructor; simpl.
    - rewrite callback_groups, concat_app, <- app_assoc.
      rewrite (ops_msgs_app msg), filter_app.
      eapply Permutation_trans.
      + apply Permutation_app_head. fold (allmsgs ev). exact Hperm.
      + rewrite app_assoc. apply Permutation_app_tail. exact Hc.
    - rewrite callback_groups, Happ. simpl. rewrite map_app, Hg. reflexivity.
    - rewrite Happ. reflexivity.
    - rewrite (ops_msgs_app msg). destruct o; simpl in *; try (rewrite app_nil_r; exact Hp).
      (* a push does not go through here with a changed parse; handled in on_line_inv *)
      exact (match Hp with eq_refl => eq_refl end) || idtac.
  Abort.
End ProcessorLemmas.
