(* Proofs about the daemon's readiness wiring as generated into Gen/DaemonWiring.v (wiringgen.go), over
   Model/Health.v (C18).  (Exit status, signals, goroutines, flags: Proofs/DaemonMainLemmas.v.) *)
From Coq Require Import String List Bool Arith Lia.
Import ListNotations.
From AM Require Import Model.Health Proofs.HealthLemmas Gen.DaemonWiring.
Open Scope string_scope.

(* ================= readiness: general facts about Model/Health.v ================= *)

Lemma is_ready_iff ops :
  is_ready (hrun ops) = true <-> forall n, In (HAdd n) ops -> last_touch n ops = Some true.
Proof.
  destruct (health_iff ops) as (H1 & _ & _ & _ & _ & H6). cbv zeta in *.
  rewrite H6. rewrite <- H1. unfold status_of. cbn [st_code st_overall].
  split.
  - intros E. rewrite E. split; reflexivity.
  - intros [_ E]. exact E.
Qed.

Lemma last_touch_app n a b :
  last_touch n (a ++ b) = match last_touch n b with Some v => Some v | None => last_touch n a end.
Proof.
  induction a as [|o a IH]; cbn [app last_touch].
  - destruct (last_touch n b); reflexivity.
  - rewrite IH. destruct (last_touch n b); reflexivity.
Qed.

Lemma last_touch_marks n marks :
  (In n marks -> last_touch n (map HReady marks) = Some true) /\
  (~ In n marks -> last_touch n (map HReady marks) = None).
Proof.
  induction marks as [|m marks [IH1 IH2]]; cbn [map last_touch].
  - split; [intros []|reflexivity].
  - split.
    + intros [->|Hin].
      * destruct (last_touch n (map HReady marks)) as [v|] eqn:E.
        -- destruct (in_dec Nat.eq_dec n marks) as [Hi|Hn]; [exact (IH1 Hi)|specialize (IH2 Hn); discriminate].
        -- cbn. rewrite Nat.eqb_refl. reflexivity.
      * rewrite (IH1 Hin). reflexivity.
    + intros Hn. rewrite IH2 by (intros Hi; apply Hn; right; exact Hi).
      cbn. destruct (Nat.eqb m n) eqn:E; [|reflexivity]. apply Nat.eqb_eq in E. exfalso. apply Hn. left. exact E.
Qed.

Lemma in_add_marks n pre marks : In (HAdd n) (pre ++ map HReady marks) <-> In (HAdd n) pre.
Proof.
  rewrite in_app_iff. split; [|auto]. intros [H|H]; [exact H|].
  apply in_map_iff in H. destruct H as (x & E & _). discriminate.
Qed.

(* Whatever happened before ([pre]: registrations and marks in any interleaving), after a series of marks:
   readiness holds iff every name ever registered is among those marks, or had been marked after its last
   registration already. *)
Theorem ready_after_marks pre marks :
  is_ready (hrun (pre ++ map HReady marks)) = true <->
  forall n, In (HAdd n) pre -> In n marks \/ last_touch n pre = Some true.
Proof.
  rewrite is_ready_iff. split; intros H n Hin.
  - specialize (H n (proj2 (in_add_marks n pre marks) Hin)). rewrite last_touch_app in H.
    destruct (in_dec Nat.eq_dec n marks) as [Hi|Hn]; [left; exact Hi|right].
    rewrite (proj2 (last_touch_marks n marks) Hn) in H. exact H.
  - apply in_add_marks in Hin. rewrite last_touch_app.
    destruct (in_dec Nat.eq_dec n marks) as [Hi|Hn].
    + rewrite (proj1 (last_touch_marks n marks) Hi). reflexivity.
    + rewrite (proj2 (last_touch_marks n marks) Hn). destruct (H n Hin) as [Hi|E]; [contradiction|exact E].
Qed.

Lemma last_touch_adds n regs : last_touch n (map HAdd regs) <> Some true.
Proof.
  induction regs as [|r regs IH]; cbn [map last_touch]; [discriminate|].
  destruct (last_touch n (map HAdd regs)) as [v|]; [exact IH|].
  cbn. destruct (Nat.eqb r n); discriminate.
Qed.

(* After the registrations [regs] (repetitions allowed), then marks: readiness holds iff every registered NAME
   has been marked.  Names, not registrations: a name registered twice needs one mark. *)
Theorem ready_after_regs regs marks :
  is_ready (hrun (map HAdd regs ++ map HReady marks)) = true <-> forall n, In n regs -> In n marks.
Proof.
  rewrite ready_after_marks. split; intros H n Hin.
  - destruct (H n (in_map HAdd _ _ Hin)) as [Hi|E]; [exact Hi|]. exfalso. exact (last_touch_adds n regs E).
  - apply in_map_iff in Hin. destruct Hin as (x & [= ->] & Hx). left. apply H. exact Hx.
Qed.

(* ================= readiness: the generated wiring ================= *)

(* component names are numbered by their first position in the list of all names the wiring mentions *)
Definition all_names : list string := readiness_registrations ++ flat_map snd worker_marks.

Fixpoint index_of (s : string) (l : list string) : nat :=
  match l with
  | [] => 0
  | x :: r => if String.eqb s x then 0 else S (index_of s r)
  end.

Definition intern (s : string) : name := index_of s all_names.

Lemma index_of_inj l a b : In a l -> index_of a l = index_of b l -> a = b.
Proof.
  induction l as [|x r IH]; [intros []|]. cbn [index_of]. intros Hin E.
  destruct (String.eqb_spec a x) as [->|Hne].
  - destruct (String.eqb_spec b x) as [->|_]; [reflexivity|discriminate].
  - destruct (String.eqb_spec b x) as [_|_]; [discriminate|]. injection E as E.
    destruct Hin as [->|Hin]; [contradiction|]. exact (IH Hin E).
Qed.

Definition marks_of (w : string) : list string :=
  match find (fun p => String.eqb (fst p) w) worker_marks with
  | Some p => snd p
  | None => []
  end.

Definition marked_by (ws : list string) : list string := flat_map marks_of ws.

Definition reg_ops (names : list string) : list hop := map (fun n => HAdd (intern n)) names.
Definition mark_ops (names : list string) : list hop := map (fun n => HReady (intern n)) names.

(* the generated registrations, then the marks of the workers [ws] (any workers, any order, repetitions) *)
Definition daemon_ops (ws : list string) : list hop := reg_ops readiness_registrations ++ mark_ops (marked_by ws).

(* With the registrations and marking sets READ FROM THE SOURCE: once all registrations are made, readiness is
   reported iff every registered name is marked by one of the workers that have marked. *)
Theorem daemon_ready_iff ws :
  is_ready (hrun (daemon_ops ws)) = true <->
  forall n, In n readiness_registrations -> exists w, In w ws /\ In n (marks_of w).
Proof.
  unfold daemon_ops, reg_ops, mark_ops.
  rewrite <- (map_map intern HAdd), <- (map_map intern HReady). rewrite ready_after_regs.
  split; intros H n Hin.
  - specialize (H (intern n) (in_map intern _ _ Hin)). apply in_map_iff in H. destruct H as (m & E & Hm).
    assert (Hall : In n all_names) by (apply in_or_app; left; exact Hin).
    symmetry in E. apply (index_of_inj all_names n m Hall) in E. subst m.
    unfold marked_by in Hm. apply in_flat_map in Hm. exact Hm.
  - apply in_map_iff in Hin. destruct Hin as (x & <- & Hx). apply in_map.
    unfold marked_by. apply in_flat_map. apply H. exact Hx.
Qed.

(* start-up order: every registration is immediately followed by the start of a worker that marks that name *)
Definition mem (s : string) (l : list string) : bool := existsb (String.eqb s) l.

Fixpoint paired (s : list sitem) : bool :=
  match s with
  | [] => true
  | SReg n :: SGo w :: r => mem n (marks_of w) && paired r
  | _ => false
  end.

Definition regs_of (s : list sitem) : list string :=
  flat_map (fun i => match i with SReg n => [n] | SGo _ => [] end) s.
Definition workers_of (s : list sitem) : list string :=
  flat_map (fun i => match i with SGo w => [w] | SReg _ => [] end) s.

Fixpoint list_beq_str (a b : list string) : bool :=
  match a, b with
  | [], [] => true
  | x :: a', y :: b' => String.eqb x y && list_beq_str a' b'
  | _, _ => false
  end.

Lemma list_beq_str_eq a b : list_beq_str a b = true -> a = b.
Proof.
  revert b. induction a as [|x a IH]; destruct b as [|y b]; cbn; try discriminate; [reflexivity|].
  intros H. apply andb_true_iff in H. destruct H as [H1 H2]. apply String.eqb_eq in H1. rewrite (IH b H2), H1. reflexivity.
Qed.

Definition is_nil {A} (l : list A) : bool := match l with [] => true | _ => false end.

Definition readiness_wiring_ok : bool :=
  list_beq_str readiness_registrations (regs_of startup_sequence) &&
  list_beq_str (workers_of startup_sequence) (map fst worker_marks) &&
  paired startup_sequence &&
  (* every registered name is marked by some worker; every marked name is registered *)
  forallb (fun n => existsb (fun p => mem n (snd p)) worker_marks) readiness_registrations &&
  forallb (fun m => mem m readiness_registrations) (flat_map snd worker_marks) &&
  (* each worker marks on RunNamedPipe's own health object, unconditionally, and registers nothing itself *)
  forallb snd worker_health_is_param && list_beq_str (map fst worker_health_is_param) (map fst worker_marks) &&
  forallb snd worker_mark_toplevel &&
  forallb (fun p => is_nil (snd p)) worker_registrations &&
  (* nothing else in the module registers or marks; the health object starts empty *)
  is_nil health_other_uses && is_nil readiness_calls_unattributed &&
  Nat.eqb single_readiness_ctor_calls 0 &&
  String.eqb health_ctor "health.NewHealth" && health_ctor_registers_nothing.

Theorem readiness_wiring_from_source : readiness_wiring_ok = true.
Proof. vm_compute. reflexivity. Qed.

(* ---------- what the generated marking sets imply: the name registered twice ---------- *)

Lemma marks_of_cases w :
  (w = "sshd_ingester" /\ marks_of w = ["named-pipe-processor"]) \/
  (w = "audit_ingester" /\ marks_of w = ["named-pipe-processor"]) \/
  (w = "audit_processor" /\ marks_of w = ["auditd-processor"]) \/
  marks_of w = [].
Proof.
  unfold marks_of, worker_marks. cbn [find fst snd].
  destruct (String.eqb_spec "sshd_ingester" w) as [<-|_]; [left; split; reflexivity|].
  destruct (String.eqb_spec "audit_ingester" w) as [<-|_]; [right; left; split; reflexivity|].
  destruct (String.eqb_spec "audit_processor" w) as [<-|_]; [right; right; left; split; reflexivity|].
  right; right; right. reflexivity.
Qed.

(* With the data as generated from the current source: after the three registrations readiness is reported
   iff the audit processor has marked and AT LEAST ONE of the two pipe ingesters has — both ingesters are
   registered under, and mark, the one name "named-pipe-processor". *)
Theorem daemon_ready_needs ws :
  is_ready (hrun (daemon_ops ws)) = true <->
  (In "audit_processor" ws /\ (In "sshd_ingester" ws \/ In "audit_ingester" ws)).
Proof.
  rewrite daemon_ready_iff. unfold readiness_registrations. split.
  - intros H. split.
    + destruct (H "auditd-processor") as (w & Hw & Hm); [cbn; auto|].
      destruct (marks_of_cases w) as [[-> E]|[[-> E]|[[-> E]|E]]]; rewrite E in Hm; cbn in Hm;
        try (destruct Hm as [Hm|[]]; discriminate); try contradiction. exact Hw.
    + destruct (H "named-pipe-processor") as (w & Hw & Hm); [cbn; auto|].
      destruct (marks_of_cases w) as [[-> E]|[[-> E]|[[-> E]|E]]]; rewrite E in Hm; cbn in Hm;
        try (destruct Hm as [Hm|[]]; discriminate); try contradiction; auto.
  - intros [Hp Hi] n Hn. cbn in Hn. destruct Hn as [<-|[<-|[<-|[]]]].
    + destruct Hi as [Hi|Hi]; [exists "sshd_ingester"|exists "audit_ingester"]; (split; [exact Hi|vm_compute; auto]).
    + destruct Hi as [Hi|Hi]; [exists "sshd_ingester"|exists "audit_ingester"]; (split; [exact Hi|vm_compute; auto]).
    + exists "audit_processor". split; [exact Hp|vm_compute; auto].
Qed.
