From Coq Require Import List Bool Arith ZArith NArith Lia.
Import ListNotations.
From AM Require Import Lib.Assoc Model.Tracker.

(* ---------- generic list helpers ---------- *)

Lemma nodup_keys_filter {K V} (f : K * V -> bool) (m : list (K * V)) :
  NoDup (akeys m) -> NoDup (akeys (filter f m)).
Proof.
  induction m as [|[k v] r IH]; cbn; intros H; [constructor|].
  inversion H as [|? ? Hn Hr]; subst.
  destruct (f (k, v)); [|apply IH; exact Hr].
  cbn. constructor; [|apply IH; exact Hr].
  intros Hin. apply Hn. unfold akeys in *. rewrite in_map_iff in *.
  destruct Hin as [[k' v'] [Hk Hin]]. cbn in Hk. subst k'.
  apply filter_In in Hin. exists (k, v'). split; [reflexivity|tauto].
Qed.

Lemma aget_filter_none {K V} (eqb : K -> K -> bool) (Hs : forall a b, reflect (a = b) (eqb a b))
      (f : K * V -> bool) k (m : list (K * V)) :
  aget eqb k m = None -> aget eqb k (filter f m) = None.
Proof.
  induction m as [|[k' v] r IH]; cbn; [reflexivity|].
  destruct (Hs k' k) as [->|Hne]; [discriminate|].
  intros H. destruct (f (k', v)); cbn; [|apply IH; exact H].
  destruct (Hs k' k); [congruence|]. apply IH; exact H.
Qed.

Lemma aget_filter_some {K V} (eqb : K -> K -> bool) (Hs : forall a b, reflect (a = b) (eqb a b))
      (f : K * V -> bool) k v (m : list (K * V)) :
  NoDup (akeys m) -> aget eqb k m = Some v ->
  aget eqb k (filter f m) = if f (k, v) then Some v else None.
Proof.
  induction m as [|[k' v'] r IH]; cbn; [discriminate|].
  intros Hnd. inversion Hnd as [|? ? Hn Hr]; subst.
  destruct (Hs k' k) as [->|Hne].
  - intros [= ->]. destruct (f (k, v)) eqn:E; cbn.
    + destruct (Hs k k); [reflexivity|congruence].
    + apply aget_filter_none; [exact Hs|]. destruct (aget eqb k r) eqn:E2; [|reflexivity].
      exfalso. apply Hn. eapply in_akeys. eapply aget_in; [exact Hs|exact E2].
  - intros H. destruct (f (k', v')); cbn.
    + destruct (Hs k' k); [congruence|]. apply IH; assumption.
    + apply IH; assumption.
Qed.

(* ---------- writer ---------- *)

Lemma write_all_none l evs : write_all None l evs = (None, map (pair l) evs, true).
Proof. induction evs as [|e r IH]; cbn; [reflexivity|]. rewrite IH. reflexivity. Qed.

Lemma write_all_sub b l evs b' out ok :
  write_all b l evs = (b', out, ok) -> forall x, In x out -> fst x = l /\ In (snd x) evs.
Proof.
  revert b b' out ok. induction evs as [|e r IH]; cbn; intros b b' out ok H x Hx.
  - injection H as <- <- <-. contradiction.
  - destruct (write1 b) as [b1 [|]].
    + destruct (write_all b1 l r) as [[b2 out2] ok2] eqn:E. injection H as <- <- <-.
      destruct Hx as [<-|Hx]; [cbn; tauto|].
      destruct (IH _ _ _ _ E x Hx). tauto.
    + injection H as <- <- <-. contradiction.
Qed.

Lemma write1_none_inv b : fst (write1 b) = None -> b = None.
Proof. destruct b as [[|k]|]; cbn; congruence. Qed.

(* ---------- running ---------- *)

Lemma trun_app st h1 h2 :
  trun st (h1 ++ h2) =
  let '(st1, o1) := trun st h1 in let '(st2, o2) := trun st1 h2 in (st2, o1 ++ o2).
Proof.
  revert st. induction h1 as [|o r IH]; intros st; cbn.
  - destruct (trun st h2). reflexivity.
  - destruct (tstep st o) as [[st' out] res]. rewrite IH.
    destruct (trun st' r) as [st1 o1]. destruct (trun st1 h2) as [st2 o2].
    rewrite app_assoc. reflexivity.
Qed.

Lemma trun_snoc st h o :
  trun st (h ++ [o]) =
  let '(st1, o1) := trun st h in let '(st2, out, _) := tstep st1 o in (st2, o1 ++ out).
Proof.
  rewrite trun_app. destruct (trun st h) as [st1 o1]. cbn.
  destruct (tstep st1 o) as [[st2 out] r]. rewrite app_nil_r. reflexivity.
Qed.

(* ---------- picking a candidate ---------- *)

Lemma pick_in {A} c (l : list A) x : pick c l = Some x -> In x l.
Proof.
  destruct l as [|y r]; unfold pick; [discriminate|]. intros H.
  assert (E : x = nth (c mod length (y :: r)) (y :: r) y) by congruence.
  rewrite E. apply nth_In. apply Nat.mod_upper_bound. cbn [length]. lia.
Qed.

Lemma pick_nil {A} c : @pick A c [] = None.
Proof. reflexivity. Qed.

Lemma pick_single {A} c (x : A) : pick c [x] = Some x.
Proof.
  unfold pick. cbn [length]. rewrite Nat.mod_1_r. reflexivity.
Qed.

Lemma pick_some {A} c (l : list A) : l <> [] -> exists x, pick c l = Some x.
Proof. destruct l; [congruence|]. intros _. eexists. reflexivity. Qed.

Lemma candidates_in p m s u :
  In (s, u) (candidates p m) <-> In (s, u) m /\ unbound u = true /\ u_pid u = p.
Proof.
  unfold candidates. rewrite filter_In. cbn. rewrite andb_true_iff, Z.eqb_eq. tauto.
Qed.

(* a writer that never fails keeps never failing *)
Lemma step_wb_none st o st' out r : wb st = None -> tstep st o = (st', out, r) -> wb st' = None.
Proof.
  intros Hwb. destruct o as [l c|ev now|t|t]; cbn [tstep].
  - unfold remote_login. destruct (negb (validate l)); [intros [= <- _ _]; exact Hwb|].
    destruct (pick c (candidates (l_pid l) (sess st))) as [[s u]|].
    + rewrite Hwb, write_all_none. destruct (has_disp (u_cached u)); intros [= <- _ _]; reflexivity.
    + intros [= <- _ _]. exact Hwb.
  - unfold audit_event. destruct (a_ses ev) as [| |s]; try (intros [= <- _ _]; exact Hwb).
    destruct (aget N.eqb s (sess st)) as [u|].
    + unfold audit_with_session. destruct (u_login u) as [l|].
      * rewrite Hwb, write_all_none. cbn [write1]. intros [= <- _ _]. reflexivity.
      * intros [= <- _ _]. exact Hwb.
    + unfold audit_without_session. destruct (negb (is_login (a_type ev))); [intros [= <- _ _]; exact Hwb|].
      destruct (a_pid ev) as [q|]; [|intros [= <- _ _]; exact Hwb].
      destruct (aget Z.eqb q (parked st)) as [l|].
      * rewrite Hwb. cbn [write1]. intros [= <- _ _]. reflexivity.
      * intros [= <- _ _]. exact Hwb.
  - intros [= <- _ _]. exact Hwb.
  - intros [= <- _ _]. exact Hwb.
Qed.

Lemma trun_wb_none st h st' out : wb st = None -> trun st h = (st', out) -> wb st' = None.
Proof.
  revert st st' out. induction h as [|o r IH]; intros st st' out Hw E; cbn in E.
  - injection E as <- _. exact Hw.
  - destruct (tstep st o) as [[st1 o1] res] eqn:Es. destruct (trun st1 r) as [st2 o2] eqn:Er.
    injection E as <- _. eapply IH; [|exact Er]. eapply step_wb_none; eauto.
Qed.
