(* Field theorems, part 2: the remaining OpenSSH messages of property C06.  For each message
   rendered from its fields by sshd's format string, the GENERATED regular expression
   (Gen/SshdRegexes.v) matches at offset 0 and captures exactly those fields.

   Domains are stated as explicit, readable predicates and are the weakest ones for which the
   marker-count argument goes through; each lemma says which restriction is there only because
   an EARLIER greedy `.*` field must not run past its separator. *)
From Coq Require Import Ascii String List Bool Arith NArith Lia.
Import ListNotations.
From AM Require Import Lib.Bytes Lib.Regex Proofs.RegexLemmas Gen.SshdRegexes Proofs.SshdFields.
Open Scope string_scope.
Open Scope list_scope.

(* ---------- more field domains ---------- *)

(* v does not contain the byte c *)
Definition lacks (c : ascii) (v : str) : Prop := forallb (fun x => negb (Ascii.eqb x c)) v = true.

Definition dq : ascii := """"%char.
Definition colon : ascii := ":"%char.
Definition comma : ascii := ","%char.
Definition rbr : ascii := "]"%char.

(* key type as printed by sshkey_type(): non-empty [A-Za-z0-9_-] *)
Definition keytype (v : str) : Prop := v <> [] /\ forallb (in_cls cls_keytype) v = true.

(* numeric address or host name as sshd prints it: no white space and none of
   double quote, comma, opening and closing square bracket *)
Definition addr_byte (c : ascii) : bool :=
  in_cls cls_nonspace c && negb (Ascii.eqb c dq) && negb (Ascii.eqb c comma) &&
  negb (Ascii.eqb c "["%char) && negb (Ascii.eqb c rbr).
Definition addr (v : str) : Prop := forallb addr_byte v = true.

Lemma lacks_count c v : lacks c v -> count c v = 0.
Proof. apply count_zero. Qed.

Lemma addr_no_space v : addr v -> no_space v.
Proof.
  apply forallb_imp. intros c. apply implb_true. revert c. apply for_all_ascii. vm_compute. reflexivity.
Qed.

Lemma addr_lacks_dq v : addr v -> lacks dq v.
Proof.
  apply forallb_imp. intros c. apply implb_true. revert c. apply for_all_ascii. vm_compute. reflexivity.
Qed.

Lemma addr_lacks_comma v : addr v -> lacks comma v.
Proof.
  apply forallb_imp. intros c. apply implb_true. revert c. apply for_all_ascii. vm_compute. reflexivity.
Qed.

Lemma addr_lacks_rbr v : addr v -> lacks rbr v.
Proof.
  apply forallb_imp. intros c. apply implb_true. revert c. apply for_all_ascii. vm_compute. reflexivity.
Qed.

Lemma no_space_no_nl v : no_space v -> no_nl v.
Proof.
  unfold no_space, no_nl. apply forallb_imp. intros c H. rewrite <- dot_spec. apply nonspace_imp_dot. exact H.
Qed.

Lemma addr_no_nl v : addr v -> no_nl v.
Proof. intros H. apply no_space_no_nl, addr_no_space, H. Qed.

Lemma digits_no_space v : digits v -> no_space v.
Proof.
  intros [_ H]. revert H. apply forallb_imp. intros c.
  apply implb_true. revert c. apply for_all_ascii. vm_compute. reflexivity.
Qed.

Lemma keytype_no_space v : keytype v -> no_space v.
Proof.
  intros [_ H]. revert H. apply forallb_imp. intros c.
  apply implb_true. revert c. apply for_all_ascii. vm_compute. reflexivity.
Qed.

(* closed counts, then the field hypotheses, then arithmetic *)
Ltac count_goal2 :=
  repeat (progress (repeat rewrite ?count_app, ?litcount_app; cbn [litcount]; eval_counts));
  repeat match goal with
  | H : no_space ?v |- context [count sp ?v] => rewrite (no_space_count v H)
  | H : digits ?v |- context [count sp ?v] => rewrite (digits_count v H)
  | H : lacks ?c ?v |- context [count ?c ?v] => rewrite (lacks_count c v H)
  end;
  lia.

(* the pattern  "literal $"  against exactly that literal *)
Lemma m_lits_eol_end (l : string) pos ops cs :
  m (lits l ++ [IEol]) pos (s2l l) ops cs = Some (pos + length (s2l l), cs).
Proof.
  pose proof (m_lits (s2l l) [IEol] pos [] ops cs) as H. rewrite app_nil_r in H.
  unfold lits. rewrite H. reflexivity.
Qed.

Lemma no_later_exact_s k (l : string) :
  forall j, 0 < j -> j <= run_len k (s2l l) -> fails (lits l ++ [IEol]) (skipn j (s2l l)).
Proof. apply (no_later_exact k (s2l l) []). Qed.

(* ================================================================================== *)
(* User U from S <tail>   — the five AllowUsers/DenyUsers/group forms share one shape  *)
(* ================================================================================== *)

Definition user_from_re (T : string) : list item :=
  IBol :: (lits "User " ++ (IOpen 1 :: (IStar cls_dot :: (IClose 1 :: (lits " from " ++
          (IOpen 2 :: (IStar cls_dot :: (IClose 2 :: (lits T ++ (IEol :: [])))))))))).

Definition fmt_user_from (T : string) (u s : str) : str :=
  s2l "User " ++ u ++ s2l " from " ++ s ++ s2l T.

(* u: any text without newline.  s: no white space — needed because the user field is greedy:
   a source containing " from " would move the split point (sshd prints a numeric address or a
   resolved host name there). *)
Lemma find_user_from T u s :
  no_nl u -> no_space s ->
  exists e, find (user_from_re T) (fmt_user_from T u s) =
            Some {| m_start := 0; m_end := e; m_caps := [(2, s); (1, u)] |}.
Proof.
  intros Hu Hs. eexists. unfold user_from_re, fmt_user_from.
  apply from_m. step_lits.
  apply group_star; [apply no_nl_dot; exact Hu| |].
  - step_lits. apply group_star; [apply no_space_dot; exact Hs| |].
    + apply m_lits_eol_end.
    + apply no_later_exact_s.
  - change (s2l " from " ++ s ++ s2l T) with (sp :: (s2l "from " ++ s ++ s2l T)).
    apply (no_later_count sp).
    rewrite !count_app, !litcount_app. cbn [litcount]. rewrite !litcount_app. cbn [litcount].
    unfold lits at 2. rewrite litcount_lits. generalize (count sp (s2l T)). intros n.
    count_goal2.
Qed.

(* the five instances *)
Definition T_not_in_allow_users := " not allowed because not listed in AllowUsers".
Definition T_in_deny_users := " not allowed because listed in DenyUsers".
Definition T_not_in_any_group := " not allowed because not in any group".
Definition T_group_in_deny_groups := " not allowed because a group is listed in DenyGroups".
Definition T_not_in_allow_groups := " not allowed because none of user's groups are listed in AllowGroups".

Definition fmt_not_in_allow_users (u s : str) : str :=
  s2l "User " ++ u ++ s2l " from " ++ s ++ s2l " not allowed because not listed in AllowUsers".
Definition fmt_user_in_deny_users (u s : str) : str :=
  s2l "User " ++ u ++ s2l " from " ++ s ++ s2l " not allowed because listed in DenyUsers".
Definition fmt_user_not_in_any_group (u s : str) : str :=
  s2l "User " ++ u ++ s2l " from " ++ s ++ s2l " not allowed because not in any group".
Definition fmt_user_group_in_deny_groups (u s : str) : str :=
  s2l "User " ++ u ++ s2l " from " ++ s ++ s2l " not allowed because a group is listed in DenyGroups".
Definition fmt_user_group_not_in_allow_groups (u s : str) : str :=
  s2l "User " ++ u ++ s2l " from " ++ s ++ s2l " not allowed because none of user's groups are listed in AllowGroups".

Lemma notInAllowUsersRE_shape : notInAllowUsersRE = user_from_re T_not_in_allow_users.
Proof. reflexivity. Qed.
Lemma userInDenyUsersRE_shape : userInDenyUsersRE = user_from_re T_in_deny_users.
Proof. reflexivity. Qed.
Lemma userNotInAnyGroupRE_shape : userNotInAnyGroupRE = user_from_re T_not_in_any_group.
Proof. reflexivity. Qed.
Lemma userGroupInDenyGroupsRE_shape : userGroupInDenyGroupsRE = user_from_re T_group_in_deny_groups.
Proof. reflexivity. Qed.
Lemma userGroupNotListedInAllowGroupsRE_shape : userGroupNotListedInAllowGroupsRE = user_from_re T_not_in_allow_groups.
Proof. reflexivity. Qed.

Lemma find_not_in_allow_users u s :
  no_nl u -> no_space s ->
  exists e, find notInAllowUsersRE (fmt_not_in_allow_users u s) =
            Some {| m_start := 0; m_end := e; m_caps := [(2, s); (1, u)] |}.
Proof. exact (find_user_from T_not_in_allow_users u s). Qed.

Lemma find_user_in_deny_users u s :
  no_nl u -> no_space s ->
  exists e, find userInDenyUsersRE (fmt_user_in_deny_users u s) =
            Some {| m_start := 0; m_end := e; m_caps := [(2, s); (1, u)] |}.
Proof. exact (find_user_from T_in_deny_users u s). Qed.

Lemma find_user_not_in_any_group u s :
  no_nl u -> no_space s ->
  exists e, find userNotInAnyGroupRE (fmt_user_not_in_any_group u s) =
            Some {| m_start := 0; m_end := e; m_caps := [(2, s); (1, u)] |}.
Proof. exact (find_user_from T_not_in_any_group u s). Qed.

Lemma find_user_group_in_deny_groups u s :
  no_nl u -> no_space s ->
  exists e, find userGroupInDenyGroupsRE (fmt_user_group_in_deny_groups u s) =
            Some {| m_start := 0; m_end := e; m_caps := [(2, s); (1, u)] |}.
Proof. exact (find_user_from T_group_in_deny_groups u s). Qed.

Lemma find_user_group_not_in_allow_groups u s :
  no_nl u -> no_space s ->
  exists e, find userGroupNotListedInAllowGroupsRE (fmt_user_group_not_in_allow_groups u s) =
            Some {| m_start := 0; m_end := e; m_caps := [(2, s); (1, u)] |}.
Proof. exact (find_user_from T_not_in_allow_groups u s). Qed.

(* ================================================================================== *)
(* User U not allowed because shell SH <tail>                                          *)
(* ================================================================================== *)

Definition user_shell_re (T : string) : list item :=
  IBol :: (lits "User " ++ (IOpen 1 :: (IStar cls_dot :: (IClose 1 :: (lits " not allowed because shell " ++
          (IOpen 2 :: (IStar cls_dot :: (IClose 2 :: (lits T ++ (IEol :: [])))))))))).

Definition fmt_user_shell (T : string) (u sh : str) : str :=
  s2l "User " ++ u ++ s2l " not allowed because shell " ++ sh ++ s2l T.

(* u: any text without newline.  sh: no white space — needed by the marker count of the greedy
   user field (a shell path containing " not allowed because shell " would move the split).
   Shell paths with spaces are covered by the correspondence check only. *)
Lemma find_user_shell T u sh :
  no_nl u -> no_space sh ->
  exists e, find (user_shell_re T) (fmt_user_shell T u sh) =
            Some {| m_start := 0; m_end := e; m_caps := [(2, sh); (1, u)] |}.
Proof.
  intros Hu Hs. eexists. unfold user_shell_re, fmt_user_shell.
  apply from_m. step_lits.
  apply group_star; [apply no_nl_dot; exact Hu| |].
  - step_lits. apply group_star; [apply no_space_dot; exact Hs| |].
    + apply m_lits_eol_end.
    + apply no_later_exact_s.
  - change (s2l " not allowed because shell " ++ sh ++ s2l T)
      with (sp :: (s2l "not allowed because shell " ++ sh ++ s2l T)).
    apply (no_later_count sp).
    rewrite !count_app, !litcount_app. cbn [litcount]. rewrite !litcount_app. cbn [litcount].
    unfold lits at 2. rewrite litcount_lits. generalize (count sp (s2l T)). intros n.
    count_goal2.
Qed.

Definition T_shell_not_exist := " does not exist".
Definition T_shell_not_exec := " is not executable".

Definition fmt_user_nonexistent_shell (u sh : str) : str :=
  s2l "User " ++ u ++ s2l " not allowed because shell " ++ sh ++ s2l " does not exist".
Definition fmt_user_nonexecutable_shell (u sh : str) : str :=
  s2l "User " ++ u ++ s2l " not allowed because shell " ++ sh ++ s2l " is not executable".

Lemma userNonExistentShellRE_shape : userNonExistentShellRE = user_shell_re T_shell_not_exist.
Proof. reflexivity. Qed.
Lemma userNonExecutableShellRE_shape : userNonExecutableShellRE = user_shell_re T_shell_not_exec.
Proof. reflexivity. Qed.

Lemma find_user_nonexistent_shell u sh :
  no_nl u -> no_space sh ->
  exists e, find userNonExistentShellRE (fmt_user_nonexistent_shell u sh) =
            Some {| m_start := 0; m_end := e; m_caps := [(2, sh); (1, u)] |}.
Proof. exact (find_user_shell T_shell_not_exist u sh). Qed.

Lemma find_user_nonexecutable_shell u sh :
  no_nl u -> no_space sh ->
  exists e, find userNonExecutableShellRE (fmt_user_nonexecutable_shell u sh) =
            Some {| m_start := 0; m_end := e; m_caps := [(2, sh); (1, u)] |}.
Proof. exact (find_user_shell T_shell_not_exec u sh). Qed.

(* ================================================================================== *)
(* ROOT LOGIN REFUSED FROM S port P                                                    *)
(* ================================================================================== *)
Definition fmt_root_login_refused (s p : str) : str :=
  s2l "ROOT LOGIN REFUSED FROM " ++ s ++ s2l " port " ++ p.

(* s: ANY text without newline (the port is the last field and has no space, so the last
   " port " is the separator).  p: no white space (sshd prints %d). *)
Lemma find_root_login_refused s p :
  no_nl s -> no_space p ->
  exists e, find rootLoginRefusedRE (fmt_root_login_refused s p) =
            Some {| m_start := 0; m_end := e; m_caps := [(2, p); (1, s)] |}.
Proof.
  intros Hs Hp. eexists. unfold rootLoginRefusedRE, fmt_root_login_refused.
  apply from_m. step_lits.
  apply group_star; [apply no_nl_dot; exact Hs| |].
  - step_lits. apply group_star_end; [apply no_space_dot; exact Hp|].
    rewrite m_eol_nil, m_nil. reflexivity.
  - change (s2l " port " ++ p) with (sp :: (s2l "port " ++ p)).
    apply (no_later_count sp). count_goal2.
Qed.

(* ================================================================================== *)
(* Authentication refused for U: bad owner or modes for F                              *)
(* ================================================================================== *)
Definition fmt_bad_owner (u f : str) : str :=
  s2l "Authentication refused for " ++ u ++ s2l ": bad owner or modes for " ++ f.

(* u: any text without newline.  f: any text without newline and without ":" (spaces allowed);
   the colon restriction is what the marker count of the greedy user field needs. *)
Lemma find_bad_owner u f :
  no_nl u -> no_nl f -> lacks colon f ->
  exists e, find badOwnerOrModesForHostFileRE (fmt_bad_owner u f) =
            Some {| m_start := 0; m_end := e; m_caps := [(2, f); (1, u)] |}.
Proof.
  intros Hu Hf Hc. eexists. unfold badOwnerOrModesForHostFileRE, fmt_bad_owner.
  apply from_m. step_lits.
  apply group_star; [apply no_nl_dot; exact Hu| |].
  - step_lits. apply group_star_end; [apply no_nl_dot; exact Hf|].
    rewrite m_eol_nil, m_nil. reflexivity.
  - change (s2l ": bad owner or modes for " ++ f) with (colon :: (s2l " bad owner or modes for " ++ f)).
    apply (no_later_count colon). count_goal2.
Qed.

(* ================================================================================== *)
(* Nasty PTR record "D" is set up for S, ignoring                                      *)
(* ================================================================================== *)
Definition fmt_nasty_ptr (d s : str) : str :=
  s2l "Nasty PTR record """ ++ d ++ s2l """ is set up for " ++ s ++ s2l ", ignoring".

(* d: ANY text without newline (quotes and spaces included: it is attacker-controlled DNS data).
   s: any text without newline and without a double quote. *)
Lemma find_nasty_ptr d s :
  no_nl d -> no_nl s -> lacks dq s ->
  exists e, find nastyPTRRecordRE (fmt_nasty_ptr d s) =
            Some {| m_start := 0; m_end := e; m_caps := [(2, s); (1, d)] |}.
Proof.
  intros Hd Hs Hq. eexists. unfold nastyPTRRecordRE, fmt_nasty_ptr.
  apply from_m. step_lits.
  apply group_star; [apply no_nl_dot; exact Hd| |].
  - step_lits. apply group_star; [apply no_nl_dot; exact Hs| |].
    + apply m_lits_eol_end.
    + apply no_later_exact_s.
  - change (s2l """ is set up for " ++ s ++ s2l ", ignoring")
      with (dq :: (s2l " is set up for " ++ s ++ s2l ", ignoring")).
    apply (no_later_count dq). count_goal2.
Qed.

(* ================================================================================== *)
(* reverse mapping checking getaddrinfo for D [S] failed.                              *)
(* ================================================================================== *)
Definition fmt_reverse_mapping_failed (d s : str) : str :=
  s2l "reverse mapping checking getaddrinfo for " ++ d ++ s2l " [" ++ s ++ s2l "] failed.".

(* d: ANY text without newline.  s: no white space.  (The regex's final "." is an unescaped
   dot: one arbitrary byte, here the full stop.) *)
Lemma find_reverse_mapping_failed d s :
  no_nl d -> no_space s ->
  exists e, find reverseMappingCheckFailedRE (fmt_reverse_mapping_failed d s) =
            Some {| m_start := 0; m_end := e; m_caps := [(2, s); (1, d)] |}.
Proof.
  intros Hd Hs. eexists. unfold reverseMappingCheckFailedRE, fmt_reverse_mapping_failed.
  apply from_m. step_lits.
  apply group_star; [apply no_nl_dot; exact Hd| |].
  - step_lits. apply group_star; [apply no_space_dot; exact Hs| |].
    + change (s2l "] failed.") with (s2l "] failed" ++ ["."%char]). step_lits. reflexivity.
    + change (s2l "] failed.") with (rbr :: s2l " failed.").
      apply (no_later_count rbr). count_goal2.
  - change (s2l " [" ++ s ++ s2l "] failed.") with (sp :: (s2l "[" ++ s ++ s2l "] failed.")).
    apply (no_later_count sp). count_goal2.
Qed.

(* ================================================================================== *)
(* Address S maps to D, but this does not map back to the address.                     *)
(* ================================================================================== *)
Definition fmt_not_map_back (s d : str) : str :=
  s2l "Address " ++ s ++ s2l " maps to " ++ d ++ s2l ", but this does not map back to the address.".

(* s: ANY text without newline.  d: no white space (needed by the marker count of the greedy
   source field: the host name sshd prints is a DNS name). *)
Lemma find_not_map_back s d :
  no_nl s -> no_space d ->
  exists e, find doesNotMapBackToAddrRE (fmt_not_map_back s d) =
            Some {| m_start := 0; m_end := e; m_caps := [(2, d); (1, s)] |}.
Proof.
  intros Hs Hd. eexists. unfold doesNotMapBackToAddrRE, fmt_not_map_back.
  apply from_m. step_lits.
  apply group_star; [apply no_nl_dot; exact Hs| |].
  - step_lits. apply group_star; [apply no_space_dot; exact Hd| |].
    + change (s2l ", but this does not map back to the address.")
        with (s2l ", but this does not map back to the address" ++ ["."%char]).
      step_lits. reflexivity.
    + change (s2l ", but this does not map back to the address.")
        with (comma :: s2l " but this does not map back to the address.").
      apply (no_later_count comma). count_goal2.
  - change (s2l " maps to " ++ d ++ s2l ", but this does not map back to the address.")
      with (sp :: (s2l "maps to " ++ d ++ s2l ", but this does not map back to the address.")).
    apply (no_later_count sp). count_goal2.
Qed.

(* ================================================================================== *)
(* Authentication key KT FP revoked by file F                                          *)
(* Error checking authentication key KT FP in revoked keys file F                      *)
(* ================================================================================== *)
Definition fmt_revoked_key (kt fp f : str) : str :=
  s2l "Authentication key " ++ kt ++ s2l " " ++ fp ++ s2l " revoked by file " ++ f.

Definition fmt_revoked_key_err (kt fp f : str) : str :=
  s2l "Error checking authentication key " ++ kt ++ s2l " " ++ fp ++ s2l " in revoked keys file " ++ f.

(* kt: non-empty [A-Za-z0-9_-].  fp: ANY text without newline.  f: no white space — the
   restriction is needed by the marker count of the greedy fingerprint field; file names with
   spaces are covered by the correspondence check only. *)
Lemma find_revoked_key kt fp f :
  keytype kt -> no_nl fp -> no_space f ->
  exists e, find revokedPublicKeyByFileRE (fmt_revoked_key kt fp f) =
            Some {| m_start := 0; m_end := e; m_caps := [(3, f); (2, fp); (1, kt)] |}.
Proof.
  intros Hk Hfp Hf. eexists. unfold revokedPublicKeyByFileRE, fmt_revoked_key.
  apply from_m. step_lits.
  apply group_plus; [apply Hk|apply Hk| |].
  - step_lits. apply group_star; [apply no_nl_dot; exact Hfp| |].
    + step_lits. apply group_star_end; [apply no_space_dot; exact Hf|].
      rewrite m_eol_nil, m_nil. reflexivity.
    + change (s2l " revoked by file " ++ f) with (sp :: (s2l "revoked by file " ++ f)).
      apply (no_later_count sp). count_goal2.
  - apply no_later_run0. apply run_len_out. reflexivity.
Qed.

Lemma find_revoked_key_err kt fp f :
  keytype kt -> no_nl fp -> no_space f ->
  exists e, find revokedPublicKeyByFileErrRE (fmt_revoked_key_err kt fp f) =
            Some {| m_start := 0; m_end := e; m_caps := [(3, f); (2, fp); (1, kt)] |}.
Proof.
  intros Hk Hfp Hf. eexists. unfold revokedPublicKeyByFileErrRE, fmt_revoked_key_err.
  apply from_m. step_lits.
  apply group_plus; [apply Hk|apply Hk| |].
  - step_lits. apply group_star; [apply no_nl_dot; exact Hfp| |].
    + step_lits. apply group_star_end; [apply no_space_dot; exact Hf|].
      rewrite m_eol_nil, m_nil. reflexivity.
    + change (s2l " in revoked keys file " ++ f) with (sp :: (s2l "in revoked keys file " ++ f)).
      apply (no_later_count sp). count_goal2.
  - apply no_later_run0. apply run_len_out. reflexivity.
Qed.

(* ================================================================================== *)
(* Accepted password for U from S port P ssh2      (the regex is NOT anchored)          *)
(* ================================================================================== *)
Definition fmt_accepted_password (u s p : str) : str :=
  s2l "Accepted password for " ++ u ++ s2l " from " ++ s ++ s2l " port " ++ p ++ s2l " ssh2".

Lemma find_accepted_password u s p :
  no_nl u -> no_space s -> digits p ->
  exists e, find passwordLoginRE (fmt_accepted_password u s p) =
            Some {| m_start := 0; m_end := e; m_caps := [(3, p); (2, s); (1, u)] |}.
Proof.
  intros Hu Hs Hp. eexists. unfold passwordLoginRE, fmt_accepted_password.
  apply find_at_zero. step_lits.
  apply group_star; [apply no_nl_dot; exact Hu| |].
  - step_lits. apply group_star; [apply no_space_dot; exact Hs| |].
    + step_lits. apply group_plus; [apply Hp|apply Hp| |].
      * change (s2l " ssh2") with (s2l " ssh" ++ (s2l "2" ++ [])). step_lits.
        apply plus_nogroup; [discriminate|reflexivity| |].
        -- rewrite m_nil. reflexivity.
        -- apply no_later_run0. reflexivity.
      * apply no_later_run0. apply run_len_out. reflexivity.
    + change (s2l " port " ++ p ++ s2l " ssh2") with (sp :: (s2l "port " ++ p ++ s2l " ssh2")).
      apply (no_later_count sp). count_goal2.
  - change (s2l " from " ++ s ++ s2l " port " ++ p ++ s2l " ssh2")
      with (sp :: (s2l "from " ++ s ++ s2l " port " ++ p ++ s2l " ssh2")).
    apply (no_later_count sp). count_goal2.
Qed.
