(* Proofs about the errgroup machine of Model/Errgroup.v: invariants of every execution (state and trace),
   orderings on the trace, the Wait theorem, bounded-step cancellation, deadlock freedom. *)
From Coq Require Import List Bool Arith Lia.
Import ListNotations.
From AM Require Import Model.Errgroup.

(* ---------- basics ---------- *)

Lemma gupd_same : forall g i p, gupd g i p i = p.
Proof. intros. unfold gupd. rewrite Nat.eqb_refl. reflexivity. Qed.

Lemma gupd_other : forall g i p j, j <> i -> gupd g i p j = g j.
Proof. intros g i p j H. unfold gupd. apply Nat.eqb_neq in H. rewrite H. reflexivity. Qed.

Lemma run_app : forall sc a b c, run sc c (a ++ b) = run sc (run sc c a) b.
Proof. intros. unfold run. apply fold_left_app. Qed.

Lemma run_cons : forall sc t l c, run sc c (t :: l) = run sc (step sc c t) l.
Proof. reflexivity. Qed.

Lemma run_nil : forall sc c, run sc c [] = c.
Proof. reflexivity. Qed.

Lemma exec_app : forall sc a b, exec sc (a ++ b) = run sc (exec sc a) b.
Proof. intros. unfold exec. apply run_app. Qed.

Lemma step_some : forall sc s tr t e s', act sc s t = Some (e, s') -> step sc (s, tr) t = (s', e :: tr).
Proof. intros sc s tr t e s' H. unfold step. simpl. rewrite H. reflexivity. Qed.

Lemma step_none : forall sc s tr t, act sc s t = None -> step sc (s, tr) t = (s, tr).
Proof. intros sc s tr t H. unfold step. simpl. rewrite H. reflexivity. Qed.

(* case analysis of one step: destruct everything [act] looks at *)
Ltac act_inv H :=
  unfold act in H;
  repeat match type of H with
         | context [match ?x with _ => _ end] => destruct x eqn:?
         end;
  try discriminate H; inversion H; subst; clear H.

(* ---------- counting finished goroutines ---------- *)

Definition in_body (p : gpc) : bool := match p with GB1 _ | GB2 _ | GBX _ => true | _ => false end.
(* has been through errOnce.Do *)
Definition past_once (p : gpc) : bool := match p with GDefer (Some _) | GExit (Some _) => true | _ => false end.

Fixpoint cnt_exit (g : nat -> gpc) (k : nat) : nat :=
  match k with
  | 0 => 0
  | S k' => (if is_exit (g k') then 1 else 0) + cnt_exit g k'
  end.

Lemma cnt_exit_le : forall g k, cnt_exit g k <= k.
Proof. induction k; simpl; [lia|]. destruct (is_exit (g k)); lia. Qed.

Lemma cnt_exit_upd_ge : forall g i p k, k <= i -> cnt_exit (gupd g i p) k = cnt_exit g k.
Proof.
  induction k; intros Hk; simpl; [reflexivity|].
  rewrite gupd_other by lia. rewrite IHk by lia. reflexivity.
Qed.

Lemma cnt_exit_upd_same : forall g i p k, is_exit p = is_exit (g i) -> cnt_exit (gupd g i p) k = cnt_exit g k.
Proof.
  induction k; intros E; simpl; [reflexivity|].
  rewrite IHk by assumption. destruct (Nat.eq_dec k i) as [->|N].
  - rewrite gupd_same, E. reflexivity.
  - rewrite gupd_other by assumption. reflexivity.
Qed.

Lemma cnt_exit_upd_exit : forall g i p k, i < k -> is_exit (g i) = false -> is_exit p = true ->
  cnt_exit (gupd g i p) k = S (cnt_exit g k).
Proof.
  induction k; intros Hi E P; [lia|]. simpl.
  destruct (Nat.eq_dec k i) as [->|N].
  - rewrite gupd_same, P, E. rewrite cnt_exit_upd_ge by lia. reflexivity.
  - rewrite gupd_other by assumption. rewrite IHk by (assumption || lia). lia.
Qed.

Lemma cnt_exit_full : forall g k, cnt_exit g k = k -> forall i, i < k -> is_exit (g i) = true.
Proof.
  induction k; intros E i Hi; [lia|]. simpl in E. pose proof (cnt_exit_le g k) as L.
  destruct (is_exit (g k)) eqn:Ek; [|lia].
  destruct (Nat.eq_dec i k) as [->|N]; [assumption|]. apply IHk; lia.
Qed.

Lemma cnt_exit_all : forall g k, (forall i, i < k -> is_exit (g i) = true) -> cnt_exit g k = k.
Proof.
  induction k; intros A; [reflexivity|]. simpl. rewrite A by lia. rewrite IHk; [lia|]. intros; apply A; lia.
Qed.

(* ---------- the state invariant ---------- *)

(* goroutines started / wg.Add calls made so far, read off the caller's program counter *)
Definition nsp (sc : script) (c : cpc) : nat := match c with CAdd k | CSpawn k => k | _ => length sc end.
Definition nadd (sc : script) (c : cpc) : nat := match c with CAdd k => k | CSpawn k => S k | _ => length sc end.

Record SInv (sc : script) (s : st) : Prop := mkSInv {
  i_range : match s_c s with CAdd k | CSpawn k => k < length sc | _ => True end;
  i_spawned : forall i, s_g s i <> GNot <-> i < nsp sc (s_c s);
  i_count : s_cnt s + cnt_exit (s_g s) (length sc) = nadd sc (s_c s);
  i_nopanic : forall i, s_g s i <> GPanic;
  i_body_once : forall i, in_body (s_g s i) = true -> s_once s = ORun i;
  i_once_body : forall j, s_once s = ORun j -> in_body (s_g s j) = true;
  i_once_new : s_once s = ONew -> s_err s = None /\ forall i, past_once (s_g s i) = false;
  i_err_run : forall j, s_once s = ORun j ->
     match s_g s j with
     | GB1 _ => s_err s = None
     | GB2 e => s_err s = Some e
     | GBX e => s_err s = Some e /\ s_ctx s <> None
     | _ => True
     end;
  i_once_done : s_once s = ODone -> s_err s <> None /\ s_ctx s <> None;
  i_results : forall i r, g_ret (s_g s i) = Some r -> exists w, nth_error sc i = Some w /\ w_res w = r;
  i_passed : passed_wait (s_c s) = true -> s_cnt s = 0;
  i_ret : match s_c s with
          | CRet => s_ctx s <> None
          | CDone r => s_ctx s <> None /\ r = s_err s
          | _ => True
          end;
  i_cause : match s_ctx s with
            | Some (CErr e) => s_err s = Some e
            | Some CNil => passed_wait (s_c s) = true /\ s_err s = None
            | _ => True
            end
}.

Lemma next_c_nsp : forall sc k, k <= length sc -> nsp sc (next_c sc k) = k /\ nadd sc (next_c sc k) = k.
Proof.
  intros sc k Hk. unfold next_c. destruct (Nat.ltb_spec k (length sc)); simpl; split; lia.
Qed.

Lemma next_c_range : forall sc k, match next_c sc k with CAdd j | CSpawn j => j < length sc | _ => True end.
Proof. intros. unfold next_c. destruct (Nat.ltb_spec k (length sc)); simpl; auto. Qed.

Lemma next_c_not_passed : forall sc k, passed_wait (next_c sc k) = false.
Proof. intros. unfold next_c. destruct (Nat.ltb k (length sc)); reflexivity. Qed.

Lemma cnt_exit_none : forall g k, (forall i, i < k -> is_exit (g i) = false) -> cnt_exit g k = 0.
Proof.
  induction k; intros A; [reflexivity|]. simpl. rewrite A by lia. rewrite IHk; [lia|]. intros; apply A; lia.
Qed.

Lemma sinv_init : forall sc, SInv sc (init sc).
Proof.
  intros sc. destruct (next_c_nsp sc 0) as [N1 N2]; [lia|].
  constructor; simpl; try rewrite N1; try rewrite N2; try discriminate; auto.
  - apply next_c_range.
  - intros i. split; [intros H; contradiction H; reflexivity | lia].
  - rewrite cnt_exit_none; reflexivity.
  - pose proof (next_c_not_passed sc 0) as H. destruct (next_c sc 0); try exact I; discriminate H.
Qed.

(* ---------- consequences used while proving preservation ---------- *)

Lemma sinv_unspawned : forall sc s, SInv sc s -> forall i, nsp sc (s_c s) <= i -> s_g s i = GNot.
Proof.
  intros sc s I i Hi. destruct (s_g s i) eqn:E; try reflexivity; exfalso;
    assert (L : i < nsp sc (s_c s)) by (apply (i_spawned sc s I); rewrite E; discriminate); lia.
Qed.

Lemma nsp_le : forall sc s, SInv sc s -> nsp sc (s_c s) <= length sc.
Proof. intros sc s I. pose proof (i_range sc s I) as R. destruct (s_c s); simpl in *; lia. Qed.

Lemma sinv_started_lt : forall sc s, SInv sc s -> forall i, s_g s i <> GNot -> i < length sc.
Proof. intros sc s I i H. apply (i_spawned sc s I) in H. pose proof (nsp_le sc s I). lia. Qed.

Lemma sinv_passed_exit : forall sc s, SInv sc s -> passed_wait (s_c s) = true ->
  forall i, i < length sc -> is_exit (s_g s i) = true.
Proof.
  intros sc s I P. pose proof (i_passed sc s I P) as C. pose proof (i_count sc s I) as K.
  apply cnt_exit_full. destruct (s_c s); simpl in *; try discriminate; lia.
Qed.

(* once Wait has passed wg.Wait no goroutine of the group can take a step *)
Lemma sinv_passed_quiet : forall sc s, SInv sc s -> passed_wait (s_c s) = true ->
  forall i, s_g s i = GNot \/ is_exit (s_g s i) = true.
Proof.
  intros sc s I P i. destruct (Nat.lt_ge_cases i (length sc)) as [L|G].
  - right. eapply sinv_passed_exit; eauto.
  - left. apply (sinv_unspawned sc s I). pose proof (nsp_le sc s I). destruct (s_c s); simpl in *; try discriminate; lia.
Qed.

Ltac quiet I P i :=
  let Q := fresh "Q" in
  destruct (sinv_passed_quiet _ _ I P i) as [Q|Q];
  match goal with E : s_g _ i = _ |- _ => rewrite E in Q; discriminate Q end.

(* ---------- preservation of the state invariant ---------- *)

Ltac gcase j i := unfold gupd; destruct (Nat.eqb_spec j i); [subst j|].

Lemma pres_range : forall sc s t e s', SInv sc s -> act sc s t = Some (e, s') ->
  match s_c s' with CAdd k | CSpawn k => k < length sc | _ => True end.
Proof.
  intros sc s t e s' I H. pose proof (i_range sc s I) as R.
  act_inv H; simpl; try exact I; try apply next_c_range;
    repeat match goal with E : s_c s = _ |- _ => rewrite E in R end; auto.
Qed.

Lemma after_f_not : forall r, after_f r <> GNot /\ after_f r <> GPanic /\ in_body (after_f r) = false /\
  past_once (after_f r) = false /\ is_exit (after_f r) = false /\ g_ret (after_f r) = Some r.
Proof. destruct r; simpl; repeat split; discriminate. Qed.

Lemma pres_spawned : forall sc s t e s', SInv sc s -> act sc s t = Some (e, s') ->
  forall i, s_g s' i <> GNot <-> i < nsp sc (s_c s').
Proof.
  intros sc s t e s' I H j. pose proof (i_spawned sc s I j) as R. pose proof (i_range sc s I) as RG.
  act_inv H; simpl;
    repeat match goal with E : s_c s = _ |- _ => rewrite E in R, RG; simpl in R, RG end; auto.
  1: { destruct (next_c_nsp sc (S i)) as [N _]; [lia|]. rewrite N.
       gcase j i; [split; intros _; [lia|discriminate]|]. rewrite R. simpl. lia. }
  all: gcase j i; [|exact R]; split; intros _;
       try (apply R; match goal with E : s_g _ _ = _ |- _ => rewrite E end; discriminate);
       try discriminate.
  apply after_f_not.
Qed.

Lemma cnt_exit_lt : forall g k i, i < k -> is_exit (g i) = false -> cnt_exit g k < k.
Proof.
  induction k; intros i Hi E; [lia|]. simpl. destruct (Nat.eq_dec i k) as [->|N].
  - rewrite E. pose proof (cnt_exit_le g k). lia.
  - assert (cnt_exit g k < k) by (apply (IHk i); [lia|assumption]). destruct (is_exit (g k)); lia.
Qed.

Lemma cnt_exit_trunc : forall g m k, m <= k -> (forall j, m <= j -> is_exit (g j) = false) ->
  cnt_exit g k = cnt_exit g m.
Proof.
  induction k; intros L A.
  - assert (m = 0) by lia. subst. reflexivity.
  - destruct (Nat.eq_dec m (S k)) as [->|N]; [reflexivity|]. simpl. rewrite A by lia. rewrite IHk by (lia || assumption). reflexivity.
Qed.

Lemma nsp_nadd : forall sc c, nsp sc c <= nadd sc c.
Proof. destruct c; simpl; lia. Qed.

(* a goroutine that has started and not finished keeps the counter positive *)
Lemma sinv_cnt_pos : forall sc s, SInv sc s -> forall i, s_g s i <> GNot -> is_exit (s_g s i) = false -> 0 < s_cnt s.
Proof.
  intros sc s I i N E. pose proof (i_count sc s I) as K. pose proof (nsp_nadd sc (s_c s)) as L.
  pose proof (nsp_le sc s I) as L2. apply (i_spawned sc s I) in N.
  rewrite (cnt_exit_trunc (s_g s) (nsp sc (s_c s))) in K; [|assumption|].
  - pose proof (cnt_exit_lt (s_g s) _ i N E). lia.
  - intros j Hj. rewrite (sinv_unspawned sc s I j Hj). reflexivity.
Qed.

Lemma pres_count : forall sc s t e s', SInv sc s -> act sc s t = Some (e, s') ->
  s_cnt s' + cnt_exit (s_g s') (length sc) = nadd sc (s_c s').
Proof.
  intros sc s t e s' I H. pose proof (i_count sc s I) as R. pose proof (i_range sc s I) as RG.
  act_inv H; simpl;
    repeat match goal with E : s_c s = _ |- _ => rewrite E in R, RG; simpl in R, RG end; auto.
  1: { destruct (next_c_nsp sc (S i)) as [_ N]; [lia|]. rewrite N.
       rewrite cnt_exit_upd_same; [exact R|]. rewrite (sinv_unspawned sc s I i); [reflexivity|]. rewrite Heqc. simpl. lia. }
  all: try (rewrite cnt_exit_upd_same; [exact R|]; match goal with E : s_g _ _ = _ |- _ => rewrite E end; try reflexivity; apply after_f_not).
  - rewrite cnt_exit_upd_exit; [lia| |rewrite Heqg; reflexivity|reflexivity].
    apply (sinv_started_lt sc s I). rewrite Heqg. discriminate.
Qed.

Lemma pres_nopanic : forall sc s t e s', SInv sc s -> act sc s t = Some (e, s') -> forall i, s_g s' i <> GPanic.
Proof.
  intros sc s t e s' I H j. pose proof (i_nopanic sc s I j) as R.
  act_inv H; simpl; auto.
  all: gcase j i; [|exact R]; try discriminate; try apply after_f_not.
  exfalso. assert (0 < s_cnt s); [|lia]. apply (sinv_cnt_pos sc s I i); rewrite Heqg; [discriminate|reflexivity].
Qed.

Lemma pres_body_once : forall sc s t e s', SInv sc s -> act sc s t = Some (e, s') ->
  forall i, in_body (s_g s' i) = true -> s_once s' = ORun i.
Proof.
  intros sc s t e s' I H j. pose proof (i_body_once sc s I j) as R.
  act_inv H; simpl; auto.
  all: pose proof (i_body_once sc s I i) as Ri; rewrite ?Heqg in Ri; simpl in Ri.
  all: gcase j i; simpl; [ try discriminate; try (intros _; auto; fail) | intros B; specialize (R B); try congruence ].
  - exfalso. rewrite Ri in R by reflexivity. inversion R. congruence.
  - destruct (after_f_not (w_res w)) as (_ & _ & B & _). rewrite B. discriminate.
Qed.

Lemma pres_once_body : forall sc s t e s', SInv sc s -> act sc s t = Some (e, s') ->
  forall j, s_once s' = ORun j -> in_body (s_g s' j) = true.
Proof.
  intros sc s t e s' I H j. pose proof (i_once_body sc s I j) as R.
  act_inv H; simpl; auto.
  all: pose proof (i_body_once sc s I i) as Ri; pose proof (i_once_body sc s I i) as Rb; rewrite ?Heqg in Ri, Rb; simpl in Ri, Rb.
  all: gcase j i; simpl; auto; try discriminate; try congruence.
  - intros O. specialize (Rb O). rewrite (sinv_unspawned sc s I i) in Rb; [discriminate|]. rewrite Heqc. simpl. lia.
  - intros O. discriminate (Rb O).
Qed.

Lemma pres_once_new : forall sc s t e s', SInv sc s -> act sc s t = Some (e, s') ->
  s_once s' = ONew -> s_err s' = None /\ forall i, past_once (s_g s' i) = false.
Proof.
  intros sc s t e s' I H. pose proof (i_once_new sc s I) as R.
  act_inv H; simpl; auto; try discriminate.
  all: pose proof (i_body_once sc s I i) as Ri; rewrite ?Heqg in Ri; simpl in Ri.
  all: intros O; try (rewrite Ri in O by reflexivity; discriminate O); destruct (R O) as [R1 R2]; split; auto.
  all: intros j; gcase j i; simpl; auto.
  - specialize (R2 i). rewrite Heqg in R2. exact R2.
  - apply after_f_not.
Qed.

Lemma do_cancel_some : forall c k, do_cancel c k <> None.
Proof. destruct c; simpl; discriminate. Qed.

Lemma pres_err_run : forall sc s t e s', SInv sc s -> act sc s t = Some (e, s') ->
  forall j, s_once s' = ORun j ->
     match s_g s' j with
     | GB1 _ => s_err s' = None
     | GB2 e => s_err s' = Some e
     | GBX e => s_err s' = Some e /\ s_ctx s' <> None
     | _ => True
     end.
Proof.
  intros sc s t e s' I H j. pose proof (i_err_run sc s I j) as R.
  act_inv H; simpl; auto.
  all: intros O; try discriminate O.
  - (* go statement *) specialize (R O). gcase j i; simpl; auto.
  - (* Wait's cancel *) specialize (R O). destruct (s_g s j); auto. destruct R; split; auto using do_cancel_some.
  - (* Once entered *) inversion O; subst j. rewrite gupd_same. apply (i_once_new sc s I Heqo).
  - (* g.err = err *) pose proof (i_body_once sc s I i) as Ri. rewrite Heqg in Ri. rewrite Ri in O by reflexivity.
    inversion O; subst j. rewrite gupd_same. reflexivity.
  - (* cancel *) pose proof (i_body_once sc s I i) as Ri. rewrite Heqg in Ri. rewrite Ri in O by reflexivity.
    inversion O; subst j. rewrite gupd_same. rewrite Heqg in R. split; [apply R; apply Ri; reflexivity | apply do_cancel_some].
  - specialize (R O). gcase j i; simpl; auto.
  - specialize (R O). gcase j i; simpl; auto.
  - specialize (R O). gcase j i; simpl; auto. destruct (w_res w); simpl; exact Logic.I.
  - specialize (R O). destruct (s_g s j); auto. destruct R; split; auto; discriminate.
Qed.

Lemma pres_once_done : forall sc s t e s', SInv sc s -> act sc s t = Some (e, s') ->
  s_once s' = ODone -> s_err s' <> None /\ s_ctx s' <> None.
Proof.
  intros sc s t e s' I H. pose proof (i_once_done sc s I) as R.
  act_inv H; simpl; auto; try discriminate.
  all: intros O; try (destruct (R O) as [R1 R2]; split; auto using do_cancel_some; discriminate).
  pose proof (i_body_once sc s I i) as Ri. rewrite Heqg in Ri. pose proof (i_err_run sc s I i (Ri eq_refl)) as Re.
  rewrite Heqg in Re. destruct Re as [Re1 Re2]. split; [rewrite Re1; discriminate | exact Re2].
Qed.

Lemma pres_results : forall sc s t e s', SInv sc s -> act sc s t = Some (e, s') ->
  forall i r, g_ret (s_g s' i) = Some r -> exists w, nth_error sc i = Some w /\ w_res w = r.
Proof.
  intros sc s t e s' I H j r. pose proof (i_results sc s I j r) as R.
  act_inv H; simpl; auto.
  all: pose proof (i_results sc s I i) as Ri; rewrite ?Heqg in Ri; simpl in Ri.
  all: gcase j i; simpl; auto; try discriminate.
  destruct (after_f_not (w_res w)) as (_ & _ & _ & _ & _ & G). rewrite G. intros E. inversion E; subst. exists w. auto.
Qed.

Lemma pres_passed : forall sc s t e s', SInv sc s -> act sc s t = Some (e, s') ->
  passed_wait (s_c s') = true -> s_cnt s' = 0.
Proof.
  intros sc s t e s' I H. pose proof (i_passed sc s I) as R.
  act_inv H; simpl; auto; try discriminate.
  all: try (rewrite Heqc in R; simpl in R; exact R).
  - rewrite next_c_not_passed. discriminate.
  - intros _. apply Nat.eqb_eq. assumption.
  - intros P. exfalso. quiet I P i.
Qed.

Lemma pres_ret : forall sc s t e s', SInv sc s -> act sc s t = Some (e, s') ->
  match s_c s' with
  | CRet => s_ctx s' <> None
  | CDone r => s_ctx s' <> None /\ r = s_err s'
  | _ => True
  end.
Proof.
  intros sc s t e s' I H. pose proof (i_ret sc s I) as R.
  act_inv H; simpl; auto using do_cancel_some.
  - unfold next_c. destruct (Nat.ltb (S i) (length sc)); exact Logic.I.
  - destruct (s_c s) eqn:C; auto. exfalso. assert (P : passed_wait (s_c s) = true) by (rewrite C; reflexivity). quiet I P i.
  - destruct (s_c s); auto using do_cancel_some. destruct R. split; auto using do_cancel_some.
  - destruct (s_c s); auto; try discriminate. destruct R. split; auto; discriminate.
Qed.

Lemma pres_cause : forall sc s t e s', SInv sc s -> act sc s t = Some (e, s') ->
  match s_ctx s' with
  | Some (CErr e) => s_err s' = Some e
  | Some CNil => passed_wait (s_c s') = true /\ s_err s' = None
  | _ => True
  end.
Proof.
  intros sc s t e s' I H. pose proof (i_cause sc s I) as R.
  act_inv H; simpl; auto.
  - simpl in R. destruct (s_ctx s) as [[]|]; auto. destruct R; discriminate.
  - destruct (s_ctx s) as [[]|]; auto. destruct R; auto.
  - destruct (s_ctx s) as [[]|]; simpl; auto. destruct (s_err s); simpl; auto.
  - pose proof (i_body_once sc s I i) as Ri. rewrite Heqg in Ri. pose proof (i_err_run sc s I i (Ri eq_refl)) as Re.
    rewrite Heqg in Re. destruct (s_ctx s) as [[]|]; auto; [congruence|]. destruct R as [P _]. exfalso. quiet I P i.
  - pose proof (i_body_once sc s I i) as Ri. rewrite Heqg in Ri. pose proof (i_err_run sc s I i (Ri eq_refl)) as Re.
    rewrite Heqg in Re. destruct (s_ctx s) as [[]|]; simpl; auto. rewrite Re. simpl. reflexivity.
Qed.

Lemma sinv_step : forall sc s t e s', SInv sc s -> act sc s t = Some (e, s') -> SInv sc s'.
Proof.
  intros sc s t e s' I H. constructor.
  - eapply pres_range; eauto.
  - eapply pres_spawned; eauto.
  - eapply pres_count; eauto.
  - eapply pres_nopanic; eauto.
  - eapply pres_body_once; eauto.
  - eapply pres_once_body; eauto.
  - eapply pres_once_new; eauto.
  - eapply pres_err_run; eauto.
  - eapply pres_once_done; eauto.
  - eapply pres_results; eauto.
  - eapply pres_passed; eauto.
  - eapply pres_ret; eauto.
  - eapply pres_cause; eauto.
Qed.



(* ---------- the trace invariant ---------- *)

Lemma each_occ_nil : forall b P, each_occ b P [].
Proof. intros b P l1 l2 H. destruct l1; discriminate H. Qed.

Lemma each_occ_cons : forall b P tr e, each_occ b P tr -> (e = b -> P tr) -> each_occ b P (e :: tr).
Proof.
  intros b P tr e H He l1 l2 E. destruct l1 as [|x l1]; simpl in E; inversion E; subst.
  - apply He. reflexivity.
  - eapply H. reflexivity.
Qed.

Lemma precedes_is : forall a b tr, precedes a b tr <-> each_occ b (In a) tr.
Proof. intros. unfold precedes, each_occ. tauto. Qed.

Lemma never_before_is : forall b a tr, never_before b a tr <-> each_occ a (fun l => ~ In b l) tr.
Proof. intros. unfold never_before, each_occ. tauto. Qed.

Lemma in_cons_neq : forall (x e : event) tr, e <> x -> (In x (e :: tr) <-> In x tr).
Proof. intros x e tr N. simpl. split; [intros [E|H]; [contradiction|assumption] | auto]. Qed.

Record TInv (sc : script) (s : st) (tr : list event) : Prop := mkTInv {
  t_enter : match s_once s with
            | ONew => filter is_enter tr = []
            | ORun j => filter is_enter tr = [EvEnter j]
            | ODone => exists j, filter is_enter tr = [EvEnter j]
            end;
  t_write : match s_err s with
            | None => filter is_write tr = []
            | Some e => exists j, filter is_write tr = [EvWrite j e] /\ filter is_enter tr = [EvEnter j] /\
                                  g_ret (s_g s j) = Some (Some e)
            end;
  t_done : forall i, In (EvDone i) tr <-> is_exit (s_g s i) = true;
  t_pass : In EvWaitPass tr <-> passed_wait (s_c s) = true;
  t_read : forall e, is_read e = true -> In e tr -> passed_wait (s_c s) = true;
  t_ret : forall i r, In (EvRet i r) tr <-> g_ret (s_g s i) = Some r;
  t_ext : In EvExt tr -> s_ctx s <> None;
  t_parent : s_ctx s = Some CParent -> In EvExt tr;
  o_done_pass : forall i, i < length sc -> precedes (EvDone i) EvWaitPass tr;
  o_pass_read : forall e, is_read e = true -> precedes EvWaitPass e tr;
  o_write_done : forall i e, never_before (EvDone i) (EvWrite i e) tr;
  o_write_read : forall i e r, is_read r = true -> never_before r (EvWrite i e) tr;
  o_ret_done : forall i, each_occ (EvDone i) (fun l => exists r, In (EvRet i r) l) tr;
  o_cancel : forall i v, each_occ (EvCancel i v) (fun l => exists e, v = Some e /\ In (EvRet i (Some e)) l) tr
}.

Lemma tinv_init : forall sc, TInv sc (init sc) [].
Proof.
  intros sc. constructor; simpl; auto; try (intros; apply each_occ_nil); try discriminate; try tauto.
  - split; [tauto|discriminate].
  - rewrite next_c_not_passed. split; [tauto|discriminate].
  - split; [tauto|discriminate].
Qed.

Section Pres.
  Variables (sc : script) (s : st) (tr : list event) (t : tid) (e : event) (s' : st).
  Hypothesis (I : SInv sc s) (T : TInv sc s tr) (H : act sc s t = Some (e, s')).

  Lemma tpres_enter :
    match s_once s' with
    | ONew => filter is_enter (e :: tr) = []
    | ORun j => filter is_enter (e :: tr) = [EvEnter j]
    | ODone => exists j, filter is_enter (e :: tr) = [EvEnter j]
    end.
  Proof.
    pose proof (t_enter sc s tr T) as R. clear T.
    act_inv H; simpl; auto.
    - rewrite R. reflexivity.
    - pose proof (i_body_once sc s I i) as Ri. rewrite Heqg in Ri. rewrite (Ri eq_refl) in R. eauto.
  Qed.

  Lemma tpres_write :
    match s_err s' with
    | None => filter is_write (e :: tr) = []
    | Some x => exists j, filter is_write (e :: tr) = [EvWrite j x] /\ filter is_enter (e :: tr) = [EvEnter j] /\
                          g_ret (s_g s' j) = Some (Some x)
    end.
  Proof.
    pose proof (t_write sc s tr T) as R. pose proof (t_enter sc s tr T) as RE. clear T.
    act_inv H; simpl; auto.
    2: { destruct (i_once_new sc s I Heqo) as [En _]. rewrite En in *. exact R. }
    3: { pose proof (i_body_once sc s I i) as Ri. rewrite Heqg in Ri. specialize (Ri eq_refl).
         pose proof (i_err_run sc s I i Ri) as Re. rewrite Heqg in Re. rewrite Re in R. rewrite Ri in RE.
         exists i. rewrite R, gupd_same. auto. }
    all: destruct (s_err s) eqn:Es; [|exact R]; destruct R as (j & W & En & G); exists j; repeat split; auto.
    1: { gcase j i; [|exact G]. rewrite (sinv_unspawned sc s I i) in G; [discriminate G|]. rewrite Heqc. simpl. lia. }
    all: gcase j i; [rewrite Heqg in G; try discriminate G; try exact G | exact G].
    exfalso. assert (0 < s_cnt s); [|lia]. apply (sinv_cnt_pos sc s I i); rewrite Heqg; [discriminate|reflexivity].
  Qed.

  Lemma tpres_done : forall i, In (EvDone i) (e :: tr) <-> is_exit (s_g s' i) = true.
  Proof.
    intros j. pose proof (t_done sc s tr T j) as R. clear T.
    act_inv H; simpl s_g; try (rewrite in_cons_neq by discriminate); auto.
    1: { gcase j i; [|exact R]. rewrite (sinv_unspawned sc s I i) in R; [exact R|]. rewrite Heqc. simpl. lia. }
    all: gcase j i; [rewrite Heqg in R; simpl in *; try exact R | try exact R].
    - split; auto.
    - rewrite in_cons_neq; [exact R|congruence].
    - destruct (after_f_not (w_res w)) as (_ & _ & _ & _ & X & _). rewrite X. exact R.
  Qed.

  Lemma tpres_pass : In EvWaitPass (e :: tr) <-> passed_wait (s_c s') = true.
  Proof.
    pose proof (t_pass sc s tr T) as R. clear T.
    act_inv H; simpl s_c; try (rewrite in_cons_neq by discriminate); auto.
    - rewrite next_c_not_passed. simpl in R. exact R.
    - simpl. split; auto.
  Qed.

  Lemma tpres_read : forall x, is_read x = true -> In x (e :: tr) -> passed_wait (s_c s') = true.
  Proof.
    intros x X. pose proof (t_read sc s tr T x X) as R. clear T.
    act_inv H; simpl s_c; intros [E|Hin]; try (subst x; discriminate X); auto.
    discriminate (R Hin).
  Qed.

  Lemma tpres_ret : forall i r, In (EvRet i r) (e :: tr) <-> g_ret (s_g s' i) = Some r.
  Proof.
    intros j r. pose proof (t_ret sc s tr T j r) as R. clear T.
    act_inv H; simpl s_g; try (rewrite in_cons_neq by discriminate); auto.
    1: { gcase j i; [|exact R]. rewrite (sinv_unspawned sc s I i) in R; [exact R|]. rewrite Heqc. simpl. lia. }
    all: gcase j i; [rewrite Heqg in R; simpl in *; try exact R | try exact R].
    - exfalso. assert (0 < s_cnt s); [|lia]. apply (sinv_cnt_pos sc s I i); rewrite Heqg; [discriminate|reflexivity].
    - destruct (after_f_not (w_res w)) as (_ & _ & _ & _ & _ & X). rewrite X. split.
      + intros [E|Hin]; [inversion E; reflexivity | apply R in Hin; discriminate Hin].
      + intros E. inversion E. auto.
    - rewrite in_cons_neq; [exact R|congruence].
  Qed.

  Lemma tpres_ext : In EvExt (e :: tr) -> s_ctx s' <> None.
  Proof.
    pose proof (t_ext sc s tr T) as R. clear T.
    act_inv H; simpl s_ctx; try (rewrite in_cons_neq by discriminate); auto using do_cancel_some.
    discriminate.
  Qed.

  Lemma tpres_parent : s_ctx s' = Some CParent -> In EvExt (e :: tr).
  Proof.
    pose proof (t_parent sc s tr T) as R. clear T.
    act_inv H; simpl s_ctx; try (rewrite in_cons_neq by discriminate); auto.
    - destruct (s_ctx s); simpl; auto. destruct (s_err s); simpl; discriminate.
    - destruct (s_ctx s); simpl; auto. destruct (s_err s); simpl; discriminate.
    - intros _. left. reflexivity.
  Qed.

  Lemma opres_done_pass : forall i, i < length sc -> precedes (EvDone i) EvWaitPass (e :: tr).
  Proof.
    intros j Hj. pose proof (o_done_pass sc s tr T j Hj) as R. apply precedes_is. apply precedes_is in R.
    apply each_occ_cons; [exact R|]. pose proof (t_done sc s tr T j) as D. clear T R.
    act_inv H; try discriminate. intros _. apply D.
    apply Nat.eqb_eq in Heqb. pose proof (i_count sc s I) as K. rewrite Heqc in K. simpl in K.
    apply (cnt_exit_full (s_g s) (length sc)); [lia|assumption].
  Qed.

  Lemma opres_pass_read : forall x, is_read x = true -> precedes EvWaitPass x (e :: tr).
  Proof.
    intros x X. pose proof (o_pass_read sc s tr T x X) as R. apply precedes_is. apply precedes_is in R.
    apply each_occ_cons; [exact R|]. pose proof (t_pass sc s tr T) as D. clear T R.
    act_inv H; intros E; try (subst x; discriminate X); apply D; reflexivity.
  Qed.

  Lemma opres_write_done : forall i x, never_before (EvDone i) (EvWrite i x) (e :: tr).
  Proof.
    intros j x. pose proof (o_write_done sc s tr T j x) as R. apply never_before_is. apply never_before_is in R.
    apply each_occ_cons; [exact R|]. pose proof (t_done sc s tr T j) as D. clear T R.
    act_inv H; try discriminate. intros E. inversion E; subst. rewrite D, Heqg. discriminate.
  Qed.

  Lemma opres_write_read : forall i x r, is_read r = true -> never_before r (EvWrite i x) (e :: tr).
  Proof.
    intros j x r X. pose proof (o_write_read sc s tr T j x r X) as R. apply never_before_is. apply never_before_is in R.
    apply each_occ_cons; [exact R|]. pose proof (t_read sc s tr T r X) as D. clear T R.
    act_inv H; try discriminate. intros E. inversion E; subst. intros Hin. specialize (D Hin). quiet I D j.
  Qed.

  Lemma opres_ret_done : forall i, each_occ (EvDone i) (fun l => exists r, In (EvRet i r) l) (e :: tr).
  Proof.
    intros j. pose proof (o_ret_done sc s tr T j) as R.
    apply each_occ_cons; [exact R|]. pose proof (t_ret sc s tr T j) as D. clear T R.
    act_inv H; try discriminate. intros E. inversion E; subst. exists r. apply D. rewrite Heqg. reflexivity.
  Qed.

  Lemma opres_cancel : forall i v, each_occ (EvCancel i v) (fun l => exists x, v = Some x /\ In (EvRet i (Some x)) l) (e :: tr).
  Proof.
    intros j v. pose proof (o_cancel sc s tr T j v) as R.
    apply each_occ_cons; [exact R|]. pose proof (t_ret sc s tr T j) as D. clear T R.
    act_inv H; try discriminate. intros E. inversion E; subst.
    pose proof (i_body_once sc s I j) as Ri. rewrite Heqg in Ri. pose proof (i_err_run sc s I j (Ri eq_refl)) as Re.
    rewrite Heqg in Re. exists e0. split; [exact Re|]. apply D. rewrite Heqg. reflexivity.
  Qed.

  Lemma tinv_act : TInv sc s' (e :: tr).
  Proof.
    constructor.
    - apply tpres_enter.
    - apply tpres_write.
    - apply tpres_done.
    - apply tpres_pass.
    - apply tpres_read.
    - apply tpres_ret.
    - apply tpres_ext.
    - apply tpres_parent.
    - apply opres_done_pass.
    - apply opres_pass_read.
    - apply opres_write_done.
    - apply opres_write_read.
    - apply opres_ret_done.
    - apply opres_cancel.
  Qed.
End Pres.

(* ---------- every execution satisfies both invariants ---------- *)

Definition Inv (sc : script) (c : cfg) : Prop := SInv sc (fst c) /\ TInv sc (fst c) (snd c).

Lemma inv_step : forall sc c t, Inv sc c -> Inv sc (step sc c t).
Proof.
  intros sc [s tr] t [I T]. unfold step. simpl fst. simpl snd. destruct (act sc s t) as [[e s']|] eqn:A.
  - split; simpl; [eapply sinv_step; eauto | eapply tinv_act; eauto].
  - split; assumption.
Qed.

Lemma inv_run : forall sc sched c, Inv sc c -> Inv sc (run sc c sched).
Proof. induction sched as [|t l IH]; intros c HI; [exact HI|]. rewrite run_cons. apply IH. apply inv_step. exact HI. Qed.

Lemma inv_exec : forall sc sched, Inv sc (exec sc sched).
Proof. intros. apply inv_run. split; [apply sinv_init | apply tinv_init]. Qed.


(* ================= safety theorems ================= *)

(* 1a. g.err is written at most once, the Once body is entered at most once, and the value of g.err is the error
   returned by the worker function of the goroutine that entered it *)
Theorem err_written_once : forall sc sched,
  let s := fst (exec sc sched) in let tr := snd (exec sc sched) in
  length (filter is_write tr) <= 1 /\ length (filter is_enter tr) <= 1 /\
  (s_err s = None -> filter is_write tr = []) /\
  (forall e, s_err s = Some e ->
     exists j w, filter is_enter tr = [EvEnter j] /\ filter is_write tr = [EvWrite j e] /\
                 In (EvRet j (Some e)) tr /\ nth_error sc j = Some w /\ w_res w = Some e).
Proof.
  intros sc sched s tr. destruct (inv_exec sc sched) as [I T]. fold s in I, T. fold tr in T.
  pose proof (t_write sc s tr T) as W. pose proof (t_enter sc s tr T) as E.
  repeat split.
  - destruct (s_err s); [destruct W as (j & -> & _)|rewrite W]; simpl; lia.
  - destruct (s_once s); [rewrite E|rewrite E|destruct E as (j & ->)]; simpl; lia.
  - intros N. rewrite N in W. exact W.
  - intros e N. rewrite N in W. destruct W as (j & W1 & W2 & W3).
    destruct (i_results sc s I j _ W3) as (w & Hw & Hr). exists j, w. repeat split; auto.
    apply (t_ret sc s tr T). exact W3.
Qed.

(* 1b. no data race on g.err: program order and the WaitGroup order every write before every read *)
Theorem err_race_free : forall sc sched, let tr := snd (exec sc sched) in
  (forall i e, never_before (EvDone i) (EvWrite i e) tr) /\
  (forall i, i < length sc -> precedes (EvDone i) EvWaitPass tr) /\
  (forall r, is_read r = true -> precedes EvWaitPass r tr) /\
  (forall i e r, is_read r = true -> never_before r (EvWrite i e) tr).
Proof.
  intros sc sched tr. destruct (inv_exec sc sched) as [I T]. fold tr in T.
  repeat split; [apply (o_write_done _ _ _ T) | apply (o_done_pass _ _ _ T) | apply (o_pass_read _ _ _ T) | apply (o_write_read _ _ _ T)].
Qed.

(* wg.Done never finds the counter at zero *)
Theorem no_panic : forall sc sched i, s_g (fst (exec sc sched)) i <> GPanic.
Proof. intros sc sched i. destruct (inv_exec sc sched) as [I _]. apply (i_nopanic _ _ I). Qed.

(* ---------- the group context ---------- *)

Lemma ctx_stable_step : forall sc c t k, s_ctx (fst c) = Some k -> s_ctx (fst (step sc c t)) = Some k.
Proof.
  intros sc [s tr] t k C. unfold step. simpl fst in *. destruct (act sc s t) as [[e s']|] eqn:A; [|exact C].
  simpl. act_inv A; simpl; auto; try congruence; rewrite C; reflexivity.
Qed.

(* 2a. a cancelled context is never un-cancelled and keeps its cause *)
Theorem ctx_stable : forall sc sched c k, s_ctx (fst c) = Some k -> s_ctx (fst (run sc c sched)) = Some k.
Proof.
  induction sched as [|t l IH]; intros c k C; [exact C|]. rewrite run_cons. apply IH. apply ctx_stable_step. exact C.
Qed.

(* a cancellation of the parent reaches a live group context in that very step *)
Lemma parent_cancel_step : forall sc c, s_ctx (fst c) = None -> s_ctx (fst (step sc c TX)) = Some CParent.
Proof. intros sc [s tr] C. simpl in C. erewrite step_some; [|unfold act; rewrite C; reflexivity]. reflexivity. Qed.

(* every worker function returned nil, as seen after wg.Wait *)
Lemma all_nil_of_passed : forall sc s, SInv sc s -> passed_wait (s_c s) = true -> s_err s = None ->
  forall i w, nth_error sc i = Some w -> w_res w = None.
Proof.
  intros sc s I P N i w Hw.
  assert (L : i < length sc) by (apply nth_error_Some; rewrite Hw; discriminate).
  pose proof (sinv_passed_exit sc s I P i L) as X. destruct (s_g s i) eqn:G; try discriminate X.
  destruct (i_results sc s I i r) as (w' & Hw' & Hr); [rewrite G; reflexivity|].
  rewrite Hw in Hw'. inversion Hw'; subst w'. rewrite Hr. destruct r as [e|]; [exfalso|reflexivity].
  destruct (s_once s) eqn:O.
  - destruct (i_once_new sc s I O) as [_ Q]. specialize (Q i). rewrite G in Q. discriminate Q.
  - pose proof (i_once_body sc s I i0 O) as B. pose proof (sinv_passed_quiet sc s I P i0) as [Q|Q];
      destruct (s_g s i0); discriminate.
  - destruct (i_once_done sc s I O) as [Q _]. contradiction.
Qed.

(* 2b. where a cancellation comes from (no spurious cancellation): the parent; or the goroutine that won the Once,
   after its worker function returned that error; or Wait, after wg.Wait, when every worker function returned nil.
   Conversely a cancellation of the parent always reaches the group context. *)
Theorem ctx_cause : forall sc sched,
  let s := fst (exec sc sched) in let tr := snd (exec sc sched) in
  (In EvExt tr -> s_ctx s <> None) /\
  forall k, s_ctx s = Some k ->
  match k with
  | CParent => In EvExt tr
  | CErr e => s_err s = Some e /\
              exists j w, filter is_enter tr = [EvEnter j] /\ In (EvRet j (Some e)) tr /\
                          nth_error sc j = Some w /\ w_res w = Some e
  | CNil => passed_wait (s_c s) = true /\ In EvWaitPass tr /\ forall i w, nth_error sc i = Some w -> w_res w = None
  end.
Proof.
  intros sc sched s tr. destruct (inv_exec sc sched) as [I T]. fold s in I, T. fold tr in T.
  split; [apply (t_ext _ _ _ T)|]. intros k C. pose proof (i_cause sc s I) as K. rewrite C in K. destruct k.
  - split; [exact K|]. pose proof (t_write sc s tr T) as W. rewrite K in W. destruct W as (j & W1 & W2 & W3).
    destruct (i_results sc s I j _ W3) as (w & Hw & Hr). exists j, w. repeat split; auto. apply (t_ret sc s tr T). exact W3.
  - destruct K as [P N]. split; [exact P|]. split; [apply (t_pass sc s tr T); exact P|].
    apply (all_nil_of_passed sc s I P N).
  - apply (t_parent sc s tr T C).
Qed.

(* a group cancellation [EvCancel] is always by a goroutine whose own worker function had returned that error *)
Theorem cancel_after_failure : forall sc sched i v l1 l2,
  snd (exec sc sched) = l1 ++ EvCancel i v :: l2 -> exists e, v = Some e /\ In (EvRet i (Some e)) l2.
Proof. intros sc sched i v l1 l2 E. destruct (inv_exec sc sched) as [_ T]. eapply (o_cancel _ _ _ T); eauto. Qed.

(* ---------- Wait ---------- *)

(* 3. Wait returns only after every goroutine ran wg.Done (hence after every worker function returned); nil iff
   every worker function returned nil, otherwise the error of the winner of the Once; the context is then done *)
Theorem wait_returns_inv : forall sc c r, Inv sc c ->
  let s := fst c in let tr := snd c in
  wait_result s = Some r ->
  (forall i w, nth_error sc i = Some w -> s_g s i = GExit (w_res w) /\ In (EvDone i) tr /\ In (EvRet i (w_res w)) tr) /\
  (forall i, i < length sc -> precedes (EvDone i) EvWaitPass tr) /\
  (forall i, each_occ (EvDone i) (fun l => exists x, In (EvRet i x) l) tr) /\
  (r = None <-> forall i w, nth_error sc i = Some w -> w_res w = None) /\
  (forall e, r = Some e -> exists j w, filter is_enter tr = [EvEnter j] /\ nth_error sc j = Some w /\ w_res w = Some e) /\
  s_ctx s <> None.
Proof.
  intros sc c r [I T] s tr WR. fold s in I, T. fold tr in T.
  unfold wait_result in WR. destruct (s_c s) eqn:C; try discriminate WR. inversion WR; subst r0. clear WR.
  assert (P : passed_wait (s_c s) = true) by (rewrite C; reflexivity).
  pose proof (i_ret sc s I) as R. rewrite C in R. destruct R as [Rc Re].
  repeat split.
  - assert (L : i < length sc) by (apply nth_error_Some; rewrite H; discriminate).
    pose proof (sinv_passed_exit sc s I P i L) as X. destruct (s_g s i) eqn:G; try discriminate X.
    destruct (i_results sc s I i r0) as (w' & Hw' & Hr); [rewrite G; reflexivity|]. congruence.
  - apply (t_done sc s tr T). apply (sinv_passed_exit sc s I P). apply nth_error_Some. rewrite H. discriminate.
  - assert (L : i < length sc) by (apply nth_error_Some; rewrite H; discriminate).
    pose proof (sinv_passed_exit sc s I P i L) as X. destruct (s_g s i) eqn:G; try discriminate X.
    destruct (i_results sc s I i r0) as (w' & Hw' & Hr); [rewrite G; reflexivity|].
    apply (t_ret sc s tr T). rewrite G. simpl. congruence.
  - apply (o_done_pass _ _ _ T).
  - apply (o_ret_done _ _ _ T).
  - intros N. apply (all_nil_of_passed sc s I P). congruence.
  - intros A. destruct r as [e|]; [exfalso|reflexivity]. pose proof (t_write sc s tr T) as W. rewrite <- Re in W.
    destruct W as (j & _ & _ & W3). destruct (i_results sc s I j _ W3) as (w & Hw & Hr). rewrite (A j w Hw) in Hr. discriminate.
  - intros e N. pose proof (t_write sc s tr T) as W. rewrite <- Re, N in W.
    destruct W as (j & _ & W2 & W3). destruct (i_results sc s I j _ W3) as (w & Hw & Hr). exists j, w. auto.
  - exact Rc.
Qed.

Theorem wait_returns : forall sc sched r,
  let s := fst (exec sc sched) in let tr := snd (exec sc sched) in
  wait_result s = Some r ->
  (forall i w, nth_error sc i = Some w -> s_g s i = GExit (w_res w) /\ In (EvDone i) tr /\ In (EvRet i (w_res w)) tr) /\
  (forall i, i < length sc -> precedes (EvDone i) EvWaitPass tr) /\
  (forall i, each_occ (EvDone i) (fun l => exists x, In (EvRet i x) l) tr) /\
  (r = None <-> forall i w, nth_error sc i = Some w -> w_res w = None) /\
  (forall e, r = Some e -> exists j w, filter is_enter tr = [EvEnter j] /\ nth_error sc j = Some w /\ w_res w = Some e) /\
  s_ctx s <> None.
Proof. intros sc sched r. apply wait_returns_inv. apply inv_exec. Qed.



(* ================= liveness: progress under fair rounds ================= *)

Lemma tid_eq_dec : forall a b : tid, {a = b} + {a <> b}.
Proof. decide equality; apply Nat.eq_dec. Qed.

Lemma step_cases : forall sc c t,
  (act sc (fst c) t = None /\ step sc c t = c) \/
  (exists e s', act sc (fst c) t = Some (e, s') /\ step sc c t = (s', e :: snd c)).
Proof.
  intros sc [s tr] t. unfold step. simpl. destruct (act sc s t) as [[e s']|]; [right; eauto | left; auto].
Qed.

(* A measure that no step increases and that the step of a designated helper thread decreases goes to zero in
   as many fair rounds as its value. *)
Section Progress.
  Variables (sc : script) (P : cfg -> Prop) (m : cfg -> nat) (h : cfg -> tid).
  Hypothesis P_step : forall c t, P c -> P (step sc c t).
  Hypothesis m_mono : forall c t, P c -> m (step sc c t) <= m c.
  Hypothesis m_prog : forall c, P c -> 0 < m c -> m (step sc c (h c)) < m c.
  Hypothesis h_keep : forall c t, P c -> 0 < m c -> t <> h c -> m (step sc c t) = m c -> h (step sc c t) = h c.
  Hypothesis h_fair : forall c seg, P c -> 0 < m c -> efair sc seg -> In (h c) seg.

  Lemma P_run : forall seg c, P c -> P (run sc c seg).
  Proof. induction seg as [|t l IH]; intros c Pc; [exact Pc|]. rewrite run_cons. apply IH. apply P_step. exact Pc. Qed.

  Lemma run_mono : forall seg c, P c -> m (run sc c seg) <= m c.
  Proof.
    induction seg as [|t l IH]; intros c Pc; [apply le_n|]. rewrite run_cons.
    specialize (IH (step sc c t) (P_step c t Pc)). pose proof (m_mono c t Pc). lia.
  Qed.

  Lemma round_decr : forall seg c, P c -> 0 < m c -> In (h c) seg -> m (run sc c seg) < m c.
  Proof.
    induction seg as [|t l IH]; intros c Pc Pos Hin; [destruct Hin|]. rewrite run_cons.
    pose proof (run_mono l (step sc c t) (P_step c t Pc)) as M.
    destruct (tid_eq_dec t (h c)) as [->|N].
    - pose proof (m_prog c Pc Pos). lia.
    - destruct Hin as [E|Hin]; [contradiction|].
      pose proof (m_mono c t Pc) as M1.
      destruct (Nat.eq_dec (m (step sc c t)) (m c)) as [E|NE]; [|lia].
      rewrite <- E. apply IH; [apply P_step; exact Pc | lia |].
      rewrite (h_keep c t Pc Pos N E). exact Hin.
  Qed.

  Lemma rounds_zero : forall n c c', erounds sc n c c' -> P c -> m c <= n -> P c' /\ m c' = 0.
  Proof.
    induction 1 as [c|n c seg c' F R IH]; intros Pc L; [split; [exact Pc|lia]|].
    apply IH; [apply P_run; exact Pc|].
    destruct (Nat.eq_dec (m c) 0) as [Z|NZ].
    - pose proof (run_mono seg c Pc). lia.
    - assert (Pos : 0 < m c) by lia. pose proof (round_decr seg c Pc Pos (h_fair c seg Pc Pos F)). lia.
  Qed.
End Progress.

(* what a worker function returned stays recorded *)
Lemma g_ret_act : forall sc s t e s' i r, SInv sc s -> act sc s t = Some (e, s') ->
  g_ret (s_g s i) = Some r -> g_ret (s_g s' i) = Some r.
Proof.
  intros sc s t e s' j r I H G.
  act_inv H; simpl; auto.
  1: { gcase j i; [|exact G]. rewrite (sinv_unspawned sc s I i) in G; [discriminate G|]. rewrite Heqc. simpl. lia. }
  all: gcase j i; [rewrite Heqg in G; simpl in *; try exact G; try discriminate G | exact G].
  exfalso. assert (0 < s_cnt s); [|lia]. apply (sinv_cnt_pos sc s I i); rewrite Heqg; [discriminate|reflexivity].
Qed.

Lemma g_ret_step : forall sc c t i r, Inv sc c -> g_ret (s_g (fst c) i) = Some r -> g_ret (s_g (fst (step sc c t)) i) = Some r.
Proof.
  intros sc c t i r [I _] G. destruct (step_cases sc c t) as [[_ ->]|(e & s' & A & ->)]; [exact G|].
  simpl. eapply g_ret_act; eauto.
Qed.

(* ---------- 2c. a failed worker function leads to cancellation within three fair rounds ---------- *)

Definition brank (p : gpc) : nat := match p with GB1 _ => 2 | GB2 _ => 1 | _ => 0 end.

Definition crank (s : st) : nat :=
  match s_ctx s with
  | Some _ => 0
  | None => match s_once s with
            | ONew => 3
            | ORun j => brank (s_g s j)
            | ODone => 0
            end
  end.

Definition chelp (i : nat) (s : st) : tid := match s_once s with ORun j => TG j | _ => TG i end.

Lemma crank_upd : forall sc s s' i p, SInv sc s -> s_ctx s' = s_ctx s -> s_once s' = s_once s -> s_g s' = gupd (s_g s) i p ->
  (in_body (s_g s i) = true -> brank p <= brank (s_g s i)) -> crank s' <= crank s.
Proof.
  intros sc s s' i p I C O G B. unfold crank. rewrite C, O, G. destruct (s_ctx s); [lia|].
  destruct (s_once s) as [|j|] eqn:Oj; try lia. gcase j i; [|lia]. apply B. apply (i_once_body sc s I i Oj).
Qed.

Lemma crank_cancelled : forall s, s_ctx s <> None -> crank s = 0.
Proof. intros s C. unfold crank. destruct (s_ctx s); [reflexivity|contradiction]. Qed.

Lemma crank_mono : forall sc s t e s', SInv sc s -> act sc s t = Some (e, s') -> crank s' <= crank s.
Proof.
  intros sc s t e s' I H.
  act_inv H.
  all: try (rewrite (crank_cancelled (mkSt _ _ _ _ _ _)); [lia | simpl; auto using do_cancel_some; discriminate]).
  all: try (eapply (crank_upd sc s _ i); [exact I|reflexivity|reflexivity|reflexivity|]; rewrite ?Heqg; simpl; try discriminate; try lia).
  all: unfold crank; simpl; rewrite ?Heqo, ?gupd_same; destruct (s_ctx s); simpl; lia.
Qed.

Lemma crank_zero : forall sc s, SInv sc s -> crank s = 0 -> (exists i e, g_ret (s_g s i) = Some (Some e)) -> s_ctx s <> None.
Proof.
  intros sc s I Z (i & e & G) C. unfold crank in Z. rewrite C in Z. destruct (s_once s) as [|j|] eqn:O; try discriminate Z.
  - pose proof (i_err_run sc s I j O) as R. pose proof (i_once_body sc s I j O) as B.
    destruct (s_g s j); try discriminate; destruct R; contradiction.
  - destruct (i_once_done sc s I O). contradiction.
Qed.

(* with the Once still new, a goroutine whose worker function failed stands right before errOnce.Do *)
Lemma failed_at_once : forall sc s i e, SInv sc s -> s_once s = ONew -> g_ret (s_g s i) = Some (Some e) -> s_g s i = GOnce e.
Proof.
  intros sc s i e I O G. pose proof (i_body_once sc s I i) as B. destruct (i_once_new sc s I O) as [_ Q]. specialize (Q i).
  destruct (s_g s i); simpl in *; try discriminate; try (rewrite B in O by reflexivity; discriminate O).
  - congruence.
  - destruct r; [discriminate Q | discriminate G].
  - destruct r; [discriminate Q | discriminate G].
Qed.

Lemma crank_prog : forall sc s i e, SInv sc s -> g_ret (s_g s i) = Some (Some e) -> 0 < crank s ->
  exists ev s', act sc s (chelp i s) = Some (ev, s') /\ crank s' < crank s.
Proof.
  intros sc s i e I G Pos. unfold crank in Pos. unfold chelp, crank.
  destruct (s_ctx s) eqn:C; [lia|]. destruct (s_once s) as [|j|] eqn:O; [| |lia].
  - unfold act. rewrite (failed_at_once sc s i e I O G), O.
    eexists; eexists; split; [reflexivity|]. simpl. rewrite C, gupd_same. simpl. lia.
  - unfold act. destruct (s_g s j) eqn:Gj; simpl in Pos; try lia.
    + eexists; eexists; split; [reflexivity|]. simpl. rewrite C, O, gupd_same. simpl. lia.
    + eexists; eexists; split; [reflexivity|]. simpl. rewrite C. simpl. lia.
Qed.

Lemma chelp_keep : forall sc s t ev s' i, SInv sc s -> act sc s t = Some (ev, s') -> 0 < crank s ->
  t <> chelp i s -> crank s' = crank s -> chelp i s' = chelp i s.
Proof.
  intros sc s t ev s' i0 I H Pos N E. unfold chelp in *.
  act_inv H; simpl; auto.
  - exfalso. unfold crank in Pos, E. simpl in E. rewrite Heqo in Pos, E. rewrite gupd_same in E.
    destruct (s_ctx s); simpl in *; lia.
  - exfalso. pose proof (i_body_once sc s I i) as B. rewrite Heqg in B. rewrite (B eq_refl) in N. apply N. reflexivity.
Qed.

Section CancelRounds.
  Variables (sc : script) (i e : nat).

  Definition CP (c : cfg) : Prop := Inv sc c /\ g_ret (s_g (fst c) i) = Some (Some e).

  Lemma CP_step : forall c t, CP c -> CP (step sc c t).
  Proof. intros c t [HI G]. split; [apply inv_step; exact HI | apply g_ret_step; assumption]. Qed.

  Lemma CP_mono : forall c t, CP c -> crank (fst (step sc c t)) <= crank (fst c).
  Proof.
    intros c t [[I _] _]. destruct (step_cases sc c t) as [[_ ->]|(ev & s' & A & ->)]; [lia|].
    simpl. eapply crank_mono; eauto.
  Qed.

  Lemma CP_prog : forall c, CP c -> 0 < crank (fst c) -> crank (fst (step sc c (chelp i (fst c)))) < crank (fst c).
  Proof.
    intros [s tr] [[I _] G] Pos. simpl in *. destruct (crank_prog sc s i e I G Pos) as (ev & s' & A & L).
    rewrite (step_some _ _ _ _ _ _ A). exact L.
  Qed.

  Lemma CP_keep : forall c t, CP c -> 0 < crank (fst c) -> t <> chelp i (fst c) ->
    crank (fst (step sc c t)) = crank (fst c) -> chelp i (fst (step sc c t)) = chelp i (fst c).
  Proof.
    intros c t [[I _] _] Pos N E. destruct (step_cases sc c t) as [[_ ->]|(ev & s' & A & R)]; [reflexivity|].
    rewrite R in *. simpl in *. eapply chelp_keep; eauto.
  Qed.

  Lemma CP_fair : forall c seg, CP c -> 0 < crank (fst c) -> efair sc seg -> In (chelp i (fst c)) seg.
  Proof.
    intros [s tr] seg [[I _] G] Pos [_ F]. simpl in *. unfold chelp.
    destruct (s_once s) as [|j|] eqn:O; apply F.
    - apply (sinv_started_lt sc s I). intros N. rewrite N in G. discriminate G.
    - apply (sinv_started_lt sc s I). pose proof (i_once_body sc s I j O) as B. intros N. rewrite N in B. discriminate B.
    - apply (sinv_started_lt sc s I). intros N. rewrite N in G. discriminate G.
  Qed.

  Lemma cancel_within_three_rounds : forall c c', CP c -> erounds sc 3 c c' -> s_ctx (fst c') <> None.
  Proof.
    intros c c' Pc R.
    destruct (rounds_zero sc CP (fun c => crank (fst c)) (fun c => chelp i (fst c)) CP_step CP_mono CP_prog CP_keep CP_fair
                3 c c' R Pc) as [[[I' _] G'] Z].
    - unfold crank. destruct (s_ctx (fst c)); [lia|]. destruct (s_once (fst c)); try lia. unfold brank. destruct (s_g (fst c) i0); lia.
    - eapply crank_zero; eauto.
  Qed.
End CancelRounds.

(* 2c. from any state of any execution in which some worker function has returned a non-nil error, three fair rounds
   (whatever else happens in them) leave the group context cancelled *)
Theorem cancel_fair : forall sc sched i e c',
  g_ret (s_g (fst (exec sc sched)) i) = Some (Some e) -> erounds sc 3 (exec sc sched) c' -> s_ctx (fst c') <> None.
Proof.
  intros sc sched i e c' G R. eapply (cancel_within_three_rounds sc i e); eauto. split; [apply inv_exec|exact G].
Qed.

(* ---------- 2d. the winner of the Once cancels the context with its next two steps ---------- *)

Lemma body_frame : forall sc s t ev s' j, SInv sc s -> act sc s t = Some (ev, s') -> t <> TG j ->
  in_body (s_g s j) = true -> s_g s' j = s_g s j.
Proof.
  intros sc s t ev s' j I H N B.
  act_inv H; simpl; auto.
  1: { gcase j i; [|reflexivity]. rewrite (sinv_unspawned sc s I i) in B; [discriminate B|]. rewrite Heqc. simpl. lia. }
  all: gcase j i; try reflexivity; try (exfalso; apply N; reflexivity).
  rewrite Heqg in B. discriminate B.
Qed.

Lemma two_steps_aux : forall sc j e seg c, Inv sc c ->
  (s_g (fst c) j = GB1 e /\ 2 <= count_occ tid_eq_dec seg (TG j)) \/
  (s_g (fst c) j = GB2 e /\ 1 <= count_occ tid_eq_dec seg (TG j)) \/
  (s_ctx (fst c) = Some (CErr e) \/ s_ctx (fst c) = Some CParent) ->
  s_ctx (fst (run sc c seg)) = Some (CErr e) \/ s_ctx (fst (run sc c seg)) = Some CParent.
Proof.
  induction seg as [|t l IH]; intros c HI D.
  - simpl in D. destruct D as [[_ L]|[[_ L]|D]]; [lia|lia|exact D].
  - rewrite run_cons. apply IH; [apply inv_step; exact HI|]. destruct HI as [I _].
    destruct D as [[G L]|[[G L]|D]].
    + destruct (tid_eq_dec t (TG j)) as [->|N].
      * right; left. rewrite count_occ_cons_eq in L by reflexivity. split; [|lia].
        destruct c as [s tr]. simpl in *. erewrite step_some; [|unfold act; rewrite G; reflexivity]. simpl. apply gupd_same.
      * left. rewrite count_occ_cons_neq in L by assumption. split; [|exact L].
        destruct (step_cases sc c t) as [[_ ->]|(ev & s' & A & ->)]; [exact G|]. simpl. rewrite <- G.
        eapply body_frame; eauto. rewrite G. reflexivity.
    + destruct (tid_eq_dec t (TG j)) as [->|N].
      * right; right. destruct c as [s tr]. simpl in *. erewrite step_some; [|unfold act; rewrite G; reflexivity]. simpl.
        pose proof (i_body_once sc s I j) as B. rewrite G in B. pose proof (i_err_run sc s I j (B eq_refl)) as R. rewrite G in R.
        pose proof (i_cause sc s I) as K. rewrite R. destruct (s_ctx s) as [[x| |]|] eqn:C; simpl; auto.
        -- left. congruence.
        -- destruct K as [P _]. exfalso. destruct (sinv_passed_quiet sc s I P j) as [Q|Q]; rewrite G in Q; discriminate Q.
      * right; left. rewrite count_occ_cons_neq in L by assumption. split; [|exact L].
        destruct (step_cases sc c t) as [[_ ->]|(ev & s' & A & ->)]; [exact G|]. simpl. rewrite <- G.
        eapply body_frame; eauto. rewrite G. reflexivity.
    + right; right. destruct D as [D|D]; [left|right]; apply ctx_stable_step; exact D.
Qed.

(* once a goroutine has entered the Once body (so its worker function was the first, in Once order, to fail), the
   context is cancelled as soon as THAT goroutine has taken two more steps - it can never be blocked there -, with
   the error as cause unless the parent was cancelled first *)
Theorem cancel_two_steps : forall sc sched j e seg,
  s_g (fst (exec sc sched)) j = GB1 e -> 2 <= count_occ tid_eq_dec seg (TG j) ->
  s_ctx (fst (exec sc (sched ++ seg))) = Some (CErr e) \/ s_ctx (fst (exec sc (sched ++ seg))) = Some CParent.
Proof.
  intros sc sched j e seg G L. rewrite exec_app. apply (two_steps_aux sc j e); [apply inv_exec|]. left. auto.
Qed.


(* ================= 5. deadlock freedom of the group ================= *)

(* every worker function has returned *)
Definition allret (sc : script) (s : st) : Prop := forall i, i < length sc -> g_ret (s_g s i) <> None.

Lemma allret_caller : forall sc s, SInv sc s -> allret sc s -> nsp sc (s_c s) = length sc.
Proof.
  intros sc s I A. pose proof (i_range sc s I) as R. pose proof (i_spawned sc s I) as S.
  destruct (s_c s) eqn:C; simpl in *; try reflexivity; exfalso.
  - apply (A i R). rewrite (sinv_unspawned sc s I i); [reflexivity|]. rewrite C. simpl. lia.
  - apply (A i R). rewrite (sinv_unspawned sc s I i); [reflexivity|]. rewrite C. simpl. lia.
Qed.

Lemma allret_no_f : forall sc s, SInv sc s -> allret sc s -> forall i, s_g s i <> GF.
Proof.
  intros sc s I A i G. assert (L : i < length sc) by (apply (sinv_started_lt sc s I); rewrite G; discriminate).
  apply (A i L). rewrite G. reflexivity.
Qed.

Definition obr (p : gpc) : nat := match p with GB1 _ => 3 | GB2 _ => 2 | GBX _ => 1 | _ => 0 end.

(* rounds until the Once is released *)
Definition orank (s : st) : nat :=
  match s_once s with ONew => 4 | ORun j => obr (s_g s j) | ODone => 0 end.

Definition gr (p : gpc) (o : nat) : nat :=
  match p with GOnce _ => o + 2 | GB1 _ => 4 | GB2 _ => 3 | GBX _ => 2 | GDefer _ => 1 | _ => 0 end.

(* rounds until goroutine i is gone *)
Definition grank (i : nat) (s : st) : nat := gr (s_g s i) (orank s).

Definition ghelp (i : nat) (s : st) : tid :=
  match s_g s i, s_once s with GOnce _, ORun j => TG j | _, _ => TG i end.

Lemma orank_upd : forall sc s s' i p, SInv sc s -> s_once s' = s_once s -> s_g s' = gupd (s_g s) i p ->
  (in_body (s_g s i) = true -> obr p <= obr (s_g s i)) -> orank s' <= orank s.
Proof.
  intros sc s s' i p I O G B. unfold orank. rewrite O, G.
  destruct (s_once s) as [|j|] eqn:Oj; try lia. gcase j i; [|lia]. apply B. apply (i_once_body sc s I i Oj).
Qed.

Lemma orank_same : forall s s', s_once s' = s_once s -> s_g s' = s_g s -> orank s' = orank s.
Proof. intros s s' O G. unfold orank. rewrite O, G. reflexivity. Qed.

Lemma orank_mono : forall sc s t e s', SInv sc s -> act sc s t = Some (e, s') -> orank s' <= orank s.
Proof.
  intros sc s t e s' I H.
  act_inv H.
  all: try (rewrite (orank_same s (mkSt _ _ _ _ _ _)); [lia|reflexivity|reflexivity]).
  all: try (eapply (orank_upd sc s _ i); [exact I|reflexivity|reflexivity|]; rewrite ?Heqg; simpl; try discriminate; try lia).
  all: unfold orank; simpl; rewrite ?Heqo, ?gupd_same; simpl; try lia.
Qed.

Lemma gr_mono : forall p o o', o' <= o -> gr p o' <= gr p o.
Proof. intros p o o' L. destruct p; simpl; lia. Qed.

Lemma grank_mono : forall sc s t e s' i, SInv sc s -> allret sc s -> act sc s t = Some (e, s') -> grank i s' <= grank i s.
Proof.
  intros sc s t e s' j I A H. pose proof (orank_mono sc s t e s' I H) as OM.
  pose proof (allret_caller sc s I A) as AC. pose proof (allret_no_f sc s I A) as NF.
  unfold grank. act_inv H; simpl s_g in *; try (apply gr_mono; exact OM).
  all: try (gcase j i; [|apply gr_mono; exact OM]).
  all: try (exfalso; apply (NF i); assumption).
  all: revert OM; match goal with |- context [orank (mkSt ?a ?b ?c ?d ?e ?f)] => generalize (orank (mkSt a b c d e f)) end; intros o' OM.
  all: rewrite ?Heqg; simpl; unfold orank in *; rewrite ?Heqo in *; try lia.
Qed.

Lemma grank_prog : forall sc s i, SInv sc s -> 0 < grank i s ->
  exists ev s', act sc s (ghelp i s) = Some (ev, s') /\ grank i s' < grank i s.
Proof.
  intros sc s i I Pos. unfold grank, ghelp in *.
  destruct (s_g s i) eqn:G; simpl in Pos; try lia.
  - (* before errOnce.Do *) destruct (s_once s) as [|j|] eqn:O.
    + unfold act. rewrite G, O. eexists; eexists; split; [reflexivity|]. simpl. rewrite gupd_same. unfold orank. rewrite O. simpl. lia.
    + pose proof (i_once_body sc s I j O) as B. assert (N : i <> j) by (intros ->; rewrite G in B; discriminate B).
      unfold act. destruct (s_g s j) eqn:Gj; try discriminate B.
      all: eexists; eexists; split; [reflexivity|]; simpl; rewrite gupd_other by exact N; rewrite G; simpl;
        unfold orank; simpl; rewrite ?O, ?gupd_same, ?Gj; simpl; lia.
    + unfold act. rewrite G, O. eexists; eexists; split; [reflexivity|]. simpl. rewrite gupd_same. simpl. unfold orank. rewrite O. lia.
  - unfold act. rewrite G. eexists; eexists; split; [reflexivity|]. simpl. rewrite gupd_same. simpl. lia.
  - unfold act. rewrite G. eexists; eexists; split; [reflexivity|]. simpl. rewrite gupd_same. simpl. lia.
  - unfold act. rewrite G. eexists; eexists; split; [reflexivity|]. simpl. rewrite gupd_same. simpl. lia.
  - assert (C : 0 < s_cnt s) by (apply (sinv_cnt_pos sc s I i); rewrite G; [discriminate|reflexivity]).
    unfold act. rewrite G. destruct (s_cnt s); [lia|]. eexists; eexists; split; [reflexivity|]. simpl. rewrite gupd_same. simpl. lia.
Qed.

Lemma ghelp_keep : forall sc s t ev s' i, SInv sc s -> allret sc s -> act sc s t = Some (ev, s') -> 0 < grank i s ->
  t <> ghelp i s -> grank i s' = grank i s -> ghelp i s' = ghelp i s.
Proof.
  intros sc s t ev s' j I A H Pos N E.
  pose proof (allret_caller sc s I A) as AC. pose proof (allret_no_f sc s I A) as NF.
  pose proof (i_range sc s I) as RG. pose proof (i_body_once sc s I) as BO.
  unfold ghelp in *. act_inv H; simpl s_g in *; simpl s_once in *; auto.
  1: { simpl in AC. lia. }
  all: try (exfalso; apply (NF i); assumption).
  all: gcase j i; [exfalso; rewrite ?Heqg in N; try (match goal with O : s_once _ = _ |- _ => rewrite O in N end); apply N; reflexivity|]; try reflexivity.
  - (* another goroutine entered the Once *)
    destruct (s_g s j) eqn:Gj; try reflexivity. exfalso.
    unfold grank in E. simpl in E. rewrite gupd_other in E by assumption. rewrite Gj in E. simpl in E.
    unfold orank in E. simpl in E. rewrite Heqo, gupd_same in E. simpl in E. lia.
  - (* the runner released the Once *)
    destruct (s_g s j) eqn:Gj; try reflexivity. exfalso. rewrite (BO i) in N; [|rewrite Heqg; reflexivity]. apply N. reflexivity.
Qed.

Section ExitRounds.
  Variables (sc : script) (i : nat).

  Definition GP (c : cfg) : Prop := Inv sc c /\ allret sc (fst c).

  Lemma GP_step : forall c t, GP c -> GP (step sc c t).
  Proof.
    intros c t [HI A]. split; [apply inv_step; exact HI|]. intros j L. specialize (A j L).
    destruct (g_ret (s_g (fst c) j)) as [r|] eqn:G; [|contradiction]. rewrite (g_ret_step sc c t j r HI G). discriminate.
  Qed.

  Lemma GP_mono : forall c t, GP c -> grank i (fst (step sc c t)) <= grank i (fst c).
  Proof.
    intros c t [[I _] A]. destruct (step_cases sc c t) as [[_ ->]|(ev & s' & H & ->)]; [lia|].
    simpl. eapply grank_mono; eauto.
  Qed.

  Lemma GP_prog : forall c, GP c -> 0 < grank i (fst c) -> grank i (fst (step sc c (ghelp i (fst c)))) < grank i (fst c).
  Proof.
    intros [s tr] [[I _] A] Pos. simpl in *. destruct (grank_prog sc s i I Pos) as (ev & s' & H & L).
    rewrite (step_some _ _ _ _ _ _ H). exact L.
  Qed.

  Lemma GP_keep : forall c t, GP c -> 0 < grank i (fst c) -> t <> ghelp i (fst c) ->
    grank i (fst (step sc c t)) = grank i (fst c) -> ghelp i (fst (step sc c t)) = ghelp i (fst c).
  Proof.
    intros c t [[I _] A] Pos N E. destruct (step_cases sc c t) as [[_ ->]|(ev & s' & H & R)]; [reflexivity|].
    rewrite R in *. simpl in *. eapply ghelp_keep; eauto.
  Qed.

  Lemma GP_fair : forall c seg, GP c -> 0 < grank i (fst c) -> efair sc seg -> In (ghelp i (fst c)) seg.
  Proof.
    intros [s tr] seg [[I _] A] Pos [_ F]. simpl in *. unfold ghelp. unfold grank in Pos.
    assert (Li : i < length sc).
    { apply (sinv_started_lt sc s I). intros N. rewrite N in Pos. simpl in Pos. lia. }
    destruct (s_g s i); try (apply F; exact Li). destruct (s_once s) as [|j|] eqn:O; try (apply F; exact Li).
    apply F. apply (sinv_started_lt sc s I). pose proof (i_once_body sc s I j O) as B. intros N. rewrite N in B. discriminate B.
  Qed.

  Lemma grank_le6 : forall sc' s, SInv sc' s -> grank i s <= 6.
  Proof.
    intros sc' s I. unfold grank, gr, orank. destruct (s_g s i); try lia.
    destruct (s_once s); try lia. unfold obr. destruct (s_g s i0); lia.
  Qed.

  Lemma exits_within_six_rounds : forall c c', GP c -> erounds sc 6 c c' -> GP c' /\ grank i (fst c') = 0.
  Proof.
    intros c c' Pc R.
    apply (rounds_zero sc GP (fun c => grank i (fst c)) (fun c => ghelp i (fst c)) GP_step GP_mono GP_prog GP_keep GP_fair 6 c c' R Pc).
    apply (grank_le6 sc). apply Pc.
  Qed.
End ExitRounds.


(* ---------- the caller, once every goroutine is gone ---------- *)

Definition allexit (sc : script) (s : st) : Prop := forall i, i < length sc -> is_exit (s_g s i) = true.

Definition carank (s : st) : nat := match s_c s with CWait => 3 | CCancel => 2 | CRet => 1 | _ => 0 end.

Lemma allexit_allret : forall sc s, allexit sc s -> allret sc s.
Proof. intros sc s A i L. specialize (A i L). destruct (s_g s i); try discriminate A. discriminate. Qed.

Lemma is_exit_act : forall sc s t e s' i, SInv sc s -> act sc s t = Some (e, s') ->
  is_exit (s_g s i) = true -> is_exit (s_g s' i) = true.
Proof.
  intros sc s t e s' j I H X.
  act_inv H; simpl; auto.
  1: { gcase j i; [|exact X]. rewrite (sinv_unspawned sc s I i) in X; [discriminate X|]. rewrite Heqc. simpl. lia. }
  all: gcase j i; [rewrite Heqg in X; discriminate X | exact X].
Qed.

Lemma carank_mono : forall sc s t e s', SInv sc s -> allexit sc s -> act sc s t = Some (e, s') -> carank s' <= carank s.
Proof.
  intros sc s t e s' I A H. pose proof (allret_caller sc s I (allexit_allret sc s A)) as AC. pose proof (i_range sc s I) as RG.
  unfold carank. act_inv H; simpl in *; try lia.
Qed.

Lemma carank_prog : forall sc s, SInv sc s -> allexit sc s -> 0 < carank s ->
  exists ev s', act sc s TC = Some (ev, s') /\ carank s' < carank s.
Proof.
  intros sc s I A Pos. unfold carank in *. unfold act. destruct (s_c s) eqn:C; try lia.
  - pose proof (i_count sc s I) as K. rewrite C in K. simpl in K. rewrite (cnt_exit_all _ _ A) in K.
    assert (Z : s_cnt s = 0) by lia. rewrite Z. simpl. eexists; eexists; split; [reflexivity|]. simpl. lia.
  - eexists; eexists; split; [reflexivity|]. simpl. lia.
  - eexists; eexists; split; [reflexivity|]. simpl. lia.
Qed.

Section WaitRounds.
  Variable sc : script.

  Definition WP (c : cfg) : Prop := Inv sc c /\ allexit sc (fst c).

  Lemma WP_step : forall c t, WP c -> WP (step sc c t).
  Proof.
    intros c t [HI A]. split; [apply inv_step; exact HI|]. intros j L. specialize (A j L).
    destruct (step_cases sc c t) as [[_ ->]|(ev & s' & H & ->)]; [exact A|]. simpl. eapply is_exit_act; eauto. apply HI.
  Qed.

  Lemma WP_mono : forall c t, WP c -> carank (fst (step sc c t)) <= carank (fst c).
  Proof.
    intros c t [[I _] A]. destruct (step_cases sc c t) as [[_ ->]|(ev & s' & H & ->)]; [lia|].
    simpl. eapply carank_mono; eauto.
  Qed.

  Lemma WP_prog : forall c, WP c -> 0 < carank (fst c) -> carank (fst (step sc c TC)) < carank (fst c).
  Proof.
    intros [s tr] [[I _] A] Pos. simpl in *. destruct (carank_prog sc s I A Pos) as (ev & s' & H & L).
    rewrite (step_some _ _ _ _ _ _ H). exact L.
  Qed.

  Lemma wait_within_three_rounds : forall c c', WP c -> erounds sc 3 c c' -> WP c' /\ carank (fst c') = 0.
  Proof.
    intros c c' Pc R.
    apply (rounds_zero sc WP (fun c => carank (fst c)) (fun _ => TC) WP_step WP_mono WP_prog) with (n := 3) (c := c); auto.
    - intros _ seg _ _ [F _]. exact F.
    - unfold carank. destruct (s_c (fst c)); lia.
  Qed.
End WaitRounds.

Lemma erounds_split : forall sc a b c c', erounds sc (a + b) c c' -> exists c1, erounds sc a c c1 /\ erounds sc b c1 c'.
Proof.
  induction a as [|a IH]; intros b c c' R.
  - exists c. split; [constructor|exact R].
  - simpl in R. inversion R as [|n c0 seg c0' F R']; subst. destruct (IH b _ _ R') as (c1 & R1 & R2).
    exists c1. split; [econstructor; eauto|exact R2].
Qed.

(* 5. from every state of every execution in which all worker functions have returned, nine fair rounds - whatever the
   order inside them - bring Wait to return: six until the last goroutine is gone (one to get into the Once, three for
   its owner to release it, one to get past it, one for wg.Done), three for wg.Wait, the cancel and the return *)
Theorem deadlock_free_inv : forall sc c c', Inv sc c ->
  allret sc (fst c) -> erounds sc 9 c c' -> Inv sc c' /\ wait_result (fst c') <> None.
Proof.
  intros sc c c' HI A R. destruct (erounds_split sc 6 3 _ _ R) as (c1 & R1 & R2).
  assert (P0 : GP sc c) by (split; [exact HI|exact A]).
  assert (W1 : WP sc c1).
  { destruct (exits_within_six_rounds sc 0 _ _ P0 R1) as [[HI1 A1] _]. split; [exact HI1|]. intros i L.
    destruct (exits_within_six_rounds sc i _ _ P0 R1) as [_ Z]. specialize (A1 i L).
    unfold grank, gr in Z. destruct (s_g (fst c1) i); simpl in *; try lia; try reflexivity; contradiction A1; reflexivity. }
  destruct (wait_within_three_rounds sc _ _ W1 R2) as [[HI' A'] Z]. split; [exact HI'|]. destruct HI' as [I _].
  pose proof (allret_caller sc _ I (allexit_allret sc _ A')) as AC. pose proof (i_range sc _ I) as RG.
  unfold wait_result. unfold carank in Z. destruct (s_c (fst c')); simpl in *; try lia. discriminate.
Qed.

Theorem deadlock_free : forall sc sched c',
  allret sc (fst (exec sc sched)) -> erounds sc 9 (exec sc sched) c' -> wait_result (fst c') <> None.
Proof. intros sc sched c' A R. apply (deadlock_free_inv sc (exec sc sched) c'); auto. apply inv_exec. Qed.
