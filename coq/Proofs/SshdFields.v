(* Field theorems: for each supported OpenSSH message rendered from its fields, the
   GENERATED regular expression captures exactly those fields. *)
From Coq Require Import Ascii String List Bool Arith NArith Lia.
Import ListNotations.
From AM Require Import Lib.Bytes Lib.Regex Proofs.RegexLemmas Gen.SshdRegexes.
Open Scope string_scope.
Open Scope list_scope.

(* ---------- field domains (what sshd can print) ---------- *)
Definition no_nl (v : str) : Prop := forallb not_nl v = true.                     (* any text without newline *)
Definition no_space (v : str) : Prop := forallb (in_cls cls_nonspace) v = true.   (* address / host name: no white space *)
Definition digits (v : str) : Prop := v <> [] /\ forallb (in_cls cls_digit) v = true.

Lemma no_nl_dot v : no_nl v -> forallb (in_cls cls_dot) v = true.
Proof. unfold no_nl. intros H. rewrite (forallb_ext _ not_nl); [exact H|apply dot_spec]. Qed.

Lemma no_space_dot v : no_space v -> forallb (in_cls cls_dot) v = true.
Proof. apply forallb_imp. apply nonspace_imp_dot. Qed.

Lemma no_space_count v : no_space v -> count sp v = 0.
Proof. intros H. apply count_zero. revert H. apply forallb_imp. apply nonspace_not_sp. Qed.

Lemma digits_count v : digits v -> count sp v = 0.
Proof. intros [_ H]. apply count_zero. revert H. apply forallb_imp. apply digit_not_sp. Qed.

Lemma digits_dot v : digits v -> forallb (in_cls cls_dot) v = true.
Proof. intros [_ H]. revert H. apply forallb_imp. apply digit_imp_dot. Qed.

(* evaluate closed counts *)
Ltac eval_counts :=
  repeat match goal with
  | |- context [count ?c (s2l ?l)] =>
      let x := eval vm_compute in (count c (s2l l)) in change (count c (s2l l)) with x
  | |- context [litcount ?c (lits ?l)] =>
      let x := eval vm_compute in (litcount c (lits l)) in change (litcount c (lits l)) with x
  end.

Ltac count_goal :=
  repeat (progress (repeat rewrite ?count_app, ?litcount_app; cbn [litcount]; eval_counts));
  repeat match goal with
  | H : no_space ?v |- context [count sp ?v] => rewrite (no_space_count v H)
  | H : digits ?v |- context [count sp ?v] => rewrite (digits_count v H)
  end;
  lia.

(* literal prefix of the pattern against the same literal prefix of the text *)
Lemma m_lits_s (l : string) r pos s ops cs :
  m (lits l ++ r) pos (s2l l ++ s) ops cs = m r (pos + length (s2l l)) s ops cs.
Proof. apply m_lits. Qed.

Ltac step_lits := rewrite m_lits_s.

(* ---------- Failed password for U from S port P ssh2 ---------- *)
Definition fmt_failed_password (u s p : str) : str :=
  s2l "Failed password for " ++ u ++ s2l " from " ++ s ++ s2l " port " ++ p ++ s2l " ssh2".

Lemma from_m its line e cs :
  m its 0 line [] [] = Some (e, cs) ->
  find (IBol :: its) line = Some {| m_start := 0; m_end := e; m_caps := cs |}.
Proof. intros H. rewrite find_bol, H. reflexivity. Qed.

Lemma find_failed_password u s p :
  no_nl u -> no_space s -> digits p ->
  exists e, find failedPasswordAuthRE (fmt_failed_password u s p) =
            Some {| m_start := 0; m_end := e; m_caps := [(3, p); (2, s); (1, u)] |}.
Proof.
  intros Hu Hs Hp. eexists. unfold failedPasswordAuthRE, fmt_failed_password.
  apply from_m. step_lits.
  apply group_star; [apply no_nl_dot; exact Hu| |].
  - step_lits. apply group_star; [apply no_space_dot; exact Hs| |].
    + step_lits. apply group_plus; [apply Hp|apply Hp| |].
      * change (s2l " ssh2") with (s2l " ssh" ++ (s2l "2" ++ [])). step_lits.
        apply plus_nogroup; [discriminate|reflexivity| |].
        -- rewrite m_eol_nil, m_nil. reflexivity.
        -- apply no_later_run0. reflexivity.
      * apply no_later_run0. apply run_len_out. reflexivity.
    + change (s2l " port " ++ p ++ s2l " ssh2") with (sp :: (s2l "port " ++ p ++ s2l " ssh2")).
      apply (no_later_count sp). count_goal.
  - change (s2l " from " ++ s ++ s2l " port " ++ p ++ s2l " ssh2")
      with (sp :: (s2l "from " ++ s ++ s2l " port " ++ p ++ s2l " ssh2")).
    apply (no_later_count sp). count_goal.
Qed.

(* ---------- maximum authentication attempts exceeded for U from S port P ssh2 ---------- *)
Definition fmt_max_attempts (u s p : str) : str :=
  s2l "maximum authentication attempts exceeded for " ++ u ++ s2l " from " ++ s ++ s2l " port " ++ p ++ s2l " ssh2".

Lemma find_max_attempts u s p :
  no_nl u -> no_space s -> digits p ->
  exists e, find maxAuthAttemptsExceededRE (fmt_max_attempts u s p) =
            Some {| m_start := 0; m_end := e; m_caps := [(3, p); (2, s); (1, u)] |}.
Proof.
  intros Hu Hs Hp. eexists. unfold maxAuthAttemptsExceededRE, fmt_max_attempts.
  apply from_m. step_lits.
  apply group_star; [apply no_nl_dot; exact Hu| |].
  - step_lits. apply group_star; [apply no_space_dot; exact Hs| |].
    + step_lits. apply group_star; [apply digits_dot; exact Hp| |].
      * change (s2l " ssh2") with (s2l " ssh" ++ (s2l "2" ++ [])). step_lits.
        apply plus_nogroup; [discriminate|reflexivity| |].
        -- rewrite m_eol_nil, m_nil. reflexivity.
        -- apply no_later_run0. reflexivity.
      * change (s2l " ssh2") with (sp :: s2l "ssh2"). apply (no_later_count sp). count_goal.
    + change (s2l " port " ++ p ++ s2l " ssh2") with (sp :: (s2l "port " ++ p ++ s2l " ssh2")).
      apply (no_later_count sp). count_goal.
  - change (s2l " from " ++ s ++ s2l " port " ++ p ++ s2l " ssh2")
      with (sp :: (s2l "from " ++ s ++ s2l " port " ++ p ++ s2l " ssh2")).
    apply (no_later_count sp). count_goal.
Qed.

(* ---------- Invalid user U from S port P ---------- *)
Definition fmt_invalid_user (u s p : str) : str :=
  s2l "Invalid user " ++ u ++ s2l " from " ++ s ++ s2l " port " ++ p.

Lemma find_invalid_user u s p :
  no_nl u -> s <> [] -> no_space s -> digits p ->
  exists e, find invalidUserRE (fmt_invalid_user u s p) =
            Some {| m_start := 0; m_end := e; m_caps := [(3, p); (2, s); (1, u)] |}.
Proof.
  intros Hu Hs0 Hs Hp. eexists. unfold invalidUserRE, fmt_invalid_user.
  apply from_m. step_lits.
  apply group_star; [apply no_nl_dot; exact Hu| |].
  - step_lits. apply group_plus; [exact Hs0|exact Hs| |].
    + step_lits. apply group_plus_end; [apply Hp|apply Hp|].
      rewrite m_eol_nil, m_nil. reflexivity.
    + apply no_later_run0. apply run_len_out. reflexivity.
  - change (s2l " from " ++ s ++ s2l " port " ++ p)
      with (sp :: (s2l "from " ++ s ++ s2l " port " ++ p)).
    apply (no_later_count sp). count_goal.
Qed.
