(* Model/DirReader.v is what the source says: the programs GENERATED from
   processors/auditd/dirreader/dirreader.go (Gen/DirReaderProg.v), run by the interpreter of
   Model/DirReaderIR.v, equal the hand-written model for all inputs:
     read_lines_from_source   readLines                     = [read_lines]
     on_event_from_source     rotatingFile.read             = [on_event]      (no file-system error)
     loop_from_source         loopWithError                 = [read_initial] then [on_event] per event
     startup_from_source      ... on the sorted names       = [startup]
     run_from_source          ... and the model's whole [run]
   plus the error branches that are outside the model (read_open_error, read_stat_error, read_seek_error,
   read_lines_reader_error, read_lines_cancelled_first).
   An edit of these Go functions changes Gen/DirReaderProg.v and these proofs stop compiling (or the
   generated file itself does not type-check: UNSUPPORTED_...).
   Proof technique: the programs are evaluated by [cbn] on states with symbolic fields, in stages (a program
   is cut with [block_of_app] at the statements whose outcome depends on the input, the part not yet reached
   is kept opaque); loops by induction with the fuel shown to suffice. *)
From Coq Require Import Ascii String List Bool Arith Lia.
Import ListNotations.
From AM Require Import Lib.Bytes Model.DirReader Proofs.DirReaderLemmas.
From AM Require Import Model.DirReaderIR Gen.DirReaderProg.
Open Scope string_scope.
Open Scope list_scope.
Open Scope nat_scope.


(* the state updaters compute as soon as they are applied *)
#[local] Arguments bindv _ _ _ /.
#[local] Arguments leave _ _ /.
#[local] Arguments consume _ _ /.
#[local] Arguments set_env _ _ /.
#[local] Arguments set_obj _ _ /.
#[local] Arguments set_src _ _ /.
#[local] Arguments set_sent _ _ /.
#[local] Arguments set_pos _ _ /.
#[local] Arguments set_chan _ _ _ /.
#[local] Arguments set_names _ _ /.
#[local] Arguments set_closed _ _ /.
#[local] Arguments set_out _ _ /.
#[local] Arguments set_in _ _ /.
#[local] Arguments scoped_run _ _ _ _ /.
#[local] Arguments push_msg _ _ /.
#[local] Arguments is_handle _ _ /.

Lemma dcut_some s : forall l rest, dcut nl s = Some (l, rest) ->
  exists l0, l = l0 ++ [nl] /\ ~ In nl l0 /\ s = l0 ++ nl :: rest.
Proof.
  induction s as [|c r IH]; intros l rest H; [discriminate|].
  cbn [dcut] in H. destruct (Ascii.eqb_spec c nl) as [->|Hc].
  - injection H as <- <-. exists []. repeat split. intros [].
  - destruct (dcut nl r) as [[l' q]|] eqn:E; [|discriminate]. injection H as <- <-.
    destruct (IH _ _ eq_refl) as (l0 & -> & Hn & ->).
    exists (c :: l0). repeat split. intros [H|H]; [congruence|exact (Hn H)].
Qed.

Lemma dcut_none s : dcut nl s = None -> ~ In nl s.
Proof.
  induction s as [|c r IH]; intros H; [intros []|].
  cbn [dcut] in H. destruct (Ascii.eqb_spec c nl) as [->|Hc]; [discriminate|].
  destruct (dcut nl r) as [[l' q]|] eqn:E; [discriminate|].
  intros [H1|H1]; [congruence|exact (IH eq_refl H1)].
Qed.


Lemma len_snoc (l0 : str) : List.length (l0 ++ [nl]) = S (List.length l0).
Proof. rewrite app_length. cbn. apply Nat.add_1_r. Qed.

Lemma slice_snoc (l0 : str) :
  (if List.length l0 - 0 <=? List.length (l0 ++ [nl])
   then Some (firstn (List.length l0 - 0 - 0) (l0 ++ [nl])) else None) = Some l0.
Proof.
  rewrite !Nat.sub_0_r, len_snoc.
  replace (List.length l0 <=? S (List.length l0)) with true by (symmetry; apply Nat.leb_le; lia).
  rewrite firstn_app, Nat.sub_diag, firstn_all. cbn. rewrite app_nil_r. reflexivity.
Qed.

Lemma block_of_app go a b st :
  block_of go (a ++ b) st = match block_of go a st with ONext st1 => block_of go b st1 | o => o end.
Proof.
  revert st. induction a as [|c a IH]; intros st; [reflexivity|].
  cbn [app block_of]. destruct (go c st); try reflexivity. apply IH.
Qed.

Ltac ev := repeat (progress (unfold bindv, leave, consume, set_env, set_obj, set_src, set_sent, set_pos, set_chan,
  set_names, set_closed, set_out, set_in, scoped_run, push_msg, is_handle; cbn)).

Definition rl_loop : dstmt :=
  match f_body gen_readLines with [_; _; l] => l | _ => DContinue end.

Definition rl_env (n : nat) : denv :=
  [("lines", VHandle); ("reader", VHandle); ("ctx", VHandle); ("bufioReader", VHandle); ("numBytesRead", VInt n)].

Definition rl_state (s : str) (k n : nat) (sent : list str) : dst :=
  {| d_env := rl_env n; d_obj := RS 0 0; d_src := s; d_nread := k; d_sent := sent; d_pos := None;
     d_chan := []; d_cap := 0; d_names := []; d_closed := 0; d_out := []; d_in := [] |}.

Section RL.
  Variable fe : fenv.
  Variable plen : pval -> nat.
  Variable c1 : str -> option (list str * nat * derr).
  Variable c2 : name -> option (list str * nat * derr).
  Variable c3 : rstate -> fsev -> str -> option (rstate * list str * derr).
  Variable ms : list (string * dmeth).


  Variable again : option (dstmt -> dst -> outcome).
  Definition rl_body : list dstmt := match rl_loop with DLoop b => b | _ => [] end.

  Lemma rl_body_line : forall l0 rest s k n sent,
    dcut nl s = Some (l0 ++ [nl], rest) ->
    scoped_run (block_of (dstep ms (fun _ => ErrNil) (fun _ => false) fe plen c1 c2 c3 again))
      (rl_state s k n sent) rl_body (rl_state s k n sent) =
    ONext (rl_state rest (S k) (n + S (List.length l0)) (sent ++ [l0])).
  Proof.
    intros l0 rest s k n sent E.
    unfold scoped_run.
    let A := eval cbv in (firstn 5 rl_body) in
    let I := eval cbv in (firstn 1 (skipn 5 rl_body)) in
    let B := eval cbv in (skipn 6 rl_body) in
    change rl_body with (A ++ I ++ B); rewrite !block_of_app;
    remember I as pI eqn:HI; remember B as pB eqn:HB.
    unfold rl_state. cbn -[dcut]. change (dcut "010"%char s) with (dcut nl s). rewrite E. cbn.
    rewrite !len_snoc. subst pI. cbn. rewrite slice_snoc. cbn. subst pB. cbn. reflexivity.
  Qed.

  Lemma rl_body_eof : forall s k n sent,
    dcut nl s = None ->
    exists st', scoped_run (block_of (dstep ms (fun _ => ErrNil) (fun _ => false) fe plen c1 c2 c3 again))
      (rl_state s k n sent) rl_body (rl_state s k n sent) = OReturn st' (Some n) ErrNil /\ d_sent st' = sent.
  Proof.
    intros s k n sent E.
    unfold rl_body, rl_loop, scoped_run, rl_state. cbn -[dcut]. change (dcut "010"%char s) with (dcut nl s).
    rewrite E. ev. eexists. split; reflexivity.
  Qed.
End RL.

Section RL2.
  Variable fe : fenv.
  Variable plen : pval -> nat.
  Variable c1 : str -> option (list str * nat * derr).
  Variable c2 : name -> option (list str * nat * derr).
  Variable c3 : rstate -> fsev -> str -> option (rstate * list str * derr).
  Variable ms : list (string * dmeth).

  Lemma exec_loop_S f body st :
    exec ms (fun _ => ErrNil) (fun _ => false) fe plen c1 c2 c3 (S f) (DLoop body) st =
    match scoped_run (exec_block ms (fun _ => ErrNil) (fun _ => false) fe plen c1 c2 c3 (S f)) st body st with
    | ONext st1 | OContinue st1 => exec ms (fun _ => ErrNil) (fun _ => false) fe plen c1 c2 c3 f (DLoop body) st1
    | o => o
    end.
  Proof. reflexivity. Qed.

  Lemma rl_loop_correct : forall f s, List.length s < f -> forall k n sent,
    exists st', exec ms (fun _ => ErrNil) (fun _ => false) fe plen c1 c2 c3 f rl_loop (rl_state s k n sent) =
      OReturn st' (Some (n + line_bytes (fst (lines s)))) ErrNil /\
      d_sent st' = sent ++ fst (lines s).
  Proof.
    induction f as [|f IH]; intros s Hlen k n sent; [lia|].
    change rl_loop with (DLoop rl_body). rewrite exec_loop_S. unfold exec_block, exec.
    destruct (dcut nl s) as [[l rest]|] eqn:E.
    - destruct (dcut_some _ _ _ E) as (l0 & -> & Hn & Hs).
      rewrite (rl_body_line fe plen c1 c2 c3 ms _ l0 rest s k n sent E).
      destruct (IH rest) with (k := S k) (n := n + S (List.length l0)) (sent := sent ++ [l0]) as (st' & H1 & H2).
      { subst s. rewrite app_length in Hlen. cbn in Hlen. lia. }
      exists st'. fold (exec ms (fun _ => ErrNil) (fun _ => false) fe plen c1 c2 c3 f). change (DLoop rl_body) with rl_loop.
      rewrite H1, H2. subst s. rewrite lines_first by exact Hn. cbn [fst line_bytes].
      rewrite <- app_assoc. split; [f_equal; f_equal; lia|reflexivity].
    - destruct (rl_body_eof fe plen c1 c2 c3 ms (again_n ms (fun _ => ErrNil) (fun _ => false) fe plen c1 c2 c3 (S f)) s k n sent E) as (st' & H1 & H2).
      rewrite H1. exists st'. rewrite lines_no_newline by (apply dcut_none; exact E).
      cbn. rewrite Nat.add_0_r, app_nil_r. split; [reflexivity|exact H2].
  Qed.
End RL2.

Theorem read_lines_from_source : forall s,
  run_readlines gen_readLines s = RLDone (fst (read_lines s)) (snd (read_lines s)) ErrNil.
Proof.
  intros s. unfold run_readlines, run_readlines_under.
  change (f_body gen_readLines) with [DNewBufio "bufioReader" "reader"; DVarInt "numBytesRead"; rl_loop].
  remember rl_loop as L eqn:HL. unfold exec_block, exec. ev. subst L.
  destruct (rl_loop_correct (fenv_ok []) (fun _ => 0) nothing1 nothing1 nothing3 [] (S (List.length s)) s
              (Nat.lt_succ_diag_r _) 0 0 []) as (st' & H1 & H2).
  unfold exec, rl_state, rl_env in H1. cbn [again_n] in H1. rewrite H1, H2. reflexivity.
Qed.

(* the error branches (outside Model/DirReader.v) *)

(* a reader that fails (not with EOF): the error is returned, nothing is sent or counted *)
Theorem read_lines_reader_error : forall s t,
  run_readlines_under (fun _ => ErrEnv t) (fun _ => false) gen_readLines s = RLDone [] 0 (ErrEnv t).
Proof. intros s t. unfold run_readlines_under, exec_block, exec. cbn. reflexivity. Qed.

Lemma dcut_first l0 rest : ~ In nl l0 -> dcut nl (l0 ++ nl :: rest) = Some (l0 ++ [nl], rest).
Proof.
  induction l0 as [|c l0 IH]; intros Hn.
  - cbn. reflexivity.
  - cbn [app dcut]. destruct (Ascii.eqb_spec c nl) as [->|Hc]; [exfalso; apply Hn; left; reflexivity|].
    rewrite IH by (intros H; apply Hn; right; exact H). reflexivity.
Qed.

(* ctx cancelled when the first line is to be sent: ctx.Err() is returned, the line is not sent (but its
   bytes have been counted: callers drop the count together with the error) *)
Theorem read_lines_cancelled_first : forall l0 rest,
  ~ In nl l0 ->
  run_readlines_under (fun _ => ErrNil) (fun _ => true) gen_readLines (l0 ++ nl :: rest) =
  RLDone [] (S (List.length l0)) ErrCtx.
Proof.
  intros l0 rest Hn. unfold run_readlines_under, exec_block, exec.
  remember (l0 ++ nl :: rest) as s eqn:Hs.
  assert (E : dcut nl s = Some (l0 ++ [nl], rest)) by (subst s; apply dcut_first; exact Hn).
  cbn [again_n]. remember (again_n _ _ _ _ _ _ _ _ _) as ag eqn:Hag. clear Hag Hs.
  let P := eval cbv in (firstn 2 (f_body gen_readLines)) in
  change (f_body gen_readLines) with (P ++ [DLoop rl_body]); rewrite block_of_app.
  cbn [block_of firstn]. cbn -[dcut rl_body].
  let A := eval cbv in (firstn 5 rl_body) in
  let I := eval cbv in (firstn 1 (skipn 5 rl_body)) in
  let B := eval cbv in (skipn 6 rl_body) in
  change rl_body with (A ++ I ++ B); rewrite !block_of_app;
  remember I as pI eqn:HI; remember B as pB eqn:HB.
  cbn -[dcut]. change (dcut "010"%char s) with (dcut nl s). rewrite E. cbn.
  rewrite !len_snoc. subst pI. cbn. rewrite slice_snoc. cbn. subst pB. cbn. reflexivity.
Qed.


(* ------------------------------------------------------------------ rotatingFile.read *)



Lemma readlines_call : forall s,
  as_call (run_readlines gen_readLines s) = Some (fst (read_lines s), snd (read_lines s), ErrNil).
Proof. intros s. rewrite read_lines_from_source. reflexivity. Qed.

Theorem on_event_from_source : forall st file e,
  run_read gen_methods gen_readLines gen_read st file e =
  RDDone (fst (on_event st file e)) (snd (on_event st file e)) ErrNil.
Proof.
  intros [off lsz] file e. unfold run_read, run_read_under, exec_block, exec.
  set (c1 := fun s : str => as_call (run_readlines gen_readLines s)).
  assert (Hc1 : forall s, c1 s = Some (fst (read_lines s), snd (read_lines s), ErrNil)) by exact readlines_call.
  clearbody c1.
  destruct e; [cbn; reflexivity|cbn; reflexivity|cbn; reflexivity| |cbn; reflexivity].
  (* Write, in stages: up to the size comparison; the comparison; up to the call of readLines; the rest *)
  let A := eval cbv in (firstn 7 (f_body gen_read)) in
  let I := eval cbv in (firstn 1 (skipn 7 (f_body gen_read))) in
  let B := eval cbv in (firstn 5 (skipn 8 (f_body gen_read))) in
  let C := eval cbv in (skipn 13 (f_body gen_read)) in
  change (f_body gen_read) with (A ++ I ++ B ++ C); rewrite !block_of_app;
  remember I as pI eqn:HI; remember B as pB eqn:HB; remember C as pC eqn:HC.
  remember (on_event _ _ _) as R eqn:HR.
  cbn. subst pI R. unfold on_event. cbn -[Nat.ltb skipn read_lines].
  destruct (List.length file <? lsz); cbn -[skipn read_lines]; subst pB; cbn -[skipn read_lines];
    rewrite Hc1; subst pC; cbn -[skipn read_lines]; destruct (read_lines _) as [ls n]; reflexivity.
Qed.

(* the same with the no-error environment spelled out as hypotheses *)
Theorem on_event_from_source_env : forall fe st e,
  fe_open fe = ErrNil -> fe_stat fe = ErrNil -> fe_seek fe = ErrNil -> fe_size fe = List.length (fe_data fe) ->
  run_read_under fe gen_methods gen_readLines gen_read st e =
  RDDone (fst (on_event st (fe_data fe) e)) (snd (on_event st (fe_data fe) e)) ErrNil.
Proof.
  intros [eo es sz ek data] st e H1 H2 H3 H4. cbn in *. subst.
  exact (on_event_from_source st data e).
Qed.

(* the error branches (outside Model/DirReader.v): what read leaves behind when the file system fails *)
Theorem read_open_error : forall fe st t,
  fe_open fe = ErrEnv t ->
  run_read_under fe gen_methods gen_readLines gen_read st EvWrite = RDDone st [] (ErrWrap (ErrEnv t)).
Proof.
  intros [eo es sz ek data] [off lsz] t H. cbn in H. subst eo.
  unfold run_read_under, exec_block, exec.
  generalize (fun s : str => as_call (run_readlines gen_readLines s)). intros c1.
  cbn. reflexivity.
Qed.

Theorem read_stat_error : forall fe st t,
  fe_open fe = ErrNil -> fe_stat fe = ErrEnv t ->
  run_read_under fe gen_methods gen_readLines gen_read st EvWrite = RDDone (RS 0 (lastSz st)) [] (ErrEnv t).
Proof.
  intros [eo es sz ek data] [off lsz] t H1 H2. cbn in H1, H2. subst eo es.
  unfold run_read_under, exec_block, exec.
  generalize (fun s : str => as_call (run_readlines gen_readLines s)). intros c1.
  cbn. reflexivity.
Qed.

Theorem read_seek_error : forall fe st t,
  fe_open fe = ErrNil -> fe_stat fe = ErrNil -> fe_seek fe = ErrEnv t ->
  run_read_under fe gen_methods gen_readLines gen_read st EvWrite =
  RDDone (RS (if fe_size fe <? lastSz st then 0 else offset st) (fe_size fe)) [] (ErrWrap (ErrEnv t)).
Proof.
  intros [eo es sz ek data] [off lsz] t H1 H2 H3. cbn in H1, H2, H3. subst eo es ek.
  unfold run_read_under, exec_block, exec.
  generalize (fun s : str => as_call (run_readlines gen_readLines s)). intros c1.
  let A := eval cbv in (firstn 7 (f_body gen_read)) in
  let I := eval cbv in (firstn 1 (skipn 7 (f_body gen_read))) in
  let B := eval cbv in (skipn 8 (f_body gen_read)) in
  change (f_body gen_read) with (A ++ I ++ B); rewrite !block_of_app;
  remember I as pI eqn:HI; remember B as pB eqn:HB.
  cbn -[Nat.ltb]. subst pI. cbn -[Nat.ltb].
  destruct (sz <? lsz); cbn; subst pB; cbn; reflexivity.
Qed.

(* ------------------------------------------------------------------ loopWithError *)


Lemma readfile_call : forall (s : str) (a : name),
  as_call (run_readfile_under (fenv_ok s) gen_readLines gen_readFilePathLines a) =
  Some (fst (read_lines s), snd (read_lines s), ErrNil).
Proof.
  intros s a. unfold run_readfile_under, exec_block, exec.
  set (c1 := fun s : str => as_call (run_readlines gen_readLines s)).
  assert (Hc1 : forall s, c1 s = Some (fst (read_lines s), snd (read_lines s), ErrNil)) by exact readlines_call.
  clearbody c1.
  cbn -[read_lines]. rewrite Hc1. reflexivity.
Qed.

Lemma read_call : forall st e file,
  read_as_call (run_read gen_methods gen_readLines gen_read st file e) =
  Some (fst (on_event st file e), snd (on_event st file e), ErrNil).
Proof. intros. rewrite on_event_from_source. reflexivity. Qed.

Definition lp_loop : dstmt :=
  match f_body gen_loopWithError with [_; _; _; _; _; l] => l | _ => DContinue end.
Definition lp_select : dstmt := match lp_loop with DLoop [s] => s | _ => DContinue end.
Definition lp_arm (k : nat) : list dstmt :=
  match lp_select with DSelectRecv arms => snd (nth k arms (GCtxDone, [])) | _ => [] end.

Definition lp_env (i : nat) : denv :=
  [("ctx", VHandle); ("initFileDone", VHandle); ("initFileIndex", VInt i);
   ("mainLogPath", VPath (PvEntry Live)); ("mainLog", VObj (PvEntry Live))].

Definition lp_state (names : list name) (i : nat) (obj : rstate) (chan : list dmsg) (closed : nat)
    (out : list (list str)) (ins : list choice) : dst :=
  {| d_env := lp_env i; d_obj := obj; d_src := []; d_nread := 0; d_sent := []; d_pos := None;
     d_chan := chan; d_cap := 1; d_names := names; d_closed := closed; d_out := out; d_in := ins |}.

(* what the loop does with a message *)
Definition upd (m : dmsg) (obj : rstate) : rstate :=
  if pval_eqb (m_path m) (PvEntry Live) then RS (m_bytes m) (m_bytes m) else obj.

Section Loop.
  Variable plen : pval -> nat.
  Variable fs : name -> str.
  Variable c1 : str -> option (list str * nat * derr).
  Variable c2 : name -> option (list str * nat * derr).
  Variable c3 : rstate -> fsev -> str -> option (rstate * list str * derr).
  Hypothesis Hc2 : forall a, c2 a = Some (fst (read_lines (fs a)), snd (read_lines (fs a)), ErrNil).
  Hypothesis Hc3 : forall st e file, c3 st e file = Some (fst (on_event st file e), snd (on_event st file e), ErrNil).

  Notation EX := (exec gen_methods (fun _ => ErrNil) (fun _ => false) (fenv_ok []) plen c1 c2 c3).
  Notation STEP := (dstep gen_methods (fun _ => ErrNil) (fun _ => false) (fenv_ok []) plen c1 c2 c3).

  Definition arm_state (names : list name) (i : nat) (obj : rstate) (extra : denv) (chan : list dmsg)
      (closed : nat) (out : list (list str)) (ins : list choice) : dst :=
    {| d_env := lp_env i ++ extra; d_obj := obj; d_src := []; d_nread := 0; d_sent := []; d_pos := None;
       d_chan := chan; d_cap := 1; d_names := names; d_closed := closed; d_out := out; d_in := ins |}.

  Lemma select_init ag b0 b1 b2 names i obj m ms cl out ins :
    STEP ag (DSelectRecv [(GCtxDone, b0); (GRecvMsg "done" "initFileDone", b1); (GRecvEvent "event", b2)])
      (lp_state names i obj (m :: ms) cl out (CInit :: ins)) =
    scoped_run (block_of (STEP ag)) (lp_state names i obj (m :: ms) cl out ins) b1
      (arm_state names i obj [("done", VMsg m)] ms cl out ins).
  Proof. reflexivity. Qed.

  Lemma select_event ag b0 b1 b2 names i obj ch cl out ins ev :
    STEP ag (DSelectRecv [(GCtxDone, b0); (GRecvMsg "done" "initFileDone", b1); (GRecvEvent "event", b2)])
      (lp_state names i obj ch cl out (CEvent ev :: ins)) =
    scoped_run (block_of (STEP ag)) (lp_state names i obj ch cl out ins) b2
      (arm_state names i obj [("event", VEvent ev)] ch cl out ins).
  Proof. reflexivity. Qed.

  Lemma select_blocked ag arms names i obj ch cl out :
    STEP ag (DSelectRecv arms) (lp_state names i obj ch cl out []) = OBlocked (lp_state names i obj ch cl out []).
  Proof. reflexivity. Qed.

  Lemma arm_init_next : forall ag names i obj m cl out ins b,
    nth_error names i = Some b -> m_err m = ErrNil ->
    block_of (STEP ag) (lp_arm 1) (arm_state names i obj [("done", VMsg m)] [] cl out ins) =
    ONext (arm_state names (S i) (upd m obj) [("done", VMsg m); ("filePath", VPath (PvEntry b))]
             [{| m_path := PvEntry b; m_bytes := snd (read_lines (fs b)); m_err := ErrNil |}] cl
             (out ++ [fst (read_lines (fs b))]) ins).
  Proof.
    intros ag names i obj [mp mb me] cl out ins b Hn Hm. cbn in Hm. subst me.
    let A := eval cbv in (firstn 2 (lp_arm 1)) in
    let I := eval cbv in (firstn 1 (skipn 2 (lp_arm 1))) in
    let B := eval cbv in (skipn 3 (lp_arm 1)) in
    change (lp_arm 1) with (A ++ I ++ B); rewrite !block_of_app;
    remember I as pI eqn:HI; remember B as pB eqn:HB.
    assert (Hlen : i < List.length names) by (apply nth_error_Some; congruence).
    assert (H1 : (1 <=? List.length names) = true) by (apply Nat.leb_le; lia).
    assert (H2 : (List.length names - 1 <? i) = false) by (apply Nat.ltb_ge; lia).
    unfold upd, arm_state. cbn [m_path m_bytes]. destruct obj as [o l].
    destruct mp as [|[|n|]]; cbn -[nth_error read_lines]; rewrite block_of_app; subst pI;
      cbn -[nth_error read_lines Nat.leb Nat.ltb Nat.sub List.length]; rewrite H1;
      cbn -[nth_error read_lines Nat.leb Nat.ltb Nat.sub List.length]; rewrite H2;
      cbn -[nth_error read_lines]; subst pB; cbn -[nth_error read_lines]; rewrite Hn;
      cbn -[nth_error read_lines]; rewrite Hc2; cbn -[nth_error read_lines]; reflexivity.
  Qed.

  Lemma arm_init_last : forall ag names i obj m out ins,
    nth_error names i = None -> names <> [] -> m_err m = ErrNil ->
    block_of (STEP ag) (lp_arm 1) (arm_state names i obj [("done", VMsg m)] [] 0 out ins) =
    OContinue (arm_state [] i (upd m obj) [("done", VMsg m)] [] 1 out ins).
  Proof.
    intros ag names i obj [mp mb me] out ins Hn Hne Hm. cbn in Hm. subst me.
    let A := eval cbv in (firstn 2 (lp_arm 1)) in
    let I := eval cbv in (firstn 1 (skipn 2 (lp_arm 1))) in
    let B := eval cbv in (skipn 3 (lp_arm 1)) in
    change (lp_arm 1) with (A ++ I ++ B); rewrite !block_of_app;
    remember I as pI eqn:HI; remember B as pB eqn:HB.
    assert (Hlen : List.length names <= i) by (apply nth_error_None; exact Hn).
    assert (H0 : 0 < List.length names) by (destruct names; [congruence|cbn; lia]).
    assert (H1 : (1 <=? List.length names) = true) by (apply Nat.leb_le; lia).
    assert (H2 : (List.length names - 1 <? i) = true) by (apply Nat.ltb_lt; lia).
    unfold upd, arm_state. cbn [m_path m_bytes]. destruct obj as [o l].
    destruct mp as [|[|n|]]; cbn; rewrite block_of_app; subst pI;
      cbn -[Nat.leb Nat.ltb Nat.sub List.length]; rewrite H1;
      cbn -[Nat.leb Nat.ltb Nat.sub List.length]; rewrite H2; cbn; reflexivity.
  Qed.

  Lemma arm_event_main : forall ag i obj ch cl out ins ev,
    e_name ev = Live ->
    block_of (STEP ag) (lp_arm 2) (arm_state [] i obj [("event", VEvent ev)] ch cl out ins) =
    ONext (arm_state [] i (fst (on_event obj (e_file ev) (e_op ev))) [("event", VEvent ev)] ch cl
             (out ++ [snd (on_event obj (e_file ev) (e_op ev))]) ins).
  Proof.
    intros ag i obj ch cl out ins [n e file] Hev. cbn in Hev. subst n.
    unfold arm_state. cbn -[on_event]. rewrite Nat.eqb_refl. cbn -[on_event]. rewrite Hc3. cbn -[on_event].
    reflexivity.
  Qed.

  (* an event for another file, or while initial files are still being read, is dropped *)
  Lemma arm_event_skip : forall ag names i obj ch cl out ins ev,
    names <> [] \/ name_eqb (e_name ev) Live = false ->
    block_of (STEP ag) (lp_arm 2) (arm_state names i obj [("event", VEvent ev)] ch cl out ins) =
    ONext (arm_state names i obj [("event", VEvent ev)] ch cl out ins).
  Proof.
    intros ag names i obj ch cl out ins [n e file] H. unfold arm_state. cbn in H.
    destruct names as [|a r].
    - destruct H as [H|H]; [congruence|]. cbn. destruct (Nat.eqb (plen (PvEntry n)) (plen (PvEntry Live))); cbn;
        [rewrite H|]; reflexivity.
    - reflexivity.
  Qed.

  Lemma lp_select_eq :
    lp_select = DSelectRecv [(GCtxDone, lp_arm 0); (GRecvMsg "done" "initFileDone", lp_arm 1);
                             (GRecvEvent "event", lp_arm 2)].
  Proof. reflexivity. Qed.

  Ltac round_start :=
    change lp_loop with (DLoop [lp_select]); rewrite exec_loop_S; unfold exec_block, exec;
    cbn [scoped_run block_of]; rewrite lp_select_eq.

  Lemma round_init_next : forall f names i obj m cl out ins b,
    nth_error names i = Some b -> m_err m = ErrNil ->
    EX (S f) lp_loop (lp_state names i obj [m] cl out (CInit :: ins)) =
    EX f lp_loop (lp_state names (S i) (upd m obj)
                    [{| m_path := PvEntry b; m_bytes := snd (read_lines (fs b)); m_err := ErrNil |}] cl
                    (out ++ [fst (read_lines (fs b))]) ins).
  Proof.
    intros f names i obj m cl out ins b Hn Hm. round_start.
    rewrite select_init. cbn [scoped_run]. rewrite (arm_init_next _ _ _ _ _ _ _ _ b Hn Hm). reflexivity.
  Qed.

  Lemma round_init_last : forall f names i obj m out ins,
    nth_error names i = None -> names <> [] -> m_err m = ErrNil ->
    EX (S f) lp_loop (lp_state names i obj [m] 0 out (CInit :: ins)) =
    EX f lp_loop (lp_state [] i (upd m obj) [] 1 out ins).
  Proof.
    intros f names i obj m out ins Hn Hne Hm. round_start.
    rewrite select_init. cbn [scoped_run]. rewrite (arm_init_last _ _ _ _ _ _ _ Hn Hne Hm). reflexivity.
  Qed.

  Lemma round_event_main : forall f i obj ch cl out ins ev,
    e_name ev = Live ->
    EX (S f) lp_loop (lp_state [] i obj ch cl out (CEvent ev :: ins)) =
    EX f lp_loop (lp_state [] i (fst (on_event obj (e_file ev) (e_op ev))) ch cl
                    (out ++ [snd (on_event obj (e_file ev) (e_op ev))]) ins).
  Proof.
    intros f i obj ch cl out ins ev Hev. round_start.
    rewrite select_event. cbn [scoped_run]. rewrite (arm_event_main _ _ _ _ _ _ _ _ Hev). reflexivity.
  Qed.

  Lemma round_event_skip : forall f names i obj ch cl out ins ev,
    names <> [] \/ name_eqb (e_name ev) Live = false ->
    EX (S f) lp_loop (lp_state names i obj ch cl out (CEvent ev :: ins)) =
    EX f lp_loop (lp_state names i obj ch cl out ins).
  Proof.
    intros f names i obj ch cl out ins ev H. round_start.
    rewrite select_event. cbn [scoped_run]. rewrite (arm_event_skip _ _ _ _ _ _ _ _ _ H). reflexivity.
  Qed.

  Lemma round_blocked : forall f names i obj ch cl out,
    EX (S f) lp_loop (lp_state names i obj ch cl out []) = OBlocked (lp_state names i obj ch cl out []).
  Proof. intros. reflexivity. Qed.
End Loop.

Lemma skipn_S_cons {A} : forall i (l : list A) b r, skipn i l = b :: r -> skipn (S i) l = r.
Proof.
  induction i as [|i IH]; intros l b r H.
  - cbn in H. subst l. reflexivity.
  - destruct l as [|x l]; [discriminate|]. cbn [skipn] in H. change (skipn (S (S i)) (x :: l)) with (skipn (S i) l).
    apply IH with (b := b). exact H.
Qed.

(* the events of the tailing phase, one after the other: those for audit.log go to read *)
Fixpoint tail_events (st : rstate) (evs : list devent) : rstate * list (list str) :=
  match evs with
  | [] => (st, [])
  | ev :: r =>
      if name_eqb (e_name ev) Live then
        let (st1, ls) := on_event st (e_file ev) (e_op ev) in
        let (st2, out) := tail_events st1 r in
        (st2, ls :: out)
      else tail_events st r
  end.

(* the select choices of the start-up phase: one message per initial file and the one that starts it *)
Definition init_choices (names : list name) : list choice :=
  match names with [] => [] | _ => repeat CInit (S (List.length names)) end.

Section Phases.
  Variable plen : pval -> nat.
  Variable d : dir.
  Variable c1 : str -> option (list str * nat * derr).
  Variable c2 : name -> option (list str * nat * derr).
  Variable c3 : rstate -> fsev -> str -> option (rstate * list str * derr).
  Hypothesis Hc2 : forall a, c2 a = Some (fst (read_lines (content d a)), snd (read_lines (content d a)), ErrNil).
  Hypothesis Hc3 : forall st e file, c3 st e file = Some (fst (on_event st file e), snd (on_event st file e), ErrNil).

  Notation EX := (exec gen_methods (fun _ => ErrNil) (fun _ => false) (fenv_ok []) plen c1 c2 c3).

  Lemma name_eqb_Live a : name_eqb a Live = true -> a = Live.
  Proof. destruct a; cbn; congruence. Qed.

  Lemma init_phase : forall r names i obj m out ins f,
    skipn i names = r -> i <= List.length names -> names <> [] -> m_err m = ErrNil ->
    EX (S (List.length r) + f) lp_loop
       (lp_state names i obj [m] 0 out (repeat CInit (S (List.length r)) ++ ins)) =
    EX f lp_loop
       (lp_state [] (List.length names) (fst (read_initial d (upd m obj) r)) [] 1
          (out ++ snd (read_initial d (upd m obj) r)) ins).
  Proof.
    induction r as [|b r IH]; intros names i obj m out ins f Hs Hi Hne Hm.
    - assert (Hlen : List.length names <= i).
      { destruct (Nat.le_gt_cases (List.length names) i) as [H|H]; [exact H|].
        apply (f_equal (@List.length name)) in Hs. rewrite skipn_length in Hs. cbn in Hs. lia. }
      assert (i = List.length names) by lia. subst i.
      cbn [List.length repeat app Nat.add].
      rewrite (round_init_last plen c1 c2 c3) by (try apply nth_error_None; assumption).
      cbn [read_initial fst snd]. rewrite app_nil_r. reflexivity.
    - assert (Hn : nth_error names i = Some b).
      { rewrite <- (firstn_skipn i names) at 1. rewrite Hs.
        rewrite nth_error_app2 by (rewrite firstn_length; lia).
        rewrite firstn_length, Nat.min_l by lia. rewrite Nat.sub_diag. reflexivity. }
      assert (Hs' : skipn (S i) names = r).
      { apply skipn_S_cons with (b := b). exact Hs. }
      assert (Hi' : S i <= List.length names) by (apply nth_error_Some; congruence).
      change (S (List.length (b :: r)) + f) with (S (S (List.length r) + f)).
      change (repeat CInit (S (List.length (b :: r))) ++ ins) with (CInit :: (repeat CInit (S (List.length r)) ++ ins)).
      rewrite (round_init_next plen (content d) c1 c2 c3 Hc2 _ _ _ _ _ _ _ _ b Hn Hm).
      rewrite (IH names (S i) _ {| m_path := PvEntry b; m_bytes := snd (read_lines (content d b)); m_err := ErrNil |} _ ins f Hs' Hi' Hne eq_refl).
      cbn [read_initial]. unfold read_lines, upd at 1 3, startup_lastsz. cbn [fst snd m_path m_bytes pval_eqb].
      destruct (read_initial d _ r) as [st2 out2]. cbn [fst snd]. rewrite <- app_assoc. reflexivity.
  Qed.

  Lemma tail_phase : forall evs i obj ch cl out f,
    EX (S (List.length evs + f)) lp_loop (lp_state [] i obj ch cl out (map CEvent evs)) =
    OBlocked (lp_state [] i (fst (tail_events obj evs)) ch cl (out ++ snd (tail_events obj evs)) []).
  Proof.
    induction evs as [|ev r IH]; intros i obj ch cl out f.
    - cbn [List.length map Nat.add tail_events fst snd]. rewrite app_nil_r. apply round_blocked.
    - cbn [List.length map Nat.add tail_events].
      destruct (name_eqb (e_name ev) Live) eqn:E.
      + rewrite (round_event_main plen c1 c2 c3 Hc3) by (apply name_eqb_Live; exact E).
        rewrite IH. destruct (on_event obj (e_file ev) (e_op ev)) as [st1 ls]. cbn [fst snd].
        destruct (tail_events st1 r) as [st2 o2]. cbn [fst snd]. rewrite <- app_assoc. reflexivity.
      + rewrite round_event_skip by (right; exact E). apply IH.
  Qed.
End Phases.

Theorem loop_from_source : forall (plen : pval -> nat) (d : dir) (names : list name) (evs : list devent),
  run_loop gen_methods gen_readLines gen_readFilePathLines gen_read gen_loopWithError plen (content d) names
    (init_choices names ++ map CEvent evs) =
  LBlocked (fst (tail_events (fst (read_initial d (RS 0 0) names)) evs))
           (snd (read_initial d (RS 0 0) names) ++ snd (tail_events (fst (read_initial d (RS 0 0) names)) evs))
           [] 1 [].
Proof.
  intros plen d names evs. unfold run_loop, exec_block.
  set (c2 := fun a : name => as_call (run_readfile_under (fenv_ok (content d a)) gen_readLines gen_readFilePathLines a)).
  assert (Hc2 : forall a, c2 a = Some (fst (read_lines (content d a)), snd (read_lines (content d a)), ErrNil))
    by (intros a; apply readfile_call).
  set (c3 := fun (st : rstate) (e : fsev) (file : str) =>
               read_as_call (run_read gen_methods gen_readLines gen_read st file e)).
  assert (Hc3 : forall st e file, c3 st e file = Some (fst (on_event st file e), snd (on_event st file e), ErrNil))
    by (intros; apply read_call).
  clearbody c2 c3.
  let P := eval cbv in (firstn 5 (f_body gen_loopWithError)) in
  change (f_body gen_loopWithError) with (P ++ [lp_loop]).
  rewrite block_of_app. remember lp_loop as L eqn:HL.
  destruct names as [|a r].
  - cbn [init_choices app]. rewrite map_length.
    remember (S (List.length evs)) as fuel eqn:Hf.
    cbn. subst L fuel.
    pose proof (tail_phase plen nothing1 c2 c3 Hc3 evs 0 (RS 0 0) [] 1 [] 0) as T.
    rewrite Nat.add_0_r in T. unfold lp_state, lp_env in T. rewrite T. reflexivity.
  - remember (a :: r) as names eqn:Hnm.
    assert (Hne : names <> []) by (subst names; discriminate).
    assert (H0 : (0 <? List.length names) = true) by (subst names; reflexivity).
    replace (init_choices names) with (repeat CInit (S (List.length names))) by (subst names; reflexivity).
    clear Hnm a r.
    rewrite app_length, repeat_length, map_length.
    change (S (List.length names) + List.length evs) with (S (List.length names + List.length evs)).
    remember (S (S (List.length names + List.length evs))) as fuel eqn:Hf.
    cbn -[repeat List.length read_initial tail_events Nat.ltb]. rewrite H0.
    cbn -[repeat read_initial tail_events]. subst L fuel.
    pose proof (init_phase plen d nothing1 c2 c3 Hc2 names names 0 (RS 0 0)
                  {| m_path := PvZero; m_bytes := 0; m_err := ErrNil |} [] (map CEvent evs)
                  (S (List.length evs + 0)) eq_refl (Nat.le_0_l _) Hne eq_refl) as T1.
    pose proof (tail_phase plen nothing1 c2 c3 Hc3 evs (List.length names)
                  (fst (read_initial d (RS 0 0) names)) [] 1 (snd (read_initial d (RS 0 0) names)) 0) as T2.
    unfold upd in T1. cbn [m_path pval_eqb app] in T1. rewrite T2 in T1. clear T2.
    replace (S (List.length names) + S (List.length evs + 0)) with (S (S (List.length names + List.length evs))) in T1 by lia.
    unfold lp_state, lp_env in T1.
    rewrite T1. reflexivity.
Qed.

(* start-up alone, for any list of initial file names in the order given ... *)
Theorem read_initial_from_source : forall (plen : pval -> nat) (d : dir) (names : list name),
  run_loop gen_methods gen_readLines gen_readFilePathLines gen_read gen_loopWithError plen (content d) names
    (init_choices names) =
  LBlocked (fst (read_initial d (RS 0 0) names)) (snd (read_initial d (RS 0 0) names)) [] 1 [].
Proof.
  intros plen d names. pose proof (loop_from_source plen d names []) as H.
  cbn [map tail_events fst snd] in H. rewrite !app_nil_r in H. exact H.
Qed.

(* ... and for the sorted names of the directory: the model's [startup].  Afterwards the loop waits in
   its select with initFileNames = nil, initFilesDone closed once, initFileDone empty. *)
Theorem startup_from_source : forall (plen : pval -> nat) (d : dir),
  run_loop gen_methods gen_readLines gen_readFilePathLines gen_read gen_loopWithError plen (content d)
    (sort_names (map fst d)) (init_choices (sort_names (map fst d))) =
  LBlocked (fst (startup d)) (snd (startup d)) [] 1 [].
Proof. intros plen d. apply read_initial_from_source. Qed.

(* the tailing phase as the model runs it: the events of every operation on audit.log, each with the
   file's content after the operation *)
Definition ev_of (file : str) (e : fsev) : devent := {| e_name := Live; e_op := e; e_file := file |}.

Fixpoint ops_events (live : str) (ops : list op) : list devent :=
  match ops with
  | [] => []
  | o :: r => map (ev_of (apply_op live o)) (events_of o) ++ ops_events (apply_op live o) r
  end.

Lemma tail_events_app : forall a b st,
  tail_events st (a ++ b) =
  (fst (tail_events (fst (tail_events st a)) b), snd (tail_events st a) ++ snd (tail_events (fst (tail_events st a)) b)).
Proof.
  induction a as [|ev a IH]; intros b st.
  - cbn. destruct (tail_events st b); reflexivity.
  - cbn [app tail_events]. destruct (name_eqb (e_name ev) Live).
    + destruct (on_event st (e_file ev) (e_op ev)) as [st1 ls]. rewrite IH.
      destruct (tail_events st1 a) as [st2 o2]. cbn [fst snd]. reflexivity.
    + apply IH.
Qed.

Lemma tail_events_on_events : forall es st file,
  fst (tail_events st (map (ev_of file) es)) = fst (on_events st file es) /\
  concat (snd (tail_events st (map (ev_of file) es))) = snd (on_events st file es).
Proof.
  induction es as [|e es IH]; intros st file; [split; reflexivity|].
  cbn [map tail_events on_events ev_of e_name e_op e_file name_eqb].
  destruct (on_event st file e) as [st1 o1]. destruct (IH st1 file) as [H1 H2].
  destruct (tail_events st1 (map (ev_of file) es)) as [st2 o2].
  destruct (on_events st1 file es) as [st3 o3]. cbn [fst snd concat] in *. subst. split; reflexivity.
Qed.

Lemma tail_events_run_tail : forall ops st live,
  fst (tail_events st (ops_events live ops)) = fst (end_tail st live ops) /\
  concat (snd (tail_events st (ops_events live ops))) = concat (run_tail st live ops).
Proof.
  induction ops as [|o ops IH]; intros st live; [split; reflexivity|].
  cbn [ops_events run_tail end_tail]. rewrite tail_events_app. cbn [fst snd]. unfold DirReader.step.
  destruct (tail_events_on_events (events_of o) st (apply_op live o)) as [H1 H2].
  destruct (on_events st (apply_op live o) (events_of o)) as [st' out]. cbn [fst snd] in *.
  rewrite H1. destruct (IH st' (apply_op live o)) as [H3 H4].
  rewrite concat_app, H2, H3, H4. split; reflexivity.
Qed.

(* The whole run of Model/DirReader.v, [run]: start-up on the sorted names, then the events of the
   operations: the generated loop delivers exactly what the model delivers, in the same order, and
   ends in the model's tail state. *)
Theorem run_from_source : forall (plen : pval -> nat) (d : dir) (ops : list op),
  let names := sort_names (map fst d) in
  exists st out,
    run_loop gen_methods gen_readLines gen_readFilePathLines gen_read gen_loopWithError plen (content d) names
      (init_choices names ++ map CEvent (ops_events (content d Live) ops)) = LBlocked st out [] 1 [] /\
    concat out = concat (snd (startup d)) ++ concat (run_tail (fst (startup d)) (content d Live) ops) /\
    st = fst (end_tail (fst (startup d)) (content d Live) ops).
Proof.
  intros plen d ops names. subst names. eexists. eexists. split; [apply loop_from_source|].
  change (read_initial d (RS 0 0) (sort_names (map fst d))) with (startup d).
  destruct (tail_events_run_tail ops (fst (startup d)) (content d Live)) as [H1 H2].
  rewrite concat_app, H2. split; [reflexivity|exact H1].
Qed.


(* ---- summary ---- *)
Theorem dirreader_from_source :
  (forall s, run_readlines gen_readLines s = RLDone (fst (read_lines s)) (snd (read_lines s)) ErrNil) /\
  (forall st file e,
     run_read gen_methods gen_readLines gen_read st file e =
     RDDone (fst (on_event st file e)) (snd (on_event st file e)) ErrNil) /\
  (forall plen d,
     run_loop gen_methods gen_readLines gen_readFilePathLines gen_read gen_loopWithError plen (content d)
       (sort_names (map fst d)) (init_choices (sort_names (map fst d))) =
     LBlocked (fst (startup d)) (snd (startup d)) [] 1 []).
Proof.
  split; [exact read_lines_from_source|]. split; [exact on_event_from_source|exact startup_from_source].
Qed.

Print Assumptions read_lines_from_source.
Print Assumptions on_event_from_source.
Print Assumptions on_event_from_source_env.
Print Assumptions read_stat_error.
Print Assumptions loop_from_source.
Print Assumptions startup_from_source.
Print Assumptions run_from_source.
Print Assumptions read_lines_reader_error.
Print Assumptions read_lines_cancelled_first.
Print Assumptions read_open_error.
Print Assumptions read_seek_error.
Print Assumptions read_initial_from_source.
Print Assumptions dirreader_from_source.
