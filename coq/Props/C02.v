(* C02 — Every action of a correlated session is emitted exactly once, in order. *)
From Coq Require Import List Bool Arith ZArith NArith.
Import ListNotations.
From AM Require Import Model.Tracker Proofs.TrackerInv Proofs.TrackerSpec Proofs.TrackerLife.
From AM Require Import Model.TrackerConc Proofs.TrackerConcLift.
From AM Require Gen.TrackerLocks.

(* Fix a session s and an sshd pid p.  [allowed_run s p PClean h] is the uniqueness
   discipline of C01 seen from (s, p): LOGIN records of s carry pid p, no other session is
   opened by pid p while a half of (s, p) is waiting, pid p does not log in again while its
   login is waiting, the session id is not re-opened after it ended.  [keeps_run] says that no
   cleanup call discards the waiting half (its cut-off is not later than the half's arrival:
   "within the staleness window").  Under these, at EVERY prefix h (h is arbitrary):
   - until both the LOGIN record (pid p) of s and a valid login with pid p have been
     processed, nothing of s is emitted (held, not lost);
   - afterwards what has been emitted for s is [map (l,_) (firstn k E)] where E is the list of
     the session's events in processing order from its LOGIN record on, l is a delivered login
     with pid p, and k reaches at least the credential-disposal record: a prefix of E, so
     nothing is lost, duplicated or reordered. *)
Theorem C02_exactly_once_in_order : forall (s : N) (p : Z) (h : list top),
  allowed_run s p PClean h -> keeps_run s p PClean h ->
  let out := projs s (outs h) in
  let E := events_from_rec s p h in
  (rec_seen s p h && login_seen p h = false -> out = []) /\
  (rec_seen s p h && login_seen p h = true ->
     exists l k, In_login l h /\ login_p p l = true /\
                 out = map (pair l) (firstn k E) /\ length (take_until_disp E) <= k /\ k <= length E).
Proof. exact once_in_order. Qed.
Print Assumptions C02_exactly_once_in_order.

(* The two hypotheses follow from conditions on the history alone.
   [wf_session s p h]: LOGIN records of s carry pid p; there is at most one of them; no other
   session's LOGIN record carries pid p; at most one valid login with pid p is delivered — the
   "each sshd PID logs in once, PIDs and session IDs are not reused" discipline of C01.
   [no_late_cleanup s p h]: no cleanup call in h has a cut-off later than the arrival of the
   LOGIN record of s / the logged-at time of the login with pid p ("within the staleness window"). *)
Theorem C02_hypotheses_from_history : forall (s : N) (p : Z) (h : list top),
  (wf_session s p h -> allowed_run s p PClean h) /\
  (no_late_cleanup s p h -> keeps_run s p PClean h).
Proof. exact hypotheses_from_history. Qed.
Print Assumptions C02_hypotheses_from_history.

(* ... so, stated purely over histories: *)
Theorem C02_exactly_once_in_order_wf : forall (s : N) (p : Z) (h : list top),
  wf_session s p h -> no_late_cleanup s p h ->
  let out := projs s (outs h) in
  let E := events_from_rec s p h in
  (rec_seen s p h && login_seen p h = false -> out = []) /\
  (rec_seen s p h && login_seen p h = true ->
     exists l k, In_login l h /\ login_p p l = true /\
                 out = map (pair l) (firstn k E) /\ length (take_until_disp E) <= k /\ k <= length E).
Proof. exact once_in_order_wf. Qed.
Print Assumptions C02_exactly_once_in_order_wf.

(* The correlator's outputs for s are those of the five-phase machine, step by step. *)
Theorem C02_refines_machine : forall (s : N) (p : Z) (h : list top),
  allowed_run s p PClean h ->
  projs s (outs h) = snd (prun s p PClean h) /\ rel s p (fst (prun s p PClean h)) (final h).
Proof. exact refine_init. Qed.
Print Assumptions C02_refines_machine.

(* Non-vacuity: the login placed at each of the 5 split points of a 4-event session
   (LOGIN, cmd, cmd, CRED_DISP), with another session pending; hypotheses hold and all four
   events come out once, in order. *)
Definition ev (i : nat) (s : N) (t : atype) (p : Z) := {| a_id := i; a_ses := SId s; a_type := t; a_pid := Some p |}.
Definition lg := {| l_id := 0; l_pid := 70; l_at := 0; l_valid := true |}.
Definition sess4 : list top :=
  [Audit (ev 0 7 TLogin 70) 1; Audit (ev 1 7 (TOther 1) 71) 3; Audit (ev 2 7 (TOther 2) 72) 5; Audit (ev 3 7 TCredDisp 70) 7].
Definition other : top := Audit (ev 9 8 TLogin 80) 0.
Definition split_at (k : nat) : list top := other :: firstn k sess4 ++ [RemoteLogin lg 0] ++ skipn k sess4.

Example C02_example_outputs :
  forall k, In k [0; 1; 2; 3; 4] ->
  map (fun x => a_id (snd x)) (projs 7 (outs (split_at k))) = [0; 1; 2; 3].
Proof. intros k H. cbn in H. repeat (destruct H as [<-|H]; [vm_compute; reflexivity|]). contradiction. Qed.

Example C02_example_wf :
  forall k, In k [0; 1; 2; 3; 4] -> wf_session 7 70 (split_at k) /\ no_late_cleanup 7 70 (split_at k).
Proof.
  intros k H. cbn in H.
  repeat (destruct H as [<-|H]; [split; [constructor; [intros o Ho; cbn in Ho; repeat (destruct Ho as [<-|Ho]; [cbn; tauto|]); contradiction
                                                     |vm_compute; repeat constructor
                                                     |intros o Ho; cbn in Ho; repeat (destruct Ho as [<-|Ho]; [reflexivity|]); contradiction
                                                     |vm_compute; repeat constructor]
                                       |split; intros; cbn in *; repeat match goal with H : _ \/ _ |- _ => destruct H end; try discriminate; try contradiction]|]).
  contradiction.
Qed.

Example C02_example_hyps :
  forall k, In k [0; 1; 2; 3; 4] ->
  allowed_run 7 70 PClean (split_at k) /\ keeps_run 7 70 PClean (split_at k) /\
  rec_seen 7 70 (split_at k) && login_seen 70 (split_at k) = true.
Proof.
  intros k H. cbn in H.
  repeat (destruct H as [<-|H]; [cbn; repeat split; auto; intros; try discriminate; auto|]). contradiction.
Qed.

(* ---------- the same statement for CONCURRENT deliveries ----------
   The daemon delivers logins, audit events and cleanup from different goroutines.  GENERATED from
   sessiontracker.go: every exported method of the correlator is one critical section of one mutex
   (C02_calls_atomic).  Under that mutex every complete execution of every thread system under every
   schedule writes what the sequential correlator writes on the linearization [lin] (calls in the
   order they began, each thread's program order kept; Proofs/TrackerConcLemmas.v), so the theorem
   above holds of every concurrent execution. *)
Theorem C02_calls_atomic : Gen.TrackerLocks.tracker_calls_locked = true.
Proof. vm_compute. reflexivity. Qed.
Print Assumptions C02_calls_atomic.

Theorem C02_exactly_once_in_order_concurrent : forall progs sched (s : N) (p : Z),
  all_done (exec true progs sched) = true ->
  let h := lin progs sched in
  wf_session s p h -> no_late_cleanup s p h ->
  let out := projs s (s_out (exec true progs sched)) in
  let E := events_from_rec s p h in
  (rec_seen s p h && login_seen p h = false -> out = []) /\
  (rec_seen s p h && login_seen p h = true ->
     exists l k, In_login l h /\ login_p p l = true /\
                 out = map (pair l) (firstn k E) /\ length (take_until_disp E) <= k /\ k <= length E).
Proof. exact once_in_order_concurrent. Qed.
Print Assumptions C02_exactly_once_in_order_concurrent.

(* the linearization keeps every thread's program order and contains exactly the threads' calls *)
Theorem C02_linearization_program_order : forall progs sched,
  all_done (exec true progs sched) = true ->
  forall i, i < length progs -> calls_of i (s_order (exec true progs sched)) = nth i progs [].
Proof. exact lin_program_order. Qed.
Print Assumptions C02_linearization_program_order.

(* ---------- the correlator of the model is the correlator of the source ----------
   Gen/TrackerProg.v is REGENERATED on every run by translating sessiontracker.go (RemoteLogin,
   AuditdEvent with both of its branches, the two cleanups, writeAndClearCache, the map operations
   they perform, deferred deletes, early returns and error classes) into a small deep-embedded
   language (Model/TrackerIR.v).  For EVERY state and EVERY operation the hand-written [tstep] of
   Model/Tracker.v, on which the theorems of this file rest, IS the interpretation of the generated
   programs, and that interpretation never gets stuck. *)
From AM Require Model.TrackerIR Gen.TrackerProg Proofs.TrackerIRTie.
Theorem C02_tracker_from_source : forall st o,
  Proofs.TrackerIRTie.run_generated st o = Some (Model.Tracker.tstep st o).
Proof. exact Proofs.TrackerIRTie.tracker_from_source. Qed.
Print Assumptions C02_tracker_from_source.

(* ---------- the daemon configures no time filter ----------
   reassemblerCB drops an event whose timestamp is before Auditd.After.  RunNamedPipe's audit worker (closure
   regenerated into Gen/WorkerBodies.v, normalised by Model/WorkerWiring.v) builds the processor from exactly the
   fields Audits, Logins, EventW, Health: After is the zero time, so in the daemon no event of a correlated session
   is withheld because of its timestamp. *)
From Coq Require Import String.
From AM Require Import Model.WorkerWiring Gen.WorkerBodies Proofs.WorkerWiringTie.
Theorem C02_no_time_filter_in_the_daemon :
  exists fs, bind_opt (ret_of 2) (fun e => option_map fields_of (recv_of e)) = Some fs /\
             List.length fs = 4 /\ ~ In "After"%string fs /\ In "Audits"%string fs /\ In "Logins"%string fs /\
             In "EventW"%string fs /\ In "Health"%string fs.
Proof. exact audit_processor_has_no_time_filter. Qed.
Print Assumptions C02_no_time_filter_in_the_daemon.


(* ====================================================================================================
   What arrives on the pipes is what the processors are handed (round 7).
   C02 is a statement about what the DAEMON emits for the records written to its pipes; the theorems above
   start at the record the processor is handed.  The reader between the two - NamedPipeIngester.Ingest, the
   wrappers of the two ingesters and their Process callbacks - is regenerated into Gen/IngestProg.v on every
   run; the statements below (proved in Proofs/IngestIRTie.v, restated here so that they are obligations of
   C02) say that for every chunking of the pipe's byte stream each newline-terminated record is handed to
   the callback exactly once, in order, with exactly its bytes (Model/Framing.v [ingest], about which C12's
   theorems are proved), that the pipe is opened read-only (so the last writer's close is end-of-stream and an
   unterminated tail is never joined to a later writer's bytes), and what the callback does with the
   record.  Any edit of the reader changes the generated program and these stop checking.
   ==================================================================================================== *)
From Coq Require Import Ascii String List.
From AM Require Import Model.Framing Model.IngestIR Gen.IngestProg Proofs.IngestIRTie.
Import ListNotations.
Open Scope string_scope.
Open Scope list_scope.
Open Scope nat_scope.

Theorem C02_records_reach_processor_unchanged : forall cs cb,
  run_ingest gen_Ingest cs (ascii_of_nat (wr_delim gen_auditlog_Ingest)) cb = Some (ingest cs newline cb) /\
  run_ingest gen_Ingest cs (ascii_of_nat (wr_delim gen_syslog_Ingest)) cb = Some (ingest cs newline cb).
Proof. exact wrapped_ingest_from_source. Qed.
Print Assumptions C02_records_reach_processor_unchanged.

(* the reader's statements: ReadString with the caller's delimiter, the line handed on as it was read *)
Theorem C02_pipe_reader_loop_from_source :
  ip_loop gen_Ingest = [
    IReadString "line" "err" DParam;
    IIf (CErrNotNil "err") [ILog "Errorf"; IReturn (EVar "err")] [];
    ICallback (TAssign "err") (SVar "line");
    IIf (CErrNotNil "err") [IReturn (EVar "err")] []].
Proof. exact loop_shape_from_source. Qed.
Print Assumptions C02_pipe_reader_loop_from_source.

(* the set-up: read-only open in a goroutine with a cancellable wait, errors returned unchanged, the file closed
   on cancellation and on return, the reader reads that file *)
Theorem C02_pipe_open_from_source :
  (exists i j, index_of is_onready (ip_setup gen_Ingest) = Some i /\
               index_of is_open (ip_setup gen_Ingest) = Some j /\ i < j) /\
  In (SOnReady "named-pipe-processor") (ip_setup gen_Ingest) /\
  In (SGoOpen "file" "err" ["O_RDONLY"] "ModeNamedPipe" "ready") (ip_setup gen_Ingest) /\
  In (SSelect [SArmDone ECtxErr; SArmRecv "ready"]) (ip_setup gen_Ingest) /\
  open_is_cancellable (ip_setup gen_Ingest) = true /\
  In (SIfErrReturn "err" (EVar "err")) (ip_setup gen_Ingest) /\
  In (SGoCloseOnCancel "file") (ip_setup gen_Ingest) /\
  read_is_cancellable (ip_setup gen_Ingest) = true /\
  In (SDeferClose "file") (ip_setup gen_Ingest) /\
  In (SNewReader "r" "file") (ip_setup gen_Ingest).
Proof. exact setup_from_source. Qed.
Print Assumptions C02_pipe_open_from_source.

(* audit pipe: the callback is one select with a ctx.Done arm (returns ctx.Err()) and the send of the line,
   unchanged, on AuditLogChan (returns nil) *)
Theorem C02_audit_record_reaches_processor :
  gen_auditlog_Process =
  {| pr_line := "line";
     pr_body := PSelect [PArmDone ECtxErr; PArmSend "AuditLogChan" (SVar "line") ENil] |}.
Proof. exact auditlog_process_from_source. Qed.
Print Assumptions C02_audit_record_reaches_processor.
