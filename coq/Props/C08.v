(* C08 — Fail-stop: a worker failure or termination signal ends the whole daemon. *)
From Coq Require Import String List Bool Arith.
Import ListNotations.
From AM Require Gen.Blocking.
From AM Require Import Model.Workers Proofs.WorkersLemmas.
Open Scope string_scope.

(* the wiring of cmd/namedpipe.go and main.go, as extracted from the current source *)
Theorem C08_wiring :
  Gen.Blocking.group_workers = ["sshd_ingester"; "audit_ingester"; "audit_processor"] /\
  Gen.Blocking.group_ctx_derived_from_root = true /\
  Gen.Blocking.group_wait_error_returned = true /\
  Gen.Blocking.group_fifo_checked = true /\
  Gen.Blocking.signals_cancel_root = true /\
  Gen.Blocking.main_fatal_on_error = true.
Proof. vm_compute. repeat split; reflexivity. Qed.
Print Assumptions C08_wiring.

(* the same obligation on the generated table as C13 *)
Theorem C08_rows_guarded :
  forallb row_guarded Gen.Blocking.blocking_rows = true /\
  forallb helper_ok Gen.Blocking.helper_rows = true.
Proof. vm_compute. split; reflexivity. Qed.
Print Assumptions C08_rows_guarded.

(* the daemon: errgroup over the workers that cmd/namedpipe.go starts *)
Definition daemon : list wdesc :=
  map (wdesc_of Gen.Blocking.blocking_rows Gen.Blocking.helper_rows) Gen.Blocking.group_workers.

(* From every reachable state s of the daemon (any worker running or blocked at any row of the
   table, e.g. the audit ingester blocked on the full line buffer):
   (1) a round in which a worker function returns an error (pipe EOF / read error, unparsable
       audit line, event write error, path not a FIFO) leaves the group context cancelled;
   (2) once the group context is cancelled (such a failure, or SIGTERM / SIGINT), every fair run
       has exited after cancel_bound K = 2K+4 daemon rounds (a round = each goroutine of each
       worker scheduled at least once, so at least one step per goroutine: linear in the number
       of workers), with status 1 whenever a worker function had failed. *)
Theorem C08_fail_stop : forall K s, dreach K daemon s ->
  (forall s1, dround daemon s s1 -> any_failed (d_ws s1) = true -> d_cancel s1 = true) /\
  (d_cancel s = true -> forall n s', cancel_bound K <= n -> drounds daemon n s s' ->
     exists st, exited s' = Some st /\ (any_failed (d_ws s) = true -> st = 1)).
Proof. exact (fail_stop_table _ _ _ C08_rows_guarded). Qed.
Print Assumptions C08_fail_stop.

(* Non-vacuity: three workers; a daemon whose workers have all returned, one of them with an
   error, has exited with status 1; with no error, status 0; with a live worker it has not exited. *)
Example C08_examples :
  length daemon = 3 /\
  exited (mkDst true [mkWst (Returned true) []; mkWst (Returned true) []; mkWst (Returned false) []]) = Some 1 /\
  exited (mkDst true [mkWst (Returned false) []; mkWst (Returned false) []; mkWst (Returned false) []]) = Some 0 /\
  exited (mkDst true [mkWst (Returned true) []; mkWst (Running 0) []; mkWst (Returned false) []]) = None.
Proof. vm_compute. repeat split; reflexivity. Qed.

(* ---------- the cancellation idioms of the pipe ingester, read from the source a second time ----------
   (see C13_ingest_setup_from_source: the set-up of Ingest as generated data; anything between the open
   and the reader that is not one of the recognised statements makes the generated file ill-typed) *)
From AM Require Import Model.IngestIR Gen.IngestProg Proofs.IngestIRTie.
Theorem C08_ingest_setup_from_source :
  open_is_cancellable (ip_setup gen_Ingest) = true /\ read_is_cancellable (ip_setup gen_Ingest) = true.
Proof. pose proof setup_from_source as H. tauto. Qed.
Print Assumptions C08_ingest_setup_from_source.

(* ================= main.go and the rest of the wiring, read from the source =================
   Gen/DaemonMain.v is REGENERATED on every run (tools/go2v/wiringgen.go): the function of main.go that builds
   the root context (signal.NotifyContext on context.Background() with which signals, stop deferred), hands it to
   cmd.RunNamedPipe and returns its error; func main INTERPRETED statement by statement for a non-nil and for a nil
   error of that function (log.Fatal* = status 1, os.Exit(n) = n, panic = 2, return / end of main = 0; anything else
   does not type-check); `go` statements and <group>.Go calls of packages main and cmd; flag defaults. *)
From AM Require Gen.DaemonMain Proofs.DaemonMainLemmas.

(* The status [exited] of Model/Workers.v (used by C08_fail_stop) is the status the source yields: non-zero iff a
   worker function returned an error.  The chain: eg.Wait()'s error is returned by RunNamedPipe (Gen/Blocking.v) and
   `return nil` follows only otherwise; the runner returns RunNamedPipe's error unchanged; func main turns a non-nil
   error into [exit_status_on_error] and nil into [exit_status_on_nil]. *)
Theorem C08_exit_status_from_source :
  (Gen.DaemonMain.exit_status_on_error <> 0 /\ Gen.DaemonMain.exit_status_on_nil = 0) /\
  (Gen.DaemonMain.run_error_returned = true /\ Gen.Blocking.group_wait_error_returned = true /\
   Gen.DaemonMain.run_returns_nil_at_end = true) /\
  (forall s st, exited s = Some st ->
     st = if any_failed (d_ws s) then Gen.DaemonMain.exit_status_on_error else Gen.DaemonMain.exit_status_on_nil) /\
  (forall s st, exited s = Some st -> (st <> 0 <-> any_failed (d_ws s) = true)).
Proof. exact Proofs.DaemonMainLemmas.exit_status_from_source. Qed.
Print Assumptions C08_exit_status_from_source.

(* SIGTERM (15) and SIGINT (2) cancel the root context, which is the context RunNamedPipe derives the group
   context from (so a signal is the [d_cancel] of a daemon round) *)
Theorem C08_signals_from_source :
  Gen.DaemonMain.root_ctx_ctor = "signal.NotifyContext" /\ Gen.DaemonMain.root_ctx_parent = "context.Background()" /\
  In 15 Gen.DaemonMain.root_signal_numbers /\ In 2 Gen.DaemonMain.root_signal_numbers /\
  Gen.DaemonMain.root_stop_deferred = true /\ Gen.DaemonMain.root_ctx_passed_to_run = true /\
  Gen.DaemonMain.run_args_plain = true /\ Gen.Blocking.group_ctx_derived_from_root = true.
Proof. exact Proofs.DaemonMainLemmas.signals_from_source. Qed.
Print Assumptions C08_signals_from_source.

(* every goroutine started in packages main and cmd goes through the errgroup (no `go` statement); RunNamedPipe's
   <group>.Go calls are exactly the three workers of [daemon]; the remaining ones are the optional workers *)
Theorem C08_goroutines_managed_from_source : Proofs.DaemonMainLemmas.goroutines_managed_ok = true.
Proof. exact Proofs.DaemonMainLemmas.goroutines_managed_from_source. Qed.
Print Assumptions C08_goroutines_managed_from_source.

(* ... and those need a flag whose default is "false": with default flags [daemon] is the whole errgroup *)
Theorem C08_optional_workers_off_by_default : forall f n fl, In (f, n, fl) Gen.DaemonMain.optional_workers ->
  fl <> [] /\ forall x d, In (x, d) fl -> d = "false".
Proof. exact Proofs.DaemonMainLemmas.optional_workers_off_by_default. Qed.
Print Assumptions C08_optional_workers_off_by_default.

(* the three default paths (two pipes, events file) are pairwise different *)
Theorem C08_default_paths_distinct :
  Gen.DaemonMain.sshd_pipe_default <> Gen.DaemonMain.audit_pipe_default /\
  Gen.DaemonMain.events_output_default <> Gen.DaemonMain.sshd_pipe_default /\
  Gen.DaemonMain.events_output_default <> Gen.DaemonMain.audit_pipe_default.
Proof. exact Proofs.DaemonMainLemmas.default_paths_distinct. Qed.
Print Assumptions C08_default_paths_distinct.

(* ---------- the three workers' closures, read from the source statement by statement ----------
   (Gen/WorkerBodies.v, normalised by Model/WorkerWiring.v.)  Each pipe worker first refuses a path that is not a
   named pipe and returns that error (wrapped, hence non-nil); every worker's result is the result of its entry
   method — Ingest / Read — called with the errgroup's context: a failure is neither swallowed nor replaced, so
   eg.Wait() sees it and the group context is cancelled for the siblings. *)
From AM Require Import Model.WorkerWiring Gen.WorkerBodies Proofs.WorkerWiringTie.
Theorem C08_worker_wiring_from_source : all_eq normalised expected = true.
Proof. exact worker_wiring_from_source. Qed.
Print Assumptions C08_worker_wiring_from_source.

Theorem C08_workers_return_their_errors :
  guards_eq (guards_of 0) [(WCall "common.IsNamedPipe" [WVar "sshdLogFilePath"], true)] = true /\
  guards_eq (guards_of 1) [(WCall "common.IsNamedPipe" [WVar "auditdLogFilePath"], true)] = true /\
  guards_of 2 = [] /\
  forallb (fun i => match ret_of i with Some (WMethod (WLit _ _ _) m _) => String.eqb m "Ingest" || String.eqb m "Read" | _ => false end)
          [0; 1; 2] = true.
Proof. exact workers_return_their_errors. Qed.
Print Assumptions C08_workers_return_their_errors.

Theorem C08_workers_run_on_group_context :
  forallb (fun i => match ret_of i with Some (WMethod _ _ [WVar "groupCtx"]) => true | _ => false end) [0; 1; 2] = true /\
  opt_weq (bind_opt (bind_opt (bind_opt (ret_of 0) recv_of) (field_of "SshdProcessor")) (field_of "ctx")) (WVar "groupCtx") = true /\
  resolve_shared gen_shared "groupCtx" = Some (WResult (WCall "errgroup.WithContext" [WVar "ctx"]) 1) /\
  resolve_shared gen_shared "eg" = Some (WResult (WCall "errgroup.WithContext" [WVar "ctx"]) 0).
Proof. exact workers_run_on_group_context. Qed.
Print Assumptions C08_workers_run_on_group_context.

(* ---------- the audit line parser stops at once when its context is done, even with lines waiting ----------
   (the saturated-stream case of this property.)  Gen/AuditProg.v is regenerated on every run from
   parseAuditLogs; interpreted by Model/AuditIR.v: when the context is done, the loop returns ctx.Err() — whether
   the cancellation is seen by the select or a line is already waiting in the buffer (the check at the top of every
   iteration comes first) — and consumes nothing.  So Read's deferred join (stop the parser, wait for it) cannot be
   held up by a buffer the ingester keeps full. *)
From AM Require Model.AuditProc Model.AuditIR Gen.AuditProg Proofs.AuditIRTie.
Section ParserStops.
  Import Model.AuditProc Model.AuditIR Gen.AuditProg Proofs.AuditIRTie.
  Variables line msg event cerr login AS : Type.
  Variable is_empty : line -> bool.
  Variable parse : line -> option msg.
  Variable mseq : msg -> BinNums.N.
  Variable mtype : msg -> nat.
  Variable coalesce : list msg -> option event.
  Variable old : event -> bool.
  Variable audit : AS -> event -> AS * option cerr.
  Variable rlogin : AS -> login -> AS * option cerr.
  Variables csess clogins : AS -> tmv -> AS.
  Variable dur : BinNums.Z -> nat.

  Theorem C08_parser_returns_on_cancel : forall lim b (p : pst line msg event cerr AS),
    parse_iter_gen line msg event cerr login AS is_empty parse mseq mtype coalesce old audit rlogin csess clogins dur
                   gen_audit lim (EvCancel line login b) p = Some (p, Some (Some (XCtx line msg cerr))).
  Proof. exact (parse_cancel_from_source line msg event cerr login AS is_empty parse mseq mtype coalesce old audit rlogin csess clogins dur). Qed.

  Theorem C08_parser_returns_on_cancel_with_lines_waiting : forall lim now l (p : pst line msg event cerr AS),
    parse_iter_gen line msg event cerr login AS is_empty parse mseq mtype coalesce old audit rlogin csess clogins dur
                   gen_audit lim (EvLineCancelled line login now l) p = Some (p, Some (Some (XCtx line msg cerr))).
  Proof. exact (parse_line_after_cancel_from_source line msg event cerr login AS is_empty parse mseq mtype coalesce old audit rlogin csess clogins dur). Qed.
End ParserStops.
Print Assumptions C08_parser_returns_on_cancel.
Print Assumptions C08_parser_returns_on_cancel_with_lines_waiting.

(* ---------- the optional workers (-metrics, -healthz, -audit-metrics), read from the source ----------
   Gen/OptWorkers.v is REGENERATED on every run from cmd/cmd.go.  For EVERY valuation of the flags: the HTTP
   server's two goroutines exist exactly when -metrics or -healthz is given; "serve" returns ListenAndServe's error to
   the errgroup (a failure to listen ends the daemon), "stop" waits for the group context and then shuts that same
   server down (which makes ListenAndServe return); the audit.log ticker exists exactly with -audit-metrics and is a
   select loop whose ctx.Done() arm returns and whose other arm can neither block nor leave the loop. *)
From AM Require Import Model.OptWorkers Gen.OptWorkers Proofs.OptWorkersTie.
Theorem C08_http_server_goroutines_from_source : forall fl : flags,
  option_map goroutines (effects fl gen_handleMetricsAndHealth) =
  Some (if fl "enableMetrics"%string || fl "enableHealthz"%string then [g_serve; g_stop] else []).
Proof. exact server_goroutines_from_source. Qed.
Print Assumptions C08_http_server_goroutines_from_source.

Theorem C08_audit_metrics_ticker_from_source : forall fl : flags,
  match option_map goroutines (effects fl gen_handleAuditLogMetrics) with
  | Some gs => if fl "enableAuditMetrics"%string then exists g, gs = [g] /\ is_ticker_loop g = true else gs = []
  | None => False
  end.
Proof. exact audit_metrics_from_source. Qed.
Print Assumptions C08_audit_metrics_ticker_from_source.
